(* C17: decoding what the serializer model wrote gives back the structure (with the length and flag fields
   the serializer computed), and the size bounds.
   runs_to m bs v : the decoder m, started on bs followed by anything, consumes exactly bs and returns v. *)
From Coq Require Import List NArith Bool Arith Lia ZArith.
From Coq Require Import ZifyBool ZifyNat ZifyN.
Import ListNotations.
From BioVerif Require Import Model.BGPCodec Model.BGPEncode Spec.BGPRoundtripSpec Proofs.BGPCodecProofs.
Local Open Scope N_scope.
Ltac Zify.zify_post_hook ::= Z.div_mod_to_equations.

Definition runs_to {A} (m : M A) (bs : list N) (v : A) : Prop :=
  forall rest al, exists al', m (bs ++ rest) al = (Ok v rest, al').

Lemma rt_ret : forall A (v : A), runs_to (ret v) [] v.
Proof. intros A v rest al. exists al. reflexivity. Qed.

Lemma rt_bind : forall A B (m : M A) (k : A -> M B) b1 b2 v1 v2,
  runs_to m b1 v1 -> runs_to (k v1) b2 v2 -> runs_to (bind m k) (b1 ++ b2) v2.
Proof.
  intros A B m k b1 b2 v1 v2 H1 H2 rest al. unfold bind. rewrite <- app_assoc.
  destruct (H1 (b2 ++ rest) al) as (al1 & E1). rewrite E1. apply H2.
Qed.

Lemma rt_bind_r : forall A B (m : M A) (k : A -> M B) b v1 v2,
  runs_to m b v1 -> runs_to (k v1) [] v2 -> runs_to (bind m k) b v2.
Proof. intros. rewrite <- (app_nil_r b). eapply rt_bind; eauto. Qed.

Lemma rt_bind_l : forall A B (m : M A) (k : A -> M B) b v1 v2,
  runs_to m [] v1 -> runs_to (k v1) b v2 -> runs_to (bind m k) b v2.
Proof. intros. change b with ([] ++ b). eapply rt_bind; eauto. Qed.

Lemma rt_guard : runs_to (guard true) [] tt.
Proof. apply rt_ret. Qed.

Lemma rt_alloc : forall n, runs_to (alloc n) [] tt.
Proof. intros n rest al. exists (al + n). reflexivity. Qed.

Lemma rt_getBuf_nil : forall A (k : list N -> M A) bs v,
  (forall rest, runs_to (k (bs ++ rest)) bs v) -> forall rest al, exists al', bind getBuf k (bs ++ rest) al = (Ok v rest, al').
Proof. intros A k bs v H rest al. unfold bind, getBuf. apply H. Qed.


Lemma byte_id : forall x, x < 256 -> byte x = x.
Proof. intros. unfold byte. apply N.mod_small. assumption. Qed.

Lemma map_byte_id : forall l, bytes_ok l -> map byte l = l.
Proof.
  intros l H. induction H as [|x l Hx _ IH]; [reflexivity|]. cbn [map]. rewrite byte_id, IH; auto.
Qed.

Lemma rt_readByte : forall x, x < 256 -> runs_to readByte [x] x.
Proof. intros x Hx rest al. exists al. cbn. rewrite byte_id; auto. Qed.

Lemma rt_readU16 : forall v, v < 65536 -> runs_to readU16 (u16be v) v.
Proof.
  intros v Hv rest al. exists al. unfold readU16, u16be, bind, readByte, ret. cbn [app].
  rewrite !byte_id by lia. f_equal. f_equal. lia.
Qed.

Lemma rt_readU32 : forall v, v < 4294967296 -> runs_to readU32 (u32be v) v.
Proof.
  intros v Hv rest al. exists al. unfold readU32, u32be, bytes32, bind, readByte, ret. cbn [app].
  rewrite N.mod_small by lia. rewrite !byte_id by lia. f_equal. f_equal. lia.
Qed.

Lemma firstn_app_len : forall (a b : list N), firstn (length a) (a ++ b) = a.
Proof. intros. rewrite firstn_app, Nat.sub_diag, firstn_all. cbn. apply app_nil_r. Qed.
Lemma skipn_app_len : forall (a b : list N), skipn (length a) (a ++ b) = b.
Proof. intros. rewrite skipn_app, Nat.sub_diag, skipn_all. reflexivity. Qed.

Lemma to_nat_len : forall (a : list N), N.to_nat (len a) = length a.
Proof. intros. unfold len. lia. Qed.

Lemma rt_binRead : forall bs, bytes_ok bs -> runs_to (binRead (len bs)) bs bs.
Proof.
  intros bs Hb rest al. exists al. unfold binRead. rewrite to_nat_len, firstn_app_len, skipn_app_len.
  rewrite N.eqb_refl, map_byte_id; auto.
Qed.

Lemma rt_dumpN : forall bs, runs_to (dumpN (len bs)) bs tt.
Proof.
  intros bs rest al. exists al. unfold dumpN. rewrite to_nat_len, firstn_app_len, skipn_app_len.
  rewrite N.eqb_refl. reflexivity.
Qed.

Lemma rt_bufReadFull : forall bs, bytes_ok bs -> runs_to (bufReadFull (len bs)) bs bs.
Proof.
  intros bs Hb rest al. exists al. unfold bufReadFull, bind, bufRead.
  destruct (len bs =? 0) eqn:E0.
  - destruct bs; [|unfold len in E0; cbn in E0; lia]. cbn. reflexivity.
  - destruct bs as [|x t]; [discriminate|]. set (bs := x :: t) in *.
    change ((x :: t) ++ rest) with (bs ++ rest).
    assert (Hne : exists y r, bs ++ rest = y :: r) by (exists x, (t ++ rest); reflexivity).
    destruct Hne as (y & r & Hne). rewrite Hne. rewrite <- Hne.
    rewrite to_nat_len, firstn_app_len. rewrite to_nat_len, skipn_app_len.
    rewrite N.sub_diag. cbn [N.to_nat repeat]. rewrite app_nil_r, map_byte_id by auto.
    rewrite N.ltb_irrefl. cbn [negb]. unfold guard, ret. reflexivity.
Qed.

Lemma be32_bytes32 : forall v, v < 4294967296 -> be32 (bytes32 v) = v.
Proof. intros v Hv. unfold be32, bytes32. cbn [nth]. lia. Qed.

Lemma bytes32_ok : forall v, bytes_ok (bytes32 v).
Proof. intros. unfold bytes32, bytes_ok. repeat constructor; apply N.mod_lt; lia. Qed.

Lemma len_bytes32 : forall v, len (bytes32 v) = 4.
Proof. reflexivity. Qed.

Lemma rt_read4 : forall v, v < 4294967296 -> runs_to read4 (u32be v) v.
Proof.
  intros v Hv. unfold read4, u32be. rewrite N.mod_small by lia.
  rewrite <- (app_nil_r (bytes32 v)). eapply rt_bind.
  - change 4 with (len (bytes32 v)). apply rt_bufReadFull. apply bytes32_ok.
  - cbv beta. replace (nth 0 (bytes32 v) 0 * 16777216 + nth 1 (bytes32 v) 0 * 65536 + nth 2 (bytes32 v) 0 * 256 +
                       nth 3 (bytes32 v) 0) with v; [apply rt_ret|].
    symmetry. apply be32_bytes32. exact Hv.
Qed.

(* ------------------------------------------------------------------ prefixes *)

Lemma allZero_repeat : forall l, allZero l = true -> l = repeat 0 (length l).
Proof.
  induction l as [|x l IH]; intros H; [reflexivity|].
  unfold allZero in *. cbn [forallb] in H. apply andb_true_iff in H. destruct H as (Hx & Hl).
  cbn [length repeat]. f_equal; [lia|auto].
Qed.

Lemma firstn_repeat : forall (x : N) k n, (k <= n)%nat -> firstn k (repeat x n) = repeat x k.
Proof.
  intros x k. induction k as [|k IH]; intros n Hk; [reflexivity|].
  destruct n as [|n]; [lia|]. cbn [repeat firstn]. f_equal. apply IH. lia.
Qed.

(* copy(ipBytes, b) for b = the first nb bytes of a byte-clean address gives the address back *)
Lemma pad_clean : forall addr nb n,
  length addr = n -> (nb <= n)%nat -> allZero (skipn nb addr) = true ->
  firstn n (firstn nb addr ++ repeat 0 n) = addr.
Proof.
  intros addr nb n Hl Hnb Hz.
  rewrite firstn_app, firstn_length, Nat.min_l by lia.
  rewrite (firstn_all2 (firstn nb addr)) by (rewrite firstn_length; lia).
  rewrite firstn_repeat by lia.
  rewrite <- (firstn_skipn nb addr) at 2. f_equal.
  rewrite (allZero_repeat _ Hz), skipn_length. f_equal. lia.
Qed.

Lemma nth_pad0 : forall (l : list N) k i, nth i (l ++ repeat 0 k) 0 = nth i l 0.
Proof.
  intros l k i. destruct (Nat.lt_ge_cases i (length l)) as [H|H].
  - apply app_nth1. exact H.
  - rewrite app_nth2 by lia. rewrite (nth_overflow l) by lia.
    destruct (Nat.lt_ge_cases (i - length l) k) as [H2|H2].
    + apply nth_repeat.
    + apply nth_overflow. rewrite repeat_length. lia.
Qed.

Lemma be32_pad0 : forall l k, be32 (l ++ repeat 0 k) = be32 l.
Proof. intros. unfold be32. rewrite !nth_pad0. reflexivity. Qed.

Lemma be32_clean : forall v nb, v < 4294967296 -> (nb <= 4)%nat ->
  allZero (skipn nb (bytes32 v)) = true -> be32 (firstn nb (bytes32 v)) = v.
Proof.
  intros v nb Hv Hnb Hz.
  rewrite <- (be32_pad0 _ 4).
  assert (E : firstn nb (bytes32 v) ++ repeat 0 4 = firstn 4 (firstn nb (bytes32 v) ++ repeat 0 4) ++
              skipn 4 (firstn nb (bytes32 v) ++ repeat 0 4)) by (symmetry; apply firstn_skipn).
  rewrite E, pad_clean by (auto; reflexivity).
  unfold be32. rewrite !(app_nth1 (bytes32 v)) by (cbn; lia). apply be32_bytes32. exact Hv.
Qed.

Lemma be64_bytes64 : forall hi rest, hi < 18446744073709551616 -> be64 (bytes64 hi ++ rest) = hi.
Proof.
  intros hi rest H. unfold be64, be32, bytes64, bytes32. cbn [app skipn nth]. lia.
Qed.

Lemma bytes64_ok : forall v, bytes_ok (bytes64 v).
Proof. intros. unfold bytes64. apply Forall_app. split; apply bytes32_ok. Qed.

Lemma ipBytes_ok : forall a, bytes_ok (ipBytes a).
Proof. intros [v|hi lo]; cbn [ipBytes]; [apply bytes32_ok|apply Forall_app; split; apply bytes64_ok]. Qed.

Lemma firstn_ok : forall k l, bytes_ok l -> bytes_ok (firstn k l).
Proof.
  intros k l H. revert k. induction H as [|x l Hx Hl IH]; intros k.
  - rewrite firstn_nil. constructor.
  - destruct k; cbn [firstn]; [constructor|]. constructor; [exact Hx|apply IH].
Qed.

(* ------------------------------------------------------------------ NLRI *)

Lemma bytesInAddr_bound : forall afi pl, pl <= afiAddrLen afi * 8 -> bytesInAddr pl <= afiAddrLen afi.
Proof. intros afi pl H. unfold bytesInAddr. unfold afiAddrLen in *. destruct (afi =? 1); [lia|]. destruct (afi =? 2); lia. Qed.

Lemma len_ipBytes : forall a, len (ipBytes a) = match a with IP4 _ => 4 | IP6 _ _ => 16 end.
Proof. intros [v|hi lo]; reflexivity. Qed.

Lemma rt_deserializePrefix : forall afi p,
  wf_prefix afi p ->
  runs_to (deserializePrefix (firstn (N.to_nat (bytesInAddr (p_len p))) (ipBytes (p_ip p))) (p_len p) afi) [] p.
Proof.
  intros afi [a pl] (Hl & Hz & Hip). cbn [p_ip p_len] in *.
  pose proof (bytesInAddr_bound _ _ Hl) as Hnb.
  unfold deserializePrefix.
  change (@nil N) with (@nil N ++ []). eapply rt_bind.
  { replace (bytesInAddr pl =? len (firstn (N.to_nat (bytesInAddr pl)) (ipBytes a))) with true; [apply rt_guard|].
    symmetry. rewrite len_firstn, len_ipBytes. destruct a as [v|hi lo]; destruct Hip as (Ha & _); subst afi;
      cbn in Hnb; lia. }
  change (@nil N) with (@nil N ++ []). eapply rt_bind.
  { replace (pl <=? afiAddrLen afi * 8) with true by lia. apply rt_guard. }
  destruct a as [v|hi lo].
  - destruct Hip as (Ha & Hv). subst afi. cbn [N.eqb Pos.eqb].
    replace (ipv4FromBytes (firstn (N.to_nat (bytesInAddr pl)) (ipBytes (IP4 v)))) with (IP4 v); [apply rt_ret|].
    unfold ipv4FromBytes. cbn [ipBytes]. cbn in Hnb.
    replace (len (firstn (N.to_nat (bytesInAddr pl)) (bytes32 v)) <=? 4) with true
      by (symmetry; rewrite len_firstn, len_bytes32; lia).
    f_equal. symmetry. apply be32_clean; [exact Hv|lia|exact Hz].
  - destruct Hip as (Ha & Hhi & Hlo & Hvalid). subst afi. cbn [N.eqb Pos.eqb afiAddrLen].
    change (N.to_nat (afiAddrLen 2)) with 16%nat.
    rewrite pad_clean; [|reflexivity|cbn in Hnb; lia|exact Hz].
    cbn [ipBytes].
    assert (E1 : be64 (bytes64 hi ++ bytes64 lo) = hi) by (apply be64_bytes64; exact Hhi).
    assert (E2 : be64 (skipn 8 (bytes64 hi ++ bytes64 lo)) = lo).
    { change (skipn 8 (bytes64 hi ++ bytes64 lo)) with (bytes64 lo).
      rewrite <- (app_nil_r (bytes64 lo)). apply be64_bytes64. exact Hlo. }
    unfold ipFromBytes.
    change (len (bytes64 hi ++ bytes64 lo)) with 16. cbn [N.eqb Pos.eqb].
    destruct (allZero _ && _ && _); rewrite E1, E2.
    + change (@nil N) with (@nil N ++ []). eapply rt_bind; [rewrite Hvalid; apply rt_guard|apply rt_ret].
    + change (@nil N) with (@nil N ++ []). eapply rt_bind; [rewrite Hvalid; apply rt_guard|apply rt_ret].
Qed.

Definition nlriBytes (ap : bool) (n : nlri) : list N :=
  (if ap then u32be (n_id n) else []) ++ [p_len (n_pfx n)] ++
  firstn (N.to_nat (bytesInAddr (p_len (n_pfx n)))) (ipBytes (p_ip (n_pfx n))).

Lemma wf_nlri_plen : forall afi ap n, wf_nlri afi ap n -> p_len (n_pfx n) <= 128.
Proof.
  intros afi ap n (_ & _ & _ & (Hl & _)). unfold afiAddrLen in Hl.
  destruct (afi =? 1); [lia|]. destruct (afi =? 2); lia.
Qed.

Lemma encodeNLRI_wf : forall afi ap safi n, wf_nlri afi ap n -> (safi =? 4) = false ->
  encodeNLRI ap safi n = Some (nlriBytes ap n, len (nlriBytes ap n)).
Proof.
  intros afi ap safi n Hwf Hs. pose proof (wf_nlri_plen _ _ _ Hwf) as Hpl.
  destruct Hwf as (Hlab & Hid & Hap & (Hl & Hz & Hip)).
  pose proof (bytesInAddr_bound _ _ Hl) as Hnb.
  unfold encodeNLRI, nlriBytes. rewrite Hs.
  assert (Hlen : len (ipBytes (p_ip (n_pfx n))) <? bytesInAddr (p_len (n_pfx n)) = false).
  { rewrite len_ipBytes. destruct (p_ip (n_pfx n)); destruct Hip as (Ha & _); subst afi; cbn in Hnb; lia. }
  rewrite Hlen. rewrite N.mod_small by lia. cbn [app]. f_equal. f_equal.
  assert (Hf : len (firstn (N.to_nat (bytesInAddr (p_len (n_pfx n)))) (ipBytes (p_ip (n_pfx n)))) =
               bytesInAddr (p_len (n_pfx n))) by (rewrite len_firstn; lia).
  rewrite len_app, len_cons, Hf, len_nil.
  assert (bytesInAddr (p_len (n_pfx n)) <= 16) by (unfold bytesInAddr; lia).
  destruct ap; [change (len (u32be (n_id n))) with 4|rewrite len_nil]; lia.
Qed.

Lemma rt_decodeNLRI : forall fuel afi ap n, wf_nlri afi ap n ->
  runs_to (decodeNLRI fuel afi 1 ap) (nlriBytes ap n) (n, len (nlriBytes ap n)).
Proof.
  intros fuel afi ap n Hwf. pose proof (wf_nlri_plen _ _ _ Hwf) as Hpl.
  destruct Hwf as (Hlab & Hid & Hap & Hp).
  destruct n as [id labels pfx]. cbn [n_id n_labels n_pfx] in *. subst labels.
  unfold decodeNLRI, nlriBytes. cbn [n_id n_pfx].
  eapply rt_bind with (v1 := (id, if ap then 4 else 0)).
  { destruct ap.
    - rewrite <- (app_nil_r (u32be id)). eapply rt_bind; [apply rt_readU32; exact Hid|apply rt_ret].
    - rewrite (Hap eq_refl). apply rt_ret. }
  cbv beta iota.
  eapply rt_bind; [apply rt_readByte; lia|]. cbv beta zeta. cbn [N.eqb Pos.eqb].
  change (firstn (N.to_nat (bytesInAddr (p_len pfx))) (ipBytes (p_ip pfx)))
    with ([] ++ firstn (N.to_nat (bytesInAddr (p_len pfx))) (ipBytes (p_ip pfx))).
  eapply rt_bind; [apply rt_ret|]. cbv beta iota.
  change (firstn (N.to_nat (bytesInAddr (p_len pfx))) (ipBytes (p_ip pfx)))
    with ([] ++ firstn (N.to_nat (bytesInAddr (p_len pfx))) (ipBytes (p_ip pfx))).
  eapply rt_bind; [apply rt_alloc|].
  destruct Hp as (Hl & Hz & Hip).
  pose proof (bytesInAddr_bound _ _ Hl) as Hnb.
  assert (Hfl : len (firstn (N.to_nat (bytesInAddr (p_len pfx))) (ipBytes (p_ip pfx))) = bytesInAddr (p_len pfx)).
  { rewrite len_firstn, len_ipBytes. destruct (p_ip pfx); destruct Hip as (Ha & _); subst afi; cbn in Hnb; lia. }
  rewrite <- (app_nil_r (firstn _ _)).
  eapply rt_bind.
  { rewrite <- Hfl at 1. apply rt_bufReadFull. apply firstn_ok. apply ipBytes_ok. }
  cbv beta zeta.
  change (@nil N) with (@nil N ++ []).
  eapply rt_bind; [apply rt_deserializePrefix; repeat split; assumption|].
  cbv beta.
  replace ((if ap then 4 else 0) + 1 + bytesInAddr (p_len pfx))
    with (len ((if ap then u32be id else []) ++ [p_len pfx] ++ firstn (N.to_nat (bytesInAddr (p_len pfx))) (ipBytes (p_ip pfx)) ++ [])).
  - destruct pfx. apply rt_ret.
  - rewrite !len_app, len_nil, Hfl. destruct ap; unfold len; cbn [length u32be bytes32]; lia.
Qed.

Definition nlrisBytes (ap : bool) (l : list nlri) : list N := flat_map (nlriBytes ap) l.

Lemma nlriBytes_nonempty : forall ap n, (1 <= length (nlriBytes ap n))%nat.
Proof. intros. unfold nlriBytes. rewrite !app_length. cbn [length]. lia. Qed.

Lemma rt_decodeNLRIs : forall afi ap l, Forall (wf_nlri afi ap) l ->
  forall fuel p acc, (length (nlrisBytes ap l) < fuel)%nat ->
  runs_to (decodeNLRIs fuel (p + len (nlrisBytes ap l)) p afi 1 ap acc) (nlrisBytes ap l) (rev acc ++ l).
Proof.
  intros afi ap l Hwf. induction Hwf as [|n l Hn Hl IH]; intros fuel p acc Hf.
  - destruct fuel as [|f]; [cbn in Hf; lia|]. cbn [nlrisBytes flat_map decodeNLRIs].
    rewrite len_nil, N.add_0_r, N.ltb_irrefl.
    change (@nil N) with (@nil N ++ []). eapply rt_bind; [rewrite N.eqb_refl; apply rt_guard|].
    rewrite app_nil_r. apply rt_ret.
  - destruct fuel as [|f]; [cbn in Hf; lia|]. cbn [nlrisBytes flat_map] in *. fold (nlrisBytes ap l) in *.
    cbn [decodeNLRIs].
    pose proof (nlriBytes_nonempty ap n) as Hne.
    rewrite app_length in Hf.
    replace (p <? p + len (nlriBytes ap n ++ nlrisBytes ap l)) with true
      by (symmetry; rewrite len_app; unfold len; lia).
    eapply rt_bind; [apply rt_decodeNLRI; exact Hn|]. cbv beta iota.
    replace (p + len (nlriBytes ap n ++ nlrisBytes ap l)) with (p + len (nlriBytes ap n) + len (nlrisBytes ap l))
      by (rewrite len_app; lia).
    replace (rev acc ++ n :: l) with (rev (n :: acc) ++ l) by (cbn [rev]; rewrite <- app_assoc; reflexivity).
    apply IH. lia.
Qed.

Lemma encodeNLRIs_wf : forall afi ap safi l, Forall (wf_nlri afi ap) l -> (safi =? 4) = false ->
  encodeNLRIs ap safi l = Some (nlrisBytes ap l).
Proof.
  intros afi ap safi l Hwf Hs. induction Hwf as [|n l Hn Hl IH]; [reflexivity|].
  cbn [encodeNLRIs nlrisBytes flat_map]. rewrite (encodeNLRI_wf _ _ _ _ Hn Hs), IH. reflexivity.
Qed.

Lemma nlriSection_wf : forall afi ap safi l, Forall (wf_nlri afi ap) l -> (safi =? 4) = false ->
  forall acc budget x b', nlriSection ap safi l acc budget = SOk x b' -> x = acc ++ nlrisBytes ap l.
Proof.
  intros afi ap safi l Hwf Hs. induction Hwf as [|n l Hn Hl IH]; intros acc budget x b' E.
  - cbn in E. inversion E. rewrite app_nil_r. reflexivity.
  - cbn [nlriSection] in E. rewrite (encodeNLRI_wf _ _ _ _ Hn Hs) in E.
    destruct (budget <? _); [discriminate|]. apply IH in E. subst x.
    cbn [nlrisBytes flat_map]. rewrite app_assoc. reflexivity.
Qed.

(* ------------------------------------------------------------------ attribute header *)

Lemma rt_decodePathAttr : forall fuel o flags ty vbytes v,
  flags < 256 -> ty < 256 ->
  len vbytes < (if N.testbit flags 4 then 65536 else 256) ->
  runs_to (decodeAttrValue fuel o ty (len vbytes)) vbytes v ->
  runs_to (decodePathAttr fuel o)
          ([flags; ty] ++ lenBytes (N.testbit flags 4) (len vbytes) ++ vbytes)
          (mkAttr (N.testbit flags 7) (N.testbit flags 6) (N.testbit flags 5) (N.testbit flags 4) ty (len vbytes) v,
           (2 + (if N.testbit flags 4 then 2 else 1) + len vbytes) mod 65536).
Proof.
  intros fuel o flags ty vbytes v Hf Ht HL Hv. unfold decodePathAttr.
  change ([flags; ty] ++ lenBytes (N.testbit flags 4) (len vbytes) ++ vbytes)
    with ([flags] ++ [ty] ++ lenBytes (N.testbit flags 4) (len vbytes) ++ vbytes).
  eapply rt_bind; [apply rt_readByte; exact Hf|].
  eapply rt_bind; [apply rt_readByte; exact Ht|]. cbv zeta.
  eapply rt_bind with (v1 := (len vbytes, if N.testbit flags 4 then 2 else 1)).
  { unfold lenBytes. destruct (N.testbit flags 4).
    - rewrite <- (app_nil_r [_; _]). eapply rt_bind; [apply (rt_readU16 (len vbytes)); exact HL|apply rt_ret].
    - rewrite <- (app_nil_r [_]). rewrite N.mod_small by exact HL.
      eapply rt_bind; [apply rt_readByte; exact HL|apply rt_ret]. }
  cbv beta iota.
  eapply rt_bind_r; [exact Hv|]. apply rt_ret.
Qed.

(* ------------------------------------------------------------------ attribute values *)

Lemma rt_dumpN0 : runs_to (dumpN 0) [] tt.
Proof. change 0 with (len (@nil N)). apply rt_dumpN. Qed.

Lemma rt_val_origin : forall fuel o v, v < 256 -> runs_to (decodeAttrValue fuel o 1 (len [v])) [v] (AVOrigin v).
Proof.
  intros. unfold decodeAttrValue. cbn [N.eqb Pos.eqb]. change (len [v]) with 1.
  eapply rt_bind_l; [apply rt_guard|]. eapply rt_bind_r; [apply rt_readByte; assumption|].
  eapply rt_bind_l; [apply rt_dumpN0|]. apply rt_ret.
Qed.

Lemma rt_val_nexthop : forall fuel o v, u32 v ->
  runs_to (decodeAttrValue fuel o 3 (len (bytes32 v))) (bytes32 v) (AVNextHop (IP4 v)).
Proof.
  intros fuel o v Hv. unfold decodeAttrValue. cbn [N.eqb Pos.eqb]. change (len (bytes32 v)) with 4.
  eapply rt_bind_l; [apply rt_guard|].
  replace (bytes32 v) with (u32be v) by (unfold u32be; rewrite N.mod_small; auto).
  eapply rt_bind_r; [apply rt_readU32; exact Hv|]. apply rt_ret.
Qed.

Lemma u32be_small : forall v, u32 v -> u32be v = bytes32 v.
Proof. intros. unfold u32be. rewrite N.mod_small; auto. Qed.

Lemma rt_val_med : forall fuel o v, u32 v -> runs_to (decodeAttrValue fuel o 4 (len (u32be v))) (u32be v) (AVU32 v).
Proof.
  intros fuel o v Hv. unfold decodeAttrValue. cbn [N.eqb Pos.eqb]. change (len (u32be v)) with 4.
  eapply rt_bind_l; [apply rt_guard|]. eapply rt_bind_r; [apply rt_readU32; exact Hv|]. apply rt_ret.
Qed.

Lemma rt_val_localpref : forall fuel o v, u32 v -> runs_to (decodeAttrValue fuel o 5 (len (u32be v))) (u32be v) (AVU32 v).
Proof.
  intros fuel o v Hv. unfold decodeAttrValue. cbn [N.eqb Pos.eqb]. change (len (u32be v)) with 4.
  eapply rt_bind_l; [apply rt_guard|]. eapply rt_bind_r; [apply rt_readU32; exact Hv|]. apply rt_ret.
Qed.

Lemma rt_val_atomic : forall fuel o, runs_to (decodeAttrValue fuel o 6 (len (@nil N))) [] AVNone.
Proof.
  intros. unfold decodeAttrValue. cbn [N.eqb Pos.eqb]. change (len (@nil N)) with 0.
  eapply rt_bind_l; [apply rt_guard|]. apply rt_ret.
Qed.

Lemma rt_val_aggregator : forall fuel o asn ad, asn < 65536 -> u32 ad ->
  runs_to (decodeAttrValue fuel o 7 (len (u16be asn ++ u32be ad))) (u16be asn ++ u32be ad) (AVAggregator asn ad).
Proof.
  intros fuel o asn ad Ha Had. unfold decodeAttrValue. cbn [N.eqb Pos.eqb]. change (len (u16be asn ++ u32be ad)) with 6.
  eapply rt_bind_l; [apply rt_guard|].
  eapply rt_bind; [apply rt_readU16; exact Ha|].
  eapply rt_bind_r; [apply rt_readU32; exact Had|].
  eapply rt_bind_l; [apply rt_dumpN0|]. apply rt_ret.
Qed.

Lemma rt_val_originator : forall fuel o v, u32 v -> runs_to (decodeAttrValue fuel o 9 (len (u32be v))) (u32be v) (AVU32 v).
Proof.
  intros fuel o v Hv. unfold decodeAttrValue, decodeU32Dump. cbn [N.eqb Pos.eqb]. change (len (u32be v)) with 4.
  eapply rt_bind_l; [apply rt_guard|]. eapply rt_bind_r; [apply rt_read4; exact Hv|].
  eapply rt_bind_l; [apply rt_dumpN0|]. apply rt_ret.
Qed.

Lemma rt_repeat_read4 : forall l, Forall u32 l -> runs_to (repeatM (length l) read4) (encodeU32s l) l.
Proof.
  intros l H. induction H as [|x l Hx Hl IH]; cbn [repeatM length encodeU32s flat_map]; [apply rt_ret|].
  eapply rt_bind; [apply rt_read4; exact Hx|]. eapply rt_bind_r; [exact IH|]. apply rt_ret.
Qed.

Lemma len_encodeU32s : forall l, len (encodeU32s l) = 4 * len l.
Proof.
  induction l as [|x l IH]; [reflexivity|]. cbn [encodeU32s flat_map]. rewrite len_app. fold (encodeU32s l).
  rewrite IH, len_cons. change (len (u32be x)) with 4. lia.
Qed.

Lemma rt_decodeU32List : forall l, Forall u32 l -> runs_to (decodeU32List (len (encodeU32s l))) (encodeU32s l) l.
Proof.
  intros l H. unfold decodeU32List. rewrite len_encodeU32s.
  replace (4 * len l mod 4 =? 0) with true by lia.
  eapply rt_bind_l; [apply rt_guard|]. eapply rt_bind_l; [apply rt_alloc|].
  replace (N.to_nat (4 * len l / 4)) with (length l) by (unfold len; lia).
  apply rt_repeat_read4. exact H.
Qed.

Lemma rt_val_comms : forall fuel o l, Forall u32 l ->
  runs_to (decodeAttrValue fuel o 8 (len (encodeU32s l))) (encodeU32s l) (AVComms l).
Proof.
  intros. unfold decodeAttrValue. cbn [N.eqb Pos.eqb].
  eapply rt_bind_r; [apply rt_decodeU32List; assumption|]. apply rt_ret.
Qed.

Lemma rt_val_cluster : forall fuel o l, Forall u32 l ->
  runs_to (decodeAttrValue fuel o 10 (len (encodeU32s l))) (encodeU32s l) (AVCluster l).
Proof.
  intros. unfold decodeAttrValue. cbn [N.eqb Pos.eqb].
  eapply rt_bind_r; [apply rt_decodeU32List; assumption|]. apply rt_ret.
Qed.

Definition largeBytes (l : list (N * N * N)) : list N :=
  flat_map (fun c => u32be (fst (fst c)) ++ u32be (snd (fst c)) ++ u32be (snd c)) l.

Lemma len_largeBytes : forall l, len (largeBytes l) = 12 * len l.
Proof.
  induction l as [|x l IH]; [reflexivity|]. cbn [largeBytes flat_map]. rewrite !len_app. fold (largeBytes l).
  rewrite IH, len_cons. change (len (u32be (fst (fst x)))) with 4. change (len (u32be (snd (fst x)))) with 4.
  change (len (u32be (snd x))) with 4. lia.
Qed.

Lemma rt_val_large : forall fuel o l, Forall large_ok l ->
  runs_to (decodeAttrValue fuel o 32 (len (largeBytes l))) (largeBytes l) (AVLarge l).
Proof.
  intros fuel o l H. unfold decodeAttrValue, decodeLarge. cbn [N.eqb Pos.eqb].
  rewrite len_largeBytes. replace (12 * len l mod 12 =? 0) with true by lia.
  eapply rt_bind_r; [|apply rt_ret].
  eapply rt_bind_l; [apply rt_guard|]. eapply rt_bind_l; [apply rt_alloc|].
  replace (N.to_nat (12 * len l / 12)) with (length l) by (unfold len; lia).
  induction H as [|[[a b] c] l (Ha & Hb & Hc) Hl IH]; cbn [repeatM length largeBytes flat_map]; [apply rt_ret|].
  cbn [fst snd] in *. fold (largeBytes l).
  eapply rt_bind.
  { eapply rt_bind; [apply rt_read4; exact Ha|]. eapply rt_bind; [apply rt_read4; exact Hb|].
    eapply rt_bind_r; [apply rt_read4; exact Hc|]. apply rt_ret. }
  eapply rt_bind_r; [exact IH|]. apply rt_ret.
Qed.


Lemma rt_val_unknown : forall fuel o ty b, known_type ty = false -> bytes_ok b ->
  runs_to (decodeAttrValue fuel o ty (len b)) b (AVUnknown b).
Proof.
  intros fuel o ty b Hk Hb. unfold known_type in Hk. unfold decodeAttrValue.
  repeat match goal with |- context [ty =? ?c] => replace (ty =? c) with false by lia end.
  eapply rt_bind_l; [apply rt_alloc|]. eapply rt_bind_r; [apply rt_binRead; exact Hb|]. apply rt_ret.
Qed.

(* AS_PATH *)
Definition asnBytes (as4 : bool) (l : list N) : list N :=
  if as4 then flat_map u32be l else flat_map (fun a => u16be (a mod 65536)) l.
Definition segBytes (as4 : bool) (s : N * list N) : list N := [fst s; len (snd s)] ++ asnBytes as4 (snd s).

Lemma len_asnBytes : forall as4 l, len (asnBytes as4 l) = len l * (if as4 then 4 else 2).
Proof.
  intros as4 l. unfold asnBytes. destruct as4; induction l as [|x l IH]; try reflexivity;
    cbn [flat_map]; rewrite len_app, IH, len_cons; [change (len (u32be x)) with 4|change (len (u16be (x mod 65536))) with 2]; lia.
Qed.

Lemma rt_asns : forall as4 l, Forall (asn_ok as4) l ->
  runs_to (repeatM (length l) (decodeASN (if as4 then 4 else 2))) (asnBytes as4 l) l.
Proof.
  intros as4 l H. unfold asnBytes.
  induction H as [|x l Hx Hl IH]; [destruct as4; apply rt_ret|].
  destruct as4; cbn [repeatM length flat_map]; unfold asn_ok in Hx.
  - eapply rt_bind; [unfold decodeASN; cbn [N.eqb Pos.eqb]; apply rt_readU32; exact Hx|].
    eapply rt_bind_r; [exact IH|]. apply rt_ret.
  - eapply rt_bind; [unfold decodeASN; cbn [N.eqb Pos.eqb]; rewrite N.mod_small by exact Hx; apply rt_readU16; exact Hx|].
    eapply rt_bind_r; [exact IH|]. apply rt_ret.
Qed.

Lemma rt_decodeASPath : forall as4 segs, Forall (seg_ok as4) segs ->
  forall fuel p acc, (length (flat_map (segBytes as4) segs) < fuel)%nat ->
  runs_to (decodeASPath fuel (p + len (flat_map (segBytes as4) segs)) (if as4 then 4 else 2) p acc)
          (flat_map (segBytes as4) segs) (AVASPath (rev acc ++ segs)).
Proof.
  intros as4 segs H. induction H as [|[ty asns] segs (Hty & Hc & Ha) Hs IH]; intros fuel p acc Hf.
  - destruct fuel as [|f]; [cbn in Hf; lia|]. cbn [flat_map decodeASPath].
    rewrite len_nil, N.add_0_r, N.ltb_irrefl.
    eapply rt_bind_l; [rewrite N.eqb_refl; apply rt_guard|]. rewrite app_nil_r. apply rt_ret.
  - destruct fuel as [|f]; [cbn in Hf; lia|]. cbn [flat_map] in *. cbn [fst snd] in *.
    set (rest := flat_map (segBytes as4) segs) in *.
    cbn [decodeASPath].
    rewrite app_length in Hf. unfold segBytes in Hf. cbn [fst snd app length] in Hf.
    change (segBytes as4 (ty, asns)) with ([ty] ++ [len asns] ++ asnBytes as4 asns).
    replace (p <? p + len (([ty] ++ [len asns] ++ asnBytes as4 asns) ++ rest)) with true
      by (symmetry; rewrite !len_app; unfold len; cbn [length]; lia).
    rewrite <- !app_assoc.
    eapply rt_bind; [apply rt_readByte; lia|].
    eapply rt_bind; [apply rt_readByte; lia|]. cbv zeta.
    eapply rt_bind_l; [replace ((ty =? 1) || (ty =? 2)) with true by lia; apply rt_guard|].
    eapply rt_bind_l; [replace (negb (len asns =? 0)) with true by lia; apply rt_guard|].
    eapply rt_bind_l; [apply rt_alloc|].
    eapply rt_bind; [rewrite to_nat_len; apply rt_asns; exact Ha|]. cbv beta.
    replace (p + len ([ty] ++ [len asns] ++ asnBytes as4 asns ++ rest))
      with (p + 2 + len asns * (if as4 then 4 else 2) + len rest)
      by (rewrite !len_app, len_asnBytes; unfold len; cbn [length]; lia).
    replace (rev acc ++ (ty, asns) :: segs) with (rev ((ty, asns) :: acc) ++ segs)
      by (cbn [rev]; rewrite <- app_assoc; reflexivity).
    apply IH. lia.
Qed.


Lemma encodeSegments_spec : forall as4 segs,
  Forall (seg_ok as4) (filter nonempty_seg segs) ->
  encodeSegments as4 segs = (flat_map (segBytes as4) (filter nonempty_seg segs),
                             len (flat_map (segBytes as4) (filter nonempty_seg segs)) mod 65536).
Proof.
  intros as4 segs. induction segs as [|[ty asns] segs IH]; intros Hok; [reflexivity|].
  assert (Hne : nonempty_seg (ty, asns) = negb (len asns =? 0)) by reflexivity.
  cbn [encodeSegments]. cbn [filter] in *. rewrite Hne in *.
  destruct (len asns =? 0) eqn:E0; cbn [negb] in *.
  - rewrite IH by assumption. reflexivity.
  - inversion Hok as [|x l (Hty & Hc & Ha) Hrest]; subst. cbn [fst snd] in *.
    rewrite IH by auto. cbn [flat_map].
    assert (Ety : ty mod 256 = ty) by (apply N.mod_small; lia).
    assert (Ecnt : len asns mod 256 = len asns) by (apply N.mod_small; lia).
    rewrite Ety, Ecnt. apply pair_equal_spec. split.
    + unfold segBytes at 2. cbn [fst snd]. unfold asnBytes. destruct as4; rewrite <- app_assoc; reflexivity.
    + rewrite len_app. unfold segBytes at 2. cbn [fst snd]. rewrite len_app.
      pose proof (len_asnBytes as4 asns) as Hab. rewrite Hab.
      change (len [ty; len asns]) with 2.
      rewrite (N.mod_small (len asns) 65536) by lia.
      set (x := len (flat_map (segBytes as4) (filter nonempty_seg segs))).
      destruct as4; lia.
Qed.

(* ------------------------------------------------------------------ MP_REACH_NLRI / MP_UNREACH_NLRI *)

Ltac step_rt H :=
  unfold bind at 1;
  match goal with
  | |- context [?m (?bs ++ ?rest) ?al] =>
    let al1 := fresh "al" in let E := fresh "E" in
    destruct (H rest al) as (al1 & E); rewrite E; clear E
  end.

Lemma rt_subparse : forall A (inner : M A) body v,
  bytes_ok body ->
  (forall al, exists r al', inner body al = (Ok v r, al')) ->
  runs_to (subparse (len body) inner) body v.
Proof.
  intros A inner body v Hb Hin rest al. unfold subparse.
  unfold bind at 1. unfold alloc.
  unfold bind at 1. destruct (rt_bufReadFull body Hb rest (al + len body)) as (al1 & E1). rewrite E1.
  unfold runSub. destruct (Hin al1) as (r & al2 & E2). rewrite E2. eauto.
Qed.


Lemma nexthop_len : forall nh, nexthop_ok nh -> len (ipBytes nh) = 4 \/ len (ipBytes nh) = 16.
Proof. intros nh H. eapply ipFromBytes_some; eauto. Qed.

Definition mpReachBody (ap : bool) (afi safi : N) (nh : ip) (nl : list nlri) : list N :=
  u16be afi ++ [safi] ++ [len (ipBytes nh)] ++ ipBytes nh ++ [0] ++ nlrisBytes ap nl.

Lemma run_MPReachBody : forall fuel o afi nh nl,
  afi < 65536 -> nexthop_ok nh ->
  Forall (wf_nlri afi (addPathFor o afi 1)) nl ->
  len (nlrisBytes (addPathFor o afi 1) nl) < 65536 ->
  (length (nlrisBytes (addPathFor o afi 1) nl) < fuel)%nat ->
  forall al, exists r al',
    deserializeMPReachBody fuel o (mpReachBody (addPathFor o afi 1) afi 1 nh nl) al = (Ok (AVMPReach afi 1 nh nl) r, al').
Proof.
  intros fuel o afi nh nl Hafi Hnh Hwf Hlen Hf al.
  set (ap := addPathFor o afi 1) in *. set (nb := nlrisBytes ap nl) in *.
  pose proof (nexthop_len _ Hnh) as Hnl. set (nhb := ipBytes nh) in *.
  unfold deserializeMPReachBody, mpReachBody. fold nhb. fold nb.
  unfold bind at 1. destruct (rt_readU16 afi Hafi ([1] ++ [len nhb] ++ nhb ++ [0] ++ nb) al) as (al1 & E1).
  rewrite E1. clear E1.
  unfold bind at 1. destruct (rt_readByte 1 ltac:(lia) ([len nhb] ++ nhb ++ [0] ++ nb) al1) as (al2 & E2).
  rewrite E2. clear E2.
  unfold bind at 1. destruct (rt_readByte (len nhb) ltac:(lia) (nhb ++ [0] ++ nb) al2) as (al3 & E3).
  rewrite E3. clear E3.
  unfold bind at 1. unfold getBuf. cbv zeta.
  set (variable := nhb ++ [0] ++ nb).
  assert (Hlv : len variable = len nhb + 1 + len nb) by (subst variable; rewrite !len_app; unfold len; cbn [length]; lia).
  replace (negb (len variable <? len nhb)) with true by lia.
  unfold bind at 1. unfold guard, ret.
  replace (len nhb =? 32) with false by lia.
  replace (len variable <? len nhb) with false by lia.
  assert (Hfirst : map byte (firstn (N.to_nat (len nhb)) variable) = nhb).
  { subst variable. rewrite to_nat_len, firstn_app_len. apply map_byte_id. apply ipBytes_ok. }
  rewrite Hfirst. unfold nexthop_ok in Hnh. fold nhb in Hnh. rewrite Hnh.
  replace (len variable - len nhb =? 0) with false by lia.
  replace ((1 + len nhb) mod 256) with (1 + len nhb) by (symmetry; apply N.mod_small; lia).
  replace (len variable <? 1 + len nhb) with false by lia.
  unfold bind at 1. unfold dropBuf.
  assert (Hskip : skipn (N.to_nat (1 + len nhb)) variable = nb).
  { subst variable. replace (N.to_nat (1 + len nhb)) with (length (nhb ++ [0])) by (rewrite app_length; unfold len; cbn [length]; lia).
    rewrite app_assoc. apply skipn_app_len. }
  rewrite Hskip.
  unfold bind at 1. unfold getBuf.
  rewrite (N.mod_small (len nb)) by exact Hlen.
  unfold bind.
  pose proof (rt_decodeNLRIs afi ap nl Hwf fuel 0 [] Hf [] al3) as (al4 & E4).
  rewrite N.add_0_l in E4. fold nb in E4. rewrite app_nil_r in E4. fold ap. rewrite E4. cbn [rev app]. unfold ret. eauto.
Qed.

Lemma u16be_ok : forall v, bytes_ok (u16be v).
Proof. intros. unfold u16be, bytes_ok. repeat constructor; apply N.mod_lt; lia. Qed.

Lemma nlriBytes_ok : forall afi ap n, wf_nlri afi ap n -> bytes_ok (nlriBytes ap n).
Proof.
  intros afi ap n Hwf. pose proof (wf_nlri_plen _ _ _ Hwf) as Hpl. unfold nlriBytes.
  apply Forall_app. split; [destruct ap; [apply bytes32_ok|constructor]|].
  apply Forall_app. split; [repeat constructor; lia|]. apply firstn_ok. apply ipBytes_ok.
Qed.

Lemma nlrisBytes_ok : forall afi ap l, Forall (wf_nlri afi ap) l -> bytes_ok (nlrisBytes ap l).
Proof.
  intros afi ap l H. induction H as [|n l Hn Hl IH]; [constructor|].
  cbn [nlrisBytes flat_map]. apply Forall_app. split; [eapply nlriBytes_ok; eauto|exact IH].
Qed.

Lemma rt_val_mpreach : forall fuel o afi nh nl,
  afi < 65536 -> nexthop_ok nh ->
  Forall (wf_nlri afi (addPathFor o afi 1)) nl ->
  len (nlrisBytes (addPathFor o afi 1) nl) < 65536 ->
  (length (nlrisBytes (addPathFor o afi 1) nl) < fuel)%nat ->
  runs_to (decodeAttrValue fuel o 14 (len (mpReachBody (addPathFor o afi 1) afi 1 nh nl)))
          (mpReachBody (addPathFor o afi 1) afi 1 nh nl) (AVMPReach afi 1 nh nl).
Proof.
  intros fuel o afi nh nl Hafi Hnh Hwf Hlen Hf. unfold decodeAttrValue. cbn [N.eqb Pos.eqb].
  apply rt_subparse.
  - unfold mpReachBody. pose proof (nexthop_len _ Hnh) as Hl.
    apply Forall_app. split; [apply u16be_ok|]. apply Forall_app. split; [repeat constructor; lia|].
    apply Forall_app. split; [repeat constructor; lia|]. apply Forall_app. split; [apply ipBytes_ok|].
    apply Forall_app. split; [repeat constructor; lia|]. eapply nlrisBytes_ok; eauto.
  - intros al. unfold deserializeMPReach.
    assert (Hgt : 4 <? len (mpReachBody (addPathFor o afi 1) afi 1 nh nl) = true).
    { unfold mpReachBody. rewrite !len_app. pose proof (nexthop_len _ Hnh) as Hl.
      change (len (u16be afi)) with 2. change (len [1]) with 1. change (len [len (ipBytes nh)]) with 1. change (len [0]) with 1. lia. }
    unfold bind at 1. rewrite Hgt. unfold guard, ret. unfold bind at 1. unfold alloc.
    apply run_MPReachBody; assumption.
Qed.

Definition mpUnreachBody (ap : bool) (afi safi : N) (nl : list nlri) : list N :=
  u16be afi ++ [safi] ++ nlrisBytes ap nl.

Lemma rt_val_mpunreach : forall fuel o afi nl,
  afi < 65536 ->
  Forall (wf_nlri afi (addPathFor o afi 1)) nl ->
  len (nlrisBytes (addPathFor o afi 1) nl) < 65536 ->
  (length (nlrisBytes (addPathFor o afi 1) nl) < fuel)%nat ->
  runs_to (decodeAttrValue fuel o 15 (len (mpUnreachBody (addPathFor o afi 1) afi 1 nl)))
          (mpUnreachBody (addPathFor o afi 1) afi 1 nl) (AVMPUnreach afi 1 nl).
Proof.
  intros fuel o afi nl Hafi Hwf Hlen Hf. unfold decodeAttrValue. cbn [N.eqb Pos.eqb].
  set (ap := addPathFor o afi 1) in *. set (nb := nlrisBytes ap nl) in *.
  apply rt_subparse.
  - unfold mpUnreachBody. apply Forall_app. split; [apply u16be_ok|]. apply Forall_app.
    split; [repeat constructor; lia|]. eapply nlrisBytes_ok; eauto.
  - intros al. unfold deserializeMPUnreach, mpUnreachBody. fold nb.
    assert (Hge : negb (len (u16be afi ++ [1] ++ nb) <? 3) = true).
    { rewrite !len_app. change (len (u16be afi)) with 2. change (len [1]) with 1. lia. }
    unfold bind at 1. rewrite Hge. unfold guard, ret. unfold bind at 1. unfold alloc.
    unfold deserializeMPUnreachBody.
    unfold bind at 1. destruct (rt_readU16 afi Hafi ([1] ++ nb) (al + (len (u16be afi ++ [1] ++ nb) - 3))) as (al1 & E1).
    rewrite E1. clear E1.
    unfold bind at 1. destruct (rt_readByte 1 ltac:(lia) nb al1) as (al2 & E2). rewrite E2. clear E2.
    unfold bind at 1. unfold getBuf.
    destruct (len nb =? 0) eqn:E0.
    + assert (nl = []).
      { destruct nl as [|n l]; [reflexivity|]. exfalso. subst nb. cbn [nlrisBytes flat_map] in E0.
        pose proof (nlriBytes_nonempty ap n). rewrite len_app in E0. unfold len in E0. lia. }
      subst nl. unfold ret. eauto.
    + rewrite (N.mod_small (len nb)) by exact Hlen. unfold bind.
      pose proof (rt_decodeNLRIs afi ap nl Hwf fuel 0 [] Hf [] al2) as (al4 & E4).
      rewrite N.add_0_l in E4. fold nb in E4. rewrite app_nil_r in E4. fold ap. rewrite E4.
      cbn [rev app]. unfold ret. eauto.
Qed.

(* ------------------------------------------------------------------ one attribute on the wire *)

Lemma rt_attr_wire : forall fuel o flags ty ext vb v,
  flags < 256 -> ty < 256 -> N.testbit flags 4 = ext ->
  len vb < (if ext then 65536 else 256) -> len vb <= 4096 ->
  runs_to (decodeAttrValue fuel o ty (len vb)) vb v ->
  runs_to (decodePathAttr fuel o) ([flags; ty] ++ lenBytes ext (len vb) ++ vb)
    (mkAttr (N.testbit flags 7) (N.testbit flags 6) (N.testbit flags 5) ext ty (len vb) v,
     len ([flags; ty] ++ lenBytes ext (len vb) ++ vb)).
Proof.
  intros fuel o flags ty ext vb v Hf Ht He HL H4 Hv. subst ext.
  replace (len ([flags; ty] ++ lenBytes (N.testbit flags 4) (len vb) ++ vb))
    with ((2 + (if N.testbit flags 4 then 2 else 1) + len vb) mod 65536).
  - apply rt_decodePathAttr; assumption.
  - rewrite !len_app. change (len [flags; ty]) with 2. unfold lenBytes.
    destruct (N.testbit flags 4); [change (len [len vb / 256 mod 256; len vb mod 256]) with 2|change (len [len vb mod 256]) with 1];
      rewrite N.mod_small; lia.
Qed.

Lemma app_length_lt : forall (a b : list N) n, (length (a ++ b) < n)%nat -> (length b < n)%nat.
Proof. intros a b n H. rewrite app_length in H. lia. Qed.

Definition emitted (o : eopts) (a a' : attr) (bs : list N) (fuel : nat) : Prop :=
  runs_to (decodePathAttr fuel (doptsOf o)) bs (a', len bs) /\ same_attr a a' /\ (1 <= length bs)%nat.

Ltac type_false :=
  repeat match goal with H : (?t =? ?c) = false |- _ => rewrite H in * end.

Lemma same_known : forall a a', known_type (a_type a) = true ->
  a_type a' = a_type a -> a_val a' = norm_val (a_val a) -> same_attr a a'.
Proof. intros a a' Hk Ht Hv. split; [exact Ht|]. split; [exact Hv|]. intros Hn. rewrite Hk in Hn. discriminate. Qed.

Lemma len_u32be : forall v, len (u32be v) = 4.
Proof. reflexivity. Qed.
Lemma len_u16be : forall v, len (u16be v) = 2.
Proof. reflexivity. Qed.
Ltac lenfix := cbv iota; repeat first [rewrite len_bytes32 | rewrite len_u32be | rewrite len_u16be | rewrite len_app | rewrite len_nil];
               try (unfold len; cbn [length]); lia.

Ltac lens_in H := repeat first [rewrite len_cons in H | rewrite len_app in H].
Ltac lengths_in H := repeat first [rewrite app_length in H | progress cbn [length] in H].

Lemma attr_roundtrip : forall o a bs k,
  wf_attr o a -> encodeAttr o a = Some (bs, k) -> len bs <= 4096 ->
  bs = [] \/ exists a', forall fuel, (length bs < fuel)%nat -> emitted o a a' bs fuel.
Proof.
  intros o a bs k Hwf E H4. unfold wf_attr in Hwf. unfold encodeAttr in E.
  assert (Hkt : forall c, (a_type a =? c) = true -> known_type c = true -> known_type (a_type a) = true).
  { intros c Hc Hk. replace (a_type a) with c by lia. exact Hk. }
  destruct (a_type a =? 1) eqn:T1.
  { destruct Hwf as (v & Hv & Hb). rewrite Hv in E. injection E as Hbs Hk; subst bs k. right.
    rewrite (N.mod_small v) by lia.
    eexists. intros fuel Hf. split; [|split].
    - match goal with |- runs_to _ ?bb _ => replace bb with ([64; 1] ++ lenBytes false (len [v]) ++ [v]) by reflexivity end.
      apply rt_attr_wire; try reflexivity; try lia; try lenfix. apply rt_val_origin. exact Hb.
    - apply same_known; [eapply Hkt; eauto|cbn [a_type]; lia|cbn [a_val]; rewrite Hv; reflexivity].
    - cbn. lia. }
  destruct (a_type a =? 2) eqn:T2.
  { destruct Hwf as (segs & Hv & Hs). rewrite Hv in E.
    rewrite (encodeSegments_spec _ _ Hs) in E.
    set (sb := flat_map (segBytes (use32 o)) (filter nonempty_seg segs)) in *.
    injection E as Hbs Hk; subst bs k. right.
    assert (Hbl : len sb <= 4096) by (lens_in H4; lia).
    rewrite (N.mod_small (len sb)) in * by lia.
    eexists. intros fuel Hf. split; [|split].
    - replace [if 255 <? len sb then 80 else 64; 2] with [(if 255 <? len sb then 80 else 64); 2] by reflexivity.
      apply rt_attr_wire.
      + destruct (255 <? len sb); lia.
      + lia.
      + destruct (255 <? len sb); reflexivity.
      + destruct (255 <? len sb) eqn:El; lia.
      + exact Hbl.
      + unfold decodeAttrValue. cbn [N.eqb Pos.eqb].
        replace (len sb) with (0 + len sb) by lia.
        replace (if asn32 (doptsOf o) then 4 else 2) with (if use32 o then 4 else 2) by reflexivity.
        replace (AVASPath (filter nonempty_seg segs)) with (AVASPath (rev [] ++ filter nonempty_seg segs)) by reflexivity.
        apply rt_decodeASPath; [exact Hs|]. lengths_in Hf. fold sb. lia.
    - apply same_known; [eapply Hkt; eauto|cbn [a_type]; lia|cbn [a_val]; rewrite Hv; reflexivity].
    - cbn. lia. }
  destruct (a_type a =? 3) eqn:T3.
  { destruct Hwf as (v & Hv & Hb). rewrite Hv in E. injection E as Hbs Hk; subst bs k. right.
    eexists. intros fuel Hf. split; [|split].
    - match goal with |- runs_to _ ?bb _ => replace bb with ([64; 3] ++ lenBytes false (len (bytes32 v)) ++ bytes32 v) by reflexivity end.
      apply rt_attr_wire; try reflexivity; try lia; try lenfix. apply rt_val_nexthop. exact Hb.
    - apply same_known; [eapply Hkt; eauto|cbn [a_type]; lia|cbn [a_val]; rewrite Hv; reflexivity].
    - cbn. lia. }
  destruct (a_type a =? 4) eqn:T4.
  { cbn [orb] in Hwf. destruct Hwf as (v & Hv & Hb). rewrite Hv in E. injection E as Hbs Hk; subst bs k. right.
    eexists. intros fuel Hf. split; [|split].
    - match goal with |- runs_to _ ?bb _ => replace bb with ([128; 4] ++ lenBytes false (len (u32be v)) ++ u32be v) by reflexivity end.
      apply rt_attr_wire; try reflexivity; try lia; try lenfix. apply rt_val_med. exact Hb.
    - apply same_known; [eapply Hkt; eauto|cbn [a_type]; lia|cbn [a_val]; rewrite Hv; reflexivity].
    - cbn. lia. }
  destruct (a_type a =? 5) eqn:T5.
  { cbn [orb] in Hwf. destruct Hwf as (v & Hv & Hb). rewrite Hv in E. injection E as Hbs Hk; subst bs k. right.
    eexists. intros fuel Hf. split; [|split].
    - match goal with |- runs_to _ ?bb _ => replace bb with ([64; 5] ++ lenBytes false (len (u32be v)) ++ u32be v) by reflexivity end.
      apply rt_attr_wire; try reflexivity; try lia; try lenfix. apply rt_val_localpref. exact Hb.
    - apply same_known; [eapply Hkt; eauto|cbn [a_type]; lia|cbn [a_val]; rewrite Hv; reflexivity].
    - cbn. lia. }
  destruct (a_type a =? 6) eqn:T6.
  { destruct (a_type a =? 9) eqn:T9; [lia|]. cbn [orb] in Hwf.
    injection E as Hbs Hk; subst bs k. right.
    eexists. intros fuel Hf. split; [|split].
    - match goal with |- runs_to _ ?bb _ => replace bb with ([64; 6] ++ lenBytes false (len (@nil N)) ++ []) by reflexivity end.
      apply rt_attr_wire; try reflexivity; try lia; try lenfix. apply rt_val_atomic.
    - apply same_known; [eapply Hkt; eauto|cbn [a_type]; lia|cbn [a_val]; rewrite Hwf; reflexivity].
    - cbn. lia. }
  destruct (a_type a =? 7) eqn:T7.
  { destruct (a_type a =? 9) eqn:T9; [lia|]. cbn [orb] in Hwf.
    destruct Hwf as (asn & ad & Hv & Ha & Had). rewrite Hv in E. rewrite (N.mod_small asn) in E by lia.
    injection E as Hbs Hk; subst bs k. right.
    eexists. intros fuel Hf. split; [|split].
    - match goal with |- runs_to _ ?bb _ => replace bb with ([192; 7] ++ lenBytes false (len (u16be asn ++ u32be ad)) ++ u16be asn ++ u32be ad) by reflexivity end.
      apply rt_attr_wire; try reflexivity; try lia; try lenfix. apply rt_val_aggregator; assumption.
    - apply same_known; [eapply Hkt; eauto|cbn [a_type]; lia|cbn [a_val]; rewrite Hv; reflexivity].
    - cbn. lia. }
  destruct (a_type a =? 8) eqn:T8.
  { destruct (a_type a =? 9) eqn:T9; [lia|]. cbn [orb] in Hwf.
    destruct Hwf as (l & Hv & Hl). rewrite Hv in E.
    destruct l as [|x l]; [inversion E; left; reflexivity|].
    remember (x :: l) as cl eqn:Hcl. injection E as Hbs Hk; subst bs k. right.
    assert (Hvl : len (encodeU32s cl) <= 4096) by (lens_in H4; lia).
    pose proof (len_encodeU32s cl) as Hel.
    rewrite (N.mod_small (4 * len cl)) in * by lia. rewrite <- Hel in *.
    eexists. intros fuel Hf. split; [|split].
    - apply rt_attr_wire.
      + destruct (255 <? len (encodeU32s cl)); lia.
      + lia.
      + destruct (255 <? len (encodeU32s cl)); reflexivity.
      + destruct (255 <? len (encodeU32s cl)) eqn:El; lia.
      + exact Hvl.
      + apply rt_val_comms. exact Hl.
    - apply same_known; [eapply Hkt; eauto|cbn [a_type]; lia|cbn [a_val]; rewrite Hv; reflexivity].
    - cbn. lia. }
  destruct (a_type a =? 32) eqn:T32.
  { destruct (a_type a =? 9) eqn:T9; [lia|]. cbn [orb] in Hwf.
    destruct Hwf as (l & Hv & Hl). rewrite Hv in E.
    destruct l as [|x l]; [inversion E; left; reflexivity|].
    remember (x :: l) as cl eqn:Hcl. fold (largeBytes cl) in E. injection E as Hbs Hk; subst bs k. right.
    assert (Hvl : len (largeBytes cl) <= 4096) by (lens_in H4; lia).
    pose proof (len_largeBytes cl) as Hel.
    rewrite (N.mod_small (12 * len cl)) in * by lia. rewrite <- Hel in *.
    eexists. intros fuel Hf. split; [|split].
    - apply rt_attr_wire.
      + destruct (255 <? len (largeBytes cl)); lia.
      + lia.
      + destruct (255 <? len (largeBytes cl)); reflexivity.
      + destruct (255 <? len (largeBytes cl)) eqn:El; lia.
      + exact Hvl.
      + apply rt_val_large. exact Hl.
    - apply same_known; [eapply Hkt; eauto|cbn [a_type]; lia|cbn [a_val]; rewrite Hv; reflexivity].
    - cbn. lia. }
  destruct (a_type a =? 14) eqn:T14.
  { destruct (a_type a =? 9) eqn:T9; [lia|]. destruct (a_type a =? 10) eqn:T10; [lia|]. cbn [orb] in Hwf.
    destruct Hwf as (afi & nh & nl & Hv & Hafi & Hnh & Hnl). rewrite Hv in E.
    assert (Hap : addPathFor (doptsOf o) afi 1 = useAddPath o).
    { unfold addPathFor, doptsOf. cbn [addPath4 addPath6]. destruct Hafi; subst afi; reflexivity. }
    rewrite Hap in Hnl.
    change (1 mod 256) with 1 in E.
    rewrite (encodeNLRIs_wf afi (useAddPath o) 1 nl Hnl eq_refl) in E.
    rewrite (N.mod_small afi) in E by lia. change (1 mod 256) with 1 in E.
    pose proof (nexthop_len _ Hnh) as Hnhl.
    rewrite (N.mod_small (len (ipBytes nh))) in E by lia.
    set (body := u16be afi ++ [1; len (ipBytes nh)] ++ ipBytes nh ++ [0] ++ nlrisBytes (useAddPath o) nl) in *.
    injection E as Hbs Hk; subst bs k. right.
    assert (Hbl : len body <= 4096) by (lens_in H4; lia).
    assert (Hbody : body = mpReachBody (addPathFor (doptsOf o) afi 1) afi 1 nh nl) by (rewrite Hap; reflexivity).
    assert (Hnbl : len (nlrisBytes (useAddPath o) nl) < 65536).
    { subst body. lens_in Hbl. lia. }
    eexists. intros fuel Hf.
    assert (Hnb : (length (nlrisBytes (useAddPath o) nl) < fuel)%nat).
    { subst body. lengths_in Hf. lia. }
    split; [|split].
    - apply rt_attr_wire.
      + destruct (a_trans a), ((255 <? len body) || a_ext a); cbn; lia.
      + lia.
      + destruct (a_trans a), ((255 <? len body) || a_ext a); reflexivity.
      + destruct ((255 <? len body) || a_ext a) eqn:El; [lia|]. apply orb_false_iff in El. lia.
      + exact Hbl.
      + rewrite Hbody. apply rt_val_mpreach; try rewrite Hap; try assumption; lia.
    - apply same_known; [eapply Hkt; eauto|cbn [a_type]; lia|cbn [a_val]; rewrite Hv; reflexivity].
    - cbn. lia. }
  destruct (a_type a =? 15) eqn:T15.
  { destruct (a_type a =? 9) eqn:T9; [lia|]. destruct (a_type a =? 10) eqn:T10; [lia|]. cbn [orb] in Hwf.
    destruct Hwf as (afi & nl & Hv & Hafi & Hnl). rewrite Hv in E.
    assert (Hap : addPathFor (doptsOf o) afi 1 = useAddPath o).
    { unfold addPathFor, doptsOf. cbn [addPath4 addPath6]. destruct Hafi; subst afi; reflexivity. }
    rewrite Hap in Hnl.
    change (1 mod 256) with 1 in E.
    rewrite (encodeNLRIs_wf afi (useAddPath o) 1 nl Hnl eq_refl) in E.
    rewrite (N.mod_small afi) in E by lia.
    set (body := u16be afi ++ [1] ++ nlrisBytes (useAddPath o) nl) in *.
    injection E as Hbs Hk; subst bs k. right.
    assert (Hbl : len body <= 4096) by (lens_in H4; lia).
    assert (Hbody : body = mpUnreachBody (addPathFor (doptsOf o) afi 1) afi 1 nl) by (rewrite Hap; reflexivity).
    assert (Hnbl : len (nlrisBytes (useAddPath o) nl) < 65536).
    { subst body. lens_in Hbl. lia. }
    eexists. intros fuel Hf.
    assert (Hnb : (length (nlrisBytes (useAddPath o) nl) < fuel)%nat).
    { subst body. lengths_in Hf. lia. }
    split; [|split].
    - apply rt_attr_wire.
      + destruct (a_trans a), ((255 <? len body) || a_ext a); cbn; lia.
      + lia.
      + destruct (a_trans a), ((255 <? len body) || a_ext a); reflexivity.
      + destruct ((255 <? len body) || a_ext a) eqn:El; [lia|]. apply orb_false_iff in El. lia.
      + exact Hbl.
      + rewrite Hbody. apply rt_val_mpunreach; try rewrite Hap; try assumption; lia.
    - apply same_known; [eapply Hkt; eauto|cbn [a_type]; lia|cbn [a_val]; rewrite Hv; reflexivity].
    - cbn. lia. }
  destruct (a_type a =? 9) eqn:T9.
  { cbn [orb] in Hwf. destruct Hwf as (v & Hv & Hb). rewrite Hv in E. injection E as Hbs Hk; subst bs k. right.
    eexists. intros fuel Hf. split; [|split].
    - match goal with |- runs_to _ ?bb _ => replace bb with ([128; 9] ++ lenBytes false (len (u32be v)) ++ u32be v) by reflexivity end.
      apply rt_attr_wire; try reflexivity; try lia; try lenfix. apply rt_val_originator. exact Hb.
    - apply same_known; [eapply Hkt; eauto|cbn [a_type]; lia|cbn [a_val]; rewrite Hv; reflexivity].
    - cbn. lia. }
  cbn [orb] in Hwf.
  destruct (a_type a =? 10) eqn:T10.
  { destruct Hwf as (l & Hv & Hl). rewrite Hv in E.
    destruct l as [|x l]; [inversion E; left; reflexivity|].
    remember (x :: l) as cl eqn:Hcl. injection E as Hbs Hk; subst bs k. right.
    assert (Hvl : len (encodeU32s cl) <= 4096) by (lens_in H4; lia).
    pose proof (len_encodeU32s cl) as Hel.
    rewrite (N.mod_small (4 * len cl)) in * by lia. rewrite <- Hel in *.
    eexists. intros fuel Hf. split; [|split].
    - apply rt_attr_wire.
      + destruct (255 <? len (encodeU32s cl)); lia.
      + lia.
      + destruct (255 <? len (encodeU32s cl)); reflexivity.
      + destruct (255 <? len (encodeU32s cl)) eqn:El; lia.
      + exact Hvl.
      + apply rt_val_cluster. exact Hl.
    - apply same_known; [eapply Hkt; eauto|cbn [a_type]; lia|cbn [a_val]; rewrite Hv; reflexivity].
    - cbn. lia. }
  destruct Hwf as (Hkn & Ht & b & Hv & Hb). rewrite Hv in E. injection E as Hbs Hk; subst bs k. right.
  rewrite (N.mod_small (a_type a)) in * by exact Ht.
  assert (Hbl : len b <= 4096) by (lens_in H4; lia).
  eexists. intros fuel Hf. split; [|split].
  - apply rt_attr_wire.
    + destruct (a_opt a), (a_part a), ((255 <? len b) || a_ext a); cbn; lia.
    + exact Ht.
    + destruct (a_opt a), (a_part a), ((255 <? len b) || a_ext a); reflexivity.
    + destruct ((255 <? len b) || a_ext a) eqn:El; [lia|]. apply orb_false_iff in El. lia.
    + exact Hbl.
    + apply rt_val_unknown; assumption.
  - split; [reflexivity|]. split; [cbn [a_val]; rewrite Hv; reflexivity|]. intros _. cbn [a_opt a_trans a_part].
    destruct (a_opt a), (a_part a), ((255 <? len b) || a_ext a); repeat split; reflexivity.
  - cbn. lia.
Qed.

(* ------------------------------------------------------------------ attribute lists *)
From BioVerif Require Import Spec.BGPUpdateSpec Proofs.BGPUpdateProofs.

Inductive attrs_rt (o : eopts) : list attr -> list N -> list attr -> Prop :=
| ar_nil : attrs_rt o [] [] []
| ar_skip : forall a k l bs l', encodeAttr o a = Some ([], k) -> attrs_rt o l bs l' -> attrs_rt o (a :: l) bs l'
| ar_emit : forall a a' b k l bs l', encodeAttr o a = Some (b, k) ->
            (forall fuel, (length b < fuel)%nat -> emitted o a a' b fuel) ->
            attrs_rt o l bs l' -> attrs_rt o (a :: l) (b ++ bs) (a' :: l').

Lemma attrSection_rt : forall o l, Forall (wf_attr o) l ->
  forall acc budget x b', attrSection o l acc budget = SOk x b' -> len x <= 4096 ->
  exists bs l', x = acc ++ bs /\ attrs_rt o l bs l'.
Proof.
  intros o l Hwf. induction Hwf as [|a l Ha Hl IH]; intros acc budget x b' E H4.
  - cbn in E. inversion E. exists [], []. rewrite app_nil_r. split; [reflexivity|constructor].
  - cbn [attrSection] in E. destruct (encodeAttr o a) as [[b k]|] eqn:Ea; [|discriminate].
    destruct (budget <? k); [discriminate|].
    destruct (IH _ _ _ _ E H4) as (bs & l' & Hx & Hrt).
    assert (Hb : len b <= 4096) by (subst x; rewrite !len_app in H4; lia).
    destruct (attr_roundtrip o a b k Ha Ea Hb) as [Hnil|(a' & Hem)].
    + subst b. exists bs, l'. split; [rewrite Hx, app_nil_r; reflexivity|]. eapply ar_skip; eauto.
    + exists (b ++ bs), (a' :: l'). split; [rewrite Hx, app_assoc; reflexivity|]. eapply ar_emit; eauto.
Qed.


Lemma attrs_rt_content : forall o l bs l', attrs_rt o l bs l' -> Forall2 same_attr (filter (emits o) l) l'.
Proof.
  intros o l bs l' H. induction H as [|a k l bs l' Ea _ IH|a a' b k l bs l' Ea Hem _ IH]; cbn [filter].
  - constructor.
  - unfold emits. rewrite Ea. exact IH.
  - destruct (Hem (S (length b)) (Nat.lt_succ_diag_r _)) as (_ & Hs & Hne).
    unfold emits. rewrite Ea. destruct b as [|y b]; [cbn in Hne; lia|]. constructor; assumption.
Qed.

Lemma same_attr_types : forall l l' t, Forall2 same_attr l l' -> hasAttr t l' = hasAttr t l.
Proof.
  intros l l' t H. induction H as [|a a' l l' (Ht & _) _ IH]; [reflexivity|].
  unfold hasAttr in *. cbn [existsb]. rewrite Ht, IH. reflexivity.
Qed.


Lemma hasAttr_app : forall t l1 l2, hasAttr t (l1 ++ l2) = hasAttr t l1 || hasAttr t l2.
Proof. intros. unfold hasAttr. apply existsb_app. Qed.

Lemma rt_attrs_loop : forall o l bs l', attrs_rt o l bs l' ->
  forall fuel p acc, (length bs < fuel)%nat -> p + len bs < 65536 ->
  mand_final (rev acc ++ l') = true ->
  runs_to (decodePathAttrsLoop fuel (doptsOf o) (p + len bs) p
             (hasAttr 3 acc || hasAttr 14 acc) (hasAttr 1 acc) (hasAttr 2 acc) acc)
          bs (rev acc ++ l').
Proof.
  intros o l bs l' H. induction H as [|a k l bs l' Ea _ IH|a a' b k l bs l' Ea Hem _ IH]; intros fuel p acc Hf Hp Hm.
  - destruct fuel as [|f]; [cbn in Hf; lia|]. cbn [decodePathAttrsLoop].
    rewrite len_nil, N.add_0_r, N.ltb_irrefl.
    eapply rt_bind_l; [|rewrite app_nil_r; apply rt_ret].
    rewrite app_nil_r in Hm. unfold mand_final in Hm. rewrite !hasAttr_rev in Hm. cbv zeta in Hm.
    rewrite Hm. apply rt_guard.
  - apply IH; assumption.
  - destruct fuel as [|f]; [cbn in Hf; lia|]. cbn [decodePathAttrsLoop].
    rewrite app_length in Hf.
    destruct (Hem (S f) ltac:(lia)) as (Hrt & (Hty & _) & Hne).
    replace (p <? p + len (b ++ bs)) with true by (symmetry; rewrite len_app; unfold len; lia).
    eapply rt_bind; [exact Hrt|]. cbv beta iota zeta.
    rewrite len_app in Hp.
    replace ((p + len b) mod 65536) with (p + len b) by (symmetry; apply N.mod_small; lia).
    replace (p + len (b ++ bs)) with (p + len b + len bs) by (rewrite len_app; lia).
    replace (rev acc ++ a' :: l') with (rev (a' :: acc) ++ l') by (cbn [rev]; rewrite <- app_assoc; reflexivity).
    replace (hasAttr 3 acc || hasAttr 14 acc || (a_type a' =? 3) || (a_type a' =? 14))
      with (hasAttr 3 (a' :: acc) || hasAttr 14 (a' :: acc))
      by (unfold hasAttr; cbn [existsb]; destruct (a_type a' =? 3), (a_type a' =? 14), (existsb _ acc), (existsb _ acc); reflexivity).
    replace (hasAttr 1 acc || (a_type a' =? 1)) with (hasAttr 1 (a' :: acc)) by (unfold hasAttr; cbn [existsb]; apply orb_comm).
    replace (hasAttr 2 acc || (a_type a' =? 2)) with (hasAttr 2 (a' :: acc)) by (unfold hasAttr; cbn [existsb]; apply orb_comm).
    apply IH; [lia|lia|].
    cbn [rev]. rewrite <- app_assoc. exact Hm.
Qed.

(* ------------------------------------------------------------------ header and UPDATE *)

Lemma rt_readMarker : forall n, runs_to (readMarker n) (repeat 255 n) tt.
Proof.
  induction n as [|n IH]; cbn [readMarker repeat]; [apply rt_ret|].
  change (255 :: repeat 255 n) with ([255] ++ repeat 255 n).
  eapply rt_bind; [apply rt_readByte; lia|]. eapply rt_bind_l; [apply rt_guard|]. exact IH.
Qed.

Lemma rt_decodeHeader : forall l ty, 19 <= l <= 4096 -> 1 <= ty <= 4 ->
  negb (((ty =? 1) && (l <? 29)) || ((ty =? 2) && (l <? 23)) || ((ty =? 3) && (l <? 21)) || ((ty =? 4) && negb (l =? 19))) = true ->
  runs_to decodeHeader (header l ty) (l, ty).
Proof.
  intros l ty Hl Hty Hper. unfold decodeHeader, header. rewrite (N.mod_small l) by lia.
  eapply rt_bind; [apply rt_readMarker|].
  eapply rt_bind; [apply rt_readU16; lia|].
  eapply rt_bind_r; [apply rt_readByte; lia|].
  eapply rt_bind_l; [replace (negb (l <? 19) && negb (4096 <? l)) with true by lia; apply rt_guard|].
  eapply rt_bind_l; [replace (negb (4 <? ty) && negb (ty =? 0)) with true by lia; apply rt_guard|].
  eapply rt_bind_l; [rewrite Hper; apply rt_guard|]. apply rt_ret.
Qed.

Lemma attrs_rt_nil : forall o l l', attrs_rt o l [] l' -> l' = [].
Proof.
  intros o l l' H. remember [] as bs eqn:Hb. induction H as [|a k l bs l' Ea _ IH|a a' b k l bs l' Ea Hem _ IH]; auto.
  exfalso. destruct (Hem (S (length b)) (Nat.lt_succ_diag_r _)) as (_ & _ & Hne).
  destruct b; [cbn in Hne; lia|discriminate].
Qed.

Lemma nlrisBytes_nil : forall ap l, nlrisBytes ap l = [] -> l = [].
Proof.
  intros ap l H. destruct l as [|n l]; [reflexivity|]. exfalso. cbn [nlrisBytes flat_map] in H.
  pose proof (nlriBytes_nonempty ap n) as Hn. apply (f_equal (@length N)) in H. rewrite app_length in H. cbn in H. lia.
Qed.

Lemma rt_decodeUpdate : forall o u wb ab l' fuel,
  wf_update o u ->
  wb = nlrisBytes (useAddPath o) (u_withdrawn u) ->
  attrs_rt o (u_attrs u) ab l' ->
  let nb := nlrisBytes (useAddPath o) (u_nlri u) in
  len wb + len ab + len nb <= 4096 ->
  (length wb + length ab + length nb < fuel)%nat ->
  runs_to (decodeUpdate fuel (doptsOf o) (4 + len wb + len ab + len nb))
          (u16be (len wb) ++ wb ++ u16be (len ab) ++ ab ++ nb)
          (mkUpdate (len wb) (u_withdrawn u) (len ab) l' (u_nlri u)).
Proof.
  intros o u wb ab l' fuel (Hw & Ha & Hn & Hm & Hm3) Hwb Hrt nb H4 Hf.
  pose proof (attrs_rt_content _ _ _ _ Hrt) as Hsame.
  unfold decodeUpdate.
  eapply rt_bind; [apply rt_readU16; lia|].
  eapply rt_bind.
  { subst wb. replace (addPath4 (doptsOf o)) with (useAddPath o) by reflexivity.
    replace (len (nlrisBytes (useAddPath o) (u_withdrawn u))) with (0 + len (nlrisBytes (useAddPath o) (u_withdrawn u))) at 1 by lia.
    apply (rt_decodeNLRIs 1 (useAddPath o) _ Hw fuel 0 []). lia. }
  cbn [rev app].
  eapply rt_bind; [apply rt_readU16; lia|].
  eapply rt_bind_l; [replace (4 + len wb + len ab <=? 4 + len wb + len ab + len nb) with true by lia; apply rt_guard|].
  eapply rt_bind.
  { unfold decodePathAttrs. destruct (len ab =? 0) eqn:E0.
    - assert (ab = []) by (destruct ab; [reflexivity|unfold len in E0; cbn in E0; lia]). subst ab.
      rewrite (attrs_rt_nil _ _ _ Hrt). apply rt_ret.
    - replace (len ab) with (0 + len ab) at 1 by lia.
      change false with (hasAttr 3 [] || hasAttr 14 []) at 1. change false with (hasAttr 1 []) at 1.
      change false with (hasAttr 2 []).
      match goal with |- runs_to ?m ?b ?v => change (runs_to m b (rev [] ++ v)) end.
      apply (rt_attrs_loop o _ _ _ Hrt fuel 0 []); [lia|lia|].
      cbn [rev app]. unfold mand_final in *. rewrite !(same_attr_types _ _ _ Hsame). exact Hm. }
  cbv zeta.
  replace (4 + len wb + len ab + len nb - 4 - len ab - len wb) with (len nb) by lia.
  destruct (0 <? len nb) eqn:En.
  - eapply rt_bind_r.
    { replace (addPath4 (doptsOf o)) with (useAddPath o) by reflexivity.
      replace (len nb) with (0 + len nb) by lia.
      apply (rt_decodeNLRIs 1 (useAddPath o) _ Hn fuel 0 []). subst nb. lia. }
    cbn [rev app].
    assert (Hne : u_nlri u <> []) by (intros E; subst nb; rewrite E in En; cbn in En; discriminate).
    specialize (Hm3 Hne). rewrite !(same_attr_types _ _ _ Hsame). rewrite Hm3.
    eapply rt_bind_l; [apply rt_guard|]. apply rt_ret.
  - assert (Hnil : nb = []) by (destruct nb; [reflexivity|unfold len in En; cbn in En; lia]).
    rewrite Hnil. rewrite (nlrisBytes_nil _ _ Hnil). apply rt_ret.
Qed.

(* ------------------------------------------------------------------ whole messages *)

Lemma len_header : forall l ty, len (header l ty) = 19.
Proof. reflexivity. Qed.

Lemma decode_of_runs : forall fuel o bs m,
  runs_to (decodeM fuel o) bs m -> exists al, decode fuel o bs = (Ok m [], al).
Proof.
  intros fuel o bs m H. unfold decode. destruct (H [] 0) as (al & E). rewrite app_nil_r in E. eauto.
Qed.

Lemma update_size : forall o safi u bs, encodeUpdate o safi u = EOk bs ->
  len bs <= 4096 /\ exists rest, bs = header (len bs) 2 ++ rest.
Proof.
  intros o safi u bs E. unfold encodeUpdate in E.
  destruct (nlriSection _ _ (u_withdrawn u) _ _) as [wb b1| |]; try discriminate.
  destruct (attrSection _ _ _ _) as [ab b2| |]; try discriminate.
  destruct (nlriSection _ _ (u_nlri u) _ _) as [nb b3| |]; try discriminate.
  destruct (65535 <? len wb); [discriminate|]. destruct (65535 <? len ab); [discriminate|].
  destruct (4096 <? 2 + len wb + len ab + 2 + len nb + 19) eqn:Et; [discriminate|].
  assert (Hbs : bs = header (2 + len wb + len ab + 2 + len nb + 19) 2 ++ u16be (len wb) ++ wb ++ u16be (len ab) ++ ab ++ nb)
    by (inversion E; reflexivity).
  clear E.
  assert (Hl : len bs = 2 + len wb + len ab + 2 + len nb + 19).
  { rewrite Hbs. rewrite !len_app, len_header, !len_u16be. lia. }
  split; [lia|]. rewrite Hl. eexists. exact Hbs.
Qed.

Lemma update_roundtrip : forall o u bs,
  wf_update o u -> encodeUpdate o 1 u = EOk bs ->
  len bs <= 4096 /\
  exists u' al, decode (S (length bs)) (doptsOf o) bs = (Ok (mkMsg (len bs) 2 (BUpdate u')) [], al) /\
                same_update o u u'.
Proof.
  intros o u bs Hwf E. pose proof (update_size _ _ _ _ E) as (H4 & _). split; [exact H4|].
  pose proof Hwf as (Hw & Ha & Hn & Hm & Hm3).
  unfold encodeUpdate in E.
  destruct (nlriSection _ _ (u_withdrawn u) _ _) as [wb b1| |] eqn:Ew; try discriminate.
  destruct (attrSection _ _ _ _) as [ab b2| |] eqn:Eab; try discriminate.
  destruct (nlriSection _ _ (u_nlri u) _ _) as [nb b3| |] eqn:En; try discriminate.
  destruct (65535 <? len wb); [discriminate|]. destruct (65535 <? len ab); [discriminate|].
  destruct (4096 <? 2 + len wb + len ab + 2 + len nb + 19) eqn:Et; [discriminate|].
  assert (Hbs : header (2 + len wb + len ab + 2 + len nb + 19) 2 ++ u16be (len wb) ++ wb ++ u16be (len ab) ++ ab ++ nb = bs)
    by (inversion E; reflexivity).
  clear E.
  pose proof (nlriSection_wf 1 _ 1 _ Hw eq_refl _ _ _ _ Ew) as Hwb. cbn [app] in Hwb.
  pose proof (nlriSection_wf 1 _ 1 _ Hn eq_refl _ _ _ _ En) as Hnb. cbn [app] in Hnb.
  assert (Hab4 : len ab <= 4096) by lia.
  destruct (attrSection_rt o _ Ha _ _ _ _ Eab Hab4) as (ab' & l' & Hab & Hrt). cbn [app] in Hab. subst ab'.
  set (total := 2 + len wb + len ab + 2 + len nb + 19) in *.
  assert (Hlen : len bs = total).
  { subst bs. rewrite !len_app, len_header, !len_u16be. subst total. lia. }
  exists (mkUpdate (len wb) (u_withdrawn u) (len ab) l' (u_nlri u)).
  assert (Hrun : runs_to (decodeM (S (length bs)) (doptsOf o)) bs
                   (mkMsg total 2 (BUpdate (mkUpdate (len wb) (u_withdrawn u) (len ab) l' (u_nlri u))))).
  { rewrite <- Hbs at 2. unfold decodeM.
    eapply rt_bind; [apply rt_decodeHeader; subst total; lia|]. cbv beta iota.
    eapply rt_bind_r; [|apply rt_ret].
    unfold decodeBody. cbn [N.eqb Pos.eqb].
    eapply rt_bind_r; [|apply rt_ret].
    replace (total - 19) with (4 + len wb + len ab + len nb) by (subst total; lia).
    subst nb. apply rt_decodeUpdate; try assumption; try lia.
    rewrite <- Hbs. rewrite !app_length. unfold header. rewrite !app_length, repeat_length. cbn [length u16be]. lia. }
  destruct (decode_of_runs _ _ _ _ Hrun) as (al & Ed). exists al. rewrite Hlen. split; [exact Ed|].
  split; [reflexivity|]. split; [reflexivity|]. cbn [u_attrs]. eapply attrs_rt_content; eauto.
Qed.

Lemma keepalive_roundtrip : forall o,
  exists bs al, encodeKeepalive = EOk bs /\ len bs = 19 /\
                decode (S (length bs)) o bs = (Ok (mkMsg 19 4 BKeepalive) [], al).
Proof. intros o. eexists. exists 0. split; [reflexivity|]. split; reflexivity. Qed.

Lemma notification_roundtrip : forall o code sub, code < 256 -> sub < 256 -> notificationOK code sub = true ->
  exists bs al, encodeNotification code sub = EOk bs /\ len bs = 21 /\
                decode (S (length bs)) o bs = (Ok (mkMsg 21 3 (BNotification code sub)) [], al).
Proof.
  intros o code sub Hc Hs Hok. unfold encodeNotification. rewrite (N.mod_small code), (N.mod_small sub) by assumption.
  eexists. 
  assert (Hrun : runs_to (decodeM (S (length (header 21 3 ++ [code; sub]))) o) (header 21 3 ++ [code; sub])
                         (mkMsg 21 3 (BNotification code sub))).
  { unfold decodeM. eapply rt_bind; [apply rt_decodeHeader; [lia|lia|reflexivity]|]. cbv beta iota.
    eapply rt_bind_r; [|apply rt_ret]. unfold decodeBody. cbn [N.eqb Pos.eqb]. unfold decodeNotification.
    change [code; sub] with ([code] ++ [sub]).
    eapply rt_bind; [apply rt_readByte; exact Hc|]. eapply rt_bind_r; [apply rt_readByte; exact Hs|].
    eapply rt_bind_l; [rewrite Hok; apply rt_guard|]. apply rt_ret. }
  destruct (decode_of_runs _ _ _ _ Hrun) as (al & Ed). exists al. split; [reflexivity|]. split; [reflexivity|exact Ed].
Qed.

(* ------------------------------------------------------------------ OPEN *)

Definition capPayload (v : capval) : list N :=
  match encodeCapValue v with Some p => p | None => [] end.

Lemma rt_repeat_gen : forall A (m : M A) (enc : A -> list N) (P : A -> Prop) (l : list A),
  (forall x, P x -> runs_to m (enc x) x) -> Forall P l ->
  runs_to (repeatM (length l) m) (flat_map enc l) l.
Proof.
  intros A m enc P l Hm H. induction H as [|x l Hx Hl IH]; cbn [repeatM length flat_map]; [apply rt_ret|].
  eapply rt_bind; [apply Hm; exact Hx|]. eapply rt_bind_r; [exact IH|]. apply rt_ret.
Qed.

Lemma len_flat_map_const : forall A (f : A -> list N) k (l : list A),
  (forall x, len (f x) = k) -> len (flat_map f l) = k * len l.
Proof.
  intros A f k l Hk. induction l as [|x l IH]; [cbn; lia|].
  cbn [flat_map]. rewrite len_app, IH, Hk, len_cons. lia.
Qed.

Lemma rt_capValue : forall c, wf_cap c ->
  encodeCapValue (c_val c) = Some (capPayload (c_val c)) /\ len (capPayload (c_val c)) = capSize c - 2 /\
  capSize c <= 257 /\
  runs_to (decodeCapValue (c_code c) (capSize c - 2)) (capPayload (c_val c)) (c_val c).
Proof.
  intros [code cl v] Hwf. unfold wf_cap in Hwf. cbn [c_val c_code] in *. unfold capSize, capPayload. cbn [c_val].
  destruct v as [afi safi|l|a|r|l|]; try contradiction.
  - destruct Hwf as (Hc & Ha & Hs). subst code. cbn [encodeCapValue]. rewrite (N.mod_small afi), (N.mod_small safi) by lia.
    split; [reflexivity|]. split; [reflexivity|]. split; [lia|].
    unfold decodeCapValue. cbn [N.eqb Pos.eqb].
    eapply rt_bind; [apply rt_readU16; exact Ha|]. change [0; safi] with ([0] ++ [safi]).
    eapply rt_bind; [apply rt_readByte; lia|]. eapply rt_bind_r; [apply rt_readByte; exact Hs|]. apply rt_ret.
  - destruct Hwf as (Hc & Hl & Hn). subst code. cbn [encodeCapValue].
    set (enc := fun t : N * N * N => u16be (fst (fst t) mod 65536) ++ [snd (fst t) mod 256; snd t mod 256]).
    assert (Hlen : len (flat_map enc l) = 4 * len l) by (apply len_flat_map_const; intros; reflexivity).
    split; [reflexivity|]. split; [rewrite Hlen; lia|]. split; [lia|].
    unfold decodeCapValue. cbn [N.eqb Pos.eqb].
    replace (2 + 4 * len l - 2) with (4 * len l) by lia.
    eapply rt_bind_l; [replace (4 * len l mod 4 =? 0) with true by lia; apply rt_guard|].
    eapply rt_bind_r; [|apply rt_ret].
    replace (N.to_nat (4 * len l / 4)) with (length l) by (unfold len; lia).
    eapply rt_repeat_gen with (P := triple_ok 65536 256 256); [|exact Hl].
    intros [[a b] c] (Ha & Hb & Hc). cbn [fst snd] in *. subst enc. cbv beta. cbn [fst snd].
    rewrite (N.mod_small a), (N.mod_small b), (N.mod_small c) by lia.
    eapply rt_bind; [apply rt_readU16; exact Ha|]. change [b; c] with ([b] ++ [c]).
    eapply rt_bind; [apply rt_readByte; exact Hb|]. eapply rt_bind_r; [apply rt_readByte; exact Hc|]. apply rt_ret.
  - destruct Hwf as (Hc & Ha). subst code. cbn [encodeCapValue].
    split; [reflexivity|]. split; [reflexivity|]. split; [lia|].
    unfold decodeCapValue. cbn [N.eqb Pos.eqb].
    eapply rt_bind_r; [apply rt_readU32; exact Ha|]. apply rt_ret.
  - destruct Hwf as (Hc & Hr). subst code. cbn [encodeCapValue]. rewrite (N.mod_small r) by lia.
    split; [reflexivity|]. split; [reflexivity|]. split; [lia|].
    unfold decodeCapValue. cbn [N.eqb Pos.eqb].
    eapply rt_bind_r; [apply rt_readByte; exact Hr|]. apply rt_ret.
  - destruct Hwf as (Hc & Hl & Hn). subst code. cbn [encodeCapValue].
    set (enc := fun t : N * N * N => u16be (fst (fst t) mod 65536) ++ u16be (snd (fst t) mod 65536) ++ u16be (snd t mod 65536)).
    assert (Hlen : len (flat_map enc l) = 6 * len l) by (apply len_flat_map_const; intros; reflexivity).
    split; [reflexivity|]. split; [rewrite Hlen; lia|]. split; [lia|].
    unfold decodeCapValue. cbn [N.eqb Pos.eqb].
    replace (2 + 6 * len l - 2) with (6 * len l) by lia.
    eapply rt_bind_l; [replace (6 * len l mod 6 =? 0) with true by lia; apply rt_guard|].
    eapply rt_bind_r; [|apply rt_ret].
    replace (N.to_nat (6 * len l / 6)) with (length l) by (unfold len; lia).
    eapply rt_repeat_gen with (P := triple_ok 65536 65536 65536); [|exact Hl].
    intros [[a b] c] (Ha & Hb & Hc). cbn [fst snd] in *. subst enc. cbv beta. cbn [fst snd].
    rewrite (N.mod_small a), (N.mod_small b), (N.mod_small c) by lia.
    eapply rt_bind; [apply rt_readU16; exact Ha|].
    eapply rt_bind; [apply rt_readU16; exact Hb|]. eapply rt_bind_r; [apply rt_readU16; exact Hc|]. apply rt_ret.
Qed.

Definition capBytes (c : cap) : list N := [c_code c; capSize c - 2] ++ capPayload (c_val c).
Definition capsBytes (l : list cap) : list N := flat_map capBytes l.
Definition paramBytes (p : optparam) : list N := [2; capsSize (o_caps p)] ++ capsBytes (o_caps p).
Definition paramsBytes (l : list optparam) : list N := flat_map paramBytes l.

Lemma wf_cap_code : forall c, wf_cap c -> c_code c < 256.
Proof.
  intros [code cl v] H. unfold wf_cap in H. cbn [c_val c_code] in *.
  destruct v; try contradiction; destruct H as (Hc & _); lia.
Qed.

Lemma capSize_ge2 : forall c, 2 <= capSize c.
Proof. intros. unfold capSize. lia. Qed.

Lemma len_capBytes : forall c, wf_cap c -> len (capBytes c) = capSize c.
Proof.
  intros c H. destruct (rt_capValue c H) as (_ & Hl & _ & _). unfold capBytes. rewrite len_app, Hl.
  change (len [c_code c; capSize c - 2]) with 2. pose proof (capSize_ge2 c). lia.
Qed.

Lemma len_capsBytes : forall l, Forall wf_cap l -> len (capsBytes l) = capsSize l.
Proof.
  intros l H. induction H as [|c l Hc Hl IH]; [reflexivity|].
  cbn [capsBytes flat_map capsSize fold_right]. rewrite len_app, (len_capBytes c Hc). fold (capsBytes l). fold (capsSize l). lia.
Qed.

Lemma encodeCaps_wf : forall l, Forall wf_cap l -> capsSize l <= 255 -> encodeCaps l = Some (capsBytes l).
Proof.
  intros l H. induction H as [|c l Hc Hl IH]; intros Hs; [reflexivity|].
  cbn [capsSize fold_right] in Hs. fold (capsSize l) in Hs. pose proof (capSize_ge2 c) as H2.
  cbn [encodeCaps]. destruct (rt_capValue c Hc) as (He & Hlen & _ & _). rewrite He, IH by lia.
  rewrite (N.mod_small (c_code c)) by (apply wf_cap_code; exact Hc). rewrite Hlen.
  rewrite (N.mod_small (capSize c - 2)) by lia. reflexivity.
Qed.

Lemma rt_decodeCapabilities : forall l, Forall wf_cap l ->
  forall fuel read acc, (length (capsBytes l) < fuel)%nat -> read + capsSize l <= 255 ->
  runs_to (decodeCapabilities fuel (read + capsSize l) read acc) (capsBytes l) (rev acc ++ map canon_cap l).
Proof.
  intros l H. induction H as [|c l Hc Hl IH]; intros fuel read acc Hf Hs.
  - destruct fuel as [|f]; [cbn in Hf; lia|]. cbn [decodeCapabilities capsBytes flat_map capsSize fold_right map].
    rewrite N.add_0_r, N.ltb_irrefl, app_nil_r. apply rt_ret.
  - destruct fuel as [|f]; [cbn in Hf; lia|].
    cbn [capsSize fold_right] in *. fold (capsSize l) in *. cbn [capsBytes flat_map] in *. fold (capsBytes l) in *.
    pose proof (capSize_ge2 c) as H2. destruct (rt_capValue c Hc) as (He & Hlen & Hmax & Hrt).
    cbn [decodeCapabilities]. replace (read <? read + (capSize c + capsSize l)) with true by lia.
    rewrite app_length in Hf.
    eapply rt_bind.
    { unfold decodeCapability, capBytes. change [c_code c; capSize c - 2] with ([c_code c] ++ [capSize c - 2]).
      rewrite <- app_assoc.
      eapply rt_bind; [apply rt_readByte; apply wf_cap_code; exact Hc|].
      eapply rt_bind; [apply rt_readByte; lia|].
      eapply rt_bind_r; [exact Hrt|]. apply rt_ret. }
    cbn [c_len]. replace ((read + (capSize c - 2) + 2) mod 256) with (read + capSize c) by (rewrite N.mod_small; lia).
    replace (read + (capSize c + capsSize l)) with (read + capSize c + capsSize l) by lia.
    replace (rev acc ++ map canon_cap (c :: l)) with (rev (mkCap (c_code c) (capSize c - 2) (c_val c) :: acc) ++ map canon_cap l)
      by (cbn [rev map]; rewrite <- app_assoc; reflexivity).
    apply IH; [pose proof (len_capBytes c Hc) as Hcb; unfold len in Hcb; lia|lia].
Qed.

Lemma fold_read_caps : forall l r, r + capsSize l <= 255 ->
  fold_left (fun r c => (r + c_len c + 2) mod 256) (map canon_cap l) r = r + capsSize l.
Proof.
  induction l as [|c l IH]; intros r Hr; [cbn; lia|].
  cbn [capsSize fold_right] in *. fold (capsSize l) in *. pose proof (capSize_ge2 c).
  cbn [map fold_left canon_cap c_len]. replace ((r + (capSize c - 2) + 2) mod 256) with (r + capSize c) by (rewrite N.mod_small; lia).
  rewrite IH by lia. lia.
Qed.

Definition param_ok (p : optparam) : Prop := o_type p = 2 /\ Forall wf_cap (o_caps p) /\ capsSize (o_caps p) <= 255.

Lemma len_paramsBytes : forall l, Forall param_ok l -> len (paramsBytes l) = paramsSize l.
Proof.
  intros l H. induction H as [|p l (Ht & Hc & Hs) Hl IH]; [reflexivity|].
  cbn [paramsBytes flat_map paramsSize fold_right]. fold (paramsBytes l). fold (paramsSize l).
  unfold paramBytes. rewrite !len_app, (len_capsBytes _ Hc), IH. change (len [2; capsSize (o_caps p)]) with 2. lia.
Qed.

Lemma encodeParams_wf : forall l, Forall param_ok l -> encodeParams l = Some (paramsBytes l).
Proof.
  intros l H. induction H as [|p l (Ht & Hc & Hs) Hl IH]; [reflexivity|].
  cbn [encodeParams]. rewrite (encodeCaps_wf _ Hc Hs), IH, Ht. rewrite (len_capsBytes _ Hc).
  rewrite (N.mod_small (capsSize (o_caps p))) by lia. reflexivity.
Qed.

Lemma rt_decodeOptParams : forall l, Forall param_ok l ->
  forall fuel read acc, (length (paramsBytes l) < fuel)%nat -> read + paramsSize l <= 255 ->
  runs_to (decodeOptParams fuel (read + paramsSize l) read acc) (paramsBytes l) (rev acc ++ map canon_param l).
Proof.
  intros l H. induction H as [|p l (Ht & Hc & Hs) Hl IH]; intros fuel read acc Hf Hr.
  - destruct fuel as [|f]; [cbn in Hf; lia|]. cbn [decodeOptParams paramsBytes flat_map paramsSize fold_right map].
    rewrite N.add_0_r, N.ltb_irrefl, app_nil_r. apply rt_ret.
  - destruct fuel as [|f]; [cbn in Hf; lia|].
    cbn [paramsSize fold_right] in *. fold (paramsSize l) in *. cbn [paramsBytes flat_map] in *. fold (paramsBytes l) in *.
    cbn [decodeOptParams]. replace (read <? read + (2 + capsSize (o_caps p) + paramsSize l)) with true by lia.
    unfold paramBytes at 1. change [2; capsSize (o_caps p)] with ([2] ++ [capsSize (o_caps p)]). rewrite <- !app_assoc.
    rewrite app_length in Hf. unfold paramBytes in Hf. rewrite app_length in Hf. cbn [length] in Hf.
    eapply rt_bind; [apply rt_readByte; lia|].
    eapply rt_bind; [apply rt_readByte; lia|]. cbv zeta.
    eapply rt_bind_l; [apply rt_guard|].
    eapply rt_bind.
    { replace (capsSize (o_caps p)) with (0 + capsSize (o_caps p)) at 1 by lia.
      apply (rt_decodeCapabilities _ Hc (S f) 0 []); lia. }
    cbn [rev app]. rewrite fold_read_caps by (rewrite N.mod_small; lia).
    rewrite (N.mod_small (read + 2)) by lia.
    replace (read + (2 + capsSize (o_caps p) + paramsSize l)) with (read + 2 + capsSize (o_caps p) + paramsSize l) by lia.
    replace (rev acc ++ map canon_param (p :: l))
      with (rev (mkOptParam 2 (capsSize (o_caps p)) (map canon_cap (o_caps p)) :: acc) ++ map canon_param l)
      by (cbn [rev map]; unfold canon_param at 2; rewrite <- app_assoc; reflexivity).
    apply IH; lia.
Qed.

Lemma open_roundtrip : forall o m, wf_open m ->
  exists bs al, encodeOpen m = EOk bs /\ len bs <= 4096 /\
                decode (S (length bs)) o bs = (Ok (mkMsg (len bs) 1 (BOpen (canon_open m))) [], al).
Proof.
  intros o m (Hv & Ha & Hh & Hh1 & Hh2 & Hid & Hid0 & Hp & Hps).
  assert (Hpo : Forall param_ok (op_params m)) by exact Hp.
  unfold encodeOpen. rewrite (encodeParams_wf _ Hpo). rewrite (len_paramsBytes _ Hpo).
  set (ps := paramsBytes (op_params m)). set (n := paramsSize (op_params m)) in *.
  rewrite Hv. rewrite (N.mod_small (op_asn m)), (N.mod_small (op_hold m)), (N.mod_small n) by lia.
  change (4 mod 256) with 4.
  eexists.
  set (bs := header (n + 29) 1 ++ [4] ++ u16be (op_asn m) ++ u16be (op_hold m) ++ u32be (op_id m) ++ [n] ++ ps).
  assert (Hlps : len ps = n) by (apply len_paramsBytes; exact Hpo).
  assert (Hlen : len bs = n + 29).
  { subst bs. rewrite !len_app, len_header, !len_u16be, len_u32be, Hlps. change (len [4]) with 1. change (len [n]) with 1. lia. }
  assert (Hrun : runs_to (decodeM (S (length bs)) o) bs (mkMsg (n + 29) 1 (BOpen (canon_open m)))).
  { subst bs. unfold decodeM.
    eapply rt_bind; [apply rt_decodeHeader; [lia|lia|]|].
    { cbn [N.eqb Pos.eqb andb orb negb]. replace (n + 29 <? 29) with false by lia. reflexivity. }
    cbv beta iota. eapply rt_bind_r; [|apply rt_ret].
    unfold decodeBody. cbn [N.eqb Pos.eqb]. unfold decodeOpen.
    eapply rt_bind; [apply rt_readByte; lia|].
    eapply rt_bind; [apply rt_readU16; exact Ha|].
    eapply rt_bind; [apply rt_readU16; exact Hh|].
    eapply rt_bind; [apply rt_readU32; exact Hid|].
    eapply rt_bind; [apply rt_readByte; lia|].
    eapply rt_bind_l; [apply rt_guard|].
    eapply rt_bind_l; [replace (negb (op_id m =? 0)) with true by lia; apply rt_guard|].
    eapply rt_bind_l; [replace (negb ((op_hold m =? 1) || (op_hold m =? 2))) with true by lia; apply rt_guard|].
    eapply rt_bind_r.
    { replace n with (0 + paramsSize (op_params m)) at 1 by (subst n; lia).
      apply (rt_decodeOptParams _ Hpo _ 0 []); [|subst n; lia].
      fold ps. rewrite !app_length. lia. }
    cbn [rev app]. unfold canon_open. rewrite Hv. apply rt_ret. }
  destruct (decode_of_runs _ _ _ _ Hrun) as (al & Ed). exists al.
  split; [reflexivity|]. fold bs. rewrite Hlen. split; [lia|exact Ed].
Qed.
