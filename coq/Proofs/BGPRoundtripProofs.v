(* C17: decoding what the serializer model wrote gives back the structure (with the length and flag fields
   the serializer computed), and the size bounds.
   runs_to m bs v : the decoder m, started on bs followed by anything, consumes exactly bs and returns v. *)
From Coq Require Import List NArith Bool Arith Lia ZArith.
From Coq Require Import ZifyBool ZifyNat ZifyN.
Import ListNotations.
From BioVerif Require Import Model.BGPCodec Model.BGPEncode Proofs.BGPCodecProofs.
Local Open Scope N_scope.
Ltac Zify.zify_post_hook ::= Z.div_mod_to_equations.

Definition runs_to {A} (m : M A) (bs : list N) (v : A) : Prop :=
  forall rest al, exists al', m (bs ++ rest) al = (Ok v rest, al').

Lemma rt_ret : forall A (v : A), runs_to (ret v) [] v.
Proof. intros A v rest al. exists al. reflexivity. Qed.

Lemma rt_bind : forall A B (m : M A) (k : A -> M B) b1 b2 v1 v2,
  runs_to m b1 v1 -> runs_to (k v1) b2 v2 -> runs_to (bind m k) (b1 ++ b2) v2.
Proof.
  intros A B m k b1 b2 v1 v2 H1 H2 rest al. unfold bind. rewrite <- app_assoc.
  destruct (H1 (b2 ++ rest) al) as (al1 & E1). rewrite E1. apply H2.
Qed.

Lemma rt_bind_r : forall A B (m : M A) (k : A -> M B) b v1 v2,
  runs_to m b v1 -> runs_to (k v1) [] v2 -> runs_to (bind m k) b v2.
Proof. intros. rewrite <- (app_nil_r b). eapply rt_bind; eauto. Qed.

Lemma rt_bind_l : forall A B (m : M A) (k : A -> M B) b v1 v2,
  runs_to m [] v1 -> runs_to (k v1) b v2 -> runs_to (bind m k) b v2.
Proof. intros. change b with ([] ++ b). eapply rt_bind; eauto. Qed.

Lemma rt_guard : runs_to (guard true) [] tt.
Proof. apply rt_ret. Qed.

Lemma rt_alloc : forall n, runs_to (alloc n) [] tt.
Proof. intros n rest al. exists (al + n). reflexivity. Qed.

Lemma rt_getBuf_nil : forall A (k : list N -> M A) bs v,
  (forall rest, runs_to (k (bs ++ rest)) bs v) -> forall rest al, exists al', bind getBuf k (bs ++ rest) al = (Ok v rest, al').
Proof. intros A k bs v H rest al. unfold bind, getBuf. apply H. Qed.

Definition bytes_ok (l : list N) : Prop := Forall (fun x => x < 256) l.

Lemma byte_id : forall x, x < 256 -> byte x = x.
Proof. intros. unfold byte. apply N.mod_small. assumption. Qed.

Lemma map_byte_id : forall l, bytes_ok l -> map byte l = l.
Proof.
  intros l H. induction H as [|x l Hx _ IH]; [reflexivity|]. cbn [map]. rewrite byte_id, IH; auto.
Qed.

Lemma rt_readByte : forall x, x < 256 -> runs_to readByte [x] x.
Proof. intros x Hx rest al. exists al. cbn. rewrite byte_id; auto. Qed.

Lemma rt_readU16 : forall v, v < 65536 -> runs_to readU16 (u16be v) v.
Proof.
  intros v Hv rest al. exists al. unfold readU16, u16be, bind, readByte, ret. cbn [app].
  rewrite !byte_id by lia. f_equal. f_equal. lia.
Qed.

Lemma rt_readU32 : forall v, v < 4294967296 -> runs_to readU32 (u32be v) v.
Proof.
  intros v Hv rest al. exists al. unfold readU32, u32be, bytes32, bind, readByte, ret. cbn [app].
  rewrite N.mod_small by lia. rewrite !byte_id by lia. f_equal. f_equal. lia.
Qed.

Lemma firstn_app_len : forall (a b : list N), firstn (length a) (a ++ b) = a.
Proof. intros. rewrite firstn_app, Nat.sub_diag, firstn_all. cbn. apply app_nil_r. Qed.
Lemma skipn_app_len : forall (a b : list N), skipn (length a) (a ++ b) = b.
Proof. intros. rewrite skipn_app, Nat.sub_diag, skipn_all. reflexivity. Qed.

Lemma to_nat_len : forall (a : list N), N.to_nat (len a) = length a.
Proof. intros. unfold len. lia. Qed.

Lemma rt_binRead : forall bs, bytes_ok bs -> runs_to (binRead (len bs)) bs bs.
Proof.
  intros bs Hb rest al. exists al. unfold binRead. rewrite to_nat_len, firstn_app_len, skipn_app_len.
  rewrite N.eqb_refl, map_byte_id; auto.
Qed.

Lemma rt_dumpN : forall bs, runs_to (dumpN (len bs)) bs tt.
Proof.
  intros bs rest al. exists al. unfold dumpN. rewrite to_nat_len, firstn_app_len, skipn_app_len.
  rewrite N.eqb_refl. reflexivity.
Qed.

Lemma rt_bufReadFull : forall bs, bytes_ok bs -> runs_to (bufReadFull (len bs)) bs bs.
Proof.
  intros bs Hb rest al. exists al. unfold bufReadFull, bind, bufRead.
  destruct (len bs =? 0) eqn:E0.
  - destruct bs; [|unfold len in E0; cbn in E0; lia]. cbn. reflexivity.
  - destruct bs as [|x t]; [discriminate|]. set (bs := x :: t) in *.
    change ((x :: t) ++ rest) with (bs ++ rest).
    assert (Hne : exists y r, bs ++ rest = y :: r) by (exists x, (t ++ rest); reflexivity).
    destruct Hne as (y & r & Hne). rewrite Hne. rewrite <- Hne.
    rewrite to_nat_len, firstn_app_len. rewrite to_nat_len, skipn_app_len.
    rewrite N.sub_diag. cbn [N.to_nat repeat]. rewrite app_nil_r, map_byte_id by auto.
    rewrite N.ltb_irrefl. cbn [negb]. unfold guard, ret. reflexivity.
Qed.

Lemma be32_bytes32 : forall v, v < 4294967296 -> be32 (bytes32 v) = v.
Proof. intros v Hv. unfold be32, bytes32. cbn [nth]. lia. Qed.

Lemma bytes32_ok : forall v, bytes_ok (bytes32 v).
Proof. intros. unfold bytes32, bytes_ok. repeat constructor; apply N.mod_lt; lia. Qed.

Lemma len_bytes32 : forall v, len (bytes32 v) = 4.
Proof. reflexivity. Qed.

Lemma rt_read4 : forall v, v < 4294967296 -> runs_to read4 (u32be v) v.
Proof.
  intros v Hv. unfold read4, u32be. rewrite N.mod_small by lia.
  rewrite <- (app_nil_r (bytes32 v)). eapply rt_bind.
  - change 4 with (len (bytes32 v)). apply rt_bufReadFull. apply bytes32_ok.
  - cbv beta. replace (nth 0 (bytes32 v) 0 * 16777216 + nth 1 (bytes32 v) 0 * 65536 + nth 2 (bytes32 v) 0 * 256 +
                       nth 3 (bytes32 v) 0) with v; [apply rt_ret|].
    symmetry. apply be32_bytes32. exact Hv.
Qed.

(* ------------------------------------------------------------------ prefixes *)

Lemma allZero_repeat : forall l, allZero l = true -> l = repeat 0 (length l).
Proof.
  induction l as [|x l IH]; intros H; [reflexivity|].
  unfold allZero in *. cbn [forallb] in H. apply andb_true_iff in H. destruct H as (Hx & Hl).
  cbn [length repeat]. f_equal; [lia|auto].
Qed.

Lemma firstn_repeat : forall (x : N) k n, (k <= n)%nat -> firstn k (repeat x n) = repeat x k.
Proof.
  intros x k. induction k as [|k IH]; intros n Hk; [reflexivity|].
  destruct n as [|n]; [lia|]. cbn [repeat firstn]. f_equal. apply IH. lia.
Qed.

(* copy(ipBytes, b) for b = the first nb bytes of a byte-clean address gives the address back *)
Lemma pad_clean : forall addr nb n,
  length addr = n -> (nb <= n)%nat -> allZero (skipn nb addr) = true ->
  firstn n (firstn nb addr ++ repeat 0 n) = addr.
Proof.
  intros addr nb n Hl Hnb Hz.
  rewrite firstn_app, firstn_length, Nat.min_l by lia.
  rewrite (firstn_all2 (firstn nb addr)) by (rewrite firstn_length; lia).
  rewrite firstn_repeat by lia.
  rewrite <- (firstn_skipn nb addr) at 2. f_equal.
  rewrite (allZero_repeat _ Hz), skipn_length. f_equal. lia.
Qed.

Lemma nth_pad0 : forall (l : list N) k i, nth i (l ++ repeat 0 k) 0 = nth i l 0.
Proof.
  intros l k i. destruct (Nat.lt_ge_cases i (length l)) as [H|H].
  - apply app_nth1. exact H.
  - rewrite app_nth2 by lia. rewrite (nth_overflow l) by lia.
    destruct (Nat.lt_ge_cases (i - length l) k) as [H2|H2].
    + apply nth_repeat.
    + apply nth_overflow. rewrite repeat_length. lia.
Qed.

Lemma be32_pad0 : forall l k, be32 (l ++ repeat 0 k) = be32 l.
Proof. intros. unfold be32. rewrite !nth_pad0. reflexivity. Qed.

Lemma be32_clean : forall v nb, v < 4294967296 -> (nb <= 4)%nat ->
  allZero (skipn nb (bytes32 v)) = true -> be32 (firstn nb (bytes32 v)) = v.
Proof.
  intros v nb Hv Hnb Hz.
  rewrite <- (be32_pad0 _ 4).
  assert (E : firstn nb (bytes32 v) ++ repeat 0 4 = firstn 4 (firstn nb (bytes32 v) ++ repeat 0 4) ++
              skipn 4 (firstn nb (bytes32 v) ++ repeat 0 4)) by (symmetry; apply firstn_skipn).
  rewrite E, pad_clean by (auto; reflexivity).
  unfold be32. rewrite !(app_nth1 (bytes32 v)) by (cbn; lia). apply be32_bytes32. exact Hv.
Qed.

Lemma be64_bytes64 : forall hi rest, hi < 18446744073709551616 -> be64 (bytes64 hi ++ rest) = hi.
Proof.
  intros hi rest H. unfold be64, be32, bytes64, bytes32. cbn [app skipn nth]. lia.
Qed.

Lemma bytes64_ok : forall v, bytes_ok (bytes64 v).
Proof. intros. unfold bytes64. apply Forall_app. split; apply bytes32_ok. Qed.

Lemma ipBytes_ok : forall a, bytes_ok (ipBytes a).
Proof. intros [v|hi lo]; cbn [ipBytes]; [apply bytes32_ok|apply Forall_app; split; apply bytes64_ok]. Qed.

Lemma firstn_ok : forall k l, bytes_ok l -> bytes_ok (firstn k l).
Proof.
  intros k l H. revert k. induction H as [|x l Hx Hl IH]; intros k.
  - rewrite firstn_nil. constructor.
  - destruct k; cbn [firstn]; [constructor|]. constructor; [exact Hx|apply IH].
Qed.

(* ------------------------------------------------------------------ NLRI *)
From BioVerif Require Import Spec.BGPRoundtripSpec.

Lemma bytesInAddr_bound : forall afi pl, pl <= afiAddrLen afi * 8 -> bytesInAddr pl <= afiAddrLen afi.
Proof. intros afi pl H. unfold bytesInAddr. unfold afiAddrLen in *. destruct (afi =? 1); [lia|]. destruct (afi =? 2); lia. Qed.

Lemma len_ipBytes : forall a, len (ipBytes a) = match a with IP4 _ => 4 | IP6 _ _ => 16 end.
Proof. intros [v|hi lo]; reflexivity. Qed.

Lemma rt_deserializePrefix : forall afi p,
  wf_prefix afi p ->
  runs_to (deserializePrefix (firstn (N.to_nat (bytesInAddr (p_len p))) (ipBytes (p_ip p))) (p_len p) afi) [] p.
Proof.
  intros afi [a pl] (Hl & Hz & Hip). cbn [p_ip p_len] in *.
  pose proof (bytesInAddr_bound _ _ Hl) as Hnb.
  unfold deserializePrefix.
  change (@nil N) with (@nil N ++ []). eapply rt_bind.
  { replace (bytesInAddr pl =? len (firstn (N.to_nat (bytesInAddr pl)) (ipBytes a))) with true; [apply rt_guard|].
    symmetry. rewrite len_firstn, len_ipBytes. destruct a as [v|hi lo]; destruct Hip as (Ha & _); subst afi;
      cbn in Hnb; lia. }
  change (@nil N) with (@nil N ++ []). eapply rt_bind.
  { replace (pl <=? afiAddrLen afi * 8) with true by lia. apply rt_guard. }
  destruct a as [v|hi lo].
  - destruct Hip as (Ha & Hv). subst afi. cbn [N.eqb Pos.eqb].
    replace (ipv4FromBytes (firstn (N.to_nat (bytesInAddr pl)) (ipBytes (IP4 v)))) with (IP4 v); [apply rt_ret|].
    unfold ipv4FromBytes. cbn [ipBytes]. cbn in Hnb.
    replace (len (firstn (N.to_nat (bytesInAddr pl)) (bytes32 v)) <=? 4) with true
      by (symmetry; rewrite len_firstn, len_bytes32; lia).
    f_equal. symmetry. apply be32_clean; [exact Hv|lia|exact Hz].
  - destruct Hip as (Ha & Hhi & Hlo & Hvalid). subst afi. cbn [N.eqb Pos.eqb afiAddrLen].
    change (N.to_nat (afiAddrLen 2)) with 16%nat.
    rewrite pad_clean; [|reflexivity|cbn in Hnb; lia|exact Hz].
    cbn [ipBytes].
    assert (E1 : be64 (bytes64 hi ++ bytes64 lo) = hi) by (apply be64_bytes64; exact Hhi).
    assert (E2 : be64 (skipn 8 (bytes64 hi ++ bytes64 lo)) = lo).
    { change (skipn 8 (bytes64 hi ++ bytes64 lo)) with (bytes64 lo).
      rewrite <- (app_nil_r (bytes64 lo)). apply be64_bytes64. exact Hlo. }
    unfold ipFromBytes.
    change (len (bytes64 hi ++ bytes64 lo)) with 16. cbn [N.eqb Pos.eqb].
    destruct (allZero _ && _ && _); rewrite E1, E2.
    + change (@nil N) with (@nil N ++ []). eapply rt_bind; [rewrite Hvalid; apply rt_guard|apply rt_ret].
    + change (@nil N) with (@nil N ++ []). eapply rt_bind; [rewrite Hvalid; apply rt_guard|apply rt_ret].
Qed.

Definition nlriBytes (ap : bool) (n : nlri) : list N :=
  (if ap then u32be (n_id n) else []) ++ [p_len (n_pfx n)] ++
  firstn (N.to_nat (bytesInAddr (p_len (n_pfx n)))) (ipBytes (p_ip (n_pfx n))).

Lemma wf_nlri_plen : forall afi ap n, wf_nlri afi ap n -> p_len (n_pfx n) <= 128.
Proof.
  intros afi ap n (_ & _ & _ & (Hl & _)). unfold afiAddrLen in Hl.
  destruct (afi =? 1); [lia|]. destruct (afi =? 2); lia.
Qed.

Lemma encodeNLRI_wf : forall afi ap safi n, wf_nlri afi ap n -> (safi =? 4) = false ->
  encodeNLRI ap safi n = Some (nlriBytes ap n, len (nlriBytes ap n)).
Proof.
  intros afi ap safi n Hwf Hs. pose proof (wf_nlri_plen _ _ _ Hwf) as Hpl.
  destruct Hwf as (Hlab & Hid & Hap & (Hl & Hz & Hip)).
  pose proof (bytesInAddr_bound _ _ Hl) as Hnb.
  unfold encodeNLRI, nlriBytes. rewrite Hs.
  assert (Hlen : len (ipBytes (p_ip (n_pfx n))) <? bytesInAddr (p_len (n_pfx n)) = false).
  { rewrite len_ipBytes. destruct (p_ip (n_pfx n)); destruct Hip as (Ha & _); subst afi; cbn in Hnb; lia. }
  rewrite Hlen. rewrite N.mod_small by lia. cbn [app]. f_equal. f_equal.
  assert (Hf : len (firstn (N.to_nat (bytesInAddr (p_len (n_pfx n)))) (ipBytes (p_ip (n_pfx n)))) =
               bytesInAddr (p_len (n_pfx n))) by (rewrite len_firstn; lia).
  rewrite len_app, len_cons, Hf, len_nil.
  assert (bytesInAddr (p_len (n_pfx n)) <= 16) by (unfold bytesInAddr; lia).
  destruct ap; [change (len (u32be (n_id n))) with 4|rewrite len_nil]; lia.
Qed.

Lemma rt_decodeNLRI : forall fuel afi ap n, wf_nlri afi ap n ->
  runs_to (decodeNLRI fuel afi 1 ap) (nlriBytes ap n) (n, len (nlriBytes ap n)).
Proof.
  intros fuel afi ap n Hwf. pose proof (wf_nlri_plen _ _ _ Hwf) as Hpl.
  destruct Hwf as (Hlab & Hid & Hap & Hp).
  destruct n as [id labels pfx]. cbn [n_id n_labels n_pfx] in *. subst labels.
  unfold decodeNLRI, nlriBytes. cbn [n_id n_pfx].
  eapply rt_bind with (v1 := (id, if ap then 4 else 0)).
  { destruct ap.
    - rewrite <- (app_nil_r (u32be id)). eapply rt_bind; [apply rt_readU32; exact Hid|apply rt_ret].
    - rewrite (Hap eq_refl). apply rt_ret. }
  cbv beta iota.
  eapply rt_bind; [apply rt_readByte; lia|]. cbv beta zeta. cbn [N.eqb Pos.eqb].
  change (firstn (N.to_nat (bytesInAddr (p_len pfx))) (ipBytes (p_ip pfx)))
    with ([] ++ firstn (N.to_nat (bytesInAddr (p_len pfx))) (ipBytes (p_ip pfx))).
  eapply rt_bind; [apply rt_ret|]. cbv beta iota.
  change (firstn (N.to_nat (bytesInAddr (p_len pfx))) (ipBytes (p_ip pfx)))
    with ([] ++ firstn (N.to_nat (bytesInAddr (p_len pfx))) (ipBytes (p_ip pfx))).
  eapply rt_bind; [apply rt_alloc|].
  destruct Hp as (Hl & Hz & Hip).
  pose proof (bytesInAddr_bound _ _ Hl) as Hnb.
  assert (Hfl : len (firstn (N.to_nat (bytesInAddr (p_len pfx))) (ipBytes (p_ip pfx))) = bytesInAddr (p_len pfx)).
  { rewrite len_firstn, len_ipBytes. destruct (p_ip pfx); destruct Hip as (Ha & _); subst afi; cbn in Hnb; lia. }
  rewrite <- (app_nil_r (firstn _ _)).
  eapply rt_bind.
  { rewrite <- Hfl at 1. apply rt_bufReadFull. apply firstn_ok. apply ipBytes_ok. }
  cbv beta zeta.
  change (@nil N) with (@nil N ++ []).
  eapply rt_bind; [apply rt_deserializePrefix; repeat split; assumption|].
  cbv beta.
  replace ((if ap then 4 else 0) + 1 + bytesInAddr (p_len pfx))
    with (len ((if ap then u32be id else []) ++ [p_len pfx] ++ firstn (N.to_nat (bytesInAddr (p_len pfx))) (ipBytes (p_ip pfx)) ++ [])).
  - destruct pfx. apply rt_ret.
  - rewrite !len_app, len_nil, Hfl. destruct ap; unfold len; cbn [length u32be bytes32]; lia.
Qed.

Definition nlrisBytes (ap : bool) (l : list nlri) : list N := flat_map (nlriBytes ap) l.

Lemma nlriBytes_nonempty : forall ap n, (1 <= length (nlriBytes ap n))%nat.
Proof. intros. unfold nlriBytes. rewrite !app_length. cbn [length]. lia. Qed.

Lemma rt_decodeNLRIs : forall afi ap l, Forall (wf_nlri afi ap) l ->
  forall fuel p acc, (length (nlrisBytes ap l) < fuel)%nat ->
  runs_to (decodeNLRIs fuel (p + len (nlrisBytes ap l)) p afi 1 ap acc) (nlrisBytes ap l) (rev acc ++ l).
Proof.
  intros afi ap l Hwf. induction Hwf as [|n l Hn Hl IH]; intros fuel p acc Hf.
  - destruct fuel as [|f]; [cbn in Hf; lia|]. cbn [nlrisBytes flat_map decodeNLRIs].
    rewrite len_nil, N.add_0_r, N.ltb_irrefl.
    change (@nil N) with (@nil N ++ []). eapply rt_bind; [rewrite N.eqb_refl; apply rt_guard|].
    rewrite app_nil_r. apply rt_ret.
  - destruct fuel as [|f]; [cbn in Hf; lia|]. cbn [nlrisBytes flat_map] in *. fold (nlrisBytes ap l) in *.
    cbn [decodeNLRIs].
    pose proof (nlriBytes_nonempty ap n) as Hne.
    rewrite app_length in Hf.
    replace (p <? p + len (nlriBytes ap n ++ nlrisBytes ap l)) with true
      by (symmetry; rewrite len_app; unfold len; lia).
    eapply rt_bind; [apply rt_decodeNLRI; exact Hn|]. cbv beta iota.
    replace (p + len (nlriBytes ap n ++ nlrisBytes ap l)) with (p + len (nlriBytes ap n) + len (nlrisBytes ap l))
      by (rewrite len_app; lia).
    replace (rev acc ++ n :: l) with (rev (n :: acc) ++ l) by (cbn [rev]; rewrite <- app_assoc; reflexivity).
    apply IH. lia.
Qed.

Lemma encodeNLRIs_wf : forall afi ap safi l, Forall (wf_nlri afi ap) l -> (safi =? 4) = false ->
  encodeNLRIs ap safi l = Some (nlrisBytes ap l).
Proof.
  intros afi ap safi l Hwf Hs. induction Hwf as [|n l Hn Hl IH]; [reflexivity|].
  cbn [encodeNLRIs nlrisBytes flat_map]. rewrite (encodeNLRI_wf _ _ _ _ Hn Hs), IH. reflexivity.
Qed.

Lemma nlriSection_wf : forall afi ap safi l, Forall (wf_nlri afi ap) l -> (safi =? 4) = false ->
  forall acc budget x b', nlriSection ap safi l acc budget = SOk x b' -> x = acc ++ nlrisBytes ap l.
Proof.
  intros afi ap safi l Hwf Hs. induction Hwf as [|n l Hn Hl IH]; intros acc budget x b' E.
  - cbn in E. inversion E. rewrite app_nil_r. reflexivity.
  - cbn [nlriSection] in E. rewrite (encodeNLRI_wf _ _ _ _ Hn Hs) in E.
    destruct (budget <? _); [discriminate|]. apply IH in E. subst x.
    cbn [nlrisBytes flat_map]. rewrite app_assoc. reflexivity.
Qed.

(* ------------------------------------------------------------------ attribute header *)

Lemma rt_decodePathAttr : forall fuel o flags ty vbytes v,
  flags < 256 -> ty < 256 ->
  len vbytes < (if N.testbit flags 4 then 65536 else 256) ->
  runs_to (decodeAttrValue fuel o ty (len vbytes)) vbytes v ->
  runs_to (decodePathAttr fuel o)
          ([flags; ty] ++ lenBytes (N.testbit flags 4) (len vbytes) ++ vbytes)
          (mkAttr (N.testbit flags 7) (N.testbit flags 6) (N.testbit flags 5) (N.testbit flags 4) ty (len vbytes) v,
           (2 + (if N.testbit flags 4 then 2 else 1) + len vbytes) mod 65536).
Proof.
  intros fuel o flags ty vbytes v Hf Ht HL Hv. unfold decodePathAttr.
  change ([flags; ty] ++ lenBytes (N.testbit flags 4) (len vbytes) ++ vbytes)
    with ([flags] ++ [ty] ++ lenBytes (N.testbit flags 4) (len vbytes) ++ vbytes).
  eapply rt_bind; [apply rt_readByte; exact Hf|].
  eapply rt_bind; [apply rt_readByte; exact Ht|]. cbv zeta.
  eapply rt_bind with (v1 := (len vbytes, if N.testbit flags 4 then 2 else 1)).
  { unfold lenBytes. destruct (N.testbit flags 4).
    - rewrite <- (app_nil_r [_; _]). eapply rt_bind; [apply (rt_readU16 (len vbytes)); exact HL|apply rt_ret].
    - rewrite <- (app_nil_r [_]). rewrite N.mod_small by exact HL.
      eapply rt_bind; [apply rt_readByte; exact HL|apply rt_ret]. }
  cbv beta iota.
  eapply rt_bind_r; [exact Hv|]. apply rt_ret.
Qed.

(* ------------------------------------------------------------------ attribute values *)

Lemma rt_dumpN0 : runs_to (dumpN 0) [] tt.
Proof. change 0 with (len (@nil N)). apply rt_dumpN. Qed.

Lemma rt_val_origin : forall fuel o v, v < 256 -> runs_to (decodeAttrValue fuel o 1 (len [v])) [v] (AVOrigin v).
Proof.
  intros. unfold decodeAttrValue. cbn [N.eqb Pos.eqb]. change (len [v]) with 1.
  eapply rt_bind_l; [apply rt_guard|]. eapply rt_bind_r; [apply rt_readByte; assumption|].
  eapply rt_bind_l; [apply rt_dumpN0|]. apply rt_ret.
Qed.

Lemma rt_val_nexthop : forall fuel o v, u32 v ->
  runs_to (decodeAttrValue fuel o 3 (len (bytes32 v))) (bytes32 v) (AVNextHop (IP4 v)).
Proof.
  intros fuel o v Hv. unfold decodeAttrValue. cbn [N.eqb Pos.eqb]. change (len (bytes32 v)) with 4.
  eapply rt_bind_l; [apply rt_guard|].
  replace (bytes32 v) with (u32be v) by (unfold u32be; rewrite N.mod_small; auto).
  eapply rt_bind_r; [apply rt_readU32; exact Hv|]. apply rt_ret.
Qed.

Lemma u32be_small : forall v, u32 v -> u32be v = bytes32 v.
Proof. intros. unfold u32be. rewrite N.mod_small; auto. Qed.

Lemma rt_val_med : forall fuel o v, u32 v -> runs_to (decodeAttrValue fuel o 4 (len (u32be v))) (u32be v) (AVU32 v).
Proof.
  intros fuel o v Hv. unfold decodeAttrValue. cbn [N.eqb Pos.eqb]. change (len (u32be v)) with 4.
  eapply rt_bind_l; [apply rt_guard|]. eapply rt_bind_r; [apply rt_readU32; exact Hv|]. apply rt_ret.
Qed.

Lemma rt_val_localpref : forall fuel o v, u32 v -> runs_to (decodeAttrValue fuel o 5 (len (u32be v))) (u32be v) (AVU32 v).
Proof.
  intros fuel o v Hv. unfold decodeAttrValue. cbn [N.eqb Pos.eqb]. change (len (u32be v)) with 4.
  eapply rt_bind_l; [apply rt_guard|]. eapply rt_bind_r; [apply rt_readU32; exact Hv|]. apply rt_ret.
Qed.

Lemma rt_val_atomic : forall fuel o, runs_to (decodeAttrValue fuel o 6 (len (@nil N))) [] AVNone.
Proof.
  intros. unfold decodeAttrValue. cbn [N.eqb Pos.eqb]. change (len (@nil N)) with 0.
  eapply rt_bind_l; [apply rt_guard|]. apply rt_ret.
Qed.

Lemma rt_val_aggregator : forall fuel o asn ad, asn < 65536 -> u32 ad ->
  runs_to (decodeAttrValue fuel o 7 (len (u16be asn ++ u32be ad))) (u16be asn ++ u32be ad) (AVAggregator asn ad).
Proof.
  intros fuel o asn ad Ha Had. unfold decodeAttrValue. cbn [N.eqb Pos.eqb]. change (len (u16be asn ++ u32be ad)) with 6.
  eapply rt_bind_l; [apply rt_guard|].
  eapply rt_bind; [apply rt_readU16; exact Ha|].
  eapply rt_bind_r; [apply rt_readU32; exact Had|].
  eapply rt_bind_l; [apply rt_dumpN0|]. apply rt_ret.
Qed.

Lemma rt_val_originator : forall fuel o v, u32 v -> runs_to (decodeAttrValue fuel o 9 (len (u32be v))) (u32be v) (AVU32 v).
Proof.
  intros fuel o v Hv. unfold decodeAttrValue, decodeU32Dump. cbn [N.eqb Pos.eqb]. change (len (u32be v)) with 4.
  eapply rt_bind_l; [apply rt_guard|]. eapply rt_bind_r; [apply rt_read4; exact Hv|].
  eapply rt_bind_l; [apply rt_dumpN0|]. apply rt_ret.
Qed.

Lemma rt_repeat_read4 : forall l, Forall u32 l -> runs_to (repeatM (length l) read4) (encodeU32s l) l.
Proof.
  intros l H. induction H as [|x l Hx Hl IH]; cbn [repeatM length encodeU32s flat_map]; [apply rt_ret|].
  eapply rt_bind; [apply rt_read4; exact Hx|]. eapply rt_bind_r; [exact IH|]. apply rt_ret.
Qed.

Lemma len_encodeU32s : forall l, len (encodeU32s l) = 4 * len l.
Proof.
  induction l as [|x l IH]; [reflexivity|]. cbn [encodeU32s flat_map]. rewrite len_app. fold (encodeU32s l).
  rewrite IH, len_cons. change (len (u32be x)) with 4. lia.
Qed.

Lemma rt_decodeU32List : forall l, Forall u32 l -> runs_to (decodeU32List (len (encodeU32s l))) (encodeU32s l) l.
Proof.
  intros l H. unfold decodeU32List. rewrite len_encodeU32s.
  replace (4 * len l mod 4 =? 0) with true by lia.
  eapply rt_bind_l; [apply rt_guard|]. eapply rt_bind_l; [apply rt_alloc|].
  replace (N.to_nat (4 * len l / 4)) with (length l) by (unfold len; lia).
  apply rt_repeat_read4. exact H.
Qed.

Lemma rt_val_comms : forall fuel o l, Forall u32 l ->
  runs_to (decodeAttrValue fuel o 8 (len (encodeU32s l))) (encodeU32s l) (AVComms l).
Proof.
  intros. unfold decodeAttrValue. cbn [N.eqb Pos.eqb].
  eapply rt_bind_r; [apply rt_decodeU32List; assumption|]. apply rt_ret.
Qed.

Lemma rt_val_cluster : forall fuel o l, Forall u32 l ->
  runs_to (decodeAttrValue fuel o 10 (len (encodeU32s l))) (encodeU32s l) (AVCluster l).
Proof.
  intros. unfold decodeAttrValue. cbn [N.eqb Pos.eqb].
  eapply rt_bind_r; [apply rt_decodeU32List; assumption|]. apply rt_ret.
Qed.

Definition largeBytes (l : list (N * N * N)) : list N :=
  flat_map (fun c => u32be (fst (fst c)) ++ u32be (snd (fst c)) ++ u32be (snd c)) l.
Definition large_ok (c : N * N * N) : Prop := u32 (fst (fst c)) /\ u32 (snd (fst c)) /\ u32 (snd c).

Lemma len_largeBytes : forall l, len (largeBytes l) = 12 * len l.
Proof.
  induction l as [|x l IH]; [reflexivity|]. cbn [largeBytes flat_map]. rewrite !len_app. fold (largeBytes l).
  rewrite IH, len_cons. change (len (u32be (fst (fst x)))) with 4. change (len (u32be (snd (fst x)))) with 4.
  change (len (u32be (snd x))) with 4. lia.
Qed.

Lemma rt_val_large : forall fuel o l, Forall large_ok l ->
  runs_to (decodeAttrValue fuel o 32 (len (largeBytes l))) (largeBytes l) (AVLarge l).
Proof.
  intros fuel o l H. unfold decodeAttrValue, decodeLarge. cbn [N.eqb Pos.eqb].
  rewrite len_largeBytes. replace (12 * len l mod 12 =? 0) with true by lia.
  eapply rt_bind_r; [|apply rt_ret].
  eapply rt_bind_l; [apply rt_guard|]. eapply rt_bind_l; [apply rt_alloc|].
  replace (N.to_nat (12 * len l / 12)) with (length l) by (unfold len; lia).
  induction H as [|[[a b] c] l (Ha & Hb & Hc) Hl IH]; cbn [repeatM length largeBytes flat_map]; [apply rt_ret|].
  cbn [fst snd] in *. fold (largeBytes l).
  eapply rt_bind.
  { eapply rt_bind; [apply rt_read4; exact Ha|]. eapply rt_bind; [apply rt_read4; exact Hb|].
    eapply rt_bind_r; [apply rt_read4; exact Hc|]. apply rt_ret. }
  eapply rt_bind_r; [exact IH|]. apply rt_ret.
Qed.

Definition known_type (t : N) : bool :=
  (t =? 1) || (t =? 2) || (t =? 3) || (t =? 4) || (t =? 5) || (t =? 6) || (t =? 7) || (t =? 8) || (t =? 9) ||
  (t =? 10) || (t =? 14) || (t =? 15) || (t =? 18) || (t =? 32).

Lemma rt_val_unknown : forall fuel o ty b, known_type ty = false -> bytes_ok b ->
  runs_to (decodeAttrValue fuel o ty (len b)) b (AVUnknown b).
Proof.
  intros fuel o ty b Hk Hb. unfold known_type in Hk. unfold decodeAttrValue.
  repeat match goal with |- context [ty =? ?c] => replace (ty =? c) with false by lia end.
  eapply rt_bind_l; [apply rt_alloc|]. eapply rt_bind_r; [apply rt_binRead; exact Hb|]. apply rt_ret.
Qed.

(* AS_PATH *)
Definition asn_ok (as4 : bool) (a : N) : Prop := if as4 then u32 a else a < 65536.
Definition seg_ok (as4 : bool) (s : N * list N) : Prop :=
  (fst s = 1 \/ fst s = 2) /\ 1 <= len (snd s) <= 255 /\ Forall (asn_ok as4) (snd s).
Definition asnBytes (as4 : bool) (l : list N) : list N :=
  if as4 then flat_map u32be l else flat_map (fun a => u16be (a mod 65536)) l.
Definition segBytes (as4 : bool) (s : N * list N) : list N := [fst s; len (snd s)] ++ asnBytes as4 (snd s).

Lemma len_asnBytes : forall as4 l, len (asnBytes as4 l) = len l * (if as4 then 4 else 2).
Proof.
  intros as4 l. unfold asnBytes. destruct as4; induction l as [|x l IH]; try reflexivity;
    cbn [flat_map]; rewrite len_app, IH, len_cons; [change (len (u32be x)) with 4|change (len (u16be (x mod 65536))) with 2]; lia.
Qed.

Lemma rt_asns : forall as4 l, Forall (asn_ok as4) l ->
  runs_to (repeatM (length l) (decodeASN (if as4 then 4 else 2))) (asnBytes as4 l) l.
Proof.
  intros as4 l H. unfold asnBytes.
  induction H as [|x l Hx Hl IH]; [destruct as4; apply rt_ret|].
  destruct as4; cbn [repeatM length flat_map]; unfold asn_ok in Hx.
  - eapply rt_bind; [unfold decodeASN; cbn [N.eqb Pos.eqb]; apply rt_readU32; exact Hx|].
    eapply rt_bind_r; [exact IH|]. apply rt_ret.
  - eapply rt_bind; [unfold decodeASN; cbn [N.eqb Pos.eqb]; rewrite N.mod_small by exact Hx; apply rt_readU16; exact Hx|].
    eapply rt_bind_r; [exact IH|]. apply rt_ret.
Qed.

Lemma rt_decodeASPath : forall as4 segs, Forall (seg_ok as4) segs ->
  forall fuel p acc, (length (flat_map (segBytes as4) segs) < fuel)%nat ->
  runs_to (decodeASPath fuel (p + len (flat_map (segBytes as4) segs)) (if as4 then 4 else 2) p acc)
          (flat_map (segBytes as4) segs) (AVASPath (rev acc ++ segs)).
Proof.
  intros as4 segs H. induction H as [|[ty asns] segs (Hty & Hc & Ha) Hs IH]; intros fuel p acc Hf.
  - destruct fuel as [|f]; [cbn in Hf; lia|]. cbn [flat_map decodeASPath].
    rewrite len_nil, N.add_0_r, N.ltb_irrefl.
    eapply rt_bind_l; [rewrite N.eqb_refl; apply rt_guard|]. rewrite app_nil_r. apply rt_ret.
  - destruct fuel as [|f]; [cbn in Hf; lia|]. cbn [flat_map] in *. cbn [fst snd] in *.
    set (rest := flat_map (segBytes as4) segs) in *.
    cbn [decodeASPath].
    rewrite app_length in Hf. unfold segBytes in Hf. cbn [fst snd app length] in Hf.
    change (segBytes as4 (ty, asns)) with ([ty] ++ [len asns] ++ asnBytes as4 asns).
    replace (p <? p + len (([ty] ++ [len asns] ++ asnBytes as4 asns) ++ rest)) with true
      by (symmetry; rewrite !len_app; unfold len; cbn [length]; lia).
    rewrite <- !app_assoc.
    eapply rt_bind; [apply rt_readByte; lia|].
    eapply rt_bind; [apply rt_readByte; lia|]. cbv zeta.
    eapply rt_bind_l; [replace ((ty =? 1) || (ty =? 2)) with true by lia; apply rt_guard|].
    eapply rt_bind_l; [replace (negb (len asns =? 0)) with true by lia; apply rt_guard|].
    eapply rt_bind_l; [apply rt_alloc|].
    eapply rt_bind; [rewrite to_nat_len; apply rt_asns; exact Ha|]. cbv beta.
    replace (p + len ([ty] ++ [len asns] ++ asnBytes as4 asns ++ rest))
      with (p + 2 + len asns * (if as4 then 4 else 2) + len rest)
      by (rewrite !len_app, len_asnBytes; unfold len; cbn [length]; lia).
    replace (rev acc ++ (ty, asns) :: segs) with (rev ((ty, asns) :: acc) ++ segs)
      by (cbn [rev]; rewrite <- app_assoc; reflexivity).
    apply IH. lia.
Qed.

Definition nonempty_seg (s : N * list N) : bool := negb (len (snd s) =? 0).

Lemma encodeSegments_spec : forall as4 segs,
  Forall (seg_ok as4) (filter nonempty_seg segs) ->
  len (flat_map (segBytes as4) (filter nonempty_seg segs)) < 65536 ->
  encodeSegments as4 segs = (flat_map (segBytes as4) (filter nonempty_seg segs),
                             len (flat_map (segBytes as4) (filter nonempty_seg segs))).
Proof.
  intros as4 segs. induction segs as [|[ty asns] segs IH]; intros Hok Hlen; [reflexivity|].
  assert (Hne : nonempty_seg (ty, asns) = negb (len asns =? 0)) by reflexivity.
  cbn [encodeSegments]. cbn [filter] in *. rewrite Hne in *.
  destruct (len asns =? 0) eqn:E0; cbn [negb] in *.
  - rewrite IH by assumption. reflexivity.
  - inversion Hok as [|x l (Hty & Hc & Ha) Hrest]; subst. cbn [fst snd] in *.
    cbn [flat_map] in Hlen. rewrite len_app in Hlen.
    rewrite IH by (auto; lia). cbn [flat_map].
    assert (Ety : ty mod 256 = ty) by (apply N.mod_small; lia).
    assert (Ecnt : len asns mod 256 = len asns) by (apply N.mod_small; lia).
    rewrite Ety, Ecnt. apply pair_equal_spec. split.
    + unfold segBytes at 2. cbn [fst snd]. unfold asnBytes. destruct as4; rewrite <- app_assoc; reflexivity.
    + rewrite len_app. unfold segBytes at 2. cbn [fst snd]. rewrite len_app.
      unfold segBytes at 1 in Hlen. cbn [fst snd] in Hlen. rewrite len_app in Hlen.
      pose proof (len_asnBytes as4 asns) as Hab. rewrite Hab in *.
      change (len [ty; len asns]) with 2 in *.
      rewrite (N.mod_small (len asns) 65536) by lia.
      destruct as4; rewrite !N.mod_small; lia.
Qed.
