(* C12 (import side): AdjRIBIn.ReplaceFilterChain leaves the Loc-RIB as if the session had been established
   with the new policy; and filter.Chain.Equal is sound (a replacement is never skipped wrongly). *)
From Coq Require Import List NArith Bool Lia Permutation PeanoNat.
Import ListNotations.
From BioVerif Require Import Model.PathIDs Model.AdjRIBOut Model.ImportReplace
  Proofs.AroIDsProofs Proofs.ExportViewA.
Local Open Scope N_scope.

(* ---------------------------------------------------------------- Compare / Equal and the key *)

Lemma bgp_compare_key : forall a b, bgp_compare a b = true -> b_src a = b_src b /\ b_pid a = b_pid b.
Proof.
  intros a b H. unfold bgp_compare in H.
  repeat (apply andb_prop in H; destruct H as [H ?]).
  apply N.eqb_eq in H. apply N.eqb_eq in H13. auto.
Qed.

Lemma path_compare_key : forall x r b, path_compare x (PBgp r b) = true -> pkey x = pkey (PBgp r b).
Proof.
  intros [[m|]|r' a] r b H; cbn [path_compare] in H; try discriminate.
  apply bgp_compare_key in H. destruct H as [A B]. cbn [pkey]. now rewrite A, B.
Qed.

Lemma path_equal_key : forall x r b, path_equal x (PBgp r b) = true -> pkey x = pkey (PBgp r b).
Proof.
  intros [[m|]|r' a] r b H; cbn [path_equal] in H; try discriminate.
  apply andb_prop in H. destruct H as [HP HS]. apply N.eqb_eq in HP.
  unfold bgp_select_eq in HS. repeat (apply andb_prop in HS; destruct HS as [HS ?]).
  apply N.eqb_eq in H0. cbn [pkey]. now rewrite HP, H0.
Qed.

Lemma bgp_select_eq_refl : forall b, bgp_select_eq b b = true.
Proof.
  intros b. unfold bgp_select_eq. rewrite !N.eqb_refl, Bool.eqb_reflx, Nat.eqb_refl. reflexivity.
Qed.

Lemma path_equal_refl_bgp : forall r b, path_equal (PBgp r b) (PBgp r b) = true.
Proof. intros. cbn [path_equal]. now rewrite N.eqb_refl, bgp_select_eq_refl. Qed.

(* ---------------------------------------------------------------- the two lookups, when the match is unique *)

Lemma loc_remove_unique : forall pfx r b (l : loc),
  (forall x, In (pfx, x) l -> path_compare x (PBgp r b) = true -> x = PBgp r b) ->
  In (pfx, PBgp r b) l ->
  exists l1 l2, l = l1 ++ (pfx, PBgp r b) :: l2 /\ loc_remove pfx (PBgp r b) l = l1 ++ l2.
Proof.
  intros pfx r b l U HI. unfold loc_remove.
  destruct (tbl_remove_first_split pfx (PBgp r b) l HI (path_compare_refl_bgp r b)) as [l1 [x [l2 [E [C R]]]]].
  assert (x = PBgp r b).
  { apply U; [|exact C]. rewrite E. apply in_or_app. right. now left. }
  subst x. eauto.
Qed.

Lemma loc_replace_unique : forall pfx r b nw (l : loc),
  (forall x, In (pfx, x) l -> path_equal x (PBgp r b) = true -> x = PBgp r b) ->
  In (pfx, PBgp r b) l ->
  exists l1 l2, l = l1 ++ (pfx, PBgp r b) :: l2 /\ loc_replace pfx (PBgp r b) nw l = l1 ++ (pfx, nw) :: l2.
Proof.
  intros pfx r b nw. induction l as [|[k y] l IH]; intros U HI; [destruct HI|].
  cbn [loc_replace]. destruct (N.eqb k pfx && path_equal y (PBgp r b)) eqn:E.
  - apply andb_prop in E. destruct E as [E1 E2]. apply N.eqb_eq in E1. subst k.
    assert (y = PBgp r b) by (apply U; [now left|exact E2]). subst y.
    exists [], l. auto.
  - destruct HI as [HI|HI].
    + inversion HI; subst. rewrite N.eqb_refl, path_equal_refl_bgp in E. discriminate.
    + destruct IH as [l1 [l2 [A B]]]; [|assumption|].
      * intros x Hx. apply U. now right.
      * exists ((k, y) :: l1), l2. subst l. rewrite B. auto.
Qed.

(* ---------------------------------------------------------------- convergence *)

Section Import.
  Variables fc fn : N -> path -> option path.
  Variable r : rin.
  Variable other : loc.

  (* Guards: the stored paths are BGP paths; the eligible paths of a prefix differ in (source, path id) -
     the Adj-RIB-In keeps one path per (prefix, path id) of one source; both policies keep source and path id
     (no filter action touches them) and answer with BGP paths; what else the Loc-RIB holds comes from other
     sources; Compare-equal outputs of the two policies for one path are equal. *)
  Record iguards : Prop := mkIGuards {
    i_keys : forall r1 pfx p r2, r = r1 ++ (pfx, p, false) :: r2 ->
             forall p' h', In (pfx, p', h') (r1 ++ r2) -> h' = false -> pkey p' <> pkey p;
    i_keep_c : forall pfx p q, fc pfx p = Some q -> pkey q = pkey p /\ exists rr b, q = PBgp rr b;
    i_keep_n : forall pfx p q, fn pfx p = Some q -> pkey q = pkey p /\ exists rr b, q = PBgp rr b;
    i_other : forall pfx x p h, In (pfx, x) other -> In (pfx, p, h) r -> pkey x <> pkey p;
    i_faithful : forall pfx p h qc qn, In (pfx, p, h) r -> fc pfx p = Some qc -> fn pfx p = Some qn ->
                 path_compare qc qn = true -> qc = qn
  }.

  Hypothesis G : iguards.

  Lemma in_establish : forall f (l : rin) pfx x,
    In (pfx, x) (establish f l) -> exists p, In (pfx, p, false) l /\ f pfx p = Some x.
  Proof.
    intros f l pfx x H. unfold establish in H. apply in_flat_map in H.
    destruct H as [[[k p] h] [HI HX]]. destruct h; [destruct HX|].
    destruct (f k p) as [q|] eqn:E; [|destruct HX]. destruct HX as [HX|[]]. inversion HX; subst. eauto.
  Qed.

  Lemma establish_app : forall f l1 l2, establish f (l1 ++ l2) = establish f l1 ++ establish f l2.
  Proof. intros. unfold establish. apply flat_map_app. Qed.

  Lemma step_ok : forall done pfx p h rest l,
    r = done ++ (pfx, p, h) :: rest ->
    Permutation l (other ++ establish fn done ++ establish fc ((pfx, p, h) :: rest)) ->
    Permutation (replace_one fc fn l (pfx, p, h))
                (other ++ establish fn (done ++ [(pfx, p, h)]) ++ establish fc rest).
  Proof.
    intros done pfx p h rest l ER H. rewrite establish_app.
    destruct h.
    { (* hidden: never announced *) cbn [replace_one establish flat_map app] in *. rewrite app_nil_r. exact H. }
    cbn [replace_one]. cbn [establish flat_map] in H. fold (establish fc rest) in H.
    cbn [establish flat_map]. rewrite app_nil_r.
    assert (HIr : In (pfx, p, false) r) by (rewrite ER; apply in_or_app; right; now left).
    (* who else is in the Loc-RIB has another key *)
    assert (OtherKeys : forall x, In (pfx, x) (other ++ establish fn done ++ establish fc rest) -> pkey x <> pkey p).
    { intros x HX. apply in_app_or in HX. destruct HX as [HX|HX].
      - eapply (i_other G); eassumption.
      - apply in_app_or in HX. destruct HX as [HX|HX].
        + destruct (in_establish fn done pfx x HX) as [p' [HP' F']].
          destruct (i_keep_n G _ _ _ F') as [K _]. rewrite K.
          eapply (i_keys G done pfx p rest ER p' false); [apply in_or_app; now left|reflexivity].
        + destruct (in_establish fc rest pfx x HX) as [p' [HP' F']].
          destruct (i_keep_c G _ _ _ F') as [K _]. rewrite K.
          eapply (i_keys G done pfx p rest ER p' false); [apply in_or_app; now right|reflexivity]. }
    destruct (fc pfx p) as [qc|] eqn:FC; destruct (fn pfx p) as [qn|] eqn:FN; cbn [app] in *.
    - destruct (i_keep_c G _ _ _ FC) as [KC [rc [bc ->]]].
      assert (Mine : forall x, In (pfx, x) l ->
                     pkey x = pkey (PBgp rc bc) -> x = PBgp rc bc).
      { intros x HX KX.
        assert (HX' : In (pfx, x) (other ++ establish fn done ++ (pfx, PBgp rc bc) :: establish fc rest)).
        { eapply Permutation_in; eassumption. }
        apply in_app_or in HX'. destruct HX' as [HX'|HX'].
        - exfalso. apply (OtherKeys x); [apply in_or_app; now left|congruence].
        - apply in_app_or in HX'. destruct HX' as [HX'|[HX'|HX']].
          + exfalso. apply (OtherKeys x); [apply in_or_app; right; apply in_or_app; now left|congruence].
          + now inversion HX'.
          + exfalso. apply (OtherKeys x); [apply in_or_app; right; apply in_or_app; now right|congruence]. }
      assert (HIq : In (pfx, PBgp rc bc) l).
      { eapply Permutation_in; [apply Permutation_sym; exact H|].
        apply in_or_app; right. apply in_or_app; right. now left. }
      destruct (path_compare (PBgp rc bc) qn) eqn:CMP.
      + assert (PBgp rc bc = qn) by (eapply (i_faithful G); eassumption). subst qn.
        eapply Permutation_trans; [exact H|]. apply Permutation_app_head.
        rewrite <- app_assoc. apply Permutation_refl.
      + destruct (loc_replace_unique pfx rc bc qn l) as [l1 [l2 [EL ER2]]]; [|exact HIq|].
        * intros x HX EQ. apply Mine; [exact HX|now apply path_equal_key].
        * rewrite ER2. rewrite EL in H.
          assert (H' : Permutation (l1 ++ l2) (other ++ establish fn done ++ establish fc rest)).
          { rewrite app_assoc in H. rewrite app_assoc. eapply Permutation_app_inv. exact H. }
          eapply Permutation_trans; [apply Permutation_sym, Permutation_middle|].
          eapply Permutation_trans; [apply perm_skip; exact H'|].
          rewrite <- app_assoc. cbn [app].
          rewrite !app_assoc. apply Permutation_middle.
    - destruct (i_keep_c G _ _ _ FC) as [KC [rc [bc ->]]].
      assert (HIq : In (pfx, PBgp rc bc) l).
      { eapply Permutation_in; [apply Permutation_sym; exact H|].
        apply in_or_app; right. apply in_or_app; right. now left. }
      destruct (loc_remove_unique pfx rc bc l) as [l1 [l2 [EL ER2]]]; [|exact HIq|].
      + intros x HX EQ.
        assert (HX' : In (pfx, x) (other ++ establish fn done ++ (pfx, PBgp rc bc) :: establish fc rest)).
        { eapply Permutation_in; eassumption. }
        apply path_compare_key in EQ.
        apply in_app_or in HX'. destruct HX' as [HX'|HX'].
        * exfalso. apply (OtherKeys x); [apply in_or_app; now left|congruence].
        * apply in_app_or in HX'. destruct HX' as [HX'|[HX'|HX']].
          -- exfalso. apply (OtherKeys x); [apply in_or_app; right; apply in_or_app; now left|congruence].
          -- now inversion HX'.
          -- exfalso. apply (OtherKeys x); [apply in_or_app; right; apply in_or_app; now right|congruence].
      + rewrite ER2, app_nil_r. rewrite EL in H.
        rewrite app_assoc in H. rewrite app_assoc. eapply Permutation_app_inv. exact H.
    - unfold loc_add. rewrite <- app_assoc. cbn [app].
      eapply Permutation_trans; [apply Permutation_app_tail; exact H|].
      rewrite <- !app_assoc. apply Permutation_app_head. apply Permutation_app_head.
      apply Permutation_sym, Permutation_cons_append.
    - rewrite app_nil_r. exact H.
  Qed.

  Lemma fold_ok : forall rest done l,
    r = done ++ rest ->
    Permutation l (other ++ establish fn done ++ establish fc rest) ->
    Permutation (fold_left (replace_one fc fn) rest l) (other ++ establish fn r).
  Proof.
    induction rest as [|[[pfx p] h] rest IH]; intros done l ER H; cbn [fold_left].
    - rewrite app_nil_r in ER. subst done. cbn [establish flat_map] in H. rewrite app_nil_r in H. exact H.
    - apply (IH (done ++ [(pfx, p, h)])).
      + rewrite <- app_assoc. exact ER.
      + now apply step_ok.
  Qed.

  Theorem import_replace_converges : forall l,
    Permutation l (other ++ establish fc r) ->
    Permutation (replace_in fc fn r l) (other ++ establish fn r).
  Proof. intros l H. unfold replace_in. apply (fold_ok r [] l eq_refl). exact H. Qed.
End Import.

(* ---------------------------------------------------------------- Chain.Equal is sound *)

Lemma list_eqb_eq : forall (A : Type) (eqb : A -> A -> bool),
  (forall x y, eqb x y = true -> x = y) -> forall l m, list_eqb eqb l m = true -> l = m.
Proof.
  intros A eqb S. induction l as [|x l IH]; intros [|y m] H; cbn [list_eqb] in H; try discriminate; [reflexivity|].
  apply andb_prop in H. destruct H as [H1 H2]. f_equal; [now apply S|now apply IH].
Qed.

(* actions that are Equal act alike (prepend: the count is a uint16) *)
Lemma action_eqb_sound : forall a b p, action_eqb a b = true -> do_action a p = do_action b p.
Proof.
  intros [x|x|x|x t| |] [y|y|y|y u| |] p H; cbn [action_eqb] in H; try discriminate; try reflexivity;
    try (apply N.eqb_eq in H; now subst).
  apply andb_prop in H. destruct H as [H1 H2]. apply N.eqb_eq in H1, H2. subst y.
  destruct p as [sn|r b]; cbn [do_action]; [reflexivity|]. now rewrite H2.
Qed.

Lemma actions_eqb_sound : forall l m p, list_eqb action_eqb l m = true -> do_actions l p = do_actions m p.
Proof.
  induction l as [|a l IH]; intros [|b m] p H; cbn [list_eqb] in H; try discriminate; [reflexivity|].
  apply andb_prop in H. destruct H as [H1 H2]. cbn [do_actions].
  rewrite (action_eqb_sound a b p H1). destruct (do_action b p); auto.
Qed.

Lemma term_eqb_sound : forall a b, term_eqb a b = true ->
  t_from a = t_from b /\ forall p, do_actions (t_then a) p = do_actions (t_then b) p.
Proof.
  intros a b H. unfold term_eqb in H. apply andb_prop in H. destruct H as [H1 H2]. split.
  - apply (list_eqb_eq _ (list_eqb N.eqb)); [|exact H1].
    apply list_eqb_eq. intros x y E. now apply N.eqb_eq.
  - intros p. now apply actions_eqb_sound.
Qed.

Lemma terms_eqb_sound : forall l m pfx p, list_eqb term_eqb l m = true -> do_terms l pfx p = do_terms m pfx p.
Proof.
  induction l as [|a l IH]; intros [|b m] pfx p H; cbn [list_eqb] in H; try discriminate; [reflexivity|].
  apply andb_prop in H. destruct H as [H1 H2]. cbn [do_terms].
  destruct (term_eqb_sound a b H1) as [F T]. unfold term_matches. rewrite F.
  set (mt := match t_from b with [] => true | c0 :: cs => existsb (fun c => cond_matches c pfx) (c0 :: cs) end).
  destruct mt.
  - rewrite T. destruct (do_actions (t_then b) p); [now apply IH|reflexivity|reflexivity].
  - now apply IH.
Qed.

Theorem chain_eqb_sound : forall c d, chain_eqb c d = true -> forall pfx p, interp c pfx p = interp d pfx p.
Proof.
  unfold chain_eqb. induction c as [|f c IH]; intros [|g d] H pfx p; cbn [list_eqb] in H; try discriminate; [reflexivity|].
  apply andb_prop in H. destruct H as [H1 H2]. cbn [interp].
  rewrite (terms_eqb_sound f g pfx p H1). destruct (do_terms g pfx p); [now apply IH|reflexivity|reflexivity].
Qed.
