From Coq Require Import List NArith Bool Lia.
Import ListNotations.
From BioVerif Require Import Model.AdjRIBIn Model.UpdateApply Spec.AdjRIBInSpec Spec.UpdateApplySpec Proofs.AdjRIBInProofs.
Open Scope N_scope.

Lemma last_reach_eq : forall l init,
  fold_left (fun acc a => match a with AReach _ r => Some r | _ => acc end) l init =
  match the_reach l with Some r => Some r | None => init end.
Proof.
  induction l as [|a l IH]; intro init; simpl; [reflexivity|].
  rewrite IH. unfold the_reach. simpl. destruct (last_some _ l); [reflexivity|]. destruct a; reflexivity.
Qed.

Lemma last_unreach_eq : forall l init,
  fold_left (fun acc a => match a with AUnreach _ r => Some r | _ => acc end) l init =
  match the_unreach l with Some r => Some r | None => init end.
Proof.
  induction l as [|a l IH]; intro init; simpl; [reflexivity|].
  rewrite IH. unfold the_unreach. simpl. destruct (last_some _ l); [reflexivity|]. destruct a; reflexivity.
Qed.

Lemma last_reach_the : forall l, last_reach l = the_reach l.
Proof. intro l. unfold last_reach. rewrite last_reach_eq. destruct (the_reach l); reflexivity. Qed.
Lemma last_unreach_the : forall l, last_unreach l = the_unreach l.
Proof. intro l. unfold last_unreach. rewrite last_unreach_eq. destruct (the_unreach l); reflexivity. Qed.

Lemma attr_value_cons : forall {B} (f : attr -> option B) d a l,
  attr_value f d (a :: l) = attr_value f (match f a with Some b => b | None => d end) l.
Proof. intros. unfold attr_value. simpl. destruct (last_some f l); [reflexivity|]. destruct (f a); reflexivity. Qed.

Lemma process_attrs_gen : forall l q,
  fold_left process_attr l q =
  mkPath (pid q)
    (attr_value (fun a => match a with ALocalPref _ v => Some v | _ => None end) (lpref q) l)
    (attr_value (fun a => match a with AMed _ v => Some v | _ => None end) (med q) l)
    (attr_value (fun a => match a with ANextHop _ v => Some v | _ => None end) (nhop q) l)
    (attr_value (fun a => match a with AASPath _ v => Some v | _ => None end) (aspath q) l)
    (attr_value (fun a => match a with AOriginator _ v => Some v | _ => None end) (origid q) l)
    (attr_value (fun a => match a with AClusterList _ v => Some v | _ => None end) (clist q) l)
    (otc q) (hid q).
Proof.
  induction l as [|a l IH]; intro q.
  - destruct q; reflexivity.
  - cbn [fold_left]. rewrite IH. rewrite !attr_value_cons. destruct a; reflexivity.
Qed.

Lemma process_attrs_eq : forall l, process_attrs l = message_path l.
Proof. intro l. unfold process_attrs. rewrite process_attrs_gen. reflexivity. Qed.

Lemma fold_announce : forall base l s,
  fold_left (fun acc n => add_path (n_pfx n) (set_pid base (n_id n)) acc) l s =
  fold_left step (announce_each base l) s.
Proof. intros base l. induction l as [|n l IH]; intro s; simpl; [reflexivity | apply IH]. Qed.

Lemma fold_withdraw : forall l s,
  fold_left (fun acc n => remove_path (n_pfx n) (Some (n_id n)) acc) l s =
  fold_left step (withdraw_each l) s.
Proof. induction l as [|n l IH]; intro s; simpl; [reflexivity | apply IH]. Qed.

Lemma well_typed_forallb : forall u, well_typed u -> forallb attr_typed (u_attrs u) = true.
Proof. intros u H. apply forallb_forall. exact H. Qed.

Lemma mp_update_ops : forall afi base r s,
  mp_update afi 1 base r s =
  fold_left step (if (afi =? mr_afi r) && (1 =? mr_safi r) then announce_each (set_nhop base (mr_nh r)) (mr_nlri r) else []) s.
Proof.
  intros. unfold mp_update. destruct ((afi =? mr_afi r) && (1 =? mr_safi r)); cbn [negb]; [apply fold_announce | reflexivity].
Qed.

Lemma mp_withdraw_ops : forall afi w s,
  mp_withdraw afi 1 w s =
  fold_left step (if (afi =? mu_afi w) && (1 =? mu_safi w) then withdraw_each (mu_nlri w) else []) s.
Proof.
  intros. unfold mp_withdraw. destruct ((afi =? mu_afi w) && (1 =? mu_safi w)); cbn [negb]; [apply fold_withdraw | reflexivity].
Qed.

Theorem per_nlri : forall (afi : N) (u : update) (s : st),
  well_typed u ->
  process_update afi 1 u s = Done (fold_left step (message_ops afi u) s).
Proof.
  intros afi u s Hwt. unfold process_update, message_ops. cbv zeta.
  rewrite N.eqb_refl. cbn [negb]. rewrite (well_typed_forallb u Hwt). cbn [negb].
  rewrite last_reach_the, last_unreach_the, process_attrs_eq.
  rewrite !fold_left_app.
  set (base := message_path (u_attrs u)).
  assert (E1 : match the_reach (u_attrs u) with Some r => mp_update afi 1 base r s | None => s end =
               fold_left step
                 match the_reach (u_attrs u) with
                 | Some r => if (afi =? mr_afi r) && (1 =? mr_safi r) then announce_each (set_nhop base (mr_nh r)) (mr_nlri r) else []
                 | None => [] end s).
  { destruct (the_reach (u_attrs u)) as [r|]; [apply mp_update_ops | reflexivity]. }
  rewrite E1. clear E1.
  set (s1 := fold_left step _ s).
  assert (E2 : match the_unreach (u_attrs u) with Some w => mp_withdraw afi 1 w s1 | None => s1 end =
               fold_left step
                 match the_unreach (u_attrs u) with
                 | Some w => if (afi =? mu_afi w) && (1 =? mu_safi w) then withdraw_each (mu_nlri w) else []
                 | None => [] end s1).
  { destruct (the_unreach (u_attrs u)) as [w|]; [apply mp_withdraw_ops | reflexivity]. }
  rewrite E2. clear E2.
  set (s2 := fold_left step _ s1).
  destruct (afi =? 1); [|reflexivity].
  rewrite fold_left_app, <- fold_withdraw, <- fold_announce. reflexivity.
Qed.

Theorem other_safi_ignored : forall afi safi u s, safi <> 1 -> process_update afi safi u s = Done s.
Proof.
  intros afi safi u s H. unfold process_update. apply N.eqb_neq in H. rewrite H. reflexivity.
Qed.

Theorem no_panic : forall afi safi u s, well_typed u -> exists s', process_update afi safi u s = Done s'.
Proof.
  intros afi safi u s Hwt. destruct (N.eq_dec safi 1) as [->|Hne].
  - eexists. apply per_nlri, Hwt.
  - eexists. apply other_safi_ignored, Hne.
Qed.

(* a whole session: the messages processed one after the other from the empty Adj-RIB-In *)
Theorem per_nlri_session : forall (a : sattrs) (pol : policy) (afi : N) (us : list update) (pre : list op),
  (forall u, In u us -> well_typed u) ->
  process_updates afi 1 us (run a pol pre) = Done (run a pol (pre ++ flat_map (message_ops afi) us)).
Proof.
  intros a pol afi us. unfold process_updates. induction us as [|u us IH]; intros pre Hwt; simpl.
  - rewrite app_nil_r. reflexivity.
  - rewrite per_nlri by (apply Hwt; left; reflexivity).
    assert (E : fold_left step (message_ops afi u) (run a pol pre) = run a pol (pre ++ message_ops afi u)).
    { unfold run. rewrite fold_left_app. reflexivity. }
    rewrite E. rewrite IH by (intros x Hx; apply Hwt; right; exact Hx). rewrite <- app_assoc. reflexivity.
Qed.

(* what one withdrawn NLRI does: the slot (prefix; with add-path the path id) is emptied, nothing else changes *)
Theorem withdraw_removes : forall (a : sattrs) (pol : policy) (ops : list op) (p : pfx) (i : N),
  let s := run a pol ops in
  let s' := step s (Withdraw p i) in
  let slot := fun e : pfx * path => (fst e =? p) && (negb (addpath_rx a) || (pid (snd e) =? i)) in
  filter slot (tab s') = [] /\
  filter (fun e => negb (slot e)) (tab s') = filter (fun e => negb (slot e)) (tab s).
Proof.
  intros a pol ops p i s s' slot.
  destruct (run_facts a ops (init a pol) (mkSS [] [] []) (Base_init a pol) (Sim_init a pol)) as (HB&[Hsa _ _ _]&_).
  fold (run a pol ops) in HB, Hsa. fold s in HB, Hsa.
  destruct (step_base (Withdraw p i) s HB) as (_&_&E2&_).
  unfold s'. rewrite E2. simpl. unfold apx. rewrite Hsa.
  change (sel (addpath_rx a) p i) with slot. rewrite !filter_filter. split.
  - assert (Hn : forall l, filter (fun x => negb (slot x) && slot x) l = []).
    { induction l as [|x l IH]; simpl; [reflexivity|]. destruct (slot x); simpl; exact IH. }
    apply Hn.
  - apply filter_ext. intro x. destruct (slot x); reflexivity.
Qed.
