(* C12: replacement after any guarded history = a session established with the new policy and fed the same history. *)
From Coq Require Import List NArith Bool Lia Permutation.
Import ListNotations.
From BioVerif Require Import Model.PathIDs Model.AdjRIBOut Model.LocView Spec.ExportViewSpec Spec.ReplaceSpec
  Proofs.AroIDsProofs Proofs.ExportViewC Proofs.ReplaceProofs.
Local Open Scope N_scope.

(* the Loc-RIB's view does not depend on the session's policy *)
Lemma feed_view_indep : forall (P : Type) (apply : P -> N -> path -> option path) (s : sess) h (v : view) (a1 a2 : aro P),
  fst (fold_left (feed_step P apply s) h (v, a1)) = fst (fold_left (feed_step P apply s) h (v, a2)).
Proof.
  intros P apply s h. induction h as [|[pfx new] h IH]; intros v a1 a2; cbn [fold_left]; [reflexivity|].
  cbn [feed_step]. apply IH.
Qed.

Theorem replace_converges_history :
  forall (P : Type) (apply : P -> N -> path -> option path) (s : sess) (c n : P) (h : list (N * list path)),
  guards (apply c) s h -> guards (apply n) s h ->
  let stc := feed P apply s c h in
  let stn := feed P apply s n h in
  rguards (apply c) (apply n) s (fst stc) ->
  errs (snd stc) = 0 -> errs (snd stn) = 0 ->
  let a' := replace_chain P apply s (snd stc) n (fst stc) in
  errs a' = 0 ->
  cur a' = n /\
  forall pfx, Permutation (map (norm s) (tbl_get pfx (tbl a'))) (map (norm s) (tbl_get pfx (tbl (snd stn)))).
Proof.
  intros P apply s c n h Gc Gn stc stn RG Ec En a' Ea.
  assert (Fc : FI P apply s c h stc).
  { unfold stc, feed. apply FI_feed; [assumption|apply incl_refl|apply FI_init|exact Ec]. }
  destruct Fc as [Hc I _ Hview].
  destruct (replace_converges P apply s c n (fst stc) (snd stc) RG Hc I Hview) as [Hn Hcur].
  { fold a'. lia. }
  fold a' in Hn, Hcur. split; [exact Hcur|].
  pose proof (ribout_is_export_view_partial P apply s n h Gn En) as Hfresh. fold stn in Hfresh.
  assert (EV : fst stn = fst stc).
  { unfold stn, stc, feed. apply feed_view_indep. }
  intros pfx. eapply Permutation_trans; [apply Hn|].
  apply Permutation_sym. rewrite <- EV. apply Hfresh.
Qed.
