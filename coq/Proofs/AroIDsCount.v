(* C11: final lemmas - identifiers are unique, withdrawals carry the announced identifier, the in-use
   counter equals the number of distinct announcements stored, allocation succeeds below 2^32-1. *)
From Coq Require Import List NArith Bool Lia ZArith Permutation.
From Coq Require Import ZifyBool ZifyNat ZifyN.
Import ListNotations.
From BioVerif Require Import Model.PathIDs Model.AdjRIBOut Spec.AroIDsSpec
  Proofs.PathIDsProofs Proofs.PathIDsInv Proofs.AroIDsProofs.
Local Open Scope N_scope.

Lemma same_announcement_iff : forall a b, same_announcement a b <-> hkey_of a = hkey_of b.
Proof.
  intros a b. unfold same_announcement. split.
  - intros [H1 [H2 [H3 [H4 [H5 [H6 [H7 [H8 [H9 [H10 [H11 [H12 [H13 [H14 [H15 H16]]]]]]]]]]]]]]].
    unfold hkey_of. rewrite H1, H2, H3, H4, H5, H6, H7, H8, H9, H10, H11, H12, H13, H14, H15, H16. reflexivity.
  - intros H.
    pose proof (f_equal h_nh H) as E1. pose proof (f_equal h_src H) as E2.
    pose proof (f_equal h_lp H) as E3. pose proof (f_equal h_med H) as E4.
    pose proof (f_equal h_bgpid H) as E5. pose proof (f_equal h_oid H) as E6.
    pose proof (f_equal h_agg H) as E7. pose proof (f_equal h_ebgp H) as E8.
    pose proof (f_equal h_atomic H) as E9. pose proof (f_equal h_origin H) as E10.
    pose proof (f_equal h_otc H) as E11. pose proof (f_equal h_as H) as E12.
    pose proof (f_equal h_cl H) as E13. pose proof (f_equal h_comms H) as E14.
    pose proof (f_equal h_lcomms H) as E15. pose proof (f_equal h_unk H) as E16.
    cbn in E1, E2, E3, E4, E5, E6, E7, E8, E9, E10, E11, E12, E13, E14, E15, E16.
    repeat split; assumption.
Qed.

(* ---------------------------------------------------------------- sizes of the two maps *)

Section Sizes.
  Variable K : Type.
  Variable K_eq_dec : forall a b : K, {a = b} + {a <> b}.
  Notation bget := (byk_get K K_eq_dec).

  Lemma in_bget : forall k i (m : list (K * N)), NoDup (map fst m) -> In (k, i) m -> bget k m = Some i.
  Proof.
    induction m as [|[k' j] m IH]; cbn [byk_get map fst]; intros ND H; [destruct H|].
    inversion ND as [|? ? NI ND']; subst.
    destruct H as [H|H].
    - inversion H; subst. now destruct (K_eq_dec k k).
    - destruct (K_eq_dec k' k) as [->|NE].
      + exfalso. apply NI. now apply (in_map fst) in H.
      + auto.
  Qed.

  Lemma bget_in : forall k i (m : list (K * N)), bget k m = Some i -> In (k, i) m.
  Proof.
    induction m as [|[k' j] m IH]; cbn [byk_get]; intros H; [discriminate|].
    destruct (K_eq_dec k' k) as [->|NE]; [inversion H; now left|right; auto].
  Qed.

  Lemma in_keys_ids_get : forall i (m : list (N * N)), In i (map fst m) -> exists c, ids_get i m = Some c.
  Proof.
    intros i m H. destruct (ids_get i m) eqn:E; [eauto|].
    apply ids_get_not_in_keys in E. contradiction.
  Qed.

  Lemma in_keys_bget : forall k (m : list (K * N)), In k (map fst m) -> exists i, bget k m = Some i.
  Proof.
    intros k m H. destruct (bget k m) eqn:E; [eauto|].
    apply bget_not_in_keys in E. contradiction.
  Qed.

  Lemma inj_nodup_snd : forall (m : list (K * N)),
    NoDup (map fst m) ->
    (forall k1 k2 i, bget k1 m = Some i -> bget k2 m = Some i -> k1 = k2) ->
    NoDup (map snd m).
  Proof.
    induction m as [|[k i] m IH]; cbn [map fst snd]; intros ND Inj; [constructor|].
    inversion ND as [|? ? NI ND']; subst. constructor.
    - intros H. apply in_map_iff in H. destruct H as [[k2 i2] [E H2]]. cbn [snd] in E. subst i2.
      assert (k <> k2) by (intros ->; apply NI; now apply (in_map fst) in H2).
      assert (k = k2); [|contradiction].
      apply (Inj k k2 i).
      + cbn [byk_get]. now destruct (K_eq_dec k k).
      + cbn [byk_get]. destruct (K_eq_dec k k2); [contradiction|]. now apply in_bget.
    - apply IH; [assumption|]. intros k1 k2 j A B.
      assert (N1 : k <> k1) by (intros ->; apply NI; eapply bget_in_keys; eassumption).
      assert (N2 : k <> k2) by (intros ->; apply NI; eapply bget_in_keys; eassumption).
      apply (Inj k1 k2 j); cbn [byk_get].
      + destruct (K_eq_dec k k1); [contradiction|assumption].
      + destruct (K_eq_dec k k2); [contradiction|assumption].
  Qed.

  Lemma wf_sizes : forall m, wf K K_eq_dec m -> length (ids m) = length (byk m).
  Proof.
    intros m W.
    rewrite <- (map_length fst (ids m)), <- (map_length snd (byk m)).
    apply Permutation_length. apply NoDup_Permutation.
    - apply (wf_ids_nodup _ _ m W).
    - apply inj_nodup_snd; [apply (wf_byk_nodup _ _ m W)|apply (wf_inj _ _ m W)].
    - intros i. split.
      + intros H. destruct (in_keys_ids_get i (ids m) H) as [c G].
        destruct (wf_ids_byk _ _ m W i c G) as [k E]. apply bget_in in E. now apply (in_map snd) in E.
      + intros H. apply in_map_iff in H. destruct H as [[k j] [E H]]. cbn [snd] in E. subst j.
        apply in_bget in H; [|apply (wf_byk_nodup _ _ m W)].
        destruct (wf_byk_ids _ _ m W k i H) as [c [G _]]. eapply ids_get_in_keys; eassumption.
  Qed.
End Sizes.

(* ---------------------------------------------------------------- keys stored in the table *)

Lemma in_keys_of : forall k t, In k (keys_of t) <-> exists pfx r b, In (pfx, PBgp r b) t /\ hkey_of b = k.
Proof.
  intros k t. unfold keys_of. rewrite in_flat_map. split.
  - intros [[pfx p] [HI HK]]. cbn [snd] in HK. destruct p as [snh|r b]; cbn [path_hkey] in HK; [destruct HK|].
    destruct HK as [HK|[]]. eauto.
  - intros [pfx [r [b [HI HK]]]]. exists (pfx, PBgp r b). split; [assumption|]. cbn [snd path_hkey]. now left.
Qed.

Lemma count_pos_iff : forall k t, (0 < count k t)%nat <-> exists pfx r b, In (pfx, PBgp r b) t /\ hkey_of b = k.
Proof.
  intros k t. unfold count. split.
  - intros H. destruct (filter (has_key k) t) as [|[pfx p] l] eqn:E; [cbn in H; lia|].
    assert (HI : In (pfx, p) (filter (has_key k) t)) by (rewrite E; now left).
    apply filter_In in HI. destruct HI as [HI HK]. unfold has_key in HK. cbn [snd] in HK.
    destruct p as [snh|r b]; cbn [path_hkey] in HK; [discriminate|].
    destruct (hkey_eq_dec (hkey_of b) k); [eauto|discriminate].
  - intros [pfx [r [b [HI HK]]]].
    assert (HF : In (pfx, PBgp r b) (filter (has_key k) t)).
    { apply filter_In. split; [assumption|]. unfold has_key. cbn [snd path_hkey]. destruct (hkey_eq_dec (hkey_of b) k); [reflexivity|contradiction]. }
    destruct (filter (has_key k) t); [destruct HF|cbn; lia].
Qed.

Section Final.
  Variable P : Type.
  Variable apply : P -> N -> path -> option path.
  Variable s : sess.
  Hypothesis Hap : s_addpath s = true.

  Notation bget := (byk_get hkey hkey_eq_dec).

  (* identifiers are unique per announcement - even across prefixes *)
  Lemma ids_unique : forall c ops pfx1 pfx2 r1 b1 r2 b2,
    let a := run P apply s c ops in
    In (pfx1, PBgp r1 b1) (tbl a) -> In (pfx2, PBgp r2 b2) (tbl a) ->
    b_pid b1 = b_pid b2 -> same_announcement b1 b2.
  Proof.
    intros c ops pfx1 pfx2 r1 b1 r2 b2 a H1 H2 E.
    pose proof (run_inv P apply s Hap c ops) as I. fold a in I.
    destruct (I_tbl P a I _ _ H1) as [r1' [b1' [E1 B1]]]. inversion E1; subst r1' b1'.
    destruct (I_tbl P a I _ _ H2) as [r2' [b2' [E2 B2]]]. inversion E2; subst r2' b2'.
    apply same_announcement_iff.
    eapply (wf_inj _ _ (pm a) (I_wf P a I)); [exact B1|]. rewrite E. exact B2.
  Qed.

  (* only BGP paths are stored, each as it was announced *)
  Lemma table_announced : forall c ops pfx p,
    let a := run P apply s c ops in
    In (pfx, p) (tbl a) -> (exists r b, p = PBgp r b) /\ In (Announce pfx p) (elog a).
  Proof.
    intros c ops pfx p a H.
    pose proof (run_inv P apply s Hap c ops) as I. fold a in I. split.
    - destruct (I_tbl P a I _ _ H) as [r [b [E _]]]. eauto.
    - now apply (I_ann P a I).
  Qed.

  (* every withdrawal handed to the clients repeats, identifier included, a path announced earlier
     for the same prefix *)
  Lemma withdraw_id : forall c ops l1 l2 pfx w,
    elog (run P apply s c ops) = l1 ++ Withdraw pfx w :: l2 -> In (Announce pfx w) l2.
  Proof.
    intros c ops. apply (I_wd P _ (run_inv P apply s Hap c ops)).
  Qed.

  (* ... and it is the announcement of the path whose withdrawal was asked for *)
  Lemma withdraw_matches : forall (a a' : aro P) pfx p,
    remove_exported P s a pfx p = (a', true) -> Inv P a ->
    exists sp, In (pfx, sp) (tbl a) /\ is_announcement_of sp p = true /\
               elog a' = Withdraw pfx sp :: elog a.
  Proof.
    intros a a' pfx p H I. unfold remove_exported in H.
    destruct (tbl_get pfx (tbl a)) as [|p0 ps] eqn:TG; [inversion H|].
    rewrite Hap in H. rewrite <- TG in H.
    destruct (find (fun sp => is_announcement_of sp p) (tbl_get pfx (tbl a))) as [sp|] eqn:F; [|inversion H].
    apply find_some in F. destruct F as [HIn HA]. apply in_tbl_get in HIn.
    destruct (I_tbl P a I pfx sp HIn) as [r [b [-> Bsp]]]. cbn [path_hkey] in H.
    destruct (prel_present hkey hkey_eq_dec (pm a) (hkey_of b) (b_pid b) (I_wf P a I) Bsp) as [m' [PR _]].
    rewrite PR in H. inversion H; subst a'. cbn [elog]. eauto.
  Qed.

  (* the in-use counter is exactly the number of distinct announcements stored *)
  Lemma used_exact : forall c ops,
    let a := run P apply s c ops in
    length (ids (pm a)) = ids_in_use (tbl a) /\ used (pm a) = N.of_nat (ids_in_use (tbl a)).
  Proof.
    intros c ops a.
    pose proof (run_inv P apply s Hap c ops) as I. fold a in I.
    pose proof (I_wf P a I) as W.
    assert (L : length (ids (pm a)) = ids_in_use (tbl a)).
    { rewrite (wf_sizes hkey hkey_eq_dec (pm a) W). unfold ids_in_use.
      rewrite <- (map_length fst (byk (pm a))).
      apply Permutation_length. apply NoDup_Permutation.
      - apply (wf_byk_nodup _ _ (pm a) W).
      - apply NoDup_nodup.
      - intros k. rewrite nodup_In, in_keys_of, <- count_pos_iff. split.
        + intros H. destruct (in_keys_bget hkey hkey_eq_dec k (byk (pm a)) H) as [i E].
          pose proof (proj2 (rc_pos_iff hkey hkey_eq_dec (pm a) k W) (ex_intro _ i E)) as R.
          rewrite (I_cnt P a I) in R. lia.
        + intros H.
          assert (R : 1 <= rc hkey hkey_eq_dec (pm a) k) by (rewrite (I_cnt P a I); lia).
          apply (rc_pos_iff hkey hkey_eq_dec (pm a) k W) in R. destruct R as [i E].
          eapply bget_in_keys; eassumption. }
    split; [exact L|]. rewrite (wf_used _ _ (pm a) W). now rewrite L.
  Qed.

  Lemma no_spurious_exhaustion : forall c ops k,
    let a := run P apply s c ops in
    diverged a = false /\
    (N.of_nat (ids_in_use (tbl a)) < max32 ->
     exists m' i, pid_add hkey hkey_eq_dec k (pm a) = (m', AddOk i)).
  Proof.
    intros c ops k a.
    pose proof (run_inv P apply s Hap c ops) as I. fold a in I.
    pose proof (I_wf P a I) as W.
    split; [apply (I_div P a I)|]. intros L.
    destruct (used_exact c ops) as [LE _]. fold a in LE.
    destruct (bget k (byk (pm a))) as [i|] eqn:E.
    - destruct (padd_existing hkey hkey_eq_dec (pm a) k i W E) as [m' [PA _]]. eauto.
    - destruct (padd_fresh hkey hkey_eq_dec (pm a) k W E) as [m' [i [PA _]]]; [rewrite LE; exact L|eauto].
  Qed.
End Final.
