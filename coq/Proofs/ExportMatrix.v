(* C09: the complete OTC egress decision table (RFC 9234 section 5, egress), role by role, and the
   known gap: OnlyToCustomer never reaches the wire. *)
From Coq Require Import List NArith Bool Lia.
Import ListNotations.
From BioVerif Require Import Model.PathIDs Model.AdjRIBOut Model.ExportWire Spec.ExportSpec Proofs.ExportProofs.
Local Open Scope N_scope.

(* For an eBGP session whose peer advertised a role: the path is dropped exactly when it carries OTC and
   the peer is a provider, a peer or a route server; otherwise it goes out, with OTC = local ASN if it
   had none and the peer is a customer, a peer or an RS client, and with its OTC unchanged in all other
   cases. Holds for every role code (the five defined ones and any other value). *)
Lemma role_matrix : forall s r b,
  s_ibgp s = false -> s_role_on s = true ->
  match rewrite s r b with
  | None => b_otc b <> 0 /\ In (s_role s) [role_provider; role_peer; role_rs]
  | Some b' =>
    (b_otc b = 0 \/ ~ In (s_role s) [role_provider; role_peer; role_rs]) /\
    b_otc b' = (if N.eqb (b_otc b) 0 && role_in (s_role s) [role_customer; role_peer; role_rs_client]
                then s_localasn s else b_otc b)
  end.
Proof.
  intros s r b Hi Hon. unfold rewrite, rewrite_ebgp. rewrite Hi, Hon.
  set (b1 := if negb (s_rsclient s) then set_nh (s_localip s) (bgp_prepend (s_localasn s) 1 b) else b).
  assert (O1 : b_otc b1 = b_otc b) by (unfold b1; destruct (s_rsclient s); reflexivity).
  rewrite O1.
  assert (RI : forall l, role_in (s_role s) l = true <-> In (s_role s) l).
  { intros l. unfold role_in. rewrite existsb_exists. split.
    - intros [x [Hx E]]. apply N.eqb_eq in E. now subst.
    - intros H. exists (s_role s). split; [exact H|apply N.eqb_refl]. }
  unfold role_provider, role_peer, role_rs, role_customer, role_rs_client.
  destruct (N.eqb (b_otc b) 0) eqn:Z; cbn [negb andb].
  - apply N.eqb_eq in Z.
    destruct (role_in (s_role s) [3; 4; 2]) eqn:R2.
    + split; [now left|]. reflexivity.
    + split; [now left|]. exact O1.
  - apply N.eqb_neq in Z.
    destruct (role_in (s_role s) [0; 4; 1]) eqn:R1.
    + split; [exact Z|now apply RI].
    + split; [right; intros H; apply RI in H; congruence|exact O1].
Qed.

(* the witness of the known finding: a customer session, a plain eBGP-learned path *)
Definition otc_sess : sess := mkSess false false false false 65000 16843009 33686018 9 true role_customer.
Definition otc_path : bgp :=
  mkBgp 50529027 50529027 100 0 50529027 0 None true false 0 0 [(true, [65001])] 1 None None None [] 0.

Lemma otc_on_wire_refuted :
  exists s b b',
    peer_is s [role_customer; role_peer; role_rs_client] /\ rewrite s 0 b = Some b' /\
    b_otc b' = s_localasn s /\ forall a, on_wire s b' a -> wcode a <> 35.
Proof.
  exists otc_sess, otc_path.
  destruct (rewrite otc_sess 0 otc_path) as [b'|] eqn:E; [|vm_compute in E; discriminate].
  exists b'. split; [|split; [reflexivity|split]].
  - unfold peer_is. split; [reflexivity|]. split; [reflexivity|]. now left.
  - vm_compute in E. inversion E. reflexivity.
  - intros a H. unfold on_wire in H. eapply otc_not_on_wire; [|exact H]. vm_compute in E. inversion E. reflexivity.
Qed.
