(* BMPStack: the BMP router model with the BGP layer instantiated by the component models
   (Model/BMPStack.v): no panic anywhere in the stack, allocation of the whole stack linear in the bytes
   received, and the mirror theorem with announcements defined by the codec. Everything is obtained from
   the component theorems (C27/C28: Proofs/BMPServeProofs, BMPMirrorProofs; C16: Proofs/BGPCodecProofs;
   C20: Proofs/UpdateApplyProofs); new proofs only concern the conversions and the summation. *)
From Coq Require Import List NArith ZArith Bool Lia ZifyBool ZifyNat ZifyN.
Import ListNotations.
From BioVerif Require Model.BGPCodec Model.AdjRIBIn Model.UpdateApply Spec.UpdateApplySpec Spec.BGPCodecSpec
  Proofs.BGPCodecProofs Proofs.UpdateApplyProofs.
From BioVerif Require Import Model.BMPCodec Model.BMPRouter Model.BMPStack Spec.BMPMirrorSpec
  Proofs.BMPCodecProofs Proofs.BMPServeProofs Proofs.BMPMirrorProofs.
Open Scope N_scope.

(* ------------------------------------------------------------------ the converted UPDATE is well typed *)

Lemma conv_attr_typed : forall a, UpdateApply.attr_typed (conv_attr a) = true.
Proof.
  intros a. unfold conv_attr.
  destruct (BGPCodec.a_type a) as [|p]; [destruct (BGPCodec.a_val a); reflexivity|].
  repeat (destruct p as [p|p|]; try (destruct (BGPCodec.a_val a); reflexivity)).
Qed.

Lemma conv_update_well_typed : forall u, UpdateApplySpec.well_typed (conv_update u).
Proof.
  intros u a Hin. unfold conv_update in Hin. cbn [UpdateApply.u_attrs] in Hin.
  apply in_map_iff in Hin. destruct Hin as (x & <- & _). apply conv_attr_typed.
Qed.

(* C20 on what the codec hands over: processing never panics, and it is the fold of the per-NLRI
   operations the instantiated upd_apply is defined by *)
Lemma stack_update_applies : forall afi u s,
  UpdateApply.process_update afi 1 (conv_update u) s =
  UpdateApply.Done (fold_left AdjRIBIn.step (UpdateApplySpec.message_ops afi (conv_update u)) s).
Proof. intros. apply UpdateApplyProofs.per_nlri. apply conv_update_well_typed. Qed.

Lemma stack_update_no_panic : forall afi safi u s,
  exists s', UpdateApply.process_update afi safi (conv_update u) s = UpdateApply.Done s'.
Proof. intros. apply UpdateApplyProofs.no_panic. apply conv_update_well_typed. Qed.

(* ------------------------------------------------------------------ OPEN decoding: safe, allocates nothing *)

Lemma decodeOpen_safe : forall body,
  match BGPCodec.decodeOpen (S (length body)) body 0 with
  | (BGPCodec.Ok _ _, al) => al = 0
  | (BGPCodec.Err, al) => al = 0
  | (BGPCodec.Panic _, _) => False
  | (BGPCodec.OutOfFuel, _) => False
  end.
Proof.
  intros body.
  pose proof (BGPCodecProofs.good_decodeOpen (S (length body)) 0 0 body 0 (Nat.lt_succ_diag_r _)) as H.
  destruct (BGPCodec.decodeOpen (S (length body)) body 0) as [[a r| | |] al]; auto.
  - destruct H as (_ & _ & H). lia.
  - lia.
Qed.

Lemma open_alloc_zero : forall b, open_alloc b = 0.
Proof.
  intros b. unfold open_alloc. destruct (len b <? min_open_len); [reflexivity|].
  pose proof (decodeOpen_safe (skipn bgp_header_len b)) as H.
  destruct (BGPCodec.decodeOpen (S (length (skipn bgp_header_len b))) (skipn bgp_header_len b) 0) as [[a r| | |] al];
    cbn [snd]; try contradiction; exact H.
Qed.

(* ------------------------------------------------------------------ allocation of the inner decoder *)

(* inverting a successful run of a decoder written with bind *)
Ltac binv H :=
  repeat (cbn beta in H;
          match type of H with
          | bind _ _ = (Ok _, _) =>
            let a := fresh "a" in let k1 := fresh "k" in let k2 := fresh "k" in let E := fresh "E" in
            apply bind_ok in H; destruct H as (a & k1 & k2 & E & H & ?)
          | (let '(_, _) := ?x in _) = _ => destruct x
          | (if ?c then _ else _) = (Ok _, _) => destruct c
          | fail = (Ok _, _) => discriminate H
          | (Ok _, _) = (Ok _, _) => injection H as H ?
          end).

Definition is_rm (m : bmp_msg) : bool := match m with MRouteMon _ _ => true | _ => false end.

Lemma not_rm_stats : forall ch b m k, decode_stats_report ch b = (Ok m, k) -> is_rm m = false.
Proof. intros ch b m k H. unfold decode_stats_report in H. binv H. unfold ret in H. binv H. subst. reflexivity. Qed.
Lemma not_rm_down : forall ch b m k, decode_peer_down ch b = (Ok m, k) -> is_rm m = false.
Proof. intros ch b m k H. unfold decode_peer_down in H. binv H; unfold ret in H; binv H; subst; reflexivity. Qed.
Lemma not_rm_up : forall ch b m k, decode_peer_up ch b = (Ok m, k) -> is_rm m = false.
Proof. intros ch b m k H. unfold decode_peer_up in H. binv H; unfold ret in H; binv H; subst; reflexivity. Qed.
Lemma not_rm_init : forall ch b m k, decode_initiation ch b = (Ok m, k) -> is_rm m = false.
Proof. intros ch b m k H. unfold decode_initiation in H. binv H; unfold ret in H; binv H; subst; reflexivity. Qed.
Lemma not_rm_term : forall ch b m k, decode_termination ch b = (Ok m, k) -> is_rm m = false.
Proof. intros ch b m k H. unfold decode_termination in H. binv H; unfold ret in H; binv H; subst; reflexivity. Qed.
Lemma not_rm_mirror : forall ch b m k, decode_route_mirroring ch b = (Ok m, k) -> is_rm m = false.
Proof. intros ch b m k H. unfold decode_route_mirroring in H. binv H; unfold ret in H; binv H; subst; reflexivity. Qed.

(* the carried BGP message is a part of the BMP message *)
Lemma decode_rm_len : forall msg h upd k, decode msg = (Ok (MRouteMon h upd), k) -> len upd <= len msg.
Proof.
  intros msg h upd k H. unfold decode in H.
  destruct (decode_common_header msg) as [r k0] eqn:E.
  pose proof (decode_common_header_spec _ _ _ E) as (-> & _ & O1).
  destruct r as [[ch b]| | |]; cbn [bind] in H; try discriminate.
  destruct (O1 ch b eq_refl) as (L1 & _). unfold common_header_len in L1.
  destruct (negb (ch_version ch =? bmp_version)); [discriminate|].
  destruct (ch_type ch) as [|p].
  - unfold decode_route_monitoring in H.
    destruct (decode_pph b) as [r1 k1] eqn:E1. pose proof (decode_pph_spec _ _ _ E1) as (-> & _ & O2).
    destruct r1 as [[h' b1]| | |]; cbn [bind] in H; try discriminate.
    specialize (O2 h' b1 eq_refl). unfold per_peer_header_len in O2.
    unfold alloc in H. cbn [bind] in H.
    remember (sub32 (sub32 (ch_len ch) common_header_len) per_peer_header_len) as n.
    destruct (rd_slice n b1) as [r2 k2] eqn:E2.
    destruct r2 as [[u b2]| | |]; cbn [bind ret] in H; try discriminate.
    apply rd_slice_ok in E2. destruct E2 as (_ & L2 & Lu & _).
    injection H as _ <- _. lia.
  - exfalso.
    assert (Hn : forall m' k', (let (r, c') := (Ok m', k') in (r, 0 + c')) = (Ok (MRouteMon h upd), k) -> is_rm m' = false -> False).
    { intros m' k' He Hr. injection He as -> _. discriminate. }
    destruct p as [p|p|]; try (destruct p as [p|p|]); try (destruct p as [p|p|]); cbv iota in H;
      match type of H with
      | context [decode_stats_report ch b] =>
        destruct (decode_stats_report ch b) as [[m'| | |] k'] eqn:D; try discriminate; apply (Hn m' k' H); eapply not_rm_stats; eauto
      | context [decode_peer_down ch b] =>
        destruct (decode_peer_down ch b) as [[m'| | |] k'] eqn:D; try discriminate; apply (Hn m' k' H); eapply not_rm_down; eauto
      | context [decode_peer_up ch b] =>
        destruct (decode_peer_up ch b) as [[m'| | |] k'] eqn:D; try discriminate; apply (Hn m' k' H); eapply not_rm_up; eauto
      | context [decode_initiation ch b] =>
        destruct (decode_initiation ch b) as [[m'| | |] k'] eqn:D; try discriminate; apply (Hn m' k' H); eapply not_rm_init; eauto
      | context [decode_termination ch b] =>
        destruct (decode_termination ch b) as [[m'| | |] k'] eqn:D; try discriminate; apply (Hn m' k' H); eapply not_rm_term; eauto
      | context [decode_route_mirroring ch b] =>
        destruct (decode_route_mirroring ch b) as [[m'| | |] k'] eqn:D; try discriminate; apply (Hn m' k' H); eapply not_rm_mirror; eauto
      | _ => discriminate H
      end.
Qed.

Lemma inner_alloc_msg_bound : forall c st msg, inner_alloc_msg c st msg <= 65535 + 3 * len msg.
Proof.
  intros c st msg. unfold inner_alloc_msg. destruct (decode msg) as [r k] eqn:D.
  destruct r as [m| | |]; try lia.
  destruct m as [h upd|h cnt0 stats|h rs data|h lo lp rp sent rcvd info|ts|ts|h ts]; cbn [inner_alloc]; try lia.
  - pose proof (decode_rm_len _ _ _ _ D) as L.
    destruct ((ignore_pre c && negb (flag_l h)) || (ignore_post c && flag_l h)); [lia|].
    destruct (mem_src (src_of h) (r_ignored st)); [lia|].
    destruct (find_nbr (p_rd h, p_addr h) (r_nbrs st)) as [n|]; [|lia].
    pose proof (BGPCodecProofs.alloc_bounded (stack_options (n_ap4 n) (n_ap6 n) (negb (flag_a h))) upd) as A.
    unfold BGPCodecSpec.alloc_bound, BGPCodecSpec.alloc_c1, BGPCodecSpec.alloc_c2 in A.
    unfold BGPCodec.len in A. unfold len in *. lia.
  - destruct (ignored_asn c (p_as h)); [lia|]. rewrite !open_alloc_zero.
    destruct (stack_open_decode sent); lia.
Qed.

Lemma inner_alloc_stream_bound : forall c fuel st s, inner_alloc_stream c fuel st s <= 10926 * len s.
Proof.
  intros c. induction fuel as [|f IH]; intros st s; cbn [inner_alloc_stream]; [lia|].
  destruct (r_closed st); [lia|].
  pose proof (recv_spec s) as RS. destruct (recv s) as [m rest k|k|k|]; try lia.
  destruct RS as (R1 & R2 & _). unfold min_len in R1.
  pose proof (inner_alloc_msg_bound c st m) as B.
  destruct (stack_process c st m) as [[o st'] k2]. destruct o.
  - specialize (IH st' rest). lia.
  - lia.
Qed.

(* ------------------------------------------------------------------ the three stack theorems *)

(* 1. nothing in the stack panics: the BMP layer on every stream (C27 with the layer instantiated), the BGP
   decoder on every carried message and every OPEN (C16), the update application on every decoded UPDATE (C20) *)
Theorem stack_no_panic : forall (c : cfg) (st : rstate) (s : bytes), bytes_ok s ->
  (forall k f, stack_serve c st s <> SPanic k f) /\ stack_serve c st s <> SFuel /\
  (forall ap4 ap6 a32 b,
     match fst (BGPCodec.decode (S (length b)) (stack_options ap4 ap6 a32) b) with
     | BGPCodec.Panic _ => False | BGPCodec.OutOfFuel => False | _ => True end) /\
  (forall body,
     match fst (BGPCodec.decodeOpen (S (length body)) body 0) with
     | BGPCodec.Panic _ => False | BGPCodec.OutOfFuel => False | _ => True end) /\
  (forall afi safi u s', exists s'', UpdateApply.process_update afi safi (conv_update u) s' = UpdateApply.Done s'').
Proof.
  intros c st s Hb. unfold stack_serve.
  destruct (serve_no_panic stack_open_decode stack_upd_apply c st s Hb) as (A & B).
  split; [exact A|]. split; [exact B|]. split; [|split].
  - intros ap4 ap6 a32 b.
    pose proof (BGPCodecProofs.no_panic (stack_options ap4 ap6 a32) b) as P.
    pose proof (BGPCodecProofs.fuel_suffices (stack_options ap4 ap6 a32) b) as F.
    destruct (fst (BGPCodec.decode (S (length b)) (stack_options ap4 ap6 a32) b)); auto;
      first [apply P; exact I|apply F; reflexivity].
  - intros body. pose proof (decodeOpen_safe body) as H.
    destruct (BGPCodec.decodeOpen (S (length body)) body 0) as [[a r| | |] al]; cbn [fst]; auto.
  - intros. apply stack_update_no_panic.
Qed.

(* 2. allocation of the whole stack: BMP layer (C27: 975 * L + 5800) plus at most 65535 + 3 * length per
   carried BGP message (C16), i.e. at most 10926 * L for the messages of a stream of L bytes *)
Theorem stack_alloc_linear : forall (c : cfg) (st : rstate) (s : bytes), bytes_ok s ->
  stack_alloc c st s <= 11901 * len s + 5800.
Proof.
  intros c st s Hb. unfold stack_alloc, stack_serve.
  destruct (serve_total stack_open_decode stack_upd_apply c st s Hb) as (st' & cost & frames & E & A1 & A2).
  rewrite E. pose proof (inner_alloc_stream_bound c (S (length s)) st s). lia.
Qed.

(* 3. the mirror theorem with announcements and withdrawals defined by the codec *)
Theorem stack_mirror : forall (c : cfg), ignore_asns c = [] ->
  forall acts, wf stack_open_decode stack_upd_apply c acts = true ->
  mirror_holds stack_open_decode stack_upd_apply c acts.
Proof. intros c H acts Hwf. exact (mirror_partial stack_open_decode stack_upd_apply c H acts Hwf). Qed.
