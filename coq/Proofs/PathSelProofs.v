(* C02/C03 proofs. *)
From Coq Require Import List NArith ZArith Bool Lia Sorting.Permutation Sorting.Sorted Relations.
From Coq Require Import ZifyBool ZifyN.
Import ListNotations.
From BioVerif Require Import Model.PathSel Spec.PathSelSpec.
Open Scope N_scope.

(* ================= A. lexicographic order on integer vectors ================= *)

Fixpoint lex (u v : list Z) : Z :=
  match u, v with
  | [], [] => 0%Z
  | [], _ :: _ => (-1)%Z
  | _ :: _, [] => 1%Z
  | x :: u', y :: v' =>
    match (x ?= y)%Z with Gt => 1%Z | Lt => (-1)%Z | Eq => lex u' v' end
  end.

Lemma lex_range : forall u v, lex u v = 1%Z \/ lex u v = 0%Z \/ lex u v = (-1)%Z.
Proof.
  induction u as [|x u IH]; destruct v as [|y v]; cbn; auto.
  destruct (x ?= y)%Z; auto.
Qed.

Lemma lex_antisym : forall u v, lex u v = (- lex v u)%Z.
Proof.
  induction u as [|x u IH]; destruct v as [|y v]; cbn; auto.
  rewrite (Z.compare_antisym y x). destruct (y ?= x)%Z; cbn; auto.
Qed.

Lemma lex_eq : forall u v, lex u v = 0%Z <-> u = v.
Proof.
  induction u as [|x u IH]; destruct v as [|y v]; cbn; split; intro H; try discriminate; auto.
  - destruct (Z.compare_spec x y) as [E|L|G]; try discriminate.
    subst. f_equal. apply IH; assumption.
  - injection H as -> ->. rewrite Z.compare_refl. apply IH. reflexivity.
Qed.

Lemma lex_trans : forall u v w, lex u v = 1%Z -> lex v w = 1%Z -> lex u w = 1%Z.
Proof.
  induction u as [|x u IH]; destruct v as [|y v]; destruct w as [|z w]; cbn; intros H1 H2;
    try discriminate; auto.
  destruct (Z.compare_spec x y) as [E|L|G]; try discriminate;
    destruct (Z.compare_spec y z) as [E'|L'|G']; try discriminate; subst.
  - rewrite Z.compare_refl. eapply IH; eassumption.
  - replace (y ?= z)%Z with Gt; auto. symmetry; apply Z.compare_gt_iff; lia.
  - replace (x ?= z)%Z with Gt; auto. symmetry; apply Z.compare_gt_iff; lia.
  - replace (x ?= z)%Z with Gt; auto. symmetry; apply Z.compare_gt_iff; lia.
Qed.

(* ================= B. the key comparison is that order ================= *)

Definition b2z (b : bool) : Z := if b then 1%Z else 0%Z.

Definition vec_bgp (k : bgp_key) : list Z :=
  [ Z.of_N (k_lp k); (- Z.of_N (k_aslen k))%Z; (- Z.of_N (k_origin k))%Z; (- Z.of_N (k_med k))%Z;
    b2z (k_ebgp k); (- Z.of_N (k_id k))%Z; (- Z.of_N (k_cl k))%Z;
    (- Z.of_N (ip_hi (k_src k)))%Z; (- Z.of_N (ip_lo (k_src k)))%Z;
    Z.of_N (ip_hi (k_nh k)); Z.of_N (ip_lo (k_nh k)) ].

Definition vec (k : key) : list Z :=
  match k with
  | KStatic a => [1%Z; Z.of_N (ip_hi a); Z.of_N (ip_lo a)]
  | KBGP b => 2%Z :: vec_bgp b
  end.

Lemma hi_lex : forall x y r,
  (prefer_high x y ;; r) =
  match (Z.of_N x ?= Z.of_N y)%Z with Gt => 1%Z | Lt => (-1)%Z | Eq => r end.
Proof.
  intros. unfold andthen, prefer_high. rewrite N2Z.inj_compare.
  destruct (x ?= y); reflexivity.
Qed.

Lemma lo_lex : forall x y r,
  (prefer_low x y ;; r) =
  match (- Z.of_N x ?= - Z.of_N y)%Z with Gt => 1%Z | Lt => (-1)%Z | Eq => r end.
Proof.
  intros. unfold andthen, prefer_low, prefer_high. rewrite Z.compare_opp, N2Z.inj_compare.
  destruct (y ?= x); reflexivity.
Qed.

Lemma bool_lex : forall x y r,
  (prefer_true x y ;; r) =
  match (b2z x ?= b2z y)%Z with Gt => 1%Z | Lt => (-1)%Z | Eq => r end.
Proof. intros. destruct x, y; reflexivity. Qed.

Lemma andthen_0_r : forall c, (c ;; 0%Z) = c.
Proof. intros. unfold andthen. destruct (Z.eqb_spec c 0); auto. Qed.

Lemma andthen_assoc : forall a b c, ((a ;; b) ;; c) = (a ;; b ;; c).
Proof. intros. unfold andthen. destruct (Z.eqb_spec a 0); auto. destruct (a =? 0)%Z eqn:E; auto. lia. Qed.

Lemma rfc_cmp_bgp_lex : forall a b, rfc_cmp_bgp a b = lex (vec_bgp a) (vec_bgp b).
Proof.
  intros. unfold rfc_cmp_bgp, prefer_low_ip, prefer_high_ip, vec_bgp.
  rewrite <- (andthen_0_r (prefer_high (ip_lo (k_nh a)) (ip_lo (k_nh b)))).
  rewrite !andthen_assoc.
  cbn [lex].
  rewrite !hi_lex, !lo_lex, bool_lex, !Z.compare_opp.
  reflexivity.
Qed.

Lemma rfc_cmp_lex : forall a b, rfc_cmp a b = lex (vec a) (vec b).
Proof.
  intros [x|x] [y|y]; cbn [rfc_cmp vec]; try reflexivity.
  - unfold prefer_high_ip.
    rewrite <- (andthen_0_r (prefer_high (ip_lo x) (ip_lo y))).
    cbn [lex]. rewrite !hi_lex. reflexivity.
  - rewrite rfc_cmp_bgp_lex. cbn [lex]. reflexivity.
Qed.

Lemma b2z_inj : forall x y, b2z x = b2z y -> x = y.
Proof. destruct x, y; cbn; intro; auto; discriminate. Qed.

Lemma vec_inj : forall a b, vec a = vec b -> a = b.
Proof.
  intros [[xh xl]|x] [[yh yl]|y]; cbn; intro H; try discriminate.
  - injection H as H1 H2. f_equal. f_equal; lia.
  - destruct x as [a1 a2 a3 a4 a5 a6 a7 [a8 a9] [a10 a11]];
      destruct y as [b1 b2 b3 b4 b5 b6 b7 [b8 b9] [b10 b11]].
    unfold vec_bgp in H; cbn in H.
    injection H as H1 H2 H3 H4 H5 H6 H7 H8 H9 H10 H11.
    apply b2z_inj in H5.
    f_equal. f_equal; try lia; try assumption; f_equal; lia.
Qed.

Theorem rfc_cmp_range : forall a b, rfc_cmp a b = 1%Z \/ rfc_cmp a b = 0%Z \/ rfc_cmp a b = (-1)%Z.
Proof. intros. rewrite rfc_cmp_lex. apply lex_range. Qed.

Theorem rfc_cmp_antisym : forall a b, rfc_cmp a b = (- rfc_cmp b a)%Z.
Proof. intros. rewrite !rfc_cmp_lex. apply lex_antisym. Qed.

Theorem rfc_cmp_eq : forall a b, rfc_cmp a b = 0%Z <-> a = b.
Proof.
  intros. rewrite rfc_cmp_lex, lex_eq. split; [apply vec_inj | intros ->; reflexivity].
Qed.

Theorem rfc_cmp_trans : forall a b c, rfc_cmp a b = 1%Z -> rfc_cmp b c = 1%Z -> rfc_cmp a c = 1%Z.
Proof. intros a b c. rewrite !rfc_cmp_lex. apply lex_trans. Qed.

(* "at least as good as" is transitive as well (ties included) *)
Theorem rfc_cmp_ge_trans : forall a b c,
  rfc_cmp a b <> (-1)%Z -> rfc_cmp b c <> (-1)%Z -> rfc_cmp a c <> (-1)%Z.
Proof.
  intros a b c H1 H2.
  destruct (rfc_cmp_range a b) as [E1|[E1|E1]]; try contradiction;
    destruct (rfc_cmp_range b c) as [E2|[E2|E2]]; try contradiction.
  - rewrite (rfc_cmp_trans a b c E1 E2). discriminate.
  - apply rfc_cmp_eq in E2. subst. assumption.
  - apply rfc_cmp_eq in E1. subst. assumption.
  - apply rfc_cmp_eq in E1. subst. assumption.
Qed.

(* ================= C. the model of Select is the key comparison (C03) ================= *)

Lemma eff_id_id' : forall b, eff_id b = id' b.
Proof. intros. unfold eff_id, id'. destruct (origid b); reflexivity. Qed.

Lemma cl_len_cluster_len : forall b, cl_len b = cluster_len b.
Proof. reflexivity. Qed.

Lemma prefer_high_range : forall x y,
  prefer_high x y = 1%Z \/ prefer_high x y = 0%Z \/ prefer_high x y = (-1)%Z.
Proof. intros. unfold prefer_high. destruct (x ?= y); auto. Qed.

Lemma hi_step : forall x y k,
  (if y <? x then 1%Z else if x <? y then (-1)%Z else k) = (prefer_high x y ;; k).
Proof.
  intros. unfold andthen, prefer_high.
  destruct (N.compare_spec x y) as [E|L|G].
  - subst. rewrite N.ltb_irrefl. reflexivity.
  - destruct (N.ltb_spec y x); [lia|]. destruct (N.ltb_spec x y); [|lia]. reflexivity.
  - destruct (N.ltb_spec y x); [|lia]. reflexivity.
Qed.

Lemma lo_step : forall x y k,
  (if x <? y then 1%Z else if y <? x then (-1)%Z else k) = (prefer_low x y ;; k).
Proof. intros. unfold prefer_low. apply hi_step. Qed.

Lemma lo_step' : forall x y k,
  (if y <? x then (-1)%Z else if x <? y then 1%Z else k) = (prefer_low x y ;; k).
Proof.
  intros. unfold andthen, prefer_low, prefer_high.
  destruct (N.compare_spec y x) as [E|L|G].
  - subst. rewrite N.ltb_irrefl. reflexivity.
  - destruct (N.ltb_spec y x); [|lia]. reflexivity.
  - destruct (N.ltb_spec y x); [lia|]. destruct (N.ltb_spec x y); [|lia]. reflexivity.
Qed.

Lemma bool_step : forall b c k,
  (if c && negb b then (-1)%Z else if negb c && b then 1%Z else k) = (prefer_true b c ;; k).
Proof. intros. destruct b, c; reflexivity. Qed.

Lemma ip_compare_spec : forall a b, ip_compare a b = prefer_high_ip a b.
Proof.
  intros. unfold ip_compare, prefer_high_ip. rewrite hi_step.
  f_equal. rewrite <- (andthen_0_r (prefer_high (ip_lo a) (ip_lo b))). apply hi_step.
Qed.

Lemma prefer_high_antisym : forall x y, prefer_high x y = (- prefer_high y x)%Z.
Proof.
  intros. unfold prefer_high. rewrite (N.compare_antisym y x). destruct (y ?= x); reflexivity.
Qed.

Lemma prefer_high_ip_antisym : forall a b, prefer_high_ip a b = (- prefer_high_ip b a)%Z.
Proof.
  intros. unfold prefer_high_ip, andthen.
  rewrite (prefer_high_antisym (ip_hi a)), (prefer_high_antisym (ip_lo a)).
  destruct (prefer_high_range (ip_hi b) (ip_hi a)) as [E|[E|E]]; rewrite E; reflexivity.
Qed.

Lemma prefer_high_ip_range : forall a b,
  prefer_high_ip a b = 1%Z \/ prefer_high_ip a b = 0%Z \/ prefer_high_ip a b = (-1)%Z.
Proof.
  intros. unfold prefer_high_ip, andthen.
  destruct (prefer_high_range (ip_hi a) (ip_hi b)) as [E|[E|E]]; rewrite E; cbn; auto.
  apply prefer_high_range.
Qed.

Lemma src_step : forall b c k,
  (if (ip_compare c b =? -1)%Z then (-1)%Z else if (ip_compare c b =? 1)%Z then 1%Z else k)
  = (prefer_low_ip b c ;; k).
Proof.
  intros. unfold prefer_low_ip. rewrite ip_compare_spec. unfold andthen.
  destruct (prefer_high_ip_range c b) as [E|[E|E]]; rewrite E; reflexivity.
Qed.

Lemma nh_step : forall b c,
  (if (ip_compare c b =? -1)%Z then 1%Z else if (ip_compare c b =? 1)%Z then (-1)%Z else 0%Z)
  = prefer_high_ip b c.
Proof.
  intros. rewrite ip_compare_spec, (prefer_high_ip_antisym b c).
  destruct (prefer_high_ip_range c b) as [E|[E|E]]; rewrite E; reflexivity.
Qed.

Theorem bgp_select_is_rfc : forall b c,
  bgp_select b c = rfc_cmp_bgp (bgp_key_of b) (bgp_key_of c).
Proof.
  intros. unfold bgp_select, rfc_cmp_bgp, bgp_key_of.
  cbn [k_lp k_aslen k_origin k_med k_ebgp k_id k_cl k_src k_nh].
  rewrite nh_step, src_step, !eff_id_id', !cl_len_cluster_len.
  rewrite hi_step, !lo_step, bool_step, !lo_step'.
  reflexivity.
Qed.

Lemma view_embed : forall w, view (embed w) = Some w.
Proof. destruct w; reflexivity. Qed.

Lemma pkey_embed : forall w, pkey (embed w) = Some (key_of w).
Proof. intros. unfold pkey. rewrite view_embed. reflexivity. Qed.

Lemma view_inv : forall p w, view p = Some w -> p = embed w.
Proof.
  intros [t s b] w. unfold view; cbn.
  destruct t as [|[| [] |]]; try discriminate; destruct s, b; try discriminate;
    intro H; injection H as <-; reflexivity.
Qed.

Theorem select_is_rfc : forall a b,
  path_select (embed a) (embed b) = Ok (rfc_cmp (key_of a) (key_of b)).
Proof.
  intros [s|b] [t|c]; cbn; try reflexivity.
  - unfold static_select. rewrite ip_compare_spec. reflexivity.
  - rewrite bgp_select_is_rfc. reflexivity.
Qed.

(* the general form: any two paths that are well formed *)
Theorem select_is_rfc_paths : forall p q ka kb,
  pkey p = Some ka -> pkey q = Some kb -> path_select p q = Ok (rfc_cmp ka kb).
Proof.
  intros p q ka kb Hp Hq. unfold pkey in *.
  destruct (view p) as [a|] eqn:Vp; [|discriminate]. destruct (view q) as [b|] eqn:Vq; [|discriminate].
  cbn in Hp, Hq. injection Hp as <-. injection Hq as <-.
  rewrite (view_inv _ _ Vp), (view_inv _ _ Vq). apply select_is_rfc.
Qed.

Lemma Ok_inj : forall (A : Type) (x y : A), Ok x = Ok y -> x = y.
Proof. intros A x y H. injection H. auto. Qed.

(* ================= D. the preference relation is a total preorder (C02) ================= *)

Theorem select_total : forall a b, exists z, path_select (embed a) (embed b) = Ok z.
Proof. intros. eexists. apply select_is_rfc. Qed.

Theorem select_antisym : forall a b z,
  path_select (embed a) (embed b) = Ok z -> path_select (embed b) (embed a) = Ok (- z)%Z.
Proof.
  intros a b z H. rewrite select_is_rfc in *. injection H as <-.
  f_equal. apply rfc_cmp_antisym.
Qed.

Theorem select_trans : forall a b c,
  strictly_prefers a b -> strictly_prefers b c -> strictly_prefers a c.
Proof.
  unfold strictly_prefers. intros a b c H1 H2. rewrite select_is_rfc in *.
  apply Ok_inj in H1. apply Ok_inj in H2. f_equal. eapply rfc_cmp_trans; eassumption.
Qed.

Theorem tie_iff_key_eq : forall a b, tied a b <-> key_of a = key_of b.
Proof.
  intros. unfold tied. rewrite select_is_rfc. rewrite <- rfc_cmp_eq.
  split; [intro H; injection H; auto | intros ->; reflexivity].
Qed.

Theorem prefers_total : forall a b, prefers a b \/ prefers b a.
Proof.
  intros. unfold prefers. rewrite !select_is_rfc. rewrite (rfc_cmp_antisym (key_of b)).
  destruct (rfc_cmp_range (key_of a) (key_of b)) as [E|[E|E]]; rewrite E; cbn; auto.
Qed.

Lemma prefers_rfc : forall a b, prefers a b <-> rfc_cmp (key_of a) (key_of b) <> (-1)%Z.
Proof.
  intros. unfold prefers. rewrite select_is_rfc.
  destruct (rfc_cmp_range (key_of a) (key_of b)) as [E|[E|E]]; rewrite E; split; intro H;
    auto; try discriminate; try (exfalso; apply H; reflexivity).
  destruct H as [H|H]; discriminate.
Qed.

Theorem prefers_trans : forall a b c, prefers a b -> prefers b c -> prefers a c.
Proof. intros a b c. rewrite !prefers_rfc. apply rfc_cmp_ge_trans. Qed.

Theorem tied_equiv :
  (forall a, tied a a) /\ (forall a b, tied a b -> tied b a) /\
  (forall a b c, tied a b -> tied b c -> tied a c).
Proof.
  repeat split; intros *; rewrite !tie_iff_key_eq; congruence.
Qed.

(* the function handed to sort.Slice is a strict weak order *)
Theorem less_strict_weak_order :
  (forall a, less (embed a) (embed a) = Ok false) /\
  (forall a b c, less (embed a) (embed b) = Ok true -> less (embed b) (embed c) = Ok true ->
                 less (embed a) (embed c) = Ok true) /\
  (forall a b c, less (embed a) (embed b) = Ok false -> less (embed b) (embed a) = Ok false ->
                 less (embed b) (embed c) = Ok false -> less (embed c) (embed b) = Ok false ->
                 less (embed a) (embed c) = Ok false /\ less (embed c) (embed a) = Ok false).
Proof.
  unfold less. split; [|split].
  - intros a. rewrite !select_is_rfc.
    replace (rfc_cmp (key_of a) (key_of a)) with 0%Z; [reflexivity|].
    symmetry. apply rfc_cmp_eq. reflexivity.
  - intros a b c. rewrite !select_is_rfc. intros H1 H2. apply Ok_inj in H1. apply Ok_inj in H2.
    apply Z.eqb_eq in H1, H2. rewrite (rfc_cmp_trans _ _ _ H1 H2). reflexivity.
  - intros a b c. rewrite !select_is_rfc. intros H1 H2 H3 H4.
    apply Ok_inj in H1. apply Ok_inj in H2. apply Z.eqb_neq in H1, H2.
    rewrite (rfc_cmp_antisym (key_of b)) in H2.
    assert (E : key_of a = key_of b).
    { apply rfc_cmp_eq. destruct (rfc_cmp_range (key_of a) (key_of b)) as [E|[E|E]]; lia. }
    rewrite E. split; assumption.
Qed.

(* ================= E. sorting: any admissible result has the same key list ================= *)

Definition Rkey (ka kb : key) : Prop := rfc_cmp kb ka <> 1%Z.

Lemma Rkey_trans : Relations_1.Transitive Rkey.
Proof.
  intros x y z H1 H2. unfold Rkey in *.
  rewrite rfc_cmp_antisym in *. 
  assert (A : rfc_cmp x y <> (-1)%Z) by lia.
  assert (B : rfc_cmp y z <> (-1)%Z) by lia.
  pose proof (rfc_cmp_ge_trans _ _ _ A B). lia.
Qed.

Lemma Rkey_antisym : forall a b, Rkey a b -> Rkey b a -> a = b.
Proof.
  unfold Rkey. intros a b H1 H2. apply rfc_cmp_eq.
  rewrite (rfc_cmp_antisym b a) in H1.
  destruct (rfc_cmp_range a b) as [E|[E|E]]; lia.
Qed.

Lemma not_less_Rkey : forall a b,
  not_less_than_pred (embed a) (embed b) <-> Rkey (key_of a) (key_of b).
Proof.
  intros. unfold not_less_than_pred, less, Rkey. rewrite select_is_rfc.
  split; intro H.
  - apply Ok_inj in H. apply Z.eqb_neq in H. assumption.
  - f_equal. apply Z.eqb_neq. assumption.
Qed.

Lemma sorted_perm_unique : forall (A : Type) (R : A -> A -> Prop),
  (forall a b, R a b -> R b a -> a = b) ->
  forall l1 l2, StronglySorted R l1 -> StronglySorted R l2 -> Permutation l1 l2 -> l1 = l2.
Proof.
  intros A R anti. induction l1 as [|a l1 IH]; intros l2 S1 S2 P.
  - apply Permutation_nil in P. subst. reflexivity.
  - destruct l2 as [|b l2].
    + apply Permutation_sym, Permutation_nil in P. discriminate.
    + apply StronglySorted_inv in S1 as [S1 F1]. apply StronglySorted_inv in S2 as [S2 F2].
      assert (E : a = b).
      { assert (Ia : In a (b :: l2)) by (eapply Permutation_in; [exact P | left; reflexivity]).
        assert (Ib : In b (a :: l1)) by (eapply Permutation_in; [apply Permutation_sym; exact P | left; reflexivity]).
        destruct Ia as [->|Ia]; [reflexivity|]. destruct Ib as [->|Ib]; [reflexivity|].
        rewrite Forall_forall in F1, F2. apply anti; auto. }
      subst b. f_equal. apply IH; auto. eapply Permutation_cons_inv; eassumption.
Qed.

Lemma sorted_paths_keys : forall ws,
  Sorted not_less_than_pred (map embed ws) -> Sorted Rkey (map key_of ws).
Proof.
  induction ws as [|a ws IH]; cbn; intro S; [constructor|].
  apply Sorted_inv in S as [S H]. constructor; [apply IH; assumption|].
  destruct ws as [|b ws]; cbn in *; constructor.
  apply HdRel_inv in H. apply not_less_Rkey. assumption.
Qed.

Lemma keys_sorted_paths : forall ws,
  Sorted Rkey (map key_of ws) -> Sorted not_less_than_pred (map embed ws).
Proof.
  induction ws as [|a ws IH]; cbn; intro S; [constructor|].
  apply Sorted_inv in S as [S H]. constructor; [apply IH; assumption|].
  destruct ws as [|b ws]; cbn in *; constructor.
  apply HdRel_inv in H. apply not_less_Rkey. assumption.
Qed.

Theorem sorted_keys_unique : forall w1 w2,
  Sorted not_less_than_pred (map embed w1) -> Sorted not_less_than_pred (map embed w2) ->
  Permutation w1 w2 -> map key_of w1 = map key_of w2.
Proof.
  intros w1 w2 S1 S2 P.
  apply (sorted_perm_unique key Rkey Rkey_antisym).
  - apply Sorted_StronglySorted; [exact Rkey_trans | apply sorted_paths_keys; assumption].
  - apply Sorted_StronglySorted; [exact Rkey_trans | apply sorted_paths_keys; assumption].
  - apply Permutation_map. assumption.
Qed.

(* ---------- ECMP *)
Theorem ecmp_is_key : forall a b, path_ecmp (embed a) (embed b) = Ok (ecmp_key (key_of a) (key_of b)).
Proof.
  intros [s|b] [t|c]; cbn; try reflexivity.
  f_equal. unfold bgp_ecmp.
  destruct (lp b =? lp c), (aslen b =? aslen c), (med b =? med c), (origin b =? origin c); reflexivity.
Qed.

Theorem ecmp_count_is_keys : forall ws,
  ecmp_count (map embed ws) = Ok (ecmp_count_keys (map key_of ws)).
Proof.
  induction ws as [|a ws IH]; [reflexivity|].
  destruct ws as [|b ws]; [reflexivity|].
  cbn [map] in *. cbn [ecmp_count ecmp_count_keys].
  rewrite ecmp_is_key. destruct (ecmp_key (key_of a) (key_of b)); [|reflexivity].
  cbn [ecmp_count] in IH. rewrite IH. reflexivity.
Qed.

Lemma map_pkey_embed : forall ws, map pkey (map embed ws) = map Some (map key_of ws).
Proof.
  induction ws as [|a ws IH]; [reflexivity|]. cbn. rewrite pkey_embed, IH. reflexivity.
Qed.

Lemma admits_embed : forall c o, sort_admits (map embed c) o ->
  exists w, o = map embed w /\ Permutation c w /\ Sorted not_less_than_pred (map embed w).
Proof.
  intros c o [P S]. apply Permutation_sym, Permutation_map_inv in P as [w [-> P]].
  exists w. auto.
Qed.

(* what two sorted arrangements of the same candidates have in common *)
Definition same_selection (o1 o2 : list path) : Prop :=
  map pkey o1 = map pkey o2 /\
  option_map pkey (best o1) = option_map pkey (best o2) /\
  (exists n, ecmp_count o1 = Ok n /\ ecmp_count o2 = Ok n) /\
  map pkey (ecmp_set o1) = map pkey (ecmp_set o2).

Lemma same_selection_embed : forall w1 w2,
  map key_of w1 = map key_of w2 -> same_selection (map embed w1) (map embed w2).
Proof.
  intros w1 w2 E. unfold same_selection.
  assert (K : map pkey (map embed w1) = map pkey (map embed w2)) by (rewrite !map_pkey_embed, E; reflexivity).
  split; [exact K|]. split; [|split].
  - unfold best. destruct w1 as [|a w1], w2 as [|b w2]; try discriminate; [reflexivity|].
    cbn in *. injection K as K _. rewrite K. reflexivity.
  - exists (ecmp_count_keys (map key_of w1)). rewrite !ecmp_count_is_keys, E. auto.
  - unfold ecmp_set. rewrite !ecmp_count_is_keys, E.
    rewrite <- !firstn_map, K. reflexivity.
Qed.

Theorem order_independent : forall c1 c2 o1 o2,
  Permutation c1 c2 ->
  sort_admits (map embed c1) o1 -> sort_admits (map embed c2) o2 ->
  same_selection o1 o2.
Proof.
  intros c1 c2 o1 o2 P A1 A2.
  apply admits_embed in A1 as [w1 [-> [P1 S1]]]. apply admits_embed in A2 as [w2 [-> [P2 S2]]].
  apply same_selection_embed. apply sorted_keys_unique; auto.
  eapply Permutation_trans; [apply Permutation_sym; exact P1|].
  eapply Permutation_trans; [exact P | exact P2].
Qed.

Theorem ecmp_total : forall ws, exists n, ecmp_count (map embed ws) = Ok n.
Proof. intros. eexists. apply ecmp_count_is_keys. Qed.

Theorem ecmp_pair_total : forall a b, exists e, path_ecmp (embed a) (embed b) = Ok e.
Proof. intros. eexists. apply ecmp_is_key. Qed.

(* ================= F. histories of AddPath / RemovePath ================= *)

Lemma ip_eqb_eq : forall a b, ip_eqb a b = true <-> a = b.
Proof.
  intros [ah al] [bh bl]. unfold ip_eqb, ip_compare; cbn.
  destruct (N.ltb_spec bh ah); [split; intro H0; [discriminate | injection H0; lia]|].
  destruct (N.ltb_spec ah bh); [split; intro H1; [discriminate | injection H1; lia]|].
  destruct (N.ltb_spec bl al); [split; intro H2; [discriminate | injection H2; lia]|].
  destruct (N.ltb_spec al bl); [split; intro H3; [discriminate | injection H3; lia]|].
  split; intro; [f_equal; lia | reflexivity].
Qed.

Lemma list_eqb_eq : forall l m, list_eqb l m = true <-> l = m.
Proof.
  induction l as [|x l IH]; destruct m as [|y m]; cbn; split; intro H; try discriminate; auto.
  - apply andb_true_iff in H as [H1 H2]. apply N.eqb_eq in H1. apply IH in H2. subst. reflexivity.
  - injection H as -> ->. rewrite N.eqb_refl. apply IH. reflexivity.
Qed.

Lemma clist_eqb_eq : forall a b, clist_eqb a b = true <-> a = b.
Proof.
  intros [l|] [m|]; cbn; split; intro H; try discriminate; auto.
  - apply list_eqb_eq in H. subst. reflexivity.
  - injection H as ->. apply list_eqb_eq. reflexivity.
Qed.

Lemma bgp_compare_eq : forall b c, bgp_compare b c = true <-> b = c.
Proof.
  intros b c. unfold bgp_compare. rewrite !andb_true_iff, !N.eqb_eq, !ip_eqb_eq, clist_eqb_eq, Bool.eqb_true_iff.
  destruct b, c; cbn. split.
  - intros [[[[[[[[[[[? ?] ?] ?] ?] ?] ?] ?] ?] ?] ?] ?]. subst. reflexivity.
  - intro H. injection H. intros. subst. repeat split.
Qed.

Lemma compare_embed : forall x w,
  path_compare (embed x) (embed w) = Ok (if wpath_eq_dec x w then true else false).
Proof.
  intros x w. destruct (wpath_eq_dec x w) as [E|NE].
  - subst. destruct w as [t|c]; cbn; f_equal.
    + apply ip_eqb_eq. reflexivity.
    + apply bgp_compare_eq. reflexivity.
  - destruct x as [s|b], w as [t|c]; cbn; try reflexivity; f_equal.
    + destruct (static_equal s t) eqn:SE; [|reflexivity].
      exfalso. apply NE. apply ip_eqb_eq in SE. destruct s, t; cbn in *. subst. reflexivity.
    + destruct (bgp_compare b c) eqn:BE; [|reflexivity].
      exfalso. apply NE. apply bgp_compare_eq in BE. subst. reflexivity.
Qed.

Lemma remove_embed : forall w ws,
  remove_path (map embed ws) (embed w) = Ok (map embed (remove1 w ws)).
Proof.
  induction ws as [|x ws IH]; [reflexivity|].
  cbn [map remove_path remove1]. rewrite compare_embed.
  destruct (wpath_eq_dec x w); [reflexivity|]. rewrite IH. reflexivity.
Qed.

Lemma remove1_perm : forall x l l', Permutation l l' -> Permutation (remove1 x l) (remove1 x l').
Proof.
  intros x l l' P. induction P as [|a l l' P IH|a b l|l l' l'' P1 IH1 P2 IH2].
  - constructor.
  - cbn. destruct (wpath_eq_dec a x); [assumption | constructor; assumption].
  - cbn. destruct (wpath_eq_dec b x) as [Eb|Nb], (wpath_eq_dec a x) as [Ea|Na]; subst.
    + apply Permutation_refl.
    + apply Permutation_refl.
    + apply Permutation_refl.
    + apply perm_swap.
  - eapply Permutation_trans; eassumption.
Qed.

Lemma runs_bag : forall h s s' c,
  runs s (map embed_op h) s' -> Permutation s (map embed c) ->
  Permutation s' (map embed (fold_left bag_step h c)).
Proof.
  induction h as [|o h IH]; intros s s' c R P.
  - inversion R; subst. assumption.
  - destruct o as [w|w]; cbn [map embed_op] in R; inversion R; subst; cbn [fold_left bag_step].
    + eapply IH; [eassumption|].
      match goal with H : sort_admits _ _ |- _ => destruct H as [Pa _] end.
      eapply Permutation_trans; [apply Permutation_sym; exact Pa|].
      rewrite map_app. cbn. apply Permutation_app_tail. assumption.
    + eapply IH; [eassumption|].
      match goal with H : sort_admits _ _ |- _ => destruct H as [Pa _] end.
      eapply Permutation_trans; [apply Permutation_sym; exact Pa|].
      apply Permutation_map_inv in P as [ws [-> Pc]].
      match goal with H : remove_path _ _ = Ok _ |- _ => rewrite remove_embed in H; apply Ok_inj in H; subst end.
      apply Permutation_map. apply remove1_perm. apply Permutation_sym. assumption.
Qed.

Lemma runs_sorted : forall s ops s',
  runs s ops s' -> Sorted not_less_than_pred s -> Sorted not_less_than_pred s'.
Proof.
  intros s ops s' R. induction R as [s|s p o ops s' A R IH|s p r o ops s' E A R IH]; intro S.
  - assumption.
  - apply IH. destruct A; assumption.
  - apply IH. destruct A; assumption.
Qed.

Theorem history_independent : forall h1 h2 s1 s2,
  runs [] (map embed_op h1) s1 -> runs [] (map embed_op h2) s2 ->
  Permutation (bag h1) (bag h2) ->
  same_selection s1 s2.
Proof.
  intros h1 h2 s1 s2 R1 R2 P.
  pose proof (runs_bag h1 [] s1 [] R1 (Permutation_refl _)) as B1.
  pose proof (runs_bag h2 [] s2 [] R2 (Permutation_refl _)) as B2.
  pose proof (runs_sorted _ _ _ R1 (Sorted_nil _)) as S1.
  pose proof (runs_sorted _ _ _ R2 (Sorted_nil _)) as S2.
  fold (bag h1) in B1. fold (bag h2) in B2.
  apply Permutation_map_inv in B1 as [w1 [-> P1]]. apply Permutation_map_inv in B2 as [w2 [-> P2]].
  apply same_selection_embed. apply sorted_keys_unique; auto.
  eapply Permutation_trans; [apply Permutation_sym; exact P1|].
  eapply Permutation_trans; [exact P | exact P2].
Qed.

(* the state after a history is a sorted arrangement of exactly the remaining candidates *)
Theorem history_state : forall h s,
  runs [] (map embed_op h) s ->
  exists ws, s = map embed ws /\ Permutation (bag h) ws /\ Sorted not_less_than_pred s.
Proof.
  intros h s R.
  pose proof (runs_bag h [] s [] R (Permutation_refl _)) as B. fold (bag h) in B.
  apply Permutation_map_inv in B as [ws [-> P]].
  exists ws. repeat split; auto. exact (runs_sorted _ _ _ R (Sorted_nil _)).
Qed.

(* ---------- the insertion sort of the model is one admissible sort *)
Lemma insert_perm : forall p l, Permutation (insert p l) (p :: l).
Proof.
  induction l as [|x l IH]; cbn; [apply Permutation_refl|].
  destruct (lessb p x); [apply Permutation_refl|].
  eapply Permutation_trans; [apply perm_skip; exact IH | apply perm_swap].
Qed.

Lemma isort_perm : forall l, Permutation l (isort l).
Proof.
  induction l as [|x l IH]; cbn; [constructor|].
  apply Permutation_sym. eapply Permutation_trans; [apply insert_perm|].
  apply perm_skip. apply Permutation_sym. assumption.
Qed.

Lemma lessb_embed : forall a b,
  lessb (embed a) (embed b) = (rfc_cmp (key_of a) (key_of b) =? 1)%Z.
Proof.
  intros. unfold lessb, less. rewrite select_is_rfc.
  destruct (rfc_cmp (key_of a) (key_of b) =? 1)%Z; reflexivity.
Qed.

Lemma HdRel_insert : forall a p l,
  HdRel not_less_than_pred a l -> not_less_than_pred a p -> HdRel not_less_than_pred a (insert p l).
Proof.
  intros a p [|x l] H Hp; cbn; [constructor; assumption|].
  destruct (lessb p x); constructor; [assumption|]. apply HdRel_inv in H. assumption.
Qed.

Lemma insert_sorted : forall w ws,
  Sorted not_less_than_pred (map embed ws) ->
  Sorted not_less_than_pred (insert (embed w) (map embed ws)).
Proof.
  induction ws as [|x ws IH]; cbn [map insert]; intro S.
  - repeat constructor.
  - rewrite lessb_embed. destruct (Z.eqb_spec (rfc_cmp (key_of w) (key_of x)) 1) as [E|NE].
    + constructor; [assumption|]. constructor. apply not_less_Rkey. unfold Rkey.
      rewrite rfc_cmp_antisym. lia.
    + apply Sorted_inv in S as [S H]. constructor; [apply IH; assumption|].
      apply HdRel_insert; [assumption|]. apply not_less_Rkey. exact NE.
Qed.

Lemma isort_embed : forall ws, exists ws', isort (map embed ws) = map embed ws' /\ Permutation ws ws'.
Proof.
  intros. pose proof (isort_perm (map embed ws)) as P.
  apply Permutation_sym, Permutation_map_inv in P as [ws' [E P]]. exists ws'. auto.
Qed.

Lemma isort_sorted : forall ws, Sorted not_less_than_pred (isort (map embed ws)).
Proof.
  induction ws as [|a ws IH]; cbn; [constructor|].
  fold (isort (map embed ws)). destruct (isort_embed ws) as [ws' [E _]].
  rewrite E in *. apply insert_sorted. assumption.
Qed.

Theorem isort_admits : forall c, sort_admits (map embed c) (isort (map embed c)).
Proof. intros. split; [apply isort_perm | apply isort_sorted]. Qed.

Theorem run_exec_runs : forall h c,
  exists s, run_exec (map embed c) (map embed_op h) = Ok s /\ runs (map embed c) (map embed_op h) s.
Proof.
  induction h as [|o h IH]; intro c.
  - exists (map embed c). split; [reflexivity | constructor].
  - destruct o as [w|w]; cbn [map embed_op run_exec step].
    + replace (map embed c ++ [embed w]) with (map embed (c ++ [w])) by (rewrite map_app; reflexivity).
      destruct (isort_embed (c ++ [w])) as [c' [E _]].
      destruct (IH c') as [s [X R]]. exists s. rewrite E. split; [assumption|].
      econstructor; [|exact R]. rewrite <- E.
      replace (map embed c ++ [embed w]) with (map embed (c ++ [w])) by (rewrite map_app; reflexivity).
      apply isort_admits.
    + rewrite remove_embed. destruct (isort_embed (remove1 w c)) as [c' [E _]].
      destruct (IH c') as [s [X R]]. exists s. rewrite E. split; [assumption|].
      econstructor; [apply remove_embed | | exact R]. rewrite <- E. apply isort_admits.
Qed.

(* ================= G. the decision steps one by one (C03, as the property text lists them) ===== *)

Lemma ph_refl : forall x, prefer_high x x = 0%Z.
Proof. intros. unfold prefer_high. rewrite N.compare_refl. reflexivity. Qed.
Lemma pl_refl : forall x, prefer_low x x = 0%Z.
Proof. intros. apply ph_refl. Qed.
Lemma pt_refl : forall x, prefer_true x x = 0%Z.
Proof. destruct x; reflexivity. Qed.
Lemma ph_gt : forall x y, y < x -> prefer_high x y = 1%Z.
Proof. intros x y H. unfold prefer_high. apply N.compare_gt_iff in H. rewrite H. reflexivity. Qed.
Lemma pl_lt : forall x y, x < y -> prefer_low x y = 1%Z.
Proof. intros. apply ph_gt. assumption. Qed.
Lemma pli_lt : forall a b, ip_lt a b -> prefer_low_ip a b = 1%Z.
Proof.
  intros a b [H|[E H]]; unfold prefer_low_ip, prefer_high_ip.
  - rewrite (ph_gt _ _ H). reflexivity.
  - rewrite E, ph_refl, (ph_gt _ _ H). reflexivity.
Qed.

Ltac steps := rewrite bgp_select_is_rfc; unfold rfc_cmp_bgp, bgp_key_of;
  cbn [k_lp k_aslen k_origin k_med k_ebgp k_id k_cl k_src k_nh].

Theorem step_local_pref : forall a b, lp b < lp a -> bgp_select a b = 1%Z.
Proof. intros a b H. steps. rewrite (ph_gt _ _ H). reflexivity. Qed.

Theorem step_as_path : forall a b, lp a = lp b -> aslen a < aslen b -> bgp_select a b = 1%Z.
Proof. intros a b E H. steps. rewrite E, ph_refl, (pl_lt _ _ H). reflexivity. Qed.

Theorem step_origin : forall a b,
  lp a = lp b -> aslen a = aslen b -> origin a < origin b -> bgp_select a b = 1%Z.
Proof. intros a b E1 E2 H. steps. rewrite E1, E2, ph_refl, pl_refl, (pl_lt _ _ H). reflexivity. Qed.

Theorem step_med : forall a b,
  lp a = lp b -> aslen a = aslen b -> origin a = origin b -> med a < med b -> bgp_select a b = 1%Z.
Proof.
  intros a b E1 E2 E3 H. steps. rewrite E1, E2, E3, ph_refl, !pl_refl, (pl_lt _ _ H). reflexivity.
Qed.

Theorem step_ebgp : forall a b,
  lp a = lp b -> aslen a = aslen b -> origin a = origin b -> med a = med b ->
  ebgp a = true -> ebgp b = false -> bgp_select a b = 1%Z.
Proof.
  intros a b E1 E2 E3 E4 Ha Hb. steps. rewrite E1, E2, E3, E4, Ha, Hb, ph_refl, !pl_refl. reflexivity.
Qed.

Theorem step_identifier : forall a b,
  same_upto_ebgp a b -> id' a < id' b -> bgp_select a b = 1%Z.
Proof.
  intros a b (E1 & E2 & E3 & E4 & E5) H. steps.
  rewrite E1, E2, E3, E4, E5, ph_refl, !pl_refl, pt_refl, (pl_lt _ _ H). reflexivity.
Qed.

Theorem step_cluster_list : forall a b,
  same_upto_ebgp a b -> id' a = id' b -> cluster_len a < cluster_len b -> bgp_select a b = 1%Z.
Proof.
  intros a b (E1 & E2 & E3 & E4 & E5) E6 H. steps.
  rewrite E1, E2, E3, E4, E5, E6, ph_refl, !pl_refl, pt_refl, (pl_lt _ _ H). reflexivity.
Qed.

Theorem step_peer_address : forall a b,
  same_upto_ebgp a b -> id' a = id' b -> cluster_len a = cluster_len b ->
  ip_lt (src a) (src b) -> bgp_select a b = 1%Z.
Proof.
  intros a b (E1 & E2 & E3 & E4 & E5) E6 E7 H. steps.
  rewrite E1, E2, E3, E4, E5, E6, E7, ph_refl, !pl_refl, pt_refl, (pli_lt _ _ H). reflexivity.
Qed.

Theorem bgp_select_antisym : forall a b, bgp_select b a = (- bgp_select a b)%Z.
Proof.
  intros. pose proof (rfc_cmp_antisym (KBGP (bgp_key_of b)) (KBGP (bgp_key_of a))) as H.
  cbn [rfc_cmp] in H. rewrite !bgp_select_is_rfc. exact H.
Qed.

(* ================= H. the ECMP set is exactly the candidates that are equal-cost with the best ===== *)

Definition cost_cmp (a b : bgp_key) : Z :=
  prefer_high (k_lp a) (k_lp b) ;; prefer_low (k_aslen a) (k_aslen b) ;;
  prefer_low (k_origin a) (k_origin b) ;; prefer_low (k_med a) (k_med b).

Lemma rfc_cost : forall a b, exists rest, rfc_cmp_bgp a b = (cost_cmp a b ;; rest).
Proof.
  intros. eexists. unfold rfc_cmp_bgp, cost_cmp. rewrite !andthen_assoc. reflexivity.
Qed.

Lemma andthen_ne1 : forall c d, (c ;; d) <> 1%Z -> c <> 1%Z.
Proof. intros c d H E. subst. apply H. reflexivity. Qed.

Lemma andthen_opp : forall c d, (- (c ;; d))%Z = ((- c)%Z ;; (- d)%Z).
Proof.
  intros. unfold andthen. destruct (Z.eqb_spec c 0) as [E|NE].
  - subst. reflexivity.
  - destruct (Z.eqb_spec (- c) 0); [lia | reflexivity].
Qed.

Lemma andthen_range : forall c d,
  (c = 1 \/ c = 0 \/ c = -1)%Z -> (d = 1 \/ d = 0 \/ d = -1)%Z ->
  ((c ;; d) = 1 \/ (c ;; d) = 0 \/ (c ;; d) = -1)%Z.
Proof. intros c d Hc Hd. destruct Hc as [Hc|[Hc|Hc]]; subst; cbn; auto. Qed.

Lemma cost_cmp_range : forall a b, (cost_cmp a b = 1 \/ cost_cmp a b = 0 \/ cost_cmp a b = -1)%Z.
Proof.
  intros. unfold cost_cmp, prefer_low. repeat apply andthen_range; apply prefer_high_range.
Qed.

Lemma cost_cmp_antisym : forall a b, cost_cmp a b = (- cost_cmp b a)%Z.
Proof.
  intros. unfold cost_cmp, prefer_low. rewrite !andthen_opp.
  rewrite <- !prefer_high_antisym. reflexivity.
Qed.

Lemma prefer_high_0 : forall x y, prefer_high x y = 0%Z <-> x = y.
Proof.
  intros. unfold prefer_high. destruct (N.compare_spec x y); split; intro H0; try discriminate; try lia; auto.
Qed.

Lemma andthen_0 : forall c d, (c ;; d) = 0%Z <-> c = 0%Z /\ d = 0%Z.
Proof.
  intros. unfold andthen. destruct (Z.eqb_spec c 0); split; intro H; try tauto; try lia.
Qed.

Lemma cost_cmp_0 : forall a b, cost_cmp a b = 0%Z <-> ecmp_key (KBGP a) (KBGP b) = true.
Proof.
  intros. unfold cost_cmp, prefer_low. cbn [ecmp_key].
  rewrite !andthen_0, !prefer_high_0, !andb_true_iff, !N.eqb_eq. intuition congruence.
Qed.

Lemma cost_cmp_congr : forall a b c,
  ecmp_key (KBGP a) (KBGP c) = true -> cost_cmp c b = cost_cmp a b.
Proof.
  intros a b c H. cbn [ecmp_key] in H. rewrite !andb_true_iff, !N.eqb_eq in H.
  destruct H as [[[E1 E2] E3] E4]. unfold cost_cmp. rewrite E1, E2, E3, E4. reflexivity.
Qed.

Lemma ecmp_key_refl : forall a, ecmp_key a a = true.
Proof. intros [x|x]; cbn; [reflexivity|]. rewrite !N.eqb_refl. reflexivity. Qed.

Lemma ecmp_key_sym : forall a b, ecmp_key a b = ecmp_key b a.
Proof.
  intros [x|x] [y|y]; cbn; try reflexivity.
  rewrite (N.eqb_sym (k_lp x)), (N.eqb_sym (k_aslen x)), (N.eqb_sym (k_origin x)), (N.eqb_sym (k_med x)).
  reflexivity.
Qed.

Lemma ecmp_key_trans_eq : forall a b, ecmp_key a b = true -> forall c, ecmp_key a c = ecmp_key b c.
Proof.
  intros [x|x] [y|y] H [z|z]; cbn in *; try discriminate; try reflexivity.
  rewrite !andb_true_iff, !N.eqb_eq in H. destruct H as [[[E1 E2] E3] E4].
  rewrite E1, E2, E3, E4. reflexivity.
Qed.

Lemma ecmp_convex : forall a b c,
  Rkey a b -> Rkey b c -> ecmp_key a c = true -> ecmp_key a b = true.
Proof.
  unfold Rkey. intros [x|x] [y|y] [z|z] H1 H2 H; cbn in *; try discriminate; try reflexivity;
    try (exfalso; apply H1; reflexivity); try (exfalso; apply H2; reflexivity).
  destruct (rfc_cost y x) as [r1 E1]. destruct (rfc_cost z y) as [r2 E2].
  rewrite E1 in H1. rewrite E2 in H2. apply andthen_ne1 in H1, H2.
  fold (ecmp_key (KBGP x) (KBGP z)) in H. fold (ecmp_key (KBGP x) (KBGP y)).
  rewrite (cost_cmp_congr _ _ _ H) in H2.
  apply cost_cmp_0. rewrite (cost_cmp_antisym y x) in H1.
  destruct (cost_cmp_range x y) as [E|[E|E]]; lia.
Qed.

Lemma filter_none : forall (A : Type) (f : A -> bool) l, (forall x, In x l -> f x = false) -> filter f l = [].
Proof.
  induction l as [|x l IH]; intro H; [reflexivity|]. cbn. rewrite (H x (or_introl eq_refl)).
  apply IH. intros y Hy. apply H. right. assumption.
Qed.

Definition count_equal_cost (ks : list key) : N :=
  match ks with [] => 0 | k :: _ => N.of_nat (length (filter (ecmp_key k) ks)) end.

Lemma ecmp_count_keys_cons2 : forall a b t,
  ecmp_count_keys (a :: b :: t) = if ecmp_key a b then N.succ (ecmp_count_keys (b :: t)) else 1.
Proof. reflexivity. Qed.

Lemma ecmp_count_exact : forall ks, StronglySorted Rkey ks -> ecmp_count_keys ks = count_equal_cost ks.
Proof.
  induction ks as [|a ks IH]; intro S; [reflexivity|].
  apply StronglySorted_inv in S as [S Fa]. specialize (IH S).
  destruct ks as [|b t]; [cbn; rewrite ecmp_key_refl; reflexivity|].
  rewrite ecmp_count_keys_cons2. unfold count_equal_cost at 1. cbn [filter]. rewrite ecmp_key_refl.
  destruct (ecmp_key a b) eqn:E.
  - rewrite IH. unfold count_equal_cost. cbn [filter]. rewrite ecmp_key_refl.
    rewrite (filter_ext _ _ (ecmp_key_trans_eq a b E) t). cbn [length].
    rewrite <- !Nat2N.inj_succ. reflexivity.
  - rewrite filter_none; [reflexivity|].
    intros c Hc. destruct (ecmp_key a c) eqn:Ec; [|reflexivity].
    apply StronglySorted_inv in S as [_ Fb]. rewrite Forall_forall in Fa, Fb.
    rewrite <- E. symmetry. eapply ecmp_convex; [apply Fa; left; reflexivity | apply Fb; exact Hc | exact Ec].
Qed.

Lemma perm_filter_length : forall (A : Type) (f : A -> bool) l l',
  Permutation l l' -> length (filter f l) = length (filter f l').
Proof.
  intros A f l l' P. induction P as [|x l l' P IH|x y l|l l' l'' P1 IH1 P2 IH2]; cbn.
  - reflexivity.
  - destruct (f x); cbn; congruence.
  - destruct (f x), (f y); reflexivity.
  - congruence.
Qed.

Lemma Ok_inj' : forall (A : Type) (x y : A), Some x = Some y -> x = y.
Proof. intros A x y H. injection H. auto. Qed.

Lemma filter_map_len : forall b l,
  length (filter (ecmp_key (key_of b)) (map key_of l)) = length (filter (equal_cost b) l).
Proof.
  induction l as [|y l IH]; [reflexivity|].
  cbn [map filter]. change (equal_cost b y) with (ecmp_key (key_of b) (key_of y)).
  destruct (ecmp_key (key_of b) (key_of y)); cbn [length]; rewrite IH; reflexivity.
Qed.

Theorem ecmp_set_exact : forall c o b,
  sort_admits (map embed c) o -> best o = Some (embed b) ->
  ecmp_count o = Ok (N.of_nat (length (filter (equal_cost b) c))).
Proof.
  intros c o b A Hb. apply admits_embed in A as [w [-> [P S]]].
  rewrite ecmp_count_is_keys. f_equal.
  rewrite ecmp_count_exact.
  - destruct w as [|x w]; [discriminate|]. cbn in Hb.
    assert (Ex : key_of x = key_of b).
    { apply Ok_inj' in Hb. pose proof (f_equal pkey Hb) as K. rewrite !pkey_embed in K. injection K. auto. }
    unfold count_equal_cost. cbn [map].
    change (key_of x :: map key_of w) with (map key_of (x :: w)).
    rewrite Ex, filter_map_len. f_equal. symmetry. apply perm_filter_length. assumption.
  - apply Sorted_StronglySorted; [exact Rkey_trans | apply sorted_paths_keys; assumption].
Qed.
