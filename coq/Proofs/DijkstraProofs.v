(* C35 proofs: Topology.SPT computes a shortest-path tree, for every map iteration order. *)
From Coq Require Import List NArith ZArith Bool Permutation Lia.
Import ListNotations.
From BioVerif Require Import Model.Dijkstra Spec.DijkstraSpec.
Open Scope Z_scope.

(* ------------------------------------------------------------------ association lists *)
Section AssocFacts.
  Context {A : Type}.
  Implicit Types (m : list (node * A)) (k : node) (v : A).

  Lemma get_put_eq k v m : get k (put k v m) = Some v.
  Proof.
    induction m as [|[k' v'] m IH]; cbn.
    - now rewrite N.eqb_refl.
    - destruct (N.eqb k' k) eqn:E; cbn; rewrite E; auto.
  Qed.

  Lemma get_put_neq k k' v m : k <> k' -> get k' (put k v m) = get k' m.
  Proof.
    intros Hn. induction m as [|[k0 v0] m IH]; cbn.
    - destruct (N.eqb k k') eqn:E; auto. apply N.eqb_eq in E. contradiction.
    - destruct (N.eqb k0 k) eqn:E; cbn.
      + apply N.eqb_eq in E. subst k0.
        destruct (N.eqb k k') eqn:E2; auto. apply N.eqb_eq in E2. contradiction.
      + destruct (N.eqb k0 k'); auto.
  Qed.

  Lemma keys_put_in k v m : In k (keys m) -> keys (put k v m) = keys m.
  Proof.
    induction m as [|[k0 v0] m IH]; cbn; [tauto|].
    intros H. destruct (N.eqb k0 k) eqn:E; cbn; auto.
    f_equal. apply IH. destruct H as [H|H]; auto.
    subst k0. rewrite N.eqb_refl in E. discriminate.
  Qed.

  Lemma keys_put_notin k v m : ~ In k (keys m) -> keys (put k v m) = keys m ++ [k].
  Proof.
    induction m as [|[k0 v0] m IH]; cbn; auto.
    intros H. destruct (N.eqb k0 k) eqn:E; cbn.
    - apply N.eqb_eq in E. tauto.
    - f_equal. apply IH. tauto.
  Qed.

  Lemma in_keys_put k v m x : In x (keys (put k v m)) <-> x = k \/ In x (keys m).
  Proof.
    destruct (in_dec N.eq_dec k (keys m)) as [H|H].
    - rewrite keys_put_in by auto. split; [auto|]. intros [->|]; auto.
    - rewrite keys_put_notin by auto. rewrite in_app_iff. cbn. intuition.
  Qed.

  Lemma nodup_keys_put k v m : NoDup (keys m) -> NoDup (keys (put k v m)).
  Proof.
    intros Hn. destruct (in_dec N.eq_dec k (keys m)) as [H|H].
    - now rewrite keys_put_in.
    - rewrite keys_put_notin by auto.
      apply NoDup_rev in Hn. rewrite <- (rev_involutive (keys m ++ [k])).
      apply NoDup_rev. rewrite rev_app_distr. cbn. constructor; auto.
      now rewrite <- in_rev.
  Qed.

  Lemma get_in_keys k m : In k (keys m) <-> exists v, get k m = Some v.
  Proof.
    induction m as [|[k0 v0] m IH]; cbn.
    - split; [tauto|]. intros [v H]. discriminate.
    - destruct (N.eqb k0 k) eqn:E.
      + apply N.eqb_eq in E. split; eauto.
      + rewrite <- IH. split; [intros [H|H]; auto|auto].
        subst k0. rewrite N.eqb_refl in E. discriminate.
  Qed.

  Lemma get_some_in k v m : get k m = Some v -> In (k, v) m.
  Proof.
    induction m as [|[k0 v0] m IH]; cbn; [discriminate|].
    destruct (N.eqb k0 k) eqn:E; intros H.
    - apply N.eqb_eq in E. inversion H. subst. auto.
    - auto.
  Qed.

  Lemma in_get_some k v m : NoDup (keys m) -> In (k, v) m -> get k m = Some v.
  Proof.
    induction m as [|[k0 v0] m IH]; cbn; [tauto|].
    intros Hn [H|H].
    - inversion H. subst. now rewrite N.eqb_refl.
    - inversion Hn as [|? ? Hni Hn']. subst.
      destruct (N.eqb k0 k) eqn:E.
      + apply N.eqb_eq in E. subst k0. exfalso. apply Hni.
        change k with (fst (k, v)). now apply in_map.
      + auto.
  Qed.
End AssocFacts.

Lemma in_remove_node n x l : In x (remove_node n l) <-> In x l /\ x <> n.
Proof.
  unfold remove_node. rewrite filter_In, negb_true_iff, N.eqb_neq. tauto.
Qed.

Lemma length_filter_le {A} (f : A -> bool) l : (length (filter f l) <= length l)%nat.
Proof. induction l as [|x l IH]; cbn; auto. destruct (f x); cbn; lia. Qed.

Lemma length_remove_node n l : In n l -> (S (length (remove_node n l)) <= length l)%nat.
Proof.
  unfold remove_node. induction l as [|x l IH]; cbn [filter length In]; [tauto|].
  pose proof (length_filter_le (fun x => negb (N.eqb x n)) l) as Hl.
  intros [H|H].
  - subst x. rewrite N.eqb_refl. cbn [negb]. apply le_n_S, Hl.
  - destruct (N.eqb x n); cbn [negb length]; apply le_n_S; [exact Hl|exact (IH H)].
Qed.

(* ------------------------------------------------------------------ NewTopology *)
Definition ew_of (m : list (node * list (node * Z))) (u v : node) : option Z :=
  match get u m with Some i => get v i | None => None end.

Lemma ew_of_add_edge m e u v :
  ew_of (add_edge m e) u v =
  if N.eqb (ea e) u && N.eqb (eb e) v then Some (ew e) else ew_of m u v.
Proof.
  unfold ew_of, add_edge.
  destruct (N.eqb (ea e) u) eqn:E1.
  - apply N.eqb_eq in E1. subst u. rewrite get_put_eq.
    destruct (N.eqb (eb e) v) eqn:E2; cbn [andb].
    + apply N.eqb_eq in E2. subst v. apply get_put_eq.
    + apply N.eqb_neq in E2. rewrite get_put_neq by auto. destruct (get (ea e) m); auto.
  - apply N.eqb_neq in E1. rewrite get_put_neq by auto. reflexivity.
Qed.

Lemma ew_of_fold es : forall m u v,
  ew_of (fold_left add_edge es m) u v =
  match last_weight es u v with Some w => Some w | None => ew_of m u v end.
Proof.
  induction es as [|e r IH]; intros m u v; cbn [fold_left last_weight]; auto.
  rewrite IH, ew_of_add_edge. destruct (last_weight r u v); auto.
  destruct (N.eqb (ea e) u && N.eqb (eb e) v); auto.
Qed.

Lemma tw_new_topology ns es u v : tw (new_topology ns es) u v = last_weight es u v.
Proof.
  unfold tw, new_topology. cbn [t_edges].
  change (ew_of (fold_left add_edge es []) u v = last_weight es u v).
  rewrite ew_of_fold. destruct (last_weight es u v); auto.
Qed.

Definition emap_ok (m : list (node * list (node * Z))) : Prop :=
  NoDup (keys m) /\ forall u i, get u m = Some i -> NoDup (keys i).

Lemma emap_ok_add_edge m e : emap_ok m -> emap_ok (add_edge m e).
Proof.
  intros [H1 H2]. unfold add_edge. split.
  - now apply nodup_keys_put.
  - intros u i. destruct (N.eq_dec (ea e) u) as [->|Hn].
    + rewrite get_put_eq. intros Hi. inversion Hi. subst i.
      apply nodup_keys_put. destruct (get u m) eqn:G; [eauto|constructor].
    + rewrite get_put_neq by auto. apply H2.
Qed.

Lemma emap_ok_fold es : forall m, emap_ok m -> emap_ok (fold_left add_edge es m).
Proof.
  induction es as [|e r IH]; intros m H; cbn [fold_left]; auto.
  apply IH, emap_ok_add_edge, H.
Qed.

Lemma emap_ok_new_topology ns es : emap_ok (t_edges (new_topology ns es)).
Proof.
  unfold new_topology. cbn [t_edges]. apply emap_ok_fold. split; [constructor|].
  intros u i H. discriminate.
Qed.

Lemma nodes_fold ns : forall (m : list (node * Z)),
  NoDup (keys m) ->
  let m' := fold_left (fun m n => put n (-1) m) ns m in
  NoDup (keys m') /\ (forall x, In x (keys m') <-> In x ns \/ In x (keys m)) /\
  (length (keys m') <= length ns + length (keys m))%nat.
Proof.
  induction ns as [|n r IH]; intros m Hn; cbn [fold_left].
  - cbn. repeat split; auto; tauto.
  - specialize (IH (put n (-1) m) (nodup_keys_put n (-1) m Hn)).
    cbn zeta in IH. destruct IH as (I1 & I2 & I3). repeat split; auto.
    + intros H. apply I2 in H. rewrite in_keys_put in H. cbn. intuition.
    + intros H. apply I2. rewrite in_keys_put. cbn in H. intuition.
    + assert (length (keys (put n (-1)%Z m)) <= S (length (keys m)))%nat.
      { destruct (in_dec N.eq_dec n (keys m)) as [Hi|Hi].
        - rewrite keys_put_in by auto. lia.
        - rewrite keys_put_notin by auto. rewrite app_length. cbn. lia. }
      cbn [length]. lia.
Qed.

Lemma nodes_new_topology ns es :
  let K := keys (t_nodes (new_topology ns es)) in
  NoDup K /\ (forall x, In x K <-> In x ns) /\ (length K <= length ns)%nat.
Proof.
  unfold new_topology. cbn [t_nodes].
  destruct (nodes_fold ns [] (NoDup_nil _)) as (H1 & H2 & H3). cbn zeta in *.
  repeat split; auto.
  - intros H. apply H2 in H. cbn in H. tauto.
  - intros H. apply H2. auto.
  - cbn in H3. lia.
Qed.

Lemma last_weight_in es u v w :
  last_weight es u v = Some w -> exists e, In e es /\ ea e = u /\ eb e = v /\ ew e = w.
Proof.
  induction es as [|e r IH]; cbn [last_weight]; [discriminate|].
  destruct (last_weight r u v) eqn:L.
  - intros H. inversion H. subst. destruct IH as (e' & ? & ?); auto. exists e'. cbn. auto.
  - destruct (N.eqb (ea e) u && N.eqb (eb e) v) eqn:E; [|discriminate].
    apply andb_true_iff in E. destruct E as [E1 E2]. apply N.eqb_eq in E1, E2.
    intros H. inversion H. exists e. cbn. auto.
Qed.

(* ------------------------------------------------------------------ paths *)
(* every edge of g joins nodes of K and has a weight in 0..W *)
Definition gbound (g : graph) (K : list node) (W : Z) : Prop :=
  forall u v w, g u v = Some w -> In u K /\ In v K /\ 0 <= w <= W.

Lemma weight_app p q : weight (p ++ q) = weight p + weight q.
Proof. induction p as [|e p IH]; cbn [app weight]; lia. Qed.

Lemma is_path_app g s t u p q : is_path g s t p -> is_path g t u q -> is_path g s u (p ++ q).
Proof.
  revert s. induction p as [|e p IH]; intros s; cbn [app is_path].
  - intros ->. auto.
  - intros (H1 & H2 & H3) Hq. repeat split; auto.
Qed.

Lemma is_path_snoc g s t v w p :
  is_path g s t p -> g t v = Some w -> is_path g s v (p ++ [mkE t v w]).
Proof.
  intros Hp Hg. eapply is_path_app; eauto. cbn. auto.
Qed.

Lemma path_weight_bounds g K W s t p :
  gbound g K W -> is_path g s t p -> 0 <= weight p <= Z.of_nat (length p) * W.
Proof.
  intros Hb. revert s. induction p as [|e p IH]; intros s; cbn [is_path weight length].
  - lia.
  - intros (H1 & H2 & H3). apply IH in H3. apply Hb in H2. lia.
Qed.

Lemma path_end_in g K W s t p : gbound g K W -> is_path g s t p -> In s K -> In t K.
Proof.
  intros Hb. revert s. induction p as [|e p IH]; intros s; cbn [is_path].
  - intros ->. auto.
  - intros (H1 & H2 & H3) Hs. apply Hb in H2. eapply IH; eauto. tauto.
Qed.

(* a path from outside U into U crosses the border somewhere *)
Lemma path_crossing g K W (U : list node) : gbound g K W ->
  forall p s t, is_path g s t p -> ~ In s U -> In t U ->
  exists p1 e p2, p = p1 ++ e :: p2 /\ is_path g s (ea e) p1 /\ ~ In (ea e) U /\ In (eb e) U /\
                  g (ea e) (eb e) = Some (ew e) /\ 0 <= weight p2.
Proof.
  intros Hb. induction p as [|e p IH]; intros s t; cbn [is_path].
  - intros ->. tauto.
  - intros (H1 & H2 & H3) Hs Ht.
    destruct (in_dec N.eq_dec (eb e) U) as [Hi|Hi].
    + exists [], e, p. cbn [app is_path]. subst s. repeat split; auto.
      eapply path_weight_bounds in H3; eauto. lia.
    + destruct (IH _ _ H3 Hi Ht) as (p1 & e' & p2 & E & P1 & N1 & I1 & G1 & W1).
      exists (e :: p1), e', p2. subst p. cbn [app is_path]. repeat split; auto.
Qed.

Lemma is_path_b_spec g s t p : is_path_b g s t p = true <-> is_path g s t p.
Proof.
  revert s. induction p as [|e p IH]; intros s; cbn [is_path_b is_path].
  - apply N.eqb_eq.
  - rewrite !andb_true_iff, N.eqb_eq, IH. unfold opt_eqb.
    destruct (g (ea e) (eb e)) as [x|].
    + rewrite Z.eqb_eq. intuition congruence.
    + intuition discriminate.
Qed.

(* ------------------------------------------------------------------ int64 *)
Lemma add64_small a b : 0 <= a + b < two63 -> add64 a b = a + b.
Proof.
  intros H. unfold add64, wrap64. rewrite Z.mod_small; unfold two63 in *; lia.
Qed.

(* ------------------------------------------------------------------ reading the SPT map *)
Definition dist (spt : list (node * path)) (v : node) : Z := pdist (spt_get spt v).
Definition pth (spt : list (node * path)) (v : node) : list edge := pedges (spt_get spt v).

Lemma spt_get_put spt v r x :
  spt_get (put v r spt) x = if N.eqb x v then r else spt_get spt x.
Proof.
  unfold spt_get. destruct (N.eqb x v) eqn:E.
  - apply N.eqb_eq in E. subst x. now rewrite get_put_eq.
  - apply N.eqb_neq in E. rewrite get_put_neq by auto. reflexivity.
Qed.

Lemma relax1_eq from spt v w :
  relax1 from spt (v, w) =
  if (dist spt v =? -1) || (add64 (dist spt from) w <? dist spt v)
  then put v (mkP (pth spt from ++ [mkE from v w]) (add64 (dist spt from) w)) spt
  else spt.
Proof.
  unfold relax1, dist, pth. cbn [fst snd].
  destruct (pdist (spt_get spt v) =? -1); cbn [orb]; auto.
Qed.

Lemma select_spec spt : forall cands next nd,
  match next with Some a => nd = dist spt a /\ dist spt a <> -1 | None => True end ->
  match select spt cands next nd with
  | None => next = None /\ forall c, In c cands -> dist spt c = -1
  | Some nx => (In nx cands \/ next = Some nx) /\ dist spt nx <> -1 /\
               (forall c, In c cands -> dist spt c <> -1 -> dist spt nx <= dist spt c) /\
               (forall a, next = Some a -> dist spt nx <= dist spt a)
  end.
Proof.
  induction cands as [|c r IH]; intros next nd Hn; cbn [select].
  - destruct next as [a|]; [|split; auto; intros c []].
    destruct Hn as [-> Hn]. repeat split; auto.
    + intros c [].
    + intros a' E. inversion E. lia.
  - fold (dist spt c). destruct (dist spt c =? -1) eqn:E1.
    + apply Z.eqb_eq in E1. specialize (IH next nd Hn).
      destruct (select spt r next nd) as [nx|].
      * destruct IH as (A & B & C & D). repeat split; auto.
        -- destruct A; auto. left. right. auto.
        -- intros c' [<-|Hc] Hd; [contradiction|auto].
      * destruct IH as (A & B). split; auto. intros c' [<-|Hc]; auto.
    + apply Z.eqb_neq in E1. destruct next as [a|].
      * destruct Hn as [-> Hn]. destruct (dist spt c <? dist spt a) eqn:E2.
        -- apply Z.ltb_lt in E2. specialize (IH (Some c) (dist spt c) (conj eq_refl E1)).
           destruct (select spt r (Some c) (dist spt c)) as [nx|].
           ++ destruct IH as (A & B & C & D). specialize (D c eq_refl). repeat split; auto.
              ** destruct A as [A|A]; [left; right; auto|]. inversion A. left. left. auto.
              ** intros c' [<-|Hc] Hd; auto.
              ** intros a' E. inversion E. subst a'. lia.
           ++ destruct IH as (A & _). discriminate.
        -- apply Z.ltb_ge in E2. specialize (IH (Some a) (dist spt a) (conj eq_refl Hn)).
           destruct (select spt r (Some a) (dist spt a)) as [nx|].
           ++ destruct IH as (A & B & C & D). specialize (D a eq_refl). repeat split; auto.
              ** destruct A as [A|A]; [left; right; auto|auto].
              ** intros c' [<-|Hc] Hd; auto. lia.
              ** intros a' E. inversion E. subst a'. lia.
           ++ destruct IH as (A & _). discriminate.
      * specialize (IH (Some c) (dist spt c) (conj eq_refl E1)).
        destruct (select spt r (Some c) (dist spt c)) as [nx|].
        -- destruct IH as (A & B & C & D). specialize (D c eq_refl). repeat split; auto.
           ++ destruct A as [A|A]; [left; right; auto|]. inversion A. left. left. auto.
           ++ intros c' [<-|Hc] Hd; auto.
           ++ intros a' E. discriminate.
        -- destruct IH as (A & _). discriminate.
Qed.

(* ------------------------------------------------------------------ the invariant *)
Section Core.
  Context (g : graph) (K : list node) (W : Z) (src : node).
  Context (Hb : gbound g K W).
  Context (HW : Z.of_nat (length K) * W < two63).
  Context (HsrcK : In src K).

  (* L: number of completed iterations; U: unmarked; from: current node (marked, its
     out-edges not yet relaxed) *)
  Record inv (L : nat) (U : list node) (from : node) (spt : list (node * path)) : Prop := {
    i_keys : keys spt = K;
    i_fromK : In from K;
    i_fromU : ~ In from U;
    i_src : ~ In src U;
    i_sub : forall u, In u U -> In u K;
    i_L : (S (L + length U) <= length K)%nat;
    i_path : forall v, In v K -> dist spt v <> -1 ->
      is_path g src v (pth spt v) /\ dist spt v = weight (pth spt v) /\
      (length (pth spt v) <= S L)%nat;
    i_fromL : (length (pth spt from) <= L)%nat;
    i_zero : forall v, In v K -> dist spt v = -1 -> pth spt v = [];
    i_marked : forall v, In v K -> ~ In v U ->
      dist spt v <> -1 /\ dist spt v <= dist spt from /\
      (forall q, is_path g src v q -> dist spt v <= weight q);
    i_front : forall u, In u U -> dist spt u <> -1 -> dist spt from <= dist spt u;
    i_closed : forall x, In x K -> ~ In x U -> x <> from ->
      forall v w, g x v = Some w -> dist spt v <> -1 /\ dist spt v <= dist spt x + w;
    i_tree : forall v q e, In v K -> pth spt v = q ++ [e] ->
      eb e = v /\ In (ea e) K /\ ~ In (ea e) U /\ pth spt (ea e) = q
  }.

  (* the distance of the current node, and one more edge, fit into int64 *)
  Lemma from_bounds L U from spt v w :
    inv L U from spt -> g from v = Some w ->
    0 <= dist spt from /\ 0 <= w /\ dist spt from + w < two63.
  Proof.
    intros I Hg. destruct (Hb _ _ _ Hg) as (_ & _ & Hw).
    destruct (i_marked _ _ _ _ I from (i_fromK _ _ _ _ I) (i_fromU _ _ _ _ I)) as (Hf & _ & _).
    destruct (i_path _ _ _ _ I from (i_fromK _ _ _ _ I) Hf) as (Hp & Hd & _).
    pose proof (path_weight_bounds _ _ _ _ _ _ Hb Hp) as Hpw.
    pose proof (i_fromL _ _ _ _ I) as HL. pose proof (i_L _ _ _ _ I) as HL2.
    rewrite Hd. repeat split; try lia.
    assert (Z.of_nat (length (pth spt from)) * W + W <= Z.of_nat (length K) * W) by nia.
    lia.
  Qed.

  Lemma relax1_step L U from spt v w :
    inv L U from spt -> g from v = Some w ->
    let spt' := relax1 from spt (v, w) in
    inv L U from spt' /\ spt_get spt' from = spt_get spt from /\
    (forall x, dist spt x <> -1 -> dist spt' x <> -1 /\ dist spt' x <= dist spt x) /\
    dist spt' v <> -1 /\ dist spt' v <= dist spt from + w.
  Proof.
    intros I Hg. cbn zeta. rewrite relax1_eq.
    destruct (from_bounds _ _ _ _ _ _ I Hg) as (Hf0 & Hw0 & Hov).
    rewrite add64_small by lia.
    destruct (Hb _ _ _ Hg) as (_ & HvK & _).
    destruct ((dist spt v =? -1) || (dist spt from + w <? dist spt v)) eqn:C.
    2:{ apply orb_false_iff in C. destruct C as [C1 C2].
        apply Z.eqb_neq in C1. apply Z.ltb_ge in C2.
        split; [exact I|]. split; [reflexivity|]. split; [intros x Hx; split; auto; lia|].
        split; [auto|lia]. }
    (* the entry of v is overwritten; v is unmarked *)
    assert (HvU : In v U).
    { destruct (in_dec N.eq_dec v U) as [Hi|Hi]; auto. exfalso.
      destruct (i_marked _ _ _ _ I v HvK Hi) as (M1 & M2 & _).
      apply orb_true_iff in C. destruct C as [C|C].
      - apply Z.eqb_eq in C. contradiction.
      - apply Z.ltb_lt in C. lia. }
    assert (Hvf : v <> from).
    { intros ->. exact (i_fromU _ _ _ _ I HvU). }
    set (nf := mkP (pth spt from ++ [mkE from v w]) (dist spt from + w)).
    assert (G : forall x, spt_get (put v nf spt) x = if N.eqb x v then nf else spt_get spt x)
      by (intros x; apply spt_get_put).
    assert (Gd : forall x, x <> v -> dist (put v nf spt) x = dist spt x).
    { intros x Hx. unfold dist. rewrite G. apply N.eqb_neq in Hx. now rewrite Hx. }
    assert (Gp : forall x, x <> v -> pth (put v nf spt) x = pth spt x).
    { intros x Hx. unfold pth. rewrite G. apply N.eqb_neq in Hx. now rewrite Hx. }
    assert (Gdv : dist (put v nf spt) v = dist spt from + w).
    { unfold dist. rewrite G, N.eqb_refl. reflexivity. }
    assert (Gpv : pth (put v nf spt) v = pth spt from ++ [mkE from v w]).
    { unfold pth. rewrite G, N.eqb_refl. reflexivity. }
    assert (Gfrom : spt_get (put v nf spt) from = spt_get spt from).
    { rewrite G. apply N.eqb_neq in Hvf. rewrite N.eqb_sym in Hvf. now rewrite Hvf. }
    assert (NU : forall x, ~ In x U -> x <> v) by (intros x Hx ->; auto).
    destruct (i_marked _ _ _ _ I from (i_fromK _ _ _ _ I) (i_fromU _ _ _ _ I)) as (Hfin & _ & _).
    destruct (i_path _ _ _ _ I from (i_fromK _ _ _ _ I) Hfin) as (Hpf & Hdf & _).
    split; [|split; [exact Gfrom|split; [|split]]].
    - constructor.
      + rewrite keys_put_in; [apply (i_keys _ _ _ _ I)|]. now rewrite (i_keys _ _ _ _ I).
      + apply (i_fromK _ _ _ _ I).
      + apply (i_fromU _ _ _ _ I).
      + apply (i_src _ _ _ _ I).
      + apply (i_sub _ _ _ _ I).
      + apply (i_L _ _ _ _ I).
      + intros x HxK. destruct (N.eq_dec x v) as [->|Hx].
        * intros _. rewrite Gdv, Gpv. split; [|split].
          -- apply is_path_snoc; auto.
          -- rewrite weight_app. cbn [weight ew]. lia.
          -- rewrite app_length. cbn [length]. pose proof (i_fromL _ _ _ _ I). lia.
        * rewrite Gd, Gp by auto. apply (i_path _ _ _ _ I x HxK).
      + rewrite Gp by auto. apply (i_fromL _ _ _ _ I).
      + intros x HxK. destruct (N.eq_dec x v) as [->|Hx].
        * rewrite Gdv. lia.
        * rewrite Gd, Gp by auto. apply (i_zero _ _ _ _ I x HxK).
      + intros x HxK HxU. rewrite (Gd x) by auto. rewrite (Gd from) by auto.
        apply (i_marked _ _ _ _ I x HxK HxU).
      + intros u HuU. rewrite (Gd from) by auto. destruct (N.eq_dec u v) as [->|Hx].
        * rewrite Gdv. lia.
        * rewrite Gd by auto. apply (i_front _ _ _ _ I u HuU).
      + intros x HxK HxU Hxf y wy Hgy. rewrite (Gd x) by auto.
        destruct (i_closed _ _ _ _ I x HxK HxU Hxf y wy Hgy) as (C1 & C2).
        destruct (N.eq_dec y v) as [->|Hy].
        * rewrite Gdv. apply orb_true_iff in C. destruct C as [C|C].
          -- apply Z.eqb_eq in C. contradiction.
          -- apply Z.ltb_lt in C. lia.
        * rewrite Gd by auto. auto.
      + intros x q e HxK. destruct (N.eq_dec x v) as [->|Hx].
        * rewrite Gpv. intros E. apply app_inj_tail in E. destruct E as [<- <-]. cbn [ea eb].
          repeat split; auto.
          -- apply (i_fromK _ _ _ _ I).
          -- apply (i_fromU _ _ _ _ I).
        * rewrite Gp by auto. intros E.
          destruct (i_tree _ _ _ _ I x q e HxK E) as (T1 & T2 & T3 & T4).
          repeat split; auto. rewrite Gp by auto. exact T4.
    - intros x Hx. destruct (N.eq_dec x v) as [->|Hxv].
      + rewrite Gdv. split; [lia|]. apply orb_true_iff in C. destruct C as [C|C].
        * apply Z.eqb_eq in C. contradiction.
        * apply Z.ltb_lt in C. lia.
      + rewrite Gd by auto. split; auto; lia.
    - rewrite Gdv. lia.
    - rewrite Gdv. lia.
  Qed.

  Lemma relax_fold L U from : forall l spt,
    inv L U from spt -> (forall v w, In (v, w) l -> g from v = Some w) ->
    let spt' := fold_left (relax1 from) l spt in
    inv L U from spt' /\ spt_get spt' from = spt_get spt from /\
    (forall x, dist spt x <> -1 -> dist spt' x <> -1 /\ dist spt' x <= dist spt x) /\
    (forall v w, In (v, w) l -> dist spt' v <> -1 /\ dist spt' v <= dist spt from + w).
  Proof.
    induction l as [|[v w] l IH]; intros spt I Hl; cbn [fold_left].
    - split; [exact I|]. split; [reflexivity|]. split; [intros x Hx; split; auto; lia|].
      intros v w [].
    - assert (Hg : g from v = Some w) by (apply Hl; left; auto).
      destruct (relax1_step _ _ _ _ _ _ I Hg) as (I1 & F1 & M1 & P1 & P2). cbn zeta in *.
      assert (Hl' : forall v' w', In (v', w') l -> g from v' = Some w') by (intros; apply Hl; right; auto).
      destruct (IH _ I1 Hl') as (I2 & F2 & M2 & P3). cbn zeta in *.
      assert (Fd : dist (relax1 from spt (v, w)) from = dist spt from) by (unfold dist; now rewrite F1).
      split; [exact I2|split; [congruence|split]].
      + intros x Hx. destruct (M1 x Hx) as (A1 & A2). destruct (M2 x A1) as (B1 & B2).
        split; auto; lia.
      + intros v' w' [E|Hin].
        * inversion E. subst v' w'. destruct (M2 v P1) as (B1 & B2). split; auto; lia.
        * destruct (P3 v' w' Hin) as (B1 & B2). rewrite Fd in B2. auto.
  Qed.

End Core.

(* ------------------------------------------------------------------ the main loop *)
Section Loop.
  Context (g : graph) (K : list node) (W : Z) (src : node).
  Context (Hb : gbound g K W).
  Context (HW : Z.of_nat (length K) * W < two63).
  Context (HsrcK : In src K).
  Context (t : topology) (o : oracle).
  Context (Htw : forall u v, tw t u v = g u v).
  Context (Hem : emap_ok (t_edges t)).
  Context (Ho : oracle_ok o).

  Definition final (spt : list (node * path)) : Prop :=
    keys spt = K /\
    (forall v, In v K -> node_result_ok g src v (spt_get spt v)) /\
    (forall v q e, In v K -> pth spt v = q ++ [e] -> eb e = v /\ In (ea e) K /\ pth spt (ea e) = q).

  (* after relaxing the out-edges of the current node, every marked node is closed *)
  Definition closed_all (U : list node) (spt : list (node * path)) : Prop :=
    forall x, In x K -> ~ In x U -> forall v w, g x v = Some w ->
      dist spt v <> -1 /\ dist spt v <= dist spt x + w.

  Lemma crossing_bound L U from spt q v :
    inv g K src L U from spt -> closed_all U spt ->
    is_path g src v q -> In v U ->
    exists y, In y U /\ dist spt y <> -1 /\ dist spt y <= weight q.
  Proof.
    intros I Hc Hq HvU.
    destruct (path_crossing g K W U Hb q src v Hq (i_src _ _ _ _ _ _ _ I) HvU)
      as (p1 & e & p2 & E & P1 & N1 & I1 & G1 & W1).
    destruct (Hb _ _ _ G1) as (HxK & _ & _).
    destruct (i_marked _ _ _ _ _ _ _ I (ea e) HxK N1) as (_ & _ & Hmin).
    specialize (Hmin p1 P1).
    destruct (Hc (ea e) HxK N1 _ _ G1) as (C1 & C2).
    exists (eb e). split; [auto|split; [auto|]].
    subst q. rewrite weight_app. cbn [weight]. lia.
  Qed.

  Lemma marked_result_ok L U from spt v :
    inv g K src L U from spt -> In v K -> ~ In v U -> node_result_ok g src v (spt_get spt v).
  Proof.
    intros I HvK HvU. left.
    destruct (i_marked _ _ _ _ _ _ _ I v HvK HvU) as (M1 & _ & M3).
    destruct (i_path _ _ _ _ _ _ _ I v HvK M1) as (P1 & P2 & _).
    unfold dist, pth in *. repeat split; auto.
    intros q Hq. rewrite <- P2. auto.
  Qed.

  Context (guard : bool).

  (* guard = true (repaired code): Ok.  guard = false (code as found): Ok if every node is
     reachable, Panic otherwise. *)
  Definition loop_res (out : outcome) (spt' : list (node * path)) : Prop :=
    (out = Ok spt' /\ (guard = false -> forall v, In v K -> reachable g src v)) \/
    (guard = false /\ out = Panic /\ exists v, In v K /\ ~ reachable g src v).

  Lemma all_marked_final L from spt :
    inv g K src L [] from spt -> final spt /\ forall v, In v K -> reachable g src v.
  Proof.
    intros I. split; [split; [apply (i_keys _ _ _ _ _ _ _ I)|split]|].
    - intros v HvK. eapply marked_result_ok; eauto.
    - intros v q e HvK E. destruct (i_tree _ _ _ _ _ _ _ I v q e HvK E) as (T1 & T2 & _ & T4). auto.
    - intros v HvK. destruct (i_marked _ _ _ _ _ _ _ I v HvK (fun H => H)) as (M1 & _ & _).
      destruct (i_path _ _ _ _ _ _ _ I v HvK M1) as (P1 & _). eexists; eauto.
  Qed.

  Lemma loop_ok : forall fuel k L U from spt,
    inv g K src L U from spt -> (length U <= fuel)%nat ->
    exists spt', final spt' /\ loop_res (loop guard o t fuel k spt from U) spt'.
  Proof.
    induction fuel as [|fuel IH]; intros k L U from spt I Hfuel.
    - destruct U as [|u0 U]; [|cbn in Hfuel; lia].
      destruct (all_marked_final _ _ _ I) as (A & B).
      exists spt. split; [exact A|]. left. split; [reflexivity|auto].
    - destruct U as [|u0 U0] eqn:EU.
      { destruct (all_marked_final _ _ _ I) as (A & B).
        exists spt. split; [exact A|]. left. split; [reflexivity|auto]. }
      rewrite <- EU in *. assert (Hu0 : In u0 U) by (rewrite EU; left; auto).
      assert (Hunf : loop guard o t (S fuel) k spt from U =
        let out := match get from (t_edges t) with Some i => i | None => [] end in
        let spt' := fold_left (relax1 from) (ord_edges o k out) spt in
        match select spt' (ord_nodes o k U) None 0 with
        | None => if guard then Ok spt' else Panic
        | Some nx => loop guard o t fuel (S k) spt' nx (remove_node nx U)
        end).
      { rewrite EU. reflexivity. }
      rewrite Hunf. clear Hunf. cbn zeta.
      set (out := match get from (t_edges t) with Some i => i | None => [] end).
      destruct Ho as [Hoe Hon].
      assert (Hout1 : forall v w, In (v, w) (ord_edges o k out) -> g from v = Some w).
      { intros v w Hin. apply (Permutation_in _ (Hoe k out)) in Hin.
        rewrite <- Htw. unfold tw. subst out.
        destruct (get from (t_edges t)) as [i|] eqn:G; [|destruct Hin].
        apply in_get_some; auto. destruct Hem as [_ He]. eauto. }
      assert (Hout2 : forall v w, g from v = Some w -> In (v, w) (ord_edges o k out)).
      { intros v w Hg. apply (Permutation_in _ (Permutation_sym (Hoe k out))).
        rewrite <- Htw in Hg. unfold tw in Hg. subst out.
        destruct (get from (t_edges t)) as [i|] eqn:G; [|discriminate].
        now apply get_some_in. }
      destruct (relax_fold g K W src Hb HW L U from _ spt I Hout1) as (I1 & F1 & M1 & P1).
      cbn zeta in *. set (spt1 := fold_left (relax1 from) (ord_edges o k out) spt) in *.
      assert (Fd : dist spt1 from = dist spt from) by (unfold dist; now rewrite F1).
      assert (Hc : closed_all U spt1).
      { intros x HxK HxU v w Hg. destruct (N.eq_dec x from) as [->|Hxf].
        - rewrite Fd. apply P1. auto.
        - apply (i_closed _ _ _ _ _ _ _ I1 x HxK HxU Hxf v w Hg). }
      pose proof (select_spec spt1 (ord_nodes o k U) None 0 Logic.I) as Hsel.
      assert (HinU : forall c, In c (ord_nodes o k U) <-> In c U).
      { intros c. split; intros H.
        - apply (Permutation_in _ (Hon k U)); auto.
        - apply (Permutation_in _ (Permutation_sym (Hon k U))); auto. }
      destruct (select spt1 (ord_nodes o k U) None 0) as [nx|].
      + (* next iteration *)
        destruct Hsel as (S1 & S2 & S3 & _).
        assert (HnxU : In nx U) by (destruct S1 as [S1|S1]; [now apply HinU|discriminate]).
        assert (HnxK : In nx K) by (apply (i_sub _ _ _ _ _ _ _ I1); auto).
        pose proof (length_remove_node nx U HnxU) as Hlen.
        apply (IH (S k) (S L)).
        2:{ lia. }
        constructor.
        * apply (i_keys _ _ _ _ _ _ _ I1).
        * exact HnxK.
        * rewrite in_remove_node. tauto.
        * rewrite in_remove_node. intros [H _]. exact (i_src _ _ _ _ _ _ _ I1 H).
        * intros u Hu. apply in_remove_node in Hu. apply (i_sub _ _ _ _ _ _ _ I1). tauto.
        * pose proof (i_L _ _ _ _ _ _ _ I1). lia.
        * intros v HvK Hd. destruct (i_path _ _ _ _ _ _ _ I1 v HvK Hd) as (A & B & C).
          repeat split; auto.
        * destruct (i_path _ _ _ _ _ _ _ I1 nx HnxK S2) as (_ & _ & C). exact C.
        * apply (i_zero _ _ _ _ _ _ _ I1).
        * intros v HvK HvU. rewrite in_remove_node in HvU.
          destruct (in_dec N.eq_dec v U) as [Hi|Hi].
          -- assert (v = nx) by (destruct (N.eq_dec v nx); auto; tauto). subst v.
             split; [auto|split; [lia|]]. intros q Hq.
             destruct (crossing_bound _ _ _ _ q nx I1 Hc Hq HnxU) as (y & Y1 & Y2 & Y3).
             assert (dist spt1 nx <= dist spt1 y) by (apply S3; auto; now apply HinU). lia.
          -- destruct (i_marked _ _ _ _ _ _ _ I1 v HvK Hi) as (A & B & C).
             split; [auto|split; [|auto]].
             pose proof (i_front _ _ _ _ _ _ _ I1 nx HnxU S2). lia.
        * intros u Hu Hd. apply in_remove_node in Hu. apply S3; auto. apply HinU. tauto.
        * intros x HxK HxU Hxn. rewrite in_remove_node in HxU.
          apply Hc; auto; tauto.
        * intros v q e HvK E. destruct (i_tree _ _ _ _ _ _ _ I1 v q e HvK E) as (T1 & T2 & T3 & T4).
          repeat split; auto. rewrite in_remove_node. tauto.
      + (* all remaining nodes are unreachable: break (as found: nil dereference) *)
        destruct Hsel as (_ & S1).
        assert (Hunr : forall v, In v U -> ~ reachable g src v).
        { intros v Hi [q Hq].
          destruct (crossing_bound _ _ _ _ q v I1 Hc Hq Hi) as (y & Y1 & Y2 & _).
          apply Y2. apply S1. now apply HinU. }
        exists spt1. split.
        * split; [apply (i_keys _ _ _ _ _ _ _ I1)|split].
          -- intros v HvK. destruct (in_dec N.eq_dec v U) as [Hi|Hi].
             ++ right. assert (Hd : dist spt1 v = -1) by (apply S1; now apply HinU).
                split; [auto|split; [exact Hd|apply (i_zero _ _ _ _ _ _ _ I1 v HvK Hd)]].
             ++ eapply marked_result_ok; eauto.
          -- intros v q e HvK E.
             destruct (i_tree _ _ _ _ _ _ _ I1 v q e HvK E) as (T1 & T2 & _ & T4). auto.
        * assert (guard = true \/ guard = false) as [EG|EG] by (destruct guard; auto);
            rewrite EG.
          -- left. split; [reflexivity|intros H; congruence].
          -- right. split; [exact EG|split; [reflexivity|]]. exists u0.
             split; [apply (i_sub _ _ _ _ _ _ _ I1); auto|auto].
  Qed.
End Loop.

(* ------------------------------------------------------------------ the initial state *)
Lemma keys_new_spt t : keys (new_spt t) = keys (t_nodes t).
Proof.
  unfold new_spt, keys. rewrite map_map. cbn [fst]. reflexivity.
Qed.

Lemma get_new_spt t x : In x (keys (t_nodes t)) -> get x (new_spt t) = Some (mkP [] (-1)).
Proof.
  unfold new_spt, keys. induction (t_nodes t) as [|[k v] m IH]; cbn [map fst In get]; [tauto|].
  intros H. destruct (N.eqb k x) eqn:E; auto.
  apply IH. destruct H as [H|H]; auto. subst k. rewrite N.eqb_refl in E. discriminate.
Qed.

Lemma init_inv g K W src t :
  gbound g K W -> keys (t_nodes t) = K -> In src K ->
  inv g K src 0 (remove_node src K) src
      (put src (mkP (pedges (spt_get (new_spt t) src)) 0) (new_spt t)).
Proof.
  intros Hb HK Hs.
  set (spt0 := put src (mkP (pedges (spt_get (new_spt t) src)) 0) (new_spt t)).
  assert (G0 : forall x, In x K -> spt_get (new_spt t) x = mkP [] (-1)).
  { intros x Hx. unfold spt_get. rewrite get_new_spt; auto. now rewrite HK. }
  assert (Gs : spt_get spt0 src = mkP [] 0).
  { unfold spt0. rewrite spt_get_put, N.eqb_refl, G0 by auto. reflexivity. }
  assert (Gx : forall x, In x K -> x <> src -> spt_get spt0 x = mkP [] (-1)).
  { intros x Hx Hn. unfold spt0. rewrite spt_get_put. apply N.eqb_neq in Hn. rewrite Hn. auto. }
  assert (Hall : forall x, In x K -> pth spt0 x = [] /\ (dist spt0 x = -1 <-> x <> src)).
  { intros x Hx. unfold pth, dist. destruct (N.eq_dec x src) as [->|Hn].
    - rewrite Gs. cbn. split; auto. split; [discriminate|tauto].
    - rewrite Gx by auto. cbn. tauto. }
  assert (Hm : forall x, In x K -> ~ In x (remove_node src K) -> x = src).
  { intros x Hx Hn. rewrite in_remove_node in Hn. destruct (N.eq_dec x src); auto. tauto. }
  assert (Hds : dist spt0 src = 0) by (unfold dist; now rewrite Gs).
  constructor.
  - unfold spt0. rewrite keys_put_in; rewrite keys_new_spt, HK; auto.
  - auto.
  - rewrite in_remove_node. tauto.
  - rewrite in_remove_node. tauto.
  - intros u Hu. apply in_remove_node in Hu. tauto.
  - pose proof (length_remove_node src K Hs). lia.
  - intros v HvK Hd. destruct (Hall v HvK) as (A & B).
    assert (v = src) by (destruct (N.eq_dec v src); auto; tauto). subst v.
    rewrite A, Hds. cbn. auto.
  - destruct (Hall src Hs) as (A & _). rewrite A. cbn. lia.
  - intros v HvK _. apply (Hall v HvK).
  - intros v HvK HvU. apply Hm in HvU; auto. subst v. rewrite Hds.
    split; [lia|split; [lia|]]. intros q Hq.
    pose proof (path_weight_bounds _ _ _ _ _ _ Hb Hq). lia.
  - intros u Hu Hd. apply in_remove_node in Hu. destruct (Hall u (proj1 Hu)) as (_ & B). tauto.
  - intros x HxK HxU Hxs. apply Hm in HxU; auto. contradiction.
  - intros v q e HvK E. destruct (Hall v HvK) as (A & _). rewrite A in E.
    destruct q; discriminate.
Qed.

(* ------------------------------------------------------------------ main theorems *)
Lemma spt_get_of_get (spt : list (node * path)) v r : get v spt = Some r -> spt_get spt v = r.
Proof. unfold spt_get. now intros ->. Qed.

(* what the result map must look like *)
Definition result_ok (nodes : list node) (es : list edge) (src : node) (spt : list (node * path)) : Prop :=
  NoDup (keys spt) /\ (forall v, In v (keys spt) <-> In v nodes) /\
  (forall v r, get v spt = Some r -> node_result_ok (graph_of es) src v r) /\
  tree_ok spt.

Lemma run_general : forall guard nodes es W src o,
  in_domain nodes es W -> no_overflow nodes W -> In src nodes -> oracle_ok o ->
  (exists spt, run guard o nodes es src = Ok spt /\ result_ok nodes es src spt /\
     (guard = false -> forall v, In v nodes -> reachable (graph_of es) src v)) \/
  (guard = false /\ run guard o nodes es src = Panic /\
     exists v, In v nodes /\ ~ reachable (graph_of es) src v).
Proof.
  intros guard nodes es W src o Hdom Hov Hsrc Ho.
  set (t := new_topology nodes es). set (K := keys (t_nodes t)). set (g := graph_of es).
  destruct (nodes_new_topology nodes es) as (HK1 & HK2 & HK3). fold t K in HK1, HK2, HK3.
  assert (Hb : gbound g K W).
  { intros u v w Hg. apply last_weight_in in Hg. destruct Hg as (e & He & <- & <- & <-).
    destruct (Hdom e He) as (A & B & C). repeat split; try apply HK2; auto; lia. }
  assert (HW : Z.of_nat (length K) * W < two63).
  { unfold no_overflow in Hov. assert (0 < two63) by (unfold two63; lia).
    destruct (Z_lt_le_dec W 0); nia. }
  assert (HsK : In src K) by (apply HK2; auto).
  assert (Htw : forall u v, tw t u v = g u v) by (intros; apply tw_new_topology).
  pose proof (emap_ok_new_topology nodes es) as Hem. fold t in Hem.
  pose proof (init_inv g K W src t Hb eq_refl HsK) as I0.
  destruct (loop_ok g K W src Hb HW t o Htw Hem Ho guard
              (length (remove_node src K)) 0%nat 0%nat _ _ _ I0 (le_n _))
    as (spt & (Hk & Hres & Htree) & [(Hrun & Hall)|(EG & Hrun & v & HvK & Hv)]).
  - left. exists spt. split; [exact Hrun|]. split.
    + unfold result_ok. rewrite Hk. split; [exact HK1|]. split; [exact HK2|]. split.
      * intros v r Hget. rewrite <- (spt_get_of_get _ _ _ Hget). apply Hres.
        rewrite <- Hk. apply get_in_keys. eauto.
      * intros v r q e Hget Hp.
        assert (HvK : In v K) by (rewrite <- Hk; apply get_in_keys; eauto).
        assert (E : pth spt v = q ++ [e]) by (unfold pth; now rewrite (spt_get_of_get _ _ _ Hget)).
        destruct (Htree v q e HvK E) as (T1 & T2 & T3). split; auto.
        rewrite <- Hk in T2. apply get_in_keys in T2. destruct T2 as [ru Hru].
        exists ru. split; auto. unfold pth in T3. now rewrite (spt_get_of_get _ _ _ Hru) in T3.
    + intros EG v Hv. apply Hall; auto. apply HK2; auto.
  - right. split; [exact EG|]. split; [exact Hrun|]. exists v. split; auto. apply HK2; auto.
Qed.

Theorem spt_correct : forall nodes es W src o,
  in_domain nodes es W -> no_overflow nodes W -> In src nodes -> oracle_ok o ->
  exists spt, run true o nodes es src = Ok spt /\ result_ok nodes es src spt.
Proof.
  intros nodes es W src o Hd Hov Hs Ho.
  destruct (run_general true nodes es W src o Hd Hov Hs Ho) as [(spt & A & B & _)|(A & _)].
  - eauto.
  - discriminate.
Qed.

(* the code as found (no nil test before `from = *next`) panics exactly on the graphs with a
   node that is unreachable from the source *)
Theorem spt_unguarded_panics_iff : forall nodes es W src o,
  in_domain nodes es W -> no_overflow nodes W -> In src nodes -> oracle_ok o ->
  (run false o nodes es src = Panic <->
   exists v, In v nodes /\ ~ reachable (graph_of es) src v).
Proof.
  intros nodes es W src o Hd Hov Hs Ho.
  destruct (run_general false nodes es W src o Hd Hov Hs Ho)
    as [(spt & A & _ & C)|(_ & A & B)].
  - split.
    + rewrite A. discriminate.
    + intros (v & Hv & Hn). exfalso. apply Hn. apply C; auto.
  - tauto.
Qed.

(* ---- sequences of calls on one Topology *)
Lemma spt_pure guard o t from : fst (spt guard o t from) = t.
Proof. reflexivity. Qed.

Lemma spt_seq_runs guard t calls :
  spt_seq guard t calls = map (fun c => spt_run guard (fst c) t (snd c)) calls.
Proof.
  induction calls as [|[o from] calls IH]; cbn [spt_seq map fst snd]; [reflexivity|].
  unfold spt. now rewrite IH.
Qed.

Theorem spt_correct_sequence : forall nodes es W calls,
  in_domain nodes es W -> no_overflow nodes W ->
  Forall (fun c => oracle_ok (fst c) /\ In (snd c) nodes) calls ->
  Forall2 (fun c out => exists spt, out = Ok spt /\ result_ok nodes es (snd c) spt)
          calls (run_seq true nodes es calls).
Proof.
  intros nodes es W calls Hd Hov Hc. unfold run_seq. rewrite spt_seq_runs.
  induction Hc as [|[o from] calls [Ho Hs] Hc IH]; cbn [map fst snd]; constructor; auto.
  cbn [fst snd] in *. destruct (spt_correct nodes es W from o Hd Hov Hs Ho) as (spt & A & B).
  exists spt. split; auto.
Qed.

(* never panics, never runs out of fuel *)
Corollary spt_no_panic : forall nodes es W src o,
  in_domain nodes es W -> no_overflow nodes W -> In src nodes -> oracle_ok o ->
  exists spt, run true o nodes es src = Ok spt.
Proof.
  intros. destruct (spt_correct nodes es W src o) as (spt & H' & _); eauto.
Qed.

(* every listed node gets exactly one entry; reachable: a shortest path and its weight;
   unreachable: -1 and no edges *)
Corollary spt_reachable : forall nodes es W src o spt v,
  in_domain nodes es W -> no_overflow nodes W -> In src nodes -> oracle_ok o ->
  run true o nodes es src = Ok spt -> In v nodes ->
  exists r, get v spt = Some r /\
    (reachable (graph_of es) src v ->
       shortest (graph_of es) src v (pedges r) /\ pdist r = weight (pedges r)) /\
    (~ reachable (graph_of es) src v -> pdist r = -1 /\ pedges r = []).
Proof.
  intros nodes es W src o spt v Hd Hov Hs Ho Hrun Hv.
  destruct (spt_correct nodes es W src o Hd Hov Hs Ho) as (spt' & Hrun' & _ & Hk & Hres & _).
  rewrite Hrun in Hrun'. inversion Hrun'. subst spt'.
  apply Hk, get_in_keys in Hv. destruct Hv as [r Hr]. exists r. split; auto.
  destruct (Hres v r Hr) as [(A & B)|(A & B & C)]; split; try tauto.
  intros Hn. exfalso. apply Hn. exists (pedges r). apply A.
Qed.
