(* C27: lemmas about the BMP wire layer model (Model/BMPCodec.v):
   framing never panics, never runs out of fuel, consumes at least a common header per message and
   allocates at most 4 * (bytes received) + 4096; the decoders never panic / run out of fuel and
   allocate at most 4 * (message length) + 1704 on a message whose length field is its length. *)
From Coq Require Import List NArith ZArith Bool Lia ZifyBool ZifyNat ZifyN.
Import ListNotations.
From BioVerif Require Import Model.BMPCodec.
Open Scope N_scope.

Ltac Zify.zify_post_hook ::= Z.div_mod_to_equations.

(* ------------------------------------------------------------------ lists and lengths *)

Lemma len_nil : forall A : Type, len (@nil A) = 0.
Proof. reflexivity. Qed.

Lemma len_cons : forall (A : Type) (x : A) l, len (x :: l) = len l + 1.
Proof. intros. unfold len. cbn [length]. lia. Qed.

Lemma len_app : forall (A : Type) (a b : list A), len (a ++ b) = len a + len b.
Proof. intros. unfold len. rewrite app_length. lia. Qed.

Lemma len_takeN : forall (A : Type) (n : N) (l : list A), n <= len l -> len (takeN n l) = n.
Proof.
  intros A n l H. unfold len, takeN in *. rewrite firstn_length. lia.
Qed.

Lemma len_dropN : forall (A : Type) (n : N) (l : list A), n <= len l -> len (dropN n l) + n = len l.
Proof.
  intros A n l H. unfold len, dropN in *. rewrite skipn_length. lia.
Qed.

Lemma length_dropN : forall (A : Type) (n : N) (l : list A),
  n <= len l -> (length (dropN n l) + N.to_nat n = length l)%nat.
Proof.
  intros A n l H. unfold len, dropN in *. rewrite skipn_length. lia.
Qed.

(* ------------------------------------------------------------------ the result monad *)

Definition is_ok {A : Type} (r : res A) : Prop :=
  match r with Ok _ => True | _ => False end.
(* neither a panic nor out of fuel *)
Definition safe {A : Type} (r : res A) : Prop :=
  match r with Panic => False | Fuel => False | _ => True end.

Lemma bind_ok : forall (A B : Type) (m : M A) (f : A -> M B) b k,
  bind m f = (Ok b, k) ->
  exists a k1 k2, m = (Ok a, k1) /\ f a = (Ok b, k2) /\ k = k1 + k2.
Proof.
  intros A B m f b k H. unfold bind in H. destruct m as [r k1]. destruct r as [a| | |]; try discriminate.
  destruct (f a) as [r2 k2] eqn:E. inversion H; subst. exists a, k1, k2. auto.
Qed.

Lemma bind_safe : forall (A B : Type) (m : M A) (f : A -> M B),
  safe (fst m) -> (forall a k, m = (Ok a, k) -> safe (fst (f a))) -> safe (fst (bind m f)).
Proof.
  intros A B m f Hm Hf. unfold bind. destruct m as [r k]. destruct r as [a| | |]; cbn in *; auto.
  specialize (Hf a k eq_refl). destruct (f a) as [r2 k2]. exact Hf.
Qed.

Lemma bind_cost : forall (A B : Type) (m : M A) (f : A -> M B) (bound1 bound2 : N),
  snd m <= bound1 -> (forall a k, m = (Ok a, k) -> snd (f a) <= bound2) ->
  snd (bind m f) <= bound1 + bound2.
Proof.
  intros A B m f b1 b2 Hm Hf. unfold bind. destruct m as [r k]. cbn in Hm.
  destruct r as [a| | |]; cbn; try lia.
  specialize (Hf a k eq_refl). destruct (f a) as [r2 k2]. cbn in *. lia.
Qed.

(* ------------------------------------------------------------------ rd *)

Lemma rd_spec : forall n buf r k, rd n buf = (r, k) ->
  k = 0 /\ safe r /\
  (forall x rest, r = Ok (x, rest) -> n <= len buf /\ x = takeN n buf /\ rest = dropN n buf).
Proof.
  intros n buf r k H. unfold rd, fail, ret in H.
  destruct (len buf <? n) eqn:E; inversion H; subst; clear H.
  - split; [reflexivity|]. split; [exact I|]. intros x rest Hx. discriminate.
  - split; [reflexivity|]. split; [exact I|]. intros x rest Hx. inversion Hx; subst.
    split; [lia|]. auto.
Qed.

Lemma rd_ok : forall n buf x rest k, rd n buf = (Ok (x, rest), k) ->
  k = 0 /\ n <= len buf /\ len x = n /\ len rest + n = len buf /\ x = takeN n buf /\ rest = dropN n buf.
Proof.
  intros n buf x rest k H. destruct (rd_spec _ _ _ _ H) as (Hk & _ & Hx).
  destruct (Hx x rest eq_refl) as (Hn & -> & ->).
  repeat split; auto. apply len_takeN; auto. apply len_dropN; auto.
Qed.

Lemma rd_safe : forall n buf, safe (fst (rd n buf)).
Proof. intros. destruct (rd n buf) as [r k] eqn:E. apply rd_spec in E. tauto. Qed.

Lemma rd_cost : forall n buf, snd (rd n buf) = 0.
Proof. intros. destruct (rd n buf) as [r k] eqn:E. apply rd_spec in E. cbn. tauto. Qed.

Lemma rd_slice_ok : forall n buf x rest k, rd_slice n buf = (Ok (x, rest), k) ->
  k = n /\ n <= len buf /\ len x = n /\ len rest + n = len buf /\ x = takeN n buf /\ rest = dropN n buf.
Proof.
  intros n buf x rest k H. unfold rd_slice, alloc in H. apply bind_ok in H.
  destruct H as (a & k1 & k2 & H1 & H2 & ->). inversion H1; subst.
  apply rd_ok in H2. destruct H2 as (-> & H2). split. lia. exact H2.
Qed.

Lemma rd_slice_safe : forall n buf, safe (fst (rd_slice n buf)).
Proof.
  intros. unfold rd_slice. apply bind_safe. cbn; auto. intros. apply rd_safe.
Qed.

Lemma rd_slice_cost : forall n buf, snd (rd_slice n buf) = n.
Proof.
  intros. unfold rd_slice, alloc, bind. destruct (rd n buf) as [r k] eqn:E.
  pose proof (rd_cost n buf) as C. rewrite E in C. cbn in C. subst. cbn. lia.
Qed.

(* ------------------------------------------------------------------ framing *)

(* invariant of the receive loop *)
Definition grow_inv (l avail read buflen cost : N) : Prop :=
  read <= buflen /\ read <= avail /\ read <= l /\ 0 < buflen /\
  cost <= 4 * read + default_buffer_len /\ (cost <= 2 * buflen \/ l <= buflen).

Lemma grow_spec : forall fuel l avail read buflen cost,
  grow_inv l avail read buflen cost ->
  (N.to_nat (avail - read) < fuel)%nat ->
  match grow fuel l avail read buflen cost with
  | GDone c => l <= avail /\ c <= 4 * l + default_buffer_len
  | GEof c => avail < l /\ c <= 4 * avail + default_buffer_len
  | GPanic _ => False
  | GFuel => False
  end.
Proof.
  induction fuel as [|f IH]; intros l avail read buflen cost Inv Hf.
  - lia.
  - destruct Inv as (I1 & I2 & I3 & I4 & I5 & I6).
    cbn [grow]. destruct (l <=? read) eqn:E1.
    + assert (read = l) by lia. subst read.
      destruct (buflen <? l) eqn:E2; [lia|]. split; lia.
    + destruct (read =? buflen) eqn:E2.
      * (* the buffer is full: it is doubled, at most up to l *)
        assert (read = buflen) by lia. subst read.
        assert (C2 : cost <= 2 * buflen) by lia.
        set (nl := N.min (2 * buflen) l).
        assert (Hnl : buflen < nl /\ nl <= 2 * buflen /\ nl <= l) by (unfold nl; lia).
        cbn zeta.
        replace (N.min nl l) with nl by lia.
        destruct (nl <? buflen) eqn:E3; [lia|].
        destruct (avail <? nl) eqn:E4.
        -- split; unfold default_buffer_len in *; lia.
        -- apply IH.
           ++ unfold grow_inv, default_buffer_len in *.
              assert (cost + nl <= 2 * nl \/ l <= nl)
                by (destruct (N.eq_dec nl l); [right; lia|left; unfold nl in *; lia]).
              repeat split; lia.
           ++ lia.
      * assert (read < buflen) by lia.
        cbn zeta.
        set (e := N.min buflen l).
        assert (He : read < e /\ e <= buflen /\ e <= l) by (unfold e; lia).
        destruct (e <? read) eqn:E3; [lia|].
        destruct (avail <? e) eqn:E4.
        -- split; unfold default_buffer_len in *; lia.
        -- apply IH.
           ++ unfold grow_inv, default_buffer_len in *. repeat split; lia.
           ++ lia.
Qed.

(* what recvBMPMsg delivers: a message of at least a common header, whose length field is its
   length; the rest of the stream is shorter by that much; cost is linear in what was received *)
Lemma recv_spec : forall s,
  match recv s with
  | RMsg m rest c =>
      min_len <= len m /\ len m + len rest = len s /\ s = m ++ rest /\
      be (firstn 4 (skipn 1 m)) = len m /\ c <= 4 * len m + default_buffer_len
  | RFail c => c <= 4 * len s + default_buffer_len
  | RPanic _ => False
  | RFuel => False
  end.
Proof.
  intros s. unfold recv. destruct (len s <? min_len) eqn:E1.
  { unfold default_buffer_len. lia. }
  set (l := be (firstn 4 (skipn 1 s))).
  destruct (l <? min_len) eqn:E2.
  { unfold default_buffer_len. lia. }
  unfold min_len in *.
  pose proof (grow_spec (S (length s)) l (len s) 6 default_buffer_len default_buffer_len) as G.
  destruct (grow (S (length s)) l (len s) 6 default_buffer_len default_buffer_len) as [c|c|c|] eqn:EG.
  - destruct G as (G1 & G2).
    { unfold grow_inv, default_buffer_len. repeat split; try lia. }
    { unfold len. lia. }
    assert (Hl : (N.to_nat l <= length s)%nat) by (unfold len in G1; lia).
    repeat split.
    + rewrite len_takeN; lia.
    + rewrite len_takeN by lia. pose proof (len_dropN _ l s G1). lia.
    + unfold takeN, dropN. symmetry. apply firstn_skipn.
    + rewrite len_takeN by lia. unfold takeN.
      rewrite skipn_firstn_comm. rewrite firstn_firstn.
      replace (Nat.min 4 (N.to_nat l - 1)) with 4%nat by lia. reflexivity.
    + rewrite len_takeN by lia. exact G2.
  - destruct G as (G1 & G2).
    { unfold grow_inv, default_buffer_len. repeat split; try lia. }
    { unfold len. lia. }
    exact G2.
  - apply G.
    { unfold grow_inv, default_buffer_len. repeat split; try lia. }
    { unfold len. lia. }
  - apply G.
    { unfold grow_inv, default_buffer_len. repeat split; try lia. }
    { unfold len. lia. }
Qed.

(* ------------------------------------------------------------------ decoders: safety and cost *)

Definition byte_ok (b : N) : Prop := b < 256.
Definition bytes_ok (s : bytes) : Prop := Forall byte_ok s.

Lemma bytes_ok_split : forall n s, bytes_ok s -> bytes_ok (firstn n s) /\ bytes_ok (skipn n s).
Proof.
  intros n s H. unfold bytes_ok in *. rewrite <- (firstn_skipn n s) in H.
  apply Forall_app in H. exact H.
Qed.

Lemma bytes_ok_firstn : forall n s, bytes_ok s -> bytes_ok (firstn n s).
Proof. intros n s H. apply (bytes_ok_split n s H). Qed.

Lemma bytes_ok_skipn : forall n s, bytes_ok s -> bytes_ok (skipn n s).
Proof. intros n s H. apply (bytes_ok_split n s H). Qed.

(* ------------------------------------------------------------------ information TLVs *)

Lemma decode_tlv_spec : forall buf r k, decode_tlv buf = (r, k) ->
  safe r /\
  (forall t rest, r = Ok (t, rest) ->
     len rest + 4 + t_len t = len buf /\ k = 2 * t_len t /\ len (t_info t) = t_len t) /\
  (~ is_ok r -> k = 0).
Proof.
  intros buf r k H. unfold decode_tlv in H.
  destruct (rd 2 buf) as [r1 k1] eqn:E1. pose proof (rd_spec _ _ _ _ E1) as (-> & S1 & _).
  destruct r1 as [[ty b1]| | |]; cbn [bind] in H; try (inversion H; subst; cbn; intuition discriminate).
  apply rd_ok in E1. destruct E1 as (_ & L1 & _ & M1 & _ & _).
  destruct (rd 2 b1) as [r2 k2] eqn:E2. pose proof (rd_spec _ _ _ _ E2) as (-> & S2 & _).
  destruct r2 as [[ln b2]| | |]; cbn [bind] in H; try (inversion H; subst; cbn; intuition discriminate).
  apply rd_ok in E2. destruct E2 as (_ & L2 & _ & M2 & _ & _).
  destruct (len b2 <? be ln) eqn:E3.
  { inversion H; subst; cbn; intuition discriminate. }
  unfold alloc in H. cbn [bind] in H.
  destruct (rd_slice (be ln) b2) as [r3 k3] eqn:E4.
  pose proof (rd_slice_cost (be ln) b2) as C4. rewrite E4 in C4. cbn in C4. subst k3.
  pose proof (rd_slice_safe (be ln) b2) as S4. rewrite E4 in S4. cbn in S4.
  destruct r3 as [[info b3]| | |]; cbn [bind ret] in H; try contradiction.
  - apply rd_slice_ok in E4. destruct E4 as (_ & L4 & LI & M4 & _ & _).
    inversion H; subst; clear H. split; [exact I|]. split.
    + intros t rest Ht. inversion Ht; subst. cbn [t_len t_info]. repeat split; lia.
    + intros Hn. exfalso. apply Hn. exact I.
  - (* rd_slice cannot fail after the length check *)
    exfalso. unfold rd_slice, alloc, rd in E4. cbn [bind] in E4.
    rewrite E3 in E4. cbn in E4. discriminate.
Qed.

Lemma decode_tlv_safe : forall buf, safe (fst (decode_tlv buf)).
Proof. intros. destruct (decode_tlv buf) as [r k] eqn:E. apply decode_tlv_spec in E. cbn. tauto. Qed.

(* the three TLV loops: with more fuel than bytes they never run out of it; their allocation is
   at most twice the bytes they consume *)
Lemma decode_tlvs32_spec : forall fuel read to_read buf,
  (length buf < fuel)%nat ->
  safe (fst (decode_tlvs32 fuel read to_read buf)) /\
  snd (decode_tlvs32 fuel read to_read buf) <= 2 * len buf.
Proof.
  induction fuel as [|f IH]; intros read to_read buf Hf; [lia|].
  cbn [decode_tlvs32]. destruct (read <? to_read) eqn:E; [|cbn; split; [exact I|lia]].
  destruct (decode_tlv buf) as [r k] eqn:ET. pose proof (decode_tlv_spec _ _ _ ET) as (S1 & O1 & N1).
  destruct r as [[t b1]| | |]; cbn [bind]; try contradiction.
  - destruct (O1 t b1 eq_refl) as (L1 & -> & _).
    assert (Hb : (length b1 < f)%nat) by (unfold len in L1; lia).
    specialize (IH (add32 read (t_len t + min_information_tlv_len)) to_read b1 Hb).
    destruct (decode_tlvs32 f (add32 read (t_len t + min_information_tlv_len)) to_read b1) as [r2 k2].
    cbn [fst snd] in IH. destruct IH as (S2 & C2).
    destruct r2 as [ts| | |]; cbn [bind ret fst snd]; try contradiction; (split; [exact I|lia]).
  - cbn. rewrite N1 by (cbn; tauto). split; [exact I|lia].
Qed.

Lemma decode_tlvs_int_spec : forall fuel read to_read buf,
  (length buf < fuel)%nat ->
  safe (fst (decode_tlvs_int fuel read to_read buf)) /\
  snd (decode_tlvs_int fuel read to_read buf) <= 2 * len buf.
Proof.
  induction fuel as [|f IH]; intros read to_read buf Hf; [lia|].
  cbn [decode_tlvs_int]. destruct (read <? to_read) eqn:E; [|cbn; split; [exact I|lia]].
  destruct (decode_tlv buf) as [r k] eqn:ET. pose proof (decode_tlv_spec _ _ _ ET) as (S1 & O1 & N1).
  destruct r as [[t b1]| | |]; cbn [bind]; try contradiction.
  - destruct (O1 t b1 eq_refl) as (L1 & -> & _).
    assert (Hb : (length b1 < f)%nat) by (unfold len in L1; lia).
    specialize (IH (read + t_len t + min_information_tlv_len) to_read b1 Hb).
    destruct (decode_tlvs_int f (read + t_len t + min_information_tlv_len) to_read b1) as [r2 k2].
    cbn [fst snd] in IH. destruct IH as (S2 & C2).
    destruct r2 as [ts| | |]; cbn [bind ret fst snd]; try contradiction; (split; [exact I|lia]).
  - cbn. rewrite N1 by (cbn; tauto). split; [exact I|lia].
Qed.

Lemma decode_stats_spec : forall fuel i count buf,
  (length buf < fuel)%nat ->
  safe (fst (decode_stats fuel i count buf)) /\
  snd (decode_stats fuel i count buf) <= 2 * len buf.
Proof.
  induction fuel as [|f IH]; intros i count buf Hf; [lia|].
  cbn [decode_stats]. destruct (i <? count) eqn:E; [|cbn; split; [exact I|lia]].
  destruct (decode_tlv buf) as [r k] eqn:ET. pose proof (decode_tlv_spec _ _ _ ET) as (S1 & O1 & N1).
  destruct r as [[t b1]| | |]; cbn [bind]; try contradiction.
  - destruct (O1 t b1 eq_refl) as (L1 & -> & _).
    assert (Hb : (length b1 < f)%nat) by (unfold len in L1; lia).
    specialize (IH (i + 1) count b1 Hb).
    destruct (decode_stats f (i + 1) count b1) as [r2 k2].
    cbn [fst snd] in IH. destruct IH as (S2 & C2).
    destruct r2 as [ts| | |]; cbn [bind ret fst snd]; try contradiction; (split; [exact I|lia]).
  - cbn. rewrite N1 by (cbn; tauto). split; [exact I|lia].
Qed.

(* ------------------------------------------------------------------ fixed-size headers *)

(* one binary.Read of a fixed-size field inside a decoder under analysis *)
Ltac step_rd H :=
  match type of H with
  | context [rd ?n ?b] =>
    let r := fresh "r" in let k := fresh "k" in let E := fresh "E" in let S := fresh "S" in
    destruct (rd n b) as [r k] eqn:E;
    pose proof (rd_spec _ _ _ _ E) as (-> & S & _);
    destruct r as [[? ?]| | |]; cbn [bind] in H;
    [apply rd_ok in E; destruct E as (_ & ? & ? & ? & ? & ?)
    |inversion H; subst; clear H
    |contradiction
    |contradiction]
  end.

Lemma decode_pph_spec : forall buf r k, decode_pph buf = (r, k) ->
  k = 0 /\ safe r /\ (forall h rest, r = Ok (h, rest) -> len rest + per_peer_header_len = len buf).
Proof.
  intros buf r k H. unfold decode_pph in H.
  do 8 (step_rd H; [|split; [reflexivity|split; [exact I|intros; discriminate]]]).
  cbn [ret] in H. inversion H; subst; clear H.
  split; [lia|]. split; [exact I|]. intros h rest Hh. inversion Hh; subst.
  unfold per_peer_header_len. lia.
Qed.

Lemma decode_common_header_spec : forall buf r k, decode_common_header buf = (r, k) ->
  k = 0 /\ safe r /\
  (forall ch rest, r = Ok (ch, rest) ->
     len rest + common_header_len = len buf /\ ch_len ch = be (firstn 4 (skipn 1 buf))).
Proof.
  intros buf r k H. unfold decode_common_header in H.
  do 3 (step_rd H; [|split; [reflexivity|split; [exact I|intros; discriminate]]]).
  cbn [ret] in H. inversion H; subst; clear H.
  split; [lia|]. split; [exact I|]. intros ch rest Hh. inversion Hh; subst.
  unfold common_header_len. split; [lia|]. cbn [ch_len]. reflexivity.
Qed.

(* ------------------------------------------------------------------ peer up: the two OPEN messages *)

Lemma bytes_ok_nth : forall l i, bytes_ok l -> nth i l 0 < 256.
Proof.
  intros l i H. destruct (Nat.lt_ge_cases i (length l)) as [Hi|Hi].
  - unfold bytes_ok in H. rewrite Forall_forall in H. apply H. apply nth_In. exact Hi.
  - rewrite nth_overflow by exact Hi. lia.
Qed.

Lemma bytes_ok_takeN : forall n s, bytes_ok s -> bytes_ok (takeN n s).
Proof. intros. unfold takeN. apply bytes_ok_firstn. assumption. Qed.
Lemma bytes_ok_dropN : forall n s, bytes_ok s -> bytes_ok (dropN n s).
Proof. intros. unfold dropN. apply bytes_ok_skipn. assumption. Qed.

Lemma get_open_msg_spec : forall buf r k, bytes_ok buf -> get_open_msg buf = (r, k) ->
  safe r /\ k <= 852 /\
  (forall m rest, r = Ok (m, rest) -> len rest <= len buf /\ bytes_ok rest).
Proof.
  intros buf r k Hb H. unfold get_open_msg, alloc in H. cbn [bind] in H.
  remember open_msg_min_len as oml eqn:Eoml.
  destruct (rd_slice oml buf) as [r1 k1] eqn:E1.
  pose proof (rd_slice_cost oml buf) as C1. rewrite E1 in C1. cbn [snd] in C1. subst k1.
  pose proof (rd_slice_safe oml buf) as S1. rewrite E1 in S1. cbn [fst] in S1.
  destruct r1 as [[msg b1]| | |]; cbn [bind] in H; try contradiction.
  2:{ injection H as <- <-. split; [exact I|]. subst oml. unfold open_msg_min_len.
      split; [lia|]. intros; discriminate. }
  apply rd_slice_ok in E1. destruct E1 as (_ & L1 & LM & M1 & -> & ->).
  assert (Hol : nth 28 (takeN oml buf) 0 < 256) by (apply bytes_ok_nth, bytes_ok_takeN, Hb).
  remember (nth 28 (takeN oml buf) 0) as ol eqn:Eol in *. clear Eol.
  destruct (ol =? 0) eqn:E0.
  { cbn [ret] in H. injection H as <- <-. split; [exact I|]. subst oml. unfold open_msg_min_len in *.
    split; [lia|].
    intros m rest Hm. inversion Hm; subst. split; [lia|]. apply bytes_ok_dropN, Hb. }
  cbn [bind] in H.
  destruct (rd_slice ol (dropN oml buf)) as [r2 k2] eqn:E2.
  pose proof (rd_slice_cost ol (dropN oml buf)) as C2. rewrite E2 in C2. cbn [snd] in C2. subst k2.
  pose proof (rd_slice_safe ol (dropN oml buf)) as S2. rewrite E2 in S2. cbn [fst] in S2.
  destruct r2 as [[opt b2]| | |]; cbn [bind ret] in H; try contradiction.
  2:{ injection H as <- <-. split; [exact I|]. subst oml. unfold open_msg_min_len.
      split; [lia|]. intros; discriminate. }
  apply rd_slice_ok in E2. destruct E2 as (_ & L2 & LO & M2 & -> & ->).
  injection H as <- <-. split; [exact I|]. subst oml. unfold open_msg_min_len in *. split; [lia|].
  intros m rest Hm. inversion Hm; subst. split; [lia|].
  apply bytes_ok_dropN, bytes_ok_dropN, Hb.
Qed.

(* ------------------------------------------------------------------ length arithmetic *)

Lemma be_fold_bound : forall l acc, bytes_ok l ->
  fold_left (fun a b => a * 256 + b) l acc < (acc + 1) * 256 ^ (len l).
Proof.
  induction l as [|b l IH]; intros acc Hb.
  - cbn. lia.
  - cbn [fold_left]. inversion Hb as [|? ? Hb1 Hb2]; subst. unfold byte_ok in Hb1.
    specialize (IH (acc * 256 + b) Hb2).
    rewrite len_cons. rewrite N.pow_add_r. rewrite N.pow_1_r.
    eapply N.lt_le_trans; [exact IH|].
    replace ((acc + 1) * (256 ^ len l * 256)) with ((acc * 256 + 256) * 256 ^ len l) by lia.
    apply N.mul_le_mono_r. lia.
Qed.

Lemma be_lt_two32 : forall l, bytes_ok l -> (length l <= 4)%nat -> be l < two32.
Proof.
  intros l Hb Hl. unfold be. pose proof (be_fold_bound l 0 Hb) as H.
  eapply N.lt_le_trans; [exact H|].
  replace two32 with (256 ^ 4) by reflexivity.
  rewrite N.add_0_l, N.mul_1_l. apply N.pow_le_mono_r; [lia|]. unfold len. lia.
Qed.

(* a 32 bit count times the TLV header size does not wrap in 64 bits *)
Lemma mul64_exact : forall a b, a < two32 -> b <= 8 -> mul64 a b = a * b.
Proof. intros a b H1 H2. unfold mul64, two64, two32 in *. apply N.mod_small. nia. Qed.

Lemma sub32_exact : forall a b, b <= a -> a < two32 -> sub32 a b = a - b.
Proof. intros a b H1 H2. unfold sub32, two32 in *. lia. Qed.

(* ------------------------------------------------------------------ the per-message decoders *)

Section Decoders.
Variable ch : common_header.
Variable buf : bytes.
Hypothesis Hb : bytes_ok buf.
Hypothesis Hlen : ch_len ch = len buf + common_header_len.
Hypothesis H32 : ch_len ch < two32.

Lemma decode_route_monitoring_spec :
  safe (fst (decode_route_monitoring ch buf)) /\ snd (decode_route_monitoring ch buf) <= 4 * len buf + 1704.
Proof.
  unfold decode_route_monitoring.
  destruct (decode_pph buf) as [r k] eqn:E. pose proof (decode_pph_spec _ _ _ E) as (-> & S1 & O1).
  destruct r as [[h b1]| | |]; cbn [bind]; try contradiction; [|cbn; split; [exact I|lia]].
  specialize (O1 h b1 eq_refl). unfold per_peer_header_len, common_header_len in *.
  rewrite (sub32_exact (ch_len ch) 6) by lia. rewrite sub32_exact by lia.
  remember (ch_len ch - 6 - 42) as n eqn:En. unfold alloc. cbn [bind].
  destruct (rd_slice n b1) as [r2 k2] eqn:E2.
  pose proof (rd_slice_cost n b1) as C2. rewrite E2 in C2. cbn [snd] in C2. subst k2.
  pose proof (rd_slice_safe n b1) as S2. rewrite E2 in S2. cbn [fst] in S2.
  destruct r2 as [[u b2]| | |]; cbn [bind ret fst snd]; try contradiction; (split; [exact I|lia]).
Qed.

Lemma decode_peer_down_spec :
  safe (fst (decode_peer_down ch buf)) /\ snd (decode_peer_down ch buf) <= 4 * len buf + 1704.
Proof.
  unfold decode_peer_down.
  destruct (decode_pph buf) as [r k] eqn:E. pose proof (decode_pph_spec _ _ _ E) as (-> & S1 & O1).
  destruct r as [[h b1]| | |]; cbn [bind]; try contradiction; [|cbn; split; [exact I|lia]].
  specialize (O1 h b1 eq_refl). unfold per_peer_header_len, common_header_len in *.
  destruct (rd 1 b1) as [r1 k1] eqn:E1. pose proof (rd_spec _ _ _ _ E1) as (-> & S3 & _).
  destruct r1 as [[rs b2]| | |]; cbn [bind]; try contradiction; [|cbn; split; [exact I|lia]].
  apply rd_ok in E1. destruct E1 as (_ & L1 & _ & M1 & _ & _).
  destruct ((be rs <? 1) || (3 <? be rs)) eqn:ER; [cbn; split; [exact I|lia]|].
  rewrite (sub32_exact (ch_len ch) 42) by lia. rewrite (sub32_exact _ 6) by lia. rewrite sub32_exact by lia.
  remember (ch_len ch - 42 - 6 - 1) as n eqn:En. unfold alloc. cbn [bind].
  destruct (rd_slice n b2) as [r2 k2] eqn:E2.
  pose proof (rd_slice_cost n b2) as C2. rewrite E2 in C2. cbn [snd] in C2. subst k2.
  pose proof (rd_slice_safe n b2) as S2. rewrite E2 in S2. cbn [fst] in S2.
  destruct r2 as [[u b3]| | |]; cbn [bind ret fst snd]; try contradiction; (split; [exact I|lia]).
Qed.

Lemma decode_stats_report_spec :
  safe (fst (decode_stats_report ch buf)) /\ snd (decode_stats_report ch buf) <= 4 * len buf + 1704.
Proof.
  unfold decode_stats_report.
  destruct (decode_pph buf) as [r k] eqn:E. pose proof (decode_pph_spec _ _ _ E) as (-> & S1 & O1).
  destruct r as [[h b1]| | |]; cbn [bind]; try contradiction; [|cbn; split; [exact I|lia]].
  specialize (O1 h b1 eq_refl). unfold per_peer_header_len in *.
  destruct (rd 4 b1) as [r1 k1] eqn:E1. pose proof (rd_spec _ _ _ _ E1) as (-> & S3 & _).
  destruct r1 as [[c b2]| | |]; cbn [bind]; try contradiction; [|cbn; split; [exact I|lia]].
  apply rd_ok in E1. destruct E1 as (_ & L1 & Lc & M1 & Ec & _).
  assert (Hc32 : be c < two32).
  { apply be_lt_two32.
    - subst c. apply bytes_ok_takeN. clear - E Hb. unfold decode_pph in E.
      do 8 (step_rd E; try discriminate). cbn [ret] in E. injection E as _ <-. subst.
      repeat apply bytes_ok_dropN. exact Hb.
    - unfold len in Lc. lia. }
  unfold min_information_tlv_len. rewrite mul64_exact by (try exact Hc32; lia).
  destruct (len b2 <? be c * 4) eqn:EC; [cbn; split; [exact I|lia]|].
  unfold alloc. cbn [bind].
  pose proof (decode_stats_spec (S (length b2)) 0 (be c) b2 (Nat.lt_succ_diag_r _)) as (S4 & C4).
  destruct (decode_stats (S (length b2)) 0 (be c) b2) as [r2 k2].
  cbn [fst snd] in S4, C4.
  destruct r2 as [ts| | |]; cbn [bind ret fst snd]; try contradiction; (split; [exact I|lia]).
Qed.

Lemma decode_tlv_list_spec :
  safe (fst (decode_initiation ch buf)) /\ snd (decode_initiation ch buf) <= 4 * len buf + 1704 /\
  safe (fst (decode_termination ch buf)) /\ snd (decode_termination ch buf) <= 4 * len buf + 1704.
Proof.
  unfold decode_initiation, decode_termination.
  pose proof (decode_tlvs32_spec (S (length buf)) 0 (sub32 (ch_len ch) common_header_len) buf
                (Nat.lt_succ_diag_r _)) as (S4 & C4).
  destruct (decode_tlvs32 (S (length buf)) 0 (sub32 (ch_len ch) common_header_len) buf) as [r2 k2].
  cbn [fst snd] in S4, C4.
  destruct r2 as [ts| | |]; cbn [bind ret fst snd]; try contradiction; (repeat split; try exact I; lia).
Qed.

Lemma decode_route_mirroring_spec :
  safe (fst (decode_route_mirroring ch buf)) /\ snd (decode_route_mirroring ch buf) <= 4 * len buf + 1704.
Proof.
  unfold decode_route_mirroring.
  destruct (decode_pph buf) as [r k] eqn:E. pose proof (decode_pph_spec _ _ _ E) as (-> & S1 & O1).
  destruct r as [[h b1]| | |]; cbn [bind]; try contradiction; [|cbn; split; [exact I|lia]].
  specialize (O1 h b1 eq_refl). unfold per_peer_header_len in *.
  pose proof (decode_tlvs_int_spec (S (length b1)) 0 (len b1) b1 (Nat.lt_succ_diag_r _)) as (S4 & C4).
  destruct (decode_tlvs_int (S (length b1)) 0 (len b1) b1) as [r2 k2].
  cbn [fst snd] in S4, C4.
  destruct r2 as [ts| | |]; cbn [bind ret fst snd]; try contradiction; (split; [exact I|lia]).
Qed.

Lemma decode_peer_up_spec :
  safe (fst (decode_peer_up ch buf)) /\ snd (decode_peer_up ch buf) <= 4 * len buf + 1704.
Proof.
  unfold decode_peer_up.
  destruct (decode_pph buf) as [r k] eqn:E. pose proof (decode_pph_spec _ _ _ E) as (-> & S1 & O1).
  destruct r as [[h b1]| | |]; cbn [bind]; try contradiction; [|cbn; split; [exact I|lia]].
  specialize (O1 h b1 eq_refl). unfold per_peer_header_len in *.
  assert (Hb1 : bytes_ok b1).
  { unfold decode_pph in E. clear - E Hb.
    do 8 (step_rd E; try discriminate). cbn [ret] in E. injection E as _ <-. subst.
    repeat apply bytes_ok_dropN. exact Hb. }
  destruct (rd 16 b1) as [r1 k1] eqn:E1. pose proof (rd_spec _ _ _ _ E1) as (-> & S3 & _).
  destruct r1 as [[la b2]| | |]; cbn [bind]; try contradiction; [|cbn; split; [exact I|lia]].
  apply rd_ok in E1. destruct E1 as (_ & L1 & _ & M1 & _ & ->).
  destruct (rd 2 (dropN 16 b1)) as [r2 k2] eqn:E2. pose proof (rd_spec _ _ _ _ E2) as (-> & S4 & _).
  destruct r2 as [[lp b3]| | |]; cbn [bind]; try contradiction; [|cbn; split; [exact I|lia]].
  apply rd_ok in E2. destruct E2 as (_ & L2 & _ & M2 & _ & ->).
  destruct (rd 2 (dropN 2 (dropN 16 b1))) as [r3 k3] eqn:E3. pose proof (rd_spec _ _ _ _ E3) as (-> & S5 & _).
  destruct r3 as [[rp b4]| | |]; cbn [bind]; try contradiction; [|cbn; split; [exact I|lia]].
  apply rd_ok in E3. destruct E3 as (_ & L3 & _ & M3 & _ & ->).
  set (b4 := dropN 2 (dropN 2 (dropN 16 b1))) in *.
  assert (Hb4 : bytes_ok b4) by (unfold b4; repeat apply bytes_ok_dropN; exact Hb1).
  destruct (get_open_msg b4) as [r4 k4] eqn:E4.
  pose proof (get_open_msg_spec _ _ _ Hb4 E4) as (S6 & C6 & O6).
  destruct r4 as [[sent b5]| | |]; cbn [bind]; try contradiction; [|cbn; split; [exact I|lia]].
  destruct (O6 sent b5 eq_refl) as (L5 & Hb5).
  destruct (get_open_msg b5) as [r5 k5] eqn:E5.
  pose proof (get_open_msg_spec _ _ _ Hb5 E5) as (S7 & C7 & O7).
  destruct r5 as [[rcvd b6]| | |]; cbn [bind]; try contradiction; [|cbn; split; [exact I|lia]].
  destruct (O7 rcvd b6 eq_refl) as (L6 & Hb6).
  destruct (len b6 =? 0) eqn:E0; [cbn; split; [exact I|lia]|].
  unfold alloc. cbn [bind].
  destruct (rd_slice (len b6) b6) as [r6 k6] eqn:E6.
  pose proof (rd_slice_cost (len b6) b6) as C8. rewrite E6 in C8. cbn [snd] in C8. subst k6.
  pose proof (rd_slice_safe (len b6) b6) as S8. rewrite E6 in S8. cbn [fst] in S8.
  destruct r6 as [[info b7]| | |]; cbn [bind ret fst snd]; try contradiction; (split; [exact I|lia]).
Qed.

End Decoders.

(* ------------------------------------------------------------------ packet.Decode on a framed message *)

(* msg is what recvBMPMsg hands to processMsg: its length field is its length *)
Definition framed (msg : bytes) : Prop :=
  bytes_ok msg /\ be (firstn 4 (skipn 1 msg)) = len msg.

Lemma decode_spec : forall msg, framed msg ->
  safe (fst (decode msg)) /\ snd (decode msg) <= 4 * len msg + 1704.
Proof.
  intros msg (Hb & Hl). unfold decode.
  destruct (decode_common_header msg) as [r k] eqn:E.
  pose proof (decode_common_header_spec _ _ _ E) as (-> & S1 & O1).
  destruct r as [[ch b]| | |]; cbn [bind]; try contradiction; [|cbn; split; [exact I|lia]].
  destruct (O1 ch b eq_refl) as (L1 & L2).
  assert (Hbb : bytes_ok b).
  { unfold decode_common_header in E. clear - E Hb.
    do 3 (step_rd E; try discriminate). cbn [ret] in E. injection E as _ <-. subst.
    repeat apply bytes_ok_dropN. exact Hb. }
  assert (H32 : ch_len ch < two32).
  { rewrite L2. apply be_lt_two32.
    - apply bytes_ok_firstn, bytes_ok_skipn, Hb.
    - rewrite firstn_length. lia. }
  assert (Hlen : ch_len ch = len b + common_header_len) by (rewrite L2, Hl; lia).
  destruct (negb (ch_version ch =? bmp_version)); [cbn; split; [exact I|lia]|].
  pose proof (decode_route_monitoring_spec ch b) as P0.
  pose proof (decode_stats_report_spec ch b) as P1.
  pose proof (decode_peer_down_spec ch b) as P2.
  pose proof (decode_peer_up_spec ch b) as P3.
  pose proof (decode_tlv_list_spec ch b) as P4.
  pose proof (decode_route_mirroring_spec ch b) as P6.
  repeat match goal with
         | P : ?A -> _ |- _ => specialize (P ltac:(assumption))
         end.
  destruct P4 as (P4 & P4' & P5 & P5').
  assert (Hle : len b <= len msg) by lia.
  destruct (ch_type ch) as [|p].
  - destruct (decode_route_monitoring ch b) as [r2 k2]. cbn [fst snd] in *. split; [tauto|lia].
  - destruct p as [p|p|]; try (destruct p as [p|p|]); try (destruct p as [p|p|]); cbv iota;
      match goal with
      | |- context [decode_stats_report ch b] =>
        destruct (decode_stats_report ch b) as [r2 k2]; cbn [fst snd] in *; split; [tauto|lia]
      | |- context [decode_peer_down ch b] =>
        destruct (decode_peer_down ch b) as [r2 k2]; cbn [fst snd] in *; split; [tauto|lia]
      | |- context [decode_peer_up ch b] =>
        destruct (decode_peer_up ch b) as [r2 k2]; cbn [fst snd] in *; split; [tauto|lia]
      | |- context [decode_initiation ch b] =>
        destruct (decode_initiation ch b) as [r2 k2]; cbn [fst snd] in *; split; [tauto|lia]
      | |- context [decode_termination ch b] =>
        destruct (decode_termination ch b) as [r2 k2]; cbn [fst snd] in *; split; [tauto|lia]
      | |- context [decode_route_mirroring ch b] =>
        destruct (decode_route_mirroring ch b) as [r2 k2]; cbn [fst snd] in *; split; [tauto|lia]
      | |- _ => cbn; split; [exact I|lia]
      end.
Qed.
