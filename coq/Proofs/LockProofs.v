(* Meta-theorems over the mutex / rendezvous trace semantics of Model/LockSem.v, proved once:
   ranked_lock_order_no_deadlock, no_return_holding_lock_progress,
   lockset_discipline_orders_conflicts, and soundness of the table checkers. *)
From Coq Require Import List NArith Bool Arith Lia String.
Import ListNotations.
From BioVerif Require Import Model.LockSem.

(* ------------------------------------------------------------------ lists / upd *)

Lemma nth_upd_eq : forall s i t t0, nth_error s i = Some t0 -> nth_error (upd s i t) i = Some t.
Proof.
  induction s as [|x r IH]; intros i t t0 Hn; destruct i; simpl in *; try discriminate; auto.
  eapply IH; eauto.
Qed.

Lemma nth_upd_neq : forall s i j t, i <> j -> nth_error (upd s i t) j = nth_error s j.
Proof.
  induction s as [|x r IH]; intros i j t Hne; destruct i, j; simpl; auto; try congruence.
Qed.

Lemma In_upd : forall s i t x, In x (upd s i t) -> x = t \/ In x s.
Proof.
  induction s as [|y r IH]; intros i t x Hin; destruct i; simpl in *; auto.
  - destruct Hin; auto.
  - destruct Hin as [H|H]; auto. apply IH in H. destruct H; auto.
Qed.

Lemma nth_upd_cases : forall s i j t u, nth_error (upd s i t) j = Some u ->
  (i = j /\ u = t /\ exists t0, nth_error s i = Some t0) \/ (i <> j /\ nth_error s j = Some u).
Proof.
  intros s i j t u Hn. destruct (Nat.eq_dec i j) as [->|Hne].
  - destruct (nth_error s j) as [t0|] eqn:Hs.
    + rewrite (nth_upd_eq _ _ _ _ Hs) in Hn. left. inversion Hn. eauto.
    + exfalso. clear -Hn Hs. revert j Hn Hs. induction s as [|x r IH]; intros j Hn Hs; destruct j; simpl in *; try discriminate.
      eapply IH; eauto.
  - right. split; auto. rewrite nth_upd_neq in Hn; auto.
Qed.

Lemma In_remove_iff : forall (l : lock) H a, In a (remove N.eq_dec l H) <-> In a H /\ a <> l.
Proof.
  intros l H a. split.
  - intros Hin. apply in_remove in Hin. auto.
  - intros [Hin Hne]. apply in_in_remove; auto.
Qed.

(* ------------------------------------------------------------------ invariants *)

Section Ranked.
Variable rank : lock -> N.

Definition wf_state (s : state) : Prop := forall t, In t s -> wf rank (held t) (prog t).

Lemma wf_init : forall ps, Forall (wf rank []) ps -> wf_state (init ps).
Proof.
  intros ps HF t Hin. unfold init in Hin. apply in_map_iff in Hin. destruct Hin as [p [<- Hp]].
  simpl. rewrite Forall_forall in HF. auto.
Qed.

Lemma wf_step : forall s lab s', step s lab s' -> wf_state s -> wf_state s'.
Proof.
  intros s lab s' Hs Hwf. inversion Hs; subst; intros u Hu.
  - apply In_upd in Hu. destruct Hu as [->|Hu]; auto. simpl.
    pose proof (Hwf t (nth_error_In _ _ H)) as Ht. rewrite H0 in Ht. simpl in Ht. tauto.
  - apply In_upd in Hu. destruct Hu as [->|Hu]; auto. simpl.
    pose proof (Hwf t (nth_error_In _ _ H)) as Ht. rewrite H0 in Ht. simpl in Ht. tauto.
  - apply In_upd in Hu. destruct Hu as [->|Hu]; auto. simpl.
    pose proof (Hwf t (nth_error_In _ _ H)) as Ht. rewrite H0 in Ht. simpl in Ht. tauto.
  - apply In_upd in Hu. destruct Hu as [->|Hu].
    + simpl. pose proof (Hwf tj (nth_error_In _ _ H1)) as Ht. rewrite H3 in Ht. simpl in Ht. tauto.
    + apply In_upd in Hu. destruct Hu as [->|Hu]; auto. simpl.
      pose proof (Hwf ti (nth_error_In _ _ H0)) as Ht. rewrite H2 in Ht. simpl in Ht. tauto.
Qed.

Lemma wf_exec : forall s tr s', exec s tr s' -> wf_state s -> wf_state s'.
Proof. induction 1; auto. intros. apply IHexec. eapply wf_step; eauto. Qed.

(* an upper bound of the ranks of all held locks *)
Fixpoint maxrank_l (H : list lock) : N :=
  match H with [] => 0%N | l :: r => N.max (rank l) (maxrank_l r) end.
Fixpoint maxrank (s : state) : N :=
  match s with [] => 0%N | t :: r => N.max (maxrank_l (held t)) (maxrank r) end.

Lemma maxrank_l_ge : forall H l, In l H -> (rank l <= maxrank_l H)%N.
Proof. induction H as [|a r IH]; simpl; intros l Hin; [tauto|]. destruct Hin as [->|Hin]; [lia|]. specialize (IH _ Hin). lia. Qed.

Lemma maxrank_ge : forall s t l, In t s -> In l (held t) -> (rank l <= maxrank s)%N.
Proof.
  induction s as [|x r IH]; simpl; intros t l Hin Hl; [tauto|]. destruct Hin as [->|Hin].
  - pose proof (maxrank_l_ge _ _ Hl). lia.
  - specialize (IH _ _ Hin Hl). lia.
Qed.

Lemma not_free_holder : forall s l, ~ free s l -> exists t, In t s /\ In l (held t).
Proof.
  induction s as [|x r IH]; intros l Hnf.
  - exfalso. apply Hnf. intros t [].
  - destruct (in_dec N.eq_dec l (held x)) as [Hin|Hnin].
    + exists x. simpl. auto.
    + destruct (IH l) as [t [Ht Hl]].
      * intros Hf. apply Hnf. intros t [<-|Ht]; auto.
      * exists t. simpl. auto.
Qed.

Lemma free_dec : forall s l, free s l \/ ~ free s l.
Proof.
  induction s as [|x r IH]; intros l.
  - left. intros t [].
  - destruct (in_dec N.eq_dec l (held x)) as [Hin|Hnin].
    + right. intros Hf. apply (Hf x); simpl; auto.
    + destruct (IH l) as [Hf|Hnf].
      * left. intros t [<-|Ht]; auto.
      * right. intros Hf. apply Hnf. intros t Ht. apply Hf. simpl. auto.
Qed.

(* the core: in a stuck well-formed state nobody waits for a mutex *)
Lemma stuck_no_lock_waiter : forall s, wf_state s -> ~ can_step s ->
  forall n t l p, In t s -> prog t = Acq l :: p -> (N.to_nat (maxrank s - rank l) <= n)%nat -> False.
Proof.
  intros s Hwf Hstuck. induction n as [|n IH]; intros t l p Hin Hp Hm.
  - (* rank l >= maxrank: l is held by somebody whose next lock would exceed maxrank *)
    destruct (In_nth_error _ _ Hin) as [i Hi].
    destruct (free_dec s l) as [Hf|Hnf].
    { apply Hstuck. eexists. eexists. eapply step_acq; eauto. }
    destruct (not_free_holder _ _ Hnf) as [h [Hh Hl]].
    pose proof (maxrank_ge _ _ _ Hh Hl) as Hle.
    pose proof (Hwf h Hh) as Hwfh.
    destruct (In_nth_error _ _ Hh) as [k Hk].
    destruct (prog h) as [|e q] eqn:Hph.
    + simpl in Hwfh. rewrite Hwfh in Hl. destruct Hl.
    + destruct e as [l2|l2|c|c|x w]; simpl in Hwfh.
      * destruct Hwfh as [Hlt _]. specialize (Hlt _ Hl).
        destruct (free_dec s l2) as [Hf2|Hnf2].
        { apply Hstuck. eexists. eexists. eapply step_acq; eauto. }
        destruct (not_free_holder _ _ Hnf2) as [h2 [Hh2 Hl2]].
        pose proof (maxrank_ge _ _ _ Hh2 Hl2). lia.
      * apply Hstuck. eexists. eexists. eapply step_rel; eauto.
      * destruct Hwfh as [He _]. rewrite He in Hl. destruct Hl.
      * destruct Hwfh as [He _]. rewrite He in Hl. destruct Hl.
      * apply Hstuck. eexists. eexists. eapply step_acc; eauto.
  - destruct (In_nth_error _ _ Hin) as [i Hi].
    destruct (free_dec s l) as [Hf|Hnf].
    { apply Hstuck. eexists. eexists. eapply step_acq; eauto. }
    destruct (not_free_holder _ _ Hnf) as [h [Hh Hl]].
    pose proof (maxrank_ge _ _ _ Hh Hl) as Hle.
    pose proof (Hwf h Hh) as Hwfh.
    destruct (In_nth_error _ _ Hh) as [k Hk].
    destruct (prog h) as [|e q] eqn:Hph.
    + simpl in Hwfh. rewrite Hwfh in Hl. destruct Hl.
    + destruct e as [l2|l2|c|c|x w]; simpl in Hwfh.
      * destruct Hwfh as [Hlt _]. specialize (Hlt _ Hl).
        apply (IH h l2 q Hh Hph). lia.
      * apply Hstuck. eexists. eexists. eapply step_rel; eauto.
      * destruct Hwfh as [He _]. rewrite He in Hl. destruct Hl.
      * destruct Hwfh as [He _]. rewrite He in Hl. destruct Hl.
      * apply Hstuck. eexists. eexists. eapply step_acc; eauto.
Qed.

Lemma stuck_all_parked : forall s, wf_state s -> ~ can_step s -> forall t, In t s -> parked t.
Proof.
  intros s Hwf Hstuck t Hin. unfold parked.
  destruct (In_nth_error _ _ Hin) as [i Hi].
  pose proof (Hwf t Hin) as Hwft.
  destruct (prog t) as [|e q] eqn:Hp; auto. right.
  destruct e as [l|l|c|c|x w]; simpl in Hwft.
  - exfalso. eapply (stuck_no_lock_waiter s Hwf Hstuck _ t l q Hin Hp). apply Nat.le_refl.
  - exfalso. apply Hstuck. eexists. eexists. eapply step_rel; eauto.
  - destruct Hwft as [He _]. split; auto. exists c, q. auto.
  - destruct Hwft as [He _]. split; auto. exists c, q. auto.
  - exfalso. apply Hstuck. eexists. eexists. eapply step_acc; eauto.
Qed.

End Ranked.

(* ------------------------------------------------------------------ theorem 1 *)

(* If every thread acquires its locks in strictly increasing rank (i.e. the lock-order graph is
   acyclic), releases only what it holds, holds nothing when it ends and performs channel
   operations only while holding no lock, then a reachable state in which no thread can move
   consists solely of finished threads and of threads waiting at a channel operation with no lock
   held: no reachable state has a thread blocked on a mutex forever (no wait-for cycle through
   mutexes).  Stated without excluded middle: "stuck => nobody waits for a lock". *)
Theorem ranked_lock_order_no_deadlock : forall (rank : lock -> N) (ps : list (list ev)) (s : state),
  Forall (wf rank []) ps -> reachable ps s -> ~ can_step s ->
  forall t, In t s -> parked t.
Proof.
  intros rank ps s HF [tr Hex] Hstuck. apply (stuck_all_parked rank); auto.
  eapply wf_exec; eauto. apply wf_init; auto.
Qed.

Lemma wf_chan_free_parked : forall t, chan_free (prog t) -> parked t -> prog t = [].
Proof.
  intros t Hcf [Hp|[_ [c [p [Hp|Hp]]]]]; auto; exfalso.
  - specialize (Hcf (Send c)). rewrite Hp in Hcf. simpl in Hcf. auto.
  - specialize (Hcf (Recv c)). rewrite Hp in Hcf. simpl in Hcf. auto.
Qed.

Lemma chan_free_step : forall s lab s', step s lab s' ->
  (forall t, In t s -> chan_free (prog t)) -> (forall t, In t s' -> chan_free (prog t)).
Proof.
  intros s lab s' Hs Hcf. assert (Htl : forall t e p, In t s -> prog t = e :: p -> chan_free p).
  { intros t e p Hin Hp e' He'. apply (Hcf t Hin). rewrite Hp. simpl. auto. }
  inversion Hs; subst; intros u Hu.
  - apply In_upd in Hu. destruct Hu as [->|Hu]; auto. simpl. eapply Htl; eauto. eapply nth_error_In; eauto.
  - apply In_upd in Hu. destruct Hu as [->|Hu]; auto. simpl. eapply Htl; eauto. eapply nth_error_In; eauto.
  - apply In_upd in Hu. destruct Hu as [->|Hu]; auto. simpl. eapply Htl; eauto. eapply nth_error_In; eauto.
  - apply In_upd in Hu. destruct Hu as [->|Hu].
    + simpl. eapply Htl; eauto. eapply nth_error_In; eauto.
    + apply In_upd in Hu. destruct Hu as [->|Hu]; auto. simpl. eapply Htl; eauto. eapply nth_error_In; eauto.
Qed.

(* without channel operations: the only reachable states without a move are the final ones *)
Corollary ranked_lock_order_progress : forall rank ps s,
  Forall (wf rank []) ps -> Forall chan_free ps -> reachable ps s -> ~ can_step s -> finished s.
Proof.
  intros rank ps s HF HC Hr Hstuck. pose proof (ranked_lock_order_no_deadlock rank ps s HF Hr Hstuck) as H.
  destruct Hr as [tr Hex].
  assert (Hcf : forall t, In t s -> chan_free (prog t)).
  { clear H Hstuck. remember (init ps) as s0. assert (H0 : forall t, In t s0 -> chan_free (prog t)).
    { subst s0. intros t Hin. unfold init in Hin. apply in_map_iff in Hin. destruct Hin as [p [<- Hp]]. simpl.
      rewrite Forall_forall in HC. auto. }
    clear Heqs0. induction Hex; auto. apply IHHex. eapply chan_free_step; eauto. }
  intros t Hin. apply wf_chan_free_parked; auto.
Qed.

(* ------------------------------------------------------------------ theorem 2 *)

(* No thread returns holding a lock => a finished thread holds nothing, so a mutex that somebody
   waits for is always held by a thread that still has work to do (and which, by theorem 1, is not
   itself blocked forever on a mutex). *)
Theorem no_return_holding_lock_progress : forall rank ps s,
  Forall (wf rank []) ps -> reachable ps s ->
  (forall t, In t s -> prog t = [] -> held t = []) /\
  (forall t l p, In t s -> prog t = Acq l :: p -> ~ free s l ->
     exists h, In h s /\ In l (held h) /\ prog h <> []) /\
  (finished s -> forall l, free s l).
Proof.
  intros rank ps s HF [tr Hex].
  assert (Hwf : wf_state rank s) by (eapply wf_exec; eauto; apply wf_init; auto).
  assert (H1 : forall t, In t s -> prog t = [] -> held t = []).
  { intros t Hin Hp. specialize (Hwf t Hin). rewrite Hp in Hwf. exact Hwf. }
  split; [exact H1|]. split.
  - intros t l p Hin Hp Hnf. destruct (not_free_holder _ _ Hnf) as [h [Hh Hl]].
    exists h. repeat split; auto. intros Hph. rewrite (H1 h Hh Hph) in Hl. destruct Hl.
  - intros Hfin l t Hin. rewrite (H1 t Hin (Hfin t Hin)). auto.
Qed.

(* the hypothesis is needed: a thread that returns with the lock held blocks the next one forever *)
Example leak_deadlocks :
  let ps := [[Acq 0%N]; [Acq 0%N; Rel 0%N]] in
  exists s, reachable ps s /\ ~ can_step s /\ ~ finished s.
Proof.
  simpl. exists [mkT [0%N] []; mkT [] [Acq 0%N; Rel 0%N]]. split; [|split].
  - exists [(0%nat, Acq 0%N)]. econstructor; [|constructor].
    apply (step_acq (init [[Acq 0%N]; [Acq 0%N; Rel 0%N]]) 0 (mkT [] [Acq 0%N]) 0%N []); simpl; auto.
    intros t [<-|[<-|[]]]; simpl; auto.
  - intros [lab [s' Hs]]. inversion Hs; subst.
    + destruct i as [|[|i]]; simpl in H; inversion H; subst; simpl in *; try discriminate.
      inversion H0; subst. apply (H1 (mkT [0%N] [])); simpl; auto.
      destruct i; discriminate.
    + destruct i as [|[|i]]; simpl in H; inversion H; subst; simpl in *; try discriminate. destruct i; discriminate.
    + destruct i as [|[|i]]; simpl in H; inversion H; subst; simpl in *; try discriminate. destruct i; discriminate.
    + destruct i as [|[|i]]; simpl in H0; inversion H0; subst; simpl in *; try discriminate. destruct i; discriminate.
  - intros Hf. specialize (Hf (mkT [] [Acq 0%N; Rel 0%N])). simpl in Hf. assert (H : [Acq 0%N; Rel 0%N] = []) by auto. discriminate.
Qed.

(* ------------------------------------------------------------------ edge lists and ranks *)

Lemma conforms_wf : forall E rank, (forall a b, In (a, b) E -> (rank a < rank b)%N) ->
  forall p H, conforms E H p -> wf rank H p.
Proof.
  intros E rank HE. induction p as [|e p IH]; intros H Hc; simpl in *; auto.
  destruct e; simpl in *.
  - destruct Hc as [Hc1 Hc2]. split; auto.
  - destruct Hc as [Hc1 Hc2]. split; auto.
  - destruct Hc as [Hc1 Hc2]. split; auto.
  - destruct Hc as [Hc1 Hc2]. split; auto.
  - auto.
Qed.

Lemma acyclic_check_sound : forall E, acyclic_check E = true ->
  exists rank : lock -> N, forall a b, In (a, b) E -> (rank a < rank b)%N.
Proof.
  intros E Hc. unfold acyclic_check in Hc. exists (rank_of (compute_rank E)).
  intros a b Hin. rewrite forallb_forall in Hc. specialize (Hc _ Hin). simpl in Hc.
  apply N.ltb_lt in Hc. exact Hc.
Qed.

Lemma walk_in_rank : forall E (rank : N -> N), (forall a b, In (a, b) E -> (rank a < rank b)%N) ->
  forall w a, w <> [] -> walk_in E a w = true -> (rank a < rank (last w a))%N.
Proof.
  intros E rank HE. induction w as [|b w IH]; intros a Hne Hw; [congruence|].
  simpl in Hw. apply andb_true_iff in Hw. destruct Hw as [He Hw].
  apply existsb_exists in He. destruct He as [[x y] [Hin Hxy]]. simpl in Hxy.
  apply andb_true_iff in Hxy. destruct Hxy as [Hx Hy]. apply N.eqb_eq in Hx. apply N.eqb_eq in Hy. subst x y.
  specialize (HE _ _ Hin).
  destruct w as [|c w'].
  - simpl. exact HE.
  - assert (Hlast : last (b :: c :: w') a = last (c :: w') b).
    { clear. change (last (b :: c :: w') a) with (last (c :: w') a).
      revert c. induction w' as [|d w' IHw]; intros c; [reflexivity|].
      change (last (c :: d :: w') a) with (last (d :: w') a).
      change (last (c :: d :: w') b) with (last (d :: w') b). apply IHw. }
    rewrite Hlast. specialize (IH b ltac:(congruence) Hw). lia.
Qed.

Lemma cycle_refutes_rank : forall E w, is_cycle E w = true ->
  ~ exists rank : lock -> N, forall a b, In (a, b) E -> (rank a < rank b)%N.
Proof.
  intros E w Hc [rank HE]. unfold is_cycle in Hc. destruct w as [|a w']; [discriminate|].
  destruct w' as [|b w'']; [discriminate|].
  apply andb_true_iff in Hc. destruct Hc as [Hw Hl]. apply N.eqb_eq in Hl.
  pose proof (walk_in_rank E rank HE (b :: w'') a ltac:(congruence) Hw) as Hlt.
  rewrite Hl in Hlt. lia.
Qed.

Lemma dedup_pairs_In : forall l e, In e l -> In e (dedup_pairs l).
Proof.
  induction l as [|x r IH]; intros e Hin; [destruct Hin|]. simpl.
  destruct (existsb _ (dedup_pairs r)) eqn:Hex.
  - destruct Hin as [<-|Hin]; auto. apply existsb_exists in Hex. destruct Hex as [f [Hf Heq]].
    apply andb_true_iff in Heq. destruct Heq as [H1 H2]. apply N.eqb_eq in H1. apply N.eqb_eq in H2.
    destruct x, f; simpl in *; subst; auto.
  - destruct Hin as [<-|Hin]; simpl; auto.
Qed.

(* ------------------------------------------------------------------ theorem 3 *)

(* mutual exclusion *)
Definition excl (s : state) : Prop :=
  forall i j ti tj l, nth_error s i = Some ti -> nth_error s j = Some tj ->
    In l (held ti) -> In l (held tj) -> i = j.

Lemma excl_init : forall ps, excl (init ps).
Proof.
  intros ps i j ti tj l Hi Hj Hl. unfold init in Hi. apply nth_error_In in Hi. apply in_map_iff in Hi.
  destruct Hi as [p [<- _]]. simpl in Hl. destruct Hl.
Qed.

Lemma excl_step : forall s lab s', step s lab s' -> excl s -> excl s'.
Proof.
  intros s lab s' Hs Hex. inversion Hs; subst; intros a b ta tb l0 Ha Hb Hla Hlb.
  - apply nth_upd_cases in Ha. apply nth_upd_cases in Hb.
    destruct Ha as [[-> [-> _]]|[Hna Ha]]; destruct Hb as [[-> [-> _]]|[Hnb Hb]]; auto; simpl in *.
    + destruct Hla as [<-|Hla].
      * exfalso. apply (H1 tb (nth_error_In _ _ Hb)). auto.
      * eapply Hex; eauto.
    + destruct Hlb as [<-|Hlb].
      * exfalso. apply (H1 ta (nth_error_In _ _ Ha)). auto.
      * eapply Hex; eauto.
    + eapply Hex; eauto.
  - apply nth_upd_cases in Ha. apply nth_upd_cases in Hb.
    destruct Ha as [[-> [-> _]]|[Hna Ha]]; destruct Hb as [[-> [-> _]]|[Hnb Hb]]; auto; simpl in *.
    + apply In_remove_iff in Hla. eapply Hex; eauto. tauto.
    + apply In_remove_iff in Hlb. eapply Hex; eauto. tauto.
    + eapply Hex; eauto.
  - apply nth_upd_cases in Ha. apply nth_upd_cases in Hb.
    destruct Ha as [[-> [-> _]]|[Hna Ha]]; destruct Hb as [[-> [-> _]]|[Hnb Hb]]; auto; simpl in *;
      eapply Hex; eauto.
  - assert (Hsame : forall k u, nth_error (upd (upd s i (mkT (held ti) pi)) j (mkT (held tj) pj)) k = Some u ->
                      exists u0, nth_error s k = Some u0 /\ held u0 = held u).
    { intros k u Hk. apply nth_upd_cases in Hk. destruct Hk as [[-> [-> _]]|[Hnk Hk]].
      - exists tj. auto.
      - apply nth_upd_cases in Hk. destruct Hk as [[-> [-> _]]|[Hnk2 Hk]].
        + exists ti. auto.
        + exists u. auto. }
    destruct (Hsame _ _ Ha) as [ua [Hua Hha]]. destruct (Hsame _ _ Hb) as [ub [Hub Hhb]].
    rewrite <- Hha in Hla. rewrite <- Hhb in Hlb. eapply Hex; eauto.
Qed.

Lemma excl_exec : forall s tr s', exec s tr s' -> excl s -> excl s'.
Proof. induction 1; auto. intros. apply IHexec. eapply excl_step; eauto. Qed.

Definition holds_at (s : state) (i : nat) (m : lock) : Prop :=
  exists t, nth_error s i = Some t /\ In m (held t).

Lemma holds_dec : forall s i m, holds_at s i m \/ ~ holds_at s i m.
Proof.
  intros s i m. destruct (nth_error s i) as [t|] eqn:Hi.
  - destruct (in_dec N.eq_dec m (held t)) as [Hin|Hnin].
    + left. exists t. auto.
    + right. intros [t' [Ht' Hm]]. rewrite Hi in Ht'. inversion Ht'. subst. auto.
  - right. intros [t' [Ht' _]]. rewrite Hi in Ht'. discriminate.
Qed.

(* what a single step does to "thread i holds m" *)
Lemma step_holds_lost : forall s lab s' i m, step s lab s' -> holds_at s i m -> ~ holds_at s' i m ->
  lab = (i, Rel m).
Proof.
  intros s lab s' i m Hs [t [Hi Hm]] Hnot. inversion Hs; subst.
  - destruct (Nat.eq_dec i0 i) as [->|Hne].
    + exfalso. apply Hnot. eexists. split; [eapply nth_upd_eq; eauto|]. simpl.
      assert (t0 = t) by congruence. subst. auto.
    + exfalso. apply Hnot. exists t. split; auto. rewrite nth_upd_neq; auto.
  - destruct (Nat.eq_dec i0 i) as [->|Hne].
    + assert (t0 = t) by congruence. subst t0.
      destruct (N.eq_dec m l) as [->|Hml]; auto.
      exfalso. apply Hnot. eexists. split; [eapply nth_upd_eq; eauto|]. simpl. apply In_remove_iff. auto.
    + exfalso. apply Hnot. exists t. split; auto. rewrite nth_upd_neq; auto.
  - destruct (Nat.eq_dec i0 i) as [->|Hne].
    + exfalso. apply Hnot. eexists. split; [eapply nth_upd_eq; eauto|]. simpl.
      assert (t0 = t) by congruence. subst. auto.
    + exfalso. apply Hnot. exists t. split; auto. rewrite nth_upd_neq; auto.
  - exfalso. apply Hnot.
    destruct (Nat.eq_dec j i) as [->|Hnj].
    + eexists. split.
      * eapply nth_upd_eq. rewrite nth_upd_neq; eauto.
      * simpl. assert (tj = t) by congruence. subst. auto.
    + destruct (Nat.eq_dec i0 i) as [->|Hni].
      * eexists. split.
        -- rewrite nth_upd_neq; auto. eapply nth_upd_eq; eauto.
        -- simpl. assert (ti = t) by congruence. subst. auto.
      * exists t. split; auto. rewrite nth_upd_neq; auto. rewrite nth_upd_neq; auto.
Qed.

Lemma step_holds_gained : forall s lab s' j m, step s lab s' -> ~ holds_at s j m -> holds_at s' j m ->
  lab = (j, Acq m).
Proof.
  intros s lab s' j m Hs Hnot [t [Hj Hm]]. inversion Hs; subst.
  - apply nth_upd_cases in Hj. destruct Hj as [[-> [-> _]]|[Hne Hj]].
    + simpl in Hm. destruct Hm as [->|Hm]; auto. exfalso. apply Hnot. exists t0. auto.
    + exfalso. apply Hnot. exists t. auto.
  - apply nth_upd_cases in Hj. destruct Hj as [[-> [-> _]]|[Hne Hj]].
    + simpl in Hm. apply In_remove_iff in Hm. exfalso. apply Hnot. exists t0. tauto.
    + exfalso. apply Hnot. exists t. auto.
  - apply nth_upd_cases in Hj. destruct Hj as [[-> [-> _]]|[Hne Hj]].
    + simpl in Hm. exfalso. apply Hnot. exists t0. auto.
    + exfalso. apply Hnot. exists t. auto.
  - exfalso. apply Hnot. apply nth_upd_cases in Hj. destruct Hj as [[-> [-> _]]|[Hne Hj]].
    + exists tj. auto.
    + apply nth_upd_cases in Hj. destruct Hj as [[-> [-> _]]|[Hne2 Hj]].
      * exists ti. auto.
      * exists t. auto.
Qed.

Lemma exec_gain : forall s tr s' j m, exec s tr s' -> ~ holds_at s j m -> holds_at s' j m ->
  exists b c, tr = b ++ (j, Acq m) :: c.
Proof.
  induction 1 as [s|s lab s1 tr s2 Hs Hex IH]; intros Hnot Hh; [tauto|].
  destruct (holds_dec s1 j m) as [H1|H1].
  - rewrite (step_holds_gained _ _ _ _ _ Hs Hnot H1). exists [], tr. auto.
  - destruct (IH H1 Hh) as [b [c ->]]. exists (lab :: b), c. auto.
Qed.

Lemma exec_lose_then_gain : forall s tr s' i j m, exec s tr s' -> excl s -> i <> j ->
  holds_at s i m -> holds_at s' j m ->
  exists a b c, tr = a ++ (i, Rel m) :: b ++ (j, Acq m) :: c.
Proof.
  induction 1 as [s|s lab s1 tr s2 Hs Hex IH]; intros Hx Hne Hi Hj.
  - exfalso. destruct Hi as [ti [Hi Hmi]]. destruct Hj as [tj [Hj Hmj]]. apply Hne. eapply Hx; eauto.
  - pose proof (excl_step _ _ _ Hs Hx) as Hx1.
    destruct (holds_dec s1 i m) as [H1|H1].
    + destruct (IH Hx1 Hne H1 Hj) as [a [b [c ->]]]. exists (lab :: a), b, c. auto.
    + rewrite (step_holds_lost _ _ _ _ _ Hs Hi H1).
      assert (Hnj : ~ holds_at s1 j m).
      { (* before the step i held m, so j did not; a Rel step of i does not give m to j *)
        intros Hj1. assert (Hnj0 : ~ holds_at s j m).
        { intros [tj [Hj0 Hmj]]. destruct Hi as [ti [Hi0 Hmi]]. apply Hne. eapply Hx; eauto. }
        pose proof (step_holds_gained _ _ _ _ _ Hs Hnj0 Hj1) as Hlab.
        rewrite (step_holds_lost _ _ _ _ _ Hs Hi H1) in Hlab. inversion Hlab. }
      destruct (exec_gain _ _ _ _ _ Hex Hnj Hj) as [b [c ->]]. exists [], b, c. auto.
Qed.

(* If thread i accesses location x while holding m and later thread j <> i accesses x while
   holding m (which is what the lock-set discipline guarantees when m guards x), then between the
   two accesses i releases m and afterwards j acquires m: the accesses are ordered by a
   release/acquire pair on the same mutex (synchronises-with in the Go memory model). *)
Theorem lockset_discipline_orders_conflicts :
  forall ps tr1 s1 s1' tr2 s2 s2' i j x w1 w2 m,
    exec (init ps) tr1 s1 -> step s1 (i, Acc x w1) s1' ->
    exec s1' tr2 s2 -> step s2 (j, Acc x w2) s2' ->
    i <> j -> holds_at s1 i m -> holds_at s2 j m ->
    exists a b c, tr2 = a ++ (i, Rel m) :: b ++ (j, Acq m) :: c.
Proof.
  intros ps tr1 s1 s1' tr2 s2 s2' i j x w1 w2 m Hex1 Hs1 Hex2 Hs2 Hne Hi Hj.
  assert (Hx1 : excl s1) by (eapply excl_exec; eauto; apply excl_init).
  assert (Hx1' : excl s1') by (eapply excl_step; eauto).
  assert (Hi' : holds_at s1' i m).
  { destruct (holds_dec s1' i m) as [H|H]; auto.
    pose proof (step_holds_lost _ _ _ _ _ Hs1 Hi H) as Hl. inversion Hl. }
  eapply exec_lose_then_gain; eauto.
Qed.

(* the discipline, as a property of programs: a thread about to access x holds the guard of x *)
Definition disc_state (G : loc -> option lock) (s : state) : Prop :=
  forall t, In t s -> disciplined G (held t) (prog t).

Lemma disc_init : forall G ps, Forall (disciplined G []) ps -> disc_state G (init ps).
Proof.
  intros G ps HF t Hin. unfold init in Hin. apply in_map_iff in Hin. destruct Hin as [p [<- Hp]].
  simpl. rewrite Forall_forall in HF. auto.
Qed.

Lemma disc_step : forall G s lab s', step s lab s' -> disc_state G s -> disc_state G s'.
Proof.
  intros G s lab s' Hs Hd. inversion Hs; subst; intros u Hu.
  - apply In_upd in Hu. destruct Hu as [->|Hu]; auto. simpl.
    pose proof (Hd t (nth_error_In _ _ H)) as Ht. rewrite H0 in Ht. simpl in Ht. tauto.
  - apply In_upd in Hu. destruct Hu as [->|Hu]; auto. simpl.
    pose proof (Hd t (nth_error_In _ _ H)) as Ht. rewrite H0 in Ht. simpl in Ht. tauto.
  - apply In_upd in Hu. destruct Hu as [->|Hu]; auto. simpl.
    pose proof (Hd t (nth_error_In _ _ H)) as Ht. rewrite H0 in Ht. simpl in Ht. tauto.
  - apply In_upd in Hu. destruct Hu as [->|Hu].
    + simpl. pose proof (Hd tj (nth_error_In _ _ H1)) as Ht. rewrite H3 in Ht. simpl in Ht. tauto.
    + apply In_upd in Hu. destruct Hu as [->|Hu]; auto. simpl.
      pose proof (Hd ti (nth_error_In _ _ H0)) as Ht. rewrite H2 in Ht. simpl in Ht. tauto.
Qed.

Lemma disc_exec : forall G s tr s', exec s tr s' -> disc_state G s -> disc_state G s'.
Proof. induction 1; auto. intros. apply IHexec. eapply disc_step; eauto. Qed.

Lemma disc_access_holds : forall G s i x w s' m, disc_state G s -> step s (i, Acc x w) s' ->
  G x = Some m -> holds_at s i m.
Proof.
  intros G s i x w s' m Hd Hs HG. inversion Hs as [| |s0 i0 t x0 w0 p Hn Hp|]; subst.
  pose proof (Hd t (nth_error_In _ _ Hn)) as Ht. rewrite Hp in Ht. simpl in Ht. destruct Ht as [Hm _].
  exists t. split; auto.
Qed.

(* program-level form: if all threads follow the lock-set discipline G, any two accesses to a
   guarded location by different threads are ordered by release/acquire of its guard *)
Corollary disciplined_accesses_ordered :
  forall G ps tr1 s1 s1' tr2 s2 s2' i j x w1 w2 m,
    Forall (disciplined G []) ps -> G x = Some m ->
    exec (init ps) tr1 s1 -> step s1 (i, Acc x w1) s1' ->
    exec s1' tr2 s2 -> step s2 (j, Acc x w2) s2' -> i <> j ->
    exists a b c, tr2 = a ++ (i, Rel m) :: b ++ (j, Acq m) :: c.
Proof.
  intros G ps tr1 s1 s1' tr2 s2 s2' i j x w1 w2 m HF HG Hex1 Hs1 Hex2 Hs2 Hne.
  assert (Hd1 : disc_state G s1) by (eapply disc_exec; eauto; apply disc_init; auto).
  assert (Hd2 : disc_state G s2).
  { eapply disc_exec; [exact Hex2|]. eapply disc_step; eauto. }
  eapply lockset_discipline_orders_conflicts; eauto.
  - eapply disc_access_holds; eauto.
  - eapply disc_access_holds; eauto.
Qed.

(* the hypothesis is needed: without the guard two accesses can be adjacent in a trace *)
Example unguarded_accesses_unordered :
  let ps := [[Acc 0%N true]; [Acc 0%N false]] in
  exists s, exec (init ps) [(0%nat, Acc 0%N true); (1%nat, Acc 0%N false)] s.
Proof.
  simpl. eexists. econstructor.
  - apply (step_acc _ 0 (mkT [] [Acc 0%N true]) 0%N true []); reflexivity.
  - econstructor; [|constructor]. simpl.
    apply (step_acc _ 1 (mkT [] [Acc 0%N false]) 0%N false []); reflexivity.
Qed.

(* ------------------------------------------------------------------ examples (non-vacuity) *)

(* two threads taking locks 0 then 1 satisfy the hypotheses of theorem 1 with rank = identity *)
Example ranked_example :
  Forall (wf (fun l => l) []) [[Acq 0%N; Acq 1%N; Rel 1%N; Rel 0%N]; [Acq 0%N; Acc 7%N true; Rel 0%N]].
Proof.
  repeat constructor; simpl; try tauto; try (intros a [<-|[]]; lia); auto.
Qed.

(* the inverted order reaches a state where both threads wait for a mutex for ever *)
Example inversion_deadlocks :
  let ps := [[Acq 0%N; Acq 1%N; Rel 1%N; Rel 0%N]; [Acq 1%N; Acq 0%N; Rel 0%N; Rel 1%N]] in
  exists s, reachable ps s /\ ~ can_step s /\ exists t l p, In t s /\ prog t = Acq l :: p.
Proof.
  simpl.
  exists [mkT [0%N] [Acq 1%N; Rel 1%N; Rel 0%N]; mkT [1%N] [Acq 0%N; Rel 0%N; Rel 1%N]]. split; [|split].
  - exists [(0%nat, Acq 0%N); (1%nat, Acq 1%N)]. econstructor.
    + apply (step_acq _ 0 (mkT [] [Acq 0%N; Acq 1%N; Rel 1%N; Rel 0%N]) 0%N [Acq 1%N; Rel 1%N; Rel 0%N]); simpl; auto.
      intros t [<-|[<-|[]]]; simpl; auto.
    + econstructor; [|constructor]. simpl.
      apply (step_acq [mkT [0%N] [Acq 1%N; Rel 1%N; Rel 0%N]; mkT [] [Acq 1%N; Acq 0%N; Rel 0%N; Rel 1%N]]
               1 (mkT [] [Acq 1%N; Acq 0%N; Rel 0%N; Rel 1%N]) 1%N [Acq 0%N; Rel 0%N; Rel 1%N]); simpl; auto.
      intros t [<-|[<-|[]]]; simpl; auto. intros [H|[]]. discriminate.
  - intros [lab [s' Hs]]. inversion Hs; subst.
    + destruct i as [|[|i]]; simpl in H; inversion H; subst; simpl in *.
      * inversion H0; subst. apply (H1 (mkT [1%N] [Acq 0%N; Rel 0%N; Rel 1%N])); simpl; auto.
      * inversion H0; subst. apply (H1 (mkT [0%N] [Acq 1%N; Rel 1%N; Rel 0%N])); simpl; auto.
      * destruct i; discriminate.
    + destruct i as [|[|i]]; simpl in H; inversion H; subst; simpl in *; try discriminate. destruct i; discriminate.
    + destruct i as [|[|i]]; simpl in H; inversion H; subst; simpl in *; try discriminate. destruct i; discriminate.
    + destruct i as [|[|i]]; simpl in H0; inversion H0; subst; simpl in *; try discriminate. destruct i; discriminate.
  - exists (mkT [0%N] [Acq 1%N; Rel 1%N; Rel 0%N]), 1%N, [Rel 1%N; Rel 0%N]. simpl. auto.
Qed.

(* a send under a lock whose receiver needs that lock blocks both for ever *)
Example rendezvous_under_lock_deadlocks :
  let ps := [[Acq 0%N; Send 5%N; Rel 0%N]; [Acq 0%N; Rel 0%N; Recv 5%N]] in
  exists s, reachable ps s /\ ~ can_step s /\ exists t, In t s /\ held t <> [] /\ exists c p, prog t = Send c :: p.
Proof.
  simpl. exists [mkT [0%N] [Send 5%N; Rel 0%N]; mkT [] [Acq 0%N; Rel 0%N; Recv 5%N]]. split; [|split].
  - exists [(0%nat, Acq 0%N)]. econstructor; [|constructor].
    apply (step_acq (init [[Acq 0%N; Send 5%N; Rel 0%N]; [Acq 0%N; Rel 0%N; Recv 5%N]])
             0 (mkT [] [Acq 0%N; Send 5%N; Rel 0%N]) 0%N [Send 5%N; Rel 0%N]); simpl; auto.
    intros t [<-|[<-|[]]]; simpl; auto.
  - intros [lab [s' Hs]]. inversion Hs; subst.
    + destruct i as [|[|i]]; simpl in H; inversion H; subst; simpl in *; try discriminate.
      * inversion H0; subst. apply (H1 (mkT [0%N] [Send 5%N; Rel 0%N])); simpl; auto.
      * destruct i; discriminate.
    + destruct i as [|[|i]]; simpl in H; inversion H; subst; simpl in *; try discriminate. destruct i; discriminate.
    + destruct i as [|[|i]]; simpl in H; inversion H; subst; simpl in *; try discriminate. destruct i; discriminate.
    + destruct j as [|[|j]]; simpl in H1; inversion H1; subst; simpl in *; try discriminate. destruct j; discriminate.
  - exists (mkT [0%N] [Send 5%N; Rel 0%N]). simpl. split; auto. split; [discriminate|]. eauto.
Qed.
