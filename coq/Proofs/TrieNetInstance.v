(* C01: the trie over the machine-word prefixes of package net (Model/TrieNet.v) is simulated by
   the trie over their bit strings, so the refinement theorems of Proofs/TrieProofs.v hold for it.
   The interface obligations of Proofs/TrieSim.v are discharged from the C15 theorems
   (Contains_correct, Equal_correct, Valid_correct, BitAtPosition_correct, trie_precondition_iff,
   GetSupernet_trie), for canonical prefixes (Valid: no host bit set) of one family, every length
   0..32 resp. 0..128. *)
From Coq Require Import List Bool Arith ZArith Lia Permutation.
From BioVerif Require Import Lib.Word Model.NetArith Spec.NetSpec Gen.NetGen
  Proofs.NetBits Proofs.NetProofs Proofs.NetSupernet.
From BioVerif Require Import Lib.BitPfx Model.Trie Model.TrieNet Spec.TrieSpec
  Proofs.BitPfxFacts Proofs.TrieSim Proofs.TrieProofs Proofs.TrieNetGen.
Import ListNotations.

(* the significant bits of a prefix: the first len bits of the address (NetSpec.pbits) *)
Definition bits_of (p : pfx) : BitPfx.bits := firstn (plen_nat p) (pbits p).

(* canonical prefix of family fam (true = IPv4): well formed words, len <= 32/128, no host bits *)
Definition canon (fam : bool) (p : pfx) : Prop :=
  wf_pfx p /\ legacy (addr p) = fam /\ Valid p = true.

(* ---- list facts linking the two notions of "longest common prefix" *)
Lemma lcp_list_nat : forall l l' : list bool, BitPfx.lcp l l' = firstn (NetSpec.lcp l l') l.
Proof.
  induction l as [|a l IH]; intros [|b l']; simpl; auto.
  destruct (Bool.eqb a b); simpl; [rewrite IH|]; reflexivity.
Qed.

Lemma lcp_nat_firstn : forall (l l' : list bool) a b,
  NetSpec.lcp (firstn a l) (firstn b l') = Nat.min (NetSpec.lcp l l') (Nat.min a b).
Proof.
  induction l as [|x l IH]; intros l' a b.
  - rewrite firstn_nil. reflexivity.
  - destruct a as [|a]; [simpl; lia|].
    destruct l' as [|y l']; [rewrite firstn_nil; simpl; lia|].
    destruct b as [|b]; [simpl; lia|].
    simpl. destruct (Bool.eqb x y); [rewrite IH; lia|reflexivity].
Qed.

Section Canon.
  Variable fam : bool.

  Lemma canon_len : forall p, canon fam p -> (plen_nat p <= length (pbits p))%nat.
  Proof.
    intros p ((Wa & Hl) & _). unfold pbits, plen_nat. rewrite length_ip_bits. lia.
  Qed.

  Lemma canon_width : forall p, canon fam p -> length (pbits p) = if fam then 32%nat else 128%nat.
  Proof.
    intros p (_ & F & _). unfold pbits. rewrite length_ip_bits. unfold width. rewrite F.
    destruct fam; reflexivity.
  Qed.

  Lemma bits_of_length : forall p, canon fam p -> length (bits_of p) = plen_nat p.
  Proof. intros p H. unfold bits_of. rewrite firstn_length. pose proof (canon_len p H). lia. Qed.

  Lemma pbits_decomp : forall p, canon fam p ->
    pbits p = bits_of p ++ repeat false (length (pbits p) - plen_nat p).
  Proof.
    intros p (W & F & V). apply (Valid_correct p W) in V. unfold valid_spec in V.
    rewrite <- V. unfold bits_of. symmetry. apply firstn_skipn.
  Qed.

  Lemma plen_nat_inj : forall p x, canon fam p -> canon fam x -> plen_nat p = plen_nat x -> plen p = plen x.
  Proof.
    intros p x ((_ & Hp) & _) ((_ & Hx) & _) E. unfold plen_nat in E. apply Z2Nat.inj; lia.
  Qed.

  (* ---- the interface obligations *)
  Lemma ob_equal : forall p x, canon fam p -> canon fam x ->
    pfx_equal p x = beq (bits_of p) (bits_of x).
  Proof.
    intros p x Hp Hx. apply Bool.eq_true_iff_eq.
    pose proof Hp as (Wp & Fp & Vp). pose proof Hx as (Wx & Fx & Vx).
    rewrite (Equal_correct p x Wp Wx), beq_true_iff. split.
    - intros (_ & L & B). unfold bits_of, plen_nat. rewrite L, B. reflexivity.
    - intros E.
      assert (L : plen_nat p = plen_nat x).
      { rewrite <- (bits_of_length p Hp), <- (bits_of_length x Hx), E. reflexivity. }
      split; [unfold same_family; congruence|]. split; [apply plen_nat_inj; auto|].
      rewrite (pbits_decomp p Hp), (pbits_decomp x Hx), E, L.
      rewrite (canon_width p Hp), (canon_width x Hx). reflexivity.
  Qed.

  Lemma ob_contains : forall p x, canon fam p -> canon fam x ->
    Contains p x = bcontains (bits_of p) (bits_of x).
  Proof.
    intros p x Hp Hx. apply Bool.eq_true_iff_eq.
    pose proof Hp as (Wp & Fp & Vp). pose proof Hx as (Wx & Fx & Vx).
    pose proof (canon_len p Hp) as Lp. pose proof (canon_len x Hx) as Lx.
    pose proof (bits_of_length p Hp) as Bp. pose proof (bits_of_length x Hx) as Bx.
    assert (Hnn : 0 <= plen p /\ 0 <= plen x) by (destruct Wp as (_ & ?), Wx as (_ & ?); lia).
    rewrite (Contains_correct p x Wp Wx), bcontains_iff. split.
    - intros (_ & L & B).
      assert (Ln : (plen_nat p < plen_nat x)%nat) by (unfold plen_nat; lia).
      split.
      + apply is_pre_iff. exists (skipn (plen_nat p) (bits_of x)).
        rewrite <- (firstn_skipn (plen_nat p) (bits_of x)) at 1. f_equal.
        unfold bits_of at 1. rewrite firstn_firstn. replace (Nat.min (plen_nat p) (plen_nat x)) with (plen_nat p) by lia.
        symmetry. exact B.
      + intros E. rewrite <- Bp, <- Bx, E in Ln. lia.
    - intros (Hpre & Hne).
      assert (Ln : (plen_nat p < plen_nat x)%nat).
      { pose proof (is_pre_length _ _ Hpre) as Hle. rewrite Bp, Bx in Hle.
        destruct (Nat.eq_dec (plen_nat p) (plen_nat x)) as [E|E]; [|lia].
        exfalso. apply Hne. apply is_pre_len_eq; auto. rewrite Bp, Bx. lia. }
      split; [unfold same_family; congruence|]. split; [unfold plen_nat in Ln; lia|].
      apply is_pre_split in Hpre. destruct Hpre as (t & Ht).
      assert (F1 : firstn (plen_nat p) (bits_of x) = bits_of p).
      { rewrite Ht. rewrite <- Bp at 1. rewrite firstn_app, Nat.sub_diag, firstn_all. simpl.
        apply app_nil_r. }
      unfold bits_of at 1 in F1. rewrite firstn_firstn in F1.
      replace (Nat.min (plen_nat p) (plen_nat x)) with (plen_nat p) in F1 by lia.
      symmetry. exact F1.
  Qed.

  Lemma ob_len : forall p, canon fam p -> n_len p = blen (bits_of p).
  Proof. intros p H. unfold blen. rewrite (bits_of_length p H). reflexivity. Qed.

  Lemma ob_bit : forall p c, canon fam p -> canon fam c ->
    n_bitAt p (n_len c + 1) = bitAt (bits_of p) (n_len c + 1).
  Proof.
    intros p c Hp Hc. pose proof Hp as ((Wa & Wl) & Fp & Vp).
    assert (Hk : (n_len c <= 128)%nat).
    { destruct Hc as ((_ & Hl) & _). unfold n_len, width in *. destruct (legacy (addr c)); lia. }
    unfold n_bitAt. rewrite BitAtPosition_correct by (auto; lia).
    rewrite bit_spec_nth by lia.
    replace (Z.to_nat (Z.of_nat (n_len c + 1) - 1)) with (n_len c) by lia.
    rewrite Nat.add_1_r. cbn [bitAt].
    change (ip_bits (addr p)) with (pbits p). rewrite (pbits_decomp p Hp).
    destruct (Nat.lt_ge_cases (n_len c) (length (bits_of p))) as [L|L].
    - rewrite app_nth1 by exact L. reflexivity.
    - rewrite app_nth2 by exact L. rewrite nth_repeat_false. symmetry. apply nth_overflow. exact L.
  Qed.

  Lemma pfx_equal_sym : forall p x, pfx_equal p x = pfx_equal x p.
  Proof.
    intros p x. apply Bool.eq_true_iff_eq. rewrite !pfx_equal_eq. split; congruence.
  Qed.

  Lemma ob_supernet : forall p c, canon fam p -> canon fam c ->
    pfx_equal c p = false -> Contains c p = false -> Contains p c = false ->
    canon fam (n_supernet p c) /\ bits_of (n_supernet p c) = BitPfx.lcp (bits_of p) (bits_of c).
  Proof.
    intros p c Hp Hc E C1 C2.
    pose proof Hp as (Wp & Fp & Vp). pose proof Hc as (Wc & Fc & Vc).
    rewrite pfx_equal_sym in E.
    assert (SF : same_family (addr p) (addr c)) by (unfold same_family; congruence).
    destruct (GetSupernet_trie p c Wp Wc SF Vp Vc E C2 C1) as (s & Hs & Hl & Hb & Ws & Fs & _ & _ & Vs & _).
    assert (Hk : (NetSpec.lcp (pbits p) (pbits c) < Nat.min (plen_nat p) (plen_nat c))%nat).
    { pose proof (proj1 (trie_precondition_iff p c Wp Wc SF Vp Vc) (conj E (conj C2 C1))) as K.
      destruct Wp as (_ & ?), Wc as (_ & ?). unfold plen_nat.
      rewrite Z2Nat.inj_min in K. exact K. }
    unfold n_supernet. rewrite Hs. split.
    - split; [exact Ws|]. split; [unfold same_family in Fs; congruence | exact Vs].
    - set (k := NetSpec.lcp (pbits p) (pbits c)) in *.
      unfold bits_of at 1. unfold plen_nat at 1. rewrite Hl, Nat2Z.id, Hb. unfold supernet_bits.
      rewrite firstn_keep_first by (auto; apply lcp_le_length).
      rewrite lcp_list_nat. unfold bits_of. rewrite lcp_nat_firstn. fold k.
      rewrite firstn_firstn. f_equal. lia.
  Qed.
End Canon.

(* ---- the same obligations for the definitions regenerated from the Go source *)
Section CanonGen.
  Variable fam : bool.

  Lemma obg_equal : forall p x, canon fam p -> canon fam x ->
    g_Prefix_Equal p x = beq (bits_of p) (bits_of x).
  Proof. intros. rewrite tg_Equal_eq. apply (ob_equal fam); auto. Qed.

  Lemma obg_contains : forall p x, canon fam p -> canon fam x ->
    g_Prefix_Contains p x = bcontains (bits_of p) (bits_of x).
  Proof. intros. rewrite tg_Contains_eq. apply (ob_contains fam); auto. Qed.

  Lemma obg_bit : forall p c, canon fam p -> canon fam c ->
    g_bitAt p (n_len c + 1) = bitAt (bits_of p) (n_len c + 1).
  Proof. intros. rewrite tg_bitAt_eq. apply (ob_bit fam); auto. Qed.

  Lemma obg_supernet : forall p c, canon fam p -> canon fam c ->
    g_Prefix_Equal c p = false -> g_Prefix_Contains c p = false -> g_Prefix_Contains p c = false ->
    canon fam (g_supernet p c) /\ bits_of (g_supernet p c) = BitPfx.lcp (bits_of p) (bits_of c).
  Proof.
    intros p c Hp Hc. rewrite tg_Equal_eq, !tg_Contains_eq, tg_supernet_eq. apply (ob_supernet fam); auto.
  Qed.
End CanonGen.

(* ---- from the simulation to the refinement statement, for any instance that satisfies the
   obligations against the bit-string instance *)
Section SimRefines.
  Variable P : Type.
  Variable peq : P -> P -> bool.
  Hypothesis peq_refl : forall a, peq a a = true.
  Variable fam : bool.
  Variables (eqX contX : pfx -> pfx -> bool) (supX : pfx -> pfx -> pfx) (bitX : pfx -> nat -> bool).
  Hypothesis Oeq : forall p x, canon fam p -> canon fam x -> eqX p x = beq (bits_of p) (bits_of x).
  Hypothesis Ocont : forall p x, canon fam p -> canon fam x ->
    contX p x = bcontains (bits_of p) (bits_of x).
  Hypothesis Obit : forall p c, canon fam p -> canon fam c ->
    bitX p (n_len c + 1) = bitAt (bits_of p) (n_len c + 1).
  Hypothesis Osup : forall p c, canon fam p -> canon fam c ->
    eqX c p = false -> contX c p = false -> contX p c = false ->
    canon fam (supX p c) /\ bits_of (supX p c) = BitPfx.lcp (bits_of p) (bits_of c).

  Definition canon_op (o : op pfx P) : Prop := okop pfx P (canon fam) o.
  Definition bits_op : op pfx P -> bop P := mapop pfx bits P bits_of.
  Definition bits_route : route pfx P -> broute P := fr pfx bits P bits_of.

  Local Notation runX := (run pfx P peq eqX contX supX bitX n_len).

  Theorem sim_refines : forall (ops : list (op pfx P)) (q : pfx),
    Forall canon_op ops -> canon fam q ->
    let t := runX ops in
    let m := spec_run P peq (map bits_op ops) in
    option_map bits_route (t_get pfx P eqX bitX n_len t q) = spec_get P m (bits_of q) /\
    Permutation (map bits_route (t_lpm pfx P eqX contX t q)) (spec_lpm P m (bits_of q)) /\
    Permutation (map bits_route (t_getLonger pfx P eqX contX bitX n_len t q))
                (spec_longer P m (bits_of q)) /\
    Permutation (map bits_route (t_dump pfx P t)) m /\
    NoDup (map fst (t_dump pfx P t)) /\
    count pfx P t = Z.of_nat (length m).
  Proof.
    intros ops q Hops Hq t m.
    destruct (run_sim pfx bits P peq eqX contX supX bitX n_len beq bcontains BitPfx.lcp bitAt blen
                bits_of (canon fam) Oeq Ocont (ob_len fam) Obit Osup ops Hops) as (R & K).
    destruct (observations_sim pfx bits P eqX contX bitX n_len beq bcontains bitAt blen
                bits_of (canon fam) Oeq Ocont (ob_len fam) Obit (runX ops) q K Hq)
      as (G & L & M & D & C).
    fold t in G, L, M, D, C, R. rewrite R in G, L, M, D, C.
    change (run bits P peq beq bcontains BitPfx.lcp bitAt blen (map (mapop pfx bits P bits_of) ops))
      with (b_run P peq (map bits_op ops)) in *.
    unfold bits_route. unfold broute, route in *.
    split; [rewrite G; apply (refines_get P peq peq_refl)|].
    split; [rewrite L; apply (refines_lpm P peq peq_refl)|].
    split; [rewrite M; apply (refines_longer P peq peq_refl)|].
    destruct (refines_dump P peq peq_refl (map bits_op ops)) as (DP & DN).
    split; [rewrite D; exact DP|]. split.
    - unfold bt_dump in DN. rewrite <- D in DN.
      rewrite map_map in DN. cbn [fr fst] in DN. rewrite <- (map_map fst bits_of) in DN.
      eapply NoDup_map_inv. exact DN.
    - rewrite C. apply (refines_count P peq peq_refl).
  Qed.
End SimRefines.

(* ---- the two instances *)
Section NetRefines.
  Variable P : Type.
  Variable peq : P -> P -> bool.
  Hypothesis peq_refl : forall a, peq a a = true.

  (* hand-written transcription of package net (Model/NetArith.v) *)
  Theorem net_refines : forall (fam : bool) (ops : list (nop P)) (q : pfx),
    Forall (canon_op P fam) ops -> canon fam q ->
    let t := n_run P peq ops in
    let m := spec_run P peq (map (bits_op P) ops) in
    option_map (bits_route P) (nt_get P t q) = spec_get P m (bits_of q) /\
    Permutation (map (bits_route P) (nt_lpm P t q)) (spec_lpm P m (bits_of q)) /\
    Permutation (map (bits_route P) (nt_getLonger P t q)) (spec_longer P m (bits_of q)) /\
    Permutation (map (bits_route P) (nt_dump P t)) m /\
    NoDup (map fst (nt_dump P t)) /\
    nt_count P t = Z.of_nat (length m).
  Proof.
    intros fam. exact (sim_refines P peq peq_refl fam pfx_equal Contains n_supernet n_bitAt
      (ob_equal fam) (ob_contains fam) (ob_bit fam) (ob_supernet fam)).
  Qed.

  (* definitions regenerated from net/prefix.go and net/ip.go (Gen/NetGen.v) *)
  Theorem gen_refines : forall (fam : bool) (ops : list (nop P)) (q : pfx),
    Forall (canon_op P fam) ops -> canon fam q ->
    let t := g_run P peq ops in
    let m := spec_run P peq (map (bits_op P) ops) in
    option_map (bits_route P) (gt_get P t q) = spec_get P m (bits_of q) /\
    Permutation (map (bits_route P) (gt_lpm P t q)) (spec_lpm P m (bits_of q)) /\
    Permutation (map (bits_route P) (gt_getLonger P t q)) (spec_longer P m (bits_of q)) /\
    Permutation (map (bits_route P) (nt_dump P t)) m /\
    NoDup (map fst (nt_dump P t)) /\
    nt_count P t = Z.of_nat (length m).
  Proof.
    intros fam. exact (sim_refines P peq peq_refl fam g_Prefix_Equal g_Prefix_Contains g_supernet g_bitAt
      (obg_equal fam) (obg_contains fam) (obg_bit fam) (obg_supernet fam)).
  Qed.
End NetRefines.

(* ---- witnesses *)
Definition w_ten8 : pfx := mkpfx (IPv4 167772160) 8.        (* 10.0.0.0/8 *)
Definition w_ten8h : pfx := mkpfx (IPv4 167772161) 8.       (* 10.0.0.1/8: host bit set *)
Definition w_ten9 : pfx := mkpfx (IPv4 167772160) 9.        (* 10.0.0.0/9 *)
Definition w_ten9b : pfx := mkpfx (IPv4 176160768) 9.       (* 10.128.0.0/9 *)
Definition w_doc32 : pfx := mkpfx (IPv6 2306139568115548160 0) 32.   (* 2001:db8::/32 *)
Definition w_zero6 : pfx := mkpfx (IPv6 0 0) 0.             (* ::/0 *)

Lemma canon_dec_ok : forall fam p,
  0 <= hi (addr p) < 2 ^ 64 -> 0 <= lo (addr p) < 2 ^ 64 ->
  (if legacy (addr p) then hi (addr p) = 0 /\ lo (addr p) < 2 ^ 32 else True) ->
  0 <= plen p <= width (addr p) -> legacy (addr p) = fam -> Valid p = true -> canon fam p.
Proof.
  intros fam p Hh Hl Hv Hlen F V. split; [|auto]. split; [|exact Hlen].
  unfold wf_ip. destruct (legacy (addr p)); [destruct Hv; lia | lia].
Qed.

Lemma noncanonical_breaks_word_trie :
  exists p1 p2 : pfx, p1 <> p2 /\ wf_pfx p1 /\ wf_pfx p2 /\ Valid p1 = true /\ Valid p2 = false /\
    let t := n_run N N.eqb [Add _ _ p1 1%N; Add _ _ p2 2%N] in
    nt_get N t p1 = None /\ nt_dump N t = [(p2, [2%N])] /\ nt_count N t = 2%Z.
Proof.
  exists w_ten8, w_ten8h. split; [discriminate|].
  split; [unfold wf_pfx, wf_ip; cbn; lia|]. split; [unfold wf_pfx, wf_ip; cbn; lia|].
  vm_compute. repeat split.
Qed.

Definition net_example_statement : Prop :=
  canon true w_ten8 /\ canon true w_ten9 /\ canon true w_ten9b /\ canon false w_doc32 /\ canon false w_zero6 /\
  let t := n_run N N.eqb [Add _ _ w_ten9 1%N; Add _ _ w_ten9b 2%N; Remove _ _ w_ten9 1%N; Add _ _ w_ten9 3%N] in
  nt_get N t w_ten8 = None /\
  nt_getLonger N t w_ten8 = [(w_ten9, [3%N]); (w_ten9b, [2%N])] /\
  nt_count N t = 2%Z /\
  let t6 := n_run N N.eqb [Add _ _ w_doc32 1%N; Add _ _ w_zero6 2%N] in
  nt_lpm N t6 w_doc32 = [(w_zero6, [2%N]); (w_doc32, [1%N])].
Lemma canon_witness : forall fam p,
  (0 <=? hi (addr p)) && (hi (addr p) <? 2 ^ 64) && (0 <=? lo (addr p)) && (lo (addr p) <? 2 ^ 64) &&
  (if legacy (addr p) then (hi (addr p) =? 0) && (lo (addr p) <? 2 ^ 32) else true) &&
  (0 <=? plen p) && (plen p <=? width (addr p)) && Bool.eqb (legacy (addr p)) fam && Valid p = true ->
  canon fam p.
Proof.
  intros fam p H.
  apply andb_true_iff in H. destruct H as [H V].
  apply andb_true_iff in H. destruct H as [H F].
  apply andb_true_iff in H. destruct H as [H L2].
  apply andb_true_iff in H. destruct H as [H L1].
  apply andb_true_iff in H. destruct H as [H W].
  apply andb_true_iff in H. destruct H as [H A4].
  apply andb_true_iff in H. destruct H as [H A3].
  apply andb_true_iff in H. destruct H as [A1 A2].
  apply canon_dec_ok; try lia; auto.
  - destruct (legacy (addr p)); auto. apply andb_true_iff in W. lia.
  - apply Bool.eqb_prop; auto.
Qed.

Lemma net_example : net_example_statement.
Proof.
  unfold net_example_statement.
  split; [apply canon_witness; vm_compute; reflexivity|].
  split; [apply canon_witness; vm_compute; reflexivity|].
  split; [apply canon_witness; vm_compute; reflexivity|].
  split; [apply canon_witness; vm_compute; reflexivity|].
  split; [apply canon_witness; vm_compute; reflexivity|].
  vm_compute. repeat split.
Qed.
