(* C16: every run of the decoder model, on any byte string, with fuel > length of the input,
   ends in Ok or Err (never Panic, never OutOfFuel), and the bytes requested by length-driven
   allocations are bounded by C + K * (input length).

   One invariant carries all of it:  good fuel K C cmin Q m  says that m, started on a buffer b with
   length b < fuel, (1) does not panic or run out of fuel, (2) on success leaves a rest with
   len rest + cmin <= len b and a value satisfying Q, (3) keeps the potential
   alloc + K * len(buffer) from growing, and on failure is at most C above it. *)
From Coq Require Import List NArith Bool Arith Lia ZArith.
From Coq Require Import ZifyBool ZifyNat ZifyN.
Import ListNotations.
From BioVerif Require Import Model.BGPCodec Spec.BGPCodecSpec.
Local Open Scope N_scope.
Ltac Zify.zify_post_hook ::= Z.div_mod_to_equations.

Definition good {A} (fuel : nat) (K C cmin : N) (Q : A -> Prop) (m : M A) : Prop :=
  forall b al, (length b < fuel)%nat ->
  match m b al with
  | (Ok a r, al') => Q a /\ len r + cmin <= len b /\ al' + K * len r <= al + K * len b
  | (Err, al') => al' <= al + K * len b + C
  | (Panic _, _) => False
  | (OutOfFuel, _) => False
  end.

Definition top {A} (a : A) : Prop := True.

(* ------------------------------------------------------------------ list length facts *)

Lemma len_nil : forall A, len (@nil A) = 0.
Proof. reflexivity. Qed.
Lemma len_cons : forall A (x : A) l, len (x :: l) = len l + 1.
Proof. intros. unfold len. simpl length. lia. Qed.
Lemma len_firstn : forall A n (l : list A), len (firstn n l) = N.min (N.of_nat n) (len l).
Proof. intros. unfold len. rewrite firstn_length. lia. Qed.
Lemma len_skipn : forall A n (l : list A), len (skipn n l) = len l - N.of_nat n.
Proof. intros. unfold len. rewrite skipn_length. lia. Qed.
Lemma len_map : forall A B (f : A -> B) l, len (map f l) = len l.
Proof. intros. unfold len. rewrite map_length. reflexivity. Qed.
Lemma len_app : forall A (l1 l2 : list A), len (l1 ++ l2) = len l1 + len l2.
Proof. intros. unfold len. rewrite app_length. lia. Qed.
Lemma len_repeat : forall A (x : A) n, len (repeat x n) = N.of_nat n.
Proof. intros. unfold len. rewrite repeat_length. reflexivity. Qed.

(* ------------------------------------------------------------------ structural rules *)

Lemma good_mono : forall A fuel K C c Q K' C' c' (Q' : A -> Prop) m,
  good fuel K C c Q m -> K <= K' -> C <= C' -> c' <= c -> (forall a, Q a -> Q' a) ->
  good fuel K' C' c' Q' m.
Proof.
  intros A fuel K C c Q K' C' c' Q' m H HK HC Hc HQ b al Hb.
  specialize (H b al Hb). destruct (m b al) as [[a r| | |] al']; auto.
  - destruct H as (Ha & Hl & Hal). split; [auto|]. split; [lia|].
    assert (Hr : len r <= len b) by lia.
    assert (K * len r <= K * len b) by (apply N.mul_le_mono_l; exact Hr).
    assert (K' * len r <= K' * len b) by (apply N.mul_le_mono_l; exact Hr).
    assert (E : K' = K + (K' - K)) by lia.
    assert ((K' - K) * len r <= (K' - K) * len b) by (apply N.mul_le_mono_l; exact Hr).
    rewrite E. rewrite !N.mul_add_distr_r. lia.
  - assert (K * len b <= K' * len b) by (apply N.mul_le_mono_r; exact HK). lia.
Qed.

Lemma good_ret : forall A fuel K C (Q : A -> Prop) a, Q a -> good fuel K C 0 Q (ret a).
Proof. intros. intros b al Hb. unfold ret. split; [auto|]. lia. Qed.

Lemma good_fail : forall A fuel K C c (Q : A -> Prop), good fuel K C c Q fail.
Proof. intros. intros b al Hb. unfold fail. lia. Qed.

Lemma good_guard : forall fuel K C c, good fuel K C 0 (fun _ => c = true) (guard c).
Proof.
  intros. unfold guard. destruct c.
  - apply good_ret. reflexivity.
  - apply good_fail.
Qed.

Lemma good_bind : forall A B fuel K C c1 c2 c (Q1 : A -> Prop) (Q : B -> Prop) (m : M A) (f : A -> M B),
  good fuel K C c1 Q1 m ->
  (forall a, Q1 a -> good fuel K C c2 Q (f a)) ->
  c <= c1 + c2 ->
  good fuel K C c Q (bind m f).
Proof.
  intros A B fuel K C c1 c2 c Q1 Q m f Hm Hf Hc b al Hb.
  unfold bind. specialize (Hm b al Hb).
  destruct (m b al) as [[a r| | |] al']; auto.
  destruct Hm as (Ha & Hl & Hal).
  assert (Hr : (length r < fuel)%nat) by (unfold len in Hl; lia).
  specialize (Hf a Ha r al' Hr).
  destruct (f a r al') as [[a2 r2| | |] al2]; auto.
  - destruct Hf as (Ha2 & Hl2 & Hal2). split; [auto|]. split; lia.
  - lia.
Qed.

Lemma good_bind_eq : forall A B fuel K C c1 c2 (Q1 : A -> Prop) (Q : B -> Prop) (m : M A) (f : A -> M B),
  good fuel K C c1 Q1 m ->
  (forall a, Q1 a -> good fuel K C c2 Q (f a)) ->
  good fuel K C (c1 + c2) Q (bind m f).
Proof. intros. eapply good_bind; eauto. lia. Qed.

(* the first step consumes at least one byte: the continuation may run with one unit of fuel less *)
Lemma good_bind_strict : forall A B f K C c1 c2 c (Q1 : A -> Prop) (Q : B -> Prop) (m : M A) (k : A -> M B),
  good (S f) K C c1 Q1 m -> 1 <= c1 ->
  (forall a, Q1 a -> good f K C c2 Q (k a)) ->
  c <= c1 + c2 ->
  good (S f) K C c Q (bind m k).
Proof.
  intros A B f K C c1 c2 c Q1 Q m k Hm H1 Hk Hc b al Hb.
  unfold bind. specialize (Hm b al Hb).
  destruct (m b al) as [[a r| | |] al']; auto.
  destruct Hm as (Ha & Hl & Hal).
  assert (Hr : (length r < f)%nat) by (unfold len in Hl; lia).
  specialize (Hk a Ha r al' Hr).
  destruct (k a r al') as [[a2 r2| | |] al2]; auto.
  - destruct Hk as (Ha2 & Hl2 & Hal2). split; [auto|]. split; lia.
  - lia.
Qed.

Lemma good_fuel_le : forall A f f' K C c (Q : A -> Prop) m, (f' <= f)%nat -> good f K C c Q m -> good f' K C c Q m.
Proof. intros A f f' K C c Q m Hle H b al Hb. apply H. lia. Qed.

Lemma good_fuel0 : forall A K C c (Q : A -> Prop) m, good 0 K C c Q m.
Proof. intros. intros b al Hb. lia. Qed.

(* allocate n bytes speculatively, then a computation that consumes at least cmin on success *)
Lemma good_alloc_then : forall A fuel K K' C C' cmin (Q : A -> Prop) n (m : M A),
  good fuel K' C' cmin Q m -> K' <= K -> n <= (K - K') * cmin -> n + C' <= C ->
  good fuel K C cmin Q (bind (alloc n) (fun _ => m)).
Proof.
  intros A fuel K K' C C' cmin Q n m Hm HK Hn HC b al Hb.
  unfold bind, alloc. specialize (Hm b (al + n) Hb).
  destruct (m b (al + n)) as [[a r| | |] al']; auto.
  - destruct Hm as (Ha & Hl & Hal). split; [auto|]. split; [lia|].
    assert (E : K = K' + (K - K')) by lia.
    assert (Hd : (K - K') * (len r + cmin) <= (K - K') * len b) by (apply N.mul_le_mono_l; exact Hl).
    rewrite N.mul_add_distr_l in Hd.
    rewrite E. rewrite !N.mul_add_distr_r. lia.
  - assert (K' * len b <= K * len b) by (apply N.mul_le_mono_r; exact HK). lia.
Qed.

(* ------------------------------------------------------------------ primitive readers *)

Lemma byte_lt : forall x, byte x < 256.
Proof. intros. unfold byte. apply N.mod_lt. lia. Qed.

Lemma good_readByte : forall fuel K C, good fuel K C 1 (fun x => x < 256) readByte.
Proof.
  intros. intros b al Hb. unfold readByte. destruct b as [|x r].
  - lia.
  - split; [apply byte_lt|]. rewrite len_cons. lia.
Qed.

(* step through  x <- m ;; k : solve m with tactic l, leave the continuation, shelve the arithmetic *)
Ltac gbindc l c := eapply good_bind with (c2 := c); [ l | | shelve ].
Ltac gbind l := gbindc l 0.
Ltac gbyte := gbind ltac:(apply good_readByte).
Ltac gbytec c := gbindc ltac:(apply good_readByte) c.

Lemma good_readU16 : forall fuel K C, good fuel K C 2 (fun x => x < 65536) readU16.
Proof.
  intros. unfold readU16.
  gbytec 1. intros a Ha. cbv beta in *.
  gbyte. intros a2 Ha2. cbv beta in *.
  apply good_ret. lia.
  Unshelve. all: lia.
Qed.

Lemma good_readU32 : forall fuel K C, good fuel K C 4 (fun x => x < 4294967296) readU32.
Proof.
  intros. unfold readU32.
  gbytec 3. intros a Ha. cbv beta in *.
  gbytec 2. intros a2 Ha2. cbv beta in *.
  gbytec 1. intros a3 Ha3. cbv beta in *.
  gbyte. intros a4 Ha4. cbv beta in *.
  apply good_ret. lia.
  Unshelve. all: lia.
Qed.

Lemma good_binRead : forall fuel K C n, good fuel K C n (fun p => len p = n) (binRead n).
Proof.
  intros. intros b al Hb. unfold binRead.
  destruct (len (firstn (N.to_nat n) b) =? n) eqn:E.
  - rewrite len_map. apply N.eqb_eq in E. split; [exact E|].
    rewrite len_firstn in E. rewrite len_skipn. split; [lia|].
    assert (K * (len b - N.of_nat (N.to_nat n)) <= K * len b) by (apply N.mul_le_mono_l; lia). lia.
  - lia.
Qed.

Lemma good_dumpN : forall fuel K C n, good fuel K C n top (dumpN n).
Proof.
  intros. intros b al Hb. unfold dumpN.
  destruct (len (firstn (N.to_nat n) b) =? n) eqn:E.
  - apply N.eqb_eq in E. split; [exact I|].
    rewrite len_firstn in E. rewrite len_skipn. split; [lia|].
    assert (K * (len b - N.of_nat (N.to_nat n)) <= K * len b) by (apply N.mul_le_mono_l; lia). lia.
  - lia.
Qed.

Lemma good_bufRead : forall fuel K C n,
  good fuel K C (if n =? 0 then 0 else 1) (fun pk => len (fst pk) = n /\ snd pk <= n) (bufRead n).
Proof.
  intros. intros b al Hb. unfold bufRead.
  destruct (n =? 0) eqn:E0.
  - apply N.eqb_eq in E0. subst n. cbn [fst snd]. rewrite len_nil. repeat split; lia.
  - apply N.eqb_neq in E0. destruct b as [|x r]; [lia|].
    set (b := x :: r) in *.
    cbn [fst snd]. rewrite len_app, len_map, len_repeat, len_skipn, len_firstn.
    assert (Hlb : 1 <= len b) by (subst b; rewrite len_cons; lia).
    split; [split; lia|]. split; [lia|].
    assert (K * (len b - N.of_nat (N.to_nat (N.min (N.of_nat (N.to_nat n)) (len b)))) <= K * len b)
      by (apply N.mul_le_mono_l; lia). lia.
Qed.

Lemma good_bufReadFull : forall fuel K C n, good fuel K C n (fun p => len p = n) (bufReadFull n).
Proof.
  intros. intros b al Hb. unfold bufReadFull, bind, bufRead.
  destruct (n =? 0) eqn:E0.
  - apply N.eqb_eq in E0. subst n. cbn. repeat split; lia.
  - apply N.eqb_neq in E0. destruct b as [|x r]; [lia|].
    set (b := x :: r) in *.
    destruct (negb (len (firstn (N.to_nat n) b) <? n)) eqn:E.
    + unfold guard, ret. rewrite len_firstn in E.
      rewrite len_app, len_map, len_repeat, len_skipn, !len_firstn.
      split; [lia|]. split; [lia|].
      assert (K * (len b - N.of_nat (N.to_nat (N.min (N.of_nat (N.to_nat n)) (len b)))) <= K * len b)
        by (apply N.mul_le_mono_l; lia). lia.
    + unfold guard, fail.
      assert (K * len (skipn (N.to_nat (len (firstn (N.to_nat n) b))) b) <= K * len b)
        by (apply N.mul_le_mono_l; rewrite len_skipn; lia). lia.
Qed.

Lemma good_read4 : forall fuel K C, good fuel K C 4 top read4.
Proof.
  intros. unfold read4.
  gbind ltac:(apply good_bufReadFull). intros p Hp. cbv beta.
  apply good_ret. exact I.
  Unshelve. all: lia.
Qed.

Lemma good_getBuf : forall fuel K C, good fuel K C 0 top getBuf.
Proof. intros. intros b al Hb. unfold getBuf. split; [exact I|]. lia. Qed.

Lemma good_dropBuf : forall fuel K C k, good fuel K C 0 top (dropBuf k).
Proof.
  intros. intros b al Hb. unfold dropBuf. split; [exact I|]. rewrite len_skipn. split; [lia|].
  assert (K * (len b - N.of_nat k) <= K * len b) by (apply N.mul_le_mono_l; lia). lia.
Qed.

Lemma good_repeatM : forall A fuel K C c (m : M A) n,
  good fuel K C c top m -> good fuel K C (N.of_nat n * c) top (repeatM n m).
Proof.
  intros A fuel K C c m n Hm. induction n as [|n IH].
  - cbn [repeatM]. apply good_ret. exact I.
  - cbn [repeatM].
    gbindc ltac:(exact Hm) (N.of_nat n * c). intros x _.
    gbind ltac:(exact IH). intros r _.
    apply good_ret. exact I.
    Unshelve. all: lia.
Qed.

(* alloc n ;; x <- m1 ;; f x   where m1 allocates nothing and consumes at least c1 with n <= K * c1 *)
Lemma good_alloc_bind : forall A B fuel K C C1 c1 c2 c (Q1 : A -> Prop) (Q : B -> Prop) n (m1 : M A) (f : A -> M B),
  good fuel 0 C1 c1 Q1 m1 -> n <= K * c1 -> n + C1 <= C ->
  (forall a, Q1 a -> good fuel K C c2 Q (f a)) -> c <= c1 + c2 ->
  good fuel K C c Q (bind (alloc n) (fun _ => bind m1 f)).
Proof.
  intros A B fuel K C C1 c1 c2 c Q1 Q n m1 f Hm1 Hn HC Hf Hc b al Hb.
  unfold bind, alloc. specialize (Hm1 b (al + n) Hb).
  destruct (m1 b (al + n)) as [[a r| | |] al1]; auto.
  - destruct Hm1 as (Ha & Hl & Hal). rewrite !N.mul_0_l in Hal.
    assert (Hr : (length r < fuel)%nat) by (unfold len in Hl; lia).
    specialize (Hf a Ha r al1 Hr).
    assert (Hd : K * (len r + c1) <= K * len b) by (apply N.mul_le_mono_l; exact Hl).
    rewrite N.mul_add_distr_l in Hd.
    destruct (f a r al1) as [[a2 r2| | |] al2]; auto.
    + destruct Hf as (Ha2 & Hl2 & Hal2). split; [auto|]. split; lia.
    + lia.
  - rewrite !N.mul_0_l in Hm1. lia.
Qed.

(* ------------------------------------------------------------------ NLRI level: K = 1, C = 32 *)

Lemma ipFromBytes_some : forall l a, ipFromBytes l = Some a -> len l = 4 \/ len l = 16.
Proof.
  intros l a H. unfold ipFromBytes in H.
  destruct (len l =? 4) eqn:E4; [left; lia|].
  destruct (len l =? 16) eqn:E16; [right; lia|]. discriminate.
Qed.

Lemma good_deserializePrefix : forall fuel K C b pl afi, good fuel K C 0 top (deserializePrefix b pl afi).
Proof.
  intros. unfold deserializePrefix.
  gbind ltac:(apply good_guard). intros _ _.
  gbind ltac:(apply good_guard). intros _ _.
  destruct (afi =? 1).
  - apply good_ret. exact I.
  - destruct (ipFromBytes _).
    + gbind ltac:(apply good_guard). intros _ _. apply good_ret. exact I.
    + apply good_fail.
  Unshelve. all: lia.
Qed.

Lemma good_decodeLabels : forall K C fuel pl cons acc, pl < 256 ->
  good fuel K C 0 (fun t => snd (fst t) < 256) (decodeLabels fuel pl cons acc).
Proof.
  intros K C. induction fuel as [|f IH]; intros pl cons acc Hpl; [apply good_fuel0|].
  cbn [decodeLabels].
  eapply good_bind_strict with (c2 := 0); [apply good_bufRead | cbn; lia | | shelve].
  intros [lb k] _. cbv zeta.
  gbind ltac:(apply good_guard). intros u Hg. cbv beta in Hg.
  destruct (N.odd _).
  - apply good_ret. cbn [fst snd]. lia.
  - apply IH. lia.
  Unshelve. all: cbn; lia.
Qed.

Lemma bytesInAddr_le : forall p, p < 256 -> bytesInAddr p <= 32.
Proof. intros. unfold bytesInAddr. lia. Qed.

Lemma good_decodeNLRI : forall fuel afi safi ap, good fuel 1 32 1 top (decodeNLRI fuel afi safi ap).
Proof.
  intros. unfold decodeNLRI.
  gbindc ltac:(instantiate (1 := top); instantiate (1 := 0); destruct ap;
              [ gbind ltac:(apply good_readU32); intros ? ?; apply good_ret; exact I
              | apply good_ret; exact I ]) 1.
  intros [pid cons] _.
  gbyte. intros pl Hpl. cbv beta zeta in *.
  gbind ltac:(instantiate (1 := fun t => snd (fst t) < 256); instantiate (1 := 0); destruct (safi =? 4);
              [ apply good_decodeLabels; exact Hpl | apply good_ret; cbn [fst snd]; exact Hpl ]).
  intros [[labels pl2] cons2] Hq. cbn [fst snd] in Hq. cbv beta zeta.
  pose proof (bytesInAddr_le pl2 Hq) as Hn.
  eapply good_alloc_bind with (c2 := 0) (C1 := 0); [apply good_bufReadFull | lia | lia | | lia].
  intros bytes Hb. cbv beta.
  gbind ltac:(apply good_deserializePrefix). intros pfx _.
  apply good_ret. exact I.
  Unshelve. all: lia.
Qed.

Lemma good_decodeNLRIs : forall fuel length p afi safi ap acc,
  good fuel 1 32 0 top (decodeNLRIs fuel length p afi safi ap acc).
Proof.
  induction fuel as [|f IH]; intros; [apply good_fuel0|].
  cbn [decodeNLRIs]. destruct (p <? length).
  - eapply good_bind_strict with (c2 := 0); [apply good_decodeNLRI | lia | | shelve].
    intros [n c] _. apply IH.
  - gbind ltac:(apply good_guard). intros u _. apply good_ret. exact I.
  Unshelve. all: lia.
Qed.

Lemma good_MPReachBody : forall fuel o, good fuel 1 32 0 top (deserializeMPReachBody fuel o).
Proof.
  intros. unfold deserializeMPReachBody.
  gbind ltac:(apply good_readU16). intros afi _.
  gbyte. intros safi _.
  gbyte. intros nhl Hnhl. cbv beta in Hnhl.
  gbind ltac:(apply good_getBuf). intros variable _. cbv zeta.
  gbind ltac:(apply good_guard). intros u Hg. cbv beta in Hg.
  destruct (len variable <? (if nhl =? 32 then 16 else nhl)) eqn:E1.
  { exfalso. destruct (nhl =? 32) eqn:E32; lia. }
  destruct (ipFromBytes _) as [nh|] eqn:EI; [|apply good_fail].
  apply ipFromBytes_some in EI. rewrite len_map, len_firstn in EI.
  destruct (len variable - nhl =? 0) eqn:E0.
  { apply good_ret. exact I. }
  destruct (len variable <? (1 + nhl) mod 256) eqn:E2.
  { exfalso. destruct (nhl =? 32) eqn:E32; lia. }
  gbind ltac:(apply good_dropBuf). intros _ _.
  gbind ltac:(apply good_getBuf). intros rest _.
  gbind ltac:(apply good_decodeNLRIs). intros nl _.
  apply good_ret. exact I.
  Unshelve. all: lia.
Qed.

Lemma good_MPUnreachBody : forall fuel o, good fuel 1 32 0 top (deserializeMPUnreachBody fuel o).
Proof.
  intros. unfold deserializeMPUnreachBody.
  gbind ltac:(apply good_readU16). intros afi _.
  gbyte. intros safi _.
  gbind ltac:(apply good_getBuf). intros rest _.
  destruct (len rest =? 0).
  - apply good_ret. exact I.
  - gbind ltac:(apply good_decodeNLRIs). intros nl _. apply good_ret. exact I.
  Unshelve. all: lia.
Qed.

(* what a computation that is good at K = 1 does to the allocation count on a buffer of its own *)
Definition innerOK {A} (fuel : nat) (L extra : N) (inner : M A) : Prop :=
  forall sub al, len sub = L -> (length sub < fuel)%nat ->
  match inner sub al with
  | (Ok _ _, al') => al' <= al + extra
  | (Err, al') => al' <= al + extra + 32
  | (Panic _, _) => False
  | (OutOfFuel, _) => False
  end.

Lemma innerOK_prefix : forall A fuel L c n (body : M A),
  n <= L -> good fuel 1 32 0 top body ->
  innerOK fuel L (2 * L) (bind (guard c) (fun _ => bind (alloc n) (fun _ => body))).
Proof.
  intros A fuel L c n body Hn Hb sub al HL Hs.
  unfold bind, guard, alloc. destruct c; unfold ret, fail; [|lia].
  specialize (Hb sub (al + n) Hs). destruct (body sub (al + n)) as [[a r| | |] al']; auto; lia.
Qed.

(* b := make([]byte, L); read exactly L bytes; parse them with inner *)
Lemma good_subparse : forall A fuel L (inner : M A),
  L < 65536 -> innerOK fuel L (2 * L) inner -> good fuel 3 65535 0 top (subparse L inner).
Proof.
  intros A fuel L inner HL Hin b al Hb.
  unfold subparse. unfold bind at 1. unfold alloc. unfold bind at 1.
  pose proof (good_bufReadFull fuel 0 0 L b (al + L) Hb) as Hr.
  destruct (bufReadFull L b (al + L)) as [[sub r| | |] al1]; try contradiction.
  - destruct Hr as (Hs & Hl & Hal). rewrite !N.mul_0_l in Hal.
    unfold runSub.
    assert (Hsf : (length sub < fuel)%nat) by (unfold len in *; lia).
    specialize (Hin sub al1 Hs Hsf).
    destruct (inner sub al1) as [[a r2| | |] al2]; try contradiction.
    + split; [exact I|]. split; lia.
    + lia.
  - rewrite !N.mul_0_l in Hr. lia.
Qed.

(* ------------------------------------------------------------------ attribute level: K = 3, C = 65535 *)

Notation good3 := (fun fuel => good fuel 3 65535).

Lemma good_lift : forall A fuel c (Q : A -> Prop) m, good fuel 1 32 c Q m -> good fuel 3 65535 c Q m.
Proof. intros. eapply good_mono; eauto; lia. Qed.

Lemma good_decodeASN : forall fuel K C asnLen, good fuel K C 2 top (decodeASN asnLen).
Proof.
  intros. unfold decodeASN. destruct (asnLen =? 4).
  - eapply good_mono; [apply (good_readU32 fuel K C) | lia | lia | lia | intros; exact I].
  - eapply good_mono; [apply (good_readU16 fuel K C) | lia | lia | lia | intros; exact I].
Qed.

Lemma good_decodeASPath : forall fuel L asnLen p acc,
  good fuel 3 65535 0 top (decodeASPath fuel L asnLen p acc).
Proof.
  induction fuel as [|f IH]; intros; [apply good_fuel0|].
  cbn [decodeASPath]. destruct (p <? L);
    [|gbind ltac:(apply good_guard); intros u _; apply good_ret; exact I].
  eapply good_bind_strict with (c2 := 0); [apply good_readByte | lia | | shelve].
  intros ty _.
  gbyte. intros count Hc. cbv beta zeta in *.
  gbind ltac:(apply good_guard). intros u1 _.
  gbind ltac:(apply good_guard). intros u2 _.
  eapply good_alloc_bind with (c2 := 0) (C1 := 0);
    [apply good_repeatM; apply good_decodeASN | lia | lia | | lia].
  intros asns _. cbv beta.
  apply IH.
  Unshelve. all: lia.
Qed.

Lemma good_decodeU32List : forall fuel L, L < 65536 -> good fuel 3 65535 0 top (decodeU32List L).
Proof.
  intros fuel L HL. unfold decodeU32List.
  gbind ltac:(apply good_guard). intros u Hg. cbv beta in Hg.
  eapply good_mono with (c := N.of_nat (N.to_nat (L / 4)) * 4) (K := 3) (C := 65535) (Q := top);
    [|lia|lia|lia|auto].
  eapply good_alloc_then with (K' := 0) (C' := 0); [apply good_repeatM; apply good_read4 | lia | lia | lia].
  Unshelve. all: lia.
Qed.

Lemma good_decodeLarge : forall fuel L, L < 65536 -> good fuel 3 65535 0 top (decodeLarge L).
Proof.
  intros fuel L HL. unfold decodeLarge.
  gbind ltac:(apply good_guard). intros u Hg. cbv beta in Hg.
  eapply good_mono with (c := N.of_nat (N.to_nat (L / 12)) * 12) (K := 3) (C := 65535) (Q := top);
    [|lia|lia|lia|auto].
  eapply good_alloc_then with (K' := 0) (C' := 0); [apply good_repeatM | lia | lia | lia].
  gbindc ltac:(apply good_read4) 8. intros a _.
  gbindc ltac:(apply good_read4) 4. intros b _.
  gbind ltac:(apply good_read4). intros c _.
  apply good_ret. exact I.
  Unshelve. all: lia.
Qed.

Lemma good_decodeU32Dump : forall fuel K C L, good fuel K C 0 top (decodeU32Dump L).
Proof.
  intros. unfold decodeU32Dump.
  gbind ltac:(apply good_guard). intros u0 _.
  gbind ltac:(apply good_read4). intros v _.
  gbind ltac:(apply good_dumpN). intros u _.
  apply good_ret. exact I.
  Unshelve. all: lia.
Qed.

Lemma innerOK_MPReach : forall fuel o L, innerOK fuel L (2 * L) (deserializeMPReach fuel o L).
Proof. intros. unfold deserializeMPReach. apply innerOK_prefix; [lia|apply good_MPReachBody]. Qed.

Lemma innerOK_MPUnreach : forall fuel o L, innerOK fuel L (2 * L) (deserializeMPUnreach fuel o L).
Proof. intros. unfold deserializeMPUnreach. apply innerOK_prefix; [lia|apply good_MPUnreachBody]. Qed.

Lemma good_decodeAttrValue : forall fuel o ty L, L < 65536 ->
  good fuel 3 65535 0 top (decodeAttrValue fuel o ty L).
Proof.
  intros fuel o ty L HL. unfold decodeAttrValue.
  repeat match goal with |- good _ _ _ _ _ (if ?c then _ else _) => destruct c end.
  - gbind ltac:(apply good_guard). intros u0 _.
    gbyte. intros v _. gbind ltac:(apply good_dumpN). intros u _. apply good_ret. exact I.
  - apply good_decodeASPath.
  - gbind ltac:(apply good_guard). intros u0 _.
    gbind ltac:(apply good_readU32). intros v _. apply good_ret. exact I.
  - gbind ltac:(apply good_guard). intros u0 _.
    gbind ltac:(apply good_readU32). intros v _. apply good_ret. exact I.
  - gbind ltac:(apply good_guard). intros u0 _.
    gbind ltac:(apply good_readU32). intros v _. apply good_ret. exact I.
  - gbind ltac:(apply good_guard). intros u0 _.
    gbind ltac:(apply good_readU16). intros a _. gbind ltac:(apply good_readU32). intros ad _.
    gbind ltac:(apply good_dumpN). intros u _. apply good_ret. exact I.
  - gbind ltac:(apply good_guard). intros u0 _. apply good_ret. exact I.
  - gbind ltac:(apply good_decodeU32List; exact HL). intros l _. apply good_ret. exact I.
  - apply good_decodeU32Dump.
  - gbind ltac:(apply good_decodeU32List; exact HL). intros l _. apply good_ret. exact I.
  - apply good_subparse; [exact HL|apply innerOK_MPReach].
  - apply good_subparse; [exact HL|apply innerOK_MPUnreach].
  - apply good_decodeU32Dump.
  - gbind ltac:(apply good_decodeLarge; exact HL). intros l _. apply good_ret. exact I.
  - eapply good_alloc_bind with (c2 := 0) (C1 := 0); [apply good_binRead | lia | lia | | lia].
    intros v _. apply good_ret. exact I.
  Unshelve. all: lia.
Qed.

Lemma good_decodePathAttr : forall fuel o, good fuel 3 65535 1 top (decodePathAttr fuel o).
Proof.
  intros. unfold decodePathAttr.
  gbyte. intros flags _.
  gbyte. intros ty _. cbv zeta.
  gbind ltac:(instantiate (1 := fun t => fst t < 65536); instantiate (1 := 0); destruct (N.testbit flags 4);
              [ gbind ltac:(apply good_readU16); intros x Hx; apply good_ret; exact Hx
              | gbyte; intros x Hx; apply good_ret; cbn [fst]; cbv beta in Hx; lia ]).
  intros [L n] HL. cbn [fst] in HL.
  gbind ltac:(apply good_decodeAttrValue; exact HL). intros v _.
  apply good_ret. exact I.
  Unshelve. all: lia.
Qed.

Lemma good_decodePathAttrsLoop : forall fuel o tpal p h1 h2 h3 acc,
  good fuel 3 65535 0 top (decodePathAttrsLoop fuel o tpal p h1 h2 h3 acc).
Proof.
  induction fuel as [|f IH]; intros; [apply good_fuel0|].
  cbn [decodePathAttrsLoop]. destruct (p <? tpal).
  - eapply good_bind_strict with (c2 := 0); [apply good_decodePathAttr | lia | | shelve].
    intros [pa c] _. apply IH.
  - gbind ltac:(apply good_guard). intros u _. apply good_ret. exact I.
  Unshelve. all: lia.
Qed.

Lemma good_decodePathAttrs : forall fuel o tpal, good fuel 3 65535 0 top (decodePathAttrs fuel o tpal).
Proof.
  intros. unfold decodePathAttrs. destruct (tpal =? 0).
  - apply good_ret. exact I.
  - apply good_decodePathAttrsLoop.
Qed.

Lemma good_decodeUpdate : forall fuel o l, good fuel 3 65535 0 top (decodeUpdate fuel o l).
Proof.
  intros. unfold decodeUpdate.
  gbind ltac:(apply good_readU16). intros wlen _.
  gbind ltac:(apply good_lift; apply good_decodeNLRIs). intros wd _.
  gbind ltac:(apply good_readU16). intros tpal _.
  gbind ltac:(apply good_guard). intros u0 _.
  gbind ltac:(apply good_decodePathAttrs). intros attrs _. cbv zeta.
  destruct (0 <? _).
  - gbind ltac:(apply good_lift; apply good_decodeNLRIs). intros nl _.
    gbind ltac:(apply good_guard). intros u1 _. apply good_ret. exact I.
  - apply good_ret. exact I.
  Unshelve. all: lia.
Qed.

(* ------------------------------------------------------------------ OPEN, NOTIFICATION, header *)

Lemma good_decodeCapValue : forall fuel K C code L, good fuel K C 0 top (decodeCapValue code L).
Proof.
  intros. unfold decodeCapValue.
  repeat match goal with |- good _ _ _ _ _ (if ?c then _ else _) => destruct c end.
  - gbind ltac:(apply good_readU16). intros afi _. gbyte. intros r _. gbyte. intros safi _.
    apply good_ret. exact I.
  - gbind ltac:(apply good_guard). intros u _.
    gbind ltac:(apply good_repeatM with (c := 0)). 2: { intros l _. apply good_ret. exact I. }
    gbind ltac:(apply good_readU16). intros afi _. gbyte. intros safi _. gbyte. intros sr _.
    apply good_ret. exact I.
  - gbind ltac:(apply good_readU32). intros a _. apply good_ret. exact I.
  - gbyte. intros r _. apply good_ret. exact I.
  - gbind ltac:(apply good_guard). intros u _.
    gbind ltac:(apply good_repeatM with (c := 0)). 2: { intros l _. apply good_ret. exact I. }
    gbind ltac:(apply good_readU16). intros afi _. gbind ltac:(apply good_readU16). intros safi _.
    gbind ltac:(apply good_readU16). intros nh _. apply good_ret. exact I.
  - gbind ltac:(apply good_dumpN). intros u _. apply good_ret. exact I.
  Unshelve. all: lia.
Qed.

Lemma good_decodeCapability : forall fuel K C, good fuel K C 2 top decodeCapability.
Proof.
  intros. unfold decodeCapability.
  gbytec 1. intros code _. gbyte. intros L _.
  gbind ltac:(apply good_decodeCapValue). intros v _. apply good_ret. exact I.
  Unshelve. all: lia.
Qed.

Lemma good_decodeCapabilities : forall K C fuel length read acc,
  good fuel K C 0 top (decodeCapabilities fuel length read acc).
Proof.
  intros K C. induction fuel as [|f IH]; intros; [apply good_fuel0|].
  cbn [decodeCapabilities]. destruct (read <? length).
  - eapply good_bind_strict with (c2 := 0); [apply good_decodeCapability | lia | | shelve].
    intros c _. apply IH.
  - apply good_ret. exact I.
  Unshelve. all: lia.
Qed.

Lemma good_decodeOptParams : forall K C fuel optLen read acc,
  good fuel K C 0 top (decodeOptParams fuel optLen read acc).
Proof.
  intros K C. induction fuel as [|f IH]; intros; [apply good_fuel0|].
  cbn [decodeOptParams]. destruct (read <? optLen).
  - eapply good_bind_strict with (c2 := 0); [apply good_readByte | lia | | shelve].
    intros ty _. gbyte. intros L _. cbv zeta.
    gbind ltac:(apply good_guard). intros u _.
    gbind ltac:(apply good_fuel_le with (f := S f); [lia|apply good_decodeCapabilities]). intros caps _. apply IH.
  - apply good_ret. exact I.
  Unshelve. all: lia.
Qed.

Lemma good_decodeOpen : forall fuel K C, good fuel K C 0 top (decodeOpen fuel).
Proof.
  intros. unfold decodeOpen.
  gbyte. intros version _. gbind ltac:(apply good_readU16). intros asn _.
  gbind ltac:(apply good_readU16). intros hold _. gbind ltac:(apply good_readU32). intros id _.
  gbyte. intros optLen _.
  gbind ltac:(apply good_guard). intros u1 _. gbind ltac:(apply good_guard). intros u2 _.
  gbind ltac:(apply good_guard). intros u3 _.
  gbind ltac:(apply good_decodeOptParams). intros params _. apply good_ret. exact I.
  Unshelve. all: lia.
Qed.

Lemma good_decodeNotification : forall fuel K C, good fuel K C 0 top decodeNotification.
Proof.
  intros. unfold decodeNotification.
  gbyte. intros code _. gbyte. intros sub _.
  gbind ltac:(apply good_guard). intros u _. apply good_ret. exact I.
  Unshelve. all: lia.
Qed.

Lemma good_readMarker : forall fuel K C n, good fuel K C 0 top (readMarker n).
Proof.
  intros. induction n as [|n IH]; cbn [readMarker].
  - apply good_ret. exact I.
  - gbyte. intros x _. gbind ltac:(apply good_guard). intros u _. exact IH.
  Unshelve. all: lia.
Qed.

Lemma good_decodeHeader : forall fuel K C, good fuel K C 0 top decodeHeader.
Proof.
  intros. unfold decodeHeader.
  gbind ltac:(apply good_readMarker). intros u _.
  gbind ltac:(apply good_readU16). intros l _. gbyte. intros ty _.
  gbind ltac:(apply good_guard). intros u1 _. gbind ltac:(apply good_guard). intros u2 _.
  gbind ltac:(apply good_guard). intros u3 _.
  apply good_ret. exact I.
  Unshelve. all: lia.
Qed.

Lemma good_decodeBody : forall fuel o ty l, good fuel 3 65535 0 top (decodeBody fuel o ty l).
Proof.
  intros. unfold decodeBody.
  repeat match goal with |- good _ _ _ _ _ (if ?c then _ else _) => destruct c end.
  - apply good_decodeOpen.
  - gbind ltac:(apply good_decodeUpdate). intros u _. apply good_ret. exact I.
  - apply good_ret. exact I.
  - apply good_decodeNotification.
  - apply good_fail.
  Unshelve. all: lia.
Qed.

Lemma good_decodeM : forall fuel o, good fuel 3 65535 0 top (decodeM fuel o).
Proof.
  intros. unfold decodeM.
  gbind ltac:(apply good_decodeHeader). intros [l ty] _.
  gbind ltac:(apply good_decodeBody). intros bd _. apply good_ret. exact I.
  Unshelve. all: lia.
Qed.

(* ------------------------------------------------------------------ the C16 statements *)

Lemma decode_good : forall o b,
  match decode (S (length b)) o b with
  | (Ok _ _, al) => al <= 3 * len b
  | (Err, al) => al <= 65535 + 3 * len b
  | (Panic _, _) => False
  | (OutOfFuel, _) => False
  end.
Proof.
  intros o b. unfold decode.
  pose proof (good_decodeM (S (length b)) o b 0 (Nat.lt_succ_diag_r _)) as H.
  destruct (decodeM (S (length b)) o b 0) as [[m r| | |] al]; auto.
  - destruct H as (_ & Hl & Hal).
    assert (3 * len r <= 3 * len b) by (apply N.mul_le_mono_l; lia). lia.
  - lia.
Qed.

Lemma fuel_suffices : forall o b, fst (decode (S (length b)) o b) <> OutOfFuel.
Proof.
  intros o b. pose proof (decode_good o b) as H.
  destruct (decode (S (length b)) o b) as [[m r| | |] al]; cbn [fst]; try discriminate. contradiction.
Qed.

Lemma no_panic : forall o b, ~ is_panic (fst (decode (S (length b)) o b)).
Proof.
  intros o b. pose proof (decode_good o b) as H.
  destruct (decode (S (length b)) o b) as [[m r| | |] al]; cbn [fst is_panic]; auto.
Qed.

Lemma alloc_bounded : forall o b, snd (decode (S (length b)) o b) <= alloc_bound b.
Proof.
  intros o b. unfold alloc_bound, alloc_c1, alloc_c2. pose proof (decode_good o b) as H.
  destruct (decode (S (length b)) o b) as [[m r| | |] al]; cbn [snd]; try contradiction; lia.
Qed.

(* totality in one statement: a message with what is left of the buffer, or an error *)
Lemma total_bounded : forall o b,
  (exists m rest al, decode (S (length b)) o b = (Ok m rest, al) /\ al <= 3 * len b /\ (length rest <= length b)%nat)
  \/ (exists al, decode (S (length b)) o b = (Err, al) /\ al <= 65535 + 3 * len b).
Proof.
  intros o b. unfold decode.
  pose proof (good_decodeM (S (length b)) o b 0 (Nat.lt_succ_diag_r _)) as H.
  destruct (decodeM (S (length b)) o b 0) as [[m r| | |] al]; try contradiction.
  - left. exists m, r, al. destruct H as (_ & Hl & Hal). split; [reflexivity|].
    assert (3 * len r <= 3 * len b) by (apply N.mul_le_mono_l; lia).
    unfold len in *. split; lia.
  - right. exists al. split; [reflexivity|]. lia.
Qed.

Lemma returns : forall o b, returns_msg_or_error (decode (S (length b)) o b).
Proof.
  intros o b. pose proof (decode_good o b) as H. unfold returns_msg_or_error.
  destruct (decode (S (length b)) o b) as [[m r| | |] al]; cbn [fst]; try contradiction.
  - left. eauto.
  - right. reflexivity.
Qed.
