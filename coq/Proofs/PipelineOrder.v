(* Pipeline, part 6: C02's order independence, composed.
   Route.PathSelection is a parameter of the Loc-RIB model (sel); sel_decides says it ranks like the decision
   process of C02/C03: what it returns is a result sort.Slice may return for less = (Path.Select == 1) on the same
   paths, and its count is updateEqualPathCount's.  Under it every route the Loc-RIB of the composed model holds is
   sorted, so two pipelines (any histories, any arrival order across sessions) whose candidates of a prefix are
   the same multiset for the decision process hold them with the same key list and the same ECMP count
   (Proofs.PathSelProofs.order_independent as a black box); if no two candidates tie, the two Loc-RIBs show every
   client the same paths. *)
From Coq Require Import List NArith ZArith Bool Arith Lia Permutation Sorted.
Import ListNotations.
From BioVerif Require Import Model.Pipeline Spec.PipelineSpec Proofs.PipelineIn Proofs.PipelineLoc Proofs.PipelineProofs
  Proofs.PipelineOut.
From BioVerif Require Model.AdjRIBIn Model.LocRIBClients Model.AdjRIBOut Model.PathSel Spec.PathSelSpec
  Spec.LocRIBClientsSpec Proofs.PathSelProofs.
Local Open Scope nat_scope.

(* what Path.Select / Path.ECMP read of a route.Path value *)
Definition wp_of (p : AdjRIBOut.path) : PathSelSpec.wpath :=
  match p with
  | AdjRIBOut.PBgp _ b =>
    PathSelSpec.WBGP (PathSel.mkbgp (AdjRIBOut.b_lp b) (AdjRIBOut.b_aslen b) (AdjRIBOut.b_origin b) (AdjRIBOut.b_med b)
                        (AdjRIBOut.b_ebgp b) (AdjRIBOut.b_bgpid b) (AdjRIBOut.b_oid b) (AdjRIBOut.b_cl b)
                        (PathSel.mkip 0 (AdjRIBOut.b_src b)) (PathSel.mkip 0 (AdjRIBOut.b_nh b)) (AdjRIBOut.b_pid b) 0)
  | AdjRIBOut.PStatic (Some n) => PathSelSpec.WStatic (PathSel.mkstatic (PathSel.mkip 0 n))
  | AdjRIBOut.PStatic None => PathSelSpec.WStatic (PathSel.mkstatic (PathSel.mkip 0 0))
  end.

Definition ps_of (p : AdjRIBOut.path) : PathSel.path := PathSelSpec.embed (wp_of p).

Import LocRIBClients.

Notation path := AdjRIBOut.path.

Definition sel_decides (sel : nat -> list (entry path) -> list (entry path) * nat) : Prop :=
  forall t l,
    PathSelSpec.sort_admits (map ps_of (map snd l)) (map ps_of (map snd (fst (sel t l)))) /\
    PathSel.ecmp_count (map ps_of (map snd (fst (sel t l)))) = PathSel.Ok (N.of_nat (snd (sel t l))).

(* every stored route is in selection order, with the ECMP count of that order *)
Definition LSorted (loc : state path) : Prop :=
  forall p, Sorted PathSelSpec.not_less_than_pred (map ps_of (vals loc p)) /\
            PathSel.ecmp_count (map ps_of (vals loc p)) = PathSel.Ok (N.of_nat (ecmp (route_at loc p))).

Lemma nil_sorted : Sorted PathSelSpec.not_less_than_pred (map ps_of []) /\
                   PathSel.ecmp_count (map ps_of []) = PathSel.Ok (N.of_nat 0).
Proof. split; [constructor|reflexivity]. Qed.

Section Order.
  Variable sel : nat -> list (entry path) -> list (entry path) * nat.
  Hypothesis Hdec : sel_decides sel.

  Notation lstep := (step path AdjRIBOut.path_compare AdjRIBOut.path_equal sel).

  Lemma selected_sorted : forall t pre,
    Sorted PathSelSpec.not_less_than_pred (map ps_of (map snd (paths (selected path sel t pre)))) /\
    PathSel.ecmp_count (map ps_of (map snd (paths (selected path sel t pre)))) =
    PathSel.Ok (N.of_nat (ecmp (selected path sel t pre))).
  Proof.
    intros t pre. unfold selected. destruct (Hdec t pre) as [[_ HS] HE]. destruct (sel t pre) as [srt e]. cbn in *. auto.
  Qed.

  Lemma LSorted_store : forall (loc : state path) p newr cl t,
    LSorted loc ->
    (Sorted PathSelSpec.not_less_than_pred (map ps_of (map snd (paths newr))) /\
     PathSel.ecmp_count (map ps_of (map snd (paths newr))) = PathSel.Ok (N.of_nat (ecmp newr))) ->
    LSorted (mkState (store path p newr (routes loc)) cl t).
  Proof.
    intros loc p newr cl t HL HN p'. unfold vals. rewrite route_at_store.
    destruct (p =? p') eqn:E.
    - destruct (paths newr) eqn:EP; [apply nil_sorted|]. cbn [paths ecmp]. rewrite EP. exact HN.
    - apply HL.
  Qed.

  Lemma LSorted_same_routes : forall (loc loc' : state path), routes loc' = routes loc -> LSorted loc -> LSorted loc'.
  Proof. intros loc loc' E H p. unfold vals, route_at. rewrite E. apply H. Qed.

  Lemma lstep_sorted : forall loc o loc' cbs, LSorted loc -> lstep loc o = Ok loc' cbs -> LSorted loc'.
  Proof.
    intros loc o loc' cbs HL Hs. destruct o as [p v|p v|p vo vn|c oc|c|c]; cbn [step] in Hs.
    - inversion Hs; subst. apply LSorted_store; [exact HL|apply selected_sorted].
    - destruct (lookup p (routes loc)) as [oldr|].
      + inversion Hs; subst. apply LSorted_store; [exact HL|].
        destruct (remove_first path (fun e => AdjRIBOut.path_compare (snd e) v) (paths oldr)); [apply nil_sorted|apply selected_sorted].
      + inversion Hs; subst. now apply (LSorted_same_routes loc).
    - destruct (lookup p (routes loc)) as [oldr|].
      + destruct (replace_first path (fun e => AdjRIBOut.path_equal (snd e) vo) (clock loc, vn) (paths oldr)).
        * inversion Hs; subst. apply LSorted_store; [exact HL|apply selected_sorted].
        * inversion Hs; subst. now apply (LSorted_same_routes loc).
      + inversion Hs; subst. now apply (LSorted_same_routes loc).
    - destruct (dump_routes path c oc (routes loc)); inversion Hs; subst. now apply (LSorted_same_routes loc).
    - inversion Hs; subst. now apply (LSorted_same_routes loc).
    - destruct (refresh_routes path c _ (routes loc)); inversion Hs; subst. now apply (LSorted_same_routes loc).
  Qed.
End Order.

(* ------------------------------------------------------------------ a property of the Loc-RIB kept by its operations is kept
   by every event of the composed model *)
Section LocInv.
  Variable P : Type.
  Variable apply : P -> N -> path -> option path.
  Variable sel : nat -> list (entry path) -> list (entry path) * nat.
  Variable tagf : AdjRIBOut.bgp -> N.
  Variable cfgs : list (scfg P).
  Variable Q : state path -> Prop.
  Hypothesis HQ : forall loc o loc' cbs, Q loc -> step path AdjRIBOut.path_compare AdjRIBOut.path_equal sel loc o = Ok loc' cbs -> Q loc'.

  Notation pst := (pst P).

  Lemma Q_loc_op : forall (st : pst) o, Q (ps_loc P st) -> Q (ps_loc P (loc_op P apply sel tagf cfgs st o)).
  Proof.
    intros st o H. unfold loc_op.
    destruct (step path AdjRIBOut.path_compare AdjRIBOut.path_equal sel (ps_loc P st) o) as [loc' cbs|] eqn:E; [|exact H].
    destruct (op_prefixes loc' o). cbn [ps_loc]. eapply HQ; eassumption.
  Qed.

  Lemma Q_in_op : forall k (st : pst) o, Q (ps_loc P st) -> Q (ps_loc P (in_op P apply sel tagf cfgs k st o)).
  Proof.
    intros k st o H. unfold in_op. destruct (nth_error cfgs k) as [c|]; [|exact H].
    destruct (nth_error (ps_sess P st) k) as [s|]; [|exact H].
    match goal with |- context [fold_left ?g ?l ?x] => generalize l; assert (H0 : Q (ps_loc P x)) by exact H; generalize dependent x end.
    intros x Hx l. revert x Hx. induction l as [|e l IH]; intros x Hx; cbn [fold_left]; [exact Hx|].
    apply IH. destruct (loc_of_event P c e); [now apply Q_loc_op|exact Hx].
  Qed.

  Lemma Q_broadcast : forall js ops (st : pst), Q (ps_loc P st) -> Q (ps_loc P (vrf_broadcast P apply sel tagf cfgs js ops st)).
  Proof.
    intros js ops. unfold vrf_broadcast. induction js as [|j js IH]; intros st H; cbn [fold_left]; [exact H|].
    apply IH. clear IH. revert st H. induction ops as [|o ops IH]; intros st H; cbn [fold_left]; [exact H|].
    apply IH. now apply Q_in_op.
  Qed.

  Lemma Q_step : forall (st : pst) ev, Q (ps_loc P st) -> Q (ps_loc P (Pipeline.step P apply sel tagf cfgs st ev)).
  Proof.
    intros st ev H. destruct ev as [k|k|k p q|k p i|k key|k]; cbn [Pipeline.step].
    - destruct (nth_error cfgs k) as [c|]; [|exact H]. destruct (is_up P st k); [exact H|].
      apply Q_loc_op, Q_in_op, Q_broadcast. exact H.
    - destruct (nth_error cfgs k) as [c|]; [|exact H]. destruct (negb (is_up P st k)); [exact H|].
      cbn [with_sess ps_loc]. apply Q_loc_op, Q_in_op, Q_broadcast. exact H.
    - destruct (is_up P st k); [now apply Q_in_op|exact H].
    - destruct (is_up P st k); [now apply Q_in_op|exact H].
    - unfold us_event. destruct (is_up P st k); exact H.
    - unfold us_event. destruct (is_up P st k); exact H.
  Qed.

  Lemma Q_run : forall evs, Q (ps_loc P (Pipeline.init P cfgs)) -> Q (ps_loc P (Pipeline.run P apply sel tagf cfgs evs)).
  Proof.
    intros evs. unfold Pipeline.run. generalize (Pipeline.init P cfgs).
    induction evs as [|e evs IH]; intros st H; cbn [fold_left]; [exact H|]. apply IH. now apply Q_step.
  Qed.
End LocInv.

Lemma perm_same_keys_eq : forall (A K : Type) (f : A -> K) (l1 l2 : list A),
  Permutation l1 l2 -> map f l1 = map f l2 -> NoDup (map f l1) -> l1 = l2.
Proof.
  intros A K f l1. induction l1 as [|a l1 IH]; intros l2 HP HM ND.
  - apply Permutation_nil in HP. now subst.
  - destruct l2 as [|b l2]; [discriminate|]. cbn [map] in HM, ND. inversion HM as [[Hab HM']].
    inversion ND as [|? ? Hn ND']; subst.
    assert (a = b).
    { assert (HI : In a (b :: l2)) by (eapply Permutation_in; [exact HP|now left]).
      destruct HI as [E|HI]; [now symmetry|]. exfalso. apply Hn. rewrite HM'. now apply in_map. }
    subst b. f_equal. apply IH; [now apply Permutation_cons_inv with a|exact HM'|exact ND'].
Qed.

(* C02 composed: two pipelines - configurations, histories, arrival orders and admissible selections may all differ -
   whose candidates of prefix p are the same multiset as the decision process reads them *)
Theorem selection_order_independent :
  forall (P1 P2 : Type) apply1 apply2 sel1 sel2 tagf1 tagf2 (cfgs1 : list (scfg P1)) (cfgs2 : list (scfg P2)) evs1 evs2 p,
  sel_decides sel1 -> sel_decides sel2 ->
  let st1 := Pipeline.run P1 apply1 sel1 tagf1 cfgs1 evs1 in
  let st2 := Pipeline.run P2 apply2 sel2 tagf2 cfgs2 evs2 in
  Permutation (map wp_of (candidates P1 st1 p)) (map wp_of (candidates P2 st2 p)) ->
  map PathSelSpec.pkey (map ps_of (candidates P1 st1 p)) = map PathSelSpec.pkey (map ps_of (candidates P2 st2 p)) /\
  ecmp (route_at (ps_loc P1 st1) (lpfx p)) = ecmp (route_at (ps_loc P2 st2) (lpfx p)) /\
  (NoDup (map PathSelSpec.pkey (map ps_of (candidates P1 st1 p))) ->
   Permutation (candidates P1 st1 p) (candidates P2 st2 p) ->
   forall o, visible o (ps_loc P1 st1) (lpfx p) = visible o (ps_loc P2 st2) (lpfx p)).
Proof.
  intros P1 P2 apply1 apply2 sel1 sel2 tagf1 tagf2 cfgs1 cfgs2 evs1 evs2 p D1 D2 st1 st2 HP.
  assert (L1 : LSorted (ps_loc P1 st1)).
  { unfold st1. apply (Q_run P1 apply1 sel1 tagf1 cfgs1 LSorted (fun loc o loc' cbs => lstep_sorted sel1 D1 loc o loc' cbs)).
    intros q. apply nil_sorted. }
  assert (L2 : LSorted (ps_loc P2 st2)).
  { unfold st2. apply (Q_run P2 apply2 sel2 tagf2 cfgs2 LSorted (fun loc o loc' cbs => lstep_sorted sel2 D2 loc o loc' cbs)).
    intros q. apply nil_sorted. }
  destruct (L1 (lpfx p)) as [S1 E1]. destruct (L2 (lpfx p)) as [S2 E2].
  fold (candidates P1 st1 p) in S1, E1. fold (candidates P2 st2 p) in S2, E2.
  assert (A1 : PathSelSpec.sort_admits (map PathSelSpec.embed (map wp_of (candidates P1 st1 p))) (map ps_of (candidates P1 st1 p))).
  { unfold ps_of. rewrite map_map. split; [apply Permutation_refl|]. unfold ps_of in S1. exact S1. }
  assert (A2 : PathSelSpec.sort_admits (map PathSelSpec.embed (map wp_of (candidates P2 st2 p))) (map ps_of (candidates P2 st2 p))).
  { unfold ps_of. rewrite map_map. split; [apply Permutation_refl|]. unfold ps_of in S2. exact S2. }
  destruct (PathSelProofs.order_independent _ _ _ _ HP A1 A2) as [K [_ [[n [C1 C2]] _]]].
  assert (EC : ecmp (route_at (ps_loc P1 st1) (lpfx p)) = ecmp (route_at (ps_loc P2 st2) (lpfx p))).
  { change (candidates P1 st1 p) with (vals (ps_loc P1 st1) (lpfx p)) in C1.
    change (candidates P2 st2 p) with (vals (ps_loc P2 st2) (lpfx p)) in C2.
    rewrite E1 in C1. rewrite E2 in C2.
    assert (N1 : N.of_nat (ecmp (route_at (ps_loc P1 st1) (lpfx p))) = n) by (now inversion C1).
    assert (N2 : N.of_nat (ecmp (route_at (ps_loc P2 st2) (lpfx p))) = n) by (now inversion C2).
    apply Nat2N.inj. now rewrite N1, N2. }
  split; [exact K|]. split; [exact EC|].
  intros ND HPerm o.
  assert (EQ : candidates P1 st1 p = candidates P2 st2 p).
  { apply (perm_same_keys_eq _ _ (fun x => PathSelSpec.pkey (ps_of x))); [exact HPerm| |].
    - rewrite <- (map_map ps_of PathSelSpec.pkey (candidates P1 st1 p)), <- (map_map ps_of PathSelSpec.pkey (candidates P2 st2 p)). exact K.
    - rewrite <- (map_map ps_of PathSelSpec.pkey (candidates P1 st1 p)). exact ND. }
  unfold candidates in EQ.
  pose proof (f_equal (@length path) EQ) as EL. rewrite !map_length in EL.
  unfold visible, limit_slice. rewrite EC, <- !firstn_map.
  apply f_equal2; [apply f_equal; exact EL|exact EQ].
Qed.
