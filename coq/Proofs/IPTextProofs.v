(* C15 text proofs, part 3: printing then parsing an address or a prefix. *)
From Coq Require Import ZArith Lia Bool List.
From BioVerif Require Import Lib.Word Lib.WordLemmas Model.NetArith Model.IPText Spec.NetSpec
  Proofs.NetProofs Proofs.IPTextBasics Proofs.IPTextParse.
Import ListNotations.
Open Scope Z_scope.

Definition isbyte (b : Z) : Prop := 0 <= b < 256.

Lemma byte_nth_range p i : Forall isbyte p -> isbyte (byte_nth p i).
Proof.
  intros H. unfold byte_nth. destruct (Nat.lt_ge_cases (Z.to_nat i) (length p)) as [L | L].
  - rewrite Forall_forall in H. apply H. apply nth_In. exact L.
  - rewrite nth_overflow by lia. unfold isbyte. lia.
Qed.

Lemma hx_spec b1 b0 : isbyte b1 -> isbyte b0 -> hx b1 b0 = b1 * 256 + b0 /\ inr16 (hx b1 b0).
Proof.
  intros H1 H0. destruct (bytepair_facts b1 b0 H1 H0) as (R & E & _). rewrite E. split; [reflexivity | exact R].
Qed.

Lemma split_hx b1 b0 : isbyte b1 -> isbyte b0 ->
  wconv 8 (wshr 32 (hx b1 b0) 8) = b1 /\ wconv 8 (hx b1 b0) = b0.
Proof.
  intros H1 H0. destruct (bytepair_facts b1 b0 H1 H0) as (_ & E & E1 & E0 & _).
  rewrite E. split; assumption.
Qed.

Lemma u16_spec b1 b0 : isbyte b1 -> isbyte b0 -> wadd 16 (wshl 16 b1 8) b0 = b1 * 256 + b0.
Proof. intros H1 H0. destruct (bytepair_facts b1 b0 H1 H0) as (_ & _ & _ & _ & E). exact E. Qed.

(* ---------- the eight 16-bit fields of a byte slice ---------- *)

Definition hs_of (p : list Z) : list Z :=
  map (fun t => hx (byte_nth p (2 * Z.of_nat t)) (byte_nth p (2 * Z.of_nat t + 1))) (seq 0 8).

Lemma groups_text_hs p : groups_text p = map appendHex (hs_of p).
Proof. unfold groups_text, hs_of. rewrite map_map. reflexivity. Qed.

Lemma hs_of_length p : length (hs_of p) = 8%nat.
Proof. reflexivity. Qed.

Lemma hs_of_range p : Forall isbyte p -> Forall inr16 (hs_of p).
Proof.
  intros H. unfold hs_of. apply Forall_forall. intros x Hx. apply in_map_iff in Hx.
  destruct Hx as (t & <- & _). apply hx_spec; apply byte_nth_range; exact H.
Qed.

Lemma hs_of_nth p t : (t < 8)%nat ->
  nth t (hs_of p) 0 = hx (byte_nth p (2 * Z.of_nat t)) (byte_nth p (2 * Z.of_nat t + 1)).
Proof. intros H. do 8 (destruct t as [|t]; [reflexivity|]). lia. Qed.

Lemma zflags_nth p t : (t < 8)%nat ->
  nth t (zflags p) false = (byte_nth p (2 * Z.of_nat t) =? 0) && (byte_nth p (2 * Z.of_nat t + 1) =? 0).
Proof. intros H. do 8 (destruct t as [|t]; [reflexivity|]). lia. Qed.

Lemma zflag_zero p t : (t < 8)%nat -> nth t (zflags p) false = true -> nth t (hs_of p) 0 = 0.
Proof.
  intros Ht H. rewrite zflags_nth in H by exact Ht. apply andb_true_iff in H. destruct H as [H1 H2].
  apply Z.eqb_eq in H1, H2. rewrite hs_of_nth by exact Ht. rewrite H1, H2. reflexivity.
Qed.

Lemma joins_map_joinv vs : joins (map appendHex vs) = joinv vs.
Proof. reflexivity. Qed.

Lemma tailj_starts_colon (l : list str) Y :
  exists Z0, tailj l ++ c_colon :: Y = c_colon :: Z0.
Proof. destruct l as [|s r]; cbn [tailj app]; eauto. Qed.

(* ---------- stringIPv6 then ParseIP gives the bytes back ---------- *)

Definition string6_of (p : list Z) : option str :=
  match zero_run (zflags p) with
  | None => None
  | Some (e0, e1) => print6_loop 9 p e0 e1 0
  end.

Lemma string6_parse p : Forall isbyte p ->
  exists s, string6_of p = Some s /\ parseIPv6 s = Some (hs_of p) /\ first_sep s = c_colon.
Proof.
  intros HB. unfold string6_of.
  pose proof (hs_of_range p HB) as HR. pose proof (hs_of_length p) as HL.
  destruct (zero_run_facts (zflags p) eq_refl) as (e0 & e1 & Hz & [[-> ->] | (a & b & -> & -> & Hab & Hfl)]);
    rewrite Hz.
  - (* no zero run *)
    pose proof (print_after p (-1) (-1) 9 0 ltac:(lia) ltac:(lia) ltac:(lia)) as Hpr.
    change (2 * Z.of_nat 0) with 0 in Hpr. rewrite Hpr. clear Hpr.
    cbn [skipn]. rewrite emits_0, groups_text_hs, joins_map_joinv.
    eexists. split; [reflexivity|]. split; [apply parseIPv6_plain; assumption|].
    destruct (hs_of p) as [|h0 [|h1 r]] eqn:E; try discriminate.
    rewrite joinv_cons. cbn [map tailj]. apply first_sep_group. inversion HR; assumption.
  - (* "::" over the fields a .. b-1 *)
    assert (HZ : forall t, (a <= t < b)%nat -> nth t (hs_of p) 0 = 0).
    { intros t Ht. apply zflag_zero; [lia | apply Hfl, Ht]. }
    pose proof (print_before p a b Hab 9 0 ltac:(lia) ltac:(lia)) as Hpr.
    change (2 * Z.of_nat 0) with 0 in Hpr. rewrite Hpr. clear Hpr.
    rewrite Nat.sub_0_r. change (skipn 0 (groups_text p)) with (groups_text p). rewrite emits_0.
    assert (Etail : (if (b =? 8)%nat then []
                     else hexgroup p (2 * Z.of_nat b) ++ emits (S b) (skipn (S b) (groups_text p)))
                    = joins (skipn b (groups_text p))).
    { destruct (Nat.eqb_spec b 8) as [-> | NE]; [reflexivity|].
      rewrite (skipn_groups p b) by lia. cbn [joins]. rewrite emits_S. reflexivity. }
    rewrite Etail. rewrite groups_text_hs, firstn_map, skipn_map, !joins_map_joinv.
    eexists. split; [reflexivity|].
    destruct a as [|a'].
    + cbn [firstn joinv joins map]. rewrite app_nil_l. split.
      * apply parseIPv6_lead; auto; try lia. intros t Ht. apply HZ. lia.
      * reflexivity.
    + split; [apply parseIPv6_mid; auto; lia|].
      destruct (hs_of p) as [|h0 r] eqn:E; [discriminate|].
      cbn [firstn]. rewrite joinv_cons. rewrite <- app_assoc.
      destruct (tailj_starts_colon (map appendHex (firstn a' r)) (c_colon :: joinv (skipn b (h0 :: r))))
        as (Z0 & EZ).
      change ([c_colon; c_colon] ++ joinv (skipn b (h0 :: r)))
        with (c_colon :: c_colon :: joinv (skipn b (h0 :: r))).
      rewrite EZ. apply first_sep_group. inversion HR; assumption.
Qed.

(* the 16 bytes from the eight fields (what ParseIP returns: Addr.As16) *)
Lemma bytes_of_fields (b0 b1 b2 b3 b4 b5 b6 b7 b8 b9 b10 b11 b12 b13 b14 b15 : Z) :
  let p := [b0; b1; b2; b3; b4; b5; b6; b7; b8; b9; b10; b11; b12; b13; b14; b15] in
  Forall isbyte p ->
  flat_map (fun h => [wconv 8 (wshr 32 h 8); wconv 8 h]) (hs_of p) = p.
Proof.
  intros p HB.
  assert (H : forall i, isbyte (byte_nth p i)) by (intros; apply byte_nth_range; exact HB).
  pose proof (H 0) as H0. pose proof (H 1) as H1. pose proof (H 2) as H2. pose proof (H 3) as H3.
  pose proof (H 4) as H4. pose proof (H 5) as H5. pose proof (H 6) as H6. pose proof (H 7) as H7.
  pose proof (H 8) as H8. pose proof (H 9) as H9. pose proof (H 10) as H10. pose proof (H 11) as H11.
  pose proof (H 12) as H12. pose proof (H 13) as H13. pose proof (H 14) as H14. pose proof (H 15) as H15.
  change (byte_nth p 0) with b0 in H0. change (byte_nth p 1) with b1 in H1.
  change (byte_nth p 2) with b2 in H2. change (byte_nth p 3) with b3 in H3.
  change (byte_nth p 4) with b4 in H4. change (byte_nth p 5) with b5 in H5.
  change (byte_nth p 6) with b6 in H6. change (byte_nth p 7) with b7 in H7.
  change (byte_nth p 8) with b8 in H8. change (byte_nth p 9) with b9 in H9.
  change (byte_nth p 10) with b10 in H10. change (byte_nth p 11) with b11 in H11.
  change (byte_nth p 12) with b12 in H12. change (byte_nth p 13) with b13 in H13.
  change (byte_nth p 14) with b14 in H14. change (byte_nth p 15) with b15 in H15.
  change (hs_of p) with [hx b0 b1; hx b2 b3; hx b4 b5; hx b6 b7; hx b8 b9; hx b10 b11; hx b12 b13; hx b14 b15].
  cbn [flat_map app].
  destruct (split_hx b0 b1 H0 H1) as [-> ->]. destruct (split_hx b2 b3 H2 H3) as [-> ->].
  destruct (split_hx b4 b5 H4 H5) as [-> ->]. destruct (split_hx b6 b7 H6 H7) as [-> ->].
  destruct (split_hx b8 b9 H8 H9) as [-> ->]. destruct (split_hx b10 b11 H10 H11) as [-> ->].
  destruct (split_hx b12 b13 H12 H13) as [-> ->]. destruct (split_hx b14 b15 H14 H15) as [-> ->].
  reflexivity.
Qed.

Lemma string6_ParseIP (b0 b1 b2 b3 b4 b5 b6 b7 b8 b9 b10 b11 b12 b13 b14 b15 : Z) :
  let p := [b0; b1; b2; b3; b4; b5; b6; b7; b8; b9; b10; b11; b12; b13; b14; b15] in
  Forall isbyte p ->
  exists s, string6_of p = Some s /\ ParseIP s = Some p.
Proof.
  intros p HB. destruct (string6_parse p HB) as (s & Hs & Hp & Hf).
  exists s. split; [exact Hs|]. unfold ParseIP. rewrite Hf.
  change (c_colon =? c_dot) with false. change (c_colon =? c_colon) with true. cbn iota.
  rewrite Hp. f_equal. apply bytes_of_fields. exact HB.
Qed.

(* ---------- bytes of an address ---------- *)

Lemma byte_at_byte x k : 0 <= k -> 0 <= x < 2 ^ 64 -> isbyte (byte_at x k).
Proof. intros Hk Hx. rewrite byte_at_spec by lia. unfold isbyte. apply Z.mod_pos_bound. lia. Qed.

Lemma low_byte_byte x : 0 <= x -> isbyte (wconv 8 (wand x 255)).
Proof. intros Hx. rewrite low_byte_spec by lia. unfold isbyte. apply Z.mod_pos_bound. lia. Qed.

Lemma bytesIPv6_bytes a : 0 <= hi a < 2 ^ 64 -> 0 <= lo a < 2 ^ 64 -> Forall isbyte (bytesIPv6 a).
Proof.
  intros Hh Hl. unfold bytesIPv6.
  repeat (apply Forall_cons; [first [apply byte_at_byte; lia | apply low_byte_byte; lia]|]).
  apply Forall_nil.
Qed.

(* the word of eight bytes, most significant first *)
Definition word8 (b7 b6 b5 b4 b3 b2 b1 b0 : Z) : Z :=
  b7 * 2 ^ 56 + b6 * 2 ^ 48 + b5 * 2 ^ 40 + b4 * 2 ^ 32 + b3 * 2 ^ 24 + b2 * 2 ^ 16 + b1 * 2 ^ 8 + b0.

Lemma blocks_of_bytes b7 b6 b5 b4 b3 b2 b1 b0 :
  isbyte b7 -> isbyte b6 -> isbyte b5 -> isbyte b4 -> isbyte b3 -> isbyte b2 -> isbyte b1 -> isbyte b0 ->
  blocks64 (b7 * 256 + b6) (b5 * 256 + b4) (b3 * 256 + b2) (b1 * 256 + b0) = word8 b7 b6 b5 b4 b3 b2 b1 b0.
Proof.
  unfold isbyte, word8. intros.
  rewrite blocks64_spec by lia.
  change (2 ^ 56) with 72057594037927936. change (2 ^ 48) with 281474976710656.
  change (2 ^ 40) with 1099511627776. change (2 ^ 32) with 4294967296.
  change (2 ^ 24) with 16777216. change (2 ^ 16) with 65536. change (2 ^ 8) with 256. lia.
Qed.

Lemma word8_of x : 0 <= x < 2 ^ 64 ->
  word8 (byte_at x 56) (byte_at x 48) (byte_at x 40) (byte_at x 32) (byte_at x 24) (byte_at x 16)
        (byte_at x 8) (wconv 8 (wand x 255)) = x.
Proof.
  intros Hx. rewrite !byte_at_spec by lia. rewrite low_byte_spec by lia.
  unfold word8. symmetry. apply word_of_bytes. exact Hx.
Qed.

Lemma blocks_of_16 (b0 b1 b2 b3 b4 b5 b6 b7 b8 b9 b10 b11 b12 b13 b14 b15 : Z) :
  let p := [b0; b1; b2; b3; b4; b5; b6; b7; b8; b9; b10; b11; b12; b13; b14; b15] in
  Forall isbyte p ->
  IPv6FromBlocks (u16 p 0) (u16 p 2) (u16 p 4) (u16 p 6) (u16 p 8) (u16 p 10) (u16 p 12) (u16 p 14)
  = IPv6 (word8 b0 b1 b2 b3 b4 b5 b6 b7) (word8 b8 b9 b10 b11 b12 b13 b14 b15).
Proof.
  intros p HB.
  assert (H : forall i, isbyte (byte_nth p i)) by (intros; apply byte_nth_range; exact HB).
  pose proof (H 0) as H0. pose proof (H 1) as H1. pose proof (H 2) as H2. pose proof (H 3) as H3.
  pose proof (H 4) as H4. pose proof (H 5) as H5. pose proof (H 6) as H6. pose proof (H 7) as H7.
  pose proof (H 8) as H8. pose proof (H 9) as H9. pose proof (H 10) as H10. pose proof (H 11) as H11.
  pose proof (H 12) as H12. pose proof (H 13) as H13. pose proof (H 14) as H14. pose proof (H 15) as H15.
  unfold IPv6FromBlocks, u16.
  change (byte_nth p 0) with b0 in *. change (byte_nth p (0 + 1)) with b1. change (byte_nth p 1) with b1 in *.
  change (byte_nth p 2) with b2 in *. change (byte_nth p (2 + 1)) with b3. change (byte_nth p 3) with b3 in *.
  change (byte_nth p 4) with b4 in *. change (byte_nth p (4 + 1)) with b5. change (byte_nth p 5) with b5 in *.
  change (byte_nth p 6) with b6 in *. change (byte_nth p (6 + 1)) with b7. change (byte_nth p 7) with b7 in *.
  change (byte_nth p 8) with b8 in *. change (byte_nth p (8 + 1)) with b9. change (byte_nth p 9) with b9 in *.
  change (byte_nth p 10) with b10 in *. change (byte_nth p (10 + 1)) with b11. change (byte_nth p 11) with b11 in *.
  change (byte_nth p 12) with b12 in *. change (byte_nth p (12 + 1)) with b13. change (byte_nth p 13) with b13 in *.
  change (byte_nth p 14) with b14 in *. change (byte_nth p (14 + 1)) with b15. change (byte_nth p 15) with b15 in *.
  rewrite !u16_spec by assumption.
  rewrite !blocks_of_bytes by assumption. reflexivity.
Qed.

(* IPv6FromBlocks of the 16 bytes of a well-formed IPv6 address is the address *)
Lemma blocks_of_bytesIPv6 a : 0 <= hi a < 2 ^ 64 -> 0 <= lo a < 2 ^ 64 ->
  let p := bytesIPv6 a in
  IPv6FromBlocks (u16 p 0) (u16 p 2) (u16 p 4) (u16 p 6) (u16 p 8) (u16 p 10) (u16 p 12) (u16 p 14)
  = IPv6 (hi a) (lo a).
Proof.
  intros Hh Hl p. unfold p, bytesIPv6.
  rewrite blocks_of_16 by (apply (bytesIPv6_bytes a Hh Hl)).
  rewrite !word8_of by assumption. reflexivity.
Qed.
