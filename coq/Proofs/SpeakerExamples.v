(* Speaker: computed facts about the concrete instance of the examples of Properties/Speaker.v (real byte strings). *)
From Coq Require Import List NArith ZArith Bool Arith Lia Permutation.
Import ListNotations.
From BioVerif Require Import Model.Pipeline Model.Speaker Spec.PipelineSpec Spec.SpeakerSpec Proofs.PipelineExamples.
From BioVerif Require Model.AdjRIBIn Model.AdjRIBOut Model.LocRIBClients Model.UpdateSender Model.BGPCodec Model.BGPEncode
  Spec.UpdateApplySpec Spec.BGPRoundtripSpec Spec.ExportViewSpec Spec.UpdateSenderSpec.
Local Open Scope nat_scope.

Definition ex_opts : BGPCodec.options := BGPCodec.mkOpts false false true false.
(* the iBGP listener (session 2) *)
Definition ex_sc2 : spcfg AdjRIBOut.chain := ex_spcfg ex_c2.
Definition ex_ss2 : sst AdjRIBOut.chain := ex_sess_at (sp_pipe _ (ex_srun ex_sevs2)) 2.

(* the 45 bytes of the first client's UPDATE are read as: announce prefix id 1 (0.0.0.0/1) with next hop 12.0.0.1 and
   AS_PATH [65101] - the announcement of Spec.PipelineSpec.ex_evs1; the damaged message is a decoding error *)
Lemma ex_bytes_decode :
  option_map (fun u => UpdateApplySpec.message_ops 1 (conv_update u)) (recv_update ex_opts (ex_update_bytes 65101 1)) =
    Some [AdjRIBIn.Announce 1%N (ex_path 201326593 65101)] /\
  recv_decode ex_opts ex_bad_bytes = BGPCodec.Err /\
  frame_ok (ex_update_bytes 65101 1) = true /\ frame_ok ex_bad_bytes = true /\ frame_ok ex_keepalive = true.
Proof. split; [|split; [|split; [|split]]]; vm_compute; reflexivity. Qed.

(* fed the bytes, the speaker is where the RIB pipeline is when it is fed the announcements *)
Lemma ex_same_state : sp_pipe _ (ex_srun ex_sevs2) = ex_run (ex_evs1 ++ ex_drain2a).
Proof. vm_compute. reflexivity. Qed.

Lemma ex_ss2_eq : ex_ss2 = ex_s2.
Proof. unfold ex_ss2, ex_s2. rewrite ex_same_state. reflexivity. Qed.

(* a KEEPALIVE changes nothing; the damaged UPDATE ends session 1: it is down and only the first client's route is left *)
Lemma ex_other_frames :
  ex_sstep (ex_srun ex_sevs1) (SRecv 0 ex_keepalive) = ex_srun ex_sevs1 /\
  let st := sp_pipe _ (ex_sstep (ex_srun ex_sevs1) (SRecv 1 ex_bad_bytes)) in
  is_up _ st 1 = false /\ is_up _ st 0 = true /\
  map src_of (candidates _ st 1%N) = [Some 167772161%N] /\
  map src_of (candidates _ (sp_pipe _ (ex_srun ex_sevs1)) 1%N) = [Some 167772162%N; Some 167772161%N].
Proof. cbv zeta. split; [|split; [|split; [|split]]]; vm_compute; reflexivity. Qed.

(* what was written to the listener: End-of-RIB, the withdrawal of the first route (replaced by the better one while
   its announcement was still queued), the announcement of the second client's route with LOCAL_PREF 300 *)
Definition ex_written : list (option (list N)) :=
  [Some (repeat 255%N 16 ++ [0; 23; 2;  0; 0;  0; 0]%N);
   Some (repeat 255%N 16 ++ [0; 25; 2;  0; 2; 1; 0;  0; 0]%N);
   Some (repeat 255%N 16 ++ [0; 52; 2;  0; 0;  0; 27;  64; 2; 6; 2; 1; 0; 0; 254; 78;  64; 1; 1; 0;  64; 3; 4; 12; 0; 0; 2;
                             64; 5; 4; 0; 0; 1; 44;  1; 0]%N)].

Lemma ex_output_bytes :
  output _ ex_tagf ex_sc2 ex_ss2 = ex_written /\
  exists us, decoded_output _ ex_tagf ex_sc2 ex_ss2 = map Some us /\
    dview (rev us) (upfx 1) 0%N =
      Some [(2%N, BGPCodec.AVASPath [(2%N, [65102%N])]); (1%N, BGPCodec.AVOrigin 0); (3%N, BGPCodec.AVNextHop (BGPCodec.IP4 201326594));
            (5%N, BGPCodec.AVU32 300)] /\
    dview (rev us) (upfx 2) 0%N = None.
Proof.
  split; [vm_compute; reflexivity|].
  set (d := decoded_output _ ex_tagf ex_sc2 ex_ss2). vm_compute in d.
  let v := eval cbv delta [d] in d in
  match v with [Some ?a; Some ?b; Some ?c] => exists [a; b; c] end.
  split; [reflexivity|]. split; vm_compute; reflexivity.
Qed.


(* C17's guard holds for what was written *)
Lemma ex_sendable : sendable _ ex_tagf ex_sc2 ex_ss2.
Proof.
  intros m Hm. set (w := UpdateSender.wire (ss_us _ ex_ss2)) in Hm. vm_compute in w. subst w. cbn [In] in Hm.
  destruct Hm as [<-|[<-|[<-|[]]]].
  - eexists. eexists. split; [vm_compute; reflexivity|]. split; [|vm_compute; reflexivity].
    unfold BGPRoundtripSpec.wf_update. cbn [BGPCodec.u_withdrawn BGPCodec.u_attrs BGPCodec.u_nlri].
    split; [constructor|]. split.
    { repeat constructor; unfold BGPRoundtripSpec.wf_attr; cbn.
      - eexists. split; [reflexivity|]. cbn. constructor; [|constructor].
        split; [now right|]. split; [split; vm_compute; discriminate|]. constructor; [reflexivity|constructor].
      - eexists. split; reflexivity.
      - eexists. split; reflexivity.
      - eexists. split; reflexivity. }
    split.
    { repeat constructor; cbn; try reflexivity; try discriminate. }
    split; [vm_compute; reflexivity|]. intros _. vm_compute. reflexivity.
  - eexists. eexists. split; [vm_compute; reflexivity|]. split; [|vm_compute; reflexivity].
    unfold BGPRoundtripSpec.wf_update. cbn [BGPCodec.u_withdrawn BGPCodec.u_attrs BGPCodec.u_nlri wd_msg].
    split; [repeat constructor; cbn; try reflexivity; try discriminate|].
    split; [constructor|]. split; [constructor|]. split; [vm_compute; reflexivity|]. intros H. now contradiction H.
  - eexists. eexists. split; [vm_compute; reflexivity|]. split; [|vm_compute; reflexivity].
    unfold BGPRoundtripSpec.wf_update. cbn [BGPCodec.u_withdrawn BGPCodec.u_attrs BGPCodec.u_nlri eor_msg].
    split; [constructor|]. split; [constructor|]. split; [constructor|]. split; [vm_compute; reflexivity|].
    intros H. now contradiction H.
Qed.

(* every hypothesis of Speaker_wire_to_wire holds for the listener of the example *)
Lemma ex_w2w_hyps :
  let st := sp_pipe _ (ex_srun ex_sevs2) in
  let pc := sp_c _ ex_sc2 in
  let ls := rev (ss_lab _ ex_ss2) in
  distinct_peers _ (cfgs_of _ ex_spcfgs) /\ locrib_paths_distinct _ st /\
  nth_error ex_spcfgs 2 = Some ex_sc2 /\ nth_error (ps_sess _ st) 2 = Some ex_ss2 /\ ss_up _ ex_ss2 = true /\
  ExportViewSpec.guards (AdjRIBOut.interp (sc_exp _ pc)) (sc_sess _ pc) (ss_hist _ ex_ss2) /\
  AdjRIBOut.errs (ss_out _ ex_ss2) = 0%N /\
  UpdateSenderSpec.client_protocol (sc_us _ pc) ls /\ UpdateSenderSpec.hash_faithful (sc_us _ pc) ls /\
  UpdateSenderSpec.all_fit (sc_us _ pc) ls /\ UpdateSenderSpec.no_withdraw_in_flight (sc_us _ pc) ls /\
  log_tracks_table _ ex_tagf (sc_us _ pc) (ss_out _ ex_ss2) /\ drained _ ex_ss2 = true /\
  sendable _ ex_tagf ex_sc2 ex_ss2.
Proof.
  cbv zeta. change (sp_c _ ex_sc2) with ex_c2.
  destruct ex_state_facts as [HD [Hc [Hs [Hu [HE Hdr]]]]].
  destruct ex_c10_guards as [G1 [G2 [G3 G4]]].
  split; [vm_compute; repeat constructor; cbn; intuition discriminate|].
  split; [rewrite ex_same_state; exact HD|].
  split; [reflexivity|].
  split; [rewrite ex_same_state, ex_ss2_eq; exact Hs|].
  rewrite ex_ss2_eq.
  split; [exact Hu|]. split; [exact ex_guards_hold|]. split; [exact HE|].
  split; [exact G1|]. split; [exact G2|]. split; [exact G3|]. split; [exact G4|].
  split; [exact ex_log_tracks|]. split; [exact Hdr|].
  rewrite <- ex_ss2_eq. exact ex_sendable.
Qed.
