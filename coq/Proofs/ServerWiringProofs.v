(* Invariants of the server-level wiring model over all event histories. *)
From Coq Require Import List Arith Bool Permutation Lia.
From BioVerif Require Import Model.ServerWiring.
Import ListNotations.

(* ---------------------------------------------------------------- bags *)

Lemma key_eqb_eq : forall a b, key_eqb a b = true <-> a = b.
Proof.
  intros [a1 a2] [b1 b2]; unfold key_eqb; cbn [fst snd].
  rewrite andb_true_iff, !Nat.eqb_eq. split.
  - intros [H1 H2]; subst; reflexivity.
  - intros H; inversion H; auto.
Qed.

Lemma okey_eqb_eq : forall a b, okey_eqb a b = true <-> a = b.
Proof.
  intros [a|] [b|]; cbn [okey_eqb]; try (split; [discriminate | intros H; discriminate H]).
  - rewrite key_eqb_eq. split; [intros ->; reflexivity | intros H; inversion H; reflexivity].
  - split; reflexivity.
Qed.

Lemma remove1_perm : forall A (eqb : A -> A -> bool),
  (forall a b, eqb a b = true <-> a = b) ->
  forall x l, In x l -> Permutation l (x :: remove1 eqb x l).
Proof.
  intros A eqb Heq x l. induction l as [|y t IH]; intros Hin; [destruct Hin|].
  cbn [remove1]. destruct (eqb x y) eqn:E.
  - apply Heq in E; subst. apply Permutation_refl.
  - destruct Hin as [->|Hin].
    + assert (eqb x x = true) as Hx by (apply Heq; reflexivity). congruence.
    + eapply Permutation_trans; [apply perm_skip, IH, Hin | apply perm_swap].
Qed.

Lemma bag_sub_perm : forall A B (eqb : B -> B -> bool) (f : A -> B),
  (forall a b, eqb a b = true <-> a = b) ->
  forall gone bag rest,
    Permutation bag (map f gone ++ rest) ->
    Permutation (fold_left (fun b r => remove1 eqb (f r) b) gone bag) rest.
Proof.
  intros A B eqb f Heq gone. induction gone as [|a t IH]; intros bag rest Hp; cbn [fold_left map app] in *.
  - exact Hp.
  - apply IH.
    assert (In (f a) bag) as Hin.
    { eapply Permutation_in; [apply Permutation_sym, Hp | left; reflexivity]. }
    pose proof (remove1_perm _ eqb Heq (f a) bag Hin) as H1.
    eapply Permutation_cons_inv with (a := f a).
    eapply Permutation_trans; [apply Permutation_sym, H1 | exact Hp].
Qed.

Lemma partition_perm : forall A (f : A -> bool) l g r,
  partition f l = (g, r) -> Permutation l (g ++ r).
Proof.
  intros A f l. induction l as [|a t IH]; intros g r H; cbn [partition] in H.
  - inversion H; subst; apply Permutation_refl.
  - destruct (partition f t) as [g' r'] eqn:E. destruct (f a); inversion H; subst.
    + cbn [app]. apply perm_skip, IH; reflexivity.
    + eapply Permutation_trans; [apply perm_skip, IH; reflexivity | apply Permutation_middle].
Qed.

(* ---------------------------------------------------------------- the invariants *)

Definition fam_ok (p : peer) (o : option famst) : Prop :=
  match o with Some f => f_imp f = p_imp p /\ f_exp f = p_exp p | None => True end.

Definition fsm_ok (p : peer) (m : fsm) : Prop :=
  fam_ok p (m_f4 m) /\ fam_ok p (m_f6 m) /\
  (m_est m = false -> attached (m_f4 m) = false /\ attached (m_f6 m) = false).

Definition peer_ok (p : peer) : Prop :=
  p_imp p = effective (c_imp (p_cfg p)) /\ p_exp p = effective (c_exp (p_cfg p)) /\
  p_cluster p = (if c_rrc (p_cfg p) && Nat.eqb (c_cluster (p_cfg p)) 0 then c_router_id (p_cfg p) else c_cluster (p_cfg p)) /\
  Forall (fsm_ok p) (p_fsms p).

Definition bags_ok (s : server) : Prop :=
  Permutation (asn_bag s) (map r_asn (regs s)) /\ Permutation (cl_bag s) (map r_cl (regs s)).

Definition inv (s : server) : Prop := Forall peer_ok (peers s) /\ bags_ok s.

Lemma upd_peer_ok : forall id f ps,
  Forall peer_ok ps -> (forall p, peer_ok p -> peer_ok (f p)) -> Forall peer_ok (upd_peer id f ps).
Proof.
  intros id f ps H Hf. unfold upd_peer. induction H as [|p t Hp Ht IH]; cbn [map]; constructor; auto.
  destruct (Nat.eqb (pid p) id); auto.
Qed.

Lemma fsm_ok_ext : forall p q m,
  p_imp p = p_imp q -> p_exp p = p_exp q -> fsm_ok p m -> fsm_ok q m.
Proof.
  intros p q m Hi He (H4 & H6 & Ha). unfold fsm_ok, fam_ok in *.
  repeat split; auto; [destruct (m_f4 m) | destruct (m_f6 m) | apply Ha | apply Ha]; auto;
    try (destruct H4 as [A B] || destruct H6 as [A B]); try (split; congruence); auto.
Qed.

Lemma set_fsms_ok : forall p ms, peer_ok p -> Forall (fsm_ok p) ms -> peer_ok (set_fsms ms p).
Proof.
  intros p ms (Hi & He & Hc & _) Hms. unfold peer_ok, set_fsms; cbn.
  repeat split; auto.
Qed.

Lemma upd_fsm_ok : forall p fid f ms,
  Forall (fsm_ok p) ms -> (forall m, fsm_ok p m -> fsm_ok p (f m)) -> Forall (fsm_ok p) (upd_fsm fid f ms).
Proof.
  intros p fid f ms H Hf. unfold upd_fsm. induction H as [|m t Hm Ht IH]; cbn [map]; constructor; auto.
  destruct (Nat.eqb (m_id m) fid); auto.
Qed.

Lemma fsm_up_ok : forall p m, fsm_ok p m -> fsm_ok p (fsm_up m).
Proof.
  intros p m (H4 & H6 & _). unfold fsm_ok, fsm_up, fam_ok, set_attached in *; cbn.
  repeat split; try discriminate; [destruct (m_f4 m) | destruct (m_f6 m)]; cbn; auto.
Qed.

Lemma fsm_down_ok : forall p m, fsm_ok p m -> fsm_ok p (fsm_down m).
Proof.
  intros p m (H4 & H6 & _). unfold fsm_ok, fsm_down, fam_ok, set_attached, attached in *; cbn.
  repeat split; [destruct (m_f4 m) | destruct (m_f6 m) | destruct (m_f4 m) | destruct (m_f6 m)]; cbn; auto.
Qed.

Lemma attach_bags : forall r s, bags_ok s -> bags_ok (attach r s).
Proof.
  intros r s [Ha Hc]. unfold bags_ok, attach; cbn. split; apply perm_skip; assumption.
Qed.

Lemma detach_bags : forall id fid a s, bags_ok s -> bags_ok (detach id fid a s).
Proof.
  intros id fid a s [Ha Hc]. unfold detach.
  destruct (partition (reg_is id fid a) (regs s)) as [gone rest] eqn:E.
  pose proof (partition_perm _ _ _ _ _ E) as Hp.
  unfold bags_ok; cbn [fst snd asn_bag cl_bag regs]. split.
  - apply (bag_sub_perm reg _ key_eqb r_asn key_eqb_eq gone (asn_bag s) (map r_asn rest)).
    rewrite <- map_app. eapply Permutation_trans; [exact Ha|]. apply Permutation_map. exact Hp.
  - apply (bag_sub_perm reg _ okey_eqb r_cl okey_eqb_eq gone (cl_bag s) (map r_cl rest)).
    rewrite <- map_app. eapply Permutation_trans; [exact Hc|]. apply Permutation_map. exact Hp.
Qed.

Lemma detach_peers : forall id fid a s, peers (detach id fid a s) = peers s.
Proof. intros. reflexivity. Qed.

Lemma uninit_bags : forall id fid s, bags_ok s -> bags_ok (uninit id fid s).
Proof. intros. unfold uninit. apply detach_bags, detach_bags; assumption. Qed.

Lemma uninit_peers : forall id fid s, peers (uninit id fid s) = peers s.
Proof. intros. unfold uninit. rewrite !detach_peers. reflexivity. Qed.

Lemma cease_all_bags : forall id ms s, bags_ok s -> bags_ok (cease_all id ms s).
Proof. intros id ms. induction ms as [|m t IH]; intros s H; cbn [cease_all]; auto using uninit_bags. Qed.

Lemma cease_all_peers : forall id ms s, peers (cease_all id ms s) = peers s.
Proof. intros id ms. induction ms as [|m t IH]; intros s; cbn [cease_all]; [reflexivity|]. rewrite IH, uninit_peers. reflexivity. Qed.

Lemma new_peer_ok : forall c, peer_ok (new_peer c).
Proof. intros c. unfold peer_ok, new_peer; cbn. repeat split; constructor. Qed.

Lemma replace_imp_ok : forall c p, peer_ok p -> peer_ok (replace_imp c p).
Proof.
  intros c p (Hi & He & Hc & Hm). unfold peer_ok, replace_imp; cbn. repeat split; auto.
  rewrite Forall_map. eapply Forall_impl; [|exact Hm]. intros m (H4 & H6 & Ha).
  unfold fsm_ok in *; cbn. split; [|split].
  - unfold fam_ok, set_fam_imp in *. destruct (m_f4 m); cbn; auto. destruct H4; auto.
  - unfold fam_ok, set_fam_imp in *. destruct (m_f6 m); cbn; auto. destruct H6; auto.
  - intros E. destruct (Ha E) as [A B]. unfold attached, set_fam_imp in *.
    destruct (m_f4 m), (m_f6 m); cbn in *; auto.
Qed.

Lemma replace_exp_ok : forall c p, peer_ok p -> peer_ok (replace_exp c p).
Proof.
  intros c p (Hi & He & Hc & Hm). unfold peer_ok, replace_exp; cbn. repeat split; auto.
  rewrite Forall_map. eapply Forall_impl; [|exact Hm]. intros m (H4 & H6 & Ha).
  unfold fsm_ok in *; cbn. split; [|split].
  - unfold fam_ok, set_fam_exp in *. destruct (m_f4 m); cbn; auto. destruct H4; auto.
  - unfold fam_ok, set_fam_exp in *. destruct (m_f6 m); cbn; auto. destruct H6; auto.
  - intros E. destruct (Ha E) as [A B]. unfold attached, set_fam_exp in *.
    destruct (m_f4 m), (m_f6 m); cbn in *; auto.
Qed.

Lemma inbound_ok : forall p, peer_ok p ->
  peer_ok {| p_cfg := p_cfg p; p_cluster := p_cluster p; p_imp := p_imp p; p_exp := p_exp p;
             p_fsms := p_fsms p ++ [new_fsm p]; p_next := S (p_next p) |}.
Proof.
  intros p (Hi & He & Hc & Hm). unfold peer_ok; cbn. repeat split; auto.
  apply Forall_app. split.
  - eapply Forall_impl; [|exact Hm]. intros m H. eapply fsm_ok_ext; [| |exact H]; reflexivity.
  - constructor; [|constructor]. unfold fsm_ok, new_fsm, new_fam, fam_ok, attached; cbn.
    repeat split; [destruct (c_has4 (p_cfg p)) | destruct (c_has6 (p_cfg p)) | destruct (c_has4 (p_cfg p)) | destruct (c_has6 (p_cfg p))]; cbn; auto.
Qed.

Lemma step_inv : forall s e, inv s -> inv (step s e).
Proof.
  intros s e [Hp Hb]. destruct e as [c|id|id fid|id fid|id c|id c|id]; cbn [step].
  - destruct (find_peer (c_id c) (peers s)); [split; assumption|].
    split; [constructor; [apply new_peer_ok | exact Hp] | exact Hb].
  - split; [|exact Hb]. cbn. apply upd_peer_ok; [exact Hp | apply inbound_ok].
  - unfold establish. destruct (find_peer id (peers s)) as [p|]; [|split; assumption].
    destruct (find_fsm fid (p_fsms p)) as [m|]; [|split; assumption].
    destruct (m_est m); [split; assumption|].
    assert (inv (with_peers s (upd_peer id (fun p0 => set_fsms (upd_fsm fid fsm_up (p_fsms p0)) p0) (peers s)))) as H1.
    { split; [|exact Hb]. cbn. apply upd_peer_ok; [exact Hp|]. intros q Hq. apply set_fsms_ok; [exact Hq|].
      destruct Hq as (_ & _ & _ & Hm). apply upd_fsm_ok; [exact Hm | apply fsm_up_ok]. }
    assert (forall r s0, inv s0 -> inv (attach r s0)) as Hatt.
    { intros r s0 [A0 B0]. split; [exact A0 | apply attach_bags; exact B0]. }
    destruct (c_has4 (p_cfg p)), (c_has6 (p_cfg p)); repeat apply Hatt; exact H1.
  - unfold down. split.
    + cbn. try rewrite uninit_peers. apply upd_peer_ok; [exact Hp|]. intros q Hq. apply set_fsms_ok; [exact Hq|].
      destruct Hq as (_ & _ & _ & Hm). apply upd_fsm_ok; [exact Hm | apply fsm_down_ok].
    + pose proof (uninit_bags id fid s Hb) as [A B]. split; cbn; assumption.
  - split; [|exact Hb]. cbn. apply upd_peer_ok; [exact Hp | apply replace_imp_ok].
  - split; [|exact Hb]. cbn. apply upd_peer_ok; [exact Hp | apply replace_exp_ok].
  - unfold dispose. destruct (find_peer id (peers s)) as [p|]; [|split; assumption]. split.
    + cbn. try rewrite cease_all_peers. clear -Hp. induction Hp as [|q t Hq Ht IH]; cbn [filter]; [constructor|].
      destruct (negb (Nat.eqb (pid q) id)); [constructor|]; assumption.
    + pose proof (cease_all_bags id (p_fsms p) s Hb) as [A B]. split; cbn; assumption.
Qed.

Lemma run_inv_from : forall evs s, inv s -> inv (fold_left step evs s).
Proof. intros evs. induction evs as [|e t IH]; intros s H; cbn [fold_left]; auto using step_inv. Qed.

Lemma run_inv : forall evs, inv (run evs).
Proof. intros. apply run_inv_from. split; [constructor | split; constructor]. Qed.

(* ---------------------------------------------------------------- disposal *)

Lemma partition_snd : forall A (f : A -> bool) l x, In x (snd (partition f l)) <-> In x l /\ f x = false.
Proof.
  intros A f l x. induction l as [|a t IH]; cbn [partition snd].
  - cbn. tauto.
  - destruct (partition f t) as [g r] eqn:E. cbn [snd] in IH. destruct (f a) eqn:Fa; cbn [snd In]; rewrite ?IH.
    + split; [intros [H1 H2]; auto | intros [[->|H1] H2]; [congruence | auto]].
    + split; [intros [->|[H1 H2]]; auto | intros [[->|H1] H2]; auto].
Qed.

Lemma detach_sub : forall id fid a s x, In x (regs (detach id fid a s)) -> In x (regs s).
Proof. intros id fid a s x H. unfold detach in H; cbn [regs] in H. apply partition_snd in H. tauto. Qed.

Lemma detach_gone : forall id fid a s x, In x (regs (detach id fid a s)) -> reg_is id fid a x = false.
Proof. intros id fid a s x H. unfold detach in H; cbn [regs] in H. apply partition_snd in H. tauto. Qed.

Lemma uninit_sub : forall id fid s x, In x (regs (uninit id fid s)) -> In x (regs s).
Proof. intros id fid s x H. unfold uninit in H. apply detach_sub in H. apply detach_sub in H. exact H. Qed.

Lemma uninit_gone : forall id fid s a x, In x (regs (uninit id fid s)) -> reg_is id fid a x = false.
Proof.
  intros id fid s a x H. unfold uninit in H. destruct a.
  - apply detach_sub in H. eapply detach_gone; exact H.
  - eapply detach_gone; exact H.
Qed.

Lemma cease_all_sub : forall id ms s x, In x (regs (cease_all id ms s)) -> In x (regs s).
Proof. intros id ms. induction ms as [|m t IH]; intros s x H; cbn [cease_all] in H; auto. apply IH in H. eapply uninit_sub; exact H. Qed.

Lemma cease_all_gone : forall id ms s m a x,
  In m ms -> In x (regs (cease_all id ms s)) -> reg_is id (m_id m) a x = false.
Proof.
  intros id ms. induction ms as [|m0 t IH]; intros s m a x Hm Hx; [destruct Hm|]. cbn [cease_all] in Hx.
  destruct Hm as [->|Hm].
  - apply cease_all_sub in Hx. eapply uninit_gone; exact Hx.
  - eapply IH; eauto.
Qed.

Lemma find_peer_filter_none : forall id ps, find_peer id (filter (fun q => negb (Nat.eqb (pid q) id)) ps) = None.
Proof.
  intros id ps. unfold find_peer. induction ps as [|q t IH]; cbn [filter find]; [reflexivity|].
  destruct (Nat.eqb (pid q) id) eqn:E; cbn [negb]; [exact IH|]. cbn [find]. rewrite E. exact IH.
Qed.

Lemma dispose_removes_everything : forall evs id p,
  find_peer id (peers (run evs)) = Some p ->
  let s' := step (run evs) (Dispose id) in
  find_peer id (peers s') = None /\
  (forall m a r, In m (p_fsms p) -> In r (regs s') -> reg_is id (m_id m) a r = false) /\
  (forall r, In r (regs s') -> In r (regs (run evs))) /\
  Permutation (asn_bag s') (map r_asn (regs s')) /\
  Permutation (cl_bag s') (map r_cl (regs s')).
Proof.
  intros evs id p Hf s'. pose proof (run_inv evs) as Hinv. pose proof (step_inv _ (Dispose id) Hinv) as [_ [Ha Hc]].
  subst s'. cbn [step] in *. unfold dispose in *. rewrite Hf in *. cbn [peers regs asn_bag cl_bag with_peers] in *.
  repeat split; auto.
  - apply find_peer_filter_none.
  - intros m a r Hm Hr. eapply cease_all_gone; eauto.
  - intros r Hr. eapply cease_all_sub; exact Hr.
Qed.

(* ---------------------------------------------------------------- the other three *)

Lemma find_peer_in : forall id ps p, find_peer id ps = Some p -> In p ps /\ pid p = id.
Proof.
  intros id ps p H. unfold find_peer in H. apply find_some in H. destruct H as [H1 H2]. apply Nat.eqb_eq in H2. auto.
Qed.

Lemma reachable_peer_ok : forall evs id p, find_peer id (peers (run evs)) = Some p -> peer_ok p.
Proof.
  intros evs id p H. apply find_peer_in in H. destruct H as [Hin _].
  pose proof (run_inv evs) as [Hp _]. rewrite Forall_forall in Hp. auto.
Qed.

Lemma later_fsm_uses_current_chains : forall evs id p m,
  find_peer id (peers (run evs)) = Some p -> In m (p_fsms p) ->
  forall f, (m_f4 m = Some f \/ m_f6 m = Some f) ->
  f_imp f = effective (c_imp (p_cfg p)) /\ f_exp f = effective (c_exp (p_cfg p)).
Proof.
  intros evs id p m Hf Hm f Hfam. destruct (reachable_peer_ok _ _ _ Hf) as (Hi & He & _ & Hms).
  rewrite Forall_forall in Hms. destruct (Hms m Hm) as (H4 & H6 & _). unfold fam_ok in *.
  destruct Hfam as [E|E]; rewrite E in *; [destruct H4 | destruct H6]; split; congruence.
Qed.

Lemma default_cluster_id_is_router_id : forall evs id p,
  find_peer id (peers (run evs)) = Some p -> c_rrc (p_cfg p) = true ->
  p_cluster p = effective_cluster (p_cfg p).
Proof.
  intros evs id p Hf Hr. destruct (reachable_peer_ok _ _ _ Hf) as (_ & _ & Hc & _).
  rewrite Hc, Hr. unfold effective_cluster. reflexivity.
Qed.

Lemma all_families_disposed : forall evs id p m,
  find_peer id (peers (run evs)) = Some p -> In m (p_fsms p) -> m_est m = false ->
  attached (m_f4 m) = false /\ attached (m_f6 m) = false.
Proof.
  intros evs id p m Hf Hm He. destruct (reachable_peer_ok _ _ _ Hf) as (_ & _ & _ & Hms).
  rewrite Forall_forall in Hms. destruct (Hms m Hm) as (_ & _ & Ha). auto.
Qed.
