(* C32 proofs. *)
From Coq Require Import List Bool NArith Arith Lia.
Import ListNotations.
From BioVerif Require Import Model.LSDB Spec.LSDBSpec.
Open Scope N_scope.

(* ------------------------------------------------------------------ ids, sets, association lists *)

Lemma id_eqb_eq : forall a b, id_eqb a b = true <-> a = b.
Proof.
  intros [sa pa na] [sb pb nb]. unfold id_eqb. simpl. split.
  - intros H. apply andb_true_iff in H. destruct H as [H H3].
    apply andb_true_iff in H. destruct H as [H1 H2].
    apply N.eqb_eq in H1. apply N.eqb_eq in H2. apply N.eqb_eq in H3. subst. reflexivity.
  - intros H. injection H as H1 H2 H3. subst. rewrite !N.eqb_refl. reflexivity.
Qed.

Lemma id_eqb_refl : forall a, id_eqb a a = true.
Proof. intros a. apply id_eqb_eq. reflexivity. Qed.

Lemma id_eqb_neq : forall a b, id_eqb a b = false <-> a <> b.
Proof.
  intros a b. split.
  - intros H Heq. apply id_eqb_eq in Heq. rewrite Heq in H. discriminate.
  - intros H. destruct (id_eqb a b) eqn:E; auto. apply id_eqb_eq in E. contradiction.
Qed.

Lemma id_eqb_sym : forall a b, id_eqb a b = id_eqb b a.
Proof.
  intros a b. destruct (id_eqb a b) eqn:E.
  - apply id_eqb_eq in E. subst. symmetry. apply id_eqb_refl.
  - symmetry. apply id_eqb_neq. apply id_eqb_neq in E. auto.
Qed.

Lemma mem_In : forall i l, mem i l = true <-> In i l.
Proof.
  induction l as [| x r IH]; simpl.
  - split; [discriminate | contradiction].
  - rewrite orb_true_iff, IH, Nat.eqb_eq. tauto.
Qed.

Lemma In_set_add : forall i j l, In j (set_add i l) <-> In j l \/ j = i.
Proof.
  intros i j l. unfold set_add. destruct (mem i l) eqn:E.
  - apply mem_In in E. split; [auto | intros [H | H]; subst; auto].
  - simpl. split; intros [H | H]; auto.
Qed.

Lemma In_set_del : forall i j l, In j (set_del i l) <-> In j l /\ j <> i.
Proof.
  intros i j l. unfold set_del. rewrite filter_In, negb_true_iff, Nat.eqb_neq. tauto.
Qed.

Lemma lookup_store_same : forall k v t, lookup k (store k v t) = Some v.
Proof.
  induction t as [| [k' v'] r IH]; simpl.
  - rewrite id_eqb_refl. reflexivity.
  - destruct (id_eqb k' k) eqn:E; simpl; rewrite E; auto.
Qed.

Lemma lookup_store_other : forall k k' v t, k' <> k -> lookup k (store k' v t) = lookup k t.
Proof.
  induction t as [| [k'' v''] r IH]; intros Hne; simpl.
  - apply id_eqb_neq in Hne. rewrite Hne. reflexivity.
  - destruct (id_eqb k'' k') eqn:E; simpl.
    + apply id_eqb_eq in E. subst k''. apply id_eqb_neq in Hne. rewrite Hne. reflexivity.
    + rewrite IH; auto.
Qed.

Lemma lookup_In : forall k t e, lookup k t = Some e -> In (k, e) t.
Proof.
  induction t as [| [k' v'] r IH]; intros e H; simpl in *; try discriminate.
  destruct (id_eqb k' k) eqn:E.
  - apply id_eqb_eq in E. subst. injection H as H. subst. auto.
  - right. apply IH; auto.
Qed.

Lemma notin_lookup_none : forall k t, ~ In k (map fst t) -> lookup k t = None.
Proof.
  induction t as [| [k' v'] r IH]; intros H; simpl in *; auto.
  destruct (id_eqb k' k) eqn:E.
  - apply id_eqb_eq in E. subst. exfalso. apply H. auto.
  - apply IH. intros H1. apply H. auto.
Qed.

Lemma store_keys_in : forall k v t x, In x (map fst (store k v t)) -> x = k \/ In x (map fst t).
Proof.
  induction t as [| [k' v'] r IH]; intros x H; simpl in *.
  - destruct H as [H | []]. auto.
  - destruct (id_eqb k' k) eqn:E; simpl in *.
    + destruct H as [H | H]; auto.
    + destruct H as [H | H]; auto. apply IH in H. destruct H; auto.
Qed.

Lemma store_nodup : forall k v t, NoDup (map fst t) -> NoDup (map fst (store k v t)).
Proof.
  induction t as [| [k' v'] r IH]; intros H; simpl in *.
  - constructor; auto.
  - inversion H as [| ? ? Hn Hr]; subst.
    destruct (id_eqb k' k) eqn:E; simpl.
    + constructor; auto.
    + constructor; auto. intros Hin. apply store_keys_in in Hin. destruct Hin as [Hin | Hin].
      * subst. rewrite id_eqb_refl in E. discriminate.
      * contradiction.
Qed.

Lemma store_In : forall k v t x e, In (x, e) (store k v t) -> (x = k /\ e = v) \/ In (x, e) t.
Proof.
  induction t as [| [k' v'] r IH]; intros x e H; simpl in *.
  - destruct H as [H | []]. injection H as H1 H2. auto.
  - destruct (id_eqb k' k) eqn:E; simpl in *.
    + apply id_eqb_eq in E. subst k'. destruct H as [H | H]; auto. injection H as H1 H2. auto.
    + destruct H as [H | H]; auto. apply IH in H. destruct H; auto.
Qed.

(* maps that keep the keys *)
Lemma lookup_map : forall (f : lspid * entry -> lspid * entry) k t,
  (forall kv, fst (f kv) = fst kv) ->
  lookup k (map f t) = match lookup k t with Some e => Some (snd (f (k, e))) | None => None end.
Proof.
  intros f k t Hf. induction t as [| [k' v'] r IH]; simpl; auto.
  pose proof (Hf (k', v')) as H1. destruct (f (k', v')) as [k2 v2] eqn:Ef. simpl in H1. subst k2.
  destruct (id_eqb k' k) eqn:E.
  - apply id_eqb_eq in E. subst k'. rewrite Ef. reflexivity.
  - exact IH.
Qed.

Lemma map_keys : forall (f : lspid * entry -> lspid * entry) t,
  (forall kv, fst (f kv) = fst kv) -> map fst (map f t) = map fst t.
Proof.
  intros f t Hf. induction t as [| kv r IH]; simpl; auto. rewrite Hf, IH. reflexivity.
Qed.

(* ------------------------------------------------------------------ well-formed states *)

Definition wf (s : srv) : Prop := NoDup (map fst (db s)).

Lemma snp_entry_fields : forall s i x,
  ifs (snp_entry s i x) = ifs s /\ own (snp_entry s i x) = own s /\
  counter (snp_entry s i x) = counter s /\ pending (snp_entry s i x) = pending s.
Proof.
  intros s i [[k sq] lt]. unfold snp_entry.
  destruct (lookup k (db s)) as [e |]; simpl; auto.
  destruct (sq =? seq e); simpl; auto. destruct (sq <? seq e); simpl; auto.
Qed.

Lemma snp_entries_fields : forall l s i,
  ifs (snp_entries s i l) = ifs s /\ own (snp_entries s i l) = own s /\
  counter (snp_entries s i l) = counter s /\ pending (snp_entries s i l) = pending s.
Proof.
  induction l as [| x r IH]; intros s i; simpl; auto.
  unfold snp_entries in *. simpl.
  destruct (IH (snp_entry s i x) i) as (H1 & H2 & H3 & H4).
  destruct (snp_entry_fields s i x) as (G1 & G2 & G3 & G4).
  rewrite H1, H2, H3, H4. auto.
Qed.

Lemma snp_entry_wf : forall s i x, wf s -> wf (snp_entry s i x).
Proof.
  intros s i [[k sq] lt] H. unfold wf, snp_entry in *.
  destruct (lookup k (db s)) as [e |]; simpl; try (apply store_nodup; auto).
  destruct (sq =? seq e); simpl; try (apply store_nodup; auto).
  destruct (sq <? seq e); simpl; apply store_nodup; auto.
Qed.

Lemma snp_entries_wf : forall l s i, wf s -> wf (snp_entries s i l).
Proof.
  induction l as [| x r IH]; intros s i H; simpl; auto.
  unfold snp_entries in *. simpl. apply IH. apply snp_entry_wf. auto.
Qed.

Lemma csnp_missing_key : forall s i lo hi l kv, fst (csnp_missing s i lo hi l kv) = fst kv.
Proof.
  intros s i lo hi l [k e]. unfold csnp_missing.
  destruct ((life e =? 0) || (seq e =? 0)); auto.
  destruct (negb (id_leb lo k && id_leb k hi)); auto.
  destruct (mentioned k l); auto.
Qed.

Lemma age_keys : forall o t x, In x (map fst (fst (age o t))) -> In x (map fst t).
Proof.
  induction t as [| [k e] r IH]; intros x H; simpl in *; auto.
  destruct (age o r) as [r' req']. simpl in *.
  destruct (life e <=? 1); simpl in *; auto. destruct H as [H | H]; auto.
Qed.

Lemma age_nodup : forall o t, NoDup (map fst t) -> NoDup (map fst (fst (age o t))).
Proof.
  induction t as [| [k e] r IH]; intros H; simpl in *.
  - constructor.
  - inversion H as [| ? ? Hn Hr]; subst.
    pose proof (age_keys o r k) as Hk.
    destruct (age o r) as [r' req']. simpl in *.
    destruct (life e <=? 1); simpl; auto. constructor; auto.
Qed.

Lemma regen_wf : forall s, wf s -> wf (regen s).
Proof. intros s H. unfold wf, regen in *. simpl. apply store_nodup. auto. Qed.

Lemma step_wf : forall s e, wf s -> wf (step s e).
Proof.
  intros s e H. destruct e as [i k sq lt | i lo hi l | i l | | | | | |]; simpl.
  - unfold recv_lsp.
    destruct (id_eqb k (local_id s) && match lookup k (db s) with None => true | Some e => seq e <? sq end).
    + exact H.
    + unfold wf in *. destruct (lookup k (db s)) as [e |]; simpl; try (apply store_nodup; auto).
      destruct (seq e <? sq); simpl; try (apply store_nodup; auto).
      destruct (sq =? seq e); simpl; apply store_nodup; auto.
  - unfold recv_csnp. pose proof (snp_entries_wf l s i H) as H1. unfold wf in *. simpl.
    rewrite map_keys; auto. intros kv. apply csnp_missing_key.
  - apply snp_entries_wf. auto.
  - unfold tick. pose proof (age_nodup (local_id s) (db s) H) as Ha.
    destruct (age (local_id s) (db s)) as [d req]. unfold wf. simpl in *. exact Ha.
  - unfold service. destruct (pending s); auto. apply regen_wf. exact H.
  - apply regen_wf. exact H.
  - exact H.
  - unfold wf, clear_all_ssn in *. simpl. rewrite map_keys; auto.
  - exact H.
Qed.

Lemma run_wf : forall evs s, wf s -> wf (run s evs).
Proof.
  induction evs as [| e r IH]; intros s H; simpl; auto. apply IH. apply step_wf. exact H.
Qed.

Lemma init_wf : forall ifaces o, wf (init ifaces o).
Proof. intros ifaces o. unfold init. apply regen_wf. apply regen_wf. unfold wf. simpl. constructor. Qed.

Lemma step_own : forall s e, own (step s e) = own s /\ ifs (step s e) = ifs s.
Proof.
  intros s e. destruct e as [i k sq lt | i lo hi l | i l | | | | | |]; simpl; auto.
  - unfold recv_lsp.
    destruct (id_eqb k (local_id s) && match lookup k (db s) with None => true | Some e => seq e <? sq end); simpl; auto.
    destruct (lookup k (db s)) as [e |]; simpl; auto.
    destruct (seq e <? sq); simpl; auto. destruct (sq =? seq e); simpl; auto.
  - unfold recv_csnp. simpl. destruct (snp_entries_fields l s i) as (H1 & H2 & _). auto.
  - unfold recv_psnp. destruct (snp_entries_fields l s i) as (H1 & H2 & _). auto.
  - unfold tick. destruct (age (local_id s) (db s)). simpl. auto.
  - unfold service. destruct (pending s); simpl; auto.
Qed.

Lemma step_local_id : forall s e, local_id (step s e) = local_id s.
Proof. intros s e. unfold local_id. destruct (step_own s e) as [H _]. rewrite H. reflexivity. Qed.

(* ------------------------------------------------------------------ lookups through every operation *)

Definition same_copy (e e' : entry) : Prop := seq e' = seq e /\ life e' = life e.

Lemma snp_entry_lookup : forall s i x k e, lookup k (db s) = Some e ->
  exists e', lookup k (db (snp_entry s i x)) = Some e' /\ same_copy e e'.
Proof.
  intros s i [[k' sq] lt] k e Hl. unfold snp_entry, same_copy.
  destruct (id_eqb k' k) eqn:E.
  - apply id_eqb_eq in E. subst k'. rewrite Hl.
    destruct (sq =? seq e); simpl; [| destruct (sq <? seq e); simpl];
      rewrite lookup_store_same; eexists; (split; [reflexivity |]); simpl; auto.
    unfold set_srm. destruct (if_ok s i && negb (seq (clear_ssn i e) =? 0)); simpl; auto.
  - apply id_eqb_neq in E.
    destruct (lookup k' (db s)) as [e0 |]; simpl.
    + destruct (sq =? seq e0); simpl; [| destruct (sq <? seq e0); simpl];
        rewrite lookup_store_other; auto; exists e; auto.
    + rewrite lookup_store_other; auto. exists e. auto.
Qed.

Lemma snp_entries_lookup : forall l s i k e, lookup k (db s) = Some e ->
  exists e', lookup k (db (snp_entries s i l)) = Some e' /\ same_copy e e'.
Proof.
  induction l as [| x r IH]; intros s i k e Hl.
  - exists e. unfold same_copy. auto.
  - unfold snp_entries in *. simpl.
    destruct (snp_entry_lookup s i x k e Hl) as (e1 & H1 & Hs1 & Hl1).
    destruct (IH (snp_entry s i x) i k e1 H1) as (e2 & H2 & Hs2 & Hl2).
    exists e2. unfold same_copy. split; auto. split; congruence.
Qed.

Lemma csnp_missing_copy : forall s i lo hi l k e,
  same_copy e (snd (csnp_missing s i lo hi l (k, e))).
Proof.
  intros s i lo hi l k e. unfold csnp_missing, same_copy.
  destruct ((life e =? 0) || (seq e =? 0)); simpl; auto.
  destruct (negb (id_leb lo k && id_leb k hi)); simpl; auto.
  destruct (mentioned k l); simpl; auto.
  unfold set_srm. destruct (if_ok s i && negb (seq e =? 0)); simpl; auto.
Qed.

Lemma age_lookup : forall o t k, NoDup (map fst t) ->
  lookup k (fst (age o t)) =
  match lookup k t with
  | None => None
  | Some e => if life e <=? 1 then None else Some (mkE (seq e) (life e - 1) (srm e) (ssn e))
  end.
Proof.
  induction t as [| [k' e'] r IH]; intros k Hnd; simpl; auto.
  inversion Hnd as [| ? ? Hn Hr]; subst. specialize (IH k Hr).
  destruct (age o r) as [r' req']. simpl in IH.
  destruct (id_eqb k' k) eqn:E.
  - apply id_eqb_eq in E. subst k'.
    destruct (life e' <=? 1); simpl.
    + rewrite IH. rewrite (notin_lookup_none k r Hn). reflexivity.
    + rewrite id_eqb_refl. reflexivity.
  - destruct (life e' <=? 1); simpl; auto. rewrite E. exact IH.
Qed.

Lemma tick_lookup : forall s k, wf s ->
  lookup k (db (tick s)) =
  match lookup k (db s) with
  | None => None
  | Some e => if life e <=? 1 then None else Some (mkE (seq e) (life e - 1) (srm e) (ssn e))
  end.
Proof.
  intros s k H. unfold tick. pose proof (age_lookup (local_id s) (db s) k H) as Ha.
  destruct (age (local_id s) (db s)) as [d req]. simpl in *. exact Ha.
Qed.

Lemma regen_lookup_other : forall s k, k <> local_id s -> lookup k (db (regen s)) = lookup k (db s).
Proof.
  intros s k H. unfold regen. simpl. apply lookup_store_other. auto.
Qed.

Lemma regen_lookup_local : forall s,
  exists e, lookup (local_id s) (db (regen s)) = Some e /\ seq e = next_seq (counter s) /\
            life e = default_lifetime /\ ssn e = [].
Proof.
  intros s. unfold regen. simpl. rewrite lookup_store_same. eexists. split; [reflexivity |].
  set (s1 := mkS (ifs s) (own s) (db s) (next_seq (counter s)) (pending s)).
  assert (H : forall l e, seq (set_srm_all s1 l e) = seq e /\ life (set_srm_all s1 l e) = life e /\
                          ssn (set_srm_all s1 l e) = ssn e).
  { induction l as [| j r IH]; intros e; simpl; auto.
    destruct (IH (set_srm s1 j e)) as (H1 & H2 & H3). rewrite H1, H2, H3.
    unfold set_srm. destruct (if_ok s1 j && negb (seq e =? 0)); simpl; auto. }
  destruct (H (all_ifs s1) (mkE (next_seq (counter s)) default_lifetime [] [])) as (H1 & H2 & H3).
  rewrite H1, H2, H3. simpl. auto.
Qed.

(* ------------------------------------------------------------------ C32: the highest sequence number is kept *)

Lemma set_srm_all_copy : forall s l e, seq (set_srm_all s l e) = seq e /\ life (set_srm_all s l e) = life e /\
                                       ssn (set_srm_all s l e) = ssn e.
Proof.
  induction l as [| j r IH]; intros e; simpl; auto.
  destruct (IH (set_srm s j e)) as (H1 & H2 & H3). rewrite H1, H2, H3.
  unfold set_srm. destruct (if_ok s j && negb (seq e =? 0)); simpl; auto.
Qed.

Definition local_newer (s : srv) (k : lspid) (sq : N) : bool :=
  id_eqb k (local_id s) && match lookup k (db s) with None => true | Some e => seq e <? sq end.

(* reception of an LSP: the database copy of that id afterwards has the higher of the two sequence
   numbers (and the lifetime of that copy); a newer copy of the own LSP is not installed but raises
   the counter and requests a regeneration; no other id is touched *)
Theorem recv_lsp_highest : forall s i k sq lt,
  let s' := recv_lsp s i k sq lt in
  (forall k', k' <> k -> lookup k' (db s') = lookup k' (db s)) /\
  (local_newer s k sq = true ->
     db s' = db s /\ counter s' = N.max (counter s) sq /\ pending s' = true) /\
  (local_newer s k sq = false ->
     counter s' = counter s /\ pending s' = pending s /\
     exists e', lookup k (db s') = Some e' /\
       match lookup k (db s) with
       | None => seq e' = sq /\ life e' = lt
       | Some e => seq e' = N.max (seq e) sq /\ life e' = (if seq e <? sq then lt else life e)
       end).
Proof.
  intros s i k sq lt s'. unfold s', recv_lsp, local_newer.
  destruct (id_eqb k (local_id s) && match lookup k (db s) with None => true | Some e => seq e <? sq end) eqn:Eln.
  - split; [intros; reflexivity |]. split; [intros _; simpl; auto | discriminate].
  - split.
    + intros k' Hne.
      destruct (lookup k (db s)) as [e |]; simpl; [| apply lookup_store_other; auto].
      destruct (seq e <? sq); simpl; [apply lookup_store_other; auto |].
      destruct (sq =? seq e); simpl; apply lookup_store_other; auto.
    + split; [discriminate |]. intros _.
      destruct (lookup k (db s)) as [e |] eqn:El; simpl.
      * destruct (seq e <? sq) eqn:Elt; simpl.
        -- repeat split; auto. rewrite lookup_store_same. eexists. split; [reflexivity |]. simpl.
           destruct (set_srm_all_copy s (all_ifs_except s i) (mkE sq lt [] [])) as (H1 & H2 & _).
           rewrite H1, H2. simpl. apply N.ltb_lt in Elt. split; [lia | reflexivity].
        -- apply N.ltb_ge in Elt. destruct (sq =? seq e) eqn:Eeq; simpl.
           ++ repeat split; auto. rewrite lookup_store_same. eexists. split; [reflexivity |]. simpl.
              split; [lia | reflexivity].
           ++ repeat split; auto. rewrite lookup_store_same. eexists. split; [reflexivity |].
              unfold set_srm. destruct (if_ok s i && negb (seq e =? 0)); simpl; split; try lia; reflexivity.
      * repeat split; auto. rewrite lookup_store_same. eexists. split; [reflexivity |]. simpl.
        destruct (set_srm_all_copy s (all_ifs_except s i) (mkE sq lt [] [])) as (H1 & H2 & _).
        rewrite H1, H2. simpl. auto.
Qed.

(* no other event replaces or drops a copy, except aging it out and regenerating the own LSP *)
Theorem kept_until_aged_out : forall s ev k e, wf s -> lookup k (db s) = Some e ->
  match ev with
  | Tick =>
    lookup k (db (step s ev)) =
      if life e <=? 1 then None else Some (mkE (seq e) (life e - 1) (srm e) (ssn e))
  | Service | Regen => k <> local_id s -> lookup k (db (step s ev)) = Some e
  | RecvLSP _ _ _ _ => exists e', lookup k (db (step s ev)) = Some e' /\ seq e <= seq e'
  | _ => exists e', lookup k (db (step s ev)) = Some e' /\ same_copy e e'
  end.
Proof.
  intros s ev k e Hwf Hl. destruct ev as [i k' sq lt | i lo hi l | i l | | | | | |]; simpl.
  - destruct (recv_lsp_highest s i k' sq lt) as (Hother & Hnew & Hold).
    destruct (id_eqb k' k) eqn:E.
    + apply id_eqb_eq in E. subst k'.
      destruct (local_newer s k sq) eqn:Eln.
      * destruct (Hnew eq_refl) as (Hdb & _). rewrite Hdb. exists e. split; auto. lia.
      * destruct (Hold eq_refl) as (_ & _ & e' & He' & Hm). rewrite Hl in Hm.
        exists e'. split; auto. destruct Hm as [Hm _]. lia.
    + apply id_eqb_neq in E. rewrite Hother; auto. exists e. split; auto. lia.
  - unfold recv_csnp. simpl.
    destruct (snp_entries_lookup l s i k e Hl) as (e1 & H1 & Hs1 & Hl1).
    rewrite lookup_map; [| intros kv; apply csnp_missing_key]. rewrite H1.
    eexists. split; [reflexivity |].
    destruct (csnp_missing_copy (snp_entries s i l) i lo hi l k e1) as [Hs2 Hl2].
    unfold same_copy. split; congruence.
  - apply snp_entries_lookup. exact Hl.
  - rewrite tick_lookup; auto. rewrite Hl. reflexivity.
  - intros Hne. unfold service. destruct (pending s); auto.
    unfold regen. simpl. rewrite lookup_store_other; auto.
  - intros Hne. unfold regen. simpl. rewrite lookup_store_other; auto.
  - exists e. unfold same_copy. auto.
  - unfold clear_all_ssn. simpl. rewrite lookup_map; auto. rewrite Hl. simpl.
    eexists. split; [reflexivity |]. unfold same_copy. auto.
  - exists e. unfold same_copy. auto.
Qed.

(* over any history without aging and regeneration, the copy in the database carries the highest
   sequence number received for that id *)
Theorem highest_seq_history : forall evs s k e, wf s -> quiet evs = true ->
  k <> local_id s -> lookup k (db s) = Some e ->
  exists e', lookup k (db (run s evs)) = Some e' /\ seq e' = max_recv k evs (seq e).
Proof.
  induction evs as [| ev r IH]; intros s k e Hwf Hq Hne Hl.
  - exists e. auto.
  - unfold quiet in Hq. simpl in Hq. apply andb_true_iff in Hq. destruct Hq as [Hqe Hqr].
    assert (Hstep : exists e1, lookup k (db (step s ev)) = Some e1 /\ seq e1 = track_recv k (seq e) ev).
    { destruct ev as [i k' sq lt | i lo hi l | i l | | | | | |]; try discriminate.
      - simpl. destruct (recv_lsp_highest s i k' sq lt) as (Hother & Hnew & Hold).
        destruct (id_eqb k' k) eqn:E.
        + apply id_eqb_eq in E. subst k'.
          assert (Eln : local_newer s k sq = false).
          { unfold local_newer. apply id_eqb_neq in Hne. rewrite Hne. reflexivity. }
          destruct (Hold Eln) as (_ & _ & e' & He' & Hm). rewrite Hl in Hm. exists e'. tauto.
        + apply id_eqb_neq in E. rewrite Hother; auto. exists e. auto.
      - pose proof (kept_until_aged_out s (RecvCSNP i lo hi l) k e Hwf Hl) as (e1 & H1 & Hs & _).
        exists e1. auto.
      - pose proof (kept_until_aged_out s (RecvPSNP i l) k e Hwf Hl) as (e1 & H1 & Hs & _).
        exists e1. auto.
      - exists e. auto.
      - pose proof (kept_until_aged_out s SendPSNPs k e Hwf Hl) as (e1 & H1 & Hs & _).
        exists e1. auto.
      - exists e. auto. }
    destruct Hstep as (e1 & H1 & Hs1).
    assert (Hne1 : k <> local_id (step s ev)) by (rewrite step_local_id; exact Hne).
    destruct (IH (step s ev) k e1 (step_wf s ev Hwf) Hqr Hne1 H1) as (e2 & H2 & Hs2).
    exists e2. split; [exact H2 |]. unfold max_recv in *. simpl. rewrite Hs2, Hs1. reflexivity.
Qed.

(* ------------------------------------------------------------------ C32: SRM / SSN flag rules (ISO 10589 7.3.15 - 7.3.16) *)

Lemma if_ok_lt : forall s j, if_ok s j = true -> (j < length (ifs s))%nat.
Proof.
  intros s j H. unfold if_ok in H. destruct (nth_error (ifs s) j) eqn:E; try discriminate.
  apply nth_error_Some. rewrite E. discriminate.
Qed.

Lemma set_srm_In : forall s i e j,
  In j (srm (set_srm s i e)) <-> In j (srm e) \/ (j = i /\ if_ok s i = true /\ seq e <> 0).
Proof.
  intros s i e j. unfold set_srm. destruct (if_ok s i) eqn:Eo; simpl.
  - destruct (seq e =? 0) eqn:Ez; simpl.
    + apply N.eqb_eq in Ez. split; [auto | intros [H | (_ & _ & H)]; [auto | contradiction]].
    + apply N.eqb_neq in Ez. rewrite In_set_add. split; intros [H | H]; auto.
      destruct H as (H & _ & _). auto.
  - split; [auto | intros [H | (_ & H & _)]; [auto | discriminate]].
Qed.

Lemma set_srm_all_In : forall s l e j,
  In j (srm (set_srm_all s l e)) <-> In j (srm e) \/ (In j l /\ if_ok s j = true /\ seq e <> 0).
Proof.
  induction l as [| i r IH]; intros e j; simpl.
  - split; [auto | intros [H | (H & _)]; [auto | contradiction]].
  - rewrite IH. rewrite set_srm_In.
    assert (Hs : seq (set_srm s i e) = seq e).
    { unfold set_srm. destruct (if_ok s i && negb (seq e =? 0)); reflexivity. }
    rewrite Hs. split.
    + intros [[H | (H1 & H2 & H3)] | (H1 & H2 & H3)]; auto.
      subst. right. auto.
    + intros [H | ([H1 | H1] & H2 & H3)]; auto.
      subst. left. right. auto.
Qed.

Lemma all_ifs_except_In : forall s i j, In j (all_ifs_except s i) <-> (j < length (ifs s))%nat /\ j <> i.
Proof.
  intros s i j. unfold all_ifs_except, all_ifs. rewrite filter_In, in_seq, negb_true_iff, Nat.eqb_neq.
  split; intros [H1 H2]; split; auto; lia.
Qed.

(* 7.3.16: LSP received on circuit i *)
Theorem flags_lsp_newer : forall s i k sq lt,
  local_newer s k sq = false ->
  (lookup k (db s) = None \/ exists e, lookup k (db s) = Some e /\ seq e < sq) ->
  exists e', lookup k (db (recv_lsp s i k sq lt)) = Some e' /\
    ssn e' = [i] /\
    forall j, In j (srm e') <-> (j <> i /\ if_ok s j = true /\ sq <> 0).
Proof.
  intros s i k sq lt Hln Hcase. unfold local_newer in Hln. unfold recv_lsp. rewrite Hln.
  assert (Hnew : exists e', lookup k (db (with_db s (store k (set_ssn i (clear_srm i (set_srm_all s (all_ifs_except s i) (mkE sq lt [] [])))) (db s)))) = Some e' /\
                  ssn e' = [i] /\ forall j, In j (srm e') <-> (j <> i /\ if_ok s j = true /\ sq <> 0)).
  { simpl. rewrite lookup_store_same. eexists. split; [reflexivity |]. simpl.
    destruct (set_srm_all_copy s (all_ifs_except s i) (mkE sq lt [] [])) as (_ & _ & H3).
    rewrite H3. simpl. split; [reflexivity |].
    intros j. rewrite In_set_del, set_srm_all_In. simpl. rewrite all_ifs_except_In. split.
    - intros [[[] | ((H1 & H2) & H3' & H4)] H5]. auto.
    - intros (H1 & H2 & H3'). split; auto. right. repeat split; auto. apply if_ok_lt. auto. }
  destruct Hcase as [Hn | (e & He & Hlt)].
  - rewrite Hn. exact Hnew.
  - rewrite He. apply N.ltb_lt in Hlt. rewrite Hlt. exact Hnew.
Qed.

Theorem flags_lsp_same : forall s i k sq lt e,
  lookup k (db s) = Some e -> sq = seq e ->
  exists e', lookup k (db (recv_lsp s i k sq lt)) = Some e' /\
    (forall j, In j (srm e') <-> In j (srm e) /\ j <> i) /\
    (forall j, In j (ssn e') <-> In j (ssn e) \/ j = i).
Proof.
  intros s i k sq lt e He Hs. subst sq. unfold recv_lsp. rewrite He.
  rewrite N.ltb_irrefl. rewrite andb_false_r. rewrite N.eqb_refl. simpl.
  rewrite lookup_store_same. eexists. split; [reflexivity |]. simpl. split; intros j.
  - apply In_set_del.
  - apply In_set_add.
Qed.

Theorem flags_lsp_older : forall s i k sq lt e,
  lookup k (db s) = Some e -> sq < seq e ->
  exists e', lookup k (db (recv_lsp s i k sq lt)) = Some e' /\
    (forall j, In j (srm e') <-> In j (srm e) \/ (j = i /\ if_ok s i = true /\ seq e <> 0)) /\
    (forall j, In j (ssn e') <-> In j (ssn e) /\ j <> i).
Proof.
  intros s i k sq lt e He Hlt. unfold recv_lsp. rewrite He.
  assert (H1 : seq e <? sq = false) by (apply N.ltb_ge; lia).
  assert (H2 : sq =? seq e = false) by (apply N.eqb_neq; lia).
  rewrite H1, H2. rewrite andb_false_r. simpl.
  rewrite lookup_store_same. eexists. split; [reflexivity |]. split; intros j.
  - assert (Hc : srm (clear_ssn i (set_srm s i e)) = srm (set_srm s i e)) by reflexivity.
    rewrite Hc. apply set_srm_In.
  - simpl. rewrite In_set_del.
    assert (Hc : ssn (set_srm s i e) = ssn e).
    { unfold set_srm. destruct (if_ok s i && negb (seq e =? 0)); reflexivity. }
    rewrite Hc. tauto.
Qed.

(* 7.3.15.2 b): one entry (k, sq, lt) of a CSNP or PSNP received on circuit i *)
Theorem flags_snp_entry : forall s i k sq lt,
  exists e', lookup k (db (snp_entry s i (k, sq, lt))) = Some e' /\
  match lookup k (db s) with
  | None =>                                  (* unknown: ask for it, never SRM on sequence number 0 *)
    e' = mkE 0 lt [] [i]
  | Some e =>
    same_copy e e' /\
    if sq =? seq e then                      (* same: acknowledged *)
      (forall j, In j (srm e') <-> In j (srm e) /\ j <> i) /\ ssn e' = ssn e
    else if sq <? seq e then                 (* the neighbor's copy is older: send ours *)
      (forall j, In j (srm e') <-> In j (srm e) \/ (j = i /\ if_ok s i = true /\ seq e <> 0)) /\
      (forall j, In j (ssn e') <-> In j (ssn e) /\ j <> i)
    else                                     (* the neighbor's copy is newer: ask for it *)
      (forall j, In j (srm e') <-> In j (srm e) /\ j <> i) /\
      (forall j, In j (ssn e') <-> In j (ssn e) \/ j = i)
  end.
Proof.
  intros s i k sq lt. unfold snp_entry. destruct (lookup k (db s)) as [e |] eqn:He.
  - destruct (sq =? seq e) eqn:E1; [| destruct (sq <? seq e) eqn:E2]; simpl;
      rewrite lookup_store_same; eexists; (split; [reflexivity |]).
    + split; [unfold same_copy; simpl; auto |]. simpl. split; auto. intros j. apply In_set_del.
    + split.
      * unfold same_copy, set_srm. destruct (if_ok s i && negb (seq (clear_ssn i e) =? 0)); simpl; auto.
      * split; intros j.
        -- rewrite set_srm_In. simpl. tauto.
        -- assert (Hc : ssn (set_srm s i (clear_ssn i e)) = set_del i (ssn e)).
           { unfold set_srm. destruct (if_ok s i && negb (seq (clear_ssn i e) =? 0)); reflexivity. }
           rewrite Hc. apply In_set_del.
    + split; [unfold same_copy; simpl; auto |]. simpl. split; intros j.
      * apply In_set_del.
      * apply In_set_add.
  - simpl. rewrite lookup_store_same. eexists. split; reflexivity.
Qed.

(* 7.3.15.2 c): what a CSNP on circuit i does not mention within its range is flagged for i *)
Theorem flags_csnp_missing : forall s i lo hi l k e,
  let e' := snd (csnp_missing s i lo hi l (k, e)) in
  same_copy e e' /\ ssn e' = ssn e /\
  (life e <> 0 -> seq e <> 0 -> id_leb lo k = true -> id_leb k hi = true -> mentioned k l = false ->
     forall j, In j (srm e') <-> In j (srm e) \/ (j = i /\ if_ok s i = true)) /\
  (life e = 0 \/ seq e = 0 \/ id_leb lo k = false \/ id_leb k hi = false \/ mentioned k l = true ->
     e' = e).
Proof.
  intros s i lo hi l k e e'. split; [apply csnp_missing_copy |]. unfold e', csnp_missing.
  destruct (life e =? 0) eqn:E1; simpl.
  { apply N.eqb_eq in E1. repeat split; auto; intros; contradiction. }
  destruct (seq e =? 0) eqn:E2; simpl.
  { apply N.eqb_eq in E2. repeat split; auto; intros; contradiction. }
  apply N.eqb_neq in E1. apply N.eqb_neq in E2.
  destruct (id_leb lo k) eqn:E3; simpl.
  2:{ repeat split; auto; intros; discriminate. }
  destruct (id_leb k hi) eqn:E4; simpl.
  2:{ repeat split; auto; intros; discriminate. }
  destruct (mentioned k l) eqn:E5; simpl.
  { repeat split; auto; intros; discriminate. }
  split.
  - unfold set_srm. destruct (if_ok s i && negb (seq e =? 0)); reflexivity.
  - split.
    + intros _ _ _ _ _ j. rewrite set_srm_In. split; intros [H | H]; auto.
      * right. destruct H as (H1 & H2 & _). auto.
      * right. destruct H as (H1 & H2). auto.
    + intros [H | [H | [H | [H | H]]]]; try contradiction; discriminate.
Qed.

(* invariant of every reachable database: SRM is never set for a sequence number 0 entry, and only
   on active interfaces that have a neighbor *)
Definition flags_ok (s : srv) (e : entry) : Prop :=
  (seq e = 0 -> srm e = []) /\ (forall j, In j (srm e) -> if_ok s j = true).

Definition db_ok (s : srv) : Prop := forall k e, In (k, e) (db s) -> flags_ok s e.

Lemma flags_ok_ifs : forall s s' e, ifs s' = ifs s -> flags_ok s e -> flags_ok s' e.
Proof.
  intros s s' e H [H1 H2]. split; auto. intros j Hj. unfold if_ok. rewrite H. apply H2. auto.
Qed.

Lemma set_srm_ok : forall s i e, flags_ok s e -> flags_ok s (set_srm s i e).
Proof.
  intros s i e [H1 H2]. unfold set_srm. destruct (if_ok s i) eqn:Eo; simpl; [| split; auto].
  destruct (seq e =? 0) eqn:Ez; simpl; [split; auto |].
  apply N.eqb_neq in Ez. split; simpl.
  - intros H. contradiction.
  - intros j Hj. apply In_set_add in Hj. destruct Hj as [Hj | Hj]; subst; auto.
Qed.

Lemma set_srm_all_ok : forall s l e, flags_ok s e -> flags_ok s (set_srm_all s l e).
Proof.
  induction l as [| i r IH]; intros e H; simpl; auto. apply IH. apply set_srm_ok. auto.
Qed.

Lemma clear_srm_ok : forall s i e, flags_ok s e -> flags_ok s (clear_srm i e).
Proof.
  intros s i e [H1 H2]. split; simpl.
  - intros H. rewrite (H1 H). reflexivity.
  - intros j Hj. apply In_set_del in Hj. apply H2. tauto.
Qed.

Lemma set_ssn_ok : forall s i e, flags_ok s e -> flags_ok s (set_ssn i e).
Proof. intros s i e [H1 H2]. split; simpl; auto. Qed.
Lemma clear_ssn_ok : forall s i e, flags_ok s e -> flags_ok s (clear_ssn i e).
Proof. intros s i e [H1 H2]. split; simpl; auto. Qed.

Lemma empty_ok : forall s sq lt l, flags_ok s (mkE sq lt [] l).
Proof. intros. split; simpl; auto; try (intros j []). Qed.

Lemma store_ok : forall s s' k v, ifs s' = ifs s -> db s' = store k v (db s) ->
  db_ok s -> flags_ok s v -> db_ok s'.
Proof.
  intros s s' k v Hi Hd Hok Hv x e Hin. rewrite Hd in Hin. apply store_In in Hin.
  apply (flags_ok_ifs s s'); auto.
  destruct Hin as [[_ He] | Hin]; subst; auto. eapply Hok; eauto.
Qed.

Lemma with_db_store_ok : forall s k v, db_ok s -> flags_ok s v -> db_ok (with_db s (store k v (db s))).
Proof. intros s k v H1 H2. apply (store_ok s (with_db s (store k v (db s))) k v); auto. Qed.

Lemma snp_entry_ok : forall s i x, db_ok s -> db_ok (snp_entry s i x).
Proof.
  intros s i [[k sq] lt] Hok. unfold snp_entry.
  destruct (lookup k (db s)) as [e |] eqn:He.
  - assert (Hf : flags_ok s e) by (eapply Hok; apply lookup_In; eauto).
    destruct (sq =? seq e); [| destruct (sq <? seq e)]; apply with_db_store_ok; auto.
    + apply clear_srm_ok. auto.
    + apply set_srm_ok. apply clear_ssn_ok. auto.
    + apply set_ssn_ok. apply clear_srm_ok. auto.
  - apply with_db_store_ok; auto. apply empty_ok.
Qed.

Lemma snp_entries_ok : forall l s i, db_ok s -> db_ok (snp_entries s i l).
Proof.
  induction l as [| x r IH]; intros s i H; simpl; auto.
  unfold snp_entries in *. simpl. apply IH. apply snp_entry_ok. auto.
Qed.

Lemma age_In : forall o t k e, In (k, e) (fst (age o t)) ->
  exists e0, In (k, e0) t /\ seq e = seq e0 /\ srm e = srm e0.
Proof.
  induction t as [| [k' e'] r IH]; intros k e H; simpl in *; try contradiction.
  destruct (age o r) as [r' req']. simpl in *.
  destruct (life e' <=? 1); simpl in *.
  - destruct (IH k e H) as (e0 & H0 & Hs). exists e0. auto.
  - destruct H as [H | H].
    + injection H as H1 H2. subst. exists e'. simpl. auto.
    + destruct (IH k e H) as (e0 & H0 & Hs). exists e0. auto.
Qed.

Lemma regen_ok : forall s, db_ok s -> db_ok (regen s).
Proof.
  intros s Hok. unfold regen.
  set (s1 := mkS (ifs s) (own s) (db s) (next_seq (counter s)) (pending s)).
  apply (store_ok s _ (local_id s) (set_srm_all s1 (all_ifs s1) (mkE (next_seq (counter s)) default_lifetime [] [])));
    [reflexivity | reflexivity | exact Hok |].
  apply (flags_ok_ifs s1 s); [reflexivity |]. apply set_srm_all_ok. apply empty_ok.
Qed.

Lemma step_db_ok : forall s e, db_ok s -> db_ok (step s e).
Proof.
  intros s e Hok. destruct e as [i k sq lt | i lo hi l | i l | | | | | |]; simpl.
  - unfold recv_lsp.
    destruct (id_eqb k (local_id s) && match lookup k (db s) with None => true | Some e => seq e <? sq end).
    + intros x e Hin. apply (flags_ok_ifs s); [reflexivity |]. eapply Hok; eauto.
    + assert (Hnew : flags_ok s (set_ssn i (clear_srm i (set_srm_all s (all_ifs_except s i) (mkE sq lt [] []))))).
      { apply set_ssn_ok. apply clear_srm_ok. apply set_srm_all_ok. apply empty_ok. }
      destruct (lookup k (db s)) as [e |] eqn:He.
      * assert (Hf : flags_ok s e) by (eapply Hok; apply lookup_In; eauto).
        destruct (seq e <? sq); [| destruct (sq =? seq e)]; apply with_db_store_ok; auto.
        -- apply set_ssn_ok. apply clear_srm_ok. auto.
        -- apply clear_ssn_ok. apply set_srm_ok. auto.
      * apply with_db_store_ok; auto.
  - unfold recv_csnp. pose proof (snp_entries_ok l s i Hok) as H1.
    intros x e Hin. simpl in Hin. apply in_map_iff in Hin. destruct Hin as ([k0 e0] & Hf & Hin0).
    apply (flags_ok_ifs (snp_entries s i l)); [reflexivity |].
    specialize (H1 k0 e0 Hin0). unfold csnp_missing in Hf.
    destruct ((life e0 =? 0) || (seq e0 =? 0)); [injection Hf as _ Hf; subst; auto |].
    destruct (negb (id_leb lo k0 && id_leb k0 hi)); [injection Hf as _ Hf; subst; auto |].
    destruct (mentioned k0 l); [injection Hf as _ Hf; subst; auto |].
    injection Hf as _ Hf. subst. apply set_srm_ok. auto.
  - apply snp_entries_ok. auto.
  - unfold tick. intros x e Hin. pose proof (age_In (local_id s) (db s) x e) as Ha.
    destruct (age (local_id s) (db s)) as [d req]. simpl in *.
    destruct (Ha Hin) as (e0 & H0 & Hs & Hr). destruct (Hok x e0 H0) as [G1 G2].
    split.
    + intros Hz. rewrite Hr. apply G1. congruence.
    + intros j Hj. rewrite Hr in Hj. unfold if_ok. simpl. apply G2. auto.
  - unfold service. destruct (pending s); auto.
    apply (regen_ok (mkS (ifs s) (own s) (db s) (counter s) false)).
    intros x e Hin. apply (flags_ok_ifs s); [reflexivity |]. eapply Hok; eauto.
  - apply regen_ok. auto.
  - auto.
  - intros x e Hin. simpl in Hin. apply in_map_iff in Hin. destruct Hin as ([k0 e0] & Hf & Hin0).
    simpl in Hf. injection Hf as Hk He. subst x e. destruct (Hok k0 e0 Hin0) as [G1 G2].
    split; simpl; auto.
  - auto.
Qed.

Theorem flags_invariant : forall ifaces o evs k e,
  lookup k (db (run (init ifaces o) evs)) = Some e ->
  (seq e = 0 -> srm e = []) /\
  (forall j, In j (srm e) -> if_ok (run (init ifaces o) evs) j = true).
Proof.
  intros ifaces o evs k e Hl.
  assert (H : forall evs s, db_ok s -> db_ok (run s evs)).
  { induction evs0 as [| ev r IH]; intros s Hs; simpl; auto. apply IH. apply step_db_ok. auto. }
  assert (Hi : db_ok (init ifaces o)).
  { unfold init. apply regen_ok. apply regen_ok. intros x e0 []. }
  apply (H evs _ Hi k e). apply lookup_In. exact Hl.
Qed.

(* ------------------------------------------------------------------ C32: the local LSP is refreshed before it expires *)

Definition fresh (s : srv) : Prop :=
  exists e, lookup (local_id s) (db s) = Some e /\ 299 <= life e.

(* between an aging tick and the updater's turn *)
Definition aging (s : srv) : Prop :=
  exists e, lookup (local_id s) (db s) = Some e /\
            (299 <= life e \/ (pending s = true /\ 298 <= life e)).

Lemma regen_fresh : forall s, fresh (regen s).
Proof.
  intros s. destruct (regen_lookup_local s) as (e & He & _ & Hl & _).
  exists e. split.
  - unfold local_id, regen in *. simpl in *. exact He.
  - rewrite Hl. unfold default_lifetime. lia.
Qed.

Lemma age_req : forall o t e, lookup o t = Some e -> life e < refresh_threshold ->
  snd (age o t) = true.
Proof.
  induction t as [| [k' e'] r IH]; intros e Hl Hlt; simpl in *; try discriminate.
  destruct (age o r) as [r' req'] eqn:Ea. simpl in *.
  destruct (id_eqb k' o) eqn:E.
  - injection Hl as Hl. subst e'.
    assert (H2 : (life e <? refresh_threshold) = true) by (apply N.ltb_lt; auto).
    rewrite H2. destruct (life e <=? 1); reflexivity.
  - specialize (IH e Hl Hlt). subst req'. destruct (life e' <=? 1); simpl; reflexivity.
Qed.

Lemma tick_aging : forall s, wf s -> fresh s -> aging (tick s).
Proof.
  intros s Hwf (e & He & Hl).
  assert (Hid : local_id (tick s) = local_id s).
  { unfold local_id, tick. destruct (age (local_id s) (db s)). reflexivity. }
  unfold aging. rewrite Hid. rewrite tick_lookup; auto. rewrite He.
  assert (H1 : (life e <=? 1) = false) by (apply N.leb_gt; lia). rewrite H1.
  eexists. split; [reflexivity |]. simpl.
  destruct (N.lt_ge_cases (life e) 300) as [Hlt | Hge].
  - right. split; [| lia].
    unfold tick. pose proof (age_req (local_id s) (db s) e He Hlt) as Hr.
    destruct (age (local_id s) (db s)) as [d req]. simpl in *. subst req. apply orb_true_r.
  - left. lia.
Qed.

Lemma service_fresh : forall s, aging s -> fresh (service s).
Proof.
  intros s (e & He & Hc). unfold service. destruct (pending s) eqn:Ep.
  - apply regen_fresh.
  - exists e. split; auto. destruct Hc as [Hc | [Hc _]]; [exact Hc | discriminate].
Qed.

Lemma fresh_aging : forall s, fresh s -> aging s.
Proof. intros s (e & He & Hl). exists e. split; auto. Qed.

(* every event other than an aging tick keeps the local LSP fresh *)
Lemma step_fresh : forall s ev, wf s -> fresh s -> ev <> Tick -> fresh (step s ev).
Proof.
  intros s ev Hwf Hf Hnt.
  destruct ev as [i k sq lt | i lo hi l | i l | | | | | |]; try contradiction.
  - destruct Hf as (e & He & Hl). unfold fresh. rewrite (step_local_id s (RecvLSP i k sq lt)).
    simpl. destruct (recv_lsp_highest s i k sq lt) as (Hother & Hnew & Hold).
    destruct (id_eqb k (local_id s)) eqn:E.
    + apply id_eqb_eq in E. subst k.
      destruct (local_newer s (local_id s) sq) eqn:Eln.
      * destruct (Hnew eq_refl) as (Hdb & _). rewrite Hdb. exists e. auto.
      * destruct (Hold eq_refl) as (_ & _ & e' & He' & Hm). rewrite He in Hm.
        exists e'. split; auto. destruct Hm as [_ Hm].
        unfold local_newer in Eln. rewrite id_eqb_refl, He in Eln. simpl in Eln.
        rewrite Eln in Hm. lia.
    + apply id_eqb_neq in E. rewrite Hother; auto. exists e. auto.
  - destruct Hf as (e & He & Hl). unfold fresh. rewrite (step_local_id s (RecvCSNP i lo hi l)).
    destruct (kept_until_aged_out s (RecvCSNP i lo hi l) _ e Hwf He) as (e' & He' & _ & Hl').
    exists e'. split; auto. lia.
  - destruct Hf as (e & He & Hl). unfold fresh. rewrite (step_local_id s (RecvPSNP i l)).
    destruct (kept_until_aged_out s (RecvPSNP i l) _ e Hwf He) as (e' & He' & _ & Hl').
    exists e'. split; auto. lia.
  - apply service_fresh. apply fresh_aging. exact Hf.
  - apply regen_fresh.
  - exact Hf.
  - destruct Hf as (e & He & Hl). unfold fresh. rewrite (step_local_id s SendPSNPs).
    destruct (kept_until_aged_out s SendPSNPs _ e Hwf He) as (e' & He' & _ & Hl').
    exists e'. split; auto. lia.
  - exact Hf.
Qed.

Lemma serviced_cons : forall ev r, ev <> Tick -> serviced (ev :: r) = serviced r.
Proof. intros ev r H. destruct ev; try reflexivity. contradiction. Qed.

Lemma serviced_fresh : forall n evs s, (length evs <= n)%nat -> wf s -> fresh s ->
  serviced evs = true -> fresh (run s evs).
Proof.
  induction n as [| n IH]; intros evs s Hlen Hwf Hf Hs.
  - destruct evs; [exact Hf | simpl in Hlen; lia].
  - destruct evs as [| ev r]; [exact Hf |].
    assert (Hcases : ev = Tick \/ ev <> Tick) by (destruct ev; auto; right; discriminate).
    destruct Hcases as [Ht | Hnt].
    + subst ev. destruct r as [| ev2 r2]; [simpl in Hs; discriminate |].
      destruct ev2; simpl in Hs; try discriminate.
      change (run s (Tick :: Service :: r2)) with (run (service (tick s)) r2).
      apply IH; auto.
      * simpl in Hlen. lia.
      * apply (step_wf (tick s) Service). apply (step_wf s Tick). auto.
      * apply service_fresh. apply tick_aging; auto.
    + rewrite serviced_cons in Hs; auto.
      change (run s (ev :: r)) with (run (step s ev) r).
      apply IH; auto.
      * simpl in Hlen. lia.
      * apply step_wf. auto.
      * apply step_fresh; auto.
Qed.

Theorem refresh_before_expiry : forall ifaces o evs,
  serviced evs = true ->
  exists e, lookup (mkId o 0 0) (db (run (init ifaces o) evs)) = Some e /\ 299 <= life e.
Proof.
  intros ifaces o evs Hs.
  assert (Hf : fresh (run (init ifaces o) evs)).
  { apply (serviced_fresh (length evs)); auto.
    - apply init_wf.
    - unfold init. apply regen_fresh. }
  destruct Hf as (e & He & Hl). exists e. split; auto.
  assert (Ho : forall evs s, own (run s evs) = own s).
  { induction evs0 as [| ev r IH]; intros s; simpl; auto. rewrite IH. apply step_own. }
  unfold local_id in He. rewrite Ho in He. exact He.
Qed.

(* ------------------------------------------------------------------ C32: the own LSP's number exceeds every received copy *)

(* m: highest sequence number of a copy of the own LSP received so far *)
Definition dominated (s : srv) (m : N) : Prop :=
  m <= counter s /\ (forall e, lookup (local_id s) (db s) = Some e -> seq e <= counter s).

Lemma next_seq_nowrap : forall c, c < last_seq -> next_seq c = c + 1.
Proof.
  intros c H. unfold next_seq, last_seq, two32 in *.
  rewrite N.mod_small by lia.
  destruct (c + 1 =? 0) eqn:E; auto. apply N.eqb_eq in E. lia.
Qed.

Lemma regen_dominated : forall s m, counter s < last_seq -> dominated s m -> dominated (regen s) m.
Proof.
  intros s m Hc [H1 H2].
  destruct (regen_lookup_local s) as (e & He & Hs & _).
  assert (Hcnt : counter (regen s) = counter s + 1).
  { unfold regen. simpl. apply next_seq_nowrap. auto. }
  split.
  - rewrite Hcnt. lia.
  - intros e0 He0. assert (Hid : local_id (regen s) = local_id s) by reflexivity.
    rewrite Hid, He in He0. injection He0 as He0. subst e0. rewrite Hs, Hcnt.
    rewrite next_seq_nowrap; auto. lia.
Qed.

Lemma step_dominated : forall s ev m, wf s -> counter s < last_seq -> dominated s m ->
  dominated (step s ev) (track_recv (local_id s) m ev).
Proof.
  intros s ev m Hwf Hc [H1 H2].
  destruct ev as [i k sq lt | i lo hi l | i l | | | | | |]; simpl.
  - destruct (recv_lsp_highest s i k sq lt) as (Hother & Hnew & Hold).
    destruct (id_eqb k (local_id s)) eqn:E.
    + apply id_eqb_eq in E. subst k.
      destruct (local_newer s (local_id s) sq) eqn:Eln.
      * destruct (Hnew eq_refl) as (Hdb & Hcn & _). split.
        -- rewrite Hcn. lia.
        -- intros e He. assert (Hid : local_id (recv_lsp s i (local_id s) sq lt) = local_id s).
           { apply (step_local_id s (RecvLSP i (local_id s) sq lt)). }
           rewrite Hid, Hdb in He. rewrite Hcn. specialize (H2 e He). lia.
      * destruct (Hold eq_refl) as (Hcn & _ & e' & He' & Hm).
        unfold local_newer in Eln. rewrite id_eqb_refl in Eln. simpl in Eln.
        destruct (lookup (local_id s) (db s)) as [e |] eqn:He; [| discriminate].
        apply N.ltb_ge in Eln. specialize (H2 e eq_refl). split.
        -- rewrite Hcn. lia.
        -- intros e0 He0. assert (Hid : local_id (recv_lsp s i (local_id s) sq lt) = local_id s).
           { apply (step_local_id s (RecvLSP i (local_id s) sq lt)). }
           rewrite Hid, He' in He0. injection He0 as He0. subst e0. rewrite Hcn.
           destruct Hm as [Hm _]. lia.
    + assert (Eln : local_newer s k sq = false) by (unfold local_newer; rewrite E; reflexivity).
      destruct (Hold Eln) as (Hcn & _ & _). split.
      * rewrite Hcn. exact H1.
      * intros e0 He0. assert (Hid : local_id (recv_lsp s i k sq lt) = local_id s).
        { apply (step_local_id s (RecvLSP i k sq lt)). }
        rewrite Hid in He0. rewrite Hother in He0.
        -- rewrite Hcn. auto.
        -- intros Heq. subst k. rewrite id_eqb_refl in E. discriminate.
  - destruct (snp_entries_fields l s i) as (_ & Ho & Hcn & _).
    split; [unfold recv_csnp; simpl; rewrite Hcn; exact H1 |].
    intros e0 He0. assert (Hid : local_id (recv_csnp s i lo hi l) = local_id s).
    { apply (step_local_id s (RecvCSNP i lo hi l)). }
    rewrite Hid in He0.
    assert (Hcc : counter (recv_csnp s i lo hi l) = counter s) by (unfold recv_csnp; simpl; exact Hcn).
    rewrite Hcc.
    destruct (lookup (local_id s) (db s)) as [e |] eqn:He.
    + destruct (kept_until_aged_out s (RecvCSNP i lo hi l) _ e Hwf He) as (e' & He' & Hs & _).
      change (step s (RecvCSNP i lo hi l)) with (recv_csnp s i lo hi l) in He'.
      rewrite He' in He0. injection He0 as He0. subst e0. rewrite Hs. auto.
    + (* created by the CSNP itself: sequence number 0 *)
      unfold recv_csnp, with_db in He0. cbn [db] in He0.
      rewrite lookup_map in He0; [| intros kv; apply csnp_missing_key].
      destruct (lookup (local_id s) (db (snp_entries s i l))) as [e1 |] eqn:He1; [| discriminate].
      destruct (csnp_missing_copy (snp_entries s i l) i lo hi l (local_id s) e1) as [Hs _].
      apply (f_equal (option_map seq)) in He0. cbn [option_map] in He0. rewrite Hs in He0.
      injection He0 as He0. rewrite <- He0.
      assert (Hz : forall l s, lookup (local_id s) (db s) = None -> forall e1,
                   lookup (local_id s) (db (snp_entries s i l)) = Some e1 -> seq e1 = 0).
      { clear. induction l as [| x r IH]; intros s Hn e1 H1.
        - simpl in H1. rewrite Hn in H1. discriminate.
        - unfold snp_entries in *. simpl in H1.
          assert (Hid : local_id (snp_entry s i x) = local_id s).
          { unfold local_id. destruct (snp_entry_fields s i x) as (_ & Ho & _). rewrite Ho. reflexivity. }
          destruct (lookup (local_id s) (db (snp_entry s i x))) as [e2 |] eqn:E2.
          + assert (Hs2 : seq e2 = 0).
            { destruct x as [[k sq] lt]. unfold snp_entry in E2.
              destruct (id_eqb k (local_id s)) eqn:Ek.
              - apply id_eqb_eq in Ek. subst k. rewrite Hn in E2. simpl in E2.
                rewrite lookup_store_same in E2. injection E2 as E2. subst e2. reflexivity.
              - apply id_eqb_neq in Ek.
                destruct (lookup k (db s)) as [e3 |]; simpl in E2.
                + destruct (sq =? seq e3); [| destruct (sq <? seq e3)]; simpl in E2;
                    rewrite lookup_store_other in E2; auto; rewrite Hn in E2; discriminate.
                + rewrite lookup_store_other in E2; auto. rewrite Hn in E2. discriminate. }
            rewrite <- Hid in E2.
            destruct (snp_entries_lookup r (snp_entry s i x) i _ e2 E2) as (e3 & H3 & Hs3 & _).
            unfold snp_entries in H3. rewrite Hid in H3. rewrite H3 in H1. injection H1 as H1. subst e3.
            congruence.
          + rewrite <- Hid in E2, H1. eapply IH; eauto. }
      rewrite (Hz l s He e1 He1). lia.
  - destruct (snp_entries_fields l s i) as (_ & Ho & Hcn & _).
    unfold recv_psnp. split; [rewrite Hcn; exact H1 |].
    intros e0 He0. assert (Hid : local_id (snp_entries s i l) = local_id s).
    { unfold local_id. rewrite Ho. reflexivity. }
    rewrite Hid in He0. rewrite Hcn.
    destruct (lookup (local_id s) (db s)) as [e |] eqn:He.
    + destruct (snp_entries_lookup l s i _ e He) as (e' & He' & Hs & _).
      rewrite He' in He0. injection He0 as He0. subst e0. rewrite Hs. auto.
    + assert (Hz : forall l s, lookup (local_id s) (db s) = None -> forall e1,
                   lookup (local_id s) (db (snp_entries s i l)) = Some e1 -> seq e1 = 0).
      { clear. induction l as [| x r IH]; intros s Hn e1 H1.
        - simpl in H1. rewrite Hn in H1. discriminate.
        - unfold snp_entries in *. simpl in H1.
          assert (Hid : local_id (snp_entry s i x) = local_id s).
          { unfold local_id. destruct (snp_entry_fields s i x) as (_ & Ho & _). rewrite Ho. reflexivity. }
          destruct (lookup (local_id s) (db (snp_entry s i x))) as [e2 |] eqn:E2.
          + assert (Hs2 : seq e2 = 0).
            { destruct x as [[k sq] lt]. unfold snp_entry in E2.
              destruct (id_eqb k (local_id s)) eqn:Ek.
              - apply id_eqb_eq in Ek. subst k. rewrite Hn in E2. simpl in E2.
                rewrite lookup_store_same in E2. injection E2 as E2. subst e2. reflexivity.
              - apply id_eqb_neq in Ek.
                destruct (lookup k (db s)) as [e3 |]; simpl in E2.
                + destruct (sq =? seq e3); [| destruct (sq <? seq e3)]; simpl in E2;
                    rewrite lookup_store_other in E2; auto; rewrite Hn in E2; discriminate.
                + rewrite lookup_store_other in E2; auto. rewrite Hn in E2. discriminate. }
            rewrite <- Hid in E2.
            destruct (snp_entries_lookup r (snp_entry s i x) i _ e2 E2) as (e3 & H3 & Hs3 & _).
            unfold snp_entries in H3. rewrite Hid in H3. rewrite H3 in H1. injection H1 as H1. subst e3.
            congruence.
          + rewrite <- Hid in E2, H1. eapply IH; eauto. }
      rewrite (Hz l s He e0 He0). lia.
  - assert (Hcn : counter (tick s) = counter s) by (unfold tick; destruct (age (local_id s) (db s)); reflexivity).
    split; [rewrite Hcn; exact H1 |].
    intros e0 He0. assert (Hid : local_id (tick s) = local_id s) by apply (step_local_id s Tick).
    rewrite Hid in He0. rewrite Hcn.
    rewrite tick_lookup in He0; auto.
    destruct (lookup (local_id s) (db s)) as [e |] eqn:He; [| discriminate].
    destruct (life e <=? 1); [discriminate |]. injection He0 as He0. subst e0. simpl. auto.
  - unfold service. destruct (pending s); [| split; auto].
    apply (regen_dominated (mkS (ifs s) (own s) (db s) (counter s) false) m); auto. split; auto.
  - apply regen_dominated; auto. split; auto.
  - split; auto.
  - split; [exact H1 |]. intros e0 He0.
    assert (Hid : local_id (clear_all_ssn s) = local_id s) by reflexivity.
    rewrite Hid in He0. unfold clear_all_ssn, with_db in He0. cbn [db] in He0.
    rewrite lookup_map in He0; auto.
    destruct (lookup (local_id s) (db s)) as [e |] eqn:He; [| discriminate].
    injection He0 as He0. subst e0. simpl. auto.
  - split; auto.
Qed.

Lemma run_dominated : forall evs s m, wf s -> nowrap_from s evs -> dominated s m ->
  dominated (run s evs) (max_recv (local_id s) evs m) /\ counter (run s evs) < last_seq.
Proof.
  induction evs as [| ev r IH]; intros s m Hwf Hnw Hd.
  - simpl in *. destruct Hnw as [Hc _]. auto.
  - simpl in Hnw. destruct Hnw as [Hc Hr].
    pose proof (step_dominated s ev m Hwf Hc Hd) as Hd1.
    destruct (IH (step s ev) _ (step_wf s ev Hwf) Hr Hd1) as [H1 H2].
    rewrite step_local_id in H1. unfold max_recv in *. simpl. auto.
Qed.

(* every origination - a forced regeneration or the updater serving a request - installs the own
   LSP with a sequence number above every copy of it received before (as long as the 32 bit number
   space is not exhausted) *)
Theorem own_seq_dominates : forall ifaces o evs,
  nowrap_from (init ifaces o) evs ->
  let s := run (init ifaces o) evs in
  let m := max_recv (mkId o 0 0) evs 0 in
  m <= counter s /\
  (exists e, lookup (mkId o 0 0) (db (step s Regen)) = Some e /\ seq e = counter s + 1 /\ m < seq e) /\
  (pending s = true ->
   exists e, lookup (mkId o 0 0) (db (step s Service)) = Some e /\ seq e = counter s + 1 /\ m < seq e).
Proof.
  intros ifaces o evs Hnw s m.
  assert (Hid0 : local_id (init ifaces o) = mkId o 0 0) by reflexivity.
  assert (Hd0 : dominated (init ifaces o) 0).
  { split; [lia |]. intros e He. unfold init in *.
    set (s0 := regen (mkS ifaces o [] 0 false)) in *.
    destruct (regen_lookup_local s0) as (e1 & He1 & Hs1 & _).
    assert (Hid : local_id (regen s0) = local_id s0) by reflexivity.
    rewrite Hid, He1 in He. injection He as He. subst e. rewrite Hs1.
    unfold regen. simpl. lia. }
  destruct (run_dominated evs (init ifaces o) 0 (init_wf ifaces o) Hnw Hd0) as [[H1 H2] Hc].
  rewrite Hid0 in H1. fold s in H1, H2, Hc. fold m in H1.
  assert (Hids : local_id s = mkId o 0 0).
  { assert (Ho : forall evs s, own (run s evs) = own s).
    { induction evs0 as [| ev r IH]; intros s0; simpl; auto. rewrite IH. apply step_own. }
    unfold local_id, s. rewrite Ho. reflexivity. }
  split; [exact H1 |]. split.
  - destruct (regen_lookup_local s) as (e & He & Hs & _). rewrite Hids in He.
    exists e. split; [exact He |]. rewrite Hs, next_seq_nowrap; auto. split; lia.
  - intros Hp. simpl. unfold service. rewrite Hp.
    destruct (regen_lookup_local (mkS (ifs s) (own s) (db s) (counter s) false)) as (e & He & Hs & _).
    assert (Hl : local_id (mkS (ifs s) (own s) (db s) (counter s) false) = mkId o 0 0) by exact Hids.
    rewrite Hl in He. exists e. split; [exact He |]. simpl in Hs.
    rewrite Hs, next_seq_nowrap; auto. split; lia.
Qed.

(* ------------------------------------------------------------------ the id order is a total order on FULL ids *)

Lemma id_leb_antisym : forall a b, id_leb a b = true -> id_leb b a = true -> a = b.
Proof.
  intros [sa pa na] [sb pb nb]. unfold id_leb. simpl. intros H1 H2.
  destruct (sa <? sb) eqn:E1; destruct (sb <? sa) eqn:E2;
    try (apply N.ltb_lt in E1); try (apply N.ltb_lt in E2);
    try (apply N.ltb_ge in E1); try (apply N.ltb_ge in E2); try lia.
  - simpl in H2. apply andb_true_iff in H2. destruct H2 as [H2 _]. apply N.eqb_eq in H2. lia.
  - simpl in H1. apply andb_true_iff in H1. destruct H1 as [H1 _]. apply N.eqb_eq in H1. lia.
  - simpl in *. apply andb_true_iff in H1. destruct H1 as [Hs H1]. apply N.eqb_eq in Hs. subst sb.
    apply andb_true_iff in H2. destruct H2 as [_ H2].
    destruct (pa <? pb) eqn:E3; destruct (pb <? pa) eqn:E4;
      try (apply N.ltb_lt in E3); try (apply N.ltb_lt in E4);
      try (apply N.ltb_ge in E3); try (apply N.ltb_ge in E4); try lia.
    + simpl in H2. apply andb_true_iff in H2. destruct H2 as [H2 _]. apply N.eqb_eq in H2. lia.
    + simpl in H1. apply andb_true_iff in H1. destruct H1 as [H1 _]. apply N.eqb_eq in H1. lia.
    + simpl in *. apply andb_true_iff in H1. destruct H1 as [Hp H1]. apply N.eqb_eq in Hp. subst pb.
      apply andb_true_iff in H2. destruct H2 as [_ H2].
      apply N.leb_le in H1. apply N.leb_le in H2. assert (na = nb) by lia. subst. reflexivity.
Qed.

Lemma id_leb_total : forall a b, id_leb a b = true \/ id_leb b a = true.
Proof.
  intros [sa pa na] [sb pb nb]. unfold id_leb. simpl.
  destruct (sa <? sb) eqn:E1; [left; reflexivity |].
  destruct (sb <? sa) eqn:E2; [right; reflexivity |].
  apply N.ltb_ge in E1. apply N.ltb_ge in E2. assert (sa = sb) by lia. subst sb.
  rewrite N.eqb_refl. simpl.
  destruct (pa <? pb) eqn:E3; [left; reflexivity |].
  destruct (pb <? pa) eqn:E4; [right; reflexivity |].
  apply N.ltb_ge in E3. apply N.ltb_ge in E4. assert (pa = pb) by lia. subst pb.
  rewrite N.eqb_refl. simpl.
  destruct (na <=? nb) eqn:E5; [left; reflexivity |].
  right. apply N.leb_gt in E5. apply N.leb_le. lia.
Qed.
