(* C10: invariant proof over the labelled transition system of the update sender. *)
From Coq Require Import List NArith ZArith Bool Lia.
Import ListNotations.
From BioVerif Require Import Model.UpdateSender Spec.UpdateSenderSpec Proofs.UpdateSenderPackProofs.
Open Scope Z_scope.

(* ------------------------------------------------------------------ pending announcements *)

Definition item := (pfx * N * N)%type.

Definition items_of (c : cfg) (p : path) (l : list pfx) : list item :=
  map (fun x => (x, wpid c p, p_tag p)) l.

Definition ent_items (c : cfg) (e : entry) : list item := items_of c (e_path e) (e_pfxs e).
Definition batch_items (c : cfg) (b : batch) : list item := items_of c (b_path b) (concat (b_msgs b)).

Definition q_items (c : cfg) (q : list entry) : list item := flat_map (ent_items c) q.
Definition f_items (c : cfg) (f : option batch) : list item :=
  match f with Some b => batch_items c b | None => [] end.
Definition e_items (c : cfg) (e : option (list batch)) : list item :=
  match e with Some bs => flat_map (batch_items c) bs | None => [] end.

Definition pending (c : cfg) (s : st) : list item :=
  q_items c (queue s) ++ f_items c (inflight s) ++ e_items c (eor s).

Lemma in_items_of : forall c p l y q t,
  In (y, q, t) (items_of c p l) <-> In y l /\ q = wpid c p /\ t = p_tag p.
Proof.
  intros c p l y q t. unfold items_of. rewrite in_map_iff. split.
  - intros [x [E Hx]]. inversion E. subst. auto.
  - intros [Hy [-> ->]]. exists y. auto.
Qed.

Lemma in_pending : forall c s i,
  In i (pending c s) <->
  In i (q_items c (queue s)) \/ In i (f_items c (inflight s)) \/ In i (e_items c (eor s)).
Proof. intros. unfold pending. rewrite !in_app_iff. tauto. Qed.

(* ------------------------------------------------------------------ queue operations *)

Lemma key_eqb_eq : forall a b, key_eqb a b = true <-> a = b.
Proof.
  intros [a1 a2] [b1 b2]. unfold key_eqb. cbn [fst snd].
  rewrite andb_true_iff, !N.eqb_eq. split.
  - intros [-> ->]. reflexivity.
  - intros H. inversion H. auto.
Qed.

Lemma q_add_items : forall c x p q,
  (forall e, In e q -> pkey (e_path e) = pkey p -> e_path e = p) ->
  forall i, In i (q_items c (q_add x p q)) <-> In i (q_items c q) \/ i = (x, wpid c p, p_tag p).
Proof.
  intros c x p q. induction q as [|e r IH]; intros Hf i; cbn [q_add].
  - cbn. intuition congruence.
  - destruct (key_eqb (pkey (e_path e)) (pkey p)) eqn:E.
    + apply key_eqb_eq in E. pose proof (Hf e (or_introl eq_refl) E) as Hp.
      unfold q_items. cbn [flat_map]. rewrite !in_app_iff.
      unfold ent_items at 1 3. cbn [e_path e_pfxs]. unfold items_of. rewrite map_app, in_app_iff.
      cbn [map In]. rewrite Hp. intuition congruence.
    + unfold q_items in *. cbn [flat_map]. rewrite !in_app_iff.
      rewrite IH by (intros e' He'; apply Hf; right; exact He'). tauto.
Qed.

Lemma q_add_fit : forall c x p q,
  (forall e, In e q -> pkey (e_path e) = pkey p -> e_path e = p) ->
  fits c p x ->
  (forall e, In e q -> all_fit_list c (e_path e) (e_pfxs e)) ->
  forall e, In e (q_add x p q) -> all_fit_list c (e_path e) (e_pfxs e).
Proof.
  intros c x p q. induction q as [|e r IH]; intros Hf Hx Hq e' He'; cbn [q_add] in He'.
  - destruct He' as [<-|[]]. cbn [e_path e_pfxs]. intros y [<-|[]]. exact Hx.
  - destruct (key_eqb (pkey (e_path e)) (pkey p)) eqn:E.
    + apply key_eqb_eq in E. pose proof (Hf e (or_introl eq_refl) E) as Hp.
      destruct He' as [<-|He'].
      * cbn [e_path e_pfxs]. intros y Hy. apply in_app_iff in Hy. destruct Hy as [Hy|[<-|[]]].
        -- apply (Hq e (or_introl eq_refl)). exact Hy.
        -- rewrite Hp. exact Hx.
      * apply Hq. right. exact He'.
    + destruct He' as [<-|He'].
      * apply Hq. left. reflexivity.
      * apply IH; try assumption.
        -- intros e2 H2. apply Hf. right. exact H2.
        -- intros e2 H2. apply Hq. right. exact H2.
Qed.

Lemma q_cancel_items : forall c x wp q y pid t,
  In (y, pid, t) (q_items c (q_cancel c x wp q)) <->
  In (y, pid, t) (q_items c q) /\ ~ (y = x /\ pid = wp).
Proof.
  intros c x wp q y pid t. induction q as [|e r IH]; cbn [q_cancel].
  - cbn. tauto.
  - unfold q_items in *. cbn [flat_map]. rewrite in_app_iff.
    assert (Hfil : forall z, In z (filter (fun y0 => negb (pfx_eqb y0 x)) (e_pfxs e)) <-> In z (e_pfxs e) /\ z <> x).
    { intros z. rewrite filter_In. rewrite negb_true_iff. split.
      - intros [H1 H2]. split; [exact H1|]. intros ->. rewrite pfx_eqb_refl in H2. discriminate.
      - intros [H1 H2]. split; [exact H1|]. destruct (pfx_eqb z x) eqn:E; [|reflexivity].
        apply pfx_eqb_eq in E. contradiction. }
    destruct (N.eqb (wpid c (e_path e)) wp) eqn:E.
    + apply N.eqb_eq in E.
      assert (Hent : In (y, pid, t) (items_of c (e_path e) (filter (fun y0 => negb (pfx_eqb y0 x)) (e_pfxs e))) <->
                     In (y, pid, t) (ent_items c e) /\ ~ (y = x /\ pid = wp)).
      { unfold ent_items. rewrite !in_items_of, Hfil. split.
        - intros [[H1 H2] [H3 H4]]. repeat split; try assumption. intros [H5 _]. contradiction.
        - intros [[H1 [H3 H4]] H5]. repeat split; try assumption. intros ->. apply H5. split; [reflexivity|congruence]. }
      destruct (filter (fun y0 => negb (pfx_eqb y0 x)) (e_pfxs e)) as [|z l] eqn:F.
      * rewrite IH. cbn [items_of map In] in Hent. tauto.
      * cbn [flat_map]. rewrite in_app_iff. unfold ent_items at 1. cbn [e_path e_pfxs].
        rewrite Hent, IH. tauto.
    + apply N.eqb_neq in E. cbn [flat_map]. rewrite in_app_iff, IH.
      assert (Hn : In (y, pid, t) (ent_items c e) -> ~ (y = x /\ pid = wp)).
      { unfold ent_items. rewrite in_items_of. intros [_ [H _]] [_ H']. congruence. }
      tauto.
Qed.

Lemma q_cancel_fit : forall c x wp q,
  (forall e, In e q -> all_fit_list c (e_path e) (e_pfxs e)) ->
  forall e, In e (q_cancel c x wp q) -> all_fit_list c (e_path e) (e_pfxs e).
Proof.
  intros c x wp q. induction q as [|e r IH]; intros Hq e' He'; cbn [q_cancel] in He'; [contradiction|].
  assert (Hr : forall e0, In e0 r -> all_fit_list c (e_path e0) (e_pfxs e0)) by (intros e0 H0; apply Hq; right; exact H0).
  destruct (N.eqb (wpid c (e_path e)) wp).
  - destruct (filter (fun y0 => negb (pfx_eqb y0 x)) (e_pfxs e)) as [|z l] eqn:F.
    + apply IH; assumption.
    + destruct He' as [<-|He']; [|apply IH; assumption].
      cbn [e_path e_pfxs]. intros y Hy. apply (Hq e (or_introl eq_refl)).
      rewrite <- F in Hy. apply filter_In in Hy. tauto.
  - destruct He' as [<-|He']; [apply Hq; left; reflexivity | apply IH; assumption].
Qed.

Lemma q_take_spec : forall c k q e q',
  q_take k q = Some (e, q') ->
  (forall i, In i (q_items c q) <-> In i (ent_items c e) \/ In i (q_items c q')) /\
  In e q /\ (forall e', In e' q' -> In e' q).
Proof.
  intros c k q. induction q as [|e0 r IH]; intros e q' H; cbn [q_take] in H; [discriminate|].
  destruct (key_eqb (pkey (e_path e0)) k).
  - inversion H. subst. repeat split.
    + unfold q_items. cbn [flat_map]. rewrite in_app_iff. tauto.
    + unfold q_items. cbn [flat_map]. rewrite in_app_iff. tauto.
    + left. reflexivity.
    + intros e' He'. right. exact He'.
  - destruct (q_take k r) as [[e1 r1]|] eqn:T; [|discriminate].
    inversion H. subst. destruct (IH e r1 eq_refl) as [H1 [H2 H3]]. repeat split.
    + unfold q_items in *. cbn [flat_map]. rewrite !in_app_iff, H1. tauto.
    + unfold q_items in *. cbn [flat_map]. rewrite !in_app_iff, H1. tauto.
    + right. exact H2.
    + intros e' [<-|He']; [left; reflexivity|right; apply H3; exact He'].
Qed.

Lemma in_order_spec : forall c o q,
  (forall i, In i (q_items c (in_order o q)) <-> In i (q_items c q)) /\
  (forall e, In e (in_order o q) -> In e q).
Proof.
  intros c o. induction o as [|k o IH]; intros q; cbn [in_order].
  - split; [tauto|auto].
  - destruct (q_take k q) as [[e q']|] eqn:T.
    + destruct (q_take_spec c k q e q' T) as [H1 [H2 H3]]. destruct (IH q') as [I1 I2]. split.
      * intros i. unfold q_items at 1. cbn [flat_map]. rewrite in_app_iff.
        fold (q_items c (in_order o q')). rewrite I1, H1. tauto.
      * intros e' [<-|He']; [exact H2 | apply H3, I2, He'].
    + apply IH.
Qed.

Lemma batch_of_items : forall c e, batch_items c (batch_of c e) = ent_items c e.
Proof. intros. unfold batch_items, batch_of, ent_items. cbn [b_path b_msgs]. rewrite pack_concat. reflexivity. Qed.

Lemma norm_items : forall c b, f_items c (norm b) = batch_items c b.
Proof.
  intros c b. unfold norm. destruct (b_msgs b) eqn:E; [|reflexivity].
  unfold batch_items. rewrite E. reflexivity.
Qed.

Lemma map_batch_of_items : forall c l i,
  In i (flat_map (batch_items c) (map (batch_of c) l)) <-> In i (q_items c l).
Proof.
  intros c l i. induction l as [|e r IH]; [cbn; tauto|].
  unfold q_items in *. cbn [map flat_map]. rewrite !in_app_iff, batch_of_items, IH. tauto.
Qed.

(* ------------------------------------------------------------------ the view *)

Lemma in_wire_order : forall c l x, In x (wire_order c l) <-> In x l.
Proof.
  intros c l x. unfold wire_order. destruct (c_fam c); try tauto. symmetry. apply in_rev.
Qed.

Lemma existsb_pfx : forall x l, existsb (pfx_eqb x) l = true <-> In x l.
Proof.
  intros x l. rewrite existsb_exists. split.
  - intros [y [Hy E]]. apply pfx_eqb_eq in E. subst. exact Hy.
  - intros H. exists x. split; [exact H|apply pfx_eqb_refl].
Qed.

Lemma view_emit : forall c p m w x pid,
  msg_ok c p m = true ->
  (wpid c p = pid /\ In x m -> view (emit c p m w) x pid = Some (p_tag p)) /\
  (~ (wpid c p = pid /\ In x m) -> view (emit c p m w) x pid = view w x pid).
Proof.
  intros c p m w x pid Hok. unfold emit. rewrite Hok. cbn [view].
  destruct (N.eqb (wpid c p) pid && existsb (pfx_eqb x) (wire_order c m)) eqn:E.
  - apply andb_true_iff in E. destruct E as [E1 E2]. apply N.eqb_eq in E1.
    apply existsb_pfx, in_wire_order in E2. split; [reflexivity|]. intros H. exfalso. apply H. auto.
  - split; [|reflexivity]. intros [H1 H2]. exfalso.
    apply (proj2 (N.eqb_eq _ _)) in H1. apply (in_wire_order c), existsb_pfx in H2.
    rewrite H1, H2 in E. discriminate.
Qed.

Lemma rib_upd_same : forall r x pid v, rib_upd r x pid v x pid = v.
Proof. intros. unfold rib_upd. rewrite pfx_eqb_refl, N.eqb_refl. reflexivity. Qed.

Lemma rib_upd_other : forall r x pid v y q, ~ (y = x /\ q = pid) -> rib_upd r x pid v y q = r y q.
Proof.
  intros r x pid v y q H. unfold rib_upd.
  destruct (pfx_eqb y x && N.eqb q pid) eqn:E; [|reflexivity].
  apply andb_true_iff in E. destruct E as [E1 E2]. apply pfx_eqb_eq in E1. apply N.eqb_eq in E2.
  exfalso. apply H. auto.
Qed.

Lemma key_dec : forall (y x : pfx) (q pid : N), (y = x /\ q = pid) \/ ~ (y = x /\ q = pid).
Proof.
  intros y x q pid. destruct (pfx_eqb y x) eqn:E1.
  - apply pfx_eqb_eq in E1. destruct (N.eqb q pid) eqn:E2.
    + apply N.eqb_eq in E2. left. auto.
    + apply N.eqb_neq in E2. right. intros [_ H]. contradiction.
  - right. intros [H _]. subst. rewrite pfx_eqb_refl in E1. discriminate.
Qed.

(* ------------------------------------------------------------------ the invariant *)

Record Inv (c : cfg) (s : st) (r : ribT) : Prop := mkInv {
  (* every pending announcement announces what the Adj-RIB-Out holds *)
  inv_pend : forall x pid tag, In (x, pid, tag) (pending c s) -> r x pid = Some tag;
  (* where nothing is pending the peer already has what the Adj-RIB-Out holds *)
  inv_view : forall x pid, (forall tag, ~ In (x, pid, tag) (pending c s)) -> view (wire s) x pid = r x pid;
  (* nothing queued or in flight will be refused by SerializeUpdate *)
  inv_fitq : forall e, In e (queue s) -> all_fit_list c (e_path e) (e_pfxs e);
  inv_fitf : forall b, inflight s = Some b -> forall l, In l (b_msgs b) -> msg_ok c (b_path b) l = true;
  inv_fite : forall bs b, eor s = Some bs -> In b bs -> forall l, In l (b_msgs b) -> msg_ok c (b_path b) l = true
}.

Lemma inv_init : forall c, Inv c init rib_empty.
Proof.
  intros c. constructor; cbn; try tauto; try discriminate.
Qed.

(* writing one pending message *)
Lemma emit_inv : forall c (P P' : list item) w (r : ribT) p m,
  (forall i, In i P' -> In i P) ->
  (forall i, In i P -> In i P' \/ exists y, In y m /\ i = (y, wpid c p, p_tag p)) ->
  (forall y, In y m -> In (y, wpid c p, p_tag p) P) ->
  msg_ok c p m = true ->
  (forall x pid tag, In (x, pid, tag) P -> r x pid = Some tag) ->
  (forall x pid, (forall tag, ~ In (x, pid, tag) P) -> view w x pid = r x pid) ->
  (forall x pid tag, In (x, pid, tag) P' -> r x pid = Some tag) /\
  (forall x pid, (forall tag, ~ In (x, pid, tag) P') -> view (emit c p m w) x pid = r x pid).
Proof.
  intros c P P' w r p m Hsub Hdiff Hm Hok Hp Hv. split.
  - intros x pid tag H. apply Hp, Hsub, H.
  - intros x pid Hno. destruct (view_emit c p m w x pid Hok) as [V1 V2].
    destruct (N.eqb (wpid c p) pid) eqn:E1.
    + apply N.eqb_eq in E1. destruct (existsb (pfx_eqb x) m) eqn:E2.
      * apply existsb_pfx in E2. rewrite V1 by auto. symmetry. apply Hp. rewrite <- E1. apply Hm, E2.
      * rewrite V2.
        -- apply Hv. intros tag Hin. destruct (Hdiff _ Hin) as [H|[y [Hy Ey]]]; [exact (Hno tag H)|].
           inversion Ey. subst. apply existsb_pfx in Hy. rewrite Hy in E2. discriminate.
        -- intros [_ H]. apply existsb_pfx in H. rewrite H in E2. discriminate.
    + apply N.eqb_neq in E1. rewrite V2 by tauto.
      apply Hv. intros tag Hin. destruct (Hdiff _ Hin) as [H|[y [Hy Ey]]]; [exact (Hno tag H)|].
      inversion Ey. subst. contradiction.
Qed.

Lemma unlocked_eor : forall s, unlocked s = true -> eor s = None.
Proof. intros s H. unfold unlocked in H. destruct (eor s); [discriminate|reflexivity]. Qed.

Lemma step_inv : forall c s r l s',
  Inv c s r ->
  step c s l = Some s' ->
  client_protocol_at c s r l ->
  hash_faithful_at c s r l ->
  all_fit_at c s r l ->
  no_withdraw_in_flight_at c s r l ->
  Inv c s' (rib_step c r l).
Proof.
  intros c s r l s' [Ip Iv Iq If Ie] Hstep Hcp Hhf Hfit Hnw.
  destruct l as [x p|x p|k| |o| ]; cbn [step] in Hstep; cbn [rib_step].
  - (* Add *)
    destruct (unlocked s) eqn:U; [|discriminate]. inversion Hstep. subst s'. clear Hstep.
    cbn [client_protocol_at] in Hcp. cbn [hash_faithful_at] in Hhf. cbn [all_fit_at] in Hfit.
    assert (HP : forall i, In i (pending c (mkst (q_add x p (queue s)) (inflight s) (eor s) (wire s))) <->
                           In i (pending c s) \/ i = (x, wpid c p, p_tag p)).
    { intros i. rewrite !in_pending. cbn [queue inflight eor]. rewrite (q_add_items c x p (queue s) Hhf). tauto. }
    constructor; cbn [queue inflight eor wire].
    + intros y q t Hin. apply HP in Hin. destruct Hin as [Hin|E].
      * destruct (key_dec y x q (wpid c p)) as [[-> ->]|Hne].
        -- rewrite rib_upd_same. pose proof (Ip _ _ _ Hin) as H. destruct Hcp as [Hc|Hc]; congruence.
        -- rewrite rib_upd_other by exact Hne. apply Ip, Hin.
      * inversion E. subst. apply rib_upd_same.
    + intros y q Hno.
      assert (Hne : ~ (y = x /\ q = wpid c p)).
      { intros [-> ->]. apply (Hno (p_tag p)). apply HP. right. reflexivity. }
      rewrite rib_upd_other by exact Hne. apply Iv. intros t Hin. apply (Hno t), HP. left. exact Hin.
    + apply q_add_fit; assumption.
    + exact If.
    + exact Ie.
  - (* Remove *)
    destruct (unlocked s) eqn:U; [|discriminate]. inversion Hstep. subst s'. clear Hstep.
    pose proof (unlocked_eor s U) as He. cbn [no_withdraw_in_flight_at] in Hnw.
    assert (HP : forall y q t, In (y, q, t) (pending c (mkst (q_cancel c x (wpid c p) (queue s)) (inflight s) (eor s)
                                                              (MWd x (wpid c p) :: wire s))) <->
                               In (y, q, t) (pending c s) /\ ~ (y = x /\ q = wpid c p)).
    { intros y q t. rewrite !in_pending. cbn [queue inflight eor]. rewrite q_cancel_items, He. cbn [e_items In].
      assert (Hf : In (y, q, t) (f_items c (inflight s)) -> ~ (y = x /\ q = wpid c p)).
      { intros Hin [-> ->]. apply Hnw. unfold in_flight. unfold f_items in Hin.
        destruct (inflight s) as [b|]; [|contradiction]. unfold batch_items in Hin.
        apply in_items_of in Hin. destruct Hin as [H1 [H2 _]]. auto. }
      tauto. }
    constructor; cbn [queue inflight eor wire].
    + intros y q t Hin. apply HP in Hin. destruct Hin as [Hin Hne].
      rewrite rib_upd_other by exact Hne. apply Ip, Hin.
    + intros y q Hno. destruct (key_dec y x q (wpid c p)) as [[-> ->]|Hne].
      * rewrite rib_upd_same. cbn [view]. rewrite N.eqb_refl, pfx_eqb_refl. reflexivity.
      * rewrite rib_upd_other by exact Hne. cbn [view].
        destruct (N.eqb (wpid c p) q && pfx_eqb x y) eqn:E.
        -- apply andb_true_iff in E. destruct E as [E1 E2]. apply N.eqb_eq in E1. apply pfx_eqb_eq in E2.
           exfalso. apply Hne. auto.
        -- apply Iv. intros t Hin. apply (Hno t), HP. auto.
    + apply q_cancel_fit. exact Iq.
    + exact If.
    + exact Ie.
  - (* Dequeue *)
    destruct (unlocked s) eqn:U; [|discriminate].
    destruct (inflight s) as [b0|] eqn:F; [discriminate|].
    destruct (q_take k (queue s)) as [[e q']|] eqn:T; [|discriminate].
    inversion Hstep. subst s'. clear Hstep.
    destruct (q_take_spec c k (queue s) e q' T) as [H1 [H2 H3]].
    assert (HP : forall i, In i (pending c (mkst q' (norm (batch_of c e)) (eor s) (wire s))) <-> In i (pending c s)).
    { intros i. rewrite !in_pending. cbn [queue inflight eor]. rewrite norm_items, batch_of_items, F, H1.
      cbn [f_items In]. tauto. }
    constructor; cbn [queue inflight eor wire].
    + intros y q t Hin. apply Ip, HP, Hin.
    + intros y q Hno. apply Iv. intros t Hin. apply (Hno t), HP, Hin.
    + intros e' He'. apply Iq, H3, He'.
    + intros b Hb l Hl. unfold norm in Hb. destruct (b_msgs (batch_of c e)) eqn:Eb; [discriminate|].
      inversion Hb. subst b. cbn [batch_of b_path b_msgs] in *.
      apply (pack_msg_ok c (e_path e) (e_pfxs e)); [apply Iq, H2 | exact Hl].
    + exact Ie.
  - (* EmitOne *)
    destruct (inflight s) as [b|] eqn:F; [|discriminate].
    destruct (b_msgs b) as [|m ms] eqn:Eb.
    + inversion Hstep. subst s'. clear Hstep.
      assert (HP : forall i, In i (pending c (mkst (queue s) None (eor s) (wire s))) <-> In i (pending c s)).
      { intros i. rewrite !in_pending. cbn [queue inflight eor]. rewrite F. cbn [f_items].
        unfold batch_items. rewrite Eb. cbn. tauto. }
      constructor; cbn [queue inflight eor wire].
      * intros y q t Hin. apply Ip, HP, Hin.
      * intros y q Hno. apply Iv. intros t Hin. apply (Hno t), HP, Hin.
      * exact Iq.
      * intros b' Hb'. discriminate.
      * exact Ie.
    + inversion Hstep. subst s'. clear Hstep.
      set (s1 := mkst (queue s) (norm (mkbatch (b_path b) ms)) (eor s) (emit c (b_path b) m (wire s))).
      assert (Hbi : forall i, In i (batch_items c b) <->
                              In i (items_of c (b_path b) m) \/ In i (batch_items c (mkbatch (b_path b) ms))).
      { intros i. unfold batch_items. rewrite Eb. cbn [concat b_path b_msgs]. unfold items_of.
        rewrite map_app, in_app_iff. tauto. }
      assert (Hok : msg_ok c (b_path b) m = true) by (apply (If b eq_refl); rewrite Eb; left; reflexivity).
      destruct (emit_inv c (pending c s) (pending c s1) (wire s) r (b_path b) m) as [R1 R2]; try assumption.
      * intros i. unfold s1. rewrite !in_pending. cbn [queue inflight eor]. rewrite norm_items, F. cbn [f_items].
        rewrite (Hbi i). tauto.
      * intros i. unfold s1. rewrite !in_pending. cbn [queue inflight eor]. rewrite norm_items, F. cbn [f_items].
        rewrite (Hbi i). intros [H|[[H|H]|H]]; try tauto.
        right. destruct i as [[y q] t]. apply in_items_of in H. destruct H as [Hy [-> ->]]. exists y. auto.
      * intros y Hy. rewrite in_pending, F. cbn [f_items]. right. left. apply Hbi. left.
        apply in_items_of. auto.
      * constructor; cbn [queue inflight eor wire]; try assumption.
        intros b' Hb' l Hl. unfold norm in Hb'. cbn [b_msgs] in Hb'. destruct ms as [|m2 ms2]; [discriminate|].
        inversion Hb'. subst b'. cbn [b_path b_msgs] in *. apply (If b eq_refl). rewrite Eb. right. exact Hl.
  - (* EoRBegin *)
    destruct (unlocked s) eqn:U; [|discriminate]. inversion Hstep. subst s'. clear Hstep.
    pose proof (unlocked_eor s U) as He.
    destruct (in_order_spec c o (queue s)) as [O1 O2].
    assert (HP : forall i, In i (pending c (mkst [] (inflight s) (Some (map (batch_of c) (in_order o (queue s)))) (wire s))) <->
                           In i (pending c s)).
    { intros i. rewrite !in_pending. cbn [queue inflight eor e_items q_items flat_map In].
      rewrite map_batch_of_items, O1, He. cbn [e_items In]. tauto. }
    constructor; cbn [queue inflight eor wire].
    + intros y q t Hin. apply Ip, HP, Hin.
    + intros y q Hno. apply Iv. intros t Hin. apply (Hno t), HP, Hin.
    + intros e [].
    + exact If.
    + intros bs b Hbs Hb l Hl. inversion Hbs. subst bs. apply in_map_iff in Hb. destruct Hb as [e [<- He']].
      cbn [batch_of b_path b_msgs] in *. apply (pack_msg_ok c (e_path e) (e_pfxs e)); [apply Iq, O2, He' | exact Hl].
  - (* EoRStep *)
    destruct (eor s) as [[|b bs]|] eqn:E; [| |discriminate].
    + inversion Hstep. subst s'. clear Hstep.
      assert (HP : forall i, In i (pending c (mkst (queue s) (inflight s) None (MEoR :: wire s))) <-> In i (pending c s)).
      { intros i. rewrite !in_pending. cbn [queue inflight eor]. rewrite E. cbn. tauto. }
      constructor; cbn [queue inflight eor wire].
      * intros y q t Hin. apply Ip, HP, Hin.
      * intros y q Hno. cbn [view]. apply Iv. intros t Hin. apply (Hno t), HP, Hin.
      * exact Iq.
      * exact If.
      * intros bs0 b0 H0. discriminate.
    + destruct (b_msgs b) as [|m ms] eqn:Eb.
      * inversion Hstep. subst s'. clear Hstep.
        assert (HP : forall i, In i (pending c (mkst (queue s) (inflight s) (Some bs) (wire s))) <-> In i (pending c s)).
        { intros i. rewrite !in_pending. cbn [queue inflight eor]. rewrite E. cbn [e_items flat_map].
          rewrite in_app_iff. unfold batch_items at 2. rewrite Eb. cbn. tauto. }
        constructor; cbn [queue inflight eor wire].
        -- intros y q t Hin. apply Ip, HP, Hin.
        -- intros y q Hno. apply Iv. intros t Hin. apply (Hno t), HP, Hin.
        -- exact Iq.
        -- exact If.
        -- intros bs0 b0 H0 Hb0. inversion H0. subst bs0. apply (Ie (b :: bs) b0 eq_refl). right. exact Hb0.
      * inversion Hstep. subst s'. clear Hstep.
        set (rest := match ms with [] => bs | _ :: _ => mkbatch (b_path b) ms :: bs end).
        set (s1 := mkst (queue s) (inflight s) (Some rest) (emit c (b_path b) m (wire s))).
        assert (Hrest : forall i, In i (flat_map (batch_items c) rest) <->
                                  In i (batch_items c (mkbatch (b_path b) ms)) \/ In i (flat_map (batch_items c) bs)).
        { intros i. unfold rest. destruct ms as [|m2 ms2].
          - unfold batch_items at 1. cbn. tauto.
          - cbn [flat_map]. rewrite in_app_iff. tauto. }
        assert (Hbi : forall i, In i (batch_items c b) <->
                                In i (items_of c (b_path b) m) \/ In i (batch_items c (mkbatch (b_path b) ms))).
        { intros i. unfold batch_items. rewrite Eb. cbn [concat b_path b_msgs]. unfold items_of.
          rewrite map_app, in_app_iff. tauto. }
        assert (Hok : msg_ok c (b_path b) m = true).
        { apply (Ie (b :: bs) b eq_refl (or_introl eq_refl)). rewrite Eb. left. reflexivity. }
        destruct (emit_inv c (pending c s) (pending c s1) (wire s) r (b_path b) m) as [R1 R2]; try assumption.
        -- intros i. unfold s1. rewrite !in_pending. cbn [queue inflight eor]. rewrite E. cbn [e_items flat_map].
           rewrite in_app_iff, (Hrest i), (Hbi i). tauto.
        -- intros i. unfold s1. rewrite !in_pending. cbn [queue inflight eor]. rewrite E. cbn [e_items flat_map].
           rewrite in_app_iff, (Hrest i), (Hbi i). intros [H|[H|[[H|H]|H]]]; try tauto.
           right. destruct i as [[y q] t]. apply in_items_of in H. destruct H as [Hy [-> ->]]. exists y. auto.
        -- intros y Hy. rewrite in_pending, E. cbn [e_items flat_map]. right. right. rewrite in_app_iff. left.
           apply Hbi. left. apply in_items_of. auto.
        -- constructor; cbn [queue inflight eor wire]; try assumption.
           intros bs0 b0 H0 Hb0 l Hl. inversion H0. subst bs0. unfold rest in Hb0. destruct ms as [|m2 ms2].
           ++ apply (Ie (b :: bs) b0 eq_refl); [right; exact Hb0 | exact Hl].
           ++ destruct Hb0 as [<-|Hb0].
              ** cbn [b_path b_msgs] in *. apply (Ie (b :: bs) b eq_refl (or_introl eq_refl)). rewrite Eb. right. exact Hl.
              ** apply (Ie (b :: bs) b0 eq_refl); [right; exact Hb0 | exact Hl].
Qed.

Lemma run_inv : forall c ls s r s',
  Inv c s r ->
  run_from c s ls = Some s' ->
  each_step (client_protocol_at c) c s r ls ->
  each_step (hash_faithful_at c) c s r ls ->
  each_step (all_fit_at c) c s r ls ->
  each_step (no_withdraw_in_flight_at c) c s r ls ->
  Inv c s' (fold_left (rib_step c) ls r).
Proof.
  intros c ls. induction ls as [|l ls IH]; intros s r s' HI Hrun H1 H2 H3 H4; cbn [run_from fold_left] in *.
  - inversion Hrun. subst. exact HI.
  - cbn [each_step] in H1, H2, H3, H4.
    destruct H1 as [A1 B1]. destruct H2 as [A2 B2]. destruct H3 as [A3 B3]. destruct H4 as [A4 B4].
    destruct (step c s l) as [s1|] eqn:E; [|discriminate].
    apply (IH s1 (rib_step c r l) s'); try assumption.
    apply (step_inv c s r l s1); assumption.
Qed.

Lemma quiescent_pending : forall c s, quiescent s = true -> pending c s = [].
Proof.
  intros c s H. unfold quiescent in H. unfold pending.
  destruct (queue s); [|discriminate]. destruct (inflight s); [discriminate|]. destruct (eor s); [discriminate|].
  reflexivity.
Qed.

Theorem converges_partial : forall c ls s,
  run c ls = Some s ->
  client_protocol c ls ->
  hash_faithful c ls ->
  all_fit c ls ->
  no_withdraw_in_flight c ls ->
  quiescent s = true ->
  forall x pid, view (wire s) x pid = adj_rib_out c ls x pid.
Proof.
  intros c ls s Hrun H1 H2 H3 H4 Hq x pid.
  pose proof (run_inv c ls init rib_empty s (inv_init c) Hrun H1 H2 H3 H4) as [Ip Iv _ _ _].
  apply Iv. intros tag. rewrite (quiescent_pending c s Hq). intros [].
Qed.

(* ------------------------------------------------------------------ the refutation of the unguarded statement *)

Definition full_statement : Prop :=
  forall c ls s,
    run c ls = Some s ->
    client_protocol c ls -> hash_faithful c ls -> all_fit c ls ->
    quiescent s = true ->
    forall x pid, view (wire s) x pid = adj_rib_out c ls x pid.

Definition w_cfg : cfg := mkcfg V4 false true true false.
Definition w_pfx : pfx := mkpfx 167837696 16.
Definition w_path : path := mkpath 1 0 [1%N] true false false false false 0 0 0 [].
(* the route is withdrawn between Dequeue and EmitOne: the withdraw overtakes the announcement *)
Definition w_hist : list label := [Add w_pfx w_path; Dequeue (pkey w_path); Remove w_pfx w_path; EmitOne].

Lemma witness_overtakes :
  exists s, run w_cfg w_hist = Some s /\
    client_protocol w_cfg w_hist /\ hash_faithful w_cfg w_hist /\ all_fit w_cfg w_hist /\
    quiescent s = true /\
    view (wire s) w_pfx 0%N = Some 1%N /\ adj_rib_out w_cfg w_hist w_pfx 0%N = None.
Proof.
  eexists. split; [vm_compute; reflexivity|].
  split; [cbn; auto 10|].
  split; [cbn; intuition|].
  split.
  { cbn. repeat split. unfold fits. vm_compute. discriminate. }
  split; [reflexivity|]. split; reflexivity.
Qed.

Theorem converges_refuted : ~ full_statement.
Proof.
  intros H. destruct witness_overtakes as [s [H1 [H2 [H3 [H4 [H5 [H6 H7]]]]]]].
  specialize (H w_cfg w_hist s H1 H2 H3 H4 H5 w_pfx 0%N). rewrite H6, H7 in H. discriminate.
Qed.
