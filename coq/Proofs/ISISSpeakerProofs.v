(* Proofs about the wire-level speaker: they combine the theorems of the components
   (C30 codec totality and round trips, C31 neighbor steps, C32 database steps). *)
From Coq Require Import List Bool NArith ZArith Arith Lia Permutation.
Import ListNotations.
From BioVerif Require Import Model.ISISSpeaker.
From BioVerif Require Model.ISISCodec Model.Adj Model.LSDB.
Module C := ISISCodec.
Module A := Adj.
Module L := LSDB.
From BioVerif Require Spec.ISISCodecSpec Proofs.ISISCodecProofs Proofs.AdjProofs Proofs.LSDBProofs.
Module CS := ISISCodecSpec.
Module CP := ISISCodecProofs.
Open Scope N_scope.

(* ------------------------------------------------------------------ garbage changes nothing *)

Theorem garbage_changes_nothing : forall s i src b,
  (forall p, C.decode b <> C.Ok p) -> step s (RecvPDU i src b) = (s, []).
Proof.
  intros s i src b H. unfold step, recv_pdu.
  destruct (nth_error (sp_ifs s) i) as [f |]; [| reflexivity].
  destruct (if_up f); [| reflexivity].
  destruct (C.decode b) as [p | | |] eqn:E; try reflexivity.
  exfalso. eapply H. reflexivity.
Qed.

(* by C30 a byte string that does not decode is an error of the decoder: never a panic, never a
   loop running out of fuel *)
Theorem undecodable_is_err : forall b, (forall p, C.decode b <> C.Ok p) -> C.decode b = C.Err.
Proof.
  intros b H. destruct (C.decode b) as [p | | |] eqn:E.
  - exfalso. eapply H. reflexivity.
  - reflexivity.
  - exfalso. exact (CP.no_panic b E).
  - exfalso. destruct (CP.fuel_suffices b (S (length b)) (Nat.lt_succ_diag_r _)) as [_ Hn]. exact (Hn E).
Qed.

(* a PDU of a type packet.Decode has no case for decodes to a bare header and is dropped as well *)
Theorem other_pdu_types_change_nothing : forall s i src b h,
  C.decode b = C.Ok (C.mkPacket h C.BNone) -> L.pending (sp_db s) = false ->
  step s (RecvPDU i src b) = (s, []).
Proof.
  intros s i src b h Hd Hp. unfold step, recv_pdu.
  destruct (nth_error (sp_ifs s) i) as [f |]; [| reflexivity].
  destruct (if_up f); [| reflexivity].
  rewrite Hd. cbn [C.p_body recv_body]. unfold service, sync_db. cbn [L.pending]. rewrite Hp. reflexivity.
Qed.

(* ------------------------------------------------------------------ well-formedness by construction *)

Lemma be_bytes_length : forall k v, length (be_bytes k v) = k.
Proof.
  induction k as [| k IH]; intros v; simpl; auto. rewrite app_length, IH. simpl. lia.
Qed.

Lemma id_bytes_length : forall k, length (id_bytes k) = 8%nat.
Proof. intros k. unfold id_bytes. rewrite app_length, be_bytes_length. reflexivity. Qed.

Lemma u16_lt : forall x, u16 x < 65536.
Proof. intros x. unfold u16. apply N.mod_lt. discriminate. Qed.
Lemma u32_lt : forall x, u32 x < 4294967296.
Proof. intros x. unfold u32. apply N.mod_lt. discriminate. Qed.

Lemma entry_of_wf : forall s kv, CS.wf_entry (entry_of s kv).
Proof.
  intros s kv. unfold CS.wf_entry, entry_of, CS.u16, CS.u32, CS.len_is.
  cbn [C.le_life C.le_id C.le_seq C.le_csum].
  split; [apply u16_lt |]. split; [apply id_bytes_length |]. split; [apply u32_lt |].
  destruct (pdu_lookup (fst kv) (sp_pdus s)); [apply u16_lt | reflexivity].
Qed.

Lemma entries_wf : forall s l, Forall CS.wf_entry (map (entry_of s) l).
Proof. intros s l. apply Forall_forall. intros e He. apply in_map_iff in He. destruct He as (kv & <- & _). apply entry_of_wf. Qed.

Definition cfg_ok (s : spk) : Prop := length (sp_sys s) = 6%nat.

Lemma src_id_len : forall s, cfg_ok s -> CS.len_is (src_id s) 7.
Proof. intros s H. unfold CS.len_is, src_id. rewrite app_length, H. reflexivity. Qed.

(* ------------------------------------------------------------------ every PSNP / CSNP we emit decodes back *)

Theorem psnp_roundtrips : forall s i, cfg_ok s ->
  exists ps, psnps_for s i = C.Ok ps /\
    Forall (fun p => C.decode (psnp_bytes p) = C.Ok (C.mkPacket hdr_psnp (C.BPsnp p))) ps /\
    concat (map CS.psnp_entries ps) =
      map (entry_of s) (filter (fun kv => L.mem i (L.ssn (snd kv))) (L.db (sp_db s))).
Proof.
  intros s i Hc. unfold psnps_for, psnp_bytes.
  destruct (CP.new_psnps_roundtrip (src_id s)
              (map (entry_of s) (filter (fun kv => L.mem i (L.ssn (snd kv))) (L.db (sp_db s)))) mtu llc hdr_psnp)
    as (ps & Hn & Hd & He); auto.
  - apply src_id_len. exact Hc.
  - apply entries_wf.
  - exists ps. split; [exact Hn |]. split; [exact Hd |]. apply He. vm_compute. discriminate.
Qed.

Theorem csnp_roundtrips : forall s, cfg_ok s ->
  exists cs, csnps_for s = C.Ok cs /\
    Forall (fun c => C.decode (csnp_bytes c) = C.Ok (C.mkPacket hdr_csnp (C.BCsnp c))) cs /\
    concat (map CS.csnp_entries cs) = C.sort_entries (map (entry_of s) (L.db (sp_db s))) /\
    Permutation (concat (map CS.csnp_entries cs)) (map (entry_of s) (L.db (sp_db s))).
Proof.
  intros s Hc. unfold csnps_for, csnp_bytes.
  destruct (CP.new_csnps_roundtrip (src_id s) (map (entry_of s) (L.db (sp_db s))) mtu llc hdr_csnp)
    as (cs & Hn & Hd & He); auto.
  - apply src_id_len. exact Hc.
  - apply entries_wf.
  - exists cs. split; [exact Hn |]. split; [exact Hd |].
    destruct He as [He Hp]; [vm_compute; discriminate |]. split; [exact He |]. rewrite He. exact Hp.
Qed.

(* what is on the wire is exactly those PDUs *)
Lemma psnps_out_spec : forall s, cfg_ok s ->
  psnps_out s =
  flat_map (fun p =>
    if if_up (snd p) then
      match psnps_for s (fst p) with C.Ok ps => map (fun x => (fst p, psnp_bytes x)) ps | _ => [] end
    else []) (indexed 0 (sp_ifs s)).
Proof. reflexivity. Qed.

(* the ids and sequence numbers on the wire are those of the database: ids survive bytes *)
Definition id_ok (k : L.lspid) : Prop := L.sys k < 281474976710656 /\ L.pn k < 256 /\ L.num k < 256.

Lemma be_val_app : forall l x, be_val (l ++ [x]) = be_val l * 256 + x mod 256.
Proof. intros l x. unfold be_val. rewrite fold_left_app. reflexivity. Qed.

Lemma be_val_be_bytes : forall k v, v < 256 ^ N.of_nat k -> be_val (be_bytes k v) = v.
Proof.
  induction k as [| k IH]; intros v Hv.
  - simpl in *. unfold be_val. simpl. lia.
  - cbn [be_bytes]. rewrite be_val_app. rewrite IH.
    + rewrite N.mod_mod by discriminate. rewrite N.mul_comm. symmetry. apply N.div_mod. discriminate.
    + rewrite Nat2N.inj_succ, N.pow_succ_r' in Hv. apply N.div_lt_upper_bound; [discriminate | exact Hv].
Qed.

Lemma id_roundtrip : forall k, id_ok k -> id_of_bytes (id_bytes k) = k.
Proof.
  intros [sy p n] (H1 & H2 & H3). cbn [L.sys L.pn L.num] in H1, H2, H3.
  unfold id_of_bytes, id_bytes. cbn [L.sys L.pn L.num].
  assert (Hl : length (be_bytes 6 sy) = 6%nat) by apply be_bytes_length.
  rewrite firstn_app, Hl, Nat.sub_diag, firstn_O, app_nil_r.
  rewrite firstn_all2 by lia.
  rewrite be_val_be_bytes by (cbn; exact H1).
  rewrite !app_nth2 by lia. rewrite Hl. cbn [Nat.sub nth].
  rewrite !N.mod_mod by discriminate. rewrite !N.mod_small by assumption. reflexivity.
Qed.

Lemma id_of_bytes_ok : forall b, (length b <= 8)%nat -> length (firstn 6 b) = 6%nat -> id_ok (id_of_bytes b).
Proof.
  intros b _ Hl. unfold id_ok, id_of_bytes. cbn [L.sys L.pn L.num]. repeat split; try (apply N.mod_lt; discriminate).
  assert (H : forall l, be_val l < 256 ^ N.of_nat (length l)).
  { induction l as [| x r IH] using rev_ind.
    - unfold be_val. simpl. lia.
    - rewrite be_val_app, app_length. cbn [length]. rewrite Nat.add_1_r, Nat2N.inj_succ, N.pow_succ_r'.
      pose proof (N.mod_lt x 256). lia. }
  specialize (H (firstn 6 b)). rewrite Hl in H. exact H.
Qed.

(* ------------------------------------------------------------------ the hello we send *)

Definition info_ok (i : nbrinfo) : Prop := length (ni_sys i) = 6%nat /\ ni_ecid i < 4294967296.

Definition if_ok (s : spk) (f : sif) : Prop :=
  if_addr f < 4294967296 /\
  (forall k nb i, p2p_neighbor f = Some (k, nb) -> info_lookup k (if_info f) = Some i -> info_ok i).

Definition area_ok (s : spk) : Prop := N.of_nat (length (sp_area s)) + 1 < 256.

Lemma threeway_wf : forall s f, if_ok s f -> CS.wf_tlv (threeway_tlv f).
Proof.
  intros s f [_ Hi]. destruct CP.ctors_wf as (_ & _ & _ & _ & _ & Hp2p & _).
  unfold threeway_tlv. destruct (p2p_neighbor f) as [[k nb] |] eqn:Ep; [| apply Hp2p; apply u32_lt].
  destruct (A.state nb) eqn:Es; try (apply Hp2p; apply u32_lt);
    (destruct (info_lookup k (if_info f)) as [i |] eqn:Ei; [| apply Hp2p; apply u32_lt]);
    destruct (Hi k nb i eq_refl Ei) as [H1 H2];
    unfold CS.wf_tlv; cbn [C.tlv_len]; (split; [unfold CS.u8; lia |]);
    (split; [reflexivity |]); (split; [apply u32_lt |]); right; repeat split; auto.
Qed.

Lemma hello_wf : forall s f, cfg_ok s -> area_ok s -> if_ok s f -> CS.wf_hello (hello_of s f).
Proof.
  intros s f Hc Ha Hf. destruct CP.ctors_wf as (Harea & _ & Hproto & Hipif & _).
  unfold CS.wf_hello, hello_of. cbn [C.hl_sys C.hl_hold C.hl_tlvs].
  split; [exact Hc |]. split; [apply u16_lt |].
  repeat apply Forall_cons; try apply Forall_nil.
  - eapply threeway_wf; eauto.
  - apply Hproto. cbn. lia.
  - apply Hipif; [repeat constructor; exact (proj1 Hf) | cbn; lia].
  - apply Harea. unfold area_ok in Ha. cbn [map concat]. rewrite app_nil_r. unfold C.enc_area.
    cbn [length]. lia.
Qed.

Lemma norm_keeps_threeway : forall f, CS.norm_tlv (threeway_tlv f) = threeway_tlv f.
Proof.
  intros f. unfold threeway_tlv. destruct (p2p_neighbor f) as [[k nb] |]; [| reflexivity].
  destruct (A.state nb); try reflexivity; destruct (info_lookup k (if_info f)); reflexivity.
Qed.

(* the hello bytes decode (C30 round trip) to a hello whose three-way TLV is [threeway_tlv f] *)
Theorem hello_decodes : forall s f, cfg_ok s -> area_ok s -> if_ok s f ->
  exists h, C.decode (hello_bytes s f) = C.Ok (C.mkPacket hdr_hello (C.BHello h)) /\
    C.hl_ct h = 2 /\ C.hl_sys h = sp_sys s /\ C.hl_hold h = u16 (sp_hold s) /\
    C.hl_tlvs h = [threeway_tlv f; C.new_proto_tlv [204; 142]; C.new_ipif_tlv [if_addr f];
                   C.new_area_tlv [sp_area s]].
Proof.
  intros s f Hc Ha Hf. unfold hello_bytes.
  rewrite (CP.roundtrip_hello llc hdr_hello (hello_of s f) eq_refl eq_refl (hello_wf s f Hc Ha Hf)).
  eexists. split; [reflexivity |]. unfold CS.norm_hello, hello_of.
  cbn [C.hello_set_len C.hl_ct C.hl_sys C.hl_hold C.hl_len C.hl_lcid C.hl_tlvs map].
  rewrite norm_keeps_threeway. repeat split; reflexivity.
Qed.

(* ... and that TLV is the neighbor state of C31: Down (no neighbor fields) without a single
   non-Down neighbor, otherwise the neighbor's state, system id and circuit id *)
Theorem threeway_reflects_adjacency : forall f,
  match p2p_neighbor f with
  | Some (k, nb) =>
    match A.state nb, info_lookup k (if_info f) with
    | A.Down, _ | _, None => threeway_tlv f = C.TP2PAdj 240 5 2 (u32 (if_index f)) C.zero6 0
    | A.Init, Some i => threeway_tlv f = C.TP2PAdj 240 15 1 (u32 (if_index f)) (ni_sys i) (ni_ecid i)
    | A.Up, Some i => threeway_tlv f = C.TP2PAdj 240 15 0 (u32 (if_index f)) (ni_sys i) (ni_ecid i)
    end
  | None => threeway_tlv f = C.TP2PAdj 240 5 2 (u32 (if_index f)) C.zero6 0
  end.
Proof.
  intros f. unfold threeway_tlv. destruct (p2p_neighbor f) as [[k nb] |]; [| reflexivity].
  destruct (A.state nb); destruct (info_lookup k (if_info f)); reflexivity.
Qed.

(* ------------------------------------------------------------------ the own LSP on the wire *)

Definition subs_of (s : spk) (f : sif) (i : nbrinfo) : list C.subtlv :=
  [C.SIPv4 6 4 (if_addr f)] ++ map (fun a => C.SIPv4 8 4 a) (ni_addrs i) ++
  [C.SLinkLR 4 8 (u32 (if_index f)) (ni_ecid i)].

Definition extis_specs (s : spk) : list (list N * N * list C.subtlv) :=
  flat_map (fun f => map (fun ki => (ni_sys (snd ki) ++ [0], sp_metric s, subs_of s f (snd ki))) (up_nbrs f)) (sp_ifs s).

Lemma extis_specs_eq : forall s,
  flat_map (fun f => map (fun ki => extis_of s f (snd ki)) (up_nbrs f)) (sp_ifs s) =
  map (fun sp => match sp with (id, m, subs) => C.new_extis_nbr id m subs end) (extis_specs s).
Proof.
  intros s. unfold extis_specs. induction (sp_ifs s) as [| f r IH]; [reflexivity |].
  cbn [flat_map]. rewrite map_app, IH. f_equal. rewrite map_map. reflexivity.
Qed.

(* every TLV of the own LSP fits into its one-byte length (the code builds one TLV per kind) *)
Definition own_fits (s : spk) : Prop :=
  area_ok s /\
  Forall (fun f => if_addr f < 4294967296) (sp_ifs s) /\
  4 * N.of_nat (length (sp_ifs s)) < 256 /\
  N.of_nat (length (concat (map C.enc_extip
     (map (fun r => match r with (m, p, a) => C.mkExtIp m p a [] end)
          (map (fun f => (sp_metric s, if_plen f, base_addr (if_addr f) (if_plen f))) (filter if_up (sp_ifs s))))))) < 256 /\
  Forall (fun sp => match sp with (id, _, subs) =>
            CS.len_is id 7 /\ N.of_nat (length (concat (map C.enc_sub subs))) < 256 end) (extis_specs s) /\
  N.of_nat (length (concat (map C.enc_extisnbr
     (map (fun sp => match sp with (id, m, subs) => C.new_extis_nbr id m subs end) (extis_specs s))))) < 256 /\
  N.of_nat (length (sp_host s)) < 256.

Lemma len_fold_u16 : forall ts k, k < 65536 ->
  fold_left (fun acc t => (acc + 2 + C.tlv_len t) mod 65536) ts k < 65536.
Proof.
  induction ts as [| t r IH]; intros k Hk; simpl; auto. apply IH. apply N.mod_lt. discriminate.
Qed.

Lemma csum_u16 : forall l, C.csum l < 65536.
Proof.
  intros l. unfold C.csum.
  set (c := C.csum_blocks _ _ _ _). set (z := ((_ - 12 - 1) * fst c - snd c)%Z).
  set (x := (if (Z.rem z 255 <? 0)%Z then (Z.rem z 255 + 255)%Z else Z.rem z 255)).
  set (y0 := (510 - fst c - x)%Z). set (y := (if (255 <? y0)%Z then (y0 - 255)%Z else y0)).
  pose proof (Z.mod_pos_bound x 256 eq_refl) as Hx. pose proof (Z.mod_pos_bound y 256 eq_refl) as Hy.
  assert (H : (0 <= x mod 256 * 256 + y mod 256 < 65536)%Z) by lia.
  apply N2Z.inj_lt. rewrite Z2N.id by lia. change (Z.of_N 65536) with 65536%Z. lia.
Qed.

Lemma subs_ok : forall s f i, Forall CP.sub_ok (subs_of s f i).
Proof.
  intros s f i. unfold subs_of. apply Forall_app. split; [repeat constructor |].
  apply Forall_app. split; [| repeat constructor].
  apply Forall_forall. intros x Hx. apply in_map_iff in Hx. destruct Hx as (a & <- & _). reflexivity.
Qed.

Lemma own_lsp_wf : forall s sq, own_fits s -> sq < 4294967296 -> CS.wf_lsp (own_lsp s sq).
Proof.
  intros s sq (Ha & Hadr & Hn & Hip & Hspec & Hist & Hh) Hsq.
  destruct CP.ctors_wf as (Harea & Hdyn & Hproto & Hipif & _ & _ & _ & _ & Hextis & Hextip).
  unfold CS.wf_lsp, own_lsp, C.lsp_set_checksum, C.lsp_update_length.
  cbn [C.ls_len C.ls_life C.ls_id C.ls_seq C.ls_csum C.ls_tb C.ls_tlvs].
  split; [apply len_fold_u16; reflexivity |].
  split; [reflexivity |]. split; [apply id_bytes_length |]. split; [exact Hsq |].
  split; [apply csum_u16 |].
  unfold own_lsp_tlvs. repeat apply Forall_cons; try apply Forall_nil.
  - apply Harea. unfold area_ok in Ha. cbn [map concat]. rewrite app_nil_r. unfold C.enc_area. cbn [length]. lia.
  - apply Hproto. cbn. lia.
  - apply Hipif.
    + apply Forall_forall. intros a Hin. apply in_map_iff in Hin. destruct Hin as (f & <- & Hf).
      rewrite Forall_forall in Hadr. apply Hadr. exact Hf.
    + rewrite map_length. exact Hn.
  - apply Hextip. exact Hip.
  - rewrite extis_specs_eq. apply Hextis; [| exact Hist].
    apply Forall_forall. intros [[id m] subs] Hin.
    rewrite Forall_forall in Hspec. specialize (Hspec _ Hin). destruct Hspec as [H1 H2].
    split; [exact H1 |]. split; [| exact H2].
    unfold extis_specs in Hin. apply in_flat_map in Hin. destruct Hin as (f & _ & Hin).
    apply in_map_iff in Hin. destruct Hin as (ki & Heq & _). injection Heq as _ _ <-. apply subs_ok.
  - apply Hdyn. exact Hh.
Qed.

Lemma new_extis_nbr_id : forall id m subs, C.xn_id (C.new_extis_nbr id m subs) = id.
Proof.
  intros id m subs. unfold C.new_extis_nbr.
  assert (H : forall l n, C.xn_id (fold_left C.extis_nbr_add_sub l n) = C.xn_id n).
  { induction l as [| x r IH]; intros n; simpl; auto. rewrite IH. reflexivity. }
  rewrite H. reflexivity.
Qed.

(* the neighbors of the extended IS reachability TLV *)
Definition extis_nbrs (t : C.tlv) : list C.extisnbr := match t with C.TExtIS _ _ ns => ns | _ => [] end.

Lemma new_extis_tlv_nbrs : forall ns, extis_nbrs (C.new_extis_tlv ns) = ns.
Proof.
  intros ns. unfold C.new_extis_tlv.
  assert (H : forall l ty len acc, extis_nbrs (fold_left C.extis_add l (C.TExtIS ty len acc)) = acc ++ l).
  { induction l as [| x r IH]; intros ty len acc; simpl; [rewrite app_nil_r; reflexivity |].
    rewrite IH. rewrite <- app_assoc. reflexivity. }
  rewrite H. reflexivity.
Qed.

(* The own LSP as flooded decodes (C30 round trip) to itself, with the sequence number it was
   generated with, and its extended IS reachability TLV names exactly the Up adjacencies
   (neighbor system id ++ pseudonode 0), interface by interface. *)
Theorem own_lsp_roundtrip : forall s sq, own_fits s -> sq < 4294967296 ->
  C.decode (lsp_bytes (own_lsp s sq)) = C.Ok (C.mkPacket hdr_lsp (C.BLsp (CS.norm_lsp (own_lsp s sq)))) /\
  C.ls_seq (CS.norm_lsp (own_lsp s sq)) = sq /\
  C.ls_id (CS.norm_lsp (own_lsp s sq)) = id_bytes (L.local_id (sp_db s)) /\
  exists t, nth_error (own_lsp_tlvs s) 4 = Some t /\
    nth_error (C.ls_tlvs (CS.norm_lsp (own_lsp s sq))) 4 = Some (C.TUnknown 22 (C.tlv_len t) (C.tlv_value t)) /\
    map C.xn_id (extis_nbrs t) =
      flat_map (fun f => map (fun ki => ni_sys (snd ki) ++ [0]) (up_nbrs f)) (sp_ifs s).
Proof.
  intros s sq Hf Hsq. split.
  - unfold lsp_bytes. apply CP.roundtrip_lsp; [reflexivity | reflexivity | apply own_lsp_wf; assumption].
  - split; [reflexivity |]. split; [reflexivity |].
    eexists. split; [reflexivity |]. split.
    + unfold CS.norm_lsp, own_lsp, C.lsp_set_checksum, C.lsp_update_length. cbn [C.ls_tlvs].
      unfold own_lsp_tlvs. cbn [map nth_error].
      assert (Ht : forall ns, exists len, C.new_extis_tlv ns = C.TExtIS 22 len ns).
      { intros ns. unfold C.new_extis_tlv.
        assert (H : forall l len acc, exists len', fold_left C.extis_add l (C.TExtIS 22 len acc) = C.TExtIS 22 len' (acc ++ l)).
        { induction l as [| x r IH]; intros len acc; simpl.
          - exists len. rewrite app_nil_r. reflexivity.
          - destruct (IH ((len + 11 + C.xn_sublen x) mod 256) (acc ++ [x])) as (len' & H').
            exists len'. rewrite H'. rewrite <- app_assoc. reflexivity. }
        destruct (H ns 0 []) as (len & Hl). exists len. exact Hl. }
      destruct (Ht (flat_map (fun f => map (fun ki => extis_of s f (snd ki)) (up_nbrs f)) (sp_ifs s))) as (len & Hl).
      rewrite Hl. reflexivity.
    + rewrite new_extis_tlv_nbrs. induction (sp_ifs s) as [| f r IH]; [reflexivity |].
      cbn [flat_map]. rewrite map_app, IH. f_equal. rewrite map_map.
      apply map_ext. intros ki. unfold extis_of. apply new_extis_nbr_id.
Qed.

(* serving an update request installs that LSP with the sequence number C32 prescribes *)
Theorem service_installs_own_lsp : forall s,
  L.pending (sp_db s) = true ->
  let sq := L.next_seq (L.counter (sp_db s)) in
  let s' := service s in
  pdu_lookup (L.local_id (sp_db s)) (sp_pdus s') = Some (own_lsp s sq) /\
  (exists e, L.lookup (L.local_id (sp_db s)) (L.db (sp_db s')) = Some e /\ L.seq e = sq /\ L.life e = L.default_lifetime) /\
  L.counter (sp_db s') = sq /\ L.pending (sp_db s') = false /\ sp_ifs s' = sp_ifs s.
Proof.
  intros s Hp sq s'. unfold s', service, sync_db. cbn [L.pending]. rewrite Hp.
  cbn [sp_pdus sp_db sp_ifs].
  assert (Hpl : forall k v t, pdu_lookup k (pdu_store k v t) = Some v).
  { induction t as [| [k' v'] r IH]; simpl.
    - rewrite LSDBProofs.id_eqb_refl. reflexivity.
    - destruct (L.id_eqb k' k) eqn:E; simpl; rewrite E; auto. }
  split.
  - unfold L.service. cbn [L.pending]. unfold L.regen. cbn [L.counter L.local_id L.own]. apply Hpl.
  - unfold L.service. cbn [L.pending].
    set (d := L.mkS (db_ifs (sp_ifs s)) (L.own (sp_db s)) (L.db (sp_db s)) (L.counter (sp_db s)) false).
    destruct (LSDBProofs.regen_lookup_local d) as (e & He & Hs & Hl & _).
    split; [exists e; auto |]. split; [reflexivity |]. split; reflexivity.
Qed.
