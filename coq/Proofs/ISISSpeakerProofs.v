(* Proofs about the wire-level speaker: they combine the theorems of the components
   (C30 codec totality and round trips, C31 neighbor steps, C32 database steps). *)
From Coq Require Import List Bool NArith ZArith Arith Lia Permutation.
Import ListNotations.
From BioVerif Require Import Model.ISISSpeaker.
From BioVerif Require Model.ISISCodec Model.Adj Model.LSDB.
Module C := ISISCodec.
Module A := Adj.
Module L := LSDB.
From BioVerif Require Spec.ISISCodecSpec Proofs.ISISCodecProofs Proofs.AdjProofs Proofs.LSDBProofs.
Module CS := ISISCodecSpec.
Module CP := ISISCodecProofs.
Open Scope N_scope.

(* ------------------------------------------------------------------ garbage changes nothing *)

Theorem garbage_changes_nothing : forall s i src b,
  (forall p, C.decode b <> C.Ok p) -> step s (RecvPDU i src b) = (s, []).
Proof.
  intros s i src b H. unfold step, recv_pdu.
  destruct (nth_error (sp_ifs s) i) as [f |]; [| reflexivity].
  destruct (if_up f); [| reflexivity].
  destruct (C.decode b) as [p | | |] eqn:E; try reflexivity.
  exfalso. eapply H. reflexivity.
Qed.

(* by C30 a byte string that does not decode is an error of the decoder: never a panic, never a
   loop running out of fuel *)
Theorem undecodable_is_err : forall b, (forall p, C.decode b <> C.Ok p) -> C.decode b = C.Err.
Proof.
  intros b H. destruct (C.decode b) as [p | | |] eqn:E.
  - exfalso. eapply H. reflexivity.
  - reflexivity.
  - exfalso. exact (CP.no_panic b E).
  - exfalso. destruct (CP.fuel_suffices b (S (length b)) (Nat.lt_succ_diag_r _)) as [_ Hn]. exact (Hn E).
Qed.

(* a PDU of a type packet.Decode has no case for decodes to a bare header and is dropped as well *)
Theorem other_pdu_types_change_nothing : forall s i src b h,
  C.decode b = C.Ok (C.mkPacket h C.BNone) -> L.pending (sp_db s) = false ->
  step s (RecvPDU i src b) = (s, []).
Proof.
  intros s i src b h Hd Hp. unfold step, recv_pdu.
  destruct (nth_error (sp_ifs s) i) as [f |]; [| reflexivity].
  destruct (if_up f); [| reflexivity].
  rewrite Hd. cbn [C.p_body recv_body]. unfold service, sync_db. cbn [L.pending]. rewrite Hp. reflexivity.
Qed.

(* ------------------------------------------------------------------ well-formedness by construction *)

Lemma be_bytes_length : forall k v, length (be_bytes k v) = k.
Proof.
  induction k as [| k IH]; intros v; simpl; auto. rewrite app_length, IH. simpl. lia.
Qed.

Lemma id_bytes_length : forall k, length (id_bytes k) = 8%nat.
Proof. intros k. unfold id_bytes. rewrite app_length, be_bytes_length. reflexivity. Qed.

Lemma u16_lt : forall x, u16 x < 65536.
Proof. intros x. unfold u16. apply N.mod_lt. discriminate. Qed.
Lemma u32_lt : forall x, u32 x < 4294967296.
Proof. intros x. unfold u32. apply N.mod_lt. discriminate. Qed.

Lemma entry_of_wf : forall s kv, CS.wf_entry (entry_of s kv).
Proof.
  intros s kv. unfold CS.wf_entry, entry_of, CS.u16, CS.u32, CS.len_is.
  cbn [C.le_life C.le_id C.le_seq C.le_csum].
  split; [apply u16_lt |]. split; [apply id_bytes_length |]. split; [apply u32_lt |].
  destruct (pdu_lookup (fst kv) (sp_pdus s)); [apply u16_lt | reflexivity].
Qed.

Lemma entries_wf : forall s l, Forall CS.wf_entry (map (entry_of s) l).
Proof. intros s l. apply Forall_forall. intros e He. apply in_map_iff in He. destruct He as (kv & <- & _). apply entry_of_wf. Qed.

Definition cfg_ok (s : spk) : Prop := length (sp_sys s) = 6%nat.

Lemma src_id_len : forall s, cfg_ok s -> CS.len_is (src_id s) 7.
Proof. intros s H. unfold CS.len_is, src_id. rewrite app_length, H. reflexivity. Qed.

(* ------------------------------------------------------------------ every PSNP / CSNP we emit decodes back *)

Theorem psnp_roundtrips : forall s i, cfg_ok s ->
  exists ps, psnps_for s i = C.Ok ps /\
    Forall (fun p => C.decode (psnp_bytes p) = C.Ok (C.mkPacket hdr_psnp (C.BPsnp p))) ps /\
    concat (map CS.psnp_entries ps) =
      map (entry_of s) (filter (fun kv => L.mem i (L.ssn (snd kv))) (L.db (sp_db s))).
Proof.
  intros s i Hc. unfold psnps_for, psnp_bytes.
  destruct (CP.new_psnps_roundtrip (src_id s)
              (map (entry_of s) (filter (fun kv => L.mem i (L.ssn (snd kv))) (L.db (sp_db s)))) mtu llc hdr_psnp)
    as (ps & Hn & Hd & He); auto.
  - apply src_id_len. exact Hc.
  - apply entries_wf.
  - exists ps. split; [exact Hn |]. split; [exact Hd |]. apply He. vm_compute. discriminate.
Qed.

Theorem csnp_roundtrips : forall s, cfg_ok s ->
  exists cs, csnps_for s = C.Ok cs /\
    Forall (fun c => C.decode (csnp_bytes c) = C.Ok (C.mkPacket hdr_csnp (C.BCsnp c))) cs /\
    concat (map CS.csnp_entries cs) = C.sort_entries (map (entry_of s) (L.db (sp_db s))) /\
    Permutation (concat (map CS.csnp_entries cs)) (map (entry_of s) (L.db (sp_db s))).
Proof.
  intros s Hc. unfold csnps_for, csnp_bytes.
  destruct (CP.new_csnps_roundtrip (src_id s) (map (entry_of s) (L.db (sp_db s))) mtu llc hdr_csnp)
    as (cs & Hn & Hd & He); auto.
  - apply src_id_len. exact Hc.
  - apply entries_wf.
  - exists cs. split; [exact Hn |]. split; [exact Hd |].
    destruct He as [He Hp]; [vm_compute; discriminate |]. split; [exact He |]. rewrite He. exact Hp.
Qed.

(* what is on the wire is exactly those PDUs *)
Lemma psnps_out_spec : forall s, cfg_ok s ->
  psnps_out s =
  flat_map (fun p =>
    if if_up (snd p) then
      match psnps_for s (fst p) with C.Ok ps => map (fun x => (fst p, psnp_bytes x)) ps | _ => [] end
    else []) (indexed 0 (sp_ifs s)).
Proof. reflexivity. Qed.

(* the ids and sequence numbers on the wire are those of the database: ids survive bytes *)
Definition id_ok (k : L.lspid) : Prop := L.sys k < 281474976710656 /\ L.pn k < 256 /\ L.num k < 256.

Lemma be_val_app : forall l x, be_val (l ++ [x]) = be_val l * 256 + x mod 256.
Proof. intros l x. unfold be_val. rewrite fold_left_app. reflexivity. Qed.

Lemma be_val_be_bytes : forall k v, v < 256 ^ N.of_nat k -> be_val (be_bytes k v) = v.
Proof.
  induction k as [| k IH]; intros v Hv.
  - simpl in *. unfold be_val. simpl. lia.
  - cbn [be_bytes]. rewrite be_val_app. rewrite IH.
    + rewrite N.mod_mod by discriminate. rewrite N.mul_comm. symmetry. apply N.div_mod. discriminate.
    + rewrite Nat2N.inj_succ, N.pow_succ_r' in Hv. apply N.div_lt_upper_bound; [discriminate | exact Hv].
Qed.

Lemma id_roundtrip : forall k, id_ok k -> id_of_bytes (id_bytes k) = k.
Proof.
  intros [sy p n] (H1 & H2 & H3). cbn [L.sys L.pn L.num] in H1, H2, H3.
  unfold id_of_bytes, id_bytes. cbn [L.sys L.pn L.num].
  assert (Hl : length (be_bytes 6 sy) = 6%nat) by apply be_bytes_length.
  rewrite firstn_app, Hl, Nat.sub_diag, firstn_O, app_nil_r.
  rewrite firstn_all2 by lia.
  rewrite be_val_be_bytes by (cbn; exact H1).
  rewrite !app_nth2 by lia. rewrite Hl. cbn [Nat.sub nth].
  rewrite !N.mod_mod by discriminate. rewrite !N.mod_small by assumption. reflexivity.
Qed.

Lemma id_of_bytes_ok : forall b, (length b <= 8)%nat -> length (firstn 6 b) = 6%nat -> id_ok (id_of_bytes b).
Proof.
  intros b _ Hl. unfold id_ok, id_of_bytes. cbn [L.sys L.pn L.num]. repeat split; try (apply N.mod_lt; discriminate).
  assert (H : forall l, be_val l < 256 ^ N.of_nat (length l)).
  { induction l as [| x r IH] using rev_ind.
    - unfold be_val. simpl. lia.
    - rewrite be_val_app, app_length. cbn [length]. rewrite Nat.add_1_r, Nat2N.inj_succ, N.pow_succ_r'.
      pose proof (N.mod_lt x 256). lia. }
  specialize (H (firstn 6 b)). rewrite Hl in H. exact H.
Qed.

(* ------------------------------------------------------------------ the hello we send *)

Definition info_ok (i : nbrinfo) : Prop := length (ni_sys i) = 6%nat /\ ni_ecid i < 4294967296.

Definition if_ok (s : spk) (f : sif) : Prop :=
  if_addr f < 4294967296 /\
  (forall k nb i, p2p_neighbor f = Some (k, nb) -> info_lookup k (if_info f) = Some i -> info_ok i).

Definition area_ok (s : spk) : Prop := N.of_nat (length (sp_area s)) + 1 < 256.

Lemma threeway_wf : forall s f, if_ok s f -> CS.wf_tlv (threeway_tlv f).
Proof.
  intros s f [_ Hi]. destruct CP.ctors_wf as (_ & _ & _ & _ & _ & Hp2p & _).
  unfold threeway_tlv. destruct (p2p_neighbor f) as [[k nb] |] eqn:Ep; [| apply Hp2p; apply u32_lt].
  destruct (A.state nb) eqn:Es; try (apply Hp2p; apply u32_lt);
    (destruct (info_lookup k (if_info f)) as [i |] eqn:Ei; [| apply Hp2p; apply u32_lt]);
    destruct (Hi k nb i eq_refl Ei) as [H1 H2];
    unfold CS.wf_tlv; cbn [C.tlv_len]; (split; [unfold CS.u8; lia |]);
    (split; [reflexivity |]); (split; [apply u32_lt |]); right; repeat split; auto.
Qed.

Lemma hello_wf : forall s f, cfg_ok s -> area_ok s -> if_ok s f -> CS.wf_hello (hello_of s f).
Proof.
  intros s f Hc Ha Hf. destruct CP.ctors_wf as (Harea & _ & Hproto & Hipif & _).
  unfold CS.wf_hello, hello_of. cbn [C.hl_sys C.hl_hold C.hl_tlvs].
  split; [exact Hc |]. split; [apply u16_lt |].
  repeat apply Forall_cons; try apply Forall_nil.
  - eapply threeway_wf; eauto.
  - apply Hproto. cbn. lia.
  - apply Hipif; [repeat constructor; exact (proj1 Hf) | cbn; lia].
  - apply Harea. unfold area_ok in Ha. cbn [map concat]. rewrite app_nil_r. unfold C.enc_area.
    cbn [length]. lia.
Qed.

Lemma norm_keeps_threeway : forall f, CS.norm_tlv (threeway_tlv f) = threeway_tlv f.
Proof.
  intros f. unfold threeway_tlv. destruct (p2p_neighbor f) as [[k nb] |]; [| reflexivity].
  destruct (A.state nb); try reflexivity; destruct (info_lookup k (if_info f)); reflexivity.
Qed.

(* the hello bytes decode (C30 round trip) to a hello whose three-way TLV is [threeway_tlv f] *)
Theorem hello_decodes : forall s f, cfg_ok s -> area_ok s -> if_ok s f ->
  exists h, C.decode (hello_bytes s f) = C.Ok (C.mkPacket hdr_hello (C.BHello h)) /\
    C.hl_ct h = 2 /\ C.hl_sys h = sp_sys s /\ C.hl_hold h = u16 (sp_hold s) /\
    C.hl_tlvs h = [threeway_tlv f; C.new_proto_tlv [204; 142]; C.new_ipif_tlv [if_addr f];
                   C.new_area_tlv [sp_area s]].
Proof.
  intros s f Hc Ha Hf. unfold hello_bytes.
  rewrite (CP.roundtrip_hello llc hdr_hello (hello_of s f) eq_refl eq_refl (hello_wf s f Hc Ha Hf)).
  eexists. split; [reflexivity |]. unfold CS.norm_hello, hello_of.
  cbn [C.hello_set_len C.hl_ct C.hl_sys C.hl_hold C.hl_len C.hl_lcid C.hl_tlvs map].
  rewrite norm_keeps_threeway. repeat split; reflexivity.
Qed.

(* ... and that TLV is the neighbor state of C31: Down (no neighbor fields) without a single
   non-Down neighbor, otherwise the neighbor's state, system id and circuit id *)
Theorem threeway_reflects_adjacency : forall f,
  match p2p_neighbor f with
  | Some (k, nb) =>
    match A.state nb, info_lookup k (if_info f) with
    | A.Down, _ | _, None => threeway_tlv f = C.TP2PAdj 240 5 2 (u32 (if_index f)) C.zero6 0
    | A.Init, Some i => threeway_tlv f = C.TP2PAdj 240 15 1 (u32 (if_index f)) (ni_sys i) (ni_ecid i)
    | A.Up, Some i => threeway_tlv f = C.TP2PAdj 240 15 0 (u32 (if_index f)) (ni_sys i) (ni_ecid i)
    end
  | None => threeway_tlv f = C.TP2PAdj 240 5 2 (u32 (if_index f)) C.zero6 0
  end.
Proof.
  intros f. unfold threeway_tlv. destruct (p2p_neighbor f) as [[k nb] |]; [| reflexivity].
  destruct (A.state nb); destruct (info_lookup k (if_info f)); reflexivity.
Qed.

(* ------------------------------------------------------------------ the own LSP on the wire *)

Definition subs_of (s : spk) (f : sif) (i : nbrinfo) : list C.subtlv :=
  [C.SIPv4 6 4 (if_addr f)] ++ map (fun a => C.SIPv4 8 4 a) (ni_addrs i) ++
  [C.SLinkLR 4 8 (u32 (if_index f)) (ni_ecid i)].

Definition extis_specs (s : spk) : list (list N * N * list C.subtlv) :=
  flat_map (fun f => map (fun ki => (ni_sys (snd ki) ++ [0], sp_metric s, subs_of s f (snd ki))) (up_nbrs f)) (sp_ifs s).

Lemma extis_specs_eq : forall s,
  flat_map (fun f => map (fun ki => extis_of s f (snd ki)) (up_nbrs f)) (sp_ifs s) =
  map (fun sp => match sp with (id, m, subs) => C.new_extis_nbr id m subs end) (extis_specs s).
Proof.
  intros s. unfold extis_specs. induction (sp_ifs s) as [| f r IH]; [reflexivity |].
  cbn [flat_map]. rewrite map_app, IH. f_equal. rewrite map_map. reflexivity.
Qed.

(* every TLV of the own LSP fits into its one-byte length (the code builds one TLV per kind) *)
Definition own_fits (s : spk) : Prop :=
  area_ok s /\
  Forall (fun f => if_addr f < 4294967296) (sp_ifs s) /\
  4 * N.of_nat (length (sp_ifs s)) < 256 /\
  N.of_nat (length (concat (map C.enc_extip
     (map (fun r => match r with (m, p, a) => C.mkExtIp m p a [] end)
          (map (fun f => (sp_metric s, if_plen f, base_addr (if_addr f) (if_plen f))) (filter if_up (sp_ifs s))))))) < 256 /\
  Forall (fun sp => match sp with (id, _, subs) =>
            CS.len_is id 7 /\ N.of_nat (length (concat (map C.enc_sub subs))) < 256 end) (extis_specs s) /\
  N.of_nat (length (concat (map C.enc_extisnbr
     (map (fun sp => match sp with (id, m, subs) => C.new_extis_nbr id m subs end) (extis_specs s))))) < 256 /\
  N.of_nat (length (sp_host s)) < 256.

Lemma len_fold_u16 : forall ts k, k < 65536 ->
  fold_left (fun acc t => (acc + 2 + C.tlv_len t) mod 65536) ts k < 65536.
Proof.
  induction ts as [| t r IH]; intros k Hk; simpl; auto. apply IH. apply N.mod_lt. discriminate.
Qed.

Lemma csum_u16 : forall l, C.csum l < 65536.
Proof.
  intros l. unfold C.csum.
  set (c := C.csum_blocks _ _ _ _). set (z := ((_ - 12 - 1) * fst c - snd c)%Z).
  set (x := (if (Z.rem z 255 <? 0)%Z then (Z.rem z 255 + 255)%Z else Z.rem z 255)).
  set (y0 := (510 - fst c - x)%Z). set (y := (if (255 <? y0)%Z then (y0 - 255)%Z else y0)).
  pose proof (Z.mod_pos_bound x 256 eq_refl) as Hx. pose proof (Z.mod_pos_bound y 256 eq_refl) as Hy.
  assert (H : (0 <= x mod 256 * 256 + y mod 256 < 65536)%Z) by lia.
  apply N2Z.inj_lt. rewrite Z2N.id by lia. change (Z.of_N 65536) with 65536%Z. lia.
Qed.

Lemma subs_ok : forall s f i, Forall CP.sub_ok (subs_of s f i).
Proof.
  intros s f i. unfold subs_of. apply Forall_app. split; [repeat constructor |].
  apply Forall_app. split; [| repeat constructor].
  apply Forall_forall. intros x Hx. apply in_map_iff in Hx. destruct Hx as (a & <- & _). reflexivity.
Qed.

Lemma own_lsp_wf : forall s sq, own_fits s -> sq < 4294967296 -> CS.wf_lsp (own_lsp s sq).
Proof.
  intros s sq (Ha & Hadr & Hn & Hip & Hspec & Hist & Hh) Hsq.
  destruct CP.ctors_wf as (Harea & Hdyn & Hproto & Hipif & _ & _ & _ & _ & Hextis & Hextip).
  unfold CS.wf_lsp, own_lsp, C.lsp_set_checksum, C.lsp_update_length.
  cbn [C.ls_len C.ls_life C.ls_id C.ls_seq C.ls_csum C.ls_tb C.ls_tlvs].
  split; [apply len_fold_u16; reflexivity |].
  split; [reflexivity |]. split; [apply id_bytes_length |]. split; [exact Hsq |].
  split; [apply csum_u16 |].
  unfold own_lsp_tlvs. repeat apply Forall_cons; try apply Forall_nil.
  - apply Harea. unfold area_ok in Ha. cbn [map concat]. rewrite app_nil_r. unfold C.enc_area. cbn [length]. lia.
  - apply Hproto. cbn. lia.
  - apply Hipif.
    + apply Forall_forall. intros a Hin. apply in_map_iff in Hin. destruct Hin as (f & <- & Hf).
      rewrite Forall_forall in Hadr. apply Hadr. exact Hf.
    + rewrite map_length. exact Hn.
  - apply Hextip. exact Hip.
  - rewrite extis_specs_eq. apply Hextis; [| exact Hist].
    apply Forall_forall. intros [[id m] subs] Hin.
    rewrite Forall_forall in Hspec. specialize (Hspec _ Hin). destruct Hspec as [H1 H2].
    split; [exact H1 |]. split; [| exact H2].
    unfold extis_specs in Hin. apply in_flat_map in Hin. destruct Hin as (f & _ & Hin).
    apply in_map_iff in Hin. destruct Hin as (ki & Heq & _). injection Heq as _ _ <-. apply subs_ok.
  - apply Hdyn. exact Hh.
Qed.

Lemma new_extis_nbr_id : forall id m subs, C.xn_id (C.new_extis_nbr id m subs) = id.
Proof.
  intros id m subs. unfold C.new_extis_nbr.
  assert (H : forall l n, C.xn_id (fold_left C.extis_nbr_add_sub l n) = C.xn_id n).
  { induction l as [| x r IH]; intros n; simpl; auto. rewrite IH. reflexivity. }
  rewrite H. reflexivity.
Qed.

(* the neighbors of the extended IS reachability TLV *)
Definition extis_nbrs (t : C.tlv) : list C.extisnbr := match t with C.TExtIS _ _ ns => ns | _ => [] end.

Lemma new_extis_tlv_nbrs : forall ns, extis_nbrs (C.new_extis_tlv ns) = ns.
Proof.
  intros ns. unfold C.new_extis_tlv.
  assert (H : forall l ty len acc, extis_nbrs (fold_left C.extis_add l (C.TExtIS ty len acc)) = acc ++ l).
  { induction l as [| x r IH]; intros ty len acc; simpl; [rewrite app_nil_r; reflexivity |].
    rewrite IH. rewrite <- app_assoc. reflexivity. }
  rewrite H. reflexivity.
Qed.

(* The own LSP as flooded decodes (C30 round trip) to itself, with the sequence number it was
   generated with, and its extended IS reachability TLV names exactly the Up adjacencies
   (neighbor system id ++ pseudonode 0), interface by interface. *)
Theorem own_lsp_roundtrip : forall s sq, own_fits s -> sq < 4294967296 ->
  C.decode (lsp_bytes (own_lsp s sq)) = C.Ok (C.mkPacket hdr_lsp (C.BLsp (CS.norm_lsp (own_lsp s sq)))) /\
  C.ls_seq (CS.norm_lsp (own_lsp s sq)) = sq /\
  C.ls_id (CS.norm_lsp (own_lsp s sq)) = id_bytes (L.local_id (sp_db s)) /\
  exists t, nth_error (own_lsp_tlvs s) 4 = Some t /\
    nth_error (C.ls_tlvs (CS.norm_lsp (own_lsp s sq))) 4 = Some (C.TUnknown 22 (C.tlv_len t) (C.tlv_value t)) /\
    map C.xn_id (extis_nbrs t) =
      flat_map (fun f => map (fun ki => ni_sys (snd ki) ++ [0]) (up_nbrs f)) (sp_ifs s).
Proof.
  intros s sq Hf Hsq. split.
  - unfold lsp_bytes. apply CP.roundtrip_lsp; [reflexivity | reflexivity | apply own_lsp_wf; assumption].
  - split; [reflexivity |]. split; [reflexivity |].
    eexists. split; [reflexivity |]. split.
    + unfold CS.norm_lsp, own_lsp, C.lsp_set_checksum, C.lsp_update_length. cbn [C.ls_tlvs].
      unfold own_lsp_tlvs. cbn [map nth_error].
      assert (Ht : forall ns, exists len, C.new_extis_tlv ns = C.TExtIS 22 len ns).
      { intros ns. unfold C.new_extis_tlv.
        assert (H : forall l len acc, exists len', fold_left C.extis_add l (C.TExtIS 22 len acc) = C.TExtIS 22 len' (acc ++ l)).
        { induction l as [| x r IH]; intros len acc; simpl.
          - exists len. rewrite app_nil_r. reflexivity.
          - destruct (IH ((len + 11 + C.xn_sublen x) mod 256) (acc ++ [x])) as (len' & H').
            exists len'. rewrite H'. rewrite <- app_assoc. reflexivity. }
        destruct (H ns 0 []) as (len & Hl). exists len. exact Hl. }
      destruct (Ht (flat_map (fun f => map (fun ki => extis_of s f (snd ki)) (up_nbrs f)) (sp_ifs s))) as (len & Hl).
      rewrite Hl. reflexivity.
    + rewrite new_extis_tlv_nbrs. induction (sp_ifs s) as [| f r IH]; [reflexivity |].
      cbn [flat_map]. rewrite map_app, IH. f_equal. rewrite map_map.
      apply map_ext. intros ki. unfold extis_of. apply new_extis_nbr_id.
Qed.

(* serving an update request installs that LSP with the sequence number C32 prescribes *)
Theorem service_installs_own_lsp : forall s,
  L.pending (sp_db s) = true ->
  let sq := L.next_seq (L.counter (sp_db s)) in
  let s' := service s in
  pdu_lookup (L.local_id (sp_db s)) (sp_pdus s') = Some (own_lsp s sq) /\
  (exists e, L.lookup (L.local_id (sp_db s)) (L.db (sp_db s')) = Some e /\ L.seq e = sq /\ L.life e = L.default_lifetime) /\
  L.counter (sp_db s') = sq /\ L.pending (sp_db s') = false /\ sp_ifs s' = sp_ifs s.
Proof.
  intros s Hp sq s'. unfold s', service, sync_db. cbn [L.pending]. rewrite Hp.
  cbn [sp_pdus sp_db sp_ifs].
  assert (Hpl : forall k v t, pdu_lookup k (pdu_store k v t) = Some v).
  { induction t as [| [k' v'] r IH]; simpl.
    - rewrite LSDBProofs.id_eqb_refl. reflexivity.
    - destruct (L.id_eqb k' k) eqn:E; simpl; rewrite E; auto. }
  split.
  - unfold L.service. cbn [L.pending]. unfold L.regen. cbn [L.counter L.local_id L.own]. apply Hpl.
  - unfold L.service. cbn [L.pending].
    set (d := L.mkS (db_ifs (sp_ifs s)) (L.own (sp_db s)) (L.db (sp_db s)) (L.counter (sp_db s)) false).
    destruct (LSDBProofs.regen_lookup_local d) as (e & He & Hs & Hl & _).
    split; [exists e; auto |]. split; [reflexivity |]. split; reflexivity.
Qed.

(* ------------------------------------------------------------------ two speakers: the verdict on an emitted hello *)

Lemma threeway_type : forall f, C.tlv_type (threeway_tlv f) = 240.
Proof.
  intros f. unfold threeway_tlv. destruct (p2p_neighbor f) as [[k nb] |]; [| reflexivity].
  destruct (A.state nb); try reflexivity; destruct (info_lookup k (if_info f)); reflexivity.
Qed.

(* T names S on its interface ft: its single neighbor there is not Down and was learnt with S's
   system id and the circuit id of S's interface f *)
Definition names (T : spk) (ft : sif) (S : spk) (f : sif) : bool :=
  match p2p_neighbor ft with
  | Some (k, nb) =>
    match A.state nb, info_lookup k (if_info ft) with
    | A.Down, _ | _, None => false
    | _, Some i => (be_val (ni_sys i) =? be_val (sp_sys S)) && (N.of_nat (length (ni_sys i)) =? 6) &&
                   (u32 (ni_ecid i) =? u32 (if_index f))
    end
  | None => false
  end.

(* What a speaker S concludes (C31 verdict) from the hello bytes another speaker T emits on a link
   whose addresses match: "lists us" exactly when T's neighbor table names S - the abstract
   [lists_me] flag of Model/Adj.v is the three-way TLV that went over the wire. *)
Theorem verdict_of_emitted : forall S f T ft, cfg_ok T -> area_ok T -> if_ok T ft ->
  be_val (sp_sys S) <> 0 ->       (* a three-way TLV without neighbor fields reads as system id 0, circuit 0 *)
  pfx_contains (if_addr f) (if_plen f) (if_addr ft) = true ->
  exists h, C.decode (hello_bytes T ft) = C.Ok (C.mkPacket hdr_hello (C.BHello h)) /\
    C.hl_sys h = sp_sys T /\ C.hl_hold h = u16 (sp_hold T) /\
    hello_verdict S f h = (if names T ft S f then A.Lists else A.NotLists) /\
    info_of_hello h = mkInfo (sp_sys T) (u32 (if_index ft)) [u32 (if_addr ft)].
Proof.
  intros S f T ft Hc Ha Hf Hnz Hp.
  destruct (hello_decodes T ft Hc Ha Hf) as (h & Hd & Hct & Hsys & Hhold & Htlvs).
  exists h. split; [exact Hd |]. split; [exact Hsys |]. split; [exact Hhold |].
  assert (Hv : hello_valid f h = true).
  { unfold hello_valid. rewrite Htlvs. cbn [first_tlv]. rewrite threeway_type.
    cbn [N.eqb C.tlv_type C.new_proto_tlv C.new_ipif_tlv C.new_area_tlv Pos.eqb].
    assert (H3 : exists a b c d e g, threeway_tlv ft = C.TP2PAdj a b c d e g).
    { unfold threeway_tlv, C.new_p2padj_tlv. destruct (p2p_neighbor ft) as [[k nb] |]; [| repeat eexists].
      destruct (A.state nb); [destruct (info_lookup k (if_info ft)) | destruct (info_lookup k (if_info ft)) |];
        repeat eexists. }
    destruct H3 as (a & b & c & d & e & g & H3). rewrite H3.
    cbn. rewrite Hp. reflexivity. }
  split.
  - unfold hello_verdict. rewrite Hct, Hv. cbn [N.eqb Pos.eqb orb negb].
    unfold lists_me, names. rewrite Htlvs. cbn [first_tlv]. rewrite threeway_type. cbn [N.eqb Pos.eqb].
    unfold threeway_tlv, C.new_p2padj_tlv.
    assert (Hz : (be_val C.zero6 =? be_val (sp_sys S)) = false).
    { apply N.eqb_neq. change (be_val C.zero6) with 0. auto. }
    destruct (p2p_neighbor ft) as [[k nb] |]; [| rewrite Hz; reflexivity].
    destruct (A.state nb); [destruct (info_lookup k (if_info ft)) as [i |] | destruct (info_lookup k (if_info ft)) as [i |] |];
      try (rewrite Hz; reflexivity); reflexivity.
  - unfold info_of_hello. rewrite Hsys, Htlvs. cbn [first_tlv]. rewrite threeway_type. cbn [N.eqb Pos.eqb].
    assert (He : match threeway_tlv ft with C.TP2PAdj _ _ _ ecid _ _ => u32 ecid | _ => 0 end = u32 (if_index ft)).
    { unfold threeway_tlv, C.new_p2padj_tlv. destruct (p2p_neighbor ft) as [[k nb] |].
      - destruct (A.state nb); try (unfold u32; rewrite N.mod_mod by discriminate; reflexivity);
          destruct (info_lookup k (if_info ft)); unfold u32; rewrite N.mod_mod by discriminate; reflexivity.
      - unfold u32; rewrite N.mod_mod by discriminate; reflexivity. }
    rewrite He. reflexivity.
Qed.

(* ------------------------------------------------------------------ two-speaker closure *)

Lemma service_keeps : forall s,
  sp_ifs (service s) = sp_ifs s /\ sp_sys (service s) = sp_sys s /\ sp_area (service s) = sp_area s /\
  sp_hold (service s) = sp_hold s /\ sp_now (service s) = sp_now s.
Proof.
  intros s. unfold service. destruct (L.pending (sync_db (sp_ifs s) (sp_db s))); simpl; auto.
Qed.

(* reception of a decodable hello on an interface whose link is up: the interface's neighbor table
   makes the step of Model/Adj.v with the verdict computed from the decoded TLVs *)
Lemma recv_hello_ifs : forall S i f src b hd h,
  nth_error (sp_ifs S) i = Some f -> if_up f = true ->
  C.decode b = C.Ok (C.mkPacket hd (C.BHello h)) ->
  let v := hello_verdict S f h in
  let S' := recv_pdu S i src b in
  sp_ifs S' = set_nth i
    (mkSif (if_index f) (if_addr f) (if_plen f) (if_up f)
       (fst (adj_hello (sp_now S) (if_nbrs f) src (u16 (C.hl_hold h)) v))
       (if match v, A.lookup src (if_nbrs f) with
           | A.Lists, None | A.NotLists, None => true
           | _, _ => false
           end then (src, info_of_hello h) :: if_info f else if_info f)) (sp_ifs S) /\
  sp_sys S' = sp_sys S /\ sp_area S' = sp_area S /\ sp_hold S' = sp_hold S /\ sp_now S' = sp_now S.
Proof.
  intros S i f src b hd h Hn Hu Hd v S'. unfold S', recv_pdu. rewrite Hn, Hu, Hd.
  cbn [C.p_body recv_body]. fold v.
  destruct (adj_hello (sp_now S) (if_nbrs f) src (u16 (C.hl_hold h)) v) as [t' req] eqn:Ea.
  match goal with |- context [service ?x] => destruct (service_keeps x) as (H1 & H2 & H3 & H4 & H5) end.
  rewrite H1, H2, H3, H4, H5. cbn [fst]. rewrite ?Hu. repeat split; reflexivity.
Qed.

Definition link_compat (f g : sif) : Prop :=
  if_addr f < 4294967296 /\ if_addr g < 4294967296 /\
  pfx_contains (if_addr f) (if_plen f) (if_addr g) = true /\
  pfx_contains (if_addr g) (if_plen g) (if_addr f) = true.

Definition nbr_state (s : spk) (k : N) : option A.adj_state :=
  match sp_ifs s with
  | [f] => match A.lookup k (if_nbrs f) with Some nb => Some (A.state nb) | None => None end
  | _ => None
  end.

Definition hello_of_first (s : spk) : list N :=
  match sp_ifs s with f :: _ => hello_bytes s f | [] => [] end.

(* Two freshly started speakers on one link, each fed the hello bytes the other one emits: after
   two hellos in each direction both adjacencies are Up (the three-way handshake closes over the wire). *)
Theorem two_speaker_closure : forall SA SB fa fb ma mb,
  cfg_ok SA -> cfg_ok SB -> area_ok SA -> area_ok SB ->
  be_val (sp_sys SA) <> 0 -> be_val (sp_sys SB) <> 0 ->
  sp_ifs SA = [fa] -> sp_ifs SB = [fb] -> if_up fa = true -> if_up fb = true ->
  if_nbrs fa = [] -> if_nbrs fb = [] -> link_compat fa fb ->
  let B1 := recv_pdu SB 0 ma (hello_of_first SA) in
  let A1 := recv_pdu SA 0 mb (hello_of_first B1) in
  let B2 := recv_pdu B1 0 ma (hello_of_first A1) in
  let A2 := recv_pdu A1 0 mb (hello_of_first B2) in
  nbr_state B1 ma = Some A.Init /\ nbr_state A1 mb = Some A.Init /\
  nbr_state B2 ma = Some A.Up /\ nbr_state A2 mb = Some A.Up.
Proof.
  intros SA SB fa fb ma mb HcA HcB HaA HaB HzA HzB HiA HiB HuA HuB HnA HnB (Hra & Hrb & Hpab & Hpba) B1 A1 B2 A2.
  (* --- hello 1: A -> B, A has no neighbor *)
  assert (HokA0 : if_ok SA fa).
  { split; [exact Hra |]. intros k nb i Hp. unfold p2p_neighbor in Hp. rewrite HnA in Hp. discriminate. }
  destruct (verdict_of_emitted SB fb SA fa HcA HaA HokA0 HzB Hpba) as (h1 & Hd1 & Hs1 & Hh1 & Hv1 & Hi1).
  assert (Hn1 : names SA fa SB fb = false) by (unfold names, p2p_neighbor; rewrite HnA; reflexivity).
  rewrite Hn1 in Hv1.
  assert (HfB : nth_error (sp_ifs SB) 0 = Some fb) by (rewrite HiB; reflexivity).
  destruct (recv_hello_ifs SB 0%nat fb ma (hello_of_first SA) hdr_hello h1 HfB HuB) as (HB1 & HB1s & HB1a & HB1h & HB1n).
  { unfold hello_of_first. rewrite HiA. exact Hd1. }
  fold B1 in HB1, HB1s, HB1a, HB1h, HB1n.
  rewrite Hv1, HnB, HiB in HB1. cbn [A.lookup set_nth] in HB1.
  unfold adj_hello in HB1. cbn [A.step A.on_hello A.nbrs A.lookup A.update fst A.now] in HB1.
  rewrite Hi1, Hh1 in HB1.
  set (fb1 := mkSif (if_index fb) (if_addr fb) (if_plen fb) (if_up fb)
                [(ma, A.mkNbr A.Init (sp_now SB + u16 (u16 (sp_hold SA))) (sp_now SB))]
                ((ma, mkInfo (sp_sys SA) (u32 (if_index fa)) [u32 (if_addr fa)]) :: if_info fb)) in *.
  (* --- hello 2: B1 -> A, B1 names A (Init) *)
  assert (HcB1 : cfg_ok B1) by (unfold cfg_ok; rewrite HB1s; exact HcB).
  assert (HaB1 : area_ok B1) by (unfold area_ok; rewrite HB1a; exact HaB).
  assert (HokB1 : if_ok B1 fb1).
  { split; [exact Hrb |]. intros k nb i Hp Hl. unfold p2p_neighbor in Hp. cbn in Hp. injection Hp as Hk _. subst k.
    cbn in Hl. rewrite N.eqb_refl in Hl. injection Hl as Hl. subst i. split; [exact HcA | apply u32_lt]. }
  destruct (verdict_of_emitted SA fa B1 fb1 HcB1 HaB1 HokB1 HzA Hpab) as (h2 & Hd2 & Hs2 & Hh2 & Hv2 & Hi2).
  assert (Hn2 : names B1 fb1 SA fa = true).
  { unfold names, p2p_neighbor. cbn. rewrite N.eqb_refl. cbn. rewrite N.eqb_refl, HcA. cbn.
    unfold u32. rewrite N.mod_mod by discriminate. rewrite N.eqb_refl. reflexivity. }
  rewrite Hn2 in Hv2.
  assert (HfA : nth_error (sp_ifs SA) 0 = Some fa) by (rewrite HiA; reflexivity).
  destruct (recv_hello_ifs SA 0%nat fa mb (hello_of_first B1) hdr_hello h2 HfA HuA) as (HA1 & HA1s & HA1a & HA1h & HA1n).
  { unfold hello_of_first. rewrite HB1. exact Hd2. }
  fold A1 in HA1, HA1s, HA1a, HA1h, HA1n.
  rewrite Hv2, HnA, HiA in HA1. cbn [A.lookup set_nth] in HA1.
  unfold adj_hello in HA1. cbn [A.step A.on_hello A.nbrs A.lookup A.update fst A.now] in HA1.
  rewrite Hi2, Hh2 in HA1.
  set (fa1 := mkSif (if_index fa) (if_addr fa) (if_plen fa) (if_up fa)
                [(mb, A.mkNbr A.Init (sp_now SA + u16 (u16 (sp_hold B1))) (sp_now SA))]
                ((mb, mkInfo (sp_sys B1) (u32 (if_index fb1)) [u32 (if_addr fb1)]) :: if_info fa)) in *.
  (* --- hello 3: A1 -> B1, A1 names B *)
  assert (HcA1 : cfg_ok A1) by (unfold cfg_ok; rewrite HA1s; exact HcA).
  assert (HaA1 : area_ok A1) by (unfold area_ok; rewrite HA1a; exact HaA).
  assert (HokA1 : if_ok A1 fa1).
  { split; [exact Hra |]. intros k nb i Hp Hl. unfold p2p_neighbor in Hp. cbn in Hp. injection Hp as Hk _. subst k.
    cbn in Hl. rewrite N.eqb_refl in Hl. injection Hl as Hl. subst i. split; [rewrite HB1s; exact HcB | apply u32_lt]. }
  assert (HzB1 : be_val (sp_sys B1) <> 0) by (rewrite HB1s; exact HzB).
  assert (Hpba1 : pfx_contains (if_addr fb1) (if_plen fb1) (if_addr fa1) = true) by exact Hpba.
  destruct (verdict_of_emitted B1 fb1 A1 fa1 HcA1 HaA1 HokA1 HzB1 Hpba1) as (h3 & Hd3 & Hs3 & Hh3 & Hv3 & Hi3).
  assert (Hn3 : names A1 fa1 B1 fb1 = true).
  { unfold names, p2p_neighbor. cbn. rewrite N.eqb_refl. cbn. rewrite N.eqb_refl, HB1s, HcB. cbn.
    unfold u32. rewrite N.mod_mod by discriminate. rewrite N.eqb_refl. reflexivity. }
  rewrite Hn3 in Hv3.
  assert (HfB1 : nth_error (sp_ifs B1) 0 = Some fb1) by (rewrite HB1; reflexivity).
  destruct (recv_hello_ifs B1 0%nat fb1 ma (hello_of_first A1) hdr_hello h3 HfB1 HuB) as (HB2 & HB2s & _).
  { unfold hello_of_first. rewrite HA1. exact Hd3. }
  fold B2 in HB2, HB2s.
  rewrite Hv3, HB1 in HB2. cbn [if_nbrs fb1 A.lookup set_nth] in HB2. rewrite N.eqb_refl in HB2.
  unfold adj_hello in HB2. cbn [A.step] in HB2. unfold A.on_hello, A.hello_existing in HB2.
  cbn [A.nbrs A.lookup A.now A.state A.is_up negb andb fst snd] in HB2. rewrite N.eqb_refl in HB2.
  cbn [A.state A.is_up negb andb A.update fst snd A.nbrs] in HB2. rewrite N.eqb_refl in HB2.
  (* --- hello 4: B2 -> A1, B2 names A (Up) *)
  set (fb2 := mkSif (if_index fb1) (if_addr fb1) (if_plen fb1) (if_up fb1)
                [(ma, A.mkNbr A.Up (sp_now B1 + u16 (C.hl_hold h3)) (sp_now B1))] (if_info fb1)) in *.
  assert (HcB2 : cfg_ok B2) by (unfold cfg_ok; rewrite HB2s, HB1s; exact HcB).
  assert (HaB2 : area_ok B2).
  { unfold area_ok. destruct (recv_hello_ifs B1 0%nat fb1 ma (hello_of_first A1) hdr_hello h3 HfB1 HuB) as (_ & _ & Ha' & _).
    { unfold hello_of_first. rewrite HA1. exact Hd3. }
    fold B2 in Ha'. rewrite Ha', HB1a. exact HaB. }
  assert (HokB2 : if_ok B2 fb2).
  { split; [exact Hrb |]. intros k nb i Hp Hl. unfold p2p_neighbor in Hp. cbn in Hp. injection Hp as Hk _. subst k.
    cbn in Hl. rewrite N.eqb_refl in Hl. injection Hl as Hl. subst i. split; [exact HcA | apply u32_lt]. }
  assert (HzA1 : be_val (sp_sys A1) <> 0) by (rewrite HA1s; exact HzA).
  assert (Hpab1 : pfx_contains (if_addr fa1) (if_plen fa1) (if_addr fb2) = true) by exact Hpab.
  destruct (verdict_of_emitted A1 fa1 B2 fb2 HcB2 HaB2 HokB2 HzA1 Hpab1) as (h4 & Hd4 & Hs4 & Hh4 & Hv4 & Hi4).
  assert (Hn4 : names B2 fb2 A1 fa1 = true).
  { unfold names, p2p_neighbor, fb2, fb1. repeat (progress (cbn; rewrite ?N.eqb_refl)).
    rewrite HA1s, HcA. repeat (progress (cbn; rewrite ?N.eqb_refl)).
    unfold u32. rewrite N.mod_mod by discriminate. rewrite N.eqb_refl. reflexivity. }
  rewrite Hn4 in Hv4.
  assert (HfA1 : nth_error (sp_ifs A1) 0 = Some fa1) by (rewrite HA1; reflexivity).
  destruct (recv_hello_ifs A1 0%nat fa1 mb (hello_of_first B2) hdr_hello h4 HfA1 HuA) as (HA2 & _).
  { unfold hello_of_first. rewrite HB2. exact Hd4. }
  fold A2 in HA2.
  rewrite Hv4, HA1 in HA2. cbn [if_nbrs fa1 A.lookup set_nth] in HA2. rewrite N.eqb_refl in HA2.
  unfold adj_hello in HA2. cbn [A.step] in HA2. unfold A.on_hello, A.hello_existing in HA2.
  cbn [A.nbrs A.lookup A.now A.state A.is_up negb andb fst snd] in HA2. rewrite N.eqb_refl in HA2.
  cbn [A.state A.is_up negb andb A.update fst snd A.nbrs] in HA2. rewrite N.eqb_refl in HA2.
  (* --- conclusion *)
  unfold nbr_state. rewrite HB1, HA1, HB2, HA2. unfold fb2, fb1, fa1.
  cbn [if_nbrs A.lookup A.state]. rewrite !N.eqb_refl. cbn. repeat split; reflexivity.
Qed.
