(* C14, configuration front end: the chains built by the loader have the documented semantics. *)
From Coq Require Import List NArith Bool Lia.
Import ListNotations.
From BioVerif Require Import Model.Policy Model.PolicyConfig Spec.PolicyRef Spec.PolicyConfigSpec.
From BioVerif Require Import Proofs.PolicyProofs Proofs.PolicySim.
Local Open Scope N_scope.

Lemma map_opt_nil_iff {A B : Type} (f : A -> option B) l l' :
  map_opt f l = Some l' -> is_nil l' = is_nil l.
Proof.
  destruct l as [| x l]; simpl.
  - intros H. inversion H. reflexivity.
  - destruct (f x); [| discriminate]. destruct (map_opt f l); [| discriminate].
    intros H. inversion H. reflexivity.
Qed.

Lemma rfs_ref env p : forall l rfs,
  map_opt to_rf l = Some rfs ->
  existsb (fun f => m_ref (rf_m f) (env (rf_pat f)) p) rfs = existsb (crf_ref env p) l.
Proof.
  induction l as [| x l IH]; simpl; intros rfs H.
  - inversion H. reflexivity.
  - destruct (to_rf x) as [y |] eqn:Ex; [| discriminate].
    destruct (map_opt to_rf l) as [ys |] eqn:El; [| discriminate].
    inversion H. subst rfs. simpl. rewrite (IH ys eq_refl). f_equal.
    unfold to_rf in Ex. destruct (negb (crf_ok x)); [discriminate |].
    unfold crf_ref. destruct (crf_m x) as [m |]; [| discriminate]. inversion Ex. reflexivity.
Qed.

Lemma seq_ref_app_continue (l1 l2 : list action) a a1 :
  seq_ref act_ref l1 a = (a1, Continue) -> seq_ref act_ref (l1 ++ l2) a = seq_ref act_ref l2 a1.
Proof.
  revert a. induction l1 as [| x l1 IH]; simpl; intros a H.
  - inversion H. reflexivity.
  - destruct (act_ref x a) as [a' v]. destruct v; try discriminate. apply IH. exact H.
Qed.

Lemma seq_ref_single x a : seq_ref act_ref [x] a = act_ref x a.
Proof. simpl. destruct (act_ref x a) as [a' v]. destruct v; reflexivity. Qed.

(* appending one rewriting action to a list of actions that did not terminate *)
Lemma seq_ref_snoc_rewrite l x a a1 :
  seq_ref act_ref l a = (a1, Continue) -> snd (act_ref x a1) = Continue ->
  seq_ref act_ref (l ++ [x]) a = (fst (act_ref x a1), Continue).
Proof.
  intros H Hx. rewrite (seq_ref_app_continue l [x] a a1 H), seq_ref_single.
  destruct (act_ref x a1) as [a' v]. simpl in *. subst v. reflexivity.
Qed.

Lemma term_ok env p t tm a :
  to_term t = Some tm -> term_ref env p tm a = cterm_ref env p t a.
Proof.
  unfold to_term. destruct (map_opt to_rf (ct_rfs t)) as [rfs |] eqn:Erf; [| discriminate].
  set (conds := if is_nil rfs then [] else [mkCond [] rfs [] [] []]).
  set (th := ct_then t).
  assert (Happ : part (fun c => cond_ref env c p a) conds = is_nil (ct_rfs t) || existsb (crf_ref env p) (ct_rfs t)).
  { unfold conds. rewrite <- (map_opt_nil_iff _ _ _ Erf), <- (rfs_ref env p _ _ Erf).
    destruct rfs as [| f0 fs]; [reflexivity |].
    cbn [is_nil part existsb orb]. unfold cond_ref. cbn [c_pls c_rfs c_cfs c_lcfs c_protos part].
    rewrite !andb_true_r, orb_false_r. reflexivity. }
  assert (Hact : forall acts,
    (acts = (let a1 := if th_reject th then [AReject] else [] in
            let a2 := match th_lp th with Some v => a1 ++ [ASetLocalPref v] | None => a1 end in
            let a3 := match th_med th with Some v => a2 ++ [ASetMED v] | None => a2 end in
            let a4 := match th_pp th with Some (asn, n) => a3 ++ [APrepend asn n] | None => a3 end in
            let a5 := match th_nh th with Some (Some nh) => a4 ++ [ASetNextHop nh] | _ => a4 end in
            if th_accept th then a5 ++ [AAccept] else a5)) ->
    th_nh th <> Some None ->
    seq_ref act_ref acts a = then_ref th a).
  { intros acts -> Hnh. unfold then_ref, opt_act.
    destruct (th_reject th).
    - (* reject first: everything after it is dead *)
      destruct (th_lp th), (th_med th), (th_pp th) as [[? ?] |], (th_nh th) as [[? |] |], (th_accept th);
        try congruence; reflexivity.
    - destruct (th_lp th), (th_med th), (th_pp th) as [[? ?] |], (th_nh th) as [[? |] |], (th_accept th);
        try congruence; reflexivity. }
  destruct (th_nh th) as [[nh |] |] eqn:Enh; try discriminate; intros H; inversion H; subst tm;
    unfold term_ref, cterm_ref; cbn [t_from t_then]; rewrite Happ;
    destruct (is_nil (ct_rfs t) || existsb (crf_ref env p) (ct_rfs t)); try reflexivity;
    apply Hact; fold th; rewrite ?Enh; try congruence;
    destruct (th_accept th); reflexivity.
Qed.

Lemma filter_ok env p : forall ts f a,
  map_opt to_term ts = Some f -> filter_ref env p f a = seq_ref (cterm_ref env p) ts a.
Proof.
  unfold filter_ref. induction ts as [| t ts IH]; simpl; intros f a H.
  - inversion H. reflexivity.
  - destruct (to_term t) as [tm |] eqn:Et; [| discriminate].
    destruct (map_opt to_term ts) as [f' |] eqn:Ef; [| discriminate].
    inversion H. subst f. cbn [seq_ref]. rewrite (term_ok env p t tm a Et).
    destruct (cterm_ref env p t a) as [a' v]. destruct v; auto.
Qed.

Lemma get_filter_ok env p name : forall stmts fs f a,
  load_statements stmts = Some fs -> get_filter name fs = Some f ->
  filter_ref env p f a = cstmt_ref env p stmts name a.
Proof.
  unfold load_statements, cstmt_ref. induction stmts as [| s stmts IH]; simpl; intros fs f a H G.
  - inversion H. subst fs. discriminate.
  - destruct (to_filter s) as [fl |] eqn:Es; [| discriminate].
    destruct (map_opt _ stmts) as [fs' |] eqn:El; [| discriminate].
    inversion H. subst fs. simpl in G. destruct (cs_name s =? name).
    + inversion G. subst fl. apply filter_ok. exact Es.
    + apply (IH fs' f a eq_refl G).
Qed.

Lemma build_chain_ok env p stmts fs : load_statements stmts = Some fs ->
  forall names c a, build_chain fs names = Some c ->
  chain_ref env c p a = policy_ref env stmts names p a.
Proof.
  intros L. unfold build_chain, chain_ref, policy_ref.
  assert (H : forall names c a, map_opt (fun n => get_filter n fs) names = Some c ->
            seq_ref (filter_ref env p) c a = seq_ref (cstmt_ref env p stmts) names a).
  { induction names as [| n names IH]; simpl; intros c a H.
    - inversion H. reflexivity.
    - destruct (get_filter n fs) as [f |] eqn:G; [| discriminate].
      destruct (map_opt _ names) as [c' |] eqn:E; [| discriminate].
      inversion H. subst c. cbn [seq_ref]. rewrite (get_filter_ok env p n stmts fs f a L G).
      destruct (cstmt_ref env p stmts n a) as [a' v]. destruct v; auto. }
  intros names c a B. rewrite (H names c a B). reflexivity.
Qed.

(* the two chains the loader attaches to the neighbor mean what the configuration says *)
Theorem load_cfg_ok cf ci ce :
  load_cfg cf = Some (ci, ce) ->
  forall env p a,
    chain_ref env ci p a = policy_ref env (cfg_stmts cf) (import_names cf) p a /\
    chain_ref env ce p a = policy_ref env (cfg_stmts cf) (export_names cf) p a.
Proof.
  unfold load_cfg, import_names, export_names.
  destruct (load_statements (cfg_stmts cf)) as [fs |] eqn:L; [| discriminate].
  destruct (build_chain fs (cfg_gimport cf)) as [gi |] eqn:B1; [| discriminate].
  destruct (build_chain fs (cfg_gexport cf)) as [ge |] eqn:B2; [| discriminate].
  destruct (build_chain fs (cfg_nimport cf)) as [ni |] eqn:B3; [| discriminate].
  destruct (build_chain fs (cfg_nexport cf)) as [ne |] eqn:B4; [| discriminate].
  intros H env p a. inversion H. split.
  - destruct (is_nil (cfg_nimport cf)); apply (build_chain_ok env p _ fs L); assumption.
  - destruct (is_nil (cfg_nexport cf)); apply (build_chain_ok env p _ fs L); assumption.
Qed.

(* ... and Chain.Process on them computes it (imp = true: import chain, false: export chain) *)
Theorem config_chain_semantics cf ci ce :
  load_cfg cf = Some (ci, ce) ->
  forall (imp : bool) env p st r v,
    let c := if imp then ci else ce in
    let names := if imp then import_names cf else export_names cf in
    chain_wfb env c = true -> prefix_wfb p = true -> path_wfb v = true -> nth_error st r = Some v ->
    exists st' r',
      process env c p st r = Ok (st', r', snd (policy_ref env (cfg_stmts cf) names p v)) /\
      nth_error st' r' = Some (fst (policy_ref env (cfg_stmts cf) names p v)) /\
      (length st <= r')%nat /\
      (forall k, (k < length st)%nat -> nth_error st' k = nth_error st k).
Proof.
  intros L imp env p st r v c names Wc Wp Wv Hn.
  destruct (load_cfg_ok cf ci ce L env p v) as [Hi He].
  destruct imp; subst c names; [rewrite <- Hi | rewrite <- He]; apply process_ref; assumption.
Qed.
