(* Pipeline: facts about the concrete instance used by the examples of Properties/Pipeline.v. *)
From Coq Require Import List NArith ZArith Bool Arith Lia Permutation.
Import ListNotations.
From BioVerif Require Import Model.Pipeline Spec.PipelineSpec.
From BioVerif Require Proofs.PipelineLoc.
From BioVerif Require Model.AdjRIBIn Model.AdjRIBOut Model.LocRIBClients Model.UpdateSender Model.LocView
  Spec.LocRIBClientsSpec Spec.ExportViewSpec Spec.UpdateSenderSpec Proofs.ExportViewD.
Local Open Scope nat_scope.

Lemma ins_lp_perm : forall e l, Permutation (ins_lp e l) (e :: l).
Proof.
  intros e l. induction l as [|x l IH]; cbn [ins_lp]; [reflexivity|].
  destruct (N.ltb (lp_of (snd x)) (lp_of (snd e))); [reflexivity|].
  eapply Permutation_trans; [apply perm_skip, IH|apply perm_swap].
Qed.

Lemma ex_sel_ok : LocRIBClientsSpec.sel_ok AdjRIBOut.path ex_sel.
Proof.
  intros t l. unfold ex_sel. cbn [fst snd]. split; [|apply Nat.le_min_r].
  induction l as [|e l IH]; cbn [fold_right]; [reflexivity|].
  eapply Permutation_trans; [apply ins_lp_perm|]. now apply perm_skip.
Qed.

(* the witness of the known finding addpath-duplicate-export-withdrawn-while-copy-remains *)
Lemma refuted_duplicate :
  let s := ex_sess_at dup_state 1 in
  let c := nth 1 dup_cfgs (ex_scfg true false 0 0 (fun _ _ => None)) in
  ss_up AdjRIBOut.chain s = true /\ drained AdjRIBOut.chain s = true /\
  AdjRIBOut.errs (ss_out AdjRIBOut.chain s) = 0%N /\
  keyed_table AdjRIBOut.chain ex_tagf (sc_us AdjRIBOut.chain c) (ss_out AdjRIBOut.chain s) 0%N 1%N = Some 167772379303809%N /\
  peer_view AdjRIBOut.chain s 0%N 1%N = None /\
  ~ log_tracks_table AdjRIBOut.chain ex_tagf (sc_us AdjRIBOut.chain c) (ss_out AdjRIBOut.chain s).
Proof.
  cbv zeta.
  assert (K : keyed_table AdjRIBOut.chain ex_tagf
                (sc_us AdjRIBOut.chain (nth 1 dup_cfgs (ex_scfg true false 0 0 (fun _ _ => None))))
                (ss_out AdjRIBOut.chain (ex_sess_at dup_state 1)) 0%N 1%N = Some 167772379303809%N) by (vm_compute; reflexivity).
  repeat split; try (vm_compute; reflexivity).
  intros H. specialize (H 0%N 1%N). rewrite K in H. vm_compute in H. discriminate.
Qed.

(* ------------------------------------------------------------------ the hypotheses of the end-to-end theorems hold on the
   example: the listener (session 2) after both clients announced and its sender was drained *)
Notation ex_st1 := (run AdjRIBOut.chain AdjRIBOut.interp ex_sel ex_tagf ex_cfgs (ex_evs1 ++ ex_drain2a)).
Definition ex_s2 := ex_sess_at ex_st1 2.
Definition ex_c2 := ex_scfg true false 65000%N 167772163%N (AdjRIBIn.sample_policy 0 0).

Lemma ex_guards_hold : ExportViewSpec.guards (AdjRIBOut.interp (sc_exp _ ex_c2)) (sc_sess _ ex_c2) (ss_hist _ ex_s2).
Proof.
  set (h := ss_hist _ ex_s2). vm_compute in h.
  constructor.
  - apply ExportViewD.transparent_ibgp_nonclient; reflexivity.
  - intros pfx l p HI HP. subst h. cbn [In] in HI.
    repeat (destruct HI as [HI|HI]; [inversion HI; subst; cbn [In] in HP;
      repeat (destruct HP as [HP|HP]; [subst; eauto|]); destruct HP|]). destruct HI.
  - intros HA. discriminate HA.
  - intros HA. discriminate HA.
  - intros pfx l HI. subst h. cbn [In] in HI.
    repeat (destruct HI as [HI|HI]; [inversion HI; subst; repeat constructor; cbn; intuition discriminate|]). destruct HI.
  - intros _ pfx l HI. subst h. cbn [In] in HI.
    repeat (destruct HI as [HI|HI]; [inversion HI; subst; cbn; lia|]). destruct HI.
  - intros pfx r b q H. eapply ExportViewD.interp_bgp; eassumption.
Qed.

Section C10Guards.
  Import UpdateSender UpdateSenderSpec.

  Lemma ex_c10_guards :
    let ls := rev (ss_lab _ ex_s2) in
    client_protocol (sc_us _ ex_c2) ls /\ hash_faithful (sc_us _ ex_c2) ls /\ all_fit (sc_us _ ex_c2) ls /\
    no_withdraw_in_flight (sc_us _ ex_c2) ls.
  Proof.
    cbv zeta. set (ls := rev (ss_lab _ ex_s2)). vm_compute in ls. subst ls.
    split; [cbn; auto 12|]. split.
    { cbn. repeat split; try tauto;
        intros e He Hk;
        repeat (destruct He as [He|He]; [subst e; cbn in Hk |- *; first [reflexivity | discriminate]|]);
        try contradiction. }
    split.
    { cbn. repeat split; unfold fits; vm_compute; discriminate. }
    cbn. repeat split; try tauto.
  Qed.

  Lemma ex_log_tracks : log_tracks_table _ ex_tagf (sc_us _ ex_c2) (ss_out _ ex_s2).
  Proof.
    intros p pid. unfold keyed_table, client_calls.
    set (el := AdjRIBOut.elog (ss_out _ ex_s2)). vm_compute in el.
    set (tb := AdjRIBOut.tbl (ss_out _ ex_s2)). vm_compute in tb.
    subst el tb. unfold AdjRIBOut.tbl_get. cbn [rev app map lab_of filter fst snd].
    unfold adj_rib_out. cbn [fold_left rib_step]. unfold rib_upd, rib_empty. rewrite !PipelineLoc.upfx_eqb.
    change (wpid (sc_us AdjRIBOut.chain ex_c2)) with (fun _ : path => 0%N). cbv beta.
    rewrite (N.eqb_sym 1 p).
    destruct (N.eqb p 1) eqn:E1; cbn [andb filter map rev app find]; [|now destruct (N.eqb pid 0)].
    rewrite (N.eqb_sym 0 pid). destruct (N.eqb pid 0) eqn:E2; cbn; reflexivity.
  Qed.
End C10Guards.

Lemma ex_state_facts :
  locrib_paths_distinct _ ex_st1 /\ nth_error ex_cfgs 2 = Some ex_c2 /\ nth_error (ps_sess _ ex_st1) 2 = Some ex_s2 /\
  ss_up _ ex_s2 = true /\ AdjRIBOut.errs (ss_out _ ex_s2) = 0%N /\ drained _ ex_s2 = true.
Proof.
  split; [vm_compute; repeat constructor; cbn; intuition discriminate|].
  split; [vm_compute; reflexivity|]. split; [vm_compute; reflexivity|]. split; [vm_compute; reflexivity|].
  split; vm_compute; reflexivity.
Qed.
