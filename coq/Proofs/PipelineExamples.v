(* Pipeline: facts about the concrete instance used by the examples of Properties/Pipeline.v. *)
From Coq Require Import List NArith Bool Arith Lia Permutation.
Import ListNotations.
From BioVerif Require Import Model.Pipeline Spec.PipelineSpec.
From BioVerif Require Model.AdjRIBOut Model.LocRIBClients Model.UpdateSender Spec.LocRIBClientsSpec Spec.UpdateSenderSpec.
Local Open Scope nat_scope.

Lemma ins_lp_perm : forall e l, Permutation (ins_lp e l) (e :: l).
Proof.
  intros e l. induction l as [|x l IH]; cbn [ins_lp]; [reflexivity|].
  destruct (N.ltb (lp_of (snd x)) (lp_of (snd e))); [reflexivity|].
  eapply Permutation_trans; [apply perm_skip, IH|apply perm_swap].
Qed.

Lemma ex_sel_ok : LocRIBClientsSpec.sel_ok AdjRIBOut.path ex_sel.
Proof.
  intros t l. unfold ex_sel. cbn [fst snd]. split; [|apply Nat.le_min_r].
  induction l as [|e l IH]; cbn [fold_right]; [reflexivity|].
  eapply Permutation_trans; [apply ins_lp_perm|]. now apply perm_skip.
Qed.

(* the witness of the known finding addpath-duplicate-export-withdrawn-while-copy-remains *)
Lemma refuted_duplicate :
  let s := ex_sess_at dup_state 1 in
  let c := nth 1 dup_cfgs (ex_scfg true false 0 0 (fun _ _ => None)) in
  ss_up AdjRIBOut.chain s = true /\ drained AdjRIBOut.chain s = true /\
  AdjRIBOut.errs (ss_out AdjRIBOut.chain s) = 0%N /\
  keyed_table AdjRIBOut.chain ex_tagf (sc_us AdjRIBOut.chain c) (ss_out AdjRIBOut.chain s) 0%N 1%N = Some 167772379303809%N /\
  peer_view AdjRIBOut.chain s 0%N 1%N = None /\
  ~ log_tracks_table AdjRIBOut.chain ex_tagf (sc_us AdjRIBOut.chain c) (ss_out AdjRIBOut.chain s).
Proof.
  cbv zeta.
  assert (K : keyed_table AdjRIBOut.chain ex_tagf
                (sc_us AdjRIBOut.chain (nth 1 dup_cfgs (ex_scfg true false 0 0 (fun _ _ => None))))
                (ss_out AdjRIBOut.chain (ex_sess_at dup_state 1)) 0%N 1%N = Some 167772379303809%N) by (vm_compute; reflexivity).
  repeat split; try (vm_compute; reflexivity).
  intros H. specialize (H 0%N 1%N). rewrite K in H. vm_compute in H. discriminate.
Qed.
