(* C15: bit-list lemmas relating Spec.NetSpec.bits to Z.testbit / div / compare. *)
From Coq Require Import ZArith Lia Bool List.
From BioVerif Require Import Lib.Word Lib.WordLemmas Model.NetArith Spec.NetSpec.
Import ListNotations.
Open Scope Z_scope.

(* ---------- generic list facts ---------- *)

Lemma firstn_eq_pointwise (l l' : list bool) (k : nat) :
  (k <= length l)%nat -> (k <= length l')%nat ->
  (firstn k l = firstn k l' <-> forall i, (i < k)%nat -> nth i l false = nth i l' false).
Proof.
  revert l l'. induction k as [|k IH]; intros l l' Hl Hl'.
  - cbn. split; [intros _ i Hi; lia | reflexivity].
  - destruct l as [|a l]; [cbn in Hl; lia|]. destruct l' as [|b l']; [cbn in Hl'; lia|].
    cbn [firstn]. cbn in Hl, Hl'. split.
    + intros E i Hi. injection E as E1 E2. destruct i as [|i]; [exact E1|].
      cbn. apply (proj1 (IH l l' ltac:(lia) ltac:(lia)) E2). lia.
    + intros E. f_equal.
      * apply (E O). lia.
      * apply IH; try lia. intros i Hi. apply (E (S i)). lia.
Qed.

Lemma list_eq_pointwise (l l' : list bool) :
  length l = length l' ->
  (l = l' <-> forall i, (i < length l)%nat -> nth i l false = nth i l' false).
Proof.
  intros HL.
  rewrite <- (firstn_all l) at 1. rewrite <- (firstn_all l') at 1. rewrite <- HL.
  apply firstn_eq_pointwise; lia.
Qed.

Lemma nth_repeat_false n i : nth i (repeat false n) false = false.
Proof. revert i; induction n; intros [|i]; cbn; auto. Qed.

Lemma skipn_zero_pointwise (l : list bool) (k : nat) :
  (skipn k l = repeat false (length l - k) <->
   forall i, (k <= i < length l)%nat -> nth i l false = false).
Proof.
  revert k. induction l as [|a l IH]; intros k.
  - cbn. rewrite skipn_nil. split; [intros _ i Hi; lia | reflexivity].
  - destruct k as [|k].
    + cbn [skipn length]. replace (S (length l) - 0)%nat with (S (length l)) by lia. cbn [repeat].
      specialize (IH O). cbn [skipn] in IH. rewrite Nat.sub_0_r in IH. split.
      * intros E i Hi. injection E as E1 E2. destruct i as [|i]; [exact E1|].
        cbn. apply (proj1 IH E2). lia.
      * intros E. f_equal; [apply (E O); lia|].
        apply IH. intros i Hi. apply (E (S i)). lia.
    + cbn [skipn length]. replace (S (length l) - S k)%nat with (length l - k)%nat by lia.
      rewrite IH. split.
      * intros E i Hi. destruct i as [|i]; [lia|]. cbn. apply E. lia.
      * intros E i Hi. apply (E (S i)). lia.
Qed.

Lemma length_keep_first k (l : list bool) : (k <= length l)%nat -> length (keep_first k l) = length l.
Proof. intros; unfold keep_first. rewrite app_length, firstn_length, repeat_length. lia. Qed.

Lemma nth_keep_first k (l : list bool) i :
  (k <= length l)%nat ->
  nth i (keep_first k l) false = if (i <? k)%nat then nth i l false else false.
Proof.
  intros Hk. unfold keep_first.
  destruct (Nat.ltb_spec i k) as [L | L].
  - rewrite app_nth1 by (rewrite firstn_length; lia).
    rewrite <- (firstn_skipn k l) at 2. rewrite app_nth1 by (rewrite firstn_length; lia). reflexivity.
  - rewrite app_nth2 by (rewrite firstn_length; lia). apply nth_repeat_false.
Qed.

Lemma lcp_ge_iff (l l' : list bool) (k : nat) :
  length l = length l' ->
  ((k <= lcp l l')%nat <-> (k <= length l)%nat /\ firstn k l = firstn k l').
Proof.
  revert l' k. induction l as [|a l IH]; intros l' k HL.
  - destruct l'; [|discriminate]. cbn. rewrite !firstn_nil. split; [intros; split; [lia | reflexivity] | lia].
  - destruct l' as [|b l']; [discriminate|]. cbn in HL. injection HL as HL.
    cbn [lcp length]. destruct k as [|k].
    + cbn. split; [intros _; split; [lia | reflexivity] | lia].
    + cbn [firstn]. destruct (Bool.eqb a b) eqn:E.
      * apply eqb_prop in E. subst b. rewrite <- Nat.succ_le_mono, (IH l' k HL). split.
        -- intros [H1 H2]; split; [lia | f_equal; exact H2].
        -- intros [H1 H2]; split; [lia | injection H2; auto].
      * split; [lia|]. intros [_ H2]. injection H2 as H2 _. subst b. rewrite eqb_reflx in E. discriminate.
Qed.

Lemma lcp_le_length (l l' : list bool) : (lcp l l' <= length l)%nat.
Proof.
  revert l'; induction l as [|a l IH]; intros [|b l']; cbn; try lia.
  destruct (Bool.eqb a b); [specialize (IH l') |]; lia.
Qed.

Lemma lex_cmp_app (l1 l1' l2 l2' : list bool) :
  length l1 = length l1' ->
  lex_cmp (l1 ++ l2) (l1' ++ l2') =
  match lex_cmp l1 l1' with Eq => lex_cmp l2 l2' | c => c end.
Proof.
  revert l1'. induction l1 as [|a l1 IH]; intros [|b l1'] HL; try discriminate.
  - reflexivity.
  - cbn in HL. injection HL as HL. cbn. destruct a, b; auto.
Qed.

(* ---------- bits ---------- *)

Lemma length_bits w a : length (bits w a) = w.
Proof. induction w; cbn; auto. Qed.

Lemma nth_bits w a i : (i < w)%nat -> nth i (bits w a) false = Z.testbit a (Z.of_nat (w - 1 - i)).
Proof.
  revert i. induction w as [|w IH]; intros i Hi; [lia|].
  cbn [bits]. destruct i as [|i].
  - cbn [nth]. f_equal. lia.
  - cbn [nth]. rewrite IH by lia. f_equal. lia.
Qed.

Lemma bits_mod w a : bits w (a mod 2 ^ Z.of_nat w) = bits w a.
Proof.
  apply list_eq_pointwise; [rewrite !length_bits; reflexivity|].
  rewrite length_bits. intros i Hi. rewrite !nth_bits by lia.
  apply Z.mod_pow2_bits_low. lia.
Qed.

(* the first k of w bits agree  <->  the values agree above bit w-k *)
Lemma firstn_bits_div (w k : nat) (a b : Z) :
  (k <= w)%nat -> 0 <= a < 2 ^ Z.of_nat w -> 0 <= b < 2 ^ Z.of_nat w ->
  (firstn k (bits w a) = firstn k (bits w b) <->
   a / 2 ^ (Z.of_nat w - Z.of_nat k) = b / 2 ^ (Z.of_nat w - Z.of_nat k)).
Proof.
  intros Hk Ha Hb.
  rewrite firstn_eq_pointwise by (rewrite length_bits; lia).
  rewrite (div_eq_bits (Z.of_nat w)) by lia. split.
  - intros E j Hj. specialize (E (w - 1 - Z.to_nat j)%nat ltac:(lia)).
    rewrite !nth_bits in E by lia.
    replace (Z.of_nat (w - 1 - (w - 1 - Z.to_nat j))) with j in E by lia. exact E.
  - intros E i Hi. rewrite !nth_bits by lia. apply E. lia.
Qed.

Lemma bits_inj (w : nat) (a b : Z) :
  0 <= a < 2 ^ Z.of_nat w -> 0 <= b < 2 ^ Z.of_nat w -> bits w a = bits w b -> a = b.
Proof.
  intros Ha Hb E.
  assert (F : firstn w (bits w a) = firstn w (bits w b)) by (rewrite E; reflexivity).
  apply firstn_bits_div in F; try lia.
  replace (Z.of_nat w - Z.of_nat w) with 0 in F by lia. rewrite !Z.div_1_r in F. exact F.
Qed.

(* the last w-k bits are zero  <->  value divisible by 2^(w-k) *)
Lemma skipn_bits_mod (w k : nat) (a : Z) :
  (k <= w)%nat -> 0 <= a ->
  (skipn k (bits w a) = repeat false (w - k) <-> a mod 2 ^ (Z.of_nat w - Z.of_nat k) = 0).
Proof.
  intros Hk Ha.
  rewrite <- (length_bits w a) at 2. rewrite skipn_zero_pointwise, length_bits.
  rewrite (mod_zero_bits (Z.of_nat w)) by lia. split.
  - intros E j Hj. specialize (E (w - 1 - Z.to_nat j)%nat ltac:(lia)).
    rewrite nth_bits in E by lia.
    replace (Z.of_nat (w - 1 - (w - 1 - Z.to_nat j))) with j in E by lia. exact E.
  - intros E i Hi. rewrite nth_bits by lia. apply E. lia.
Qed.

(* clearing the low w-k bits = keeping the first k bits *)
Lemma bits_clear_low (w k : nat) (a : Z) :
  (k <= w)%nat ->
  bits w (a / 2 ^ (Z.of_nat w - Z.of_nat k) * 2 ^ (Z.of_nat w - Z.of_nat k)) = keep_first k (bits w a).
Proof.
  intros Hk.
  apply list_eq_pointwise.
  - rewrite length_keep_first; rewrite !length_bits; lia.
  - rewrite length_bits. intros i Hi.
    rewrite nth_keep_first by (rewrite length_bits; lia).
    rewrite !nth_bits by lia. rewrite clear_low_bits by lia.
    destruct (Nat.ltb_spec i k) as [L | L].
    + destruct (Z.ltb_spec (Z.of_nat (w - 1 - i)) (Z.of_nat w - Z.of_nat k)); [lia | reflexivity].
    + destruct (Z.ltb_spec (Z.of_nat (w - 1 - i)) (Z.of_nat w - Z.of_nat k)); [reflexivity | lia].
Qed.

Lemma bits_zero w : bits w 0 = repeat false w.
Proof. induction w; cbn [bits repeat]; [reflexivity|]. rewrite IHw, Z.bits_0. reflexivity. Qed.

Lemma testbit_decomp (a : Z) (w : Z) : 0 <= w ->
  a mod 2 ^ (w + 1) = Z.b2z (Z.testbit a w) * 2 ^ w + a mod 2 ^ w.
Proof.
  intros Hw. rewrite Z.pow_add_r, Z.pow_1_r by lia.
  pose proof (pow2_pos w Hw).
  rewrite Z.rem_mul_r by lia. rewrite Z.testbit_spec' by lia. ring.
Qed.

(* numeric order = lexicographic order of the bits *)
Lemma lex_cmp_bits (w : nat) (a b : Z) :
  lex_cmp (bits w a) (bits w b) = (a mod 2 ^ Z.of_nat w ?= b mod 2 ^ Z.of_nat w).
Proof.
  induction w as [|w IH].
  - cbn. rewrite !Z.mod_1_r. reflexivity.
  - cbn [bits lex_cmp]. rewrite Nat2Z.inj_succ, <- Z.add_1_r.
    rewrite !testbit_decomp by lia.
    pose proof (Z.mod_pos_bound a (2 ^ Z.of_nat w) (pow2_pos (Z.of_nat w) ltac:(lia))) as Ba.
    pose proof (Z.mod_pos_bound b (2 ^ Z.of_nat w) (pow2_pos (Z.of_nat w) ltac:(lia))) as Bb.
    destruct (Z.testbit a (Z.of_nat w)), (Z.testbit b (Z.of_nat w)); cbn [Z.b2z].
    + rewrite IH. symmetry. rewrite Z.add_compare_mono_l. reflexivity.
    + symmetry. apply Z.compare_gt_iff. lia.
    + symmetry. apply Z.compare_lt_iff. lia.
    + rewrite IH. rewrite !Z.mul_0_l, !Z.add_0_l. reflexivity.
Qed.

(* ---------- ip_bits ---------- *)

Definition ipbit (a : ip) (i : nat) : bool :=
  if legacy a then Z.testbit (lo a) (Z.of_nat (31 - i))
  else if (i <? 64)%nat then Z.testbit (hi a) (Z.of_nat (63 - i))
  else Z.testbit (lo a) (Z.of_nat (127 - i)).

Lemma length_ip_bits a : length (ip_bits a) = Z.to_nat (width a).
Proof.
  unfold ip_bits, width. destruct (legacy a).
  - rewrite length_bits. reflexivity.
  - rewrite app_length, !length_bits. reflexivity.
Qed.

Lemma nth_ip_bits a i : (i < length (ip_bits a))%nat -> nth i (ip_bits a) false = ipbit a i.
Proof.
  rewrite length_ip_bits. unfold ip_bits, width, ipbit. destruct (legacy a); intros Hi.
  - rewrite nth_bits by lia. f_equal.
  - destruct (Nat.ltb_spec i 64) as [L | L].
    + rewrite app_nth1 by (rewrite length_bits; lia). rewrite nth_bits by lia. f_equal.
    + rewrite app_nth2 by (rewrite length_bits; lia). rewrite length_bits.
      rewrite nth_bits by lia. f_equal. lia.
Qed.
