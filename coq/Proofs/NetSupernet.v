(* C15 proofs, part 2: GetSupernet (the two loops), the trie's call precondition, and what the
   functions return outside it (uint8 wrap of supernetIPv4 at length 0, the /128 mask of
   supernetIPv6). *)
From Coq Require Import ZArith Lia Bool List.
From BioVerif Require Import Lib.Word Lib.WordLemmas Model.NetArith Spec.NetSpec
  Proofs.NetBits Proofs.NetProofs.
Import ListNotations.
Open Scope Z_scope.

(* ---------- lcp facts ---------- *)

Lemma lcp_differ (l l' : list bool) :
  length l = length l' -> (lcp l l' < length l)%nat ->
  nth (lcp l l') l false <> nth (lcp l l') l' false.
Proof.
  revert l'. induction l as [|a l IH]; intros [|b l'] HL Hlt; try discriminate; cbn in *; try lia.
  injection HL as HL. destruct (Bool.eqb a b) eqn:E.
  - apply IH; [exact HL | lia].
  - intros F. subst b. rewrite eqb_reflx in E. discriminate.
Qed.

Lemma lcp_sym (l l' : list bool) : lcp l l' = lcp l' l.
Proof.
  revert l'. induction l as [|a l IH]; intros [|b l']; cbn; try reflexivity.
  destruct a, b; cbn; try reflexivity; f_equal; apply IH.
Qed.

(* the value min(lcp, cap) is determined by: agreement up to k, disagreement right above k *)
Lemma min_lcp_char (l l' : list bool) (k cap : nat) :
  length l = length l' -> (cap <= length l)%nat -> (k <= cap)%nat ->
  firstn k l = firstn k l' ->
  ((k < cap)%nat -> firstn (S k) l <> firstn (S k) l') ->
  k = Nat.min (lcp l l') cap.
Proof.
  intros HL Hc Hk Hag Hdis.
  assert (K : (k <= lcp l l')%nat) by (apply lcp_ge_iff; [exact HL | split; [lia | exact Hag]]).
  destruct (Nat.eq_dec k cap) as [-> | Hne]; [lia|].
  assert (Hlt : (k < cap)%nat) by lia.
  assert (~ (S k <= lcp l l')%nat).
  { intros F. apply lcp_ge_iff in F; [|exact HL]. destruct F as [_ F]. exact (Hdis Hlt F). }
  lia.
Qed.

(* ---------- consequences the trie relies on (family independent) ---------- *)

Lemma firstn_keep_first (l : list bool) k j :
  (j <= k)%nat -> (k <= length l)%nat -> firstn j (keep_first k l) = firstn j l.
Proof.
  intros Hj Hk. unfold keep_first. rewrite firstn_app_le by (rewrite firstn_length; lia).
  rewrite firstn_firstn. f_equal. lia.
Qed.

Lemma skipn_keep_first (l : list bool) k :
  (k <= length l)%nat -> skipn k (keep_first k l) = repeat false (length l - k).
Proof.
  intros Hk. unfold keep_first. rewrite skipn_app_ge by (rewrite firstn_length; lia).
  rewrite firstn_length. replace (k - Nat.min k (length l))%nat with O by lia. reflexivity.
Qed.

Theorem supernet_consequences p x s :
  wf_pfx p -> wf_pfx x -> same_family (addr p) (addr x) -> same_family (addr s) (addr p) ->
  let k := lcp (pbits p) (pbits x) in
  (k < Z.to_nat (Z.min (plen p) (plen x)))%nat ->
  plen s = Z.of_nat k -> pbits s = supernet_bits k p ->
  contains_spec s p /\ contains_spec s x /\ valid_spec s /\
  bit_spec (addr p) (plen s + 1) <> bit_spec (addr x) (plen s + 1).
Proof.
  intros [Wp Lp] [Wx Lx] F Fs k Hk Ls Bs.
  assert (HLp : length (pbits p) = Z.to_nat (width (addr p))) by apply length_ip_bits.
  assert (HLx : length (pbits x) = Z.to_nat (width (addr x))) by apply length_ip_bits.
  assert (HW : width (addr x) = width (addr p)) by (unfold width; rewrite F; reflexivity).
  assert (HL : length (pbits p) = length (pbits x)) by (rewrite HLp, HLx, HW; reflexivity).
  assert (Hkl : (k <= length (pbits p))%nat) by apply lcp_le_length.
  assert (Hag : firstn k (pbits p) = firstn k (pbits x)).
  { assert (Hle : (k <= lcp (pbits p) (pbits x))%nat) by (unfold k; lia).
    apply (lcp_ge_iff _ _ k HL) in Hle. exact (proj2 Hle). }
  unfold supernet_bits in Bs.
  unfold contains_spec, valid_spec, plen_nat. rewrite Ls, Nat2Z.id, Bs.
  rewrite length_keep_first by lia.
  repeat split.
  - exact Fs.
  - lia.
  - apply firstn_keep_first; lia.
  - unfold same_family in *. congruence.
  - lia.
  - rewrite firstn_keep_first by lia. exact Hag.
  - apply skipn_keep_first; lia.
  - unfold bit_spec. destruct (Z.leb_spec (Z.of_nat k + 1) 0); [lia|].
    replace (Z.to_nat (Z.of_nat k + 1 - 1)) with k by lia.
    apply lcp_differ; [exact HL | change (k < length (pbits p))%nat; lia].
Qed.

(* ---------- the trie's call precondition ---------- *)

(* newSuperNode is reached only when the two prefixes are not Equal and neither Contains the
   other.  For canonical prefixes (no host bits) of one family this says exactly that their
   longest common prefix is shorter than both. *)
Theorem trie_precondition_iff p x :
  wf_pfx p -> wf_pfx x -> same_family (addr p) (addr x) ->
  Valid p = true -> Valid x = true ->
  ((pfx_equal p x = false /\ Contains p x = false /\ Contains x p = false) <->
   (lcp (pbits p) (pbits x) < Z.to_nat (Z.min (plen p) (plen x)))%nat).
Proof.
  intros Wp Wx F Vp Vx.
  pose proof (Equal_correct p x Wp Wx) as HE.
  pose proof (Contains_correct p x Wp Wx) as HC1.
  pose proof (Contains_correct x p Wx Wp) as HC2.
  apply (Valid_correct p Wp) in Vp. apply (Valid_correct x Wx) in Vx.
  assert (HLp : length (pbits p) = Z.to_nat (width (addr p))) by apply length_ip_bits.
  assert (HLx : length (pbits x) = Z.to_nat (width (addr x))) by apply length_ip_bits.
  assert (HW : width (addr x) = width (addr p)) by (unfold width; rewrite F; reflexivity).
  assert (HL : length (pbits p) = length (pbits x)) by (rewrite HLp, HLx, HW; reflexivity).
  destruct Wp as [Wp Lp], Wx as [Wx Lx].
  set (m := Z.to_nat (Z.min (plen p) (plen x))).
  split.
  - intros (NE & NC1 & NC2).
    destruct (Nat.lt_ge_cases (lcp (pbits p) (pbits x)) m) as [Hlt | Hge]; [exact Hlt | exfalso].
    apply (lcp_ge_iff _ _ m HL) in Hge. destruct Hge as [Hm Hag].
    destruct (Z.lt_trichotomy (plen p) (plen x)) as [L | [L | L]].
    + assert (Contains p x = true); [|congruence].
      apply HC1. unfold contains_spec, plen_nat. repeat split; auto.
      replace (Z.to_nat (plen p)) with m by (unfold m; lia). exact Hag.
    + assert (pfx_equal p x = true); [|congruence].
      apply HE. unfold equal_spec. repeat split; auto.
      unfold valid_spec, plen_nat in Vp, Vx.
      rewrite <- (firstn_skipn m (pbits p)), <- (firstn_skipn m (pbits x)).
      replace (Z.to_nat (plen p)) with m in Vp by (unfold m; lia).
      replace (Z.to_nat (plen x)) with m in Vx by (unfold m; lia).
      rewrite Vp, Vx, Hag, HL. reflexivity.
    + assert (Contains x p = true); [|congruence].
      apply HC2. unfold contains_spec, plen_nat.
      split; [unfold same_family in *; congruence | split; [lia|]].
      replace (Z.to_nat (plen x)) with m by (unfold m; lia). symmetry. exact Hag.
  - intros Hlt.
    assert (NAG : forall j, (m <= j)%nat -> (j <= length (pbits p))%nat ->
                            firstn j (pbits p) <> firstn j (pbits x)).
    { intros j Hj Hjl Hag. assert ((j <= lcp (pbits p) (pbits x))%nat); [|lia].
      apply lcp_ge_iff; auto. }
    assert (Wd : width (addr p) = 32 \/ width (addr p) = 128) by (unfold width; destruct (legacy (addr p)); auto).
    repeat split.
    + destruct (pfx_equal p x) eqn:E; [exfalso | reflexivity].
      destruct (proj1 HE eq_refl) as (_ & L & B).
      apply (NAG (Z.to_nat (plen p))); [unfold m; lia | lia | rewrite B; reflexivity].
    + destruct (Contains p x) eqn:E; [exfalso | reflexivity].
      destruct (proj1 HC1 eq_refl) as (_ & L & B).
      apply (NAG (Z.to_nat (plen p))); [unfold m; lia | lia | exact B].
    + destruct (Contains x p) eqn:E; [exfalso | reflexivity].
      destruct (proj1 HC2 eq_refl) as (_ & L & B).
      apply (NAG (Z.to_nat (plen x))); [unfold m; lia | lia | symmetry; exact B].
Qed.

(* ---------- supernetIPv4 ---------- *)

Lemma supernet4_loop_spec A B :
  0 <= A < 2 ^ 32 -> 0 <= B < 2 ^ 32 ->
  forall fuel k, 0 <= k <= 32 -> (Z.to_nat k < fuel)%nat ->
  exists k', supernet4_loop fuel (A / 2 ^ (32 - k)) (B / 2 ^ (32 - k)) k
             = Some (A / 2 ^ (32 - k'), k') /\
    0 <= k' <= k /\ A / 2 ^ (32 - k') = B / 2 ^ (32 - k') /\
    (forall j, k' < j <= k -> A / 2 ^ (32 - j) <> B / 2 ^ (32 - j)).
Proof.
  intros RA RB. induction fuel as [|f IH]; intros k Hk Hf; [lia|].
  cbn [supernet4_loop].
  destruct (Z.eqb_spec (A / 2 ^ (32 - k)) (B / 2 ^ (32 - k))) as [E | NE].
  - exists k. repeat split; auto; try lia.
  - assert (K1 : 1 <= k).
    { destruct (Z.eq_dec k 0) as [-> | ]; [|lia]. exfalso. apply NE.
      rewrite !Z.div_small by (cbn; lia). reflexivity. }
    assert (D : forall V, 0 <= V < 2 ^ 32 -> wshr 32 (V / 2 ^ (32 - k)) 1 = V / 2 ^ (32 - (k - 1))).
    { intros V RV. rewrite wshr_spec; [| lia |].
      - rewrite Z.div_div by (try apply Z.pow_pos_nonneg; lia).
        f_equal. replace (32 - (k - 1)) with (32 - k + 1) by lia.
        rewrite Z.pow_add_r by lia. reflexivity.
      - pose proof (div_pow2_range 32 V (32 - k) ltac:(lia) RV).
        pose proof (pow2_le (32 - (32 - k)) 32 ltac:(lia)). lia. }
    rewrite (D A RA), (D B RB). rewrite wsub_small by (rewrite ?p8; lia).
    destruct (IH (k - 1) ltac:(lia) ltac:(lia)) as (k' & Hrun & Hk' & Hag & Hdis).
    exists k'. repeat split; auto; try lia.
    intros j Hj. destruct (Z.eq_dec j k) as [-> | ]; [exact NE | apply Hdis; lia].
Qed.

Theorem supernetIPv4_correct p x :
  wf_pfx p -> wf_pfx x -> legacy (addr p) = true -> legacy (addr x) = true ->
  1 <= Z.min (plen p) (plen x) ->
  exists s, supernetIPv4 p x = Some s /\
    let k := Nat.min (lcp (pbits p) (pbits x)) (Z.to_nat (Z.min (plen p) (plen x)) - 1) in
    plen s = Z.of_nat k /\ wf_pfx s /\ legacy (addr s) = true /\ pbits s = supernet_bits k p.
Proof.
  intros [Wp Lp] [Wx Lx] Fp Fx Hmin. unfold width in Lp, Lx. rewrite Fp in Lp. rewrite Fx in Lx.
  destruct (wf4 _ Wp Fp) as [_ RA]. destruct (wf4 _ Wx Fx) as [_ RB].
  set (M := Z.min (plen p) (plen x) - 1).
  assert (HM : 0 <= M <= 31) by (unfold M; lia).
  unfold supernetIPv4.
  assert (Emin : wminu (plen p) (plen x) = Z.min (plen p) (plen x)).
  { unfold wminu. destruct (Z.ltb_spec (plen p) (plen x)); lia. }
  rewrite Emin. rewrite (wsub_small 8 (Z.min (plen p) (plen x)) 1) by (rewrite ?p8; lia). fold M.
  rewrite !ToUint32_small by lia.
  rewrite (wsub_small 8 32 M) by (rewrite ?p8; lia).
  rewrite !wshr_spec by lia.
  destruct (supernet4_loop_spec _ _ RA RB 34%nat M ltac:(lia) ltac:(lia)) as (k' & Hrun & Hk' & Hag & Hdis).
  rewrite Hrun.
  eexists. split; [reflexivity|]. cbn [plen addr].
  (* the address word *)
  assert (Eaddr : wshl 32 (lo (addr p) / 2 ^ (32 - k')) (wsub 8 32 k')
                  = lo (addr p) / 2 ^ (32 - k') * 2 ^ (32 - k')).
  { rewrite wsub_small by (rewrite ?p8; lia). rewrite wshl_spec by lia.
    apply Z.mod_small. apply div_mul_pow2_range; lia. }
  rewrite Eaddr.
  pose proof (div_mul_pow2_range 32 (32 - k') (lo (addr p)) ltac:(lia) RA) as Rres.
  assert (E64 : wconv 64 (lo (addr p) / 2 ^ (32 - k') * 2 ^ (32 - k'))
                = lo (addr p) / 2 ^ (32 - k') * 2 ^ (32 - k')).
  { unfold wconv. apply wrap_small. pose proof (pow2_lt 32 64 ltac:(lia)). lia. }
  (* k' is min(lcp, M) *)
  assert (Hk : Z.to_nat k' = Nat.min (lcp (pbits p) (pbits x)) (Z.to_nat (Z.min (plen p) (plen x)) - 1)).
  { replace (Z.to_nat (Z.min (plen p) (plen x)) - 1)%nat with (Z.to_nat M) by (unfold M; lia).
    assert (HLp : length (pbits p) = 32%nat) by (unfold pbits, ip_bits; rewrite Fp; apply length_bits).
    assert (HLx : length (pbits x) = 32%nat) by (unfold pbits, ip_bits; rewrite Fx; apply length_bits).
    apply min_lcp_char; try lia.
    - unfold pbits. apply firstn_ip_bits4; auto; try lia.
      replace (32 - Z.of_nat (Z.to_nat k')) with (32 - k') by lia. exact Hag.
    - intros Hlt F. unfold pbits in F. apply firstn_ip_bits4 in F; auto; try lia.
      apply (Hdis (k' + 1) ltac:(lia)).
      replace (32 - (k' + 1)) with (32 - Z.of_nat (S (Z.to_nat k'))) by lia. exact F. }
  cbv zeta. rewrite <- Hk.
  split; [lia|]. split; [|split; [reflexivity|]].
  - unfold wf_pfx, wf_ip, width, IPv4. cbn [addr plen legacy hi lo]. rewrite E64. lia.
  - unfold pbits, supernet_bits, pbits, ip_bits, IPv4. cbn [addr legacy lo]. rewrite Fp, E64.
    clear_low 32%nat.
Qed.

(* outside the precondition: one of the lengths is 0.  min(..)-1 wraps to 255, both shifted
   words are 0, the loop does not run: the result has length 255 (not a prefix at all). *)
Theorem supernetIPv4_len0_wraps p x :
  0 <= lo (addr p) < 2 ^ 32 -> 0 <= lo (addr x) < 2 ^ 32 ->
  0 <= plen p < 256 -> 0 <= plen x < 256 -> Z.min (plen p) (plen x) = 0 ->
  supernetIPv4 p x = Some (mkpfx (IPv4 0) 255).
Proof.
  intros RA RB Lp Lx Hmin. unfold supernetIPv4.
  assert (Emin : wminu (plen p) (plen x) = 0).
  { unfold wminu. destruct (Z.ltb_spec (plen p) (plen x)); lia. }
  rewrite Emin. replace (wsub 8 0 1) with 255 by reflexivity.
  replace (wsub 8 32 255) with 33 by reflexivity.
  rewrite !ToUint32_small by lia.
  unfold wshr at 1 2. cbn [Z.leb Z.compare Pos.compare Pos.compare_cont].
  cbn [supernet4_loop Z.eqb]. reflexivity.
Qed.

(* the loop always terminates within the fuel, whatever the lengths *)
Lemma supernet4_loop_total fuel a b k :
  0 <= a < 2 ^ Z.of_nat fuel -> 0 <= b < 2 ^ Z.of_nat fuel -> a < 2 ^ 32 -> b < 2 ^ 32 ->
  supernet4_loop (S fuel) a b k <> None.
Proof.
  revert a b k. induction fuel as [|f IH]; intros a b k Ra Rb Ra32 Rb32.
  - cbn in Ra, Rb. assert (a = 0) by lia. assert (b = 0) by lia. subst. cbn. discriminate.
  - cbn [supernet4_loop]. destruct (a =? b); [discriminate|].
    change (supernet4_loop (S f) (wshr 32 a 1) (wshr 32 b 1) (wsub 8 k 1) <> None).
    rewrite !wshr_spec by lia.
    rewrite Nat2Z.inj_succ, Z.pow_succ_r in Ra, Rb by lia.
    apply IH.
    + split; [apply Z.div_pos; lia | apply Z.div_lt_upper_bound; lia].
    + split; [apply Z.div_pos; lia | apply Z.div_lt_upper_bound; lia].
    + change (2 ^ 1) with 2. assert (a / 2 <= a) by (apply Z.div_le_upper_bound; lia). lia.
    + change (2 ^ 1) with 2. assert (b / 2 <= b) by (apply Z.div_le_upper_bound; lia). lia.
Qed.

Theorem supernetIPv4_total p x :
  0 <= lo (addr p) -> 0 <= lo (addr x) -> supernetIPv4 p x <> None.
Proof.
  intros RA RB. unfold supernetIPv4.
  set (M := wsub 8 (wminu (plen p) (plen x)) 1).
  set (n := wsub 8 32 M).
  assert (Hn : 0 <= n) by (unfold n, wsub; apply wrap_range; lia).
  assert (RU : forall a, 0 <= lo a -> 0 <= ToUint32 a < 2 ^ 32).
  { intros a Ha. rewrite ToUint32_spec by lia. apply Z.mod_pos_bound. lia. }
  assert (RS : forall a, 0 <= lo a -> 0 <= wshr 32 (ToUint32 a) n < 2 ^ 32).
  { intros a Ha. pose proof (RU a Ha). rewrite wshr_spec by lia.
    pose proof (pow2_pos n Hn).
    split; [apply Z.div_pos; lia|].
    assert (ToUint32 a / 2 ^ n <= ToUint32 a); [|lia].
    apply Z.div_le_upper_bound; nia. }
  pose proof (RS (addr p) RA). pose proof (RS (addr x) RB).
  pose proof (pow2_lt 32 (Z.of_nat 33) ltac:(lia)).
  destruct (supernet4_loop 34 _ _ M) as [[a' k']|] eqn:E; [discriminate|].
  exfalso. revert E. apply supernet4_loop_total; lia.
Qed.

(* ---------- supernetIPv6 ---------- *)

(* the mask accumulated by the loop after n iterations *)
Definition maskfn (n : Z) : Z :=
  if n <? 64 then 2 ^ 64 - 2 ^ (64 - n)
  else if n =? 64 then 0
  else if n <? 128 then 2 ^ 64 - 2 ^ (128 - n)
  else 2 ^ 64 - 2.

Definition mask_step (pfxLen mask : Z) : Z :=
  let pfxLen' := wadd 8 pfxLen 1 in
  let mask1 := if pfxLen' =? 64 then 0 else mask in
  let m := pfxLen' mod 64 in
  wadd 64 mask1 (wshl 64 1 (wsub 8 64 m)).

(* finite domain: the 128 possible iterations are checked by computation *)
Lemma mask_step_ok n : 0 <= n < 128 -> mask_step n (maskfn n) = maskfn (n + 1).
Proof.
  intros Hn.
  assert (H : forallb (fun i => mask_step (Z.of_nat i) (maskfn (Z.of_nat i)) =? maskfn (Z.of_nat i + 1))
                      (seq 0 128) = true) by (vm_compute; reflexivity).
  rewrite forallb_forall in H. specialize (H (Z.to_nat n)).
  rewrite Z2Nat.id in H by lia. apply Z.eqb_eq, H, in_seq. lia.
Qed.

Lemma bit_spec_nth a i : 1 <= i -> bit_spec a i = nth (Z.to_nat (i - 1)) (ip_bits a) false.
Proof. intros H. unfold bit_spec. destruct (Z.leb_spec i 0); [lia | reflexivity]. Qed.

Lemma agree_firstn pa xa n :
  length (ip_bits pa) = length (ip_bits xa) -> (Z.to_nat n <= length (ip_bits pa))%nat -> 0 <= n ->
  ((forall i, 1 <= i <= n -> bit_spec pa i = bit_spec xa i) <->
   firstn (Z.to_nat n) (ip_bits pa) = firstn (Z.to_nat n) (ip_bits xa)).
Proof.
  intros HL Hn H0. rewrite firstn_eq_pointwise by lia. split.
  - intros E i Hi. specialize (E (Z.of_nat i + 1) ltac:(lia)).
    rewrite !bit_spec_nth in E by lia.
    replace (Z.to_nat (Z.of_nat i + 1 - 1)) with i in E by lia. exact E.
  - intros E i Hi. rewrite !bit_spec_nth by lia. apply E. lia.
Qed.

Lemma supernet6_loop_spec pa xa M :
  wf_ip pa -> wf_ip xa -> 0 <= M <= 128 ->
  forall fuel n, 0 <= n <= M -> (Z.to_nat (M - n) < fuel)%nat ->
  (forall i, 1 <= i <= n -> bit_spec pa i = bit_spec xa i) ->
  exists n',
    supernet6_loop fuel pa xa M (bit_spec pa (n + 1)) (bit_spec xa (n + 1)) n (maskfn n)
    = Some (n', maskfn n') /\
    n <= n' <= M /\
    (forall i, 1 <= i <= n' -> bit_spec pa i = bit_spec xa i) /\
    (n' < M -> bit_spec pa (n' + 1) <> bit_spec xa (n' + 1)).
Proof.
  intros Wp Wx HM. induction fuel as [|f IH]; intros n Hn Hf Hag; [lia|].
  cbn [supernet6_loop].
  destruct (Bool.eqb (bit_spec pa (n + 1)) (bit_spec xa (n + 1)) && (n <? M)) eqn:C.
  - apply andb_true_iff in C. destruct C as [C1 C2]. apply eqb_prop in C1. apply Z.ltb_lt in C2.
    assert (E2 : wadd 8 n 2 = n + 2) by (apply wadd_small; rewrite ?p8; lia).
    assert (E1 : wadd 8 n 1 = n + 1) by (apply wadd_small; rewrite ?p8; lia).
    rewrite !BitAtPosition_correct by (auto; rewrite E2; lia).
    rewrite E2.
    change (wadd 64 (if wadd 8 n 1 =? 64 then 0 else maskfn n)
                 (wshl 64 1 (wsub 8 64 (wadd 8 n 1 mod 64)))) with (mask_step n (maskfn n)).
    rewrite mask_step_ok by lia. rewrite E1.
    replace (n + 2) with (n + 1 + 1) by lia.
    destruct (IH (n + 1) ltac:(lia) ltac:(lia)) as (n' & Hrun & Hn' & Hag' & Hdis').
    { intros i Hi. destruct (Z.eq_dec i (n + 1)) as [-> | ]; [exact C1 | apply Hag; lia]. }
    exists n'. repeat split; auto; lia.
  - exists n. repeat split; auto; try lia.
    intros Hlt. apply andb_false_iff in C. destruct C as [C | C].
    + intros F. rewrite F, eqb_reflx in C. discriminate.
    + apply Z.ltb_ge in C. lia.
Qed.

Lemma supernet6_loop_total pa xa M fuel : forall n a b mask,
  0 <= n -> M < 256 -> (Z.to_nat (M - n) < fuel)%nat ->
  supernet6_loop fuel pa xa M a b n mask <> None.
Proof.
  induction fuel as [|f IH]; intros n a b mask Hn HM Hf; [lia|].
  cbn [supernet6_loop].
  destruct (Bool.eqb a b && (n <? M)) eqn:C; [|discriminate].
  apply andb_true_iff in C. destruct C as [_ C]. apply Z.ltb_lt in C.
  rewrite (wadd_small 8 n 1) by (rewrite ?p8; lia).
  apply IH; lia.
Qed.

Theorem supernetIPv6_total p x :
  0 <= plen p < 256 -> 0 <= plen x < 256 -> supernetIPv6 p x <> None.
Proof.
  intros Lp Lx. unfold supernetIPv6.
  set (M := wminu (plen p) (plen x)).
  assert (HM : M < 256) by (unfold M, wminu; destruct (Z.ltb_spec (plen p) (plen x)); lia).
  assert (HM0 : 0 <= M) by (unfold M, wminu; destruct (Z.ltb_spec (plen p) (plen x)); lia).
  destruct (supernet6_loop 257 _ _ M _ _ 0 0) as [[n mask]|] eqn:E.
  - destruct (n =? 0); [discriminate|]. destruct (64 <=? n); discriminate.
  - exfalso. revert E. apply supernet6_loop_total; lia.
Qed.

(* the loop result, before the final mask is applied *)
Lemma supernet6_run p x :
  wf_pfx p -> wf_pfx x -> legacy (addr p) = false -> legacy (addr x) = false ->
  exists k : nat,
    supernet6_loop 257 (addr p) (addr x) (wminu (plen p) (plen x))
      (BitAtPosition (addr p) 1) (BitAtPosition (addr x) 1) 0 0
    = Some (Z.of_nat k, maskfn (Z.of_nat k)) /\
    k = Nat.min (lcp (pbits p) (pbits x)) (Z.to_nat (Z.min (plen p) (plen x))).
Proof.
  intros [Wp Lp] [Wx Lx] Fp Fx. unfold width in Lp, Lx. rewrite Fp in Lp. rewrite Fx in Lx.
  assert (Emin : wminu (plen p) (plen x) = Z.min (plen p) (plen x)).
  { unfold wminu. destruct (Z.ltb_spec (plen p) (plen x)); lia. }
  rewrite Emin. set (M := Z.min (plen p) (plen x)). assert (HM : 0 <= M <= 128) by (unfold M; lia).
  rewrite !BitAtPosition_correct by (auto; lia).
  destruct (supernet6_loop_spec (addr p) (addr x) M Wp Wx HM 257%nat 0 ltac:(lia) ltac:(lia))
    as (n' & Hrun & Hn' & Hag & Hdis).
  { intros i Hi; lia. }
  change (0 + 1) with 1 in Hrun. change (maskfn 0) with 0 in Hrun.
  exists (Z.to_nat n'). rewrite Z2Nat.id by lia. split; [exact Hrun|].
  assert (HLp : length (pbits p) = 128%nat) by (unfold pbits; rewrite length_ip_bits; unfold width; rewrite Fp; reflexivity).
  assert (HLx : length (pbits x) = 128%nat) by (unfold pbits; rewrite length_ip_bits; unfold width; rewrite Fx; reflexivity).
  apply min_lcp_char; try lia.
  - apply agree_firstn; unfold pbits in *; try lia. exact Hag.
  - intros Hlt F. apply (Hdis ltac:(lia)).
    assert (G : forall i, 1 <= i <= n' + 1 -> bit_spec (addr p) i = bit_spec (addr x) i).
    { apply agree_firstn; unfold pbits in *; try lia.
      replace (Z.to_nat (n' + 1)) with (S (Z.to_nat n')) by lia. exact F. }
    apply G. lia.
Qed.

(* below 128 common bits the result is the base address of (pfx.addr, k) *)
Lemma supernet6_final pa (k : Z) :
  wf_ip pa -> legacy pa = false -> 0 <= k < 128 ->
  (if k =? 0 then Some (NewPfx (IPv6 0 0) k)
   else if 64 <=? k then Some (NewPfx (IPv6 (hi pa) (wand (lo pa) (maskfn k))) k)
   else Some (NewPfx (IPv6 (wand (hi pa) (maskfn k)) 0) k))
  = Some (mkpfx (baseAddr6 (mkpfx pa k)) k).
Proof.
  intros W F Hk. destruct (wf6 _ W F) as [Rh Rl].
  rewrite baseAddr6_div by (cbn [addr plen]; lia). cbn [addr plen]. rewrite F.
  unfold NewPfx, IPv6, wand, maskfn.
  destruct (Z.eqb_spec k 0) as [-> | K0].
  - cbn [Z.leb Z.compare]. change (64 - 0) with 64.
    rewrite (Z.div_small (hi pa)) by lia. reflexivity.
  - destruct (Z.leb_spec 64 k) as [K64 | K64].
    + destruct (Z.ltb_spec k 64); [lia|]. destruct (Z.leb_spec k 64) as [K | K].
      * assert (k = 64) by lia. subst k. cbn [Z.eqb Pos.eqb]. rewrite Z.land_0_r.
        change (64 - 64) with 0. rewrite Z.pow_0_r, Z.div_1_r, Z.mul_1_r. reflexivity.
      * destruct (Z.eqb_spec k 64); [lia|]. destruct (Z.ltb_spec k 128); [|lia].
        rewrite land_high_mask by lia. reflexivity.
    + destruct (Z.ltb_spec k 64); [|lia]. destruct (Z.leb_spec k 64); [|lia].
      rewrite land_high_mask by lia. reflexivity.
Qed.

Theorem supernetIPv6_correct p x :
  wf_pfx p -> wf_pfx x -> legacy (addr p) = false -> legacy (addr x) = false ->
  let k := Nat.min (lcp (pbits p) (pbits x)) (Z.to_nat (Z.min (plen p) (plen x))) in
  (k < 128)%nat ->
  exists s, supernetIPv6 p x = Some s /\
    plen s = Z.of_nat k /\ wf_pfx s /\ legacy (addr s) = false /\ pbits s = supernet_bits k p.
Proof.
  intros Wp Wx Fp Fx k Hk.
  destruct (supernet6_run p x Wp Wx Fp Fx) as (k0 & Hrun & Hk0). fold k in Hk0. subst k0.
  unfold supernetIPv6. rewrite Hrun.
  destruct Wp as [Wp Lp].
  rewrite (supernet6_final (addr p) (Z.of_nat k) Wp Fp ltac:(lia)).
  eexists. split; [reflexivity|]. cbn [plen addr].
  assert (Wk : wf_pfx (mkpfx (addr p) (Z.of_nat k))).
  { split; cbn [addr plen]; [exact Wp | unfold width; rewrite Fp; lia]. }
  pose proof (BaseAddr_correct _ Wk) as (WB & FB & BB).
  unfold BaseAddr in WB, FB, BB. cbn [addr plen] in WB, FB, BB. rewrite Fp in WB, FB, BB.
  split; [reflexivity|]. split; [|split; [exact FB|]].
  - split; cbn [addr plen]; [exact WB | unfold width; rewrite FB; lia].
  - unfold pbits at 1. cbn [addr]. rewrite BB.
    unfold base_spec, supernet_bits, pbits, plen_nat. cbn [addr plen]. rewrite Nat2Z.id. reflexivity.
Qed.

(* outside the precondition: 128 common bits (both prefixes are the same /128).  The
   accumulated mask misses the last bit: the result is NOT the prefix itself. *)
Theorem supernetIPv6_at128 p :
  wf_pfx p -> legacy (addr p) = false -> plen p = 128 ->
  supernetIPv6 p p = Some (mkpfx (mkip (hi (addr p)) (lo (addr p) / 2 * 2) false) 128).
Proof.
  intros Wp Fp L.
  destruct (supernet6_run p p Wp Wp Fp Fp) as (k0 & Hrun & Hk0).
  assert (HLp : length (pbits p) = 128%nat) by (unfold pbits; rewrite length_ip_bits; unfold width; rewrite Fp; reflexivity).
  assert (Hl : lcp (pbits p) (pbits p) = 128%nat).
  { pose proof (lcp_le_length (pbits p) (pbits p)).
    assert ((128 <= lcp (pbits p) (pbits p))%nat); [|lia].
    apply lcp_ge_iff; auto. split; [lia | reflexivity]. }
  rewrite Hl, L in Hk0. change (Nat.min 128 (Z.to_nat (Z.min 128 128))) with 128%nat in Hk0. subst k0.
  unfold supernetIPv6. rewrite Hrun. change (Z.of_nat 128) with 128.
  cbn [Z.eqb Z.leb Z.compare Pos.compare Pos.compare_cont].
  destruct Wp as [Wp _]. destruct (wf6 _ Wp Fp) as [Rh Rl].
  unfold NewPfx, IPv6, wand. do 3 f_equal.
  change (maskfn 128) with (2 ^ 64 - 2 ^ 1).
  rewrite land_high_mask by lia. reflexivity.
Qed.

(* ---------- GetSupernet under the trie's precondition ---------- *)

Theorem GetSupernet_trie p x :
  wf_pfx p -> wf_pfx x -> same_family (addr p) (addr x) ->
  Valid p = true -> Valid x = true ->
  pfx_equal p x = false -> Contains p x = false -> Contains x p = false ->
  exists s, GetSupernet p x = Some s /\
    let k := lcp (pbits p) (pbits x) in
    plen s = Z.of_nat k /\ pbits s = supernet_bits k p /\
    wf_pfx s /\ same_family (addr s) (addr p) /\
    Contains s p = true /\ Contains s x = true /\ Valid s = true /\
    BitAtPosition (addr p) (plen s + 1) <> BitAtPosition (addr x) (plen s + 1).
Proof.
  intros Wp Wx F Vp Vx NE NC1 NC2.
  assert (Hpre : (lcp (pbits p) (pbits x) < Z.to_nat (Z.min (plen p) (plen x)))%nat).
  { apply trie_precondition_iff; auto. }
  assert (Hfin : forall s, let k := lcp (pbits p) (pbits x) in
            plen s = Z.of_nat k -> wf_pfx s -> legacy (addr s) = legacy (addr p) ->
            pbits s = supernet_bits k p ->
            plen s = Z.of_nat k /\ pbits s = supernet_bits k p /\
            wf_pfx s /\ same_family (addr s) (addr p) /\
            Contains s p = true /\ Contains s x = true /\ Valid s = true /\
            BitAtPosition (addr p) (plen s + 1) <> BitAtPosition (addr x) (plen s + 1)).
  { intros s k Ls Ws Fs Bs.
    destruct (supernet_consequences p x s Wp Wx F Fs Hpre Ls Bs) as (C1 & C2 & V & D).
    split; [exact Ls|]. split; [exact Bs|]. split; [exact Ws|]. split; [exact Fs|].
    split; [apply Contains_correct; auto|]. split; [apply Contains_correct; auto|].
    split; [apply Valid_correct; auto|].
    - destruct Wp as [Wp Lp], Wx as [Wx Lx].
      assert (0 <= plen s + 1 < 256).
      { destruct Ws as [_ Lw]. unfold width in Lw. destruct (legacy (addr s)); lia. }
      rewrite !BitAtPosition_correct by auto. exact D. }
  assert (Wp' := Wp). assert (Wx' := Wx). destruct Wp' as [_ Lp], Wx' as [_ Lx].
  unfold GetSupernet. destruct (legacy (addr p)) eqn:Fp.
  - assert (Fx : legacy (addr x) = true) by (unfold same_family in F; congruence).
    destruct (supernetIPv4_correct p x Wp Wx Fp Fx ltac:(lia)) as (s & Hs & Ls & Ws & Fs & Bs).
    exists s. split; [exact Hs|].
    replace (Nat.min (lcp (pbits p) (pbits x)) (Z.to_nat (Z.min (plen p) (plen x)) - 1))
      with (lcp (pbits p) (pbits x)) in Ls, Bs by lia.
    apply Hfin; auto.
  - assert (Fx : legacy (addr x) = false) by (unfold same_family in F; congruence).
    unfold width in Lp, Lx. rewrite Fp in Lp. rewrite Fx in Lx.
    assert (Hmin : Nat.min (lcp (pbits p) (pbits x)) (Z.to_nat (Z.min (plen p) (plen x)))
                   = lcp (pbits p) (pbits x)) by lia.
    destruct (supernetIPv6_correct p x Wp Wx Fp Fx ltac:(lia)) as (s & Hs & Ls & Ws & Fs & Bs).
    exists s. split; [exact Hs|].
    rewrite Hmin in Ls, Bs.
    apply Hfin; auto.
Qed.
