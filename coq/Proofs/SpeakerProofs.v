(* Proofs of the wire-to-wire theorems (Properties/Speaker.v). *)
From Coq Require Import List NArith ZArith Bool Arith Lia.
Import ListNotations.
From BioVerif Require Model.AdjRIBIn Model.LocRIBClients Model.AdjRIBOut Model.UpdateSender Model.ExportWire
  Model.BGPCodec Model.BGPEncode Model.UpdateApply Spec.UpdateApplySpec Spec.BGPRoundtripSpec Spec.BGPUpdateSpec
  Spec.BGPCodecSpec Spec.LocRIBClientsSpec
  Proofs.BGPCodecProofs Proofs.BGPUpdateProofs Proofs.BGPRoundtripProofs Proofs.UpdateApplyProofs.
From BioVerif Require Import Model.Pipeline Model.Speaker Spec.PipelineSpec Spec.SpeakerSpec
  Proofs.PipelineIn Proofs.PipelineProofs.
From BioVerif Require Proofs.PipelineOut Proofs.PipelineSend Spec.ExportViewSpec Spec.UpdateSenderSpec.
From Coq Require Import Permutation.
Local Open Scope nat_scope.

Lemma upd_nth_id : forall (A : Type) k (l : list A), upd_nth k (fun x => x) l = l.
Proof. intros A k l. revert k. induction l as [|y l IH]; intros [|k]; cbn; try reflexivity. f_equal. apply IH. Qed.

Lemma upd_nth_ext : forall (A : Type) k (f g : A -> A) (l : list A), (forall x, f x = g x) -> upd_nth k f l = upd_nth k g l.
Proof. intros A k f g l H. revert k. induction l as [|y l IH]; intros [|k]; cbn; try reflexivity; f_equal; auto. Qed.

Section Speaker.
  Variable P : Type.
  Variable apply : P -> N -> AdjRIBOut.path -> option AdjRIBOut.path.
  Variable sel : nat -> list (LocRIBClients.entry AdjRIBOut.path) -> list (LocRIBClients.entry AdjRIBOut.path) * nat.
  Variable tagf : AdjRIBOut.bgp -> N.
  Variable cs : list (spcfg P).
  Hypothesis sel_ok : LocRIBClientsSpec.sel_ok AdjRIBOut.path sel.

  Notation cfgs := (cfgs_of P cs).
  Notation pstep := (Pipeline.step P apply sel tagf cfgs).
  Notation prun := (Pipeline.run P apply sel tagf cfgs).
  Notation sstep := (Speaker.sstep P apply sel tagf cs).
  Notation srun := (Speaker.srun P apply sel tagf cs).
  Notation in_op := (Pipeline.in_op P apply sel tagf cfgs).

  (* ---------------------------------------------------------------- a speaker run is a run of the RIB pipeline *)

  Definition pevents (st : spst P) (ev : sevent) : list event :=
    match ev with
    | SUp k => [EUp k]
    | SDown k => [EDown k]
    | SDequeue k key => [EDequeue k key]
    | SEmit k => [EEmit k]
    | SRecv k b =>
      match nth_error cs k with
      | Some c =>
        if is_up P (sp_pipe P st) k && frame_ok b then
          match recv_decode (sp_dec P c) b with
          | BGPCodec.Ok m _ =>
            match BGPCodec.m_body m with
            | BGPCodec.BUpdate u => update_events k u
            | BGPCodec.BKeepalive => []
            | _ => [EDown k]
            end
          | BGPCodec.Err => [EDown k]
          | _ => []
          end
        else []
      | None => []
      end
    end.

  Lemma sstep_pipe : forall st ev, sp_pipe P (sstep st ev) = fold_left pstep (pevents st ev) (sp_pipe P st).
  Proof.
    intros st ev. destruct ev as [k|k|k b|k key|k]; [reflexivity|reflexivity| |reflexivity|reflexivity].
    cbn [Speaker.sstep pevents].
    destruct (nth_error cs k) as [c|]; [|reflexivity].
    destruct (is_up P (sp_pipe P st) k && frame_ok b); [|reflexivity].
    unfold recv. generalize (recv_decode (sp_dec P c) b). intros d.
    destruct d as [m r| |s|]; [|reflexivity|reflexivity|reflexivity].
    generalize (BGPCodec.m_body m). intros bd. destruct bd; reflexivity.
  Qed.

  Lemma run_app : forall a b, prun (a ++ b) = fold_left pstep b (prun a).
  Proof. intros. unfold Pipeline.run. apply fold_left_app. Qed.

  Lemma srun_snoc : forall evs ev, srun (evs ++ [ev]) = sstep (srun evs) ev.
  Proof. intros. unfold Speaker.srun. rewrite fold_left_app. reflexivity. Qed.

  Theorem srun_is_run : forall evs, exists pevs, sp_pipe P (srun evs) = prun pevs.
  Proof.
    intros evs. induction evs as [|ev evs IH] using rev_ind.
    - exists []. reflexivity.
    - destruct IH as [pevs IH]. exists (pevs ++ pevents (srun evs) ev).
      rewrite srun_snoc, sstep_pipe, IH, run_app. reflexivity.
  Qed.

  Lemma Inv_srun : forall evs, distinct_peers P cfgs -> Inv P cfgs (sp_pipe P (srun evs)).
  Proof. intros evs DP. destruct (srun_is_run evs) as [pevs E]. rewrite E. now apply Inv_run. Qed.

  (* ---------------------------------------------------------------- a received UPDATE, NLRI by NLRI *)

  Definition annwd (o : AdjRIBIn.op) : Prop :=
    match o with AdjRIBIn.Announce _ _ | AdjRIBIn.Withdraw _ _ => True | _ => False end.

  Lemma message_ops_annwd : forall afi u, Forall annwd (UpdateApplySpec.message_ops afi u).
  Proof.
    intros afi u. unfold UpdateApplySpec.message_ops.
    assert (A : forall b l, Forall annwd (UpdateApplySpec.announce_each b l)).
    { intros b l. unfold UpdateApplySpec.announce_each. apply Forall_forall. intros x Hx. apply in_map_iff in Hx.
      destruct Hx as [n [<- _]]. exact I. }
    assert (W : forall l, Forall annwd (UpdateApplySpec.withdraw_each l)).
    { intros l. unfold UpdateApplySpec.withdraw_each. apply Forall_forall. intros x Hx. apply in_map_iff in Hx.
      destruct Hx as [n [<- _]]. exact I. }
    apply Forall_app. split; [|apply Forall_app; split].
    - destruct (UpdateApplySpec.the_reach _); [|constructor]. destruct (_ && _); [apply A|constructor].
    - destruct (UpdateApplySpec.the_unreach _); [|constructor]. destruct (_ && _); [apply W|constructor].
    - destruct (afi =? 1)%N; [|constructor]. apply Forall_app. split; [apply W|apply A].
  Qed.

  Lemma is_up_inpart : forall st k t, nth_error (map (inpart P) (ps_sess P st)) k = Some t -> is_up P st k = fst (fst t).
  Proof.
    intros st k t H. unfold is_up. rewrite nth_error_map in H. destruct (nth_error (ps_sess P st) k) as [s|]; [|discriminate].
    cbn in H. inversion H. reflexivity.
  Qed.

  (* the receiving half of every session after the per-NLRI events of one message on session k *)
  Lemma recv_ops : forall ops st k c,
    distinct_peers P cfgs -> nth_error cfgs k = Some c -> Forall annwd ops -> Inv P cfgs st -> is_up P st k = true ->
    let st' := fold_left pstep (flat_map (op_event k) ops) st in
    Inv P cfgs st' /\
    map (inpart P) (ps_sess P st') =
    upd_nth k (fun t => fold_left (fun t o => tstep o t) ops t) (map (inpart P) (ps_sess P st)).
  Proof.
    induction ops as [|o ops IH]; intros st k c DP Hc HA HI HU; cbn zeta.
    - cbn. split; [exact HI|]. symmetry. apply upd_nth_id.
    - inversion HA as [|? ? Ho HA']; subst.
      assert (E : fold_left pstep (flat_map (op_event k) (o :: ops)) st =
                  fold_left pstep (flat_map (op_event k) ops) (in_op k st o)).
      { cbn [flat_map]. rewrite fold_left_app. f_equal.
        destruct o; try contradiction; cbn [op_event fold_left Pipeline.step]; now rewrite HU. }
      rewrite E.
      assert (NR : not_replace o) by (destruct o; try contradiction; exact I).
      assert (NG : noreg o) by (destruct o; try contradiction; exact I).
      destruct (in_op_inv P apply sel tagf sel_ok cfgs k c o st DP Hc NR (Inv_length P cfgs st HI) (inv_J P cfgs st HI)) as [_ I1].
      assert (HI1 : Inv P cfgs (in_op k st o)) by (now apply Inv_in_op_noreg).
      destruct (sess_of_cfg P cfgs st k c HI Hc) as [s Hs].
      assert (Ht : nth_error (map (inpart P) (ps_sess P st)) k = Some (inpart P s)) by (now apply map_nth_error).
      assert (HU1 : is_up P (in_op k st o) k = true).
      { rewrite (is_up_inpart _ k (tstep o (inpart P s))).
        - cbn. rewrite (is_up_inpart st k (inpart P s) Ht) in HU. exact HU.
        - rewrite I1. now apply nth_error_upd_same. }
      destruct (IH (in_op k st o) k c DP Hc HA' HI1 HU1) as [HI' I'].
      split; [exact HI'|]. rewrite I', I1, upd_nth_twice. reflexivity.
  Qed.

  Lemma tstep_fold : forall ops u i l,
    fold_left (fun t o => tstep o t) ops (u, i, l) = (u, fold_left AdjRIBIn.step ops i, l ++ ops).
  Proof.
    induction ops as [|o ops IH]; intros u i l; cbn [fold_left].
    - now rewrite app_nil_r.
    - unfold tstep at 2. cbn [fst snd]. rewrite IH, <- app_assoc. reflexivity.
  Qed.

  Lemma conv_well_typed : forall u, UpdateApplySpec.well_typed (conv_update u).
  Proof.
    intros u a Ha. unfold conv_update in Ha. cbn [UpdateApply.u_attrs] in Ha. apply in_map_iff in Ha.
    destruct Ha as [x [<- _]]. unfold conv_attr.
    destruct (BGPCodec.a_val x); try reflexivity.
    destruct (N.eqb (BGPCodec.a_type x) 5); [reflexivity|].
    destruct (N.eqb (BGPCodec.a_type x) 4); [reflexivity|].
    destruct (N.eqb (BGPCodec.a_type x) 9); reflexivity.
  Qed.

  Lemma down_is_down : forall st k c, nth_error cfgs k = Some c -> is_up P (pstep st (EDown k)) k = false.
  Proof.
    intros st k c Hc. cbn [Pipeline.step]. rewrite Hc.
    destruct (is_up P st k) eqn:U; cbn [negb]; [|exact U].
    match goal with |- is_up P (with_sess P ?s3 _) k = false => set (st3 := s3) end.
    unfold is_up. cbn [with_sess ps_sess].
    destruct (nth_error (ps_sess P st3) k) as [s|] eqn:E.
    - rewrite (nth_error_upd_same _ k _ _ s E). reflexivity.
    - rewrite (upd_nth_none _ k _ _ E), E. reflexivity.
  Qed.

  Lemma cfgs_nth : forall k c, nth_error cs k = Some c -> nth_error cfgs k = Some (sp_c P c).
  Proof. intros k c H. unfold cfgs_of. now apply map_nth_error. Qed.

  (* 1. what one received frame does to a session in Established *)
  Theorem installs_what_was_decoded : forall evs k c s b,
    distinct_peers P cfgs ->
    nth_error cs k = Some c ->
    nth_error (ps_sess P (sp_pipe P (srun evs))) k = Some s -> ss_up P s = true -> frame_ok b = true ->
    let st := srun evs in
    let st' := sstep st (SRecv k b) in
    match recv_decode (sp_dec P c) b with
    | BGPCodec.Ok m rest =>
      match BGPCodec.m_body m with
      | BGPCodec.BUpdate u =>
        let ops := UpdateApplySpec.message_ops 1 (conv_update u) in
        (exists consumed, padded b = consumed ++ rest /\ BGPUpdateSpec.wellformed false (BGPCodec.m_len m) u consumed) /\
        UpdateApplySpec.well_typed (conv_update u) /\
        exists s', nth_error (ps_sess P (sp_pipe P st')) k = Some s' /\ ss_up P s' = true /\
          UpdateApply.process_update 1 1 (conv_update u) (ss_in P s) = UpdateApply.Done (ss_in P s') /\
          ss_ops P s' = ss_ops P s ++ ops /\
          (forall j, j <> k ->
             option_map (recv_state P) (nth_error (ps_sess P (sp_pipe P st')) j) =
             option_map (recv_state P) (nth_error (ps_sess P (sp_pipe P st)) j))
      | BGPCodec.BKeepalive => st' = st
      | _ => is_up P (sp_pipe P st') k = false
      end
    | BGPCodec.Err => is_up P (sp_pipe P st') k = false
    | _ => False
    end.
  Proof.
    intros evs k c s b DP Hc Hs Hup Hf st st'.
    assert (HU : is_up P (sp_pipe P st) k = true) by (unfold is_up; fold st in Hs; now rewrite Hs).
    assert (E' : st' = recv P apply sel tagf cs k c b st).
    { unfold st'. cbn [Speaker.sstep]. rewrite Hc, HU, Hf. reflexivity. }
    clearbody st'. subst st'. unfold recv.
    pose proof (BGPCodecProofs.no_panic (sp_dec P c) (padded b)) as NP.
    pose proof (BGPCodecProofs.fuel_suffices (sp_dec P c) (padded b)) as NF.
    unfold recv_decode in *.
    destruct (BGPCodec.decode (S (length (padded b))) (sp_dec P c) (padded b)) as [d al] eqn:D. cbn [fst] in *.
    destruct d as [m rest| |pm|]; [| |exfalso; apply NP; exact I|exfalso; now apply NF].
    2:{ cbn [sp_pipe]. apply (down_is_down _ k (sp_c P c)). now apply cfgs_nth. }
    destruct m as [ml mt mb]. cbn [BGPCodec.m_body BGPCodec.m_len].
    destruct mb as [o|u| |nc ns].
    - cbn [sp_pipe]. apply (down_is_down _ k (sp_c P c)). now apply cfgs_nth.
    - cbn zeta. split; [|split].
      + exact (BGPUpdateProofs.update_wellformed (sp_dec P c) (padded b) ml mt u rest al D).
      + apply conv_well_typed.
      + cbn [sp_pipe]. unfold update_events.
        set (ops := UpdateApplySpec.message_ops 1 (conv_update u)).
        pose proof (Inv_srun evs DP) as HI. fold st in HI.
        destruct (recv_ops ops (sp_pipe P st) k (sp_c P c) DP (cfgs_nth k c Hc) (message_ops_annwd 1%N (conv_update u)) HI HU)
          as [HI' I'].
        set (pst' := fold_left pstep (flat_map (op_event k) ops) (sp_pipe P st)) in *.
        assert (Ht : nth_error (map (inpart P) (ps_sess P (sp_pipe P st))) k = Some (inpart P s))
          by (apply map_nth_error; exact Hs).
        assert (Ht' : nth_error (map (inpart P) (ps_sess P pst')) k =
                      Some (fold_left (fun t o => tstep o t) ops (inpart P s))).
        { rewrite I'. now apply nth_error_upd_same. }
        rewrite nth_error_map in Ht'. destruct (nth_error (ps_sess P pst') k) as [s'|] eqn:Hs'; [|discriminate].
        cbn [option_map] in Ht'. injection Ht' as Ht'. unfold inpart in Ht'. rewrite tstep_fold in Ht'.
        injection Ht' as A1 A2 A3.
        exists s'. split; [reflexivity|]. split; [congruence|]. split; [|split].
        * rewrite (UpdateApplyProofs.per_nlri 1%N (conv_update u) (ss_in P s) (conv_well_typed u)). fold ops. now rewrite A2.
        * exact A3.
        * intros j NE. rewrite <- !nth_error_map. change (recv_state P) with (inpart P). rewrite I'.
          now apply nth_error_upd_other.
    - reflexivity.
    - cbn [sp_pipe]. apply (down_is_down _ k (sp_c P c)). now apply cfgs_nth.
  Qed.
  (* ---------------------------------------------------------------- what is written decodes to what it was made from *)

  Lemma same_update_attrs : forall o u u', BGPRoundtripSpec.same_update o u u' -> attrs_tv u' = sent_attrs o u.
  Proof.
    intros o u u' [_ [_ H]]. unfold attrs_tv, sent_attrs.
    induction H as [|a a' l l' [Ht [Hv _]] _ IH]; cbn [map]; [reflexivity|]. now rewrite Ht, Hv, IH.
  Qed.

  Lemma Forall2_map_r : forall (A B : Type) (R : A -> B -> Prop) (f : A -> B) l,
    (forall x, In x l -> R x (f x)) -> Forall2 R l (map f l).
  Proof.
    intros A B R f l. induction l as [|x l IH]; intros H; cbn; constructor.
    - apply H. now left.
    - apply IH. intros y Hy. apply H. now right.
  Qed.

  (* one message of the sender's log, the UPDATE it stands for, what was written, what the peer decodes *)
  Definition written (c : spcfg P) (s : sst P) (m : UpdateSender.msg) (ob : option (list N)) : Prop :=
    exists u bs u', msg_update P tagf c (ss_out P s) m = Some u /\ ob = Some bs /\
                    (BGPCodec.len bs <= 4096)%N /\ decode_out P c bs = Some u' /\
                    BGPRoundtripSpec.same_update (sp_enc P c) u u'.

  Theorem output_roundtrip : forall c s, sendable P tagf c s ->
    Forall2 (written c s) (rev (UpdateSender.wire (ss_us P s))) (output P tagf c s).
  Proof.
    intros c s HS. unfold output. apply Forall2_map_r. intros m Hm. apply in_rev in Hm.
    destruct (HS m Hm) as [u [bs [Hu [Hw He]]]].
    destruct (BGPRoundtripProofs.update_roundtrip (sp_enc P c) u bs Hw He) as [HL [u' [al [HD HSame]]]].
    exists u, bs, u'. split; [exact Hu|]. split.
    - unfold msg_bytes. now rewrite Hu, He.
    - split; [exact HL|]. split; [|exact HSame]. unfold decode_out. now rewrite HD.
  Qed.

  (* ---------------------------------------------------------------- the peer's table from the decoded UPDATEs *)

  Lemma pfx_eqb_sym : forall a b, UpdateSender.pfx_eqb a b = UpdateSender.pfx_eqb b a.
  Proof. intros a b. unfold UpdateSender.pfx_eqb. now rewrite (N.eqb_sym (UpdateSender.x_addr a)), (N.eqb_sym (UpdateSender.x_len a)). Qed.

  Lemma cpfx_xpfx : forall x, cpfx (xpfx x) = x.
  Proof. intros [a l]. reflexivity. Qed.

  Lemma nkey_out : forall x i pid y, nkey_eqb x i (out_nlri pid y) = UpdateSender.pfx_eqb x y && N.eqb pid i.
  Proof. intros. unfold nkey_eqb, out_nlri. cbn [BGPCodec.n_pfx BGPCodec.n_id]. now rewrite cpfx_xpfx. Qed.

  Lemma exists_out : forall x i pid xs,
    existsb (nkey_eqb x i) (map (out_nlri pid) xs) = N.eqb pid i && existsb (UpdateSender.pfx_eqb x) xs.
  Proof.
    intros x i pid xs. induction xs as [|y xs IH]; cbn [map existsb].
    - now rewrite andb_false_r.
    - rewrite IH, nkey_out. destruct (UpdateSender.pfx_eqb x y), (N.eqb pid i); reflexivity.
  Qed.

  (* the decoded UPDATEs, newest first, against the sender's wire log *)
  Definition decoded_as (c : spcfg P) (s : sst P) (m : UpdateSender.msg) (u' : BGPCodec.update_msg) : Prop :=
    exists u, msg_update P tagf c (ss_out P s) m = Some u /\
              BGPCodec.u_withdrawn u' = BGPCodec.u_withdrawn u /\ BGPCodec.u_nlri u' = BGPCodec.u_nlri u /\
              attrs_tv u' = sent_attrs (sp_enc P c) u.

  Lemma dview_is_view : forall c s w us,
    Forall2 (decoded_as c s) w us ->
    forall x pid, dview us x pid = option_map (tag_attrs P tagf c (ss_out P s)) (UpdateSender.view w x pid).
  Proof.
    intros c s w us H. induction H as [|m u' w us [u [Hu [Hw [Hn Ha]]]] _ IH]; intros x pid; [reflexivity|].
    cbn [dview]. rewrite Hn, Hw.
    destruct m as [tag pid' ln xs|y pid'|]; cbn [msg_update] in Hu.
    - unfold tag_attrs. destruct (bgp_of_tag P tagf (ss_out P s) tag) as [b|] eqn:Hb; [|discriminate].
      injection Hu as <-. cbn [ann_msg BGPCodec.u_nlri BGPCodec.u_withdrawn UpdateSender.view existsb].
      rewrite exists_out.
      destruct (N.eqb pid' pid && existsb (UpdateSender.pfx_eqb x) xs); [|apply IH].
      cbn [option_map]. rewrite Hb, Ha. reflexivity.
    - injection Hu as <-. cbn [wd_msg BGPCodec.u_nlri BGPCodec.u_withdrawn UpdateSender.view existsb].
      rewrite nkey_out, orb_false_r, (pfx_eqb_sym y x), (andb_comm (N.eqb pid' pid)).
      destruct (UpdateSender.pfx_eqb x y && N.eqb pid' pid); [reflexivity|apply IH].
    - injection Hu as <-. cbn [eor_msg BGPCodec.u_nlri BGPCodec.u_withdrawn UpdateSender.view existsb]. apply IH.
  Qed.

  Lemma Forall2_rev : forall (A B : Type) (R : A -> B -> Prop) l l', Forall2 R l l' -> Forall2 R (rev l) (rev l').
  Proof.
    intros A B R l l' H. induction H; cbn; [constructor|]. apply Forall2_app; [assumption|]. now repeat constructor.
  Qed.

  (* 2. every UPDATE written decodes to the UPDATE it was made from, and the table the peer builds from the decoded
     UPDATEs is the sender's view with the attribute values of the exported paths *)
  Theorem output_decodes_to_view : forall evs j c s,
    nth_error cs j = Some c -> nth_error (ps_sess P (sp_pipe P (srun evs))) j = Some s ->
    sendable P tagf c s ->
    Forall2 (written c s) (rev (UpdateSender.wire (ss_us P s))) (output P tagf c s) /\
    exists us, decoded_output P tagf c s = map Some us /\
      forall p pid, dview (rev us) (upfx p) pid =
                    option_map (tag_attrs P tagf c (ss_out P s)) (peer_view P s p pid).
  Proof.
    intros evs j c s Hc Hs HS. pose proof (output_roundtrip c s HS) as HR. split; [exact HR|].
    unfold decoded_output.
    assert (G : forall l obs, Forall2 (written c s) l obs ->
              exists us, map (fun ob => match ob with Some bs => decode_out P c bs | None => None end) obs = map Some us /\
                         Forall2 (decoded_as c s) l us).
    { intros l obs H. induction H as [|m ob l obs [u [bs [u' [Hu [-> [_ [HD HSame]]]]]]] _ [us [E F]]].
      - exists []. split; constructor.
      - exists (u' :: us). split; [cbn [map]; now rewrite HD, E|]. constructor; [|exact F].
        exists u. destruct HSame as [Hw [Hn Ha]]. split; [exact Hu|]. split; [exact Hw|]. split; [exact Hn|].
        apply same_update_attrs. repeat split; assumption. }
    destruct (G _ _ HR) as [us [E F]]. exists us. split; [exact E|].
    intros p pid. unfold peer_view. apply Forall2_rev in F. rewrite rev_involutive in F.
    exact (dview_is_view c s _ _ F (upfx p) pid).
  Qed.
  (* ---------------------------------------------------------------- 3. wire to wire *)

  Theorem wire_to_wire : forall evs j c s,
    let st := sp_pipe P (srun evs) in
    let pc := sp_c P c in
    let ls := rev (ss_lab P s) in
    distinct_peers P cfgs -> locrib_paths_distinct P st ->
    nth_error cs j = Some c -> nth_error (ps_sess P st) j = Some s -> ss_up P s = true ->
    ExportViewSpec.guards (apply (sc_exp P pc)) (sc_sess P pc) (ss_hist P s) -> AdjRIBOut.errs (ss_out P s) = 0%N ->
    UpdateSenderSpec.client_protocol (sc_us P pc) ls -> UpdateSenderSpec.hash_faithful (sc_us P pc) ls ->
    UpdateSenderSpec.all_fit (sc_us P pc) ls -> UpdateSenderSpec.no_withdraw_in_flight (sc_us P pc) ls ->
    log_tracks_table P tagf (sc_us P pc) (ss_out P s) ->
    drained P s = true ->
    sendable P tagf c s ->
    (forall p, Permutation (map ckey (candidates P st p)) (map ckey (union_of_contributions P cfgs st p))) /\
    (forall p, Permutation (map (ExportViewSpec.norm (sc_sess P pc)) (AdjRIBOut.tbl_get p (AdjRIBOut.tbl (ss_out P s))))
                           (map (ExportViewSpec.norm (sc_sess P pc))
                                (ExportViewSpec.export_view (apply (sc_exp P pc)) (sc_sess P pc) p
                                   (visible (sc_opts P pc) (ps_loc P st) (lpfx p))))) /\
    exists us, decoded_output P tagf c s = map Some us /\
      forall p pid, dview (rev us) (upfx p) pid =
                    option_map (tag_attrs P tagf c (ss_out P s)) (keyed_table P tagf (sc_us P pc) (ss_out P s) p pid).
  Proof.
    intros evs j c s st pc ls DP LD Hc Hs Hup G1 G2 U1 U2 U3 U4 LT Dr SD.
    destruct (output_decodes_to_view evs j c s Hc Hs SD) as [_ [us [E V]]].
    destruct (srun_is_run evs) as [pevs EQ]. unfold st in *. clear st. rewrite EQ in *.
    destruct (PipelineSend.peer_view_converges P apply sel tagf sel_ok cfgs pevs j pc s LD (cfgs_nth j c Hc) Hs Hup G1 G2 U1 U2 U3 U4 LT Dr)
      as [PV TB].
    split; [|split].
    - intros p. now apply locrib_is_union_of_contributions.
    - exact TB.
    - exists us. split; [exact E|]. intros p pid. rewrite V, PV. reflexivity.
  Qed.
End Speaker.
