(* C01: simulation between two instances of the parametric trie model (Model/Trie.v).
   If a map f from prefixes X to prefixes Y commutes with the prefix-arithmetic interface on the
   "ok" prefixes (and the supernet of two ok prefixes, where the trie asks for it, is ok), then f,
   applied to every node, commutes with every trie and table operation: the trie over X run on ok
   prefixes is simulated step by step by the trie over Y run on their images. *)
From Coq Require Import List Bool Arith ZArith.
From BioVerif Require Import Model.Trie.
Import ListNotations.

Section TrieSim.
  Variables X Y P : Type.
  Variable peq : P -> P -> bool.
  Variables (eqX contX : X -> X -> bool) (supX : X -> X -> X) (bitX : X -> nat -> bool) (lenX : X -> nat).
  Variables (eqY contY : Y -> Y -> bool) (supY : Y -> Y -> Y) (bitY : Y -> nat -> bool) (lenY : Y -> nat).
  Variable f : X -> Y.
  Variable ok : X -> Prop.

  Hypothesis Heq : forall p x, ok p -> ok x -> eqX p x = eqY (f p) (f x).
  Hypothesis Hcont : forall p x, ok p -> ok x -> contX p x = contY (f p) (f x).
  Hypothesis Hlen : forall p, ok p -> lenX p = lenY (f p).
  (* the only positions the trie reads are "length of an ok prefix, plus one" *)
  Hypothesis Hbit : forall p c, ok p -> ok c -> bitX p (lenX c + 1) = bitY (f p) (lenX c + 1).
  (* the supernet is asked for exactly in this situation (trie.go: addPath -> newSuperNode) *)
  Hypothesis Hsup : forall p c, ok p -> ok c ->
    eqX c p = false -> contX c p = false -> contX p c = false ->
    ok (supX p c) /\ f (supX p c) = supY (f p) (f c).

  Fixpoint mapn (n : node X P) : node Y P :=
    match n with
    | Nil => Nil
    | Node cp d ps l h => Node (f cp) d ps (mapn l) (mapn h)
    end.

  Fixpoint okn (n : node X P) : Prop :=
    match n with
    | Nil => True
    | Node cp _ _ l h => ok cp /\ okn l /\ okn h
    end.

  Definition fr (r : route X P) : route Y P := (f (fst r), snd r).

  Local Notation addX := (addPath X P eqX contX supX bitX lenX).
  Local Notation addY := (addPath Y P eqY contY supY bitY lenY).
  Local Notation remX := (removePath X P peq eqX bitX lenX).
  Local Notation remY := (removePath Y P peq eqY bitY lenY).
  Local Notation getX := (get X P eqX bitX lenX).
  Local Notation getY := (get Y P eqY bitY lenY).
  Local Notation subX := (substPath X P peq eqX bitX lenX).
  Local Notation subY := (substPath Y P peq eqY bitY lenY).
  Local Notation lpmX := (lpm X P eqX contX).
  Local Notation lpmY := (lpm Y P eqY contY).
  Local Notation glnX := (getLongerNode X P eqX contX bitX lenX).
  Local Notation glnY := (getLongerNode Y P eqY contY bitY lenY).

  Lemma addPath_sim : forall n p a, okn n -> ok p ->
    mapn (fst (addX n p a)) = fst (addY (mapn n) (f p) a) /\
    snd (addX n p a) = snd (addY (mapn n) (f p) a) /\
    okn (fst (addX n p a)).
  Proof.
    induction n as [|cp d ps l IHl h IHh]; intros p a Hn Hp.
    - simpl. auto.
    - destruct Hn as (Hcp & Hl & Hh). cbn [addPath mapn].
      rewrite <- (Heq cp p), <- (Hcont cp p), <- (Hcont p cp), <- (Hlen cp), <- (Hbit p cp) by auto.
      destruct (eqX cp p) eqn:E1.
      + simpl. auto.
      + destruct (contX cp p) eqn:E2; cbn [negb].
        * destruct (bitX p (lenX cp + 1)); cbn [negb].
          -- destruct (IHh p a Hh Hp) as (A & B & C).
             destruct (addX h p a) as [h' nw]. destruct (addY (mapn h) (f p) a) as [h2 nw2].
             cbn [fst snd] in *. subst. simpl. auto.
          -- destruct (IHl p a Hl Hp) as (A & B & C).
             destruct (addX l p a) as [l' nw]. destruct (addY (mapn l) (f p) a) as [l2 nw2].
             cbn [fst snd] in *. subst. simpl. auto.
        * destruct (contX p cp) eqn:E3; cbn [fst snd].
          -- unfold insertBefore. rewrite <- (Hlen p), <- (Hbit cp p) by auto.
             destruct (bitX cp (lenX p + 1)); simpl; auto 10.
          -- unfold newSuperNode.
             destruct (Hsup p cp Hp Hcp E1 E2 E3) as (Hs & Fs).
             rewrite <- Fs, <- (Hlen (supX p cp)), <- (Hbit cp (supX p cp)), <- (Hbit p (supX p cp)) by auto.
             destruct (bitX cp (lenX (supX p cp) + 1)), (bitX p (lenX (supX p cp) + 1)); simpl; auto 10.
  Qed.

  Lemma removePath_sim : forall n p a, okn n -> ok p ->
    mapn (fst (remX n p a)) = fst (remY (mapn n) (f p) a) /\
    snd (remX n p a) = snd (remY (mapn n) (f p) a) /\
    okn (fst (remX n p a)).
  Proof.
    induction n as [|cp d ps l IHl h IHh]; intros p a Hn Hp.
    - simpl. auto.
    - destruct Hn as (Hcp & Hl & Hh). cbn [removePath mapn].
      rewrite <- (Heq cp p), <- (Hlen cp), <- (Hbit p cp) by auto.
      destruct (eqX cp p) eqn:E1.
      + destruct d; simpl; auto.
      + destruct (bitX p (lenX cp + 1)); cbn [negb].
        * destruct (IHh p a Hh Hp) as (A & B & C).
          destruct (remX h p a) as [h' fn]. destruct (remY (mapn h) (f p) a) as [h2 fn2].
          cbn [fst snd] in *. subst. simpl. auto.
        * destruct (IHl p a Hl Hp) as (A & B & C).
          destruct (remX l p a) as [l' fn]. destruct (remY (mapn l) (f p) a) as [l2 fn2].
          cbn [fst snd] in *. subst. simpl. auto.
  Qed.

  Lemma get_sim : forall n q, okn n -> ok q ->
    option_map fr (getX n q) = getY (mapn n) (f q).
  Proof.
    induction n as [|cp d ps l IHl h IHh]; intros q Hn Hq; [reflexivity|].
    destruct Hn as (Hcp & Hl & Hh). cbn [get mapn].
    rewrite <- (Heq cp q), <- (Hlen cp), <- (Hlen q), <- (Hbit q cp) by auto.
    destruct (eqX cp q).
    - destruct d; reflexivity.
    - destruct (lenX q <? lenX cp); [reflexivity|].
      destruct (bitX q (lenX cp + 1)); cbn [negb]; auto.
  Qed.

  Lemma substPath_sim : forall n q o nw, okn n -> ok q ->
    mapn (subX n q o nw) = subY (mapn n) (f q) o nw /\ okn (subX n q o nw).
  Proof.
    induction n as [|cp d ps l IHl h IHh]; intros q o nw Hn Hq; [simpl; auto|].
    destruct Hn as (Hcp & Hl & Hh). cbn [substPath mapn].
    rewrite <- (Heq cp q), <- (Hlen cp), <- (Hlen q), <- (Hbit q cp) by auto.
    destruct (eqX cp q).
    - destruct d; simpl; auto.
    - destruct (lenX q <? lenX cp); [simpl; auto|].
      destruct (bitX q (lenX cp + 1)); cbn [negb].
      + destruct (IHh q o nw Hh Hq) as (A & B). simpl. rewrite A. auto.
      + destruct (IHl q o nw Hl Hq) as (A & B). simpl. rewrite A. auto.
  Qed.

  Lemma lpm_sim : forall n q, okn n -> ok q -> map fr (lpmX n q) = lpmY (mapn n) (f q).
  Proof.
    induction n as [|cp d ps l IHl h IHh]; intros q Hn Hq; [reflexivity|].
    destruct Hn as (Hcp & Hl & Hh). cbn [lpm mapn].
    rewrite <- (Heq cp q), <- (Hcont cp q) by auto.
    destruct (eqX cp q && negb d); [reflexivity|].
    destruct (contX cp q); cbn [negb]; [|reflexivity].
    rewrite !map_app, IHl, IHh by auto. destruct d; reflexivity.
  Qed.

  Lemma dump_sim : forall n, map fr (dump X P n) = dump Y P (mapn n).
  Proof.
    induction n as [|cp d ps l IHl h IHh]; [reflexivity|].
    cbn [dump mapn]. rewrite !map_app, IHl, IHh. destruct d; reflexivity.
  Qed.

  Lemma okn_sub : forall n q, okn n -> okn (glnX n q).
  Proof.
    induction n as [|cp d ps l IHl h IHh]; intros q Hn; [exact I|].
    pose proof Hn as (Hcp & Hl & Hh). cbn [getLongerNode].
    destruct (eqX cp q || contX q cp); auto.
    destruct (contX cp q); cbn [negb]; [|exact I].
    destruct (bitX q (lenX cp + 1)); cbn [negb]; auto.
  Qed.

  Lemma getLongerNode_sim : forall n q, okn n -> ok q ->
    mapn (glnX n q) = glnY (mapn n) (f q).
  Proof.
    induction n as [|cp d ps l IHl h IHh]; intros q Hn Hq; [reflexivity|].
    destruct Hn as (Hcp & Hl & Hh). cbn [getLongerNode mapn].
    rewrite <- (Heq cp q), <- (Hcont cp q), <- (Hcont q cp), <- (Hlen cp), <- (Hbit q cp) by auto.
    destruct (eqX cp q || contX q cp); [reflexivity|].
    destruct (contX cp q); cbn [negb]; [|reflexivity].
    destruct (bitX q (lenX cp + 1)); cbn [negb]; auto.
  Qed.

  (* ---- tables *)
  Definition mapt (t : table X P) : table Y P := mkT Y P (mapn (root X P t)) (count X P t).
  Definition okt (t : table X P) : Prop := okn (root X P t).

  Local Notation taddX := (t_addPath X P eqX contX supX bitX lenX).
  Local Notation taddY := (t_addPath Y P eqY contY supY bitY lenY).
  Local Notation tremX := (t_removePath X P peq eqX bitX lenX).
  Local Notation tremY := (t_removePath Y P peq eqY bitY lenY).
  Local Notation tremsX := (t_removePaths X P peq eqX bitX lenX).
  Local Notation tremsY := (t_removePaths Y P peq eqY bitY lenY).
  Local Notation stepX := (step X P peq eqX contX supX bitX lenX).
  Local Notation stepY := (step Y P peq eqY contY supY bitY lenY).

  Lemma t_addPath_sim : forall t p a, okt t -> ok p ->
    mapt (taddX t p a) = taddY (mapt t) (f p) a /\ okt (taddX t p a).
  Proof.
    intros t p a Ht Hp. unfold t_addPath, mapt, okt in *. cbn [root count].
    destruct (addPath_sim (root X P t) p a Ht Hp) as (A & B & C).
    destruct (addX (root X P t) p a) as [r nw].
    destruct (addY (mapn (root X P t)) (f p) a) as [r2 nw2].
    cbn [fst snd root count] in *. subst. auto.
  Qed.

  Lemma t_removePath_sim : forall t p a, okt t -> ok p ->
    mapt (tremX t p a) = tremY (mapt t) (f p) a /\ okt (tremX t p a).
  Proof.
    intros t p a Ht Hp. unfold t_removePath, mapt, okt in *. cbn [root count].
    destruct (removePath_sim (root X P t) p a Ht Hp) as (A & B & C).
    destruct (remX (root X P t) p a) as [r fn].
    destruct (remY (mapn (root X P t)) (f p) a) as [r2 fn2].
    cbn [fst snd root count] in *. subst. auto.
  Qed.

  Lemma t_removePaths_sim : forall ps t p, okt t -> ok p ->
    mapt (tremsX t p ps) = tremsY (mapt t) (f p) ps /\ okt (tremsX t p ps).
  Proof.
    unfold t_removePaths.
    induction ps as [|a ps IH]; intros t p Ht Hp; [simpl; auto|].
    simpl. destruct (t_removePath_sim t p a Ht Hp) as (A & B).
    rewrite <- A. apply IH; auto.
  Qed.

  Lemma t_get_sim : forall t q, okt t -> ok q ->
    option_map fr (t_get X P eqX bitX lenX t q) = t_get Y P eqY bitY lenY (mapt t) (f q).
  Proof. intros t q Ht Hq. unfold t_get, mapt. cbn [root]. apply get_sim; auto. Qed.

  Definition okop (o : op X P) : Prop :=
    match o with
    | Add _ _ p _ | Remove _ _ p _ | Replace _ _ p _ | RemovePfx _ _ p | Subst _ _ p _ _ => ok p
    end.

  Definition mapop (o : op X P) : op Y P :=
    match o with
    | Add _ _ p a => Add Y P (f p) a
    | Remove _ _ p a => Remove Y P (f p) a
    | Replace _ _ p a => Replace Y P (f p) a
    | RemovePfx _ _ p => RemovePfx Y P (f p)
    | Subst _ _ p o n => Subst Y P (f p) o n
    end.

  Lemma step_sim : forall t o, okt t -> okop o ->
    mapt (stepX t o) = stepY (mapt t) (mapop o) /\ okt (stepX t o).
  Proof.
    intros t [p a|p a|p a|p|p o nw] Ht Ho; cbn [step mapop okop] in *.
    - apply t_addPath_sim; auto.
    - apply t_removePath_sim; auto.
    - unfold t_replacePath. rewrite <- (t_get_sim t p Ht Ho).
      destruct (t_get X P eqX bitX lenX t p) as [r|]; cbn [option_map].
      + cbn [fr snd]. destruct (t_removePaths_sim (snd r) t p Ht Ho) as (A & B).
        rewrite <- A. apply t_addPath_sim; auto.
      + apply t_addPath_sim; auto.
    - unfold t_removePfx. rewrite <- (t_get_sim t p Ht Ho).
      destruct (t_get X P eqX bitX lenX t p) as [r|]; cbn [option_map]; auto.
      cbn [fr snd]. apply t_removePaths_sim; auto.
    - unfold t_substPath, mapt, okt in *. cbn [root count].
      destruct (substPath_sim (root X P t) p o nw Ht Ho) as (A & B). rewrite A. auto.
  Qed.

  Lemma fold_sim : forall ops t, okt t -> Forall okop ops ->
    mapt (fold_left stepX ops t) = fold_left stepY (map mapop ops) (mapt t) /\
    okt (fold_left stepX ops t).
  Proof.
    induction ops as [|o ops IH]; intros t Ht Ho; [simpl; auto|].
    inversion Ho; subst. simpl.
    destruct (step_sim t o Ht H1) as (A & B). rewrite <- A. apply IH; auto.
  Qed.

  Theorem run_sim : forall ops, Forall okop ops ->
    mapt (run X P peq eqX contX supX bitX lenX ops) =
      run Y P peq eqY contY supY bitY lenY (map mapop ops) /\
    okt (run X P peq eqX contX supX bitX lenX ops).
  Proof. intros ops Ho. unfold run. apply (fold_sim ops (empty X P)); [exact I|exact Ho]. Qed.

  (* the observations of the table over X, mapped, are those of the table over Y *)
  Theorem observations_sim : forall t q, okt t -> ok q ->
    option_map fr (t_get X P eqX bitX lenX t q) = t_get Y P eqY bitY lenY (mapt t) (f q) /\
    map fr (t_lpm X P eqX contX t q) = t_lpm Y P eqY contY (mapt t) (f q) /\
    map fr (t_getLonger X P eqX contX bitX lenX t q) =
      t_getLonger Y P eqY contY bitY lenY (mapt t) (f q) /\
    map fr (t_dump X P t) = t_dump Y P (mapt t) /\
    count X P t = count Y P (mapt t).
  Proof.
    intros t q Ht Hq. split; [apply t_get_sim; auto|]. split; [|split; [|split]].
    - unfold t_lpm, mapt. cbn [root]. apply lpm_sim; auto.
    - unfold t_getLonger, mapt. cbn [root]. rewrite dump_sim. f_equal. apply getLongerNode_sim; auto.
    - unfold t_dump, mapt. cbn [root]. apply dump_sim.
    - reflexivity.
  Qed.
End TrieSim.
