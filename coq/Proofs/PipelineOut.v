(* Pipeline, part 4: the sending side of the composed model.
   - what a Loc-RIB operation delivers to ONE session's Adj-RIB-Out (projection of the callback list);
   - on Loc-RIBs that hold no two indistinguishable paths for a prefix, the callbacks of a route change are
     exactly Model.LocView.change_ops of the view before and after (C08's Loc-RIB abstraction), hence
   - the Adj-RIB-Out of every registered session is Model.LocView.feed over the recorded view history (ss_hist),
     and the view is the first 1/N selected candidates (C04's want);
   - with C08 (ribout_is_export_view_partial) as a black box: the Adj-RIB-Out is the export view of the selection;
   - the update sender of every session is a run of the component model on the recorded labels, whose
     Add / Remove labels are exactly the Adj-RIB-Out's calls on its client; with C10 (converges_partial) as a
     black box: once drained the peer's view is what those calls amount to. *)
From Coq Require Import List NArith Bool Arith Lia Permutation.
Import ListNotations.
From BioVerif Require Import Model.Pipeline Spec.PipelineSpec Proofs.PipelineIn Proofs.PipelineLoc Proofs.PipelineProofs.
From BioVerif Require Model.AdjRIBIn Model.LocRIBClients Model.AdjRIBOut Model.UpdateSender Model.LocView
  Spec.AdjRIBInSpec Spec.LocRIBClientsSpec Spec.ExportViewSpec Spec.UpdateSenderSpec
  Proofs.AdjRIBInProofs Proofs.LocRIBClientsProofs Proofs.ExportViewC Proofs.UpdateSenderProofs.
Local Open Scope nat_scope.

Import LocRIBClients.

(* ------------------------------------------------------------------ object ids and values *)

Section Diff.
  Notation path := AdjRIBOut.path.

  (* U: a duplicate-free universe both lists live in: an object id determines the value and vice versa *)
  Lemma diff_values : forall (U A B : list (entry path)),
    NoDup (map fst U) -> NoDup (map snd U) -> incl A U -> incl B U ->
    map snd (paths_diff path A B) = LocView.paths_diff (map snd A) (map snd B).
  Proof.
    intros U A B NF NS HA HB. unfold paths_diff, LocView.paths_diff.
    induction A as [|e A IH]; [reflexivity|]. cbn [filter map].
    assert (HA' : incl A U) by (intros x Hx; apply HA; now right).
    assert (E : has_oid path (fst e) B = LocView.mem_path (snd e) (map snd B)).
    { unfold LocView.mem_path. destruct (in_dec LocView.path_eq_dec (snd e) (map snd B)) as [HI|HN].
      - apply in_map_iff in HI. destruct HI as [y [Ey Hy]].
        assert (y = e) by (apply (AdjRIBInProofs.NoDup_map_inj_in snd U y e NS (HB y Hy) (HA e (or_introl eq_refl)) Ey)).
        subst y. apply LocRIBClientsProofs.has_oid_In. now apply in_map.
      - apply not_true_is_false. intros HO. apply LocRIBClientsProofs.has_oid_In in HO.
        apply in_map_iff in HO. destruct HO as [y [Ey Hy]].
        assert (y = e) by (apply (AdjRIBInProofs.NoDup_map_inj_in fst U y e NF (HB y Hy) (HA e (or_introl eq_refl)) Ey)).
        subst y. apply HN. now apply in_map. }
    rewrite E. destruct (LocView.mem_path (snd e) (map snd B)); cbn [negb map]; now rewrite IH.
  Qed.
End Diff.

(* ------------------------------------------------------------------ maps keyed by nat *)

Lemma flat_map_lookup : forall (A B : Type) (g : A -> list B) (j : nat) (m : list (nat * A)),
  NoDup (map fst m) ->
  flat_map (fun kv : nat * A => if fst kv =? j then g (snd kv) else []) m =
  match lookup j m with Some o => g o | None => [] end.
Proof.
  intros A B g j m. induction m as [|[k v] m IH]; intros ND; [reflexivity|].
  inversion ND as [|x l Hn ND']; subst. cbn [flat_map fst snd lookup].
  destruct (k =? j) eqn:E.
  - apply Nat.eqb_eq in E. subst k. rewrite IH by assumption.
    assert (HL : lookup j m = None) by (apply LocRIBClientsProofs.lookup_None_keys; exact Hn).
    rewrite HL. apply app_nil_r.
  - now apply IH.
Qed.

Section Out.
  Variable P : Type.
  Variable apply : P -> N -> AdjRIBOut.path -> option AdjRIBOut.path.
  Variable sel : nat -> list (entry AdjRIBOut.path) -> list (entry AdjRIBOut.path) * nat.
  Variable tagf : AdjRIBOut.bgp -> N.
  Hypothesis Hsel : LocRIBClientsSpec.sel_ok AdjRIBOut.path sel.
  Variable cfgs : list (scfg P).

  Notation path := AdjRIBOut.path.
  Notation sst := (sst P).
  Notation pst := (pst P).
  Notation lstep := (step path AdjRIBOut.path_compare AdjRIBOut.path_equal sel).
  Notation loc_op := (Pipeline.loc_op P apply sel tagf cfgs).
  Notation in_op := (Pipeline.in_op P apply sel tagf cfgs).
  Notation pstep := (Pipeline.step P apply sel tagf cfgs).
  Notation prun := (Pipeline.run P apply sel tagf cfgs).
  Notation deliver := (Pipeline.deliver P apply tagf cfgs).

  (* ---------------------------------------------------------------- what one session sees of a callback list *)

  Definition cb_to (j : nat) (c : scfg P) (s : sst) (b : cb path) : sst :=
    match b with
    | CbAdd k p e | CbDump k p e => if k =? j then aro_call P apply tagf c (AdjRIBOut.OAdd (N.of_nat p) (snd e)) s else s
    | CbRemove k p e => if k =? j then aro_call P apply tagf c (AdjRIBOut.ORemove (N.of_nat p) (snd e)) s else s
    | CbEndOfRIB k => if k =? j then aro_eor P c s else s
    | CbRefresh _ _ _ => s
    end.

  Lemma with_cfg_nth : forall k j f ss c, nth_error cfgs j = Some c ->
    nth_error (with_cfg P cfgs k f ss) j = option_map (fun s => if k =? j then f c s else s) (nth_error ss j).
  Proof.
    intros k j f ss c Hc. unfold with_cfg. destruct (Nat.eqb_spec k j) as [->|NE].
    - rewrite Hc. destruct (nth_error ss j) as [s|] eqn:Hs.
      + now rewrite (nth_error_upd_same _ j (f c) ss s Hs).
      + rewrite upd_nth_none by assumption. now rewrite Hs.
    - destruct (nth_error cfgs k) as [ck|].
      + rewrite nth_error_upd_other by congruence. now destruct (nth_error ss j).
      + now destruct (nth_error ss j).
  Qed.

  Lemma deliver_nth : forall j c ss b, nth_error cfgs j = Some c ->
    nth_error (deliver ss b) j = option_map (fun s => cb_to j c s b) (nth_error ss j).
  Proof.
    intros j c ss b Hc. destruct b as [k p e|k p e|k p e|k|k p es]; cbn [Pipeline.deliver cb_to].
    - now rewrite (with_cfg_nth k j _ ss c Hc).
    - now rewrite (with_cfg_nth k j _ ss c Hc).
    - now rewrite (with_cfg_nth k j _ ss c Hc).
    - now rewrite (with_cfg_nth k j _ ss c Hc).
    - now destruct (nth_error ss j).
  Qed.

  Lemma deliver_fold_nth : forall j c cbs ss, nth_error cfgs j = Some c ->
    nth_error (fold_left deliver cbs ss) j = option_map (fun s => fold_left (cb_to j c) cbs s) (nth_error ss j).
  Proof.
    intros j c cbs. induction cbs as [|b cbs IH]; intros ss Hc; cbn [fold_left].
    - now destruct (nth_error ss j).
    - rewrite IH by assumption. rewrite (deliver_nth j c ss b Hc). now destruct (nth_error ss j).
  Qed.

  (* the Adj-RIB-Out operations a callback list means for session j *)
  Definition ops_of (j : nat) (cbs : list (cb path)) : list (AdjRIBOut.op P) :=
    flat_map (fun b => match b with
                       | CbAdd k p e | CbDump k p e => if k =? j then [AdjRIBOut.OAdd (N.of_nat p) (snd e)] else []
                       | CbRemove k p e => if k =? j then [AdjRIBOut.ORemove (N.of_nat p) (snd e)] else []
                       | _ => []
                       end) cbs.

  Lemma cb_to_frame : forall j c s b,
    ss_up P (cb_to j c s b) = ss_up P s /\ ss_in P (cb_to j c s b) = ss_in P s /\
    ss_ops P (cb_to j c s b) = ss_ops P s /\ ss_hist P (cb_to j c s b) = ss_hist P s.
  Proof.
    intros j c s b. destruct b as [k p e|k p e|k p e|k|k p es]; cbn [cb_to]; try destruct (k =? j); repeat split; reflexivity.
  Qed.

  Lemma cb_to_out : forall j c cbs s,
    ss_out P (fold_left (cb_to j c) cbs s) =
    fold_left (AdjRIBOut.step P apply (sc_sess P c)) (ops_of j cbs) (ss_out P s).
  Proof.
    intros j c cbs. induction cbs as [|b cbs IH]; intros s; cbn [fold_left ops_of flat_map]; [reflexivity|].
    rewrite fold_left_app, IH. f_equal.
    destruct b as [k p e|k p e|k p e|k|k p es]; cbn [cb_to]; try destruct (k =? j); reflexivity.
  Qed.

  Lemma cb_to_fold_frame : forall j c cbs s,
    ss_up P (fold_left (cb_to j c) cbs s) = ss_up P s /\ ss_hist P (fold_left (cb_to j c) cbs s) = ss_hist P s.
  Proof.
    intros j c cbs. induction cbs as [|b cbs IH]; intros s; cbn [fold_left]; [auto|].
    destruct (IH (cb_to j c s b)) as [E1 E2]. destruct (cb_to_frame j c s b) as [F1 [_ [_ F4]]]. split; congruence.
  Qed.

  Lemma ops_of_app : forall j a b, ops_of j (a ++ b) = ops_of j a ++ ops_of j b.
  Proof. intros. unfold ops_of. apply flat_map_app. Qed.

  Lemma ops_of_map_remove : forall j k p (l : list (entry path)),
    ops_of j (map (CbRemove k p) l) = if k =? j then map (AdjRIBOut.ORemove (N.of_nat p)) (map snd l) else [].
  Proof.
    intros j k p l. induction l as [|e l IH]; cbn [map ops_of flat_map]; [now destruct (k =? j)|].
    fold (ops_of j (map (CbRemove k p) l)). rewrite IH. now destruct (k =? j).
  Qed.

  Lemma ops_of_map_add : forall j k p (l : list (entry path)),
    ops_of j (map (CbAdd k p) l) = if k =? j then map (AdjRIBOut.OAdd (N.of_nat p)) (map snd l) else [].
  Proof.
    intros j k p l. induction l as [|e l IH]; cbn [map ops_of flat_map]; [now destruct (k =? j)|].
    fold (ops_of j (map (CbAdd k p) l)). rewrite IH. now destruct (k =? j).
  Qed.

  Lemma ops_of_map_dump : forall j k p (l : list (entry path)),
    ops_of j (map (CbDump k p) l) = if k =? j then map (AdjRIBOut.OAdd (N.of_nat p)) (map snd l) else [].
  Proof.
    intros j k p l. induction l as [|e l IH]; cbn [map ops_of flat_map]; [now destruct (k =? j)|].
    fold (ops_of j (map (CbDump k p) l)). rewrite IH. now destruct (k =? j).
  Qed.

  Lemma ops_of_flat : forall j (A : Type) (g : A -> list (cb path)) (l : list A),
    ops_of j (flat_map g l) = flat_map (fun x => ops_of j (g x)) l.
  Proof.
    intros j A g l. induction l as [|x l IH]; [reflexivity|]. cbn [flat_map]. now rewrite ops_of_app, IH.
  Qed.

  (* LocRIB.propagateChanges, seen by client j *)
  Lemma ops_of_propagate : forall j cl p oldr newr, NoDup (map fst cl) ->
    ops_of j (propagate path cl p oldr newr) =
    match lookup j cl with
    | Some o =>
      map (AdjRIBOut.ORemove (N.of_nat p)) (map snd (paths_diff path (limit_slice path o oldr) (limit_slice path o newr))) ++
      map (AdjRIBOut.OAdd (N.of_nat p)) (map snd (paths_diff path (limit_slice path o newr) (limit_slice path o oldr)))
    | None => []
    end.
  Proof.
    intros j cl p oldr newr ND. unfold propagate, remove_from_clients, add_to_clients.
    rewrite ops_of_app, !ops_of_flat.
    rewrite (flat_map_ext _ (fun kv : nat * opts => if fst kv =? j
               then map (AdjRIBOut.ORemove (N.of_nat p)) (map snd (paths_diff path (limit_slice path (snd kv) oldr) (limit_slice path (snd kv) newr))) else []))
      by (intros kv; apply ops_of_map_remove).
    rewrite (flat_map_ext (fun x => ops_of j (map (CbAdd (fst x) p) _)) (fun kv : nat * opts => if fst kv =? j
               then map (AdjRIBOut.OAdd (N.of_nat p)) (map snd (paths_diff path (limit_slice path (snd kv) newr) (limit_slice path (snd kv) oldr))) else []))
      by (intros kv; apply ops_of_map_add).
    rewrite (flat_map_lookup opts _ (fun o => map (AdjRIBOut.ORemove (N.of_nat p)) (map snd (paths_diff path (limit_slice path o oldr) (limit_slice path o newr)))) j cl ND).
    rewrite (flat_map_lookup opts _ (fun o => map (AdjRIBOut.OAdd (N.of_nat p)) (map snd (paths_diff path (limit_slice path o newr) (limit_slice path o oldr)))) j cl ND).
    now destruct (lookup j cl).
  Qed.

  (* ---------------------------------------------------------------- the sending half in step with the Loc-RIB *)

  Definition feedof (c : scfg P) (s : sst) : LocView.view * AdjRIBOut.aro P :=
    LocView.feed P apply (sc_sess P c) (sc_exp P c) (ss_hist P s).

  (* a registered session: its Adj-RIB-Out is what Model.LocView.feed computes from the recorded views, and the view
     is the first 1/N selected candidates of every prefix; an unregistered one is down, or fresh *)
  Definition Osess (loc : state path) (j : nat) (c : scfg P) (s : sst) : Prop :=
    match lookup j (clients loc) with
    | Some o =>
      o = sc_opts P c /\ ss_up P s = true /\ ss_out P s = snd (feedof c s) /\
      forall p : nat, LocView.view_get (N.of_nat p) (fst (feedof c s)) = visible o loc p
    | None => ss_up P s = false \/ (ss_out P s = AdjRIBOut.init P (sc_exp P c) /\ ss_hist P s = [])
    end.

  Record Oinv (st : pst) : Prop := mkOinv {
    o_len : length (ps_sess P st) = length cfgs;
    o_rinv : exists tr, LocRIBClientsProofs.RInv path (ps_loc P st) /\ LocRIBClientsProofs.CInv path (ps_loc P st) tr;
    o_seen : forall p, vals (ps_loc P st) p = [] \/ In (vals (ps_loc P st) p) (ps_seen P st);
    o_sess : forall j c s, nth_error cfgs j = Some c -> nth_error (ps_sess P st) j = Some s -> Osess (ps_loc P st) j c s
  }.

  Lemma note_views_nth : forall loc ps only ss j,
    nth_error (note_views P loc ps only ss) j =
    option_map (fun s => match lookup j (clients loc) with
                         | Some o => if match only with Some k' => j =? k' | None => true end
                                     then set_hist P s (ss_hist P s ++ map (fun p => (N.of_nat p, visible o loc p)) ps) else s
                         | None => s end) (nth_error ss j).
  Proof.
    intros loc ps only ss j. unfold note_views.
    assert (G : forall n, nth_error (map (fun ks : nat * sst => let (k, s) := ks in
                match lookup k (clients loc) with
                | Some o => if match only with Some k' => k =? k' | None => true end
                            then set_hist P s (ss_hist P s ++ map (fun p => (N.of_nat p, visible o loc p)) ps) else s
                | None => s end) (combine (seq n (length ss)) ss)) j =
              option_map (fun s => match lookup (n + j) (clients loc) with
                         | Some o => if match only with Some k' => n + j =? k' | None => true end
                                     then set_hist P s (ss_hist P s ++ map (fun p => (N.of_nat p, visible o loc p)) ps) else s
                         | None => s end) (nth_error ss j)).
    { revert j. induction ss as [|s ss IH]; intros [|j] n; cbn [length seq combine map nth_error option_map]; try reflexivity.
      - now rewrite Nat.add_0_r.
      - rewrite IH. now rewrite Nat.add_succ_r. }
    apply (G 0).
  Qed.

  Lemma note_views_length : forall loc ps only ss, length (note_views P loc ps only ss) = length ss.
  Proof. intros. rewrite <- (map_length (inpart P)), (note_views_inpart P). apply map_length. Qed.

  Lemma deliver_fold_length : forall cbs ss, length (fold_left deliver cbs ss) = length ss.
  Proof. intros. rewrite <- (map_length (inpart P)), (deliver_fold_inpart P apply tagf cfgs). apply map_length. Qed.

  Lemma lv_diff_self : forall l, LocView.paths_diff l l = [].
  Proof.
    intros l. unfold LocView.paths_diff.
    assert (G : forall m, incl m l -> filter (fun p => negb (LocView.mem_path p l)) m = []).
    { induction m as [|x m IH]; intros HI; [reflexivity|]. cbn [filter].
      assert (E : LocView.mem_path x l = true).
      { unfold LocView.mem_path. destruct (in_dec LocView.path_eq_dec x l) as [_|N]; [reflexivity|]. exfalso. apply N. apply HI. now left. }
      rewrite E. cbn [negb]. apply IH. intros y Hy. apply HI. now right. }
    apply G. apply incl_refl.
  Qed.

  Lemma lv_diff_nil_r : forall l, LocView.paths_diff l [] = l.
  Proof.
    intros l. unfold LocView.paths_diff. induction l as [|x l IH]; [reflexivity|]. cbn [filter].
    replace (LocView.mem_path x []) with false by reflexivity. cbn [negb]. f_equal. exact IH.
  Qed.

  Lemma visible_route : forall o loc p, visible o loc p = map snd (limit_slice path o (route_at loc p)).
  Proof. reflexivity. Qed.

  Lemma limit_slice_incl : forall o (r : route path), incl (limit_slice path o r) (paths r).
  Proof. intros o r x Hx. unfold limit_slice in Hx. eapply LocRIBClientsProofs.In_firstn; eassumption. Qed.

  Lemma cb_to_other : forall j c s b, LocRIBClientsSpec.cb_cid path b <> j -> cb_to j c s b = s.
  Proof.
    intros j c s b H. destruct b as [k p e|k p e|k p e|k|k p es]; cbn [cb_to LocRIBClientsSpec.cb_cid] in *; try reflexivity;
      destruct (Nat.eqb_spec k j); congruence.
  Qed.

  Lemma cb_to_fold_other : forall j c cbs s, (forall b, In b cbs -> LocRIBClientsSpec.cb_cid path b <> j) -> fold_left (cb_to j c) cbs s = s.
  Proof.
    intros j c cbs. induction cbs as [|b cbs IH]; intros s H; cbn [fold_left]; [reflexivity|].
    rewrite cb_to_other by (apply H; now left). apply IH. intros x Hx. apply H. now right.
  Qed.

  (* one step of feed *)
  Lemma feed_snoc : forall c h ch,
    LocView.feed P apply (sc_sess P c) (sc_exp P c) (h ++ [ch]) =
    LocView.feed_step P apply (sc_sess P c) (LocView.feed P apply (sc_sess P c) (sc_exp P c) h) ch.
  Proof. intros. unfold LocView.feed. now rewrite fold_left_app. Qed.

  Lemma of_nat_neq : forall p p' : nat, p <> p' -> N.of_nat p <> N.of_nat p'.
  Proof. intros p p' H E. apply H. now apply Nat2N.inj. Qed.

  (* ---------------------------------------------------------------- a route change of the Loc-RIB *)

  Lemma limit_slice_nil : forall o, limit_slice path o (nil_route (val := path)) = [].
  Proof. intros o. unfold limit_slice. cbn. now rewrite Nat.min_0_r. Qed.

  Lemma limit_slice_stored : forall o (loc : state path) p newr cl t,
    limit_slice path o (route_at (mkState (store path p newr (routes loc)) cl t) p) = limit_slice path o newr.
  Proof.
    intros o loc p newr cl t. rewrite route_at_store, Nat.eqb_refl.
    destruct (paths newr) eqn:E; [|reflexivity].
    rewrite limit_slice_nil. unfold limit_slice. rewrite E. now destruct (Nat.min _ _).
  Qed.

  Lemma Oinv_change : forall st p newr tr',
    Oinv st ->
    let loc := ps_loc P st in
    let oldr := route_at loc p in
    let loc' := mkState (store path p newr (routes loc)) (clients loc) (S (clock loc)) in
    let cbs := propagate path (clients loc) p oldr newr in
    LocRIBClientsProofs.RInv path loc' -> LocRIBClientsProofs.CInv path loc' tr' ->
    (exists U, NoDup (map fst U) /\ NoDup (map snd U) /\ incl (paths oldr) U /\ incl (paths newr) U) ->
    Oinv (mkPst P (note_views P loc' [p] None (fold_left deliver cbs (ps_sess P st))) loc' (ps_panic P st)
                (ps_seen P st ++ [vals loc' p])).
  Proof.
    intros st p newr tr' [HL [tr [HR HC]] HS HO] loc oldr loc' cbs HR' HC' [U [UF [US [UO UN]]]].
    constructor; cbn [ps_sess ps_loc ps_seen].
    - now rewrite note_views_length, deliver_fold_length.
    - eauto.
    - intros p'. destruct (Nat.eq_dec p p') as [<-|NE].
      + right. apply in_or_app. right. now left.
      + assert (E : vals loc' p' = vals loc p').
        { unfold loc'. rewrite vals_store. destruct (p =? p') eqn:E; [apply Nat.eqb_eq in E; congruence|reflexivity]. }
        rewrite E. destruct (HS p') as [H|H]; [now left|right; apply in_or_app; now left].
    - intros j c s' Hc Hs'. rewrite note_views_nth, (deliver_fold_nth j c cbs _ Hc) in Hs'.
      destruct (nth_error (ps_sess P st) j) as [s0|] eqn:Hs0; [|discriminate]. cbn [option_map] in Hs'.
      pose proof (HO j c s0 Hc Hs0) as O0. unfold Osess in *. fold loc in O0.
      change (clients loc') with (clients loc) in *.
      set (s1 := fold_left (cb_to j c) cbs s0) in *.
      destruct (cb_to_fold_frame j c cbs s0) as [Fu Fh]. fold s1 in Fu, Fh.
      destruct (lookup j (clients loc)) as [o|] eqn:EL.
      + inversion Hs'; subst s'. clear Hs'. destruct O0 as [Eo [Hu [Hout Hview]]].
        cbn [set_hist ss_up ss_out ss_hist].
        split; [exact Eo|]. split; [congruence|].
        unfold feedof in *. cbn [set_hist ss_hist]. cbn [map]. rewrite Fh, feed_snoc.
        destruct (LocView.feed P apply (sc_sess P c) (sc_exp P c) (ss_hist P s0)) as [v a] eqn:EF.
        cbn [fst snd] in Hout, Hview. cbn [LocView.feed_step fst snd].
        assert (ND : NoDup (map fst (clients loc))) by (destruct HR as [_ [H _]]; exact H).
        assert (Eold : LocView.view_get (N.of_nat p) v = map snd (limit_slice path o oldr)) by (rewrite Hview; reflexivity).
        assert (Enew : visible o loc' p = map snd (limit_slice path o newr)).
        { rewrite visible_route. unfold loc'. now rewrite limit_slice_stored. }
        split.
        * unfold s1. rewrite cb_to_out, Hout. f_equal. unfold cbs. rewrite (ops_of_propagate j _ p oldr newr ND), EL.
          unfold LocView.change_ops. rewrite Eold, Enew.
          assert (IO : incl (limit_slice path o oldr) U) by (intros x Hx; apply UO; eapply limit_slice_incl; exact Hx).
          assert (IN : incl (limit_slice path o newr) U) by (intros x Hx; apply UN; eapply limit_slice_incl; exact Hx).
          rewrite (diff_values U _ _ UF US IO IN), (diff_values U _ _ UF US IN IO).
          reflexivity.
        * intros p'. destruct (Nat.eq_dec p p') as [<-|NE].
          -- now rewrite ExportViewC.view_get_set_same.
          -- rewrite ExportViewC.view_get_set_other by (now apply of_nat_neq). rewrite Hview.
             rewrite !visible_route. unfold loc'. rewrite route_at_store.
             destruct (p =? p') eqn:E; [apply Nat.eqb_eq in E; congruence|reflexivity].
      + inversion Hs'; subst s'. clear Hs'.
        assert (E1 : s1 = s0).
        { unfold s1. apply cb_to_fold_other. intros b Hb. apply LocRIBClientsProofs.propagate_cid in Hb.
          intros E. apply LocRIBClientsProofs.lookup_None_keys in EL. apply EL. now rewrite <- E. }
        now rewrite E1.
  Qed.

  Lemma paths_stored : forall (loc : state path) p newr cl t,
    paths (route_at (mkState (store path p newr (routes loc)) cl t) p) = paths newr.
  Proof.
    intros. rewrite route_at_store, Nat.eqb_refl. destruct (paths newr) eqn:E; [reflexivity|exact E].
  Qed.

  Lemma del_absent : forall (A : Type) (m : list (nat * A)) k, lookup k m = None -> del k m = m.
  Proof.
    intros A m k. unfold del. induction m as [|[k' v] m IH]; intros H; [reflexivity|]. cbn [lookup filter fst] in *.
    destruct (k' =? k) eqn:E; [discriminate|]. cbn [negb]. f_equal. now apply IH.
  Qed.

  Lemma propagate_nil : forall cl p, propagate path cl p (nil_route (val := path)) (nil_route (val := path)) = [].
  Proof.
    intros cl p. unfold propagate, remove_from_clients, add_to_clients.
    assert (G : forall o, paths_diff path (limit_slice path o (nil_route (val := path))) (limit_slice path o (nil_route (val := path))) = []).
    { intros o. now rewrite limit_slice_nil. }
    induction cl as [|co cl IH]; [reflexivity|]. cbn [flat_map]. rewrite G. cbn [map app].
    apply app_eq_nil in IH. destruct IH as [I1 I2]. now rewrite I1, I2.
  Qed.

  Lemma seen_last_nodup : forall (l : list (list path)) x, Forall (@NoDup path) (l ++ [x]) -> NoDup x /\ Forall (@NoDup path) l.
  Proof. intros l x H. apply Forall_app in H. destruct H as [H1 H2]. inversion H2; subst. auto. Qed.

  Lemma loc_op_add_eq : forall st p v,
    loc_op st (OAdd p v) =
    let loc := ps_loc P st in
    let newr := selected path sel (clock loc) (paths (route_at loc p) ++ [(clock loc, v)]) in
    let loc' := mkState (store path p newr (routes loc)) (clients loc) (S (clock loc)) in
    mkPst P (note_views P loc' [p] None (fold_left deliver (propagate path (clients loc) p (route_at loc p) newr) (ps_sess P st)))
          loc' (ps_panic P st) (ps_seen P st ++ [vals loc' p]).
  Proof. reflexivity. Qed.

  Lemma Oinv_loc_add : forall st p v,
    Oinv st -> Forall (@NoDup path) (ps_seen P (loc_op st (OAdd p v))) -> Oinv (loc_op st (OAdd p v)).
  Proof.
    intros st p v HI HN. rewrite loc_op_add_eq in *. cbv zeta in *. cbn [ps_seen] in HN.
    set (loc := ps_loc P st) in *.
    set (newr := selected path sel (clock loc) (paths (route_at loc p) ++ [(clock loc, v)])) in *.
    set (loc' := mkState (store path p newr (routes loc)) (clients loc) (S (clock loc))) in *.
    destruct (seen_last_nodup _ _ HN) as [NV _].
    destruct (o_rinv st HI) as [tr [HR HC]].
    destruct (LocRIBClientsProofs.step_inv path AdjRIBOut.path_compare AdjRIBOut.path_equal sel Hsel loc tr (OAdd p v) HR HC)
      as [st' [cbs [Hs [HR' HC']]]].
    cbn [step] in Hs. inversion Hs; subst st' cbs. clear Hs. fold newr loc' in HR', HC'.
    apply (Oinv_change st p newr _ HI HR' HC').
    exists (paths newr). split; [|split; [|split]].
    - destruct (LocRIBClientsProofs.old_route_facts path loc' p HR') as [ND _]. unfold loc' in ND. now rewrite paths_stored in ND.
    - unfold vals, loc' in NV. now rewrite paths_stored in NV.
    - intros x Hx. eapply Permutation_in; [apply Permutation_sym, (selected_perm sel Hsel)|]. apply in_or_app. now left.
    - apply incl_refl.
  Qed.

  Lemma tick_store_nil : forall (loc : state path) p, lookup p (routes loc) = None ->
    tick path loc = mkState (store path p (nil_route (val := path)) (routes loc)) (clients loc) (S (clock loc)).
  Proof. intros loc p EL. unfold tick, store. cbn [paths nil_route]. now rewrite del_absent. Qed.

  Lemma loc_op_remove_none : forall st p v, lookup p (routes (ps_loc P st)) = None ->
    loc_op st (ORemove p v) =
    let loc := ps_loc P st in
    let loc' := mkState (store path p (nil_route (val := path)) (routes loc)) (clients loc) (S (clock loc)) in
    mkPst P (note_views P loc' [p] None (fold_left deliver (propagate path (clients loc) p (route_at loc p) nil_route) (ps_sess P st)))
          loc' (ps_panic P st) (ps_seen P st ++ [vals loc' p]).
  Proof.
    intros st p v EL. cbv zeta. unfold Pipeline.loc_op. cbn [step]. rewrite EL. cbn [op_prefixes].
    assert (Hra : route_at (ps_loc P st) p = nil_route) by (unfold route_at; now rewrite EL).
    rewrite Hra, propagate_nil. cbn [fold_left map]. rewrite <- (tick_store_nil _ p EL). reflexivity.
  Qed.

  Lemma loc_op_remove_some : forall st p v oldr, lookup p (routes (ps_loc P st)) = Some oldr ->
    loc_op st (ORemove p v) =
    let loc := ps_loc P st in
    let pre := remove_first path (fun e => AdjRIBOut.path_compare (snd e) v) (paths oldr) in
    let newr := match pre with [] => nil_route | _ :: _ => selected path sel (clock loc) pre end in
    let loc' := mkState (store path p newr (routes loc)) (clients loc) (S (clock loc)) in
    mkPst P (note_views P loc' [p] None (fold_left deliver (propagate path (clients loc) p oldr newr) (ps_sess P st)))
          loc' (ps_panic P st) (ps_seen P st ++ [vals loc' p]).
  Proof. intros st p v oldr EL. cbv zeta. unfold Pipeline.loc_op. cbn [step]. rewrite EL. reflexivity. Qed.

  Lemma Oinv_loc_remove : forall st p v,
    Oinv st -> Forall (@NoDup path) (ps_seen P (loc_op st (ORemove p v))) -> Oinv (loc_op st (ORemove p v)).
  Proof.
    intros st p v HI HN.
    destruct (o_rinv st HI) as [tr [HR HC]].
    set (loc := ps_loc P st) in *.
    destruct (LocRIBClientsProofs.step_inv path AdjRIBOut.path_compare AdjRIBOut.path_equal sel Hsel loc tr (ORemove p v) HR HC)
      as [st' [cbs [Hs [HR' HC']]]].
    destruct (LocRIBClientsProofs.old_route_facts path loc p HR) as [NFold _].
    cbn [step] in Hs. destruct (lookup p (routes loc)) as [oldr|] eqn:EL.
    - assert (Hra : route_at loc p = oldr) by (unfold route_at; now rewrite EL).
      unfold loc in EL. rewrite (loc_op_remove_some st p v oldr EL) in *. cbv zeta in *. fold loc in HN |- *.
      set (pre := remove_first path (fun e => AdjRIBOut.path_compare (snd e) v) (paths oldr)) in *.
      set (newr := match pre with [] => nil_route | _ :: _ => selected path sel (clock loc) pre end) in *.
      inversion Hs; subst st' cbs. clear Hs.
      assert (NVold : NoDup (map snd (paths (route_at loc p)))).
      { destruct (o_seen st HI p) as [E|E]; fold loc in E; unfold vals in E.
        - rewrite E. constructor.
        - cbn [ps_seen] in HN. apply Forall_app in HN. destruct HN as [HN _]. rewrite Forall_forall in HN. now apply HN. }
      rewrite <- Hra.
      apply (Oinv_change st p newr _ HI HR' HC').
      exists (paths (route_at loc p)). split; [exact NFold|]. split; [exact NVold|]. split; [apply incl_refl|].
      rewrite Hra. intros x Hx. unfold newr in Hx. destruct pre as [|y pre'] eqn:EP; [destruct Hx|].
      eapply (LocRIBClientsProofs.remove_first_In path (fun e => AdjRIBOut.path_compare (snd e) v)).
      fold pre. rewrite EP. eapply Permutation_in; [apply (selected_perm sel Hsel)|exact Hx].
    - inversion Hs; subst st' cbs. clear Hs.
      assert (Hra : route_at loc p = nil_route) by (unfold route_at; now rewrite EL).
      unfold loc in EL. rewrite (loc_op_remove_none st p v EL). cbv zeta. fold loc.
      rewrite (tick_store_nil loc p EL) in HR', HC'.
      apply (Oinv_change st p nil_route _ HI HR' HC').
      exists []. fold loc. rewrite Hra. cbn. repeat split; try constructor; intros x [].
  Qed.
End Out.
