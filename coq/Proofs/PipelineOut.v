(* Pipeline, part 4: the sending side of the composed model.
   - what a Loc-RIB operation delivers to ONE session's Adj-RIB-Out (projection of the callback list);
   - on Loc-RIBs that hold no two indistinguishable paths for a prefix, the callbacks of a route change are
     exactly Model.LocView.change_ops of the view before and after (C08's Loc-RIB abstraction), hence
   - the Adj-RIB-Out of every registered session is Model.LocView.feed over the recorded view history (ss_hist),
     and the view is the first 1/N selected candidates (C04's want);
   - with C08 (ribout_is_export_view_partial) as a black box: the Adj-RIB-Out is the export view of the selection;
   - the update sender of every session is a run of the component model on the recorded labels, whose
     Add / Remove labels are exactly the Adj-RIB-Out's calls on its client; with C10 (converges_partial) as a
     black box: once drained the peer's view is what those calls amount to. *)
From Coq Require Import List NArith Bool Arith Lia Permutation.
Import ListNotations.
From BioVerif Require Import Model.Pipeline Spec.PipelineSpec Proofs.PipelineIn Proofs.PipelineLoc Proofs.PipelineProofs.
From BioVerif Require Model.AdjRIBIn Model.LocRIBClients Model.AdjRIBOut Model.UpdateSender Model.LocView
  Spec.AdjRIBInSpec Spec.LocRIBClientsSpec Spec.ExportViewSpec Spec.UpdateSenderSpec
  Proofs.AdjRIBInProofs Proofs.LocRIBClientsProofs Proofs.ExportViewC Proofs.UpdateSenderProofs.
Local Open Scope nat_scope.

Import LocRIBClients.

(* ------------------------------------------------------------------ object ids and values *)

Section Diff.
  Notation path := AdjRIBOut.path.

  (* U: a duplicate-free universe both lists live in: an object id determines the value and vice versa *)
  Lemma diff_values : forall (U A B : list (entry path)),
    NoDup (map fst U) -> NoDup (map snd U) -> incl A U -> incl B U ->
    map snd (paths_diff path A B) = LocView.paths_diff (map snd A) (map snd B).
  Proof.
    intros U A B NF NS HA HB. unfold paths_diff, LocView.paths_diff.
    induction A as [|e A IH]; [reflexivity|]. cbn [filter map].
    assert (HA' : incl A U) by (intros x Hx; apply HA; now right).
    assert (E : has_oid path (fst e) B = LocView.mem_path (snd e) (map snd B)).
    { unfold LocView.mem_path. destruct (in_dec LocView.path_eq_dec (snd e) (map snd B)) as [HI|HN].
      - apply in_map_iff in HI. destruct HI as [y [Ey Hy]].
        assert (y = e) by (apply (AdjRIBInProofs.NoDup_map_inj_in snd U y e NS (HB y Hy) (HA e (or_introl eq_refl)) Ey)).
        subst y. apply LocRIBClientsProofs.has_oid_In. now apply in_map.
      - apply not_true_is_false. intros HO. apply LocRIBClientsProofs.has_oid_In in HO.
        apply in_map_iff in HO. destruct HO as [y [Ey Hy]].
        assert (y = e) by (apply (AdjRIBInProofs.NoDup_map_inj_in fst U y e NF (HB y Hy) (HA e (or_introl eq_refl)) Ey)).
        subst y. apply HN. now apply in_map. }
    rewrite E. destruct (LocView.mem_path (snd e) (map snd B)); cbn [negb map]; now rewrite IH.
  Qed.
End Diff.

(* ------------------------------------------------------------------ maps keyed by nat *)

Lemma flat_map_lookup : forall (A B : Type) (g : A -> list B) (j : nat) (m : list (nat * A)),
  NoDup (map fst m) ->
  flat_map (fun kv : nat * A => if fst kv =? j then g (snd kv) else []) m =
  match lookup j m with Some o => g o | None => [] end.
Proof.
  intros A B g j m. induction m as [|[k v] m IH]; intros ND; [reflexivity|].
  inversion ND as [|x l Hn ND']; subst. cbn [flat_map fst snd lookup].
  destruct (k =? j) eqn:E.
  - apply Nat.eqb_eq in E. subst k. rewrite IH by assumption.
    assert (HL : lookup j m = None) by (apply LocRIBClientsProofs.lookup_None_keys; exact Hn).
    rewrite HL. apply app_nil_r.
  - now apply IH.
Qed.

Section Out.
  Variable P : Type.
  Variable apply : P -> N -> AdjRIBOut.path -> option AdjRIBOut.path.
  Variable sel : nat -> list (entry AdjRIBOut.path) -> list (entry AdjRIBOut.path) * nat.
  Variable tagf : AdjRIBOut.bgp -> N.
  Hypothesis Hsel : LocRIBClientsSpec.sel_ok AdjRIBOut.path sel.
  Variable cfgs : list (scfg P).

  Notation path := AdjRIBOut.path.
  Notation sst := (sst P).
  Notation pst := (pst P).
  Notation lstep := (step path AdjRIBOut.path_compare AdjRIBOut.path_equal sel).
  Notation loc_op := (Pipeline.loc_op P apply sel tagf cfgs).
  Notation in_op := (Pipeline.in_op P apply sel tagf cfgs).
  Notation pstep := (Pipeline.step P apply sel tagf cfgs).
  Notation prun := (Pipeline.run P apply sel tagf cfgs).
  Notation deliver := (Pipeline.deliver P apply tagf cfgs).

  (* ---------------------------------------------------------------- what one session sees of a callback list *)

  Definition cb_to (j : nat) (c : scfg P) (s : sst) (b : cb path) : sst :=
    match b with
    | CbAdd k p e | CbDump k p e => if k =? j then aro_call P apply tagf c (AdjRIBOut.OAdd (N.of_nat p) (snd e)) s else s
    | CbRemove k p e => if k =? j then aro_call P apply tagf c (AdjRIBOut.ORemove (N.of_nat p) (snd e)) s else s
    | CbEndOfRIB k => if k =? j then aro_eor P c s else s
    | CbRefresh _ _ _ => s
    end.

  Lemma with_cfg_nth : forall k j f ss c, nth_error cfgs j = Some c ->
    nth_error (with_cfg P cfgs k f ss) j = option_map (fun s => if k =? j then f c s else s) (nth_error ss j).
  Proof.
    intros k j f ss c Hc. unfold with_cfg. destruct (Nat.eqb_spec k j) as [->|NE].
    - rewrite Hc. destruct (nth_error ss j) as [s|] eqn:Hs.
      + now rewrite (nth_error_upd_same _ j (f c) ss s Hs).
      + rewrite upd_nth_none by assumption. now rewrite Hs.
    - destruct (nth_error cfgs k) as [ck|].
      + rewrite nth_error_upd_other by congruence. now destruct (nth_error ss j).
      + now destruct (nth_error ss j).
  Qed.

  Lemma deliver_nth : forall j c ss b, nth_error cfgs j = Some c ->
    nth_error (deliver ss b) j = option_map (fun s => cb_to j c s b) (nth_error ss j).
  Proof.
    intros j c ss b Hc. destruct b as [k p e|k p e|k p e|k|k p es]; cbn [Pipeline.deliver cb_to].
    - now rewrite (with_cfg_nth k j _ ss c Hc).
    - now rewrite (with_cfg_nth k j _ ss c Hc).
    - now rewrite (with_cfg_nth k j _ ss c Hc).
    - now rewrite (with_cfg_nth k j _ ss c Hc).
    - now destruct (nth_error ss j).
  Qed.

  Lemma deliver_fold_nth : forall j c cbs ss, nth_error cfgs j = Some c ->
    nth_error (fold_left deliver cbs ss) j = option_map (fun s => fold_left (cb_to j c) cbs s) (nth_error ss j).
  Proof.
    intros j c cbs. induction cbs as [|b cbs IH]; intros ss Hc; cbn [fold_left].
    - now destruct (nth_error ss j).
    - rewrite IH by assumption. rewrite (deliver_nth j c ss b Hc). now destruct (nth_error ss j).
  Qed.

  (* the Adj-RIB-Out operations a callback list means for session j *)
  Definition ops_of (j : nat) (cbs : list (cb path)) : list (AdjRIBOut.op P) :=
    flat_map (fun b => match b with
                       | CbAdd k p e | CbDump k p e => if k =? j then [AdjRIBOut.OAdd (N.of_nat p) (snd e)] else []
                       | CbRemove k p e => if k =? j then [AdjRIBOut.ORemove (N.of_nat p) (snd e)] else []
                       | _ => []
                       end) cbs.

  Lemma cb_to_frame : forall j c s b,
    ss_up P (cb_to j c s b) = ss_up P s /\ ss_in P (cb_to j c s b) = ss_in P s /\
    ss_ops P (cb_to j c s b) = ss_ops P s /\ ss_hist P (cb_to j c s b) = ss_hist P s.
  Proof.
    intros j c s b. destruct b as [k p e|k p e|k p e|k|k p es]; cbn [cb_to]; try destruct (k =? j); repeat split; reflexivity.
  Qed.

  Lemma cb_to_out : forall j c cbs s,
    ss_out P (fold_left (cb_to j c) cbs s) =
    fold_left (AdjRIBOut.step P apply (sc_sess P c)) (ops_of j cbs) (ss_out P s).
  Proof.
    intros j c cbs. induction cbs as [|b cbs IH]; intros s; cbn [fold_left ops_of flat_map]; [reflexivity|].
    rewrite fold_left_app, IH. f_equal.
    destruct b as [k p e|k p e|k p e|k|k p es]; cbn [cb_to]; try destruct (k =? j); reflexivity.
  Qed.

  Lemma cb_to_fold_frame : forall j c cbs s,
    ss_up P (fold_left (cb_to j c) cbs s) = ss_up P s /\ ss_hist P (fold_left (cb_to j c) cbs s) = ss_hist P s.
  Proof.
    intros j c cbs. induction cbs as [|b cbs IH]; intros s; cbn [fold_left]; [auto|].
    destruct (IH (cb_to j c s b)) as [E1 E2]. destruct (cb_to_frame j c s b) as [F1 [_ [_ F4]]]. split; congruence.
  Qed.

  Lemma ops_of_app : forall j a b, ops_of j (a ++ b) = ops_of j a ++ ops_of j b.
  Proof. intros. unfold ops_of. apply flat_map_app. Qed.

  Lemma ops_of_map_remove : forall j k p (l : list (entry path)),
    ops_of j (map (CbRemove k p) l) = if k =? j then map (AdjRIBOut.ORemove (N.of_nat p)) (map snd l) else [].
  Proof.
    intros j k p l. induction l as [|e l IH]; cbn [map ops_of flat_map]; [now destruct (k =? j)|].
    fold (ops_of j (map (CbRemove k p) l)). rewrite IH. now destruct (k =? j).
  Qed.

  Lemma ops_of_map_add : forall j k p (l : list (entry path)),
    ops_of j (map (CbAdd k p) l) = if k =? j then map (AdjRIBOut.OAdd (N.of_nat p)) (map snd l) else [].
  Proof.
    intros j k p l. induction l as [|e l IH]; cbn [map ops_of flat_map]; [now destruct (k =? j)|].
    fold (ops_of j (map (CbAdd k p) l)). rewrite IH. now destruct (k =? j).
  Qed.

  Lemma ops_of_map_dump : forall j k p (l : list (entry path)),
    ops_of j (map (CbDump k p) l) = if k =? j then map (AdjRIBOut.OAdd (N.of_nat p)) (map snd l) else [].
  Proof.
    intros j k p l. induction l as [|e l IH]; cbn [map ops_of flat_map]; [now destruct (k =? j)|].
    fold (ops_of j (map (CbDump k p) l)). rewrite IH. now destruct (k =? j).
  Qed.

  Lemma ops_of_flat : forall j (A : Type) (g : A -> list (cb path)) (l : list A),
    ops_of j (flat_map g l) = flat_map (fun x => ops_of j (g x)) l.
  Proof.
    intros j A g l. induction l as [|x l IH]; [reflexivity|]. cbn [flat_map]. now rewrite ops_of_app, IH.
  Qed.

  (* LocRIB.propagateChanges, seen by client j *)
  Lemma ops_of_propagate : forall j cl p oldr newr, NoDup (map fst cl) ->
    ops_of j (propagate path cl p oldr newr) =
    match lookup j cl with
    | Some o =>
      map (AdjRIBOut.ORemove (N.of_nat p)) (map snd (paths_diff path (limit_slice path o oldr) (limit_slice path o newr))) ++
      map (AdjRIBOut.OAdd (N.of_nat p)) (map snd (paths_diff path (limit_slice path o newr) (limit_slice path o oldr)))
    | None => []
    end.
  Proof.
    intros j cl p oldr newr ND. unfold propagate, remove_from_clients, add_to_clients.
    rewrite ops_of_app, !ops_of_flat.
    rewrite (flat_map_ext _ (fun kv : nat * opts => if fst kv =? j
               then map (AdjRIBOut.ORemove (N.of_nat p)) (map snd (paths_diff path (limit_slice path (snd kv) oldr) (limit_slice path (snd kv) newr))) else []))
      by (intros kv; apply ops_of_map_remove).
    rewrite (flat_map_ext (fun x => ops_of j (map (CbAdd (fst x) p) _)) (fun kv : nat * opts => if fst kv =? j
               then map (AdjRIBOut.OAdd (N.of_nat p)) (map snd (paths_diff path (limit_slice path (snd kv) newr) (limit_slice path (snd kv) oldr))) else []))
      by (intros kv; apply ops_of_map_add).
    rewrite (flat_map_lookup opts _ (fun o => map (AdjRIBOut.ORemove (N.of_nat p)) (map snd (paths_diff path (limit_slice path o oldr) (limit_slice path o newr)))) j cl ND).
    rewrite (flat_map_lookup opts _ (fun o => map (AdjRIBOut.OAdd (N.of_nat p)) (map snd (paths_diff path (limit_slice path o newr) (limit_slice path o oldr)))) j cl ND).
    now destruct (lookup j cl).
  Qed.

  (* ---------------------------------------------------------------- the sending half in step with the Loc-RIB *)

  Definition feedof (c : scfg P) (s : sst) : LocView.view * AdjRIBOut.aro P :=
    LocView.feed P apply (sc_sess P c) (sc_exp P c) (ss_hist P s).

  (* a registered session: its Adj-RIB-Out is what Model.LocView.feed computes from the recorded views, and the view
     is the first 1/N selected candidates of every prefix; an unregistered one is down, or fresh *)
  Definition Osess (loc : state path) (j : nat) (c : scfg P) (s : sst) : Prop :=
    match lookup j (clients loc) with
    | Some o =>
      o = sc_opts P c /\ ss_up P s = true /\ ss_out P s = snd (feedof c s) /\
      forall p : nat, LocView.view_get (N.of_nat p) (fst (feedof c s)) = visible o loc p
    | None => ss_up P s = false \/ (ss_out P s = AdjRIBOut.init P (sc_exp P c) /\ ss_hist P s = [])
    end.

  Record Oinv (st : pst) : Prop := mkOinv {
    o_len : length (ps_sess P st) = length cfgs;
    o_rinv : exists tr, LocRIBClientsProofs.RInv path (ps_loc P st) /\ LocRIBClientsProofs.CInv path (ps_loc P st) tr;
    o_seen : forall p, vals (ps_loc P st) p = [] \/ In (vals (ps_loc P st) p) (ps_seen P st);
    o_sess : forall j c s, nth_error cfgs j = Some c -> nth_error (ps_sess P st) j = Some s -> Osess (ps_loc P st) j c s
  }.

  Lemma note_views_nth : forall loc ps only ss j,
    nth_error (note_views P loc ps only ss) j =
    option_map (fun s => match lookup j (clients loc) with
                         | Some o => if match only with Some k' => j =? k' | None => true end
                                     then set_hist P s (ss_hist P s ++ map (fun p => (N.of_nat p, visible o loc p)) ps) else s
                         | None => s end) (nth_error ss j).
  Proof.
    intros loc ps only ss j. unfold note_views.
    assert (G : forall n, nth_error (map (fun ks : nat * sst => let (k, s) := ks in
                match lookup k (clients loc) with
                | Some o => if match only with Some k' => k =? k' | None => true end
                            then set_hist P s (ss_hist P s ++ map (fun p => (N.of_nat p, visible o loc p)) ps) else s
                | None => s end) (combine (seq n (length ss)) ss)) j =
              option_map (fun s => match lookup (n + j) (clients loc) with
                         | Some o => if match only with Some k' => n + j =? k' | None => true end
                                     then set_hist P s (ss_hist P s ++ map (fun p => (N.of_nat p, visible o loc p)) ps) else s
                         | None => s end) (nth_error ss j)).
    { revert j. induction ss as [|s ss IH]; intros [|j] n; cbn [length seq combine map nth_error option_map]; try reflexivity.
      - now rewrite Nat.add_0_r.
      - rewrite IH. now rewrite Nat.add_succ_r. }
    apply (G 0).
  Qed.

  Lemma note_views_length : forall loc ps only ss, length (note_views P loc ps only ss) = length ss.
  Proof. intros. rewrite <- (map_length (inpart P)), (note_views_inpart P). apply map_length. Qed.

  Lemma deliver_fold_length : forall cbs ss, length (fold_left deliver cbs ss) = length ss.
  Proof. intros. rewrite <- (map_length (inpart P)), (deliver_fold_inpart P apply tagf cfgs). apply map_length. Qed.

  Lemma lv_diff_self : forall l, LocView.paths_diff l l = [].
  Proof.
    intros l. unfold LocView.paths_diff.
    assert (G : forall m, incl m l -> filter (fun p => negb (LocView.mem_path p l)) m = []).
    { induction m as [|x m IH]; intros HI; [reflexivity|]. cbn [filter].
      assert (E : LocView.mem_path x l = true).
      { unfold LocView.mem_path. destruct (in_dec LocView.path_eq_dec x l) as [_|N]; [reflexivity|]. exfalso. apply N. apply HI. now left. }
      rewrite E. cbn [negb]. apply IH. intros y Hy. apply HI. now right. }
    apply G. apply incl_refl.
  Qed.

  Lemma lv_diff_nil_r : forall l, LocView.paths_diff l [] = l.
  Proof.
    intros l. unfold LocView.paths_diff. induction l as [|x l IH]; [reflexivity|]. cbn [filter].
    replace (LocView.mem_path x []) with false by reflexivity. cbn [negb]. f_equal. exact IH.
  Qed.

  Lemma visible_route : forall o loc p, visible o loc p = map snd (limit_slice path o (route_at loc p)).
  Proof. reflexivity. Qed.

  Lemma limit_slice_incl : forall o (r : route path), incl (limit_slice path o r) (paths r).
  Proof. intros o r x Hx. unfold limit_slice in Hx. eapply LocRIBClientsProofs.In_firstn; eassumption. Qed.

  Lemma cb_to_other : forall j c s b, LocRIBClientsSpec.cb_cid path b <> j -> cb_to j c s b = s.
  Proof.
    intros j c s b H. destruct b as [k p e|k p e|k p e|k|k p es]; cbn [cb_to LocRIBClientsSpec.cb_cid] in *; try reflexivity;
      destruct (Nat.eqb_spec k j); congruence.
  Qed.

  Lemma cb_to_fold_other : forall j c cbs s, (forall b, In b cbs -> LocRIBClientsSpec.cb_cid path b <> j) -> fold_left (cb_to j c) cbs s = s.
  Proof.
    intros j c cbs. induction cbs as [|b cbs IH]; intros s H; cbn [fold_left]; [reflexivity|].
    rewrite cb_to_other by (apply H; now left). apply IH. intros x Hx. apply H. now right.
  Qed.

  (* one step of feed *)
  Lemma feed_snoc : forall c h ch,
    LocView.feed P apply (sc_sess P c) (sc_exp P c) (h ++ [ch]) =
    LocView.feed_step P apply (sc_sess P c) (LocView.feed P apply (sc_sess P c) (sc_exp P c) h) ch.
  Proof. intros. unfold LocView.feed. now rewrite fold_left_app. Qed.

  Lemma of_nat_neq : forall p p' : nat, p <> p' -> N.of_nat p <> N.of_nat p'.
  Proof. intros p p' H E. apply H. now apply Nat2N.inj. Qed.

  (* ---------------------------------------------------------------- a route change of the Loc-RIB *)

  Lemma limit_slice_nil : forall o, limit_slice path o (nil_route (val := path)) = [].
  Proof. intros o. unfold limit_slice. cbn. now rewrite Nat.min_0_r. Qed.

  Lemma limit_slice_stored : forall o (loc : state path) p newr cl t,
    limit_slice path o (route_at (mkState (store path p newr (routes loc)) cl t) p) = limit_slice path o newr.
  Proof.
    intros o loc p newr cl t. rewrite route_at_store, Nat.eqb_refl.
    destruct (paths newr) eqn:E; [|reflexivity].
    rewrite limit_slice_nil. unfold limit_slice. rewrite E. now destruct (Nat.min _ _).
  Qed.

  Lemma Oinv_change : forall st p newr tr',
    Oinv st ->
    let loc := ps_loc P st in
    let oldr := route_at loc p in
    let loc' := mkState (store path p newr (routes loc)) (clients loc) (S (clock loc)) in
    let cbs := propagate path (clients loc) p oldr newr in
    LocRIBClientsProofs.RInv path loc' -> LocRIBClientsProofs.CInv path loc' tr' ->
    (exists U, NoDup (map fst U) /\ NoDup (map snd U) /\ incl (paths oldr) U /\ incl (paths newr) U) ->
    Oinv (mkPst P (note_views P loc' [p] None (fold_left deliver cbs (ps_sess P st))) loc' (ps_panic P st)
                (ps_seen P st ++ [vals loc' p])).
  Proof.
    intros st p newr tr' [HL [tr [HR HC]] HS HO] loc oldr loc' cbs HR' HC' [U [UF [US [UO UN]]]].
    constructor; cbn [ps_sess ps_loc ps_seen].
    - now rewrite note_views_length, deliver_fold_length.
    - eauto.
    - intros p'. destruct (Nat.eq_dec p p') as [<-|NE].
      + right. apply in_or_app. right. now left.
      + assert (E : vals loc' p' = vals loc p').
        { unfold loc'. rewrite vals_store. destruct (p =? p') eqn:E; [apply Nat.eqb_eq in E; congruence|reflexivity]. }
        rewrite E. destruct (HS p') as [H|H]; [now left|right; apply in_or_app; now left].
    - intros j c s' Hc Hs'. rewrite note_views_nth, (deliver_fold_nth j c cbs _ Hc) in Hs'.
      destruct (nth_error (ps_sess P st) j) as [s0|] eqn:Hs0; [|discriminate]. cbn [option_map] in Hs'.
      pose proof (HO j c s0 Hc Hs0) as O0. unfold Osess in *. fold loc in O0.
      change (clients loc') with (clients loc) in *.
      set (s1 := fold_left (cb_to j c) cbs s0) in *.
      destruct (cb_to_fold_frame j c cbs s0) as [Fu Fh]. fold s1 in Fu, Fh.
      destruct (lookup j (clients loc)) as [o|] eqn:EL.
      + inversion Hs'; subst s'. clear Hs'. destruct O0 as [Eo [Hu [Hout Hview]]].
        cbn [set_hist ss_up ss_out ss_hist].
        split; [exact Eo|]. split; [congruence|].
        unfold feedof in *. cbn [set_hist ss_hist]. cbn [map]. rewrite Fh, feed_snoc.
        destruct (LocView.feed P apply (sc_sess P c) (sc_exp P c) (ss_hist P s0)) as [v a] eqn:EF.
        cbn [fst snd] in Hout, Hview. cbn [LocView.feed_step fst snd].
        assert (ND : NoDup (map fst (clients loc))) by (destruct HR as [_ [H _]]; exact H).
        assert (Eold : LocView.view_get (N.of_nat p) v = map snd (limit_slice path o oldr)) by (rewrite Hview; reflexivity).
        assert (Enew : visible o loc' p = map snd (limit_slice path o newr)).
        { rewrite visible_route. unfold loc'. now rewrite limit_slice_stored. }
        split.
        * unfold s1. rewrite cb_to_out, Hout. f_equal. unfold cbs. rewrite (ops_of_propagate j _ p oldr newr ND), EL.
          unfold LocView.change_ops. rewrite Eold, Enew.
          assert (IO : incl (limit_slice path o oldr) U) by (intros x Hx; apply UO; eapply limit_slice_incl; exact Hx).
          assert (IN : incl (limit_slice path o newr) U) by (intros x Hx; apply UN; eapply limit_slice_incl; exact Hx).
          rewrite (diff_values U _ _ UF US IO IN), (diff_values U _ _ UF US IN IO).
          reflexivity.
        * intros p'. destruct (Nat.eq_dec p p') as [<-|NE].
          -- now rewrite ExportViewC.view_get_set_same.
          -- rewrite ExportViewC.view_get_set_other by (now apply of_nat_neq). rewrite Hview.
             rewrite !visible_route. unfold loc'. rewrite route_at_store.
             destruct (p =? p') eqn:E; [apply Nat.eqb_eq in E; congruence|reflexivity].
      + inversion Hs'; subst s'. clear Hs'.
        assert (E1 : s1 = s0).
        { unfold s1. apply cb_to_fold_other. intros b Hb. apply LocRIBClientsProofs.propagate_cid in Hb.
          intros E. apply LocRIBClientsProofs.lookup_None_keys in EL. apply EL. now rewrite <- E. }
        now rewrite E1.
  Qed.

  Lemma paths_stored : forall (loc : state path) p newr cl t,
    paths (route_at (mkState (store path p newr (routes loc)) cl t) p) = paths newr.
  Proof.
    intros. rewrite route_at_store, Nat.eqb_refl. destruct (paths newr) eqn:E; [reflexivity|exact E].
  Qed.

  Lemma del_absent : forall (A : Type) (m : list (nat * A)) k, lookup k m = None -> del k m = m.
  Proof.
    intros A m k. unfold del. induction m as [|[k' v] m IH]; intros H; [reflexivity|]. cbn [lookup filter fst] in *.
    destruct (k' =? k) eqn:E; [discriminate|]. cbn [negb]. f_equal. now apply IH.
  Qed.

  Lemma propagate_nil : forall cl p, propagate path cl p (nil_route (val := path)) (nil_route (val := path)) = [].
  Proof.
    intros cl p. unfold propagate, remove_from_clients, add_to_clients.
    assert (G : forall o, paths_diff path (limit_slice path o (nil_route (val := path))) (limit_slice path o (nil_route (val := path))) = []).
    { intros o. now rewrite limit_slice_nil. }
    induction cl as [|co cl IH]; [reflexivity|]. cbn [flat_map]. rewrite G. cbn [map app].
    apply app_eq_nil in IH. destruct IH as [I1 I2]. now rewrite I1, I2.
  Qed.

  Lemma seen_last_nodup : forall (l : list (list path)) x, Forall (@NoDup path) (l ++ [x]) -> NoDup x /\ Forall (@NoDup path) l.
  Proof. intros l x H. apply Forall_app in H. destruct H as [H1 H2]. inversion H2; subst. auto. Qed.

  Lemma loc_op_add_eq : forall st p v,
    loc_op st (OAdd p v) =
    let loc := ps_loc P st in
    let newr := selected path sel (clock loc) (paths (route_at loc p) ++ [(clock loc, v)]) in
    let loc' := mkState (store path p newr (routes loc)) (clients loc) (S (clock loc)) in
    mkPst P (note_views P loc' [p] None (fold_left deliver (propagate path (clients loc) p (route_at loc p) newr) (ps_sess P st)))
          loc' (ps_panic P st) (ps_seen P st ++ [vals loc' p]).
  Proof. reflexivity. Qed.

  Lemma Oinv_loc_add : forall st p v,
    Oinv st -> Forall (@NoDup path) (ps_seen P (loc_op st (OAdd p v))) -> Oinv (loc_op st (OAdd p v)).
  Proof.
    intros st p v HI HN. rewrite loc_op_add_eq in *. cbv zeta in *. cbn [ps_seen] in HN.
    set (loc := ps_loc P st) in *.
    set (newr := selected path sel (clock loc) (paths (route_at loc p) ++ [(clock loc, v)])) in *.
    set (loc' := mkState (store path p newr (routes loc)) (clients loc) (S (clock loc))) in *.
    destruct (seen_last_nodup _ _ HN) as [NV _].
    destruct (o_rinv st HI) as [tr [HR HC]].
    destruct (LocRIBClientsProofs.step_inv path AdjRIBOut.path_compare AdjRIBOut.path_equal sel Hsel loc tr (OAdd p v) HR HC)
      as [st' [cbs [Hs [HR' HC']]]].
    cbn [step] in Hs. inversion Hs; subst st' cbs. clear Hs. fold newr loc' in HR', HC'.
    apply (Oinv_change st p newr _ HI HR' HC').
    exists (paths newr). split; [|split; [|split]].
    - destruct (LocRIBClientsProofs.old_route_facts path loc' p HR') as [ND _]. unfold loc' in ND. now rewrite paths_stored in ND.
    - unfold vals, loc' in NV. now rewrite paths_stored in NV.
    - intros x Hx. eapply Permutation_in; [apply Permutation_sym, (selected_perm sel Hsel)|]. apply in_or_app. now left.
    - apply incl_refl.
  Qed.

  Lemma tick_store_nil : forall (loc : state path) p, lookup p (routes loc) = None ->
    tick path loc = mkState (store path p (nil_route (val := path)) (routes loc)) (clients loc) (S (clock loc)).
  Proof. intros loc p EL. unfold tick, store. cbn [paths nil_route]. now rewrite del_absent. Qed.

  Lemma loc_op_remove_none : forall st p v, lookup p (routes (ps_loc P st)) = None ->
    loc_op st (ORemove p v) =
    let loc := ps_loc P st in
    let loc' := mkState (store path p (nil_route (val := path)) (routes loc)) (clients loc) (S (clock loc)) in
    mkPst P (note_views P loc' [p] None (fold_left deliver (propagate path (clients loc) p (route_at loc p) nil_route) (ps_sess P st)))
          loc' (ps_panic P st) (ps_seen P st ++ [vals loc' p]).
  Proof.
    intros st p v EL. cbv zeta. unfold Pipeline.loc_op. cbn [step]. rewrite EL. cbn [op_prefixes].
    assert (Hra : route_at (ps_loc P st) p = nil_route) by (unfold route_at; now rewrite EL).
    rewrite Hra, propagate_nil. cbn [fold_left map]. rewrite <- (tick_store_nil _ p EL). reflexivity.
  Qed.

  Lemma loc_op_remove_some : forall st p v oldr, lookup p (routes (ps_loc P st)) = Some oldr ->
    loc_op st (ORemove p v) =
    let loc := ps_loc P st in
    let pre := remove_first path (fun e => AdjRIBOut.path_compare (snd e) v) (paths oldr) in
    let newr := match pre with [] => nil_route | _ :: _ => selected path sel (clock loc) pre end in
    let loc' := mkState (store path p newr (routes loc)) (clients loc) (S (clock loc)) in
    mkPst P (note_views P loc' [p] None (fold_left deliver (propagate path (clients loc) p oldr newr) (ps_sess P st)))
          loc' (ps_panic P st) (ps_seen P st ++ [vals loc' p]).
  Proof. intros st p v oldr EL. cbv zeta. unfold Pipeline.loc_op. cbn [step]. rewrite EL. reflexivity. Qed.

  Lemma Oinv_loc_remove : forall st p v,
    Oinv st -> Forall (@NoDup path) (ps_seen P (loc_op st (ORemove p v))) -> Oinv (loc_op st (ORemove p v)).
  Proof.
    intros st p v HI HN.
    destruct (o_rinv st HI) as [tr [HR HC]].
    set (loc := ps_loc P st) in *.
    destruct (LocRIBClientsProofs.step_inv path AdjRIBOut.path_compare AdjRIBOut.path_equal sel Hsel loc tr (ORemove p v) HR HC)
      as [st' [cbs [Hs [HR' HC']]]].
    destruct (LocRIBClientsProofs.old_route_facts path loc p HR) as [NFold _].
    cbn [step] in Hs. destruct (lookup p (routes loc)) as [oldr|] eqn:EL.
    - assert (Hra : route_at loc p = oldr) by (unfold route_at; now rewrite EL).
      unfold loc in EL. rewrite (loc_op_remove_some st p v oldr EL) in *. cbv zeta in *. fold loc in HN |- *.
      set (pre := remove_first path (fun e => AdjRIBOut.path_compare (snd e) v) (paths oldr)) in *.
      set (newr := match pre with [] => nil_route | _ :: _ => selected path sel (clock loc) pre end) in *.
      inversion Hs; subst st' cbs. clear Hs.
      assert (NVold : NoDup (map snd (paths (route_at loc p)))).
      { destruct (o_seen st HI p) as [E|E]; fold loc in E; unfold vals in E.
        - rewrite E. constructor.
        - cbn [ps_seen] in HN. apply Forall_app in HN. destruct HN as [HN _]. rewrite Forall_forall in HN. now apply HN. }
      rewrite <- Hra.
      apply (Oinv_change st p newr _ HI HR' HC').
      exists (paths (route_at loc p)). split; [exact NFold|]. split; [exact NVold|]. split; [apply incl_refl|].
      rewrite Hra. intros x Hx. unfold newr in Hx. destruct pre as [|y pre'] eqn:EP; [destruct Hx|].
      eapply (LocRIBClientsProofs.remove_first_In path (fun e => AdjRIBOut.path_compare (snd e) v)).
      fold pre. rewrite EP. eapply Permutation_in; [apply (selected_perm sel Hsel)|exact Hx].
    - inversion Hs; subst st' cbs. clear Hs.
      assert (Hra : route_at loc p = nil_route) by (unfold route_at; now rewrite EL).
      unfold loc in EL. rewrite (loc_op_remove_none st p v EL). cbv zeta. fold loc.
      rewrite (tick_store_nil loc p EL) in HR', HC'.
      apply (Oinv_change st p nil_route _ HI HR' HC').
      exists []. fold loc. rewrite Hra. cbn. repeat split; try constructor; intros x [].
  Qed.

  (* ---------------------------------------------------------------- the ghost list of seen routes only grows *)

  Definition seen_ext (st st' : pst) : Prop := exists l, ps_seen P st' = ps_seen P st ++ l.

  Lemma seen_ext_refl : forall st, seen_ext st st.
  Proof. intros st. exists []. now rewrite app_nil_r. Qed.

  Lemma seen_ext_trans : forall a b c, seen_ext a b -> seen_ext b c -> seen_ext a c.
  Proof. intros a b c [l1 E1] [l2 E2]. exists (l1 ++ l2). now rewrite E2, E1, app_assoc. Qed.

  Lemma seen_ext_nodup : forall st st', seen_ext st st' -> Forall (@NoDup path) (ps_seen P st') -> Forall (@NoDup path) (ps_seen P st).
  Proof. intros st st' [l E] H. rewrite E in H. apply Forall_app in H. tauto. Qed.

  Lemma seen_ext_loc_op : forall st o, seen_ext st (loc_op st o).
  Proof.
    intros st o. unfold Pipeline.loc_op. destruct (lstep (ps_loc P st) o) as [loc' cbs|].
    - destruct (op_prefixes loc' o) as [ps only]. unfold seen_ext. cbn [ps_seen]. eexists. reflexivity.
    - exists []. cbn [ps_seen]. now rewrite app_nil_r.
  Qed.

  Notation ev_op := (PipelineProofs.ev_op P apply sel tagf cfgs).

  Lemma seen_ext_ev_op : forall c st e, seen_ext st (ev_op c st e).
  Proof. intros c st e. unfold PipelineProofs.ev_op. destruct (loc_of_event P c e); [apply seen_ext_loc_op|apply seen_ext_refl]. Qed.

  Lemma seen_ext_ev_fold : forall c evs st, seen_ext st (fold_left (ev_op c) evs st).
  Proof.
    intros c evs. induction evs as [|e evs IH]; intros st; cbn [fold_left]; [apply seen_ext_refl|].
    eapply seen_ext_trans; [apply seen_ext_ev_op|apply IH].
  Qed.

  Lemma seen_ext_in_op : forall k st o, seen_ext st (in_op k st o).
  Proof.
    intros k st o. unfold Pipeline.in_op. destruct (nth_error cfgs k) as [c|]; [|apply seen_ext_refl].
    destruct (nth_error (ps_sess P st) k) as [s|]; [|apply seen_ext_refl].
    eapply seen_ext_trans; [|apply seen_ext_ev_fold]. exists []. cbn [with_sess ps_seen]. now rewrite app_nil_r.
  Qed.

  Lemma seen_ext_in_ops : forall k ops st, seen_ext st (fold_left (in_op k) ops st).
  Proof.
    intros k ops. induction ops as [|o ops IH]; intros st; cbn [fold_left]; [apply seen_ext_refl|].
    eapply seen_ext_trans; [apply seen_ext_in_op|apply IH].
  Qed.

  Lemma seen_ext_broadcast : forall js ops st, seen_ext st (vrf_broadcast P apply sel tagf cfgs js ops st).
  Proof.
    intros js ops. unfold vrf_broadcast. induction js as [|j js IH]; intros st; cbn [fold_left]; [apply seen_ext_refl|].
    eapply seen_ext_trans; [apply seen_ext_in_ops|apply IH].
  Qed.

  (* ---------------------------------------------------------------- calls on an Adj-RIB-In *)

  Lemma Oinv_ev_fold : forall c evs st, Forall plain evs -> Oinv st ->
    Forall (@NoDup path) (ps_seen P (fold_left (ev_op c) evs st)) -> Oinv (fold_left (ev_op c) evs st).
  Proof.
    intros c evs. induction evs as [|e evs IH]; intros st PL HI HN; cbn [fold_left] in *; [exact HI|].
    inversion PL as [|? ? Pe PL']; subst.
    assert (HN1 : Forall (@NoDup path) (ps_seen P (ev_op c st e))) by (eapply seen_ext_nodup; [apply seen_ext_ev_fold|exact HN]).
    apply IH; [exact PL'| |exact HN].
    unfold PipelineProofs.ev_op in *.
    destruct e as [k' p0 q|k' p0 q|k' p0 q|k' p0 o n|k']; cbn [loc_of_event] in *; try contradiction; try exact HI;
      destruct (N.eqb k' 0); try exact HI.
    - now apply Oinv_loc_add.
    - now apply Oinv_loc_add.
    - now apply Oinv_loc_remove.
  Qed.

  Lemma Osess_ext : forall loc j c s s',
    ss_up P s' = ss_up P s -> ss_out P s' = ss_out P s -> ss_hist P s' = ss_hist P s -> Osess loc j c s -> Osess loc j c s'.
  Proof.
    intros loc j c s s' E1 E2 E3 H. unfold Osess, feedof in *. rewrite E1, E2, E3. exact H.
  Qed.

  Lemma Oinv_in_op : forall k st o, not_replace o -> Oinv st ->
    Forall (@NoDup path) (ps_seen P (in_op k st o)) -> Oinv (in_op k st o).
  Proof.
    intros k st o NR HI HN. unfold Pipeline.in_op in *.
    destruct (nth_error cfgs k) as [c|] eqn:Hc; [|exact HI].
    destruct (nth_error (ps_sess P st) k) as [s|] eqn:Hs; [|exact HI].
    destruct (Ext_step o (ss_in P s)) as [new [HLog [HPl _]]].
    rewrite HLog, gained_app in *.
    apply Oinv_ev_fold; [apply Forall_rev; now apply HPl| |exact HN].
    destruct HI as [HL HR HS HO]. constructor; cbn [with_sess ps_sess ps_loc ps_seen].
    - now rewrite upd_nth_length.
    - exact HR.
    - exact HS.
    - intros j cj s' Hcj Hs'. destruct (Nat.eq_dec j k) as [->|NE].
      + rewrite (nth_error_upd_same _ k _ _ s Hs) in Hs'. inversion Hs'; subst s'.
        eapply Osess_ext; [| | |apply (HO k cj s Hcj Hs)]; reflexivity.
      + rewrite nth_error_upd_other in Hs' by assumption. now apply HO.
  Qed.

  Lemma Oinv_in_ops : forall k ops st, Forall vrf_op ops -> Oinv st ->
    Forall (@NoDup path) (ps_seen P (fold_left (in_op k) ops st)) -> Oinv (fold_left (in_op k) ops st).
  Proof.
    intros k ops. induction ops as [|o ops IH]; intros st VO HI HN; cbn [fold_left] in *; [exact HI|].
    inversion VO; subst. apply IH; [assumption| |exact HN].
    apply Oinv_in_op; [destruct o; try contradiction; exact I|exact HI|].
    eapply seen_ext_nodup; [apply seen_ext_in_ops|exact HN].
  Qed.

  Lemma Oinv_broadcast : forall js ops st, Forall vrf_op ops -> Oinv st ->
    Forall (@NoDup path) (ps_seen P (vrf_broadcast P apply sel tagf cfgs js ops st)) ->
    Oinv (vrf_broadcast P apply sel tagf cfgs js ops st).
  Proof.
    intros js ops. unfold vrf_broadcast. induction js as [|j js IH]; intros st VO HI HN; cbn [fold_left] in *; [exact HI|].
    apply IH; [assumption| |exact HN].
    apply Oinv_in_ops; [assumption|exact HI|].
    eapply seen_ext_nodup; [|exact HN].
    clear. generalize (fold_left (in_op j) ops st). induction js as [|j' js IH]; intros st'; cbn [fold_left]; [apply seen_ext_refl|].
    eapply seen_ext_trans; [apply seen_ext_in_ops|apply IH].
  Qed.

  (* ---------------------------------------------------------------- registration: initial dump *)

  Lemma lv_diff_nil_l : forall l, LocView.paths_diff [] l = [].
  Proof. reflexivity. Qed.

  Lemma feed_dump : forall c (vis : route path -> list path) (rs : list (pfx * route path)) v a,
    NoDup (map fst rs) -> (forall p, In p (map fst rs) -> LocView.view_get (N.of_nat p) v = []) ->
    let r := fold_left (LocView.feed_step P apply (sc_sess P c))
                       (map (fun pr : pfx * route path => (N.of_nat (fst pr), vis (snd pr))) rs) (v, a) in
    snd r = fold_left (AdjRIBOut.step P apply (sc_sess P c))
                      (flat_map (fun pr : pfx * route path => map (AdjRIBOut.OAdd (N.of_nat (fst pr))) (vis (snd pr))) rs) a /\
    (forall p, LocView.view_get (N.of_nat p) (fst r) =
               match lookup p rs with Some x => vis x | None => LocView.view_get (N.of_nat p) v end).
  Proof.
    intros c vis rs. induction rs as [|[p0 r0] rs IH]; intros v a ND HV; cbn [map fold_left flat_map fst snd].
    - split; [reflexivity|]. intros p. reflexivity.
    - inversion ND as [|x l Hn ND']; subst.
      cbn [LocView.feed_step]. rewrite (HV p0) by (now left).
      unfold LocView.change_ops. rewrite lv_diff_nil_l, lv_diff_nil_r. cbn [map app].
      specialize (IH (LocView.view_set (N.of_nat p0) (vis r0) v)
                     (fold_left (AdjRIBOut.step P apply (sc_sess P c)) (map (AdjRIBOut.OAdd (N.of_nat p0)) (vis r0)) a) ND').
      destruct IH as [I1 I2].
      { intros p Hp. rewrite ExportViewC.view_get_set_other.
        - apply HV. now right.
        - apply of_nat_neq. intros ->. contradiction. }
      cbv zeta in I1, I2. split.
      + rewrite I1. now rewrite fold_left_app.
      + intros p. rewrite I2. cbn [lookup]. destruct (p0 =? p) eqn:E.
        * apply Nat.eqb_eq in E. subst p.
          assert (HL : lookup p0 rs = None) by (apply LocRIBClientsProofs.lookup_None_keys; exact Hn).
          rewrite HL. apply ExportViewC.view_get_set_same.
        * destruct (lookup p rs); [reflexivity|]. apply ExportViewC.view_get_set_other. apply of_nat_neq.
          intros ->. now rewrite Nat.eqb_refl in E.
  Qed.

  Lemma visible_same_routes : forall o (loc loc' : state path) p, routes loc' = routes loc -> visible o loc' p = visible o loc p.
  Proof. intros o loc loc' p E. unfold visible, route_at. now rewrite E. Qed.

  Lemma vals_same_routes : forall (loc loc' : state path) p, routes loc' = routes loc -> vals loc' p = vals loc p.
  Proof. intros loc loc' p E. unfold vals, route_at. now rewrite E. Qed.

  Lemma Osess_same_routes : forall loc loc' j c s, routes loc' = routes loc ->
    lookup j (clients loc') = lookup j (clients loc) -> Osess loc j c s -> Osess loc' j c s.
  Proof.
    intros loc loc' j c s ER EC H. unfold Osess in *. rewrite EC. destruct (lookup j (clients loc)) as [o|]; [|exact H].
    destruct H as [H1 [H2 [H3 H4]]]. repeat split; try assumption. intros p. rewrite H4. symmetry. now apply visible_same_routes.
  Qed.

  Lemma Oinv_register : forall st k c s,
    Oinv st -> nth_error cfgs k = Some c -> nth_error (ps_sess P st) k = Some s ->
    lookup k (clients (ps_loc P st)) = None -> ss_up P s = true ->
    ss_out P s = AdjRIBOut.init P (sc_exp P c) -> ss_hist P s = [] ->
    Oinv (loc_op st (ORegister k (sc_opts P c))).
  Proof.
    intros st k c s HI Hc Hs HLk Hu Hout Hh.
    destruct (o_rinv st HI) as [tr [HR HC]].
    set (loc := ps_loc P st) in *. set (o := sc_opts P c).
    destruct (LocRIBClientsProofs.step_inv path AdjRIBOut.path_compare AdjRIBOut.path_equal sel Hsel loc tr (ORegister k o) HR HC)
      as [loc' [cbs [Hs' [HR' HC']]]].
    assert (HD : dump_routes path k o (routes loc) =
                 Some (flat_map (fun pr : pfx * route path => map (CbDump k (fst pr)) (LocRIBClientsSpec.want path o (snd pr))) (routes loc))).
    { apply (LocRIBClientsProofs.dump_routes_spec path (clock loc)). apply LocRIBClientsProofs.RInv_routes_good. exact HR. }
    cbn [step] in Hs'. rewrite HD in Hs'. inversion Hs'; subst loc' cbs. clear Hs'.
    set (dump := flat_map (fun pr : pfx * route path => map (CbDump k (fst pr)) (LocRIBClientsSpec.want path o (snd pr))) (routes loc)) in *.
    set (loc' := mkState (routes loc) (put k o (clients loc)) (S (clock loc))) in *.
    assert (EQ : loc_op st (ORegister k o) =
                 mkPst P (note_views P loc' (map fst (routes loc)) (Some k) (fold_left deliver (dump ++ [CbEndOfRIB k]) (ps_sess P st)))
                       loc' (ps_panic P st) (ps_seen P st ++ [])).
    { unfold Pipeline.loc_op. fold loc. cbn [step]. rewrite HD. reflexivity. }
    rewrite EQ. clear EQ.
    assert (CID : forall b, In b (dump ++ [CbEndOfRIB k]) -> LocRIBClientsSpec.cb_cid path b = k).
    { intros b Hb. apply in_app_or in Hb. destruct Hb as [Hb|[<-|[]]]; [|reflexivity].
      eapply LocRIBClientsProofs.dump_cid; eassumption. }
    destruct HI as [HL _ HS HO].
    constructor; cbn [ps_sess ps_loc ps_seen].
    - now rewrite note_views_length, deliver_fold_length.
    - eauto.
    - intros p. rewrite app_nil_r. rewrite (vals_same_routes loc loc' p eq_refl). apply HS.
    - intros j cj s' Hcj Hs'. rewrite note_views_nth, (deliver_fold_nth j cj _ _ Hcj) in Hs'.
      destruct (nth_error (ps_sess P st) j) as [s0|] eqn:Hs0; [|discriminate]. cbn [option_map] in Hs'.
      assert (ELK : lookup j (clients loc') = if k =? j then Some o else lookup j (clients loc)).
      { unfold loc'. cbn [clients]. apply LocRIBClientsProofs.lookup_put. }
      destruct (Nat.eq_dec j k) as [->|NE].
      + (* the registering session *)
        rewrite Hc in Hcj. inversion Hcj; subst cj. rewrite Hs in Hs0. inversion Hs0; subst s0. clear Hcj Hs0.
        rewrite ELK, Nat.eqb_refl in Hs'. inversion Hs'; subst s'. clear Hs'.
        unfold Osess. rewrite ELK, Nat.eqb_refl.
        set (s1 := fold_left (cb_to k c) (dump ++ [CbEndOfRIB k]) s).
        destruct (cb_to_fold_frame k c (dump ++ [CbEndOfRIB k]) s) as [Fu Fh]. fold s1 in Fu, Fh.
        cbn [set_hist ss_up ss_out ss_hist]. split; [reflexivity|]. split; [congruence|].
        unfold feedof. cbn [set_hist ss_hist]. rewrite Fh, Hh. cbn [app].
        assert (EM : map (fun p : nat => (N.of_nat p, visible o loc' p)) (map fst (routes loc)) =
                     map (fun pr : pfx * route path => (N.of_nat (fst pr), map snd (limit_slice path o (snd pr)))) (routes loc)).
        { rewrite map_map. apply map_ext_in. intros [p r] Hin. cbn [fst snd]. f_equal.
          rewrite visible_route. unfold route_at, loc'. cbn [routes].
          rewrite (LocRIBClientsProofs.In_lookup _ (routes loc) p r); [reflexivity| |exact Hin]. now destruct HR. }
        rewrite EM. unfold LocView.feed.
        destruct (feed_dump c (fun r => map snd (limit_slice path o r)) (routes loc) [] (AdjRIBOut.init P (sc_exp P c))) as [F1 F2].
        { now destruct HR. }
        { intros p _. reflexivity. }
        cbv zeta beta in F1, F2. split.
        * unfold s1. rewrite cb_to_out, Hout. etransitivity; [|symmetry; exact F1]. f_equal.
          rewrite ops_of_app. cbn [ops_of flat_map]. rewrite app_nil_r. unfold dump. rewrite ops_of_flat.
          apply flat_map_ext. intros [p r]. cbn [fst snd]. rewrite ops_of_map_dump, Nat.eqb_refl.
          now rewrite <- LocRIBClientsProofs.limit_slice_want.
        * intros p. etransitivity; [exact (F2 p)|]. rewrite visible_route. unfold route_at, loc'. cbn [routes].
          destruct (lookup p (routes loc)); [reflexivity|]. cbn. now rewrite limit_slice_nil.
      + assert (EK : (k =? j) = false) by (apply Nat.eqb_neq; congruence).
        assert (EJ : (j =? k) = false) by (apply Nat.eqb_neq; congruence).
        rewrite cb_to_fold_other in Hs' by (intros b Hb; rewrite (CID b Hb); congruence).
        assert (E' : s' = s0).
        { destruct (lookup j (clients loc')); [rewrite EJ in Hs'|]; now inversion Hs'. }
        subst s'. apply (Osess_same_routes loc loc'); [reflexivity|now rewrite ELK, EK|now apply HO].
  Qed.

  (* unregistration, then the session is marked down *)
  Lemma Oinv_unregister_down : forall st k,
    Oinv st ->
    Oinv (with_sess P (loc_op st (OUnregister k))
                    (upd_nth k (fun s0 => set_up P s0 false) (ps_sess P (loc_op st (OUnregister k))))).
  Proof.
    intros st k HI.
    destruct (o_rinv st HI) as [tr [HR HC]].
    set (loc := ps_loc P st) in *.
    destruct (LocRIBClientsProofs.step_inv path AdjRIBOut.path_compare AdjRIBOut.path_equal sel Hsel loc tr (OUnregister k) HR HC)
      as [loc' [cbs [Hs' [HR' HC']]]].
    cbn [step] in Hs'. inversion Hs'; subst loc' cbs. clear Hs'.
    set (loc' := mkState (routes loc) (del k (clients loc)) (S (clock loc))) in *.
    assert (EQ : loc_op st (OUnregister k) =
                 mkPst P (note_views P loc' [] None (ps_sess P st)) loc' (ps_panic P st) (ps_seen P st ++ [])).
    { reflexivity. }
    rewrite EQ. clear EQ. destruct HI as [HL _ HS HO].
    constructor; cbn [with_sess ps_sess ps_loc ps_seen].
    - now rewrite upd_nth_length, note_views_length.
    - eauto.
    - intros p. rewrite app_nil_r, (vals_same_routes loc loc' p eq_refl). apply HS.
    - intros j cj s' Hcj Hs'.
      assert (ELK : lookup j (clients loc') = if k =? j then None else lookup j (clients loc)).
      { unfold loc'. cbn [clients]. apply LocRIBClientsProofs.lookup_del. }
      destruct (Nat.eq_dec j k) as [->|NE].
      + unfold Osess. rewrite ELK, Nat.eqb_refl. left.
        destruct (nth_error (note_views P loc' [] None (ps_sess P st)) k) as [x|] eqn:Ex.
        * rewrite (nth_error_upd_same _ k _ _ x Ex) in Hs'. inversion Hs'. reflexivity.
        * rewrite upd_nth_none in Hs' by assumption. congruence.
      + rewrite nth_error_upd_other in Hs' by assumption. rewrite note_views_nth in Hs'.
        destruct (nth_error (ps_sess P st) j) as [s0|] eqn:Hs0; [|discriminate]. cbn [option_map map] in Hs'.
        assert (EK : (k =? j) = false) by (apply Nat.eqb_neq; congruence).
        apply (Osess_same_routes loc loc'); [reflexivity|now rewrite ELK, EK|].
        assert (OS : Osess loc j cj s0) by (now apply HO).
        destruct (lookup j (clients loc')); inversion Hs'; subst s'; [|exact OS].
        eapply Osess_ext; [| | |exact OS]; cbn [set_hist ss_up ss_out ss_hist]; try reflexivity. apply app_nil_r.
  Qed.

  Lemma clients_register : forall st k o, Oinv st ->
    clients (ps_loc P (loc_op st (ORegister k o))) = put k o (clients (ps_loc P st)).
  Proof.
    intros st k o HI. destruct (o_rinv st HI) as [tr [HR HC]].
    assert (HD : dump_routes path k o (routes (ps_loc P st)) =
                 Some (flat_map (fun pr : pfx * route path => map (CbDump k (fst pr)) (LocRIBClientsSpec.want path o (snd pr))) (routes (ps_loc P st)))).
    { apply (LocRIBClientsProofs.dump_routes_spec path (clock (ps_loc P st))). apply LocRIBClientsProofs.RInv_routes_good. exact HR. }
    unfold Pipeline.loc_op. cbn [step]. rewrite HD. reflexivity.
  Qed.

  Lemma ups_loc_op : forall st o, map (ss_up P) (ps_sess P (loc_op st o)) = map (ss_up P) (ps_sess P st).
  Proof.
    intros st o.
    assert (G : forall ss : list sst, map (ss_up P) ss = map (fun t : bool * AdjRIBIn.st * list AdjRIBIn.op => fst (fst t)) (map (inpart P) ss))
      by (intros; rewrite map_map; reflexivity).
    rewrite !G. now rewrite (loc_op_inpart P apply sel tagf cfgs).
  Qed.

  (* ---------------------------------------------------------------- frames: who is registered, who is up *)

  Lemma clients_loc_change : forall st o,
    match o with OAdd _ _ | ORemove _ _ => True | _ => False end ->
    clients (ps_loc P (loc_op st o)) = clients (ps_loc P st).
  Proof.
    intros st o Ho. destruct o as [p v|p v|? ? ?|? ?|?|?]; try contradiction.
    - rewrite loc_op_add_eq. reflexivity.
    - destruct (lookup p (routes (ps_loc P st))) as [oldr|] eqn:EL.
      + rewrite (loc_op_remove_some st p v oldr EL). reflexivity.
      + rewrite (loc_op_remove_none st p v EL). reflexivity.
  Qed.

  Lemma clients_ev_fold : forall c evs st, Forall plain evs ->
    clients (ps_loc P (fold_left (ev_op c) evs st)) = clients (ps_loc P st).
  Proof.
    intros c evs. induction evs as [|e evs IH]; intros st PL; cbn [fold_left]; [reflexivity|].
    inversion PL as [|? ? Pe PL']; subst. rewrite IH by assumption.
    unfold PipelineProofs.ev_op.
    destruct e as [k' p0 q|k' p0 q|k' p0 q|k' p0 o n|k']; cbn [loc_of_event]; try contradiction; try reflexivity;
      destruct (N.eqb k' 0); try reflexivity; now apply clients_loc_change.
  Qed.

  Lemma clients_in_op : forall k st o, not_replace o -> clients (ps_loc P (in_op k st o)) = clients (ps_loc P st).
  Proof.
    intros k st o NR. unfold Pipeline.in_op.
    destruct (nth_error cfgs k) as [c|]; [|reflexivity].
    destruct (nth_error (ps_sess P st) k) as [s|]; [|reflexivity].
    destruct (Ext_step o (ss_in P s)) as [new [HLog [HPl _]]].
    rewrite HLog, gained_app. fold (ev_op c). rewrite clients_ev_fold; [reflexivity|]. apply Forall_rev. now apply HPl.
  Qed.

  Lemma clients_broadcast : forall js ops st, Forall vrf_op ops ->
    clients (ps_loc P (vrf_broadcast P apply sel tagf cfgs js ops st)) = clients (ps_loc P st).
  Proof.
    intros js ops. unfold vrf_broadcast. induction js as [|j js IH]; intros st VO; cbn [fold_left]; [reflexivity|].
    rewrite IH by assumption. clear IH. revert st. induction VO as [|o ops Ho VO IH]; intros st; cbn [fold_left]; [reflexivity|].
    rewrite IH. apply clients_in_op. destruct o; try contradiction; exact I.
  Qed.

  Definition ups (st : pst) : list bool := map (ss_up P) (ps_sess P st).

  Lemma ups_inpart : forall st, ups st = map (fun t : bool * AdjRIBIn.st * list AdjRIBIn.op => fst (fst t)) (map (inpart P) (ps_sess P st)).
  Proof. intros. unfold ups. rewrite map_map. reflexivity. Qed.

  Lemma ups_in_op : forall k st o, ups (in_op k st o) = ups st.
  Proof.
    intros k st o. rewrite !ups_inpart.
    destruct (in_op_inparts P apply sel tagf cfgs k o st) as [E|E]; rewrite E; [reflexivity|].
    apply map_upd_nth. intros x _. reflexivity.
  Qed.

  Lemma ups_broadcast : forall js ops st, ups (vrf_broadcast P apply sel tagf cfgs js ops st) = ups st.
  Proof.
    intros js ops. unfold vrf_broadcast. induction js as [|j js IH]; intros st; cbn [fold_left]; [reflexivity|].
    rewrite IH. clear IH. revert st. induction ops as [|o ops IH]; intros st; cbn [fold_left]; [reflexivity|].
    rewrite IH. apply ups_in_op.
  Qed.

  Lemma ups_nth : forall st k s, nth_error (ps_sess P st) k = Some s -> nth_error (ups st) k = Some (ss_up P s).
  Proof. intros. unfold ups. now apply map_nth_error. Qed.

  Lemma ups_nth_inv : forall st k b, nth_error (ups st) k = Some b -> exists s, nth_error (ps_sess P st) k = Some s /\ ss_up P s = b.
  Proof.
    intros st k b H. unfold ups in H. rewrite nth_error_map in H.
    destruct (nth_error (ps_sess P st) k) as [s|]; [|discriminate]. inversion H. eauto.
  Qed.

  (* ---------------------------------------------------------------- every event *)

  Lemma Oinv_us_event : forall st k l, Oinv st -> Oinv (us_event P cfgs k l st).
  Proof.
    intros st k l HI. unfold us_event. destruct (is_up P st k); [|exact HI].
    destruct HI as [HL HR HS HO]. constructor; cbn [with_sess ps_sess ps_loc ps_seen]; try assumption.
    - unfold with_cfg. destruct (nth_error cfgs k); [now rewrite upd_nth_length|assumption].
    - intros j c s' Hc Hs'. rewrite (with_cfg_nth k j _ _ c Hc) in Hs'.
      destruct (nth_error (ps_sess P st) j) as [s0|] eqn:Hs0; [|discriminate]. cbn [option_map] in Hs'.
      inversion Hs'; subst s'. destruct (k =? j); [|now apply HO].
      eapply Osess_ext; [| | |apply (HO j c s0 Hc Hs0)]; reflexivity.
  Qed.

  (* a session that is up is registered at the Loc-RIB (between events) *)
  Definition Reg (st : pst) : Prop :=
    forall j, nth_error (ups st) j = Some true -> lookup j (clients (ps_loc P st)) <> None.

  Lemma ups_us_event : forall st k l, ups (us_event P cfgs k l st) = ups st.
  Proof.
    intros st k l. unfold us_event. destruct (is_up P st k); [|reflexivity]. rewrite !ups_inpart. cbn [with_sess ps_sess].
    f_equal. apply (with_cfg_inpart P cfgs). intros. reflexivity.
  Qed.

  Lemma Oinv_step : forall st ev, Oinv st -> Forall (@NoDup path) (ps_seen P (pstep st ev)) ->
    Oinv (pstep st ev) /\ (Reg st -> Reg (pstep st ev)).
  Proof.
    intros st ev HI HN. destruct ev as [k|k|k p q|k p i|k key|k]; cbn [Pipeline.step] in *.
    - (* EUp *)
      destruct (nth_error cfgs k) as [c|] eqn:Hc; [|now split].
      destruct (is_up P st k) eqn:Hup; [now split|].
      destruct (nth_error (ps_sess P st) k) as [s|] eqn:Hs.
      2:{ exfalso. apply nth_error_None in Hs. rewrite (o_len st HI) in Hs.
          assert (k < length cfgs) by (apply nth_error_Some; congruence). lia. }
      assert (Hdown : ss_up P s = false) by (unfold is_up in Hup; now rewrite Hs in Hup).
      set (pre := flat_map (cfg_ops P cfgs (vrf_add P)) (others_up P cfgs st k)) in *.
      set (fresh := mkSst P true (fold_left AdjRIBIn.step pre (AdjRIBIn.init (sc_sa P c) (sc_pol P c)))
                          (AdjRIBOut.init P (sc_exp P c)) UpdateSender.init pre [] []) in *.
      set (st1 := with_sess P st (upd_nth k (fun _ => fresh) (ps_sess P st))) in *.
      set (st2 := vrf_broadcast P apply sel tagf cfgs (others_up P cfgs st k ++ [k]) (vrf_add P c) st1) in *.
      set (st3 := in_op k st2 (AdjRIBIn.Register 0%N)) in *.
      assert (LK : lookup k (clients (ps_loc P st)) = None).
      { pose proof (o_sess st HI k c s Hc Hs) as OS. unfold Osess in OS.
        destruct (lookup k (clients (ps_loc P st))); [|reflexivity]. destruct OS as [_ [Hu _]]. congruence. }
      assert (O1 : Oinv st1).
      { destruct HI as [HL HR HS HO]. unfold st1. constructor; cbn [with_sess ps_sess ps_loc ps_seen]; try assumption.
        - now rewrite upd_nth_length.
        - intros j cj s' Hcj Hs'. destruct (Nat.eq_dec j k) as [->|NE].
          + rewrite (nth_error_upd_same _ k _ _ s Hs) in Hs'. inversion Hs'; subst s'.
            rewrite Hc in Hcj. inversion Hcj; subst cj. unfold Osess. rewrite LK. right. split; reflexivity.
          + rewrite nth_error_upd_other in Hs' by assumption. now apply HO. }
      assert (N3 : Forall (@NoDup path) (ps_seen P st3)) by (eapply seen_ext_nodup; [apply seen_ext_loc_op|exact HN]).
      assert (N2 : Forall (@NoDup path) (ps_seen P st2)) by (eapply seen_ext_nodup; [apply seen_ext_in_op|exact N3]).
      assert (O2 : Oinv st2) by (apply Oinv_broadcast; [apply vrf_add_ops|exact O1|exact N2]).
      assert (O3 : Oinv st3) by (apply Oinv_in_op; [exact I|exact O2|exact N3]).
      assert (C3 : clients (ps_loc P st3) = clients (ps_loc P st)).
      { unfold st3. rewrite clients_in_op by exact I. unfold st2. now rewrite clients_broadcast by apply vrf_add_ops. }
      assert (LK3 : lookup k (clients (ps_loc P st3)) = None) by (now rewrite C3).
      assert (UPS3 : ups st3 = upd_nth k (fun _ => true) (ups st)).
      { unfold st3. rewrite ups_in_op. unfold st2. rewrite ups_broadcast. unfold st1, ups. cbn [with_sess ps_sess].
        now apply map_upd_nth_comm. }
      assert (U3 : nth_error (ups st3) k = Some true).
      { rewrite UPS3. apply nth_error_upd_same with (x := ss_up P s). now apply ups_nth. }
      destruct (ups_nth_inv st3 k true U3) as [s3 [Hs3 Hu3]].
      pose proof (o_sess st3 O3 k c s3 Hc Hs3) as OS3. unfold Osess in OS3. rewrite LK3 in OS3.
      destruct OS3 as [E|[Eo Eh]]; [congruence|].
      split; [now apply (Oinv_register st3 k c s3)|].
      intros HReg j Hj. rewrite (clients_register st3 k (sc_opts P c) O3), C3, LocRIBClientsProofs.lookup_put.
      destruct (Nat.eqb_spec k j) as [->|NE]; [discriminate|].
      apply HReg. unfold ups in Hj. rewrite ups_loc_op in Hj. fold (ups st3) in Hj. rewrite UPS3 in Hj.
      rewrite nth_error_upd_other in Hj by congruence. exact Hj.
    - (* EDown *)
      destruct (nth_error cfgs k) as [c|] eqn:Hc; [|now split].
      destruct (negb (is_up P st k)); [now split|].
      set (st1 := vrf_broadcast P apply sel tagf cfgs (others_up P cfgs st k ++ [k]) (vrf_del P c) st) in *.
      set (st2 := in_op k st1 (AdjRIBIn.Unregister 0%N)) in *.
      assert (N2 : Forall (@NoDup path) (ps_seen P st2)).
      { eapply seen_ext_nodup; [apply seen_ext_loc_op|]. exact HN. }
      assert (N1 : Forall (@NoDup path) (ps_seen P st1)) by (eapply seen_ext_nodup; [apply seen_ext_in_op|exact N2]).
      assert (O1 : Oinv st1) by (apply Oinv_broadcast; [apply vrf_del_ops|exact HI|exact N1]).
      assert (O2 : Oinv st2) by (apply Oinv_in_op; [exact I|exact O1|exact N2]).
      split; [now apply Oinv_unregister_down|].
      intros HReg j Hj. cbn [with_sess ps_loc].
      assert (C2 : clients (ps_loc P (loc_op st2 (OUnregister k))) = del k (clients (ps_loc P st))).
      { change (clients (ps_loc P (loc_op st2 (OUnregister k)))) with (del k (clients (ps_loc P st2))).
        unfold st2. rewrite clients_in_op by exact I. unfold st1. now rewrite clients_broadcast by apply vrf_del_ops. }
      rewrite C2, LocRIBClientsProofs.lookup_del.
      unfold ups in Hj. cbn [with_sess ps_sess] in Hj.
      rewrite (map_upd_nth_comm _ _ (ss_up P) (fun s0 => set_up P s0 false) (fun _ => false)) in Hj by reflexivity.
      destruct (Nat.eqb_spec k j) as [->|NE].
      + exfalso. rewrite ups_loc_op in Hj.
        destruct (nth_error (map (ss_up P) (ps_sess P st2)) j) as [b|] eqn:Eb.
        * rewrite (nth_error_upd_same _ j _ _ b Eb) in Hj. discriminate.
        * rewrite upd_nth_none in Hj by assumption. congruence.
      + apply HReg. rewrite nth_error_upd_other in Hj by congruence. rewrite ups_loc_op in Hj.
        fold (ups st2) in Hj. unfold st2 in Hj. rewrite ups_in_op in Hj. unfold st1 in Hj. now rewrite ups_broadcast in Hj.
    - destruct (is_up P st k); [|now split]. split; [apply Oinv_in_op; [exact I|exact HI|exact HN]|].
      intros HReg j Hj. rewrite clients_in_op by exact I. apply HReg. now rewrite ups_in_op in Hj.
    - destruct (is_up P st k); [|now split]. split; [apply Oinv_in_op; [exact I|exact HI|exact HN]|].
      intros HReg j Hj. rewrite clients_in_op by exact I. apply HReg. now rewrite ups_in_op in Hj.
    - split; [now apply Oinv_us_event|]. intros HReg j Hj. rewrite ups_us_event in Hj.
      unfold us_event. destruct (is_up P st k); now apply HReg.
    - split; [now apply Oinv_us_event|]. intros HReg j Hj. rewrite ups_us_event in Hj.
      unfold us_event. destruct (is_up P st k); now apply HReg.
  Qed.

  Lemma seen_ext_step : forall st ev, seen_ext st (pstep st ev).
  Proof.
    intros st ev. destruct ev as [k|k|k p q|k p i|k key|k]; cbn [Pipeline.step].
    - destruct (nth_error cfgs k) as [c|]; [|apply seen_ext_refl]. destruct (is_up P st k); [apply seen_ext_refl|].
      eapply seen_ext_trans; [|apply seen_ext_loc_op]. eapply seen_ext_trans; [|apply seen_ext_in_op].
      eapply seen_ext_trans; [|apply seen_ext_broadcast]. exists []. cbn [with_sess ps_seen]. now rewrite app_nil_r.
    - destruct (nth_error cfgs k) as [c|]; [|apply seen_ext_refl]. destruct (negb (is_up P st k)); [apply seen_ext_refl|].
      eapply seen_ext_trans; [|exists []; cbn [with_sess ps_seen]; now rewrite app_nil_r].
      eapply seen_ext_trans; [|apply seen_ext_loc_op]. eapply seen_ext_trans; [|apply seen_ext_in_op]. apply seen_ext_broadcast.
    - destruct (is_up P st k); [apply seen_ext_in_op|apply seen_ext_refl].
    - destruct (is_up P st k); [apply seen_ext_in_op|apply seen_ext_refl].
    - unfold us_event. destruct (is_up P st k); [|apply seen_ext_refl]. exists []. cbn [with_sess ps_seen]. now rewrite app_nil_r.
    - unfold us_event. destruct (is_up P st k); [|apply seen_ext_refl]. exists []. cbn [with_sess ps_seen]. now rewrite app_nil_r.
  Qed.

  Lemma Oinv_init : Oinv (Pipeline.init P cfgs).
  Proof.
    constructor; unfold Pipeline.init; cbn [ps_sess ps_loc ps_seen].
    - apply map_length.
    - exists []. apply (LocRIBClientsProofs.init_inv path).
    - intros p. now left.
    - intros j c s Hc Hs. unfold Osess. cbn [LocRIBClients.init clients lookup]. left.
      rewrite nth_error_map in Hs. destruct (nth_error cfgs j); [|discriminate]. inversion Hs. reflexivity.
  Qed.

  Lemma Reg_init : Reg (Pipeline.init P cfgs).
  Proof.
    intros j Hj. unfold ups, Pipeline.init in Hj. cbn [ps_sess] in Hj. rewrite map_map in Hj.
    rewrite nth_error_map in Hj. destruct (nth_error cfgs j); discriminate.
  Qed.

  Lemma Oinv_run : forall evs, locrib_paths_distinct P (prun evs) -> Oinv (prun evs) /\ Reg (prun evs).
  Proof.
    intros evs. unfold Pipeline.run, locrib_paths_distinct.
    assert (G : forall l st, Oinv st -> Reg st -> Forall (@NoDup path) (ps_seen P (fold_left pstep l st)) ->
                             Oinv (fold_left pstep l st) /\ Reg (fold_left pstep l st)).
    { induction l as [|e l IH]; intros st HI HR HN; cbn [fold_left] in *; [now split|].
      assert (HN1 : Forall (@NoDup path) (ps_seen P (pstep st e))).
      { eapply seen_ext_nodup; [|exact HN].
        clear. generalize (pstep st e). induction l as [|e' l IH]; intros st'; cbn [fold_left]; [apply seen_ext_refl|].
        eapply seen_ext_trans; [apply seen_ext_step|apply IH]. }
      destruct (Oinv_step st e HI HN1) as [HI' HR']. apply IH; [exact HI'|now apply HR'|exact HN]. }
    apply G; [apply Oinv_init|apply Reg_init].
  Qed.

  (* C04 + C08 (+ C02 through sel), composed: inside the guards of C08 on what the Loc-RIB let the session see, the
     Adj-RIB-Out of a session that is up is, per prefix, the export view of the first 1/N selected candidates *)
  Theorem ribout_is_export_of_selection : forall evs j c s,
    locrib_paths_distinct P (prun evs) ->
    nth_error cfgs j = Some c -> nth_error (ps_sess P (prun evs)) j = Some s -> ss_up P s = true ->
    ExportViewSpec.guards (apply (sc_exp P c)) (sc_sess P c) (ss_hist P s) ->
    AdjRIBOut.errs (ss_out P s) = 0%N ->
    lookup j (clients (ps_loc P (prun evs))) = Some (sc_opts P c) /\
    forall p : N,
      Permutation (map (ExportViewSpec.norm (sc_sess P c)) (AdjRIBOut.tbl_get p (AdjRIBOut.tbl (ss_out P s))))
                  (map (ExportViewSpec.norm (sc_sess P c))
                       (ExportViewSpec.export_view (apply (sc_exp P c)) (sc_sess P c) p
                          (visible (sc_opts P c) (ps_loc P (prun evs)) (lpfx p)))).
  Proof.
    intros evs j c s HD Hc Hs Hu HG HE.
    destruct (Oinv_run evs HD) as [HI HReg].
    pose proof (o_sess _ HI j c s Hc Hs) as OS. unfold Osess in OS.
    assert (HL : lookup j (clients (ps_loc P (prun evs))) <> None).
    { apply HReg. rewrite <- Hu. now apply ups_nth. }
    destruct (lookup j (clients (ps_loc P (prun evs)))) as [o|] eqn:EL; [|congruence].
    destruct OS as [-> [_ [Hout Hview]]]. split; [reflexivity|]. intros p.
    unfold feedof in *. rewrite Hout in HE |- *.
    pose proof (ExportViewC.ribout_is_export_view_partial P apply (sc_sess P c) (sc_exp P c) (ss_hist P s) HG HE p) as HP.
    rewrite <- (N2Nat.id p) in HP at 3. rewrite Hview in HP. unfold lpfx. exact HP.
  Qed.

  (* after SessionDown i nothing learned from i is a candidate, nor shown to any session *)
  Theorem session_down_removes_contribution : forall evs i c s,
    distinct_peers P cfgs ->
    nth_error cfgs i = Some c -> nth_error (ps_sess P (prun evs)) i = Some s -> ss_up P s = false ->
    forall (p : N) (x : path),
      (In x (candidates P (prun evs) p) -> src_of x <> Some (sc_ip P c)) /\
      (forall o, In x (visible o (ps_loc P (prun evs)) (lpfx p)) -> src_of x <> Some (sc_ip P c)).
  Proof.
    intros evs i c s DP Hc Hs Hd p x.
    assert (G : In x (candidates P (prun evs) p) -> src_of x <> Some (sc_ip P c)).
    { intros Hx. exact (no_candidate_of_down_session P apply sel tagf Hsel cfgs evs i c s p x DP Hc Hs Hd Hx). }
    split; [exact G|]. intros o Hx. apply G. unfold visible in Hx. apply in_map_iff in Hx. destruct Hx as [e [<- He]].
    unfold candidates. apply in_map. eapply (limit_slice_incl o); exact He.
  Qed.
End Out.
