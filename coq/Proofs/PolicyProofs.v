(* C14, part 2: Chain.Process (store model) refines the reference interpreter; no panics;
   Chain.Equal is structural equality, hence sound. *)
From Coq Require Import List NArith Bool Lia Arith.
Import ListNotations.
From BioVerif Require Import Model.Policy Spec.PolicyRef Proofs.PolicyBits.
Local Open Scope N_scope.

(* ------------------------------------------------------------------ list helpers *)

Lemma any_of_existsb {A : Type} (f : A -> bool) l : any_of f l = existsb f l.
Proof. induction l as [| x l IH]; simpl; auto. destruct (f x); simpl; auto. Qed.

Lemma part_any {A : Type} (f : A -> bool) l :
  (if is_nil l then true else any_of f l) = part f l.
Proof. destruct l; simpl; auto. rewrite any_of_existsb. destruct (f a); reflexivity. Qed.

Lemma existsb_ext_in {A : Type} (f g : A -> bool) l :
  (forall x, In x l -> f x = g x) -> existsb f l = existsb g l.
Proof.
  induction l as [| x l IH]; simpl; intros H; auto.
  rewrite (H x) by auto. rewrite IH; auto.
Qed.

Lemma part_ext_in {A : Type} (f g : A -> bool) l :
  (forall x, In x l -> f x = g x) -> part f l = part g l.
Proof. intros H. destruct l; auto. unfold part. apply existsb_ext_in. exact H. Qed.

Lemma existsb_const_false {A : Type} (l : list A) : existsb (fun _ => false) l = false.
Proof. induction l; simpl; auto. Qed.

Lemma lcomm_eqb_sym a b : lcomm_eqb a b = lcomm_eqb b a.
Proof.
  destruct a as [[a1 a2] a3], b as [[b1 b2] b3]. simpl.
  rewrite (N.eqb_sym a1), (N.eqb_sym a2), (N.eqb_sym a3). reflexivity.
Qed.

(* ------------------------------------------------------------------ conditions *)

Lemma forallb_In {A : Type} (f : A -> bool) l x : forallb f l = true -> In x l -> f x = true.
Proof. intros H Hin. rewrite forallb_forall in H. auto. Qed.

(* a matcher function that agrees with the bit-level matchers on valid prefixes *)
Definition mm_ok (mm : matcher -> prefix -> prefix -> bool) : Prop :=
  forall m pat p, prefix_wfb pat = true -> prefix_wfb p = true -> mm m pat p = m_ref m pat p.

Lemma matcher_match_ok : mm_ok matcher_match.
Proof. intros m pat p. apply matcher_ok. Qed.

Lemma cond_ok_w mm env c p a :
  mm_ok mm ->
  cond_wfb env c = true -> prefix_wfb p = true -> cond_matches_w mm env c p a = cond_ref env c p a.
Proof.
  intros Hmm Wc Wp. unfold cond_wfb in Wc. apply andb_true_iff in Wc. destruct Wc as [Wpl Wrf].
  unfold cond_matches_w, cond_ref. f_equal; [f_equal; [f_equal; [f_equal |] |] |].
  - unfold matches_prefix_lists_w. rewrite part_any. apply part_ext_in. intros l Hl.
    unfold pl_matches_w. rewrite any_of_existsb. apply existsb_ext_in. intros q Hq.
    apply Hmm; auto. apply (forallb_In _ _ _ (forallb_In _ _ _ Wpl Hl) Hq).
  - unfold matches_route_filters_w. rewrite part_any. apply part_ext_in. intros f Hf.
    unfold rf_matches_w. apply Hmm; auto. apply (forallb_In _ _ _ Wrf Hf).
  - unfold matches_community_filters, comms_of. destruct (c_cfs c) as [| f0 fs] eqn:E; [reflexivity |].
    simpl is_nil. cbv iota. destruct (pa_bgp a) as [b |].
    + rewrite any_of_existsb. unfold part. apply existsb_ext_in. intros f _.
      unfold cf_matches. destruct (b_comms b) as [l |]; [| reflexivity].
      rewrite any_of_existsb. apply existsb_ext_in. intros x _. apply N.eqb_sym.
    + unfold part. simpl existsb at 2. rewrite (existsb_const_false (f0 :: fs)). reflexivity.
  - unfold matches_large_community_filters, lcomms_of. destruct (c_lcfs c) as [| f0 fs] eqn:E; [reflexivity |].
    simpl is_nil. cbv iota. destruct (pa_bgp a) as [b |].
    + rewrite any_of_existsb. unfold part. apply existsb_ext_in. intros f _.
      unfold lcf_matches. destruct (b_lcomms b) as [l |]; [| reflexivity].
      rewrite any_of_existsb. apply existsb_ext_in. intros x _. apply lcomm_eqb_sym.
    + unfold part. simpl existsb at 2. rewrite (existsb_const_false (f0 :: fs)). reflexivity.
  - unfold matches_protocols. rewrite part_any. apply part_ext_in. intros t _. apply N.eqb_sym.
Qed.

Lemma cond_ok env c p a :
  cond_wfb env c = true -> prefix_wfb p = true -> cond_matches env c p a = cond_ref env c p a.
Proof. apply cond_ok_w. exact matcher_match_ok. Qed.

(* ------------------------------------------------------------------ AS path prepend *)

Lemma aspath_length_ok l : aspath_length l = path_len l.
Proof.
  unfold path_len. induction l as [| [ty asns] l IH].
  - reflexivity.
  - cbn [aspath_length fold_right]. rewrite IH. unfold seg_len. cbn [fst snd].
    apply N.add_mod_idemp_r. discriminate.
Qed.

Lemma iter_succ_r {A : Type} (f : A -> A) n x : Nat.iter (S n) f x = Nat.iter n f (f x).
Proof. induction n as [| n IH]; [reflexivity |]. simpl in *. rewrite IH. reflexivity. Qed.

Definition headok (l : list seg) : Prop :=
  match l with (ty, _) :: _ => (ty =? ASSet) = false | [] => False end.

Lemma push_step asn l :
  headok l ->
  cons_first asn (if first_len l =? MaxASNsSegment then new_seq :: l else l) = push_asn asn l /\
  headok (push_asn asn l).
Proof.
  destruct l as [| [ty asns] r]; simpl; [tauto |]. intros H. rewrite H. simpl.
  unfold MaxASNsSegment. destruct (N.of_nat (length asns) =? 255); simpl; auto.
Qed.

Lemma prepend_loop_ok asn n : forall l, headok l -> prepend_loop n asn l = Nat.iter n (push_asn asn) l.
Proof.
  induction n as [| n IH]; intros l H; [reflexivity |].
  rewrite iter_succ_r. cbn [prepend_loop]. destruct (push_step asn l H) as [E H'].
  rewrite E. apply IH. exact H'.
Qed.

Definition norm (l0 : list seg) : list seg :=
  let l1 := if is_nil l0 then new_seq :: l0 else l0 in
  match l1 with
  | (ty, _) :: _ => if ty =? ASSet then new_seq :: l1 else l1
  | [] => l1
  end.

Lemma norm_ok asn l0 : headok (norm l0) /\ push_asn asn (norm l0) = push_asn asn l0.
Proof.
  destruct l0 as [| [ty asns] r]; unfold norm; simpl.
  - split; reflexivity.
  - destruct (ty =? ASSet) eqn:E; simpl.
    + split; reflexivity.
    + rewrite E. split; reflexivity.
Qed.

Lemma bgp_prepend_ok asn times b : bgp_prepend asn times b = prepend_ref asn times b.
Proof.
  unfold bgp_prepend, prepend_ref. destruct (times =? 0) eqn:E; [reflexivity |].
  apply N.eqb_neq in E.
  set (l0 := match b_aspath b with Some l => l | None => [] end).
  assert (En : exists m, N.to_nat times = S m).
  { destruct (N.to_nat times) eqn:En; [lia | eauto]. }
  destruct En as [m En]. rewrite En.
  change (match b_aspath b with Some l => l | None => [] end) with l0.
  fold (norm l0). destruct (norm_ok asn l0) as [Hh Hp].
  rewrite (prepend_loop_ok asn (S m) (norm l0) Hh).
  rewrite !iter_succ_r, Hp. rewrite aspath_length_ok. reflexivity.
Qed.

(* ------------------------------------------------------------------ store lemmas *)

Lemma length_upd st r v : length (upd st r v) = length st.
Proof. revert r. induction st as [| x st IH]; intros [| r]; simpl; auto. Qed.

Lemma nth_error_upd_same st r v : (r < length st)%nat -> nth_error (upd st r v) r = Some v.
Proof.
  revert r. induction st as [| x st IH]; intros [| r] H; simpl in *; try lia; auto.
  apply IH. lia.
Qed.

Lemma nth_error_upd_other st r v k : k <> r -> nth_error (upd st r v) k = nth_error st k.
Proof.
  revert r k. induction st as [| x st IH]; intros [| r] [| k] H; simpl; auto; try congruence.
Qed.

Lemma upd_app_last st x v : upd (st ++ [x]) (length st) v = st ++ [v].
Proof. induction st as [| y st IH]; simpl; auto. rewrite IH. reflexivity. Qed.

Lemma nth_error_app_last (st : store) v : nth_error (st ++ [v]) (length st) = Some v.
Proof. rewrite nth_error_app2 by lia. rewrite Nat.sub_diag. reflexivity. Qed.

Lemma nth_error_lt {A : Type} (l : list A) n x : nth_error l n = Some x -> (n < length l)%nat.
Proof. intros H. apply nth_error_Some. congruence. Qed.

(* ------------------------------------------------------------------ simulation *)

Definition rej_of (v : verdict) : bool := match v with Rejected => true | _ => false end.
Definition term_of (v : verdict) : bool := match v with Continue => false | _ => true end.

(* cells below L0 are untouched, the store only grows *)
Definition frame (L0 : nat) (st st' : store) : Prop :=
  (length st <= length st')%nat /\ forall k, (k < L0)%nat -> nth_error st' k = nth_error st k.

Lemma frame_refl L0 st : frame L0 st st.
Proof. split; auto. Qed.

Lemma frame_trans L0 a b c : frame L0 a b -> frame L0 b c -> frame L0 a c.
Proof. intros [H1 H2] [H3 H4]. split; [lia |]. intros k Hk. rewrite H4, H2; auto. Qed.

Definition sim (L0 : nat) (m : res (store * ares)) (st : store) (sp : path * verdict) : Prop :=
  exists st' r',
    m = Ok (st', mkR r' (rej_of (snd sp)) (term_of (snd sp))) /\
    nth_error st' r' = Some (fst sp) /\ path_wfb (fst sp) = true /\ (L0 <= r')%nat /\ frame L0 st st'.

Lemma frame_alloc L0 st v : (L0 <= length st)%nat -> frame L0 st (st ++ [v]).
Proof.
  intros HL. split. { rewrite app_length. simpl. lia. }
  intros k Hk. apply nth_error_app1. lia.
Qed.

Lemma frame_upd L0 st r v : (L0 <= r)%nat -> frame L0 st (upd st r v).
Proof.
  intros HL. split. { rewrite length_upd. lia. }
  intros k Hk. apply nth_error_upd_other. lia.
Qed.

Lemma path_wfb_on_attrs f a :
  path_wfb a = true -> path_wfb (on_bgp (on_attrs f) a) = true.
Proof.
  intros H. unfold path_wfb in *. unfold on_bgp. destruct (pa_bgp a) as [b |] eqn:Eb.
  - simpl. unfold on_attrs. destruct (b_a b) eqn:Ea; simpl; [reflexivity | rewrite Ea; exact H].
  - rewrite Eb. reflexivity.
Qed.

