(* C12 (export side): AdjRIBOut.ReplaceFilterChain / RefreshRoute turn the export view under the old
   policy into the export view under the new policy. *)
From Coq Require Import List NArith Bool Lia Permutation.
Import ListNotations.
From BioVerif Require Import Model.PathIDs Model.AdjRIBOut Model.LocView Spec.ExportViewSpec Spec.ReplaceSpec
  Proofs.PathIDsProofs Proofs.PathIDsInv Proofs.AroIDsProofs Proofs.ExportViewA Proofs.ExportViewB
  Proofs.ExportViewC.
Local Open Scope N_scope.

Section Replace.
  Variable P : Type.
  Variable apply : P -> N -> path -> option path.
  Variable s : sess.
  Variables c n : P.                       (* the old and the new policy *)
  Variable v : view.

  Notation fc := (apply c).
  Notation fn := (apply n).
  Hypothesis G : rguards fc fn s v.

  Definition Ec (pfx : N) (p : path) := export_with fc s pfx p.
  Definition En (pfx : N) (p : path) := export_with fn s pfx p.

  (* RefreshRoute for one path, in terms of the two exports *)
  Lemma refresh_one_cases : forall a pfx p, cur a = c ->
    refresh_one P apply s n pfx a p =
    match Ec pfx p, En pfx p with
    | None, None => a
    | Some qc, None => fst (remove_exported P s a pfx qc)
    | None, Some qn => add_inner P s a pfx qn
    | Some qc, Some qn =>
      if path_compare qc qn then a else add_inner P s (fst (remove_exported P s a pfx qc)) pfx qn
    end.
  Proof.
    intros a pfx p Hc. unfold refresh_one, Ec, En, export_with. rewrite Hc.
    destruct (redistribute s p) as [r b].
    destruct (should_propagate s (PBgp r b)); [|reflexivity].
    destruct (rewrite s r b) as [b'|]; reflexivity.
  Qed.

  Lemma export_is_bgp : forall (f : N -> path -> option path) pfx p q,
    (forall pf r b q', f pf (PBgp r b) = Some q' -> exists r' b', q' = PBgp r' b') ->
    export_with f s pfx p = Some q -> exists r' b', q = PBgp r' b'.
  Proof.
    intros f pfx p q T H. unfold export_with in H. destruct (redistribute s p) as [r b].
    destruct (should_propagate s (PBgp r b)); [|discriminate].
    destruct (rewrite s r b) as [b'|]; [|discriminate]. eapply T; eassumption.
  Qed.

  Lemma Ec_bgp : forall pfx p q, Ec pfx p = Some q -> exists r' b', q = PBgp r' b'.
  Proof. intros pfx p q. apply export_is_bgp. apply (r_fbgp_c fc fn s v G). Qed.
  Lemma En_bgp : forall pfx p q, En pfx p = Some q -> exists r' b', q = PBgp r' b'.
  Proof. intros pfx p q. apply export_is_bgp. apply (r_fbgp_n fc fn s v G). Qed.

  Definition EVc pfx l := export_view fc s pfx l.
  Definition EVn pfx l := export_view fn s pfx l.

  (* ---------------------------------------------------------------- best only *)

  Section BestOnly.
    Hypothesis Hbo : s_addpath s = false.

    Lemma best_refresh : forall a pfx l p,
      In (pfx, l) v -> In p l -> cur a = c ->
      tbl_get pfx (tbl a) = EVc pfx [p] ->
      tbl_get pfx (tbl (refresh_one P apply s n pfx a p)) = EVn pfx [p].
    Proof.
      intros a pfx l p HV HP Hc HT. rewrite (refresh_one_cases a pfx p Hc).
      unfold EVc, EVn, export_view in *. cbn [flat_map] in *. rewrite app_nil_r in *.
      fold (Ec pfx p) in HT. fold (En pfx p).
      destruct (Ec pfx p) as [qc|] eqn:EC; destruct (En pfx p) as [qn|] eqn:EN; cbn [opt_list] in *.
      - destruct (Ec_bgp _ _ _ EC) as [rc [bc ->]].
        destruct (path_compare (PBgp rc bc) qn) eqn:CMP.
        + rewrite HT. f_equal. eapply (r_faithful fc fn s v G); eassumption.
        + unfold add_inner. rewrite Hbo. cbn [tbl]. now rewrite tbl_get_add_same, tbl_get_drop_same.
      - destruct (Ec_bgp _ _ _ EC) as [rc [bc ->]].
        unfold remove_exported. rewrite HT, Hbo. cbn [fst tbl].
        rewrite tbl_get_remove_same, HT. cbn [remove_first_cmp]. now rewrite path_compare_refl_bgp.
      - unfold add_inner. rewrite Hbo. cbn [tbl]. now rewrite tbl_get_add_same, tbl_get_drop_same.
      - exact HT.
    Qed.
  End BestOnly.

  (* ---------------------------------------------------------------- add path *)

  Section AddPath.
    Hypothesis Hap : s_addpath s = true.

    (* table of the prefix while the paths Wd are done and Wr are still to do *)
    Definition RP (a : aro P) (pfx : N) (Wd Wr : list path) : Prop :=
      Permutation (map strip (tbl_get pfx (tbl a))) (map strip (EVn pfx Wd ++ EVc pfx Wr)).

    Lemma in_EV : forall (f : N -> path -> option path) pfx l q,
      In q (export_view f s pfx l) -> exists p, In p l /\ export_with f s pfx p = Some q.
    Proof.
      intros f pfx l q H. unfold export_view in H. apply in_flat_map in H. destruct H as [p [HP HO]].
      destruct (export_with f s pfx p) as [q'|] eqn:E; cbn [opt_list] in HO; [|destruct HO].
      destruct HO as [->|[]]. eauto.
    Qed.

    (* removing the old export qc of p, where every other entry stems from a different path *)
    Lemma rp_remove : forall a pfx l p qc (X Y : list path),
      In (pfx, l) v -> In p l -> Inv P a -> Ec pfx p = Some qc ->
      (forall q, In q (X ++ Y) -> exists p', In p' l /\ p' <> p /\ In q (images fc fn s pfx p')) ->
      Permutation (map strip (tbl_get pfx (tbl a))) (map strip (X ++ qc :: Y)) ->
      let a' := fst (remove_exported P s a pfx qc) in
      Permutation (map strip (tbl_get pfx (tbl a'))) (map strip (X ++ Y)) /\ Inv P a'.
    Proof.
      intros a pfx l p qc X Y HV HP I EC Others H a'.
      assert (I' : Inv P a') by (unfold a'; now apply (remove_exported_inv P apply s Hap)).
      split; [|exact I'].
      destruct (Ec_bgp _ _ _ EC) as [rq [bq ->]].
      assert (QcImg : In (PBgp rq bq) (images fc fn s pfx p)).
      { unfold images. fold (Ec pfx p). rewrite EC. cbn. now left. }
      (* whatever in the table Compares equal (path id aside) to qc is qc, path id aside *)
      assert (Origin : forall e, In e (tbl_get pfx (tbl a)) ->
                       path_compare (strip e) (strip (PBgp rq bq)) = true -> strip e = strip (PBgp rq bq)).
      { intros e HI HC.
        assert (HS : In (strip e) (map strip (X ++ PBgp rq bq :: Y))).
        { eapply Permutation_in; [exact H|]. now apply in_map. }
        apply in_map_iff in HS. destruct HS as [q' [EQ HQ]].
        apply in_app_or in HQ. destruct HQ as [HQ|[HQ|HQ]].
        - exfalso. destruct (Others q' (in_or_app _ _ _ (or_introl HQ))) as [p' [HP' [NE IM]]].
          apply NE. eapply (r_apart fc fn s v G Hap pfx l p' p q' (PBgp rq bq)); try eassumption.
          now rewrite EQ.
        - now subst q'.
        - exfalso. destruct (Others q' (in_or_app _ _ _ (or_intror HQ))) as [p' [HP' [NE IM]]].
          apply NE. eapply (r_apart fc fn s v G Hap pfx l p' p q' (PBgp rq bq)); try eassumption.
          now rewrite EQ. }
      subst a'. unfold remove_exported.
      destruct (tbl_get pfx (tbl a)) as [|e0 T0] eqn:TG.
      { exfalso. cbn [map] in H. apply Permutation_nil in H. rewrite map_app in H.
        apply app_eq_nil in H. destruct H as [_ H]. discriminate. }
      rewrite Hap. rewrite <- TG in *.
      destruct (find (fun sp => is_announcement_of sp (PBgp rq bq)) (tbl_get pfx (tbl a))) as [sp|] eqn:FD.
      2:{ exfalso.
          assert (HS : In (strip (PBgp rq bq)) (map strip (tbl_get pfx (tbl a)))).
          { eapply Permutation_in; [apply Permutation_sym; exact H|].
            rewrite map_app. apply in_or_app; right. now left. }
          apply in_map_iff in HS. destruct HS as [e [ES HE]].
          destruct e as [snh|re be]; [discriminate ES|].
          unfold strip in ES. cbn [path_set_pid] in ES.
          assert (ES' : set_pid 0 be = set_pid 0 bq) by congruence.
          pose proof (find_none _ _ FD _ HE) as NA. cbn [is_announcement_of] in NA.
          rewrite (set_pid_same_strip be bq ES'), bgp_compare_refl in NA. discriminate. }
      apply find_some in FD. destruct FD as [HIn HA].
      pose proof (Origin sp HIn (is_announcement_strip sp _ HA)) as ESP.
      pose proof HIn as HIn'. apply in_tbl_get in HIn'.
      destruct (I_tbl P a I pfx sp HIn') as [rs [bs [-> Bsp]]]. cbn [path_hkey].
      destruct (prel_present hkey hkey_eq_dec (pm a) (hkey_of bs) (b_pid bs) (I_wf P a I) Bsp) as [m' [PR _]].
      rewrite PR. cbn [fst tbl]. rewrite tbl_get_remove_same.
      destruct (remove_first_cmp_split (PBgp rs bs) (tbl_get pfx (tbl a))) as [l1 [x [l2 [EL [CX ER]]]]].
      { exists (PBgp rs bs). split; [exact HIn|apply path_compare_refl_bgp]. }
      rewrite ER.
      assert (HX : In x (tbl_get pfx (tbl a))) by (rewrite EL; apply in_or_app; right; now left).
      assert (CXS : path_compare (strip x) (strip (PBgp rq bq)) = true).
      { apply path_compare_strip in CX. rewrite ESP in CX. exact CX. }
      pose proof (Origin x HX CXS) as EX.
      rewrite EL in H. rewrite !map_app in H. cbn [map] in H. rewrite EX in H.
      rewrite !map_app. eapply Permutation_app_inv. exact H.
    Qed.

    Lemma rp_add : forall a pfx qn (L : list path),
      Inv P a -> (exists r b, qn = PBgp r b) ->
      Permutation (map strip (tbl_get pfx (tbl a))) (map strip L) ->
      let a' := add_inner P s a pfx qn in
      errs a' = errs a ->
      Permutation (map strip (tbl_get pfx (tbl a'))) (map strip (L ++ [qn])) /\ Inv P a'.
    Proof.
      intros a pfx qn L I [r [b ->]] H a' HE.
      assert (I' : Inv P a') by (unfold a'; now apply (add_inner_inv P apply s Hap)).
      split; [|exact I'].
      subst a'. unfold add_inner in *. rewrite Hap in *. cbn [path_hkey] in *.
      destruct (pid_add hkey hkey_eq_dec (hkey_of b) (pm a)) as [m [i| |]] eqn:PA.
      - cbn [tbl]. rewrite tbl_get_add_same, !map_app. cbn [map]. rewrite strip_set_pid.
        now apply Permutation_app_tail.
      - cbn [errs] in HE. lia.
      - exfalso. destruct (padd_outcome hkey hkey_eq_dec _ _ _ _ (I_wf P a I) PA) as [ND _]. now apply ND.
    Qed.

    (* one path of the view *)
    Lemma rp_step : forall a pfx l Wd p Wr,
      In (pfx, l) v -> l = Wd ++ p :: Wr -> cur a = c -> Inv P a -> RP a pfx Wd (p :: Wr) ->
      let a' := refresh_one P apply s n pfx a p in
      errs a' = errs a -> RP a' pfx (Wd ++ [p]) Wr /\ Inv P a' /\ cur a' = c.
    Proof.
      intros a pfx l Wd p Wr HV EL Hc I H a' HE.
      assert (NDl : NoDup l) by (eapply (r_nodup fc fn s v G); eassumption).
      assert (HPl : In p l) by (rewrite EL; apply in_or_app; right; now left).
      assert (Hc' : cur a' = c).
      { unfold a'. rewrite (refresh_one_cases a pfx p Hc).
        destruct (Ec pfx p), (En pfx p); rewrite ?add_inner_cur, ?remove_exported_cur; try assumption.
        destruct (path_compare p0 p1); rewrite ?add_inner_cur, ?remove_exported_cur; assumption. }
      (* the entries other than p's stem from other paths *)
      assert (Others : forall q, In q (EVn pfx Wd ++ EVc pfx Wr) ->
                       exists p', In p' l /\ p' <> p /\ In q (images fc fn s pfx p')).
      { intros q HQ. rewrite EL in NDl. apply in_app_or in HQ. destruct HQ as [HQ|HQ].
        - destruct (in_EV fn pfx Wd q HQ) as [p' [HP' EP']]. exists p'.
          split; [rewrite EL; apply in_or_app; now left|]. split.
          + intros ->. apply NoDup_remove_2 in NDl. apply NDl. apply in_or_app. now left.
          + unfold images. rewrite EP'. apply in_or_app; right. now left.
        - destruct (in_EV fc pfx Wr q HQ) as [p' [HP' EP']]. exists p'.
          split; [rewrite EL; apply in_or_app; right; now right|]. split.
          + intros ->. apply NoDup_remove_2 in NDl. apply NDl. apply in_or_app. now right.
          + unfold images. rewrite EP'. apply in_or_app; left. now left. }
      unfold RP in *. unfold EVn, EVc, export_view in H |- *.
      rewrite flat_map_app. cbn [flat_map] in *. rewrite app_nil_r.
      fold (export_view fn s pfx Wd) (export_view fc s pfx Wr) in *.
      fold (Ec pfx p) in H. fold (En pfx p). fold (EVn pfx Wd) (EVc pfx Wr) in *.
      subst a'. rewrite (refresh_one_cases a pfx p Hc) in *.
      destruct (Ec pfx p) as [qc|] eqn:EC; destruct (En pfx p) as [qn|] eqn:EN; cbn [opt_list app] in *.
      - destruct (path_compare qc qn) eqn:CMP.
        + assert (qc = qn) by (eapply (r_faithful fc fn s v G); eassumption). subst qn.
          split; [|auto].
          eapply Permutation_trans; [exact H|]. apply Permutation_map.
          rewrite <- app_assoc. cbn [app]. apply Permutation_refl.
        + destruct (rp_remove a pfx l p qc (EVn pfx Wd) (EVc pfx Wr) HV HPl I EC Others H) as [H1 I1].
          assert (E1 : errs (fst (remove_exported P s a pfx qc)) = errs a) by apply errs_remove_exported.
          destruct (rp_add (fst (remove_exported P s a pfx qc)) pfx qn _ I1 (En_bgp _ _ _ EN) H1) as [H2 I2]; [lia|].
          split; [|auto]. eapply Permutation_trans; [exact H2|]. apply Permutation_map.
          rewrite <- !app_assoc. cbn [app].
          apply Permutation_app_head. apply Permutation_sym, Permutation_cons_append.
      - destruct (rp_remove a pfx l p qc (EVn pfx Wd) (EVc pfx Wr) HV HPl I EC Others H) as [H1 I1].
        split; [|auto]. rewrite app_nil_r. exact H1.
      - destruct (rp_add a pfx qn _ I (En_bgp _ _ _ EN) H HE) as [H2 I2].
        split; [|auto]. eapply Permutation_trans; [exact H2|]. apply Permutation_map.
        rewrite <- !app_assoc. cbn [app].
        apply Permutation_app_head. apply Permutation_sym, Permutation_cons_append.
      - split; [|auto]. rewrite app_nil_r. exact H.
    Qed.

    Lemma errs_refresh_one : forall a pfx p, errs a <= errs (refresh_one P apply s n pfx a p).
    Proof.
      intros a pfx p. unfold refresh_one. destruct (redistribute s p) as [r b].
      destruct (should_propagate s (PBgp r b)); [|lia].
      destruct (rewrite s r b); [|lia].
      destruct (apply (cur a) pfx (PBgp r b0)) as [qc|]; destruct (apply n pfx (PBgp r b0)) as [qn|]; try lia.
      - destruct (path_compare qc qn); [lia|].
        pose proof (errs_add_inner P apply s (fst (remove_exported P s a pfx qc)) pfx qn).
        pose proof (errs_remove_exported P s a pfx qc). lia.
      - rewrite errs_remove_exported. lia.
      - apply (errs_add_inner P apply s).
    Qed.

    (* all paths of one prefix *)
    Lemma rp_prefix : forall pfx l Wr Wd a,
      In (pfx, l) v -> l = Wd ++ Wr -> cur a = c -> Inv P a -> RP a pfx Wd Wr ->
      let a' := fold_left (refresh_one P apply s n pfx) Wr a in
      errs a' = errs a -> RP a' pfx l [] /\ Inv P a' /\ cur a' = c.
    Proof.
      intros pfx l Wr. induction Wr as [|p Wr IH]; intros Wd a HV EL Hc I H; cbn [fold_left]; intros HE.
      - rewrite app_nil_r in EL. subst l. auto.
      - set (a1 := refresh_one P apply s n pfx a p) in *.
        assert (M1 : errs a <= errs a1) by apply errs_refresh_one.
        assert (M2 : errs a1 <= errs (fold_left (refresh_one P apply s n pfx) Wr a1)).
        { apply errs_fold_le. intros. apply errs_refresh_one. }
        destruct (rp_step a pfx l Wd p Wr HV EL Hc I H) as [H1 [I1 Hc1]]; [fold a1; lia|]. fold a1 in H1, I1, Hc1.
        apply (IH (Wd ++ [p]) a1); try assumption.
        + rewrite <- app_assoc. exact EL.
        + lia.
    Qed.
  End AddPath.

  (* ---------------------------------------------------------------- calls for one prefix leave the others alone *)

  Lemma refresh_one_other : forall a pfx pfx' p, pfx <> pfx' ->
    tbl_get pfx' (tbl (refresh_one P apply s n pfx a p)) = tbl_get pfx' (tbl a).
  Proof.
    intros a pfx pfx' p NE. unfold refresh_one. destruct (redistribute s p) as [r b].
    destruct (should_propagate s (PBgp r b)); [|reflexivity].
    destruct (rewrite s r b); [|reflexivity].
    destruct (apply (cur a) pfx (PBgp r b0)) as [qc|]; destruct (apply n pfx (PBgp r b0)) as [qn|]; try reflexivity.
    - destruct (path_compare qc qn); [reflexivity|].
      rewrite add_inner_other by assumption. now apply remove_exported_other.
    - now apply remove_exported_other.
    - now apply add_inner_other.
  Qed.

  Lemma refresh_prefix_other : forall pfx pfx' l a, pfx <> pfx' ->
    tbl_get pfx' (tbl (fold_left (refresh_one P apply s n pfx) l a)) = tbl_get pfx' (tbl a).
  Proof.
    intros pfx pfx' l. induction l as [|p l IH]; intros a NE; cbn [fold_left]; [reflexivity|].
    rewrite IH by assumption. now apply refresh_one_other.
  Qed.

  Lemma refresh_one_cur : forall a pfx p, cur (refresh_one P apply s n pfx a p) = cur a.
  Proof.
    intros a pfx p. unfold refresh_one. destruct (redistribute s p) as [r b].
    destruct (should_propagate s (PBgp r b)); [|reflexivity].
    destruct (rewrite s r b); [|reflexivity].
    destruct (apply (cur a) pfx (PBgp r b0)) as [qc|]; destruct (apply n pfx (PBgp r b0)) as [qn|]; try reflexivity.
    - destruct (path_compare qc qn); [reflexivity|]. now rewrite add_inner_cur, remove_exported_cur.
    - apply remove_exported_cur.
    - apply add_inner_cur.
  Qed.

  Lemma refresh_prefix_cur : forall pfx l a, cur (fold_left (refresh_one P apply s n pfx) l a) = cur a.
  Proof.
    intros pfx l. induction l as [|p l IH]; intros a; cbn [fold_left]; [reflexivity|].
    rewrite IH. apply refresh_one_cur.
  Qed.

  Lemma errs_refresh_prefix : forall pfx l a, errs a <= errs (fold_left (refresh_one P apply s n pfx) l a).
  Proof.
    intros pfx l a. apply errs_fold_le. intros a' p. unfold refresh_one.
    destruct (redistribute s p) as [r b].
    destruct (should_propagate s (PBgp r b)); [|lia].
    destruct (rewrite s r b); [|lia].
    destruct (apply (cur a') pfx (PBgp r b0)) as [qc|]; destruct (apply n pfx (PBgp r b0)) as [qn|]; try lia.
    - destruct (path_compare qc qn); [lia|].
      pose proof (errs_add_inner P apply s (fst (remove_exported P s a' pfx qc)) pfx qn).
      pose proof (errs_remove_exported P s a' pfx qc). lia.
    - rewrite errs_remove_exported. lia.
    - apply (errs_add_inner P apply s).
  Qed.

  Lemma refresh_prefix_inv : s_addpath s = true -> forall pfx l a, Inv P a ->
    Inv P (fold_left (refresh_one P apply s n pfx) l a).
  Proof.
    intros Hap pfx l. induction l as [|p l IH]; intros a I; cbn [fold_left]; [assumption|].
    apply IH. now apply (refresh_one_inv P apply s Hap).
  Qed.

  (* ---------------------------------------------------------------- the whole view *)

  (* the table is the export view under policy f of the prefixes in vs, and still that of the old policy
     for the prefixes of vr; prefixes outside the view hold nothing *)
  Definition mixed (a : aro P) (vd vr : view) : Prop :=
    forall pfx,
      Permutation (map (norm s) (tbl_get pfx (tbl a)))
                  (map (norm s) (if existsb (N.eqb pfx) (map fst vd) then EVn pfx (view_get pfx (vd ++ vr))
                                 else EVc pfx (view_get pfx (vd ++ vr)))).

  Lemma view_get_in : forall pfx l (w : view), NoDup (map fst w) -> In (pfx, l) w -> view_get pfx w = l.
  Proof.
    induction w as [|[k m] w IH]; intros ND HI; [destruct HI|].
    cbn [view_get]. inversion ND as [|? ? NI ND']; subst. destruct HI as [HI|HI].
    - inversion HI; subst. now rewrite N.eqb_refl.
    - destruct (N.eqb k pfx) eqn:E; [|auto].
      apply N.eqb_eq in E. subst k. exfalso. apply NI. now apply (in_map fst) in HI.
  Qed.

  Lemma existsb_pfx : forall pfx (l : list N), existsb (N.eqb pfx) l = true <-> In pfx l.
  Proof.
    intros pfx l. rewrite existsb_exists. split.
    - intros [x [HI E]]. apply N.eqb_eq in E. now subst.
    - intros HI. exists pfx. split; [assumption|apply N.eqb_refl].
  Qed.

  Lemma replace_view : forall vr vd a,
    v = vd ++ vr -> cur a = c -> (s_addpath s = true -> Inv P a) -> mixed a vd vr ->
    let a' := fold_left (fun acc r => fold_left (refresh_one P apply s n (fst r)) (snd r) acc) vr a in
    errs a' = errs a ->
    mixed a' v [] /\ cur a' = c.
  Proof.
    induction vr as [|[pfx l] vr IH]; intros vd a EV Hc I M; cbn [fold_left]; intros HE.
    - rewrite app_nil_r in *. subst vd. auto.
    - cbn [fst snd] in *.
      set (a1 := fold_left (refresh_one P apply s n pfx) l a) in *.
      assert (HV : In (pfx, l) v) by (rewrite EV; apply in_or_app; right; now left).
      assert (NDv : NoDup (map fst v)) by apply (r_pfx_nodup fc fn s v G).
      assert (VG : view_get pfx (vd ++ (pfx, l) :: vr) = l).
      { rewrite <- EV. now apply view_get_in. }
      assert (NotDone : existsb (N.eqb pfx) (map fst vd) = false).
      { apply not_true_is_false. intros T. apply existsb_pfx in T.
        rewrite EV, map_app in NDv. cbn [map fst] in NDv. apply NoDup_remove_2 in NDv.
        apply NDv. apply in_or_app. now left. }
      assert (M1 : errs a <= errs a1) by apply errs_refresh_prefix.
      assert (M2 : errs a1 <= errs (fold_left (fun acc r => fold_left (refresh_one P apply s n (fst r)) (snd r) acc) vr a1)).
      { apply errs_fold_le. intros a' r. apply errs_refresh_prefix. }
      assert (Hc1 : cur a1 = c) by (unfold a1; rewrite refresh_prefix_cur; exact Hc).
      assert (I1 : s_addpath s = true -> Inv P a1).
      { intros Hap. unfold a1. apply refresh_prefix_inv; auto. }
      (* the prefix itself *)
      assert (Here : Permutation (map (norm s) (tbl_get pfx (tbl a1))) (map (norm s) (EVn pfx l))).
      { pose proof (M pfx) as Mp. rewrite NotDone, VG in Mp.
        destruct (s_addpath s) eqn:Hap.
        - assert (R0 : RP a pfx [] l).
          { unfold RP. cbn [app]. unfold EVn at 1. cbn [export_view flat_map app].
            unfold norm in Mp. rewrite Hap in Mp. exact Mp. }
          destruct (rp_prefix Hap pfx l l [] a HV eq_refl Hc (I eq_refl) R0) as [R1 _]; [fold a1; lia|].
          fold a1 in R1. unfold RP in R1. unfold EVc in R1. cbn [export_view flat_map] in R1.
          rewrite app_nil_r in R1. unfold norm. rewrite Hap. exact R1.
        - rewrite !(norm_id s Hap) in *.
          assert (L : (length l <= 1)%nat) by (eapply (r_best fc fn s v G Hap); eassumption).
          apply Permutation_refl'. unfold a1.
          destruct l as [|p [|p2 l']]; [| |cbn in L; lia].
          + cbn [fold_left]. unfold EVn, EVc in *. cbn in *. apply Permutation_sym, Permutation_nil in Mp. exact Mp.
          + cbn [fold_left]. apply (best_refresh Hap a pfx [p] p HV (or_introl eq_refl) Hc).
            unfold EVc in *. cbn [export_view flat_map] in *. rewrite app_nil_r in *.
            destruct (export_with fc s pfx p); cbn [opt_list] in *.
            * apply Permutation_sym, Permutation_length_1_inv in Mp. exact Mp.
            * apply Permutation_sym, Permutation_nil in Mp. exact Mp. }
      destruct (IH (vd ++ [(pfx, l)]) a1) as [MF HcF]; try assumption.
      + rewrite <- app_assoc. exact EV.
      + (* mixed a1 (vd ++ [(pfx,l)]) vr *)
        intros pfx'. rewrite <- app_assoc. cbn [app]. rewrite map_app, existsb_app. cbn [map fst existsb].
        destruct (N.eq_dec pfx' pfx) as [->|NE].
        * rewrite N.eqb_refl, orb_true_r. cbn [orb]. rewrite VG. exact Here.
        * assert (E : N.eqb pfx' pfx = false) by (now apply N.eqb_neq).
          rewrite E, !orb_false_r. unfold a1. rewrite refresh_prefix_other by congruence. apply M.
      + lia.
      + split; [exact MF|exact HcF].
  Qed.
End Replace.

(* Replacing the export policy: the export view under the old policy becomes the export view under the new one *)
Theorem replace_converges :
  forall (P : Type) (apply : P -> N -> path -> option path) (s : sess) (c n : P) (v : view) (a : aro P),
  rguards (apply c) (apply n) s v ->
  cur a = c -> (s_addpath s = true -> Inv P a) ->
  ribout_is_export_view (apply c) s v a ->
  errs (replace_chain P apply s a n v) = errs a ->
  ribout_is_export_view (apply n) s v (replace_chain P apply s a n v) /\
  cur (replace_chain P apply s a n v) = n.
Proof.
  intros P apply s c n v a G Hc I H HE. unfold replace_chain in *. cbn [errs] in HE.
  split; [|reflexivity].
  destruct (replace_view P apply s c n v G v [] a eq_refl Hc I) as [M _].
  - intros pfx. cbn [map existsb app]. apply H.
  - exact HE.
  - intros pfx. cbn [tbl]. specialize (M pfx). rewrite app_nil_r in M.
    destruct (existsb (N.eqb pfx) (map fst v)) eqn:E; [exact M|].
    (* a prefix that is not in the view: nothing stored, nothing to store *)
    assert (VG : view_get pfx v = []).
    { clear - E. induction v as [|[k m] w IH]; [reflexivity|]. cbn [map fst existsb] in E.
      apply orb_false_elim in E. destruct E as [E1 E2]. cbn [view_get].
      rewrite N.eqb_sym, E1. now apply IH. }
    rewrite VG in *. exact M.
Qed.
