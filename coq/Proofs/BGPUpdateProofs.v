(* C19: an UPDATE that the decoder model accepts is well-formed (Spec/BGPUpdateSpec.v).
   Partial-correctness invariant  consP m P : whenever m succeeds on b with value a and rest r,
   b = c ++ r for consumed bytes c with P a c. *)
From Coq Require Import List NArith Bool Arith Lia ZArith.
From Coq Require Import ZifyBool ZifyNat ZifyN.
Import ListNotations.
From BioVerif Require Import Model.BGPCodec Model.BGPInstall Spec.BGPUpdateSpec Proofs.BGPCodecProofs.
Local Open Scope N_scope.
Ltac Zify.zify_post_hook ::= Z.div_mod_to_equations.

Definition consP {A} (m : M A) (P : A -> list N -> Prop) : Prop :=
  forall b al a r al', m b al = (Ok a r, al') -> exists c, b = c ++ r /\ P a c.

Lemma consP_weaken : forall A (m : M A) (P P' : A -> list N -> Prop),
  consP m P -> (forall a c, P a c -> P' a c) -> consP m P'.
Proof. intros A m P P' H HP b al a r al' E. destruct (H _ _ _ _ _ E) as (c & Hc & Hp). eauto. Qed.

Lemma consP_ret : forall A (a : A) (P : A -> list N -> Prop), P a [] -> consP (ret a) P.
Proof. intros A a P H b al a' r al' E. unfold ret in E. inversion E; subst. exists []. auto. Qed.

Lemma consP_fail : forall A (P : A -> list N -> Prop), consP fail P.
Proof. intros A P b al a r al' E. discriminate. Qed.

Lemma consP_nofuel : forall A (P : A -> list N -> Prop), consP nofuel P.
Proof. intros A P b al a r al' E. discriminate. Qed.

Lemma consP_panic : forall A w (P : A -> list N -> Prop), consP (panic w) P.
Proof. intros A w P b al a r al' E. discriminate. Qed.

Lemma consP_bind : forall A B (m : M A) (k : A -> M B) (P1 : A -> list N -> Prop) (P : B -> list N -> Prop),
  consP m P1 ->
  (forall a, consP (k a) (fun x c2 => forall c1, P1 a c1 -> P x (c1 ++ c2))) ->
  consP (bind m k) P.
Proof.
  intros A B m k P1 P Hm Hk b al x r al' E. unfold bind in E.
  destruct (m b al) as [[a r1| | |] al1] eqn:Em; try discriminate.
  destruct (Hm _ _ _ _ _ Em) as (c1 & Hb & Hp1).
  destruct (Hk a _ _ _ _ _ E) as (c2 & Hr & Hp2).
  exists (c1 ++ c2). split; [subst; rewrite app_assoc; reflexivity|]. auto.
Qed.

Lemma consP_guard : forall c, consP (guard c) (fun _ cs => cs = [] /\ c = true).
Proof. intros c. unfold guard. destruct c; [apply consP_ret; auto|apply consP_fail]. Qed.

Lemma consP_alloc : forall n, consP (alloc n) (fun _ cs => cs = []).
Proof. intros n b al a r al' E. unfold alloc in E. inversion E; subst. exists []. auto. Qed.

Lemma consP_getBuf : consP getBuf (fun _ cs => cs = []).
Proof. intros b al a r al' E. unfold getBuf in E. inversion E; subst. exists []. auto. Qed.

Lemma consP_readByte : consP readByte (fun a cs => len cs = 1 /\ a < 256).
Proof.
  intros b al a r al' E. unfold readByte in E. destruct b as [|x t]; [discriminate|].
  inversion E; subst. exists [x]. split; [reflexivity|]. split; [reflexivity|apply byte_lt].
Qed.

(* generic steps *)
Ltac cbind l := eapply consP_bind; [ l | ].
Ltac cbyte := cbind ltac:(apply consP_readByte).

Lemma consP_readU16 : consP readU16 (fun a cs => len cs = 2 /\ a < 65536).
Proof.
  unfold readU16. cbyte. intros a. cbyte. intros a2. apply consP_ret.
  intros c1 (H1 & B1) c2 (H2 & B2). rewrite !len_app, len_nil. lia.
Qed.

Lemma consP_readU32 : consP readU32 (fun _ cs => len cs = 4).
Proof.
  unfold readU32. cbyte. intros a. cbyte. intros a2. cbyte. intros a3. cbyte. intros a4. apply consP_ret.
  intros c1 (H1 & _) c2 (H2 & _) c3 (H3 & _) c4 (H4 & _). rewrite !len_app, len_nil. lia.
Qed.

Lemma firstn_skipn_len : forall (b : list N) n, len (firstn n b) = N.of_nat n -> len (firstn n b) = N.of_nat n.
Proof. auto. Qed.

Lemma consP_binRead : forall n, consP (binRead n) (fun _ cs => len cs = n).
Proof.
  intros n b al a r al' E. unfold binRead in E.
  destruct (len (firstn (N.to_nat n) b) =? n) eqn:El; [|discriminate].
  inversion E; subst. exists (firstn (N.to_nat n) b). split; [symmetry; apply firstn_skipn|]. lia.
Qed.

Lemma consP_dumpN : forall n, consP (dumpN n) (fun _ cs => len cs = n).
Proof.
  intros n b al a r al' E. unfold dumpN in E.
  destruct (len (firstn (N.to_nat n) b) =? n) eqn:El; [|discriminate].
  inversion E; subst. exists (firstn (N.to_nat n) b). split; [symmetry; apply firstn_skipn|]. lia.
Qed.

Lemma consP_bufReadFull : forall n, consP (bufReadFull n) (fun p cs => len cs = n /\ len p = n).
Proof.
  intros n b al a r al' E. unfold bufReadFull, bind, bufRead in E.
  destruct (n =? 0) eqn:E0.
  - apply N.eqb_eq in E0. subst n. unfold guard, ret in E. cbn in E. inversion E; subst.
    exists []. split; [reflexivity|]. rewrite len_nil. lia.
  - destruct b as [|x t]; [discriminate|]. set (b := x :: t) in *.
    destruct (negb (len (firstn (N.to_nat n) b) <? n)) eqn:Eg; unfold guard, ret, fail in E; [|discriminate].
    inversion E; subst.
    assert (Hl : len (firstn (N.to_nat n) b) = n) by (rewrite len_firstn in *; lia).
    exists (firstn (N.to_nat n) b). rewrite Hl. split; [symmetry; apply firstn_skipn|].
    split; [reflexivity|]. rewrite len_app, len_map, len_repeat, Hl. lia.
Qed.

Lemma consP_read4 : consP read4 (fun _ cs => len cs = 4).
Proof.
  unfold read4. cbind ltac:(apply consP_bufReadFull). intros p. apply consP_ret.
  intros c1 (H1 & _). rewrite app_nil_r. exact H1.
Qed.

Lemma consP_repeatM : forall A (m : M A) k n,
  consP m (fun _ cs => len cs = k) -> consP (repeatM n m) (fun _ cs => len cs = N.of_nat n * k).
Proof.
  intros A m k n Hm. induction n as [|n IH]; cbn [repeatM].
  - apply consP_ret. rewrite len_nil. lia.
  - cbind ltac:(exact Hm). intros x. cbind ltac:(exact IH). intros l. apply consP_ret.
    intros c1 H1 c2 H2. rewrite !len_app, len_nil. lia.
Qed.

(* run on a sub-buffer: nothing of the outer buffer is consumed *)
Lemma consP_runSub : forall A (sub : list N) (inner : M A) (Pin : A -> list N -> Prop),
  consP inner Pin -> consP (runSub sub inner) (fun a cs => cs = [] /\ exists ci rest, sub = ci ++ rest /\ Pin a ci).
Proof.
  intros A sub inner Pin Hin b al a r al' E. unfold runSub in E.
  destruct (inner sub al) as [[a1 r1| | |] al1] eqn:Ei; try discriminate.
  inversion E; subst. destruct (Hin _ _ _ _ _ Ei) as (ci & Hs & Hp).
  exists []. split; [reflexivity|]. split; [reflexivity|]. eauto.
Qed.

(* ------------------------------------------------------------------ NLRI *)

Lemma consP_deserializePrefix : forall b pl afi,
  consP (deserializePrefix b pl afi) (fun pfx cs => cs = [] /\ p_len pfx = pl /\ pl <= afiAddrLen afi * 8).
Proof.
  intros. unfold deserializePrefix.
  cbind ltac:(apply consP_guard). intros u1.
  cbind ltac:(apply consP_guard). intros u2.
  destruct (afi =? 1).
  - apply consP_ret. intros c1 (H1 & G1) c2 (H2 & G2). subst. cbn [p_len app]. repeat split; lia.
  - destruct (ipFromBytes _); [|apply consP_fail].
    cbind ltac:(apply consP_guard). intros u3. apply consP_ret.
    intros c1 (H1 & G1) c2 (H2 & G2) c3 (H3 & G3). subst. cbn [p_len app]. repeat split; lia.
Qed.

Lemma bufRead3_spec : forall b al,
  bufRead 3 b al =
  match b with
  | [] => (Err, al)
  | [x] => (Ok ([byte x; 0; 0], 1) [], al)
  | [x; y] => (Ok ([byte x; byte y; 0], 2) [], al)
  | x :: y :: z :: t => (Ok ([byte x; byte y; byte z], 3) t, al)
  end.
Proof. intros. destruct b as [|x [|y [|z t]]]; reflexivity. Qed.

Lemma lse_even : forall a b, N.odd (a * 65536 + b * 256 + 0) = false.
Proof.
  intros. rewrite <- N.negb_even.
  assert (E : N.even (a * 65536 + b * 256 + 0) = true) by (apply N.even_spec; exists (a * 32768 + b * 128); lia).
  rewrite E. reflexivity.
Qed.

Lemma decodeLabels_nil : forall f pl cons acc al t r al',
  decodeLabels f pl cons acc [] al <> (Ok t r, al').
Proof. intros. destruct f; cbn [decodeLabels]; unfold nofuel, bind; rewrite ?bufRead3_spec; discriminate. Qed.

(* a label stack entry that was read short (fewer than 3 bytes left) never ends the stack: its padded
   low byte has no bottom-of-stack bit, and the next read fails on the empty buffer *)
Lemma consP_decodeLabels : forall fuel pl cons acc,
  consP (decodeLabels fuel pl cons acc) (fun t cs => snd t = cons + len cs).
Proof.
  induction fuel as [|f IH]; intros; [apply consP_nofuel|].
  intros b al t r al' E. cbn [decodeLabels] in E. unfold bind at 1 in E. rewrite bufRead3_spec in E.
  destruct b as [|x [|y [|z b']]]; try discriminate.
  - unfold bind in E. destruct (guard (24 <=? pl) [] al) as [[u r1| | |] al1] eqn:Eg; try discriminate.
    unfold guard in Eg. destruct (24 <=? pl); [|discriminate]. unfold ret in Eg. inversion Eg; subst r1 al1.
    cbn [nth] in E. rewrite lse_even in E. exfalso. eapply decodeLabels_nil; eauto.
  - unfold bind in E. destruct (guard (24 <=? pl) [] al) as [[u r1| | |] al1] eqn:Eg; try discriminate.
    unfold guard in Eg. destruct (24 <=? pl); [|discriminate]. unfold ret in Eg. inversion Eg; subst r1 al1.
    cbn [nth] in E. rewrite lse_even in E. exfalso. eapply decodeLabels_nil; eauto.
  - unfold bind in E. destruct (guard (24 <=? pl) b' al) as [[u r1| | |] al1] eqn:Eg; try discriminate.
    unfold guard in Eg. destruct (24 <=? pl); [|discriminate]. unfold ret in Eg. inversion Eg; subst r1 al1.
    cbn [nth] in E. destruct (N.odd _).
    + unfold ret in E. inversion E; subst. exists [x; y; z]. split; [reflexivity|]. cbn [fst snd]. reflexivity.
    + destruct (IH _ _ _ _ _ _ _ _ E) as (c & Hc & Hs). exists (x :: y :: z :: c).
      split; [subst; reflexivity|]. rewrite Hs.
      change (x :: y :: z :: c) with ([x; y; z] ++ c). rewrite len_app.
      change (len [x; y; z]) with 3. lia.
Qed.

Lemma consP_decodeNLRI : forall fuel afi safi ap,
  consP (decodeNLRI fuel afi safi ap) (fun t cs => len cs = snd t /\ nlri_ok afi (fst t)).
Proof.
  intros. unfold decodeNLRI.
  cbind ltac:(instantiate (1 := fun t cs => len cs = snd t); destruct ap;
              [ cbind ltac:(apply consP_readU32); intros x; apply consP_ret; intros c1 H1; rewrite app_nil_r; exact H1
              | apply consP_ret; reflexivity ]).
  intros [pid cons]. cbyte. intros pl. cbv zeta.
  cbind ltac:(instantiate (1 := fun t cs => snd t = cons + 1 + len cs); destruct (safi =? 4);
              [ eapply consP_weaken; [apply consP_decodeLabels|]; intros t cs H; exact H
              | apply consP_ret; cbn [snd]; rewrite len_nil; lia ]).
  intros [[labels pl2] cons2].
  cbind ltac:(apply consP_alloc). intros u.
  cbind ltac:(apply consP_bufReadFull). intros bytes.
  cbind ltac:(apply consP_deserializePrefix). intros pfx.
  apply consP_ret.
  intros c6 (H6 & H6p & H6w) c5 (H5 & _) c4 H4 c3 H3 c2 (H2 & _) c1 H1.
  cbn [fst snd] in *. subst c4 c6. rewrite !app_nil_r, !len_app.
  rewrite ?len_nil. split; [lia|]. unfold nlri_ok. cbn [n_pfx]. rewrite H6p. exact H6w.
Qed.

Lemma consP_decodeNLRIs : forall fuel length p afi safi ap acc,
  consP (decodeNLRIs fuel length p afi safi ap acc)
        (fun l cs => p + len cs = length /\ (Forall (nlri_ok afi) acc -> Forall (nlri_ok afi) l)).
Proof.
  induction fuel as [|f IH]; intros; [apply consP_nofuel|].
  cbn [decodeNLRIs]. destruct (p <? length).
  - cbind ltac:(apply consP_decodeNLRI). intros [n cons].
    eapply consP_weaken; [apply IH|]. intros l cs (H1 & H2) c1 (H3 & H4). cbn [fst snd] in *.
    rewrite len_app. split; [lia|]. intros Hacc. apply H2. constructor; assumption.
  - cbind ltac:(apply consP_guard). intros u. apply consP_ret.
    intros c1 (H1 & G1). subst c1. rewrite len_nil. split; [lia|].
    intros Hacc. apply Forall_rev. exact Hacc.
Qed.

(* ------------------------------------------------------------------ attribute values *)

Lemma consP_dropBuf : forall k, consP (dropBuf k) (fun _ _ => True).
Proof.
  intros k b al a r al' E. unfold dropBuf in E. inversion E; subst.
  exists (firstn k b). split; [symmetry; apply firstn_skipn|exact I].
Qed.

Lemma Forall_nil_imp : forall afi l, (Forall (nlri_ok afi) [] -> Forall (nlri_ok afi) l) -> Forall (nlri_ok afi) l.
Proof. intros afi l H. apply H. constructor. Qed.

Lemma consP_MPReachBody : forall fuel o, consP (deserializeMPReachBody fuel o) (fun v _ => val_ok v).
Proof.
  intros. unfold deserializeMPReachBody.
  cbind ltac:(apply consP_readU16). intros afi. cbyte. intros safi. cbyte. intros nhl.
  cbind ltac:(apply consP_getBuf). intros variable. cbv zeta.
  cbind ltac:(apply consP_guard). intros u.
  destruct (len variable <? _); [apply consP_panic|].
  destruct (ipFromBytes _) as [nh|]; [|apply consP_fail].
  destruct (_ =? 0).
  - apply consP_ret. intros. cbn [val_ok]. constructor.
  - destruct (len variable <? _); [apply consP_panic|].
    cbind ltac:(apply consP_dropBuf). intros u2.
    cbind ltac:(apply consP_getBuf). intros rest.
    cbind ltac:(apply consP_decodeNLRIs). intros nl. apply consP_ret.
    intros c1 (_ & H1) c2 _ c3 _ c4 _ c5 _ c6 _ c7 _ c8 _. cbn [val_ok]. apply Forall_nil_imp. exact H1.
Qed.

Lemma consP_MPUnreachBody : forall fuel o, consP (deserializeMPUnreachBody fuel o) (fun v _ => val_ok v).
Proof.
  intros. unfold deserializeMPUnreachBody.
  cbind ltac:(apply consP_readU16). intros afi. cbyte. intros safi.
  cbind ltac:(apply consP_getBuf). intros rest.
  destruct (len rest =? 0).
  - apply consP_ret. intros. cbn [val_ok]. constructor.
  - cbind ltac:(apply consP_decodeNLRIs). intros nl. apply consP_ret.
    intros c1 (_ & H1) c2 _ c3 _ c4 _. cbn [val_ok]. apply Forall_nil_imp. exact H1.
Qed.

Lemma consP_prefixed : forall A c n (body : M A) (P : A -> Prop),
  consP body (fun v _ => P v) -> consP (bind (guard c) (fun _ => bind (alloc n) (fun _ => body))) (fun v _ => P v).
Proof.
  intros A c n body P H.
  cbind ltac:(apply consP_guard). intros u. cbind ltac:(apply consP_alloc). intros u2.
  eapply consP_weaken; [exact H|]. intros a cs Hp c1 _ c2 _. exact Hp.
Qed.

Lemma consP_subparse : forall A L (inner : M A) (P : A -> Prop),
  consP inner (fun v _ => P v) -> consP (subparse L inner) (fun v cs => len cs = L /\ P v).
Proof.
  intros A L inner P H. unfold subparse.
  cbind ltac:(apply consP_alloc). intros u.
  cbind ltac:(apply consP_bufReadFull). intros sub.
  eapply consP_weaken; [apply consP_runSub; exact H|].
  intros a cs (Hc & ci & rest & _ & Hp) c1 (H1 & _) c2 H2. subst cs c2. rewrite app_nil_r, app_nil_l.
  split; assumption.
Qed.

Lemma consP_decodeASN : forall asnLen, asnLen = 2 \/ asnLen = 4 ->
  consP (decodeASN asnLen) (fun _ cs => len cs = asnLen).
Proof.
  intros asnLen [H|H]; subst; unfold decodeASN; cbn [N.eqb Pos.eqb].
  - eapply consP_weaken; [apply consP_readU16|]. intros a cs (Hc & _). exact Hc.
  - apply consP_readU32.
Qed.

Lemma consP_decodeASPath : forall fuel L asnLen p acc, asnLen = 2 \/ asnLen = 4 ->
  consP (decodeASPath fuel L asnLen p acc) (fun v cs => p + len cs = L /\ val_ok v).
Proof.
  induction fuel as [|f IH]; intros L asnLen p acc Hasn; [apply consP_nofuel|].
  cbn [decodeASPath]. destruct (p <? L).
  - cbyte. intros ty. cbyte. intros count. cbv zeta.
    cbind ltac:(apply consP_guard). intros u1. cbind ltac:(apply consP_guard). intros u2.
    cbind ltac:(apply consP_alloc). intros u3.
    cbind ltac:(apply consP_repeatM; apply consP_decodeASN; exact Hasn). intros asns.
    eapply consP_weaken; [apply IH; exact Hasn|].
    intros v cs (H1 & H2) c6 H6 c5 H5 c4 (H4 & _) c3 (H3 & _) c2 (H2' & _) c1 (H1' & _).
    subst c3 c4 c5. rewrite !app_nil_l, !len_app. split; [lia|exact H2].
  - cbind ltac:(apply consP_guard). intros u. apply consP_ret.
    intros c1 (H1 & G1). subst c1. rewrite len_nil. split; [lia|exact I].
Qed.

Lemma consP_decodeU32List : forall L, consP (decodeU32List L) (fun _ cs => len cs = L).
Proof.
  intros. unfold decodeU32List.
  cbind ltac:(apply consP_guard). intros u. cbind ltac:(apply consP_alloc). intros u2.
  eapply consP_weaken; [apply consP_repeatM; apply consP_read4|].
  intros a cs H c2 H2 c1 (H1 & G1). subst c1 c2. rewrite !app_nil_l. cbv beta in *. lia.
Qed.

Lemma consP_decodeLarge : forall L, consP (decodeLarge L) (fun _ cs => len cs = L).
Proof.
  intros. unfold decodeLarge.
  cbind ltac:(apply consP_guard). intros u. cbind ltac:(apply consP_alloc). intros u2.
  eapply consP_weaken; [apply consP_repeatM with (k := 12)|].
  - cbind ltac:(apply consP_read4). intros a. cbind ltac:(apply consP_read4). intros b.
    cbind ltac:(apply consP_read4). intros c. apply consP_ret.
    intros c3 H3 c2 H2 c1 H1. rewrite !len_app, len_nil. lia.
  - intros a cs H c2 H2 c1 (H1 & G1). subst c1 c2. rewrite !app_nil_l. cbv beta in *. lia.
Qed.

Lemma consP_decodeU32Dump : forall L, consP (decodeU32Dump L) (fun v cs => len cs = L /\ val_ok v).
Proof.
  intros. unfold decodeU32Dump.
  cbind ltac:(apply consP_guard). intros u. cbind ltac:(apply consP_read4). intros v.
  cbind ltac:(apply consP_dumpN). intros u2. apply consP_ret.
  intros c3 H3 c2 H2 c1 (H1 & G1). subst c1. rewrite app_nil_l, app_nil_r, len_app. split; [lia|exact I].
Qed.

Lemma consP_decodeAttrValue : forall fuel o ty L,
  consP (decodeAttrValue fuel o ty L) (fun v cs => len cs = L /\ val_ok v).
Proof.
  intros. unfold decodeAttrValue.
  repeat match goal with |- consP (if ?c then _ else _) _ => destruct c end.
  - cbind ltac:(apply consP_guard). intros u. cbyte. intros v. cbind ltac:(apply consP_dumpN). intros u2.
    apply consP_ret. intros c3 H3 c2 (H2 & _) c1 (H1 & G1). subst c1.
    rewrite app_nil_l, app_nil_r, len_app. split; [lia|exact I].
  - eapply consP_weaken; [apply consP_decodeASPath; destruct (asn32 o); auto|].
    intros v cs (H1 & H2). split; [lia|exact H2].
  - cbind ltac:(apply consP_guard). intros u. cbind ltac:(apply consP_readU32). intros v. apply consP_ret.
    intros c2 H2 c1 (H1 & G1). subst c1. rewrite app_nil_l, app_nil_r. split; [lia|exact I].
  - cbind ltac:(apply consP_guard). intros u. cbind ltac:(apply consP_readU32). intros v. apply consP_ret.
    intros c2 H2 c1 (H1 & G1). subst c1. rewrite app_nil_l, app_nil_r. split; [lia|exact I].
  - cbind ltac:(apply consP_guard). intros u. cbind ltac:(apply consP_readU32). intros v. apply consP_ret.
    intros c2 H2 c1 (H1 & G1). subst c1. rewrite app_nil_l, app_nil_r. split; [lia|exact I].
  - cbind ltac:(apply consP_guard). intros u. cbind ltac:(apply consP_readU16). intros a.
    cbind ltac:(apply consP_readU32). intros ad. cbind ltac:(apply consP_dumpN). intros u2. apply consP_ret.
    intros c4 H4 c3 H3 c2 (H2 & _) c1 (H1 & G1). subst c1.
    rewrite app_nil_l, app_nil_r, !len_app. split; [lia|exact I].
  - cbind ltac:(apply consP_guard). intros u. apply consP_ret.
    intros c1 (H1 & G1). subst c1. rewrite len_nil. split; [lia|exact I].
  - cbind ltac:(apply consP_decodeU32List). intros l. apply consP_ret.
    intros c1 H1. rewrite app_nil_r. split; [exact H1|exact I].
  - apply consP_decodeU32Dump.
  - cbind ltac:(apply consP_decodeU32List). intros l. apply consP_ret.
    intros c1 H1. rewrite app_nil_r. split; [exact H1|exact I].
  - apply consP_subparse. unfold deserializeMPReach. apply consP_prefixed. apply consP_MPReachBody.
  - apply consP_subparse. unfold deserializeMPUnreach. apply consP_prefixed. apply consP_MPUnreachBody.
  - apply consP_decodeU32Dump.
  - cbind ltac:(apply consP_decodeLarge). intros l. apply consP_ret.
    intros c1 H1. rewrite app_nil_r. split; [exact H1|exact I].
  - cbind ltac:(apply consP_alloc). intros u. cbind ltac:(apply consP_binRead). intros v. apply consP_ret.
    intros c2 H2 c1 H1. subst c1. rewrite app_nil_l, app_nil_r. split; [exact H2|exact I].
Qed.

(* ------------------------------------------------------------------ attribute list *)

Lemma consP_decodePathAttr : forall fuel o,
  consP (decodePathAttr fuel o)
        (fun t cs => len cs = attr_size (fst t) /\ val_ok (a_val (fst t)) /\ snd t <= attr_size (fst t)).
Proof.
  intros. unfold decodePathAttr.
  cbyte. intros flags. cbyte. intros ty. cbv zeta.
  cbind ltac:(instantiate (1 := fun t cs => len cs = snd t /\ (snd t = if N.testbit flags 4 then 2 else 1));
              destruct (N.testbit flags 4);
              [ cbind ltac:(apply consP_readU16); intros x; apply consP_ret; intros c1 (H1 & _);
                rewrite app_nil_r; cbn [snd]; split; [exact H1|reflexivity]
              | cbyte; intros x; apply consP_ret; intros c1 (H1 & _);
                rewrite app_nil_r; cbn [snd]; split; [exact H1|reflexivity] ]).
  intros [L n].
  cbind ltac:(apply consP_decodeAttrValue). intros v. apply consP_ret.
  intros c4 (H4 & V4) c3 (H3 & E3) c2 (H2 & _) c1 (H1 & _). cbn [fst snd] in *.
  unfold attr_size, attr_hdr. cbn [a_ext a_len a_val]. rewrite app_nil_r, !len_app.
  destruct (N.testbit flags 4); (split; [lia|]); (split; [exact V4|]); lia.
Qed.

Lemma existsb_rev : forall A (f : A -> bool) l, existsb f (rev l) = existsb f l.
Proof.
  intros A f l. induction l as [|x l IH]; [reflexivity|].
  cbn [rev existsb]. rewrite existsb_app, IH. cbn [existsb]. rewrite orb_false_r. apply orb_comm.
Qed.

Lemma hasAttr_rev : forall t l, hasAttr t (rev l) = hasAttr t l.
Proof. intros. unfold hasAttr. apply existsb_rev. Qed.

Definition chunked (new : list attr) (cs : list N) : Prop :=
  exists chunks, cs = concat chunks /\ Forall2 (fun a ch => len ch = attr_size a) new chunks.

Lemma consP_decodePathAttrsLoop : forall fuel o tpal p h1 h2 h3 acc,
  h1 = hasAttr 3 acc || hasAttr 14 acc -> h2 = hasAttr 1 acc -> h3 = hasAttr 2 acc ->
  consP (decodePathAttrsLoop fuel o tpal p h1 h2 h3 acc)
        (fun l cs => exists new, l = rev acc ++ new /\ chunked new cs /\
                     Forall (fun a => val_ok (a_val a)) new /\ tpal <= p + len cs /\
                     (hasAttr 14 l = true -> hasAttr 1 l = true /\ hasAttr 2 l = true)).
Proof.
  induction fuel as [|f IH]; intros o tpal p h1 h2 h3 acc E1 E2 E3; [apply consP_nofuel|].
  cbn [decodePathAttrsLoop]. destruct (p <? tpal) eqn:Ep.
  - cbind ltac:(apply consP_decodePathAttr). intros [pa cons]. cbv zeta.
    eapply consP_weaken.
    + apply IH.
      * subst h1. unfold hasAttr. cbn [existsb].
        destruct (a_type pa =? 3), (a_type pa =? 14), (existsb _ acc), (existsb _ acc); reflexivity.
      * subst h2. unfold hasAttr. cbn [existsb]. apply orb_comm.
      * subst h3. unfold hasAttr. cbn [existsb]. apply orb_comm.
    + intros l cs (new & Hl & (chunks & Hcs & Hch) & Hv & Hp & Hm) c1 (H1 & V1 & B1). cbn [fst snd] in *.
      exists (pa :: new). split; [rewrite Hl; cbn [rev]; rewrite <- app_assoc; reflexivity|].
      split; [exists (c1 :: chunks); split; [cbn [concat]; rewrite Hcs; reflexivity|constructor; assumption]|].
      split; [constructor; assumption|]. split; [rewrite len_app; lia|exact Hm].
  - cbind ltac:(apply consP_guard). intros u. apply consP_ret.
    intros c1 (H1 & G1). subst c1. exists []. rewrite app_nil_r. split; [reflexivity|].
    split; [exists []; split; [reflexivity|constructor]|]. split; [constructor|].
    split; [rewrite len_nil; lia|].
    rewrite !hasAttr_rev. subst h1 h2 h3. intros H14. rewrite H14 in G1.
    rewrite orb_true_r in G1. cbn [orb negb andb] in G1.
    destruct (hasAttr 1 acc), (hasAttr 2 acc); cbn in G1; try discriminate; auto.
Qed.

Lemma consP_decodePathAttrs : forall fuel o tpal,
  consP (decodePathAttrs fuel o tpal)
        (fun l cs => chunked l cs /\ Forall (fun a => val_ok (a_val a)) l /\ tpal <= len cs /\
                     (hasAttr 14 l = true -> hasAttr 1 l = true /\ hasAttr 2 l = true)).
Proof.
  intros. unfold decodePathAttrs. destruct (tpal =? 0) eqn:E0.
  - apply consP_ret. split; [exists []; split; [reflexivity|constructor]|]. split; [constructor|].
    split; [rewrite len_nil; lia|]. cbn. discriminate.
  - eapply consP_weaken; [apply consP_decodePathAttrsLoop; reflexivity|].
    intros l cs (new & Hl & Hch & Hv & Hp & Hm). cbn [rev app] in Hl. subst new. auto.
Qed.

(* ------------------------------------------------------------------ UPDATE, message *)

Definition body_sections (exact : bool) (l : N) (u : update_msg) (c : list N) : Prop :=
  exists wl cw tl chunks cn,
    c = wl ++ cw ++ tl ++ concat chunks ++ cn /\ len wl = 2 /\ len tl = 2 /\
    len cw = u_wlen u /\
    Forall2 (fun a ch => len ch = attr_size a) (u_attrs u) chunks /\
    u_tpal u <= len (concat chunks) /\
    (exact = true -> len (concat chunks) = u_tpal u) /\
    4 + u_wlen u + u_tpal u + len cn = l.

Lemma consP_decodeUpdate : forall fuel o l,
  consP (decodeUpdate fuel o l)
        (fun u cs => body_sections false l u cs /\ prefix_lengths_ok u /\ mandatory_ok u).
Proof.
  intros. unfold decodeUpdate.
  cbind ltac:(apply consP_readU16). intros wlen.
  cbind ltac:(apply consP_decodeNLRIs). intros wd.
  cbind ltac:(apply consP_readU16). intros tpal.
  cbind ltac:(apply consP_guard). intros u0.
  cbind ltac:(apply consP_decodePathAttrs). intros attrs. cbv zeta.
  destruct (0 <? l - 4 - tpal - wlen) eqn:En.
  - cbind ltac:(apply consP_decodeNLRIs). intros nl.
    cbind ltac:(apply consP_guard). intros u1. apply consP_ret.
    intros c7 (H7 & G7) c6 (H6 & F6) c5 ((chunks & H5 & Hch) & V5 & T5 & M5) c4 (H4 & G4)
           c3 (H3 & _) c2 (H2 & F2) c1 (H1 & _).
    subst c7 c4. rewrite !app_nil_r, !app_nil_l. subst c5.
    split; [|split].
    + exists c1, c2, c3, chunks, c6. cbn [u_wlen u_tpal u_attrs].
      repeat split; try assumption; try lia; try discriminate.
    + unfold prefix_lengths_ok. cbn [u_withdrawn u_nlri u_attrs].
      split; [apply Forall_nil_imp; exact F2|]. split; [apply Forall_nil_imp; exact F6|exact V5].
    + unfold mandatory_ok. cbn [u_nlri u_attrs]. split; [intros _; apply andb_true_iff in G7; destruct G7 as (G7a & G7c); apply andb_true_iff in G7a; destruct G7a; auto|exact M5].
  - apply consP_ret.
    intros c5 ((chunks & H5 & Hch) & V5 & T5 & M5) c4 (H4 & G4) c3 (H3 & _) c2 (H2 & F2) c1 (H1 & _).
    subst c4. rewrite !app_nil_r, !app_nil_l. subst c5.
    split; [|split].
    + exists c1, c2, c3, chunks, []. cbn [u_wlen u_tpal u_attrs]. rewrite app_nil_r, len_nil.
      repeat split; try assumption; try lia; try discriminate.
    + unfold prefix_lengths_ok. cbn [u_withdrawn u_nlri u_attrs].
      split; [apply Forall_nil_imp; exact F2|]. split; [constructor|exact V5].
    + unfold mandatory_ok. cbn [u_nlri u_attrs]. split; [intros H; exfalso; apply H; reflexivity|exact M5].
Qed.

Lemma consP_readMarker : forall n, consP (readMarker n) (fun _ cs => len cs = N.of_nat n).
Proof.
  induction n as [|n IH]; cbn [readMarker].
  - apply consP_ret. reflexivity.
  - cbyte. intros x. cbind ltac:(apply consP_guard). intros u.
    eapply consP_weaken; [exact IH|]. intros a cs H c2 (H2 & _) c1 (H1 & _). subst c2.
    rewrite app_nil_l, len_app. cbv beta in *. lia.
Qed.

Lemma consP_decodeHeader : consP decodeHeader (fun t cs => len cs = 19 /\ 19 <= fst t).
Proof.
  unfold decodeHeader.
  cbind ltac:(apply consP_readMarker). intros u.
  cbind ltac:(apply consP_readU16). intros l. cbyte. intros ty.
  cbind ltac:(apply consP_guard). intros u1. cbind ltac:(apply consP_guard). intros u2.
  cbind ltac:(apply consP_guard). intros u3. apply consP_ret.
  intros c6 (H6 & G6) c5 (H5 & G5) c4 (H4 & G4) c3 (H3 & _) c2 (H2 & _) c1 H1.
  subst c4 c5 c6. rewrite !app_nil_r, !len_app. cbn [fst]. cbv beta in *. split; lia.
Qed.

(* value-only invariant: which constructor a body decoder returns *)
Definition valP {A} (m : M A) (Q : A -> Prop) : Prop :=
  forall b al a r al', m b al = (Ok a r, al') -> Q a.
Lemma valP_bind : forall A B (m : M A) (k : A -> M B) Q, (forall a, valP (k a) Q) -> valP (bind m k) Q.
Proof.
  intros A B m k Q H b al x r al' E. unfold bind in E.
  destruct (m b al) as [[a r1| | |] al1]; try discriminate. eapply H; eauto.
Qed.
Lemma valP_ret : forall A (a : A) (Q : A -> Prop), Q a -> valP (ret a) Q.
Proof. intros A a Q H b al x r al' E. unfold ret in E. inversion E; subst. exact H. Qed.

Definition not_update (bd : body) : Prop := match bd with BUpdate _ => False | _ => True end.

Lemma valP_decodeOpen : forall fuel, valP (decodeOpen fuel) not_update.
Proof. intros. unfold decodeOpen. repeat (apply valP_bind; intros ?). apply valP_ret. exact I. Qed.

Lemma valP_decodeNotification : valP decodeNotification not_update.
Proof. unfold decodeNotification. repeat (apply valP_bind; intros ?). apply valP_ret. exact I. Qed.

(* the decoder accepted an UPDATE: the consumed bytes and the decoded structure are well-formed, except that
   the attribute chunks may run past TotalPathAttrLen (exact = false) *)
Lemma decode_update_wellformed : forall fuel o b l ty u rest al,
  decode fuel o b = (Ok (mkMsg l ty (BUpdate u)) rest, al) ->
  exists c, b = c ++ rest /\ wellformed false l u c.
Proof.
  intros fuel o b l ty u rest al E. unfold decode, decodeM in E. unfold bind at 1 in E.
  destruct (decodeHeader b 0) as [[[l0 ty0] r1| | |] al1] eqn:Eh; try discriminate.
  destruct (consP_decodeHeader _ _ _ _ _ Eh) as (c1 & Hb & Hc1 & Hl). cbn [fst] in Hl.
  unfold bind in E.
  destruct (decodeBody fuel o ty0 (l0 - 19) r1 al1) as [[bd r2| | |] al2] eqn:Eb; try discriminate.
  unfold ret in E. inversion E; subst l0 ty0 bd r2 al2. clear E.
  unfold decodeBody in Eb.
  destruct (ty =? 1). { exfalso. apply (valP_decodeOpen _ _ _ _ _ _ Eb). }
  destruct (ty =? 2).
  - unfold bind in Eb.
    destruct (decodeUpdate fuel o (l - 19) r1 al1) as [[u' r3| | |] al3] eqn:Eu; try discriminate.
    unfold ret in Eb. inversion Eb; subst u' r3 al3. clear Eb.
    destruct (consP_decodeUpdate _ _ _ _ _ _ _ _ Eu) as (c2 & Hr & (wl & cw & tl & chunks & cn & Hs) & Hp & Hm).
    exists (c1 ++ c2). split; [subst; rewrite app_assoc; reflexivity|].
    split; [|split; assumption].
    destruct Hs as (Hc2 & H1 & H2 & H3 & H4 & H5 & H6 & H7).
    exists c1, wl, cw, tl, chunks, cn. subst c2. repeat split; try assumption; try lia.
  - destruct (ty =? 4). { unfold ret in Eb. inversion Eb. }
    destruct (ty =? 3). { exfalso. apply (valP_decodeNotification _ _ _ _ _ Eb). }
    discriminate.
Qed.

(* ------------------------------------------------------------------ consequences *)

Lemma chunks_size : forall attrs chunks,
  Forall2 (fun a (ch : list N) => len ch = attr_size a) attrs chunks -> len (concat chunks) = attrs_size attrs.
Proof.
  intros attrs chunks H. induction H as [|a ch attrs chunks Ha _ IH]; [reflexivity|].
  cbn [concat attrs_size fold_right]. rewrite len_app. fold (attrs_size attrs). lia.
Qed.

Lemma sections_exact : forall l u c,
  sections false l u c -> attrs_fill_tpal u -> sections true l u c /\ len c = l.
Proof.
  intros l u c (hdr & wl & cw & tl & chunks & cn & Hc & H1 & H2 & H3 & H4 & H5 & H6 & _ & H8) Hf.
  pose proof (chunks_size _ _ H5) as Hs. unfold attrs_fill_tpal in Hf.
  split.
  - exists hdr, wl, cw, tl, chunks, cn. repeat split; try assumption; lia.
  - subst c. rewrite !len_app. lia.
Qed.

Lemma update_wellformed : forall o b l ty u rest al,
  decode (S (length b)) o b = (Ok (mkMsg l ty (BUpdate u)) rest, al) ->
  exists c, b = c ++ rest /\ wellformed false l u c.
Proof. intros. eapply decode_update_wellformed; eauto. Qed.

Lemma update_lengths_partial : forall o b l ty u rest al,
  decode (S (length b)) o b = (Ok (mkMsg l ty (BUpdate u)) rest, al) ->
  attrs_fill_tpal u ->
  len b = l + len rest /\ exists c, b = c ++ rest /\ wellformed true l u c.
Proof.
  intros o b l ty u rest al E Hf.
  destruct (update_wellformed _ _ _ _ _ _ _ E) as (c & Hb & Hs & Hp & Hm).
  destruct (sections_exact _ _ _ Hs Hf) as (Hs' & Hl).
  split; [subst b; rewrite len_app; lia|]. exists c. split; [exact Hb|]. split; [exact Hs'|]. split; assumption.
Qed.

(* what reaches the Adj-RIB-In *)
Definition entry_ok (afi : N) (u : update_msg) (e : entry) : Prop :=
  p_len (e_pfx e) <= afiAddrLen afi * 8 /\ e_nh e = true /\
  hasAttr 1 (u_attrs u) = true /\ hasAttr 2 (u_attrs u) = true.

Lemma lastReach_in : forall l acc a s nl,
  lastReach l acc = Some (a, s, nl) ->
  acc = Some (a, s, nl) \/ exists x nh, In x l /\ a_type x = 14 /\ a_val x = AVMPReach a s nh nl.
Proof.
  induction l as [|x l IH]; intros acc a s nl H; cbn [lastReach] in H; [left; exact H|].
  apply IH in H. destruct H as [H|(y & nh & Hy & Ht & Hv)].
  - destruct (a_val x) eqn:Ev; auto.
    destruct (a_type x =? 14) eqn:Et; auto.
    inversion H; subst. right. exists x, nh. split; [left; reflexivity|]. split; [lia|exact Ev].
  - right. exists y, nh. split; [right; exact Hy|]. auto.
Qed.

Lemma hasAttr_in : forall t l x, In x l -> a_type x = t -> hasAttr t l = true.
Proof.
  intros t l x Hin Ht. unfold hasAttr. apply existsb_exists. exists x. split; [exact Hin|]. lia.
Qed.

Lemma fold_add_ok : forall (P : entry -> Prop) ap nh nl t,
  Forall P t -> (forall n, In n nl -> P (mkEntry (n_pfx n) (n_id n) nh)) ->
  Forall P (fold_left (fun t n => addPath ap t (n_pfx n) (n_id n) nh) nl t).
Proof.
  intros P ap nh nl. induction nl as [|n nl IH]; intros t Ht Hn; [exact Ht|].
  cbn [fold_left]. apply IH.
  - unfold addPath, removePath. apply Forall_app. split.
    + apply Forall_forall. intros e He. apply filter_In in He. destruct He as (He & _).
      rewrite Forall_forall in Ht. auto.
    + constructor; [apply Hn; left; reflexivity|constructor].
  - intros m Hm. apply Hn. right. exact Hm.
Qed.

Lemma fold_remove_ok : forall (P : entry -> Prop) ap nl t,
  Forall P t -> Forall P (fold_left (fun t n => removePath ap t (n_pfx n) (n_id n)) nl t).
Proof.
  intros P ap nl. induction nl as [|n nl IH]; intros t Ht; [exact Ht|].
  cbn [fold_left]. apply IH. unfold removePath. apply Forall_forall. intros e He.
  apply filter_In in He. destruct He as (He & _). rewrite Forall_forall in Ht. auto.
Qed.

Lemma processUpdate_ok : forall afi ap u,
  prefix_lengths_ok u -> mandatory_ok u -> Forall (entry_ok afi u) (processUpdate afi ap u).
Proof.
  intros afi ap u (Hw & Hn & Hv) (Hm1 & Hm2). unfold processUpdate.
  set (t1 := match lastReach (u_attrs u) None with
             | Some (a, s, nl) => if (a =? afi) && (s =? 1)
                 then fold_left (fun t n => addPath ap t (n_pfx n) (n_id n) true) nl [] else []
             | None => [] end).
  assert (H1 : Forall (entry_ok afi u) t1).
  { subst t1. destruct (lastReach (u_attrs u) None) as [[[a s] nl]|] eqn:El; [|constructor].
    destruct ((a =? afi) && (s =? 1)) eqn:Ea; [|constructor].
    apply lastReach_in in El. destruct El as [El|(x & nh & Hx & Ht & Hxv)]; [discriminate|].
    apply fold_add_ok; [constructor|]. intros n Hin.
    rewrite Forall_forall in Hv. specialize (Hv x Hx). rewrite Hxv in Hv. cbn [val_ok] in Hv.
    rewrite Forall_forall in Hv. specialize (Hv n Hin). unfold nlri_ok in Hv.
    destruct (Hm2 (hasAttr_in 14 _ x Hx Ht)) as (Ho & Has).
    unfold entry_ok. cbn [e_pfx e_nh]. assert (a = afi) by lia. subst a. auto. }
  set (t2 := match lastUnreach (u_attrs u) None with
             | Some (a, s, nl) => if (a =? afi) && (s =? 1)
                 then fold_left (fun t n => removePath ap t (n_pfx n) (n_id n)) nl t1 else t1
             | None => t1 end).
  assert (H2 : Forall (entry_ok afi u) t2).
  { subst t2. destruct (lastUnreach (u_attrs u) None) as [[[a s] nl]|]; [|exact H1].
    destruct ((a =? afi) && (s =? 1)); [|exact H1]. apply fold_remove_ok. exact H1. }
  destruct (afi =? 1) eqn:E4; [|exact H2].
  apply fold_add_ok; [apply fold_remove_ok; exact H2|].
  intros n Hin. assert (Hne : u_nlri u <> []) by (intros E; rewrite E in Hin; destruct Hin).
  destruct (Hm1 Hne) as (Ho & Has & Hnh).
  rewrite Forall_forall in Hn. specialize (Hn n Hin). unfold nlri_ok in Hn.
  unfold entry_ok. cbn [e_pfx e_nh]. assert (afi = 1) by lia. subst afi. auto.
Qed.

(* anything a session installs from the bytes b comes from an UPDATE that the decoder accepted and that is
   well-formed; the installed entry has a prefix length within the family, a next hop, ORIGIN and AS_PATH *)
Lemma installed_wellformed : forall afi o b e,
  In e (installed afi o (decode (S (length b)) o b)) ->
  exists l ty u rest al c,
    decode (S (length b)) o b = (Ok (mkMsg l ty (BUpdate u)) rest, al) /\
    b = c ++ rest /\ wellformed false l u c /\ entry_ok afi u e.
Proof.
  intros afi o b e Hin. unfold installed in Hin.
  destruct (decode (S (length b)) o b) as [[m rest| | |] al] eqn:E; cbn [fst] in Hin; try contradiction.
  destruct m as [l ty bd]. cbn [m_body] in Hin. destruct bd as [op|u| |c s]; try contradiction.
  destruct (update_wellformed _ _ _ _ _ _ _ E) as (c & Hb & Hs & Hp & Hm).
  exists l, ty, u, rest, al, c. split; [reflexivity|]. split; [exact Hb|]. split; [split; [exact Hs|split; assumption]|].
  pose proof (processUpdate_ok afi (if afi =? 1 then addPath4 o else addPath6 o) u Hp Hm) as Hall.
  rewrite Forall_forall in Hall. apply Hall. exact Hin.
Qed.
