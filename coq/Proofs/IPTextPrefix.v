(* C15 text proofs, part 5: Prefix.String then PrefixFromString. *)
From Coq Require Import ZArith Lia Bool List.
From BioVerif Require Import Lib.Word Lib.WordLemmas Model.NetArith Model.IPText Spec.NetSpec
  Proofs.NetProofs Proofs.IPTextBasics Proofs.IPTextParse Proofs.IPTextProofs Proofs.IPTextRoundTrip.
Import ListNotations.
Open Scope Z_scope.

Definition noslash (s : str) : Prop := forallb (fun c => negb (c =? c_slash)) s = true.

Lemma noslash_app a b : noslash a -> noslash b -> noslash (a ++ b).
Proof. unfold noslash. intros Ha Hb. rewrite forallb_app, Ha, Hb. reflexivity. Qed.

Lemma noslash_hex ds : forallb is_hex ds = true -> noslash ds.
Proof.
  unfold noslash. induction ds as [|c ds IH]; intros H; [reflexivity|].
  cbn [forallb] in *. apply andb_true_iff in H. destruct H as [Hc H]. rewrite (IH H), andb_true_r.
  unfold is_hex, hexval, c_slash in *. destruct (Z.eqb_spec c 47) as [->|]; [cbn in Hc; discriminate | reflexivity].
Qed.

Lemma noslash_group g : inr16 g -> noslash (appendHex g).
Proof.
  intros Hg. apply noslash_hex. pose proof (forall_zrange _ _ hexgroup_all g Hg) as H.
  unfold hexgroup_ok in H. apply andb_true_iff in H. tauto.
Qed.

Lemma noslash_tailj vs : Forall inr16 vs -> noslash (tailj (map appendHex vs)).
Proof.
  induction vs as [|g r IH]; intros H; [reflexivity|]. inversion H; subst.
  cbn [map tailj]. change (c_colon :: appendHex g ++ tailj (map appendHex r))
    with ([c_colon] ++ appendHex g ++ tailj (map appendHex r)).
  apply noslash_app; [reflexivity|]. apply noslash_app; [apply noslash_group; assumption | apply IH; assumption].
Qed.

Lemma noslash_joinv vs : Forall inr16 vs -> noslash (joinv vs).
Proof.
  destruct vs as [|g r]; intros H; [reflexivity|]. inversion H; subst. rewrite joinv_cons.
  apply noslash_app; [apply noslash_group; assumption | apply noslash_tailj; assumption].
Qed.

Lemma Forall_firstn_Z (P : Z -> Prop) n l : Forall P l -> Forall P (firstn n l).
Proof.
  intros H. apply Forall_forall. intros x Hx. rewrite Forall_forall in H. apply H.
  rewrite <- (firstn_skipn n l). apply in_or_app. left. exact Hx.
Qed.

Lemma Forall_skipn_Z (P : Z -> Prop) n l : Forall P l -> Forall P (skipn n l).
Proof.
  intros H. apply Forall_forall. intros x Hx. rewrite Forall_forall in H. apply H.
  rewrite <- (firstn_skipn n l). apply in_or_app. right. exact Hx.
Qed.

Lemma string6_noslash p s : Forall isbyte p -> string6_of p = Some s -> noslash s.
Proof.
  intros HB. unfold string6_of. pose proof (hs_of_range p HB) as HR.
  destruct (zero_run_facts (zflags p) eq_refl) as (e0 & e1 & Hz & [[-> ->] | (a & b & -> & -> & Hab & Hfl)]);
    rewrite Hz.
  - pose proof (print_after p (-1) (-1) 9 0 ltac:(lia) ltac:(lia) ltac:(lia)) as Hpr.
    change (2 * Z.of_nat 0) with 0 in Hpr. rewrite Hpr. clear Hpr.
    change (skipn 0 (groups_text p)) with (groups_text p).
    rewrite emits_0, groups_text_hs, joins_map_joinv. intros E. injection E as <-.
    apply noslash_joinv. exact HR.
  - pose proof (print_before p a b Hab 9 0 ltac:(lia) ltac:(lia)) as Hpr.
    change (2 * Z.of_nat 0) with 0 in Hpr. rewrite Hpr. clear Hpr.
    rewrite Nat.sub_0_r. change (skipn 0 (groups_text p)) with (groups_text p). rewrite emits_0.
    assert (Etail : (if (b =? 8)%nat then []
                     else hexgroup p (2 * Z.of_nat b) ++ emits (S b) (skipn (S b) (groups_text p)))
                    = joins (skipn b (groups_text p))).
    { destruct (Nat.eqb_spec b 8) as [-> | NE]; [reflexivity|].
      rewrite (skipn_groups p b) by lia. cbn [joins]. rewrite emits_S. reflexivity. }
    rewrite Etail. rewrite groups_text_hs, firstn_map, skipn_map, !joins_map_joinv.
    intros E. injection E as <-.
    apply noslash_app; [apply noslash_joinv, Forall_firstn_Z, HR|].
    apply (noslash_app [c_colon; c_colon] (joinv (skipn b (hs_of p))));
      [reflexivity | apply noslash_joinv, Forall_skipn_Z, HR].
Qed.

Lemma noslash_dec o : 0 <= o < 256 -> noslash (fmt_dec o).
Proof.
  intros Ho. pose proof (forall_zrange _ _ declen_all o Ho) as H. unfold declen_ok in H.
  apply andb_true_iff in H. destruct H as [H _]. apply andb_true_iff in H. destruct H as [_ H]. exact H.
Qed.

Lemma ip_string_noslash a s : wf_ip a -> ip_string a = Some s -> noslash s.
Proof.
  intros W. unfold ip_string. destruct (legacy a) eqn:F; cbn [negb].
  - intros E. injection E as <-. destruct (wf4 _ W F) as [_ R].
    unfold stringIPv4, Bytes. rewrite F. cbn [negb]. rewrite bytesIPv4_spec by exact R.
    repeat (apply noslash_app; [first [reflexivity | apply noslash_dec, Z.mod_pos_bound; lia]|]).
    apply noslash_dec, Z.mod_pos_bound. lia.
  - destruct (wf6 _ W F) as [Hh Hl]. unfold stringIPv6, Bytes. rewrite F. cbn [negb].
    apply string6_noslash. apply bytesIPv6_bytes; assumption.
Qed.

Lemma split_slash_noslash s cur : noslash s -> split_slash s cur = [cur ++ s].
Proof.
  unfold noslash. revert cur. induction s as [|c s IH]; intros cur H.
  - cbn. rewrite app_nil_r. reflexivity.
  - cbn [forallb] in H. apply andb_true_iff in H. destruct H as [Hc H].
    cbn [split_slash]. apply negb_true_iff in Hc. rewrite Hc. rewrite IH by exact H.
    rewrite <- app_assoc. reflexivity.
Qed.

Lemma split_slash_one s t cur : noslash s -> noslash t ->
  split_slash (s ++ c_slash :: t) cur = [cur ++ s; t].
Proof.
  unfold noslash at 1. revert cur. induction s as [|c s IH]; intros cur H Ht.
  - cbn [app split_slash]. change (c_slash =? c_slash) with true. cbv iota.
    rewrite split_slash_noslash by exact Ht. rewrite app_nil_r. reflexivity.
  - cbn [forallb] in H. apply andb_true_iff in H. destruct H as [Hc H].
    cbn [app split_slash]. apply negb_true_iff in Hc. rewrite Hc. rewrite IH by assumption.
    rewrite <- app_assoc. reflexivity.
Qed.

Lemma Atoi_dec o : 0 <= o < 256 -> Atoi (fmt_dec o) = Some o.
Proof.
  intros Ho. pose proof (forall_zrange _ _ declen_all o Ho) as H. unfold declen_ok in H.
  apply andb_true_iff in H. destruct H as [H H3]. apply andb_true_iff in H. destruct H as [H1 _].
  unfold Atoi. destruct (fmt_dec o) as [|c r] eqn:E; [discriminate|].
  apply andb_true_iff in H3. destruct H3 as [Hp Hm]. apply negb_true_iff in Hp, Hm. rewrite Hp, Hm.
  destruct (dec_value (c :: r) 0) as [v|]; [|discriminate]. apply Z.eqb_eq in H1. subst v.
  destruct (Z.ltb_spec (2 ^ 63 - 1) o) as [L | L]; [|reflexivity].
  exfalso. change (2 ^ 63 - 1) with 9223372036854775807 in L. lia.
Qed.

(* printing a prefix and parsing the text gives the prefix whose address is what parsing the
   printed address gives, with the same length *)
Theorem parse_format_pfx p s a' :
  wf_ip (addr p) -> 0 <= plen p < 256 ->
  ip_string (addr p) = Some s -> IPFromString s = Some a' ->
  pfx_string p = Some (s ++ [c_slash] ++ fmt_dec (plen p)) /\
  PrefixFromString (s ++ [c_slash] ++ fmt_dec (plen p)) = Some (mkpfx a' (plen p)).
Proof.
  intros W L Hs Hp. unfold pfx_string. rewrite Hs. split; [reflexivity|].
  unfold PrefixFromString. cbn [app].
  rewrite split_slash_one by (first [apply (ip_string_noslash (addr p)); assumption | apply noslash_dec; exact L]).
  rewrite app_nil_l. rewrite Hp. rewrite Atoi_dec by exact L.
  unfold wconv. rewrite wrap_small by (rewrite p8; exact L). reflexivity.
Qed.
