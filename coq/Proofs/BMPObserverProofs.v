(* C28: observers registered on the VRFs' Loc-RIBs are told exactly what the tables hold, and get
   Dispose when the connection is lost - for every history of arriving bytes, registrations (with
   distinct ids) and connection losses. *)
From Coq Require Import List NArith ZArith Bool Lia ZifyBool ZifyNat ZifyN.
Import ListNotations.
From BioVerif Require Import Model.BMPCodec Model.BMPRouter Proofs.BMPCodecProofs Proofs.BMPServeProofs
  Proofs.BMPTableLemmas.
Open Scope N_scope.

(* ------------------------------------------------------------------ views *)

Lemma view_app : forall id new log,
  view id (new ++ log) = fold_left (view_step id) (rev new) (view id log).
Proof. intros. unfold view. rewrite rev_app_distr, fold_left_app. reflexivity. Qed.

Lemma fold_view_notin : forall id ev l acc, ~ In id l ->
  fold_left (view_step id) (map (fun o => (o, ev)) l) acc = acc.
Proof.
  intros id ev. induction l as [|o l IH]; intros acc H; cbn [map fold_left]; [reflexivity|].
  unfold view_step at 2. cbn [fst snd].
  destruct (o =? id) eqn:E; [exfalso; apply H; left; lia|].
  apply IH. intros Hin. apply H. right. exact Hin.
Qed.

Lemma fold_view_in : forall id ev l acc, NoDup l -> In id l ->
  fold_left (view_step id) (map (fun o => (o, ev)) l) acc = view_step id acc (id, ev).
Proof.
  intros id ev. induction l as [|o l IH]; intros acc Hd Hin; [contradiction|].
  inversion Hd as [|? ? Ho Hd']; subst. cbn [map fold_left].
  destruct (N.eq_dec o id) as [->|Hne].
  - rewrite fold_view_notin by exact Ho. reflexivity.
  - destruct Hin as [->|Hin]; [contradiction|].
    assert (view_step id acc (o, ev) = acc).
    { unfold view_step. cbn [fst]. destruct (o =? id) eqn:E; [lia|reflexivity]. }
    rewrite H. apply IH; assumption.
Qed.

Lemma view_tell_notin : forall id os ev log, ~ In id os -> view id (tell os ev log) = view id log.
Proof.
  intros id os ev log H. unfold tell. rewrite view_app, <- map_rev.
  apply fold_view_notin. intros Hin. apply H. apply in_rev. exact Hin.
Qed.

Lemma view_tell_in : forall id os ev log, NoDup os -> In id os ->
  view id (tell os ev log) = view_step id (view id log) (id, ev).
Proof.
  intros id os ev log Hd Hin. unfold tell. rewrite view_app, <- map_rev.
  apply fold_view_in; [apply NoDup_rev; exact Hd|apply -> in_rev; exact Hin].
Qed.

Lemma view_step_self : forall id acc ev,
  view_step id acc (id, ev) =
  match ev with OAdd e => e :: acc | ORemove e => remove1 e acc | _ => acc end.
Proof. intros. unfold view_step. cbn [fst snd]. rewrite N.eqb_refl. reflexivity. Qed.

(* ------------------------------------------------------------------ the observer invariant *)

(* ids: every observer id that occurs in the log or is registered somewhere *)
Record oinv (vs : list vrf) (log : list (N * oevent)) (used : list N) : Prop := mk_oinv {
  o_rds : NoDup (map v_rd vs);
  o_nodup : forall v w, In v vs -> NoDup (obs w v);
  o_owner : forall v1 w1 v2 w2 o, In v1 vs -> In v2 vs -> In o (obs w1 v1) -> In o (obs w2 v2) ->
            v1 = v2 /\ w1 = w2;
  o_view : forall v w o x, In v vs -> In o (obs w v) -> cnt x (view o log) = cnt x (tab w v);
  o_used : forall o, (In o (map fst log) \/ exists v w, In v vs /\ In o (obs w v)) -> In o used
}.

Definition oi (st : rstate) (used : list N) : Prop := oinv (r_vrfs st) (r_log st) used.

Lemma oi_ext : forall st st' used, r_vrfs st' = r_vrfs st -> r_log st' = r_log st -> oi st used -> oi st' used.
Proof. intros st st' used H1 H2 H. unfold oi in *. rewrite H1, H2. exact H. Qed.

Lemma find_vrf_in : forall rd vs v, find_vrf rd vs = Some v -> In v vs.
Proof.
  intros rd. induction vs as [|x vs IH]; cbn [find_vrf]; intros v H; [discriminate|].
  destruct (v_rd x =? rd); [inversion H; left; reflexivity|right; apply IH; exact H].
Qed.

(* replacing the VRF found under rd by one with the same rd *)
Lemma put_vrf_in : forall vnew vs v rd v',
  NoDup (map v_rd vs) -> find_vrf rd vs = Some v -> v_rd vnew = rd ->
  In v' (put_vrf vnew vs) -> v' = vnew \/ (In v' vs /\ v' <> v /\ v_rd v' <> rd).
Proof.
  intros vnew vs v rd v'. induction vs as [|x vs IH]; cbn [find_vrf put_vrf map]; intros Hd F Hr Hin; [contradiction|].
  inversion Hd as [|? ? Hx Hd']; subst.
  destruct (v_rd x =? v_rd vnew) eqn:E.
  - inversion F; subst x. destruct Hin as [<-|Hin]; [left; reflexivity|].
    right. split; [right; exact Hin|]. assert (v_rd v' <> v_rd vnew).
    { intros Heq. apply Hx. replace (v_rd v) with (v_rd v') by lia. apply in_map. exact Hin. }
    split; [intros ->; lia|assumption].
  - destruct Hin as [<-|Hin].
    + right. split; [left; reflexivity|]. split; [|lia].
      intros ->. apply find_vrf_rd in F. lia.
    + destruct (IH Hd' F eq_refl Hin) as [->|(A & B & C)]; [left; reflexivity|].
      right. split; [right; exact A|]. split; assumption.
Qed.

Lemma put_vrf_rds : forall vnew vs, map v_rd (put_vrf vnew vs) = map v_rd vs.
Proof.
  intros vnew. induction vs as [|x vs IH]; cbn [put_vrf map]; [reflexivity|].
  destruct (v_rd x =? v_rd vnew) eqn:E; cbn [map]; [f_equal; lia|rewrite IH; reflexivity].
Qed.

(* a table change on the VRF found under rd, announced to that table's observers *)
Lemma oinv_table_op : forall vs log used rd v w t' ev,
  oinv vs log used -> find_vrf rd vs = Some v ->
  (forall x, cnt x (view_step 0 (tab w v) (0, ev)) = cnt x t') ->
  oinv (put_vrf (set_tab w t' v) vs) (tell (obs w v) ev log) used.
Proof.
  intros vs log used rd v w t' ev [R ND OW OV OU] F Ht.
  pose proof (find_vrf_in _ _ _ F) as Hv. pose proof (find_vrf_rd _ _ _ F) as Hrd.
  assert (Hnew : v_rd (set_tab w t' v) = rd) by (rewrite set_tab_rd; exact Hrd).
  assert (Hin : forall v', In v' (put_vrf (set_tab w t' v) vs) ->
            (v' = set_tab w t' v) \/ (In v' vs /\ v' <> v /\ v_rd v' <> rd))
    by (intros v'; apply put_vrf_in; assumption).
  (* the old VRF a new-side VRF stands for *)
  set (old := fun v' : vrf => if v_rd v' =? rd then v else v').
  assert (Hold : forall v', In v' (put_vrf (set_tab w t' v) vs) ->
            In (old v') vs /\ (forall w', obs w' v' = obs w' (old v'))).
  { intros v' H'. unfold old. destruct (Hin v' H') as [->|(A & B & C)].
    - rewrite Hnew, N.eqb_refl. split; [exact Hv|]. intros w'. apply obs_set_tab.
    - destruct (v_rd v' =? rd) eqn:E; [lia|]. split; [exact A|reflexivity]. }
  assert (Hold_inj : forall v1 v2, In v1 (put_vrf (set_tab w t' v) vs) -> In v2 (put_vrf (set_tab w t' v) vs) ->
            old v1 = old v2 -> v1 = v2).
  { intros v1 v2 H1 H2 He. unfold old in He.
    destruct (Hin v1 H1) as [->|(A1 & B1 & C1)]; destruct (Hin v2 H2) as [->|(A2 & B2 & C2)]; auto.
    - rewrite Hnew, N.eqb_refl in He. destruct (v_rd v2 =? rd) eqn:E; [lia|]. congruence.
    - rewrite Hnew, N.eqb_refl in He. destruct (v_rd v1 =? rd) eqn:E; [lia|]. congruence.
    - destruct (v_rd v1 =? rd) eqn:E1; [lia|]. destruct (v_rd v2 =? rd) eqn:E2; [lia|]. exact He. }
  constructor.
  - rewrite put_vrf_rds. exact R.
  - intros v' w' H'. destruct (Hold v' H') as (A & B). rewrite B. apply ND. exact A.
  - intros v1 w1 v2 w2 o H1 H2 O1 O2. destruct (Hold v1 H1) as (A1 & B1). destruct (Hold v2 H2) as (A2 & B2).
    rewrite B1 in O1. rewrite B2 in O2. destruct (OW _ _ _ _ _ A1 A2 O1 O2) as (E1 & E2).
    split; [apply Hold_inj; assumption|exact E2].
  - intros v' w' o x H' Ho. destruct (Hold v' H') as (A & B). rewrite B in Ho.
    destruct (Hin v' H') as [->|(A' & B' & C')].
    + assert (Eo : old (set_tab w t' v) = v) by (unfold old; rewrite Hnew, N.eqb_refl; reflexivity).
      rewrite Eo in Ho. rewrite tab_set_tab. destruct (Bool.eqb w w') eqn:Ew.
      * apply Bool.eqb_prop in Ew. subst w'. rewrite view_tell_in; [|apply ND; exact Hv|exact Ho].
        rewrite <- Ht. rewrite !view_step_self.
        destruct ev as [e|e| |]; cbn [cnt].
        -- rewrite (OV v w o x Hv Ho). reflexivity.
        -- rewrite !cnt_remove1. rewrite (OV v w o x Hv Ho). reflexivity.
        -- apply (OV v w o x Hv Ho).
        -- apply (OV v w o x Hv Ho).
      * rewrite view_tell_notin; [apply (OV v w' o x Hv Ho)|].
        intros Hin'. destruct (OW v w v w' o Hv Hv Hin' Ho) as (_ & E). subst w'.
        rewrite Bool.eqb_reflx in Ew. discriminate.
    + assert (Eo : old v' = v') by (unfold old; destruct (v_rd v' =? rd) eqn:E; [lia|reflexivity]).
      rewrite Eo in Ho. rewrite view_tell_notin; [apply (OV v' w' o x A' Ho)|].
      intros Hin'. destruct (OW v w v' w' o Hv A' Hin' Ho) as (E & _). congruence.
  - intros o [Hlog|(v' & w' & H' & Ho)].
    + unfold tell in Hlog. rewrite map_app, map_map in Hlog. cbn [fst] in Hlog. rewrite map_id in Hlog.
      apply in_app_or in Hlog. destruct Hlog as [Hl|Hl].
      * apply OU. right. exists v, w. split; assumption.
      * apply OU. left. exact Hl.
    + destruct (Hold v' H') as (A & B). rewrite B in Ho. apply OU. right. exists (old v'), w'. split; assumption.
Qed.

Lemma loc_add_oi : forall rd w e st used, oi st used -> oi (loc_add rd w e st) used.
Proof.
  intros rd w e st used H. unfold oi, loc_add in *. destruct (find_vrf rd (r_vrfs st)) as [v|] eqn:F; [|exact H].
  cbn [r_vrfs r_log set_log set_vrfs]. apply (oinv_table_op _ _ _ rd); auto;
    try (intros x; rewrite view_step_self; reflexivity).
Qed.

Lemma loc_remove_oi : forall rd w e st used, oi st used -> oi (loc_remove rd w e st) used.
Proof.
  intros rd w e st used H. unfold oi, loc_remove in *. destruct (find_vrf rd (r_vrfs st)) as [v|] eqn:F; [|exact H].
  destruct (mem_entry e (tab w v)); [|exact H].
  cbn [r_vrfs r_log set_log set_vrfs]. apply (oinv_table_op _ _ _ rd); auto;
    try (intros x; rewrite view_step_self; reflexivity).
Qed.

Lemma loc_remove_all_oi : forall rd w s xs st used, oi st used -> oi (loc_remove_all rd w s xs st) used.
Proof.
  intros rd w s xs. unfold loc_remove_all. induction xs as [|x xs IH]; intros st used H; cbn [fold_left]; [exact H|].
  apply IH. apply loc_remove_oi. exact H.
Qed.

Lemma dispose_nbr_oi : forall n st used, oi st used -> oi (dispose_nbr n st) used.
Proof. intros. unfold dispose_nbr. apply loc_remove_all_oi, loc_remove_all_oi. assumption. Qed.

Lemma dispose_all_oi : forall st used, oi st used -> oi (dispose_all st) used.
Proof.
  intros st used H. unfold dispose_all. apply (oi_ext (fold_left (fun acc n => dispose_nbr n acc) (r_nbrs st) st)); try reflexivity.
  generalize (r_nbrs st) as l. intros l. revert st H. induction l as [|n l IH]; intros st H; cbn [fold_left]; [exact H|].
  apply IH. apply dispose_nbr_oi. exact H.
Qed.

Lemma NoDup_snoc' : forall (A : Type) (l : list A) (a : A), NoDup l -> ~ In a l -> NoDup (l ++ [a]).
Proof.
  intros A l a Hd Hn. induction l as [|x l IH]; cbn [app].
  - constructor; [intros []|constructor].
  - inversion Hd as [|? ? Hx Hd']; subst. constructor.
    + intros Hin. apply in_app_or in Hin. destruct Hin as [Hin|[<-|[]]]; [contradiction|].
      apply Hn. left. reflexivity.
    + apply IH; [assumption|]. intros Hin. apply Hn. right. assumption.
Qed.

Lemma create_vrf_oi : forall rd st used, oi st used -> oi (create_vrf rd st) used.
Proof.
  intros rd st used [R ND OW OV OU]. unfold oi, create_vrf. destruct (find_vrf rd (r_vrfs st)) as [v|] eqn:F; [constructor; assumption|].
  cbn [r_vrfs r_log set_vrfs].
  assert (Hnew : forall v', In v' (r_vrfs st ++ [mk_vrf rd [] [] [] []]) ->
            In v' (r_vrfs st) \/ (v' = mk_vrf rd [] [] [] [])).
  { intros v' H. apply in_app_or in H. destruct H as [H|[<-|[]]]; auto. }
  constructor.
  - rewrite map_app. cbn [map v_rd]. apply NoDup_snoc'; [exact R|].
    intros Hin. apply in_map_iff in Hin. destruct Hin as (v' & A & B).
    clear - F A B. induction (r_vrfs st) as [|x l IH]; [contradiction|].
    cbn [find_vrf] in F. destruct (v_rd x =? rd) eqn:E; [discriminate|].
    destruct B as [->|B]; [lia|auto].
  - intros v' w H. destruct (Hnew v' H) as [A| ->]; [apply ND; exact A|destruct w; constructor].
  - intros v1 w1 v2 w2 o H1 H2 O1 O2.
    destruct (Hnew v1 H1) as [A1| ->]; [|destruct w1; contradiction].
    destruct (Hnew v2 H2) as [A2| ->]; [|destruct w2; contradiction].
    apply (OW _ _ _ _ _ A1 A2 O1 O2).
  - intros v' w o x H Ho. destruct (Hnew v' H) as [A| ->]; [apply OV; assumption|destruct w; contradiction].
  - intros o [Hl|(v' & w & H & Ho)]; [apply OU; left; exact Hl|].
    destruct (Hnew v' H) as [A| ->]; [apply OU; right; exists v', w; split; assumption|destruct w; contradiction].
Qed.

Lemma dispose_vrfs_oi : forall st used, oi st used -> oi (dispose_vrfs st) used.
Proof.
  intros st used [R ND OW OV OU]. unfold oi, dispose_vrfs. cbn [r_vrfs r_log set_log set_vrfs].
  constructor; try (intros; contradiction).
  - constructor.
  - intros o [Hl|(v & w & [] & _)].
    assert (G : forall vs log, (forall v, In v vs -> In v (r_vrfs st)) ->
              (forall o, In o (map fst log) -> In o used) ->
              forall o, In o (map fst (fold_left (fun log v => tell (obs true v) ODispose (tell (obs false v) ODispose log)) vs log)) -> In o used).
    { induction vs as [|v vs IH]; intros log Hs Hlg o' Ho; cbn [fold_left] in Ho; [apply Hlg; exact Ho|].
      eapply IH; [intros; apply Hs; right; assumption| |exact Ho].
      intros o2 H2. unfold tell in H2. rewrite !map_app, !map_map in H2. cbn [fst] in H2. rewrite !map_id in H2.
      apply in_app_or in H2. destruct H2 as [H2|H2].
      - apply OU. right. exists v, true. split; [apply Hs; left; reflexivity|exact H2].
      - apply in_app_or in H2. destruct H2 as [H2|H2].
        + apply OU. right. exists v, false. split; [apply Hs; left; reflexivity|exact H2].
        + apply Hlg. exact H2. }
    apply (G (r_vrfs st) (r_log st)); auto; try (intros o' H'; apply OU; left; exact H').
Qed.

Lemma cleanup_oi : forall st used, oi st used -> oi (cleanup st) used.
Proof. intros. unfold cleanup. apply dispose_all_oi, dispose_vrfs_oi. assumption. Qed.

(* ------------------------------------------------------------------ a new observer *)

Lemma fold_view_other : forall o l acc, (forall x, In x l -> fst x <> o) ->
  fold_left (view_step o) l acc = acc.
Proof.
  intros o. induction l as [|x l IH]; intros acc H; cbn [fold_left]; [reflexivity|].
  assert (view_step o acc x = acc).
  { unfold view_step. destruct (fst x =? o) eqn:E; [exfalso; apply (H x); [left; reflexivity|lia]|reflexivity]. }
  rewrite H0. apply IH. intros y Hy. apply H. right. exact Hy.
Qed.

Lemma view_notin_log : forall o log, ~ In o (map fst log) -> view o log = [].
Proof.
  intros o log H. unfold view. apply fold_view_other. intros x Hx Hf. apply H.
  apply in_rev in Hx. rewrite <- Hf. apply in_map. exact Hx.
Qed.

Lemma fold_view_dump : forall id t acc x,
  cnt x (fold_left (view_step id) (map (fun e => (id, OAdd e)) t) acc) = (cnt x t + cnt x acc)%nat.
Proof.
  intros id. induction t as [|e t IH]; intros acc x; cbn [map fold_left cnt]; [reflexivity|].
  rewrite IH, view_step_self. cbn [cnt]. lia.
Qed.

Lemma set_obs_fields : forall w o v,
  v_rd (set_obs w o v) = v_rd v /\ (forall w', tab w' (set_obs w o v) = tab w' v) /\
  (forall w', obs w' (set_obs w o v) = if Bool.eqb w w' then o else obs w' v).
Proof. intros [] o v; repeat split; intros []; reflexivity. Qed.

Lemma observe_oi : forall id rd w st used, oi st used -> ~ In id used ->
  oi (observe id rd w st) (id :: used).
Proof.
  intros id rd w st used [R ND OW OV OU] Hfresh. unfold oi, observe.
  destruct (find_vrf rd (r_vrfs st)) as [v|] eqn:F.
  2:{ constructor; auto. intros o H. right. apply OU. exact H. }
  cbn [r_vrfs r_log set_log set_vrfs].
  pose proof (find_vrf_in _ _ _ F) as Hv. pose proof (find_vrf_rd _ _ _ F) as Hrd.
  set (vnew := set_obs w (id :: obs w v) v).
  destruct (set_obs_fields w (id :: obs w v) v) as (S1 & S2 & S3). fold vnew in S1, S2, S3.
  assert (Hnew : v_rd vnew = rd) by (rewrite S1; exact Hrd).
  assert (Hin : forall v', In v' (put_vrf vnew (r_vrfs st)) ->
            (v' = vnew) \/ (In v' (r_vrfs st) /\ v' <> v /\ v_rd v' <> rd))
    by (intros v'; apply put_vrf_in; assumption).
  assert (Hidfree : forall v' w', In v' (r_vrfs st) -> ~ In id (obs w' v')).
  { intros v' w' H' Hi. apply Hfresh. apply OU. right. exists v', w'. split; assumption. }
  assert (Hidlog : ~ In id (map fst (r_log st))) by (intros Hi; apply Hfresh; apply OU; left; exact Hi).
  (* where an observer of the new state was registered before (if it is not the new one) *)
  assert (Hobs : forall v' w' o, In v' (put_vrf vnew (r_vrfs st)) -> In o (obs w' v') ->
            (o = id /\ v' = vnew /\ w' = w) \/
            (o <> id /\ exists v0, In v0 (r_vrfs st) /\ In o (obs w' v0) /\ (v' = vnew -> v0 = v) /\ (v' <> vnew -> v0 = v'))).
  { intros v' w' o H' Ho. destruct (Hin v' H') as [->|(A & B & C)].
    - rewrite S3 in Ho. destruct (Bool.eqb w w') eqn:Ew.
      + apply Bool.eqb_prop in Ew. subst w'. destruct Ho as [<-|Ho]; [left; auto|].
        right. split; [intros ->; apply (Hidfree v w Hv Ho)|]. exists v. repeat split; auto. intros Hc. contradiction.
      + right. split; [intros ->; apply (Hidfree v w' Hv Ho)|]. exists v. repeat split; auto. intros Hc. contradiction.
    - right. split; [intros ->; apply (Hidfree v' w' A Ho)|]. exists v'. repeat split; auto.
      intros ->. rewrite Hnew in C. contradiction. }
  constructor.
  - rewrite put_vrf_rds. exact R.
  - intros v' w' H'. destruct (Hin v' H') as [->|(A & _)]; [|apply ND; exact A].
    rewrite S3. destruct (Bool.eqb w w') eqn:Ew; [|apply ND; exact Hv].
    apply Bool.eqb_prop in Ew. subst w'. constructor; [apply Hidfree; exact Hv|apply ND; exact Hv].
  - intros v1 w1 v2 w2 o H1 H2 O1 O2.
    destruct (Hobs v1 w1 o H1 O1) as [(E1 & E2 & E3)|(N1 & v01 & A1 & B1 & C1 & D1)];
      destruct (Hobs v2 w2 o H2 O2) as [(F1 & F2 & F3)|(N2 & v02 & A2 & B2 & C2 & D2)]; try congruence.
    + subst. auto.
    + destruct (OW _ _ _ _ _ A1 A2 B1 B2) as (E & E'). split; [|exact E'].
      destruct (Hin v1 H1) as [->|(X1 & Y1 & Z1)]; destruct (Hin v2 H2) as [->|(X2 & Y2 & Z2)]; auto.
      * assert (v2 <> vnew) by (intros ->; rewrite Hnew in Z2; contradiction).
        rewrite (C1 eq_refl), (D2 H) in E. congruence.
      * assert (v1 <> vnew) by (intros ->; rewrite Hnew in Z1; contradiction).
        rewrite (C2 eq_refl), (D1 H) in E. congruence.
      * assert (v1 <> vnew) by (intros ->; rewrite Hnew in Z1; contradiction).
        assert (v2 <> vnew) by (intros ->; rewrite Hnew in Z2; contradiction).
        rewrite (D1 H), (D2 H0) in E. exact E.
  - intros v' w' o x H' Ho.
    set (dump := map (fun e => (id, OAdd e)) (tab w v)).
    assert (Hlog : forall o', view o' ((id, OEndOfRIB) :: rev dump ++ r_log st) =
                   fold_left (view_step o') (dump ++ [(id, OEndOfRIB)]) (view o' (r_log st))).
    { intros o'. change ((id, OEndOfRIB) :: rev dump ++ r_log st) with (((id, OEndOfRIB) :: rev dump) ++ r_log st).
      rewrite view_app. cbn [rev]. rewrite rev_involutive. reflexivity. }
    rewrite Hlog.
    destruct (Hobs v' w' o H' Ho) as [(-> & -> & ->)|(N1 & v0 & A & B & C & D)].
    + rewrite fold_left_app. cbn [fold_left]. rewrite view_step_self.
      unfold dump. rewrite fold_view_dump. rewrite view_notin_log by exact Hidlog. rewrite S2. cbn [cnt]. lia.
    + rewrite fold_view_other.
      * destruct (Hin v' H') as [->|(X & Y & Z)].
        -- rewrite S2. rewrite (C eq_refl) in B. apply OV; assumption.
        -- assert (v' <> vnew) by (intros ->; rewrite Hnew in Z; contradiction).
           rewrite (D H) in B. apply OV; assumption.
      * intros y Hy. apply in_app_or in Hy. destruct Hy as [Hy|[<-|[]]]; [|cbn [fst]; congruence].
        unfold dump in Hy. apply in_map_iff in Hy. destruct Hy as (e & <- & _). cbn [fst]. congruence.
  - intros o [Hl|(v' & w' & H' & Ho)].
    + cbn [map fst] in Hl. destruct Hl as [<-|Hl]; [left; reflexivity|].
      rewrite map_app in Hl. apply in_app_or in Hl. destruct Hl as [Hl|Hl].
      * rewrite map_rev in Hl. apply in_rev in Hl. rewrite map_map in Hl. cbn [fst] in Hl.
        apply in_map_iff in Hl. destruct Hl as (e & <- & _). left. reflexivity.
      * right. apply OU. left. exact Hl.
    + destruct (Hobs v' w' o H' Ho) as [(-> & _)|(_ & v0 & A & B & _)]; [left; reflexivity|].
      right. apply OU. right. exists v0, w'. split; assumption.
Qed.

(* ------------------------------------------------------------------ every handler keeps the invariant *)

Lemma rib_op_oi : forall n isann v6 p id st used, oi st used -> oi (rib_op n isann v6 p id st) used.
Proof.
  intros n isann v6 p id st used H. unfold rib_op.
  set (st1 := loc_remove_all (n_vrf n) v6 (n_src n) (filter (hits (ap_of v6 n) p id) (rib_of v6 n)) st).
  assert (H1 : oi st1 used) by (apply loc_remove_all_oi; exact H).
  destruct isann.
  - eapply oi_ext; [| |apply loc_add_oi; exact H1]; reflexivity.
  - eapply oi_ext; [| |exact H1]; reflexivity.
Qed.

Lemma apply_event_oi : forall k ev st used, oi st used -> oi (apply_event k ev st) used.
Proof.
  intros k ev st used H. unfold apply_event. destruct (find_nbr k (r_nbrs st)); [|exact H].
  destruct ev; apply rib_op_oi; exact H.
Qed.

Lemma apply_events_oi : forall k evs st used, oi st used ->
  oi (fold_left (fun acc ev => apply_event k ev acc) evs st) used.
Proof.
  intros k. induction evs as [|ev evs IH]; intros st used H; cbn [fold_left]; [exact H|].
  apply IH. apply apply_event_oi. exact H.
Qed.

Lemma set_name_fold : forall ts st,
  r_vrfs (fold_left (fun acc t => if t_type t =? 2 then set_name (t_info t) acc else acc) ts st) = r_vrfs st /\
  r_log (fold_left (fun acc t => if t_type t =? 2 then set_name (t_info t) acc else acc) ts st) = r_log st.
Proof.
  induction ts as [|t ts IH]; intros st; cbn [fold_left]; [auto|].
  destruct (IH (if t_type t =? 2 then set_name (t_info t) st else st)) as (A & B).
  destruct (t_type t =? 2); auto.
Qed.

Section Lift.
Variable open_decode : bytes -> option open_info.
Variable upd_apply : bool -> bool -> bool -> bytes -> list uevent.
Variable c : cfg.

Lemma process_msg_oi : forall st m used, oi st used ->
  oi (snd (process_msg open_decode upd_apply c st m)) used.
Proof.
  intros st m used H. destruct m as [h upd|h cnt0 stats|h rs data|h lo lp rp sent rcvd info|ts|ts|h ts];
    cbn [process_msg snd].
  - unfold route_monitoring.
    assert (H0 : oi (bump 0 st) used) by (eapply oi_ext; [| |exact H]; reflexivity).
    destruct ((ignore_pre c && negb (flag_l h)) || (ignore_post c && flag_l h)); [exact H0|].
    destruct (mem_src (src_of h) (r_ignored (bump 0 st))); [exact H0|].
    destruct (find_nbr (p_rd h, p_addr h) (r_nbrs (bump 0 st))); [|exact H0].
    apply apply_events_oi. exact H0.
  - exact H.
  - unfold peer_down.
    assert (H0 : oi (bump 2 st) used) by (eapply oi_ext; [| |exact H]; reflexivity).
    destruct (mem_src (src_of h) (r_ignored (bump 2 st))); [eapply oi_ext; [| |exact H0]; reflexivity|].
    unfold neighbor_down. destruct (find_nbr (p_rd h, p_addr h) (r_nbrs (bump 2 st))); [|exact H0].
    eapply oi_ext; [| |apply dispose_nbr_oi; exact H0]; reflexivity.
  - unfold peer_up.
    assert (H0 : oi (bump 3 st) used) by (eapply oi_ext; [| |exact H]; reflexivity).
    destruct (ignored_asn c (p_as h)).
    { destruct (mem_src (src_of h) (r_ignored (bump 3 st))); [exact H0|]. eapply oi_ext; [| |exact H0]; reflexivity. }
    destruct (open_decode sent); [|exact H0]. destruct (open_decode rcvd); [|exact H0].
    destruct (negb (asn_of_open o0 =? p_as h)); [exact H0|].
    pose proof (create_vrf_oi (p_rd h) (bump 3 st) used H0) as H1.
    destruct (find_nbr (p_rd h, p_addr h) (r_nbrs (create_vrf (p_rd h) (bump 3 st)))); [exact H1|].
    eapply oi_ext; [| |exact H1]; reflexivity.
  - unfold initiation. destruct (set_name_fold ts (bump 4 st)) as (A & B).
    eapply oi_ext; [exact A|exact B|]. eapply oi_ext; [| |exact H]; reflexivity.
  - unfold termination. destruct (term_tlvs_panic ts); cbn [snd].
    + eapply oi_ext; [| |exact H]; reflexivity.
    + apply dispose_all_oi. eapply oi_ext; [| |exact H]; reflexivity.
  - eapply oi_ext; [| |exact H]; reflexivity.
Qed.

Lemma process_oi : forall st msg used, oi st used ->
  oi (snd (fst (process open_decode upd_apply c st msg))) used.
Proof.
  intros st msg used H. unfold process. destruct (decode msg) as [r k]. destruct r as [m| | |]; cbn [fst snd]; try exact H.
  apply process_msg_oi. exact H.
Qed.

Lemma run_stream_oi : forall fuel final st s cost frames st' k n used, oi st used ->
  run_stream open_decode upd_apply c fuel final st s cost frames = SDone st' k n -> oi st' used.
Proof.
  induction fuel as [|f IH]; intros final st s cost frames st' k n used H R; cbn [run_stream] in R; [discriminate|].
  destruct (r_closed st); [inversion R; subst; apply cleanup_oi; exact H|].
  destruct (negb final && (len s =? 0)); [inversion R; subst; exact H|].
  destruct (recv s) as [m rest k1|k1|k1|]; try discriminate.
  - pose proof (process_oi st m used H) as P.
    destruct (process open_decode upd_apply c st m) as [[o st1] k2]. cbn [fst snd] in P.
    destruct o; [|discriminate]. eapply IH; [exact P|exact R].
  - inversion R; subst. apply cleanup_oi. exact H.
Qed.

Definition obs_ids (acts : list action) : list N :=
  flat_map (fun a => match a with AObserve id _ _ => [id] | _ => [] end) acts.

Lemma run_oi : forall acts st used st',
  oi st used -> NoDup (obs_ids acts) -> (forall id, In id (obs_ids acts) -> ~ In id used) ->
  run open_decode upd_apply c st acts = Some st' -> exists used', oi st' used'.
Proof.
  induction acts as [|a acts IH]; intros st used st' H Hd Hf R; cbn [run] in R.
  - inversion R; subst. exists used. exact H.
  - destruct a as [f|id rd v6|]; cbn [step] in R.
    + destruct (run_stream open_decode upd_apply c (S (length f)) false st f 0 0) as [st1 k n|k n|] eqn:E; try discriminate.
      eapply (IH st1 used); [eapply run_stream_oi; eauto|exact Hd|exact Hf|exact R].
    + cbn [obs_ids flat_map app] in Hd, Hf. fold (obs_ids acts) in Hd, Hf. inversion Hd as [|? ? Hn Hd']; subst.
      eapply (IH (observe id rd v6 st) (id :: used)); [|exact Hd'| |exact R].
      * apply observe_oi; [exact H|]. apply Hf. left. reflexivity.
      * intros i Hi [<-|Hu]; [contradiction|]. apply (Hf i); [right; exact Hi|exact Hu].
    + eapply (IH (set_closed false (cleanup st)) used); [|exact Hd|exact Hf|exact R].
      eapply oi_ext; [| |apply cleanup_oi; exact H]; reflexivity.
Qed.

Lemma oi_init : oi init [].
Proof.
  constructor; cbn [init r_vrfs r_log map]; try (intros; contradiction).
  - constructor.
  - intros o [[]|(v & w & [] & _)].
Qed.

(* registered observers have been told exactly what their table holds *)
Theorem observers_follow : forall acts st,
  NoDup (obs_ids acts) ->
  run open_decode upd_apply c init acts = Some st ->
  forall v w o x, In v (r_vrfs st) -> In o (obs w v) -> cnt x (view o (r_log st)) = cnt x (tab w v).
Proof.
  intros acts st Hd R. destruct (run_oi acts init [] st oi_init Hd (fun _ _ H => H) R) as (used & H).
  intros v w o x Hv Ho. apply (o_view _ _ _ H v w o x Hv Ho).
Qed.

End Lift.

(* ------------------------------------------------------------------ Dispose on connection loss *)

Lemma disposed_tell_in : forall o os log, In o os -> disposed o (tell os ODispose log) = true.
Proof.
  intros o os log H. unfold disposed, tell. rewrite existsb_app. apply orb_true_iff. left.
  apply existsb_exists. exists (o, ODispose). split; [apply in_map_iff; exists o; auto|].
  cbn [fst snd]. rewrite N.eqb_refl. reflexivity.
Qed.

Lemma disposed_tell_mono : forall o os ev log, disposed o log = true -> disposed o (tell os ev log) = true.
Proof.
  intros o os ev log H. unfold disposed, tell in *. rewrite existsb_app, H. apply orb_true_r.
Qed.

Lemma dispose_vrfs_disposed : forall st o v w, In v (r_vrfs st) -> In o (obs w v) ->
  disposed o (r_log (dispose_vrfs st)) = true.
Proof.
  intros st o v w Hv Ho. unfold dispose_vrfs. cbn [r_log set_log set_vrfs].
  generalize (r_log st) as log. revert Hv. generalize (r_vrfs st) as vs.
  induction vs as [|x vs IH]; intros Hv log; [contradiction|]. cbn [fold_left].
  destruct Hv as [->|Hv].
  - assert (D : disposed o (tell (obs true v) ODispose (tell (obs false v) ODispose log)) = true).
    { destruct w; [apply disposed_tell_in; exact Ho|apply disposed_tell_mono, disposed_tell_in; exact Ho]. }
    clear - D. revert D. generalize (tell (obs true v) ODispose (tell (obs false v) ODispose log)) as l.
    induction vs as [|y vs IH]; intros l D; cbn [fold_left]; [exact D|].
    apply IH. apply disposed_tell_mono, disposed_tell_mono. exact D.
  - apply IH. exact Hv.
Qed.

Lemma loc_remove_no_vrfs' : forall rd v6 e st, r_vrfs st = [] -> loc_remove rd v6 e st = st.
Proof. intros rd v6 e st H. unfold loc_remove. rewrite H. reflexivity. Qed.

Lemma dispose_all_no_vrfs_log : forall st, r_vrfs st = [] -> r_log (dispose_all st) = r_log st.
Proof.
  intros st H. unfold dispose_all. cbn [r_log set_nbrs].
  assert (G : forall l s, r_vrfs s = [] -> fold_left (fun acc n => dispose_nbr n acc) l s = s).
  { induction l as [|n l IH]; intros s Hs; cbn [fold_left]; [reflexivity|].
    assert (dispose_nbr n s = s).
    { unfold dispose_nbr, loc_remove_all.
      assert (F : forall rd v6 sr xs s0, r_vrfs s0 = [] ->
                fold_left (fun acc x => loc_remove rd v6 (tag sr x) acc) xs s0 = s0).
      { intros rd v6 sr. induction xs as [|x xs IHx]; intros s0 H0; cbn [fold_left]; [reflexivity|].
        rewrite loc_remove_no_vrfs' by exact H0. apply IHx. exact H0. }
      rewrite (F _ _ _ (n_rib4 n) s Hs). apply F. exact Hs. }
    rewrite H0. apply IH. exact Hs. }
  rewrite G; [reflexivity|exact H].
Qed.

(* when the connection is lost (Router.cleanup) every registered observer is told Dispose *)
Theorem observers_disposed : forall st o v w, In v (r_vrfs st) -> In o (obs w v) ->
  disposed o (r_log (cleanup st)) = true /\ r_vrfs (cleanup st) = [].
Proof.
  intros st o v w Hv Ho. unfold cleanup.
  assert (Hv0 : r_vrfs (dispose_vrfs st) = []) by reflexivity.
  rewrite dispose_all_no_vrfs_log by exact Hv0. split; [eapply dispose_vrfs_disposed; eauto|].
  unfold dispose_all. cbn [r_vrfs set_nbrs].
  assert (G : forall l s, r_vrfs s = [] -> r_vrfs (fold_left (fun acc n => dispose_nbr n acc) l s) = []).
  { induction l as [|n l IH]; intros s Hs; cbn [fold_left]; [exact Hs|]. apply IH.
    unfold dispose_nbr, loc_remove_all.
    assert (F : forall rd v6 sr xs s0, r_vrfs s0 = [] ->
              fold_left (fun acc x => loc_remove rd v6 (tag sr x) acc) xs s0 = s0).
    { intros rd v6 sr. induction xs as [|x xs IHx]; intros s0 H0; cbn [fold_left]; [reflexivity|].
      rewrite loc_remove_no_vrfs' by exact H0. apply IHx. exact H0. }
    rewrite (F _ _ _ (n_rib4 n) s Hs). rewrite F; exact Hs. }
  apply G. exact Hv0.
Qed.
