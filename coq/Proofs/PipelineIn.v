(* Pipeline, part 1: what the composition needs to know of the Adj-RIB-In model beyond C05's theorems:
   every operation only EXTENDS the log of calls delivered to clients, and a client's bag changes exactly by
   those calls (the model applies to its own copy of the client what it logs).  Generic in the operation. *)
From Coq Require Import List NArith Bool Lia Permutation.
Import ListNotations.
From BioVerif Require Import Model.AdjRIBIn Spec.AdjRIBInSpec Proofs.AdjRIBInProofs.
Open Scope N_scope.

(* the effect of one logged call on client c's bag *)
Definition ev_apply (c : N) (t : ctable) (e : event) : ctable :=
  match e with
  | EvAdd c' p q | EvDump c' p q => if c' =? c then ct_add p q t else t
  | EvRemove c' p q => if c' =? c then ct_remove p q t else t
  | EvReplace c' p o n => if c' =? c then ct_replace p o n t else t
  | EvEOR _ => t
  end.

(* oldest first *)
Definition replay (c : N) (evs : list event) (t : ctable) : ctable := fold_left (ev_apply c) evs t.

Definition plain (e : event) : Prop := match e with EvReplace _ _ _ _ => False | _ => True end.

(* the call (e, f) is one of the forms the model uses *)
Definition call_ok (e : event) (f : ctable -> ctable) : Prop :=
  forall c t, ev_apply c t e = if (match e with
                                   | EvAdd c' _ _ | EvDump c' _ _ | EvRemove c' _ _ | EvReplace c' _ _ _ | EvEOR c' => c'
                                   end) =? c then f t else t.

(* s' is s after some more calls: log extended, bags changed by exactly these calls, nothing else touched *)
Definition Ext (pl : Prop) (s s' : st) : Prop :=
  exists new : list event,                     (* newest first *)
    log s' = new ++ log s /\
    (pl -> Forall plain new) /\
    forall c, ct_get c (ctabs s') = replay c (rev new) (ct_get c (ctabs s)).

Lemma mkExt : forall (pl : Prop) s s' new,
  log s' = new ++ log s -> (pl -> Forall plain new) ->
  (forall c, ct_get c (ctabs s') = replay c (rev new) (ct_get c (ctabs s))) -> Ext pl s s'.
Proof. intros. exists new. auto. Qed.

Lemma Ext_refl : forall (pl : Prop) s, Ext pl s s.
Proof. intros pl s. apply (mkExt pl s s []); [reflexivity|intros; constructor|reflexivity]. Qed.

Lemma replay_app : forall c a b t, replay c (a ++ b) t = replay c b (replay c a t).
Proof. intros. unfold replay. apply fold_left_app. Qed.

Lemma Ext_trans : forall (pl : Prop) a b c, Ext pl a b -> Ext pl b c -> Ext pl a c.
Proof.
  intros pl a b c [n1 [L1 [P1 B1]]] [n2 [L2 [P2 B2]]].
  apply (mkExt pl a c (n2 ++ n1)).
  - rewrite L2, L1. now rewrite app_assoc.
  - intros H. apply Forall_app. split; auto.
  - intros k. rewrite B2, B1, rev_app_distr, replay_app. reflexivity.
Qed.

(* same log and bags: no call *)
Lemma Ext_same : forall (pl : Prop) s s', log s' = log s -> ctabs s' = ctabs s -> Ext pl s s'.
Proof.
  intros pl s s' HL HC. apply (mkExt pl s s' []); [now rewrite HL|intros; constructor|now rewrite HC].
Qed.

Lemma Ext_call : forall (pl : Prop) c e f s, call_ok e f -> (pl -> plain e) ->
  (match e with EvAdd c' _ _ | EvDump c' _ _ | EvRemove c' _ _ | EvReplace c' _ _ _ | EvEOR c' => c' end) = c ->
  Ext pl s (call c e f s).
Proof.
  intros pl c e f s OK PL EC. apply (mkExt pl s (call c e f s) [e]).
  - reflexivity.
  - intros H. constructor; [auto|constructor].
  - intros k. cbn [rev app]. unfold replay. cbn [fold_left call ctabs]. rewrite OK, EC.
    destruct (N.eqb_spec c k) as [->|NE].
    + now rewrite ct_get_upd_same.
    + rewrite ct_get_upd_other; [reflexivity|congruence].
Qed.

Lemma call_ok_add : forall c p q, call_ok (EvAdd c p q) (ct_add p q).
Proof. intros c p q k t. reflexivity. Qed.
Lemma call_ok_dump : forall c p q, call_ok (EvDump c p q) (ct_add p q).
Proof. intros c p q k t. reflexivity. Qed.
Lemma call_ok_remove : forall c p q, call_ok (EvRemove c p q) (ct_remove p q).
Proof. intros c p q k t. reflexivity. Qed.
Lemma call_ok_replace : forall c p o n, call_ok (EvReplace c p o n) (ct_replace p o n).
Proof. intros c p o n k t. reflexivity. Qed.
Lemma call_ok_eor : forall c, call_ok (EvEOR c) (fun t => t).
Proof. intros c k t. cbn. now destruct (c =? k). Qed.

Lemma Ext_fold : forall (pl : Prop) (A : Type) (g : st -> A -> st) (l : list A) s,
  (forall acc x, Ext pl acc (g acc x)) -> Ext pl s (fold_left g l s).
Proof.
  intros pl A g l. induction l as [|x l IH]; intros s H; cbn [fold_left]; [apply Ext_refl|].
  eapply Ext_trans; [apply H|apply IH; exact H].
Qed.

Lemma Ext_call_all : forall (pl : Prop) (mk : N -> event) f s,
  (forall c, call_ok (mk c) f) -> (forall c, pl -> plain (mk c)) ->
  (forall c, match mk c with EvAdd c' _ _ | EvDump c' _ _ | EvRemove c' _ _ | EvReplace c' _ _ _ | EvEOR c' => c' end = c) ->
  Ext pl s (call_all mk f s).
Proof.
  intros pl mk f s OK PL EC. unfold call_all. apply Ext_fold. intros acc c. apply Ext_call; auto.
Qed.

Lemma Ext_notify_remove : forall (pl : Prop) p removed s, Ext pl s (notify_remove p removed s).
Proof.
  intros pl p removed s. unfold notify_remove. apply Ext_fold. intros acc q.
  destruct (negb (hid q =? 0)); [apply Ext_refl|].
  destruct (chain acc p q) as [q'|]; [|apply Ext_refl].
  apply Ext_call_all; intros; try reflexivity; try exact I. apply call_ok_remove.
Qed.

Lemma Ext_remove_path : forall (pl : Prop) p oid s, Ext pl s (remove_path p oid s).
Proof.
  intros pl p oid s. unfold remove_path.
  eapply Ext_trans; [|apply Ext_notify_remove]. apply Ext_same; reflexivity.
Qed.

(* every operation but ReplaceFilterChain: the new calls are AddPath / AddPathInitialDump / RemovePath / EndOfRIB *)
Definition not_replace (o : op) : Prop := match o with ReplaceChain _ => False | _ => True end.

Lemma Ext_step : forall o s, Ext (not_replace o) s (step s o).
Proof.
  intros o s. destruct o as [p q|p i|p| |c|c|c'|a|a|a|a]; cbn [step].
  - (* Announce *)
    unfold add_path. cbv zeta.
    set (s1 := notify_remove _ _ _).
    assert (E1 : Ext (not_replace (Announce p q)) s s1).
    { unfold s1. eapply Ext_trans; [|apply Ext_notify_remove]. apply Ext_same; reflexivity. }
    destruct (negb (fst (validate (sa s) (asns s) (cids s) q) =? 0)); [exact E1|].
    match goal with |- context [chain s p ?x] => destruct (chain s p x) as [q'|] end; [|exact E1].
    eapply Ext_trans; [exact E1|].
    apply Ext_call_all; intros; try reflexivity; try exact I. apply call_ok_add.
  - apply Ext_remove_path.
  - apply Ext_remove_path.
  - unfold flush. apply Ext_fold. intros acc e. apply Ext_remove_path.
  - (* Register *)
    unfold register. cbv zeta.
    set (s1 := if existsb (N.eqb c) (regs s) then s else set_regs s (regs s ++ [c])).
    assert (E1 : Ext (not_replace (Register c)) s s1).
    { unfold s1. destruct (existsb (N.eqb c) (regs s)); [apply Ext_refl|apply Ext_same; reflexivity]. }
    eapply Ext_trans; [exact E1|].
    eapply Ext_trans; [|apply Ext_call; [apply call_ok_eor|intros; exact I|reflexivity]].
    apply Ext_fold. intros acc e.
    destruct (negb (hid (snd e) =? 0)); [apply Ext_refl|].
    destruct (chain acc (fst e) (snd e)) as [q'|]; [|apply Ext_refl].
    apply Ext_call; [apply call_ok_dump|intros; exact I|reflexivity].
  - (* Unregister *)
    unfold unregister. destruct (negb (existsb (N.eqb c) (regs s))); [apply Ext_refl|]. cbv zeta.
    set (s1 := set_regs s _).
    apply Ext_trans with s1; [apply Ext_same; reflexivity|].
    apply Ext_fold. intros acc e.
    destruct (negb (hid (snd e) =? 0)); [apply Ext_refl|].
    destruct (chain acc (fst e) (snd e)) as [q'|]; [|apply Ext_refl].
    apply Ext_call; [apply call_ok_remove|intros; exact I|reflexivity].
  - (* ReplaceFilterChain *)
    unfold replace_chain. cbv zeta.
    match goal with |- Ext _ _ (set_chain ?x _) => apply Ext_trans with x; [|apply Ext_same; reflexivity] end.
    apply Ext_fold. intros acc e.
    destruct (negb (hid (snd e) =? 0)); [apply Ext_refl|].
    destruct (chain s (fst e) (snd e)) as [o|], (c' (fst e) (snd e)) as [n|]; try apply Ext_refl.
    + destruct (negb (pcmp o n)); [|apply Ext_refl].
      apply Ext_call_all; intros; try reflexivity; [apply call_ok_replace|contradiction].
    + apply Ext_call_all; intros; try reflexivity; try exact I. apply call_ok_remove.
    + apply Ext_call_all; intros; try reflexivity; try exact I. apply call_ok_add.
  - apply Ext_same; reflexivity.
  - apply Ext_same; reflexivity.
  - apply Ext_same; reflexivity.
  - apply Ext_same; reflexivity.
Qed.

(* VRF operations leave everything but the refcounters alone *)
Definition vrf_op (o : op) : Prop :=
  match o with AddASN _ | DelASN _ | AddCID _ | DelCID _ => True | _ => False end.

Lemma vrf_op_frame : forall o s, vrf_op o ->
  tab (step s o) = tab s /\ chain (step s o) = chain s /\ regs (step s o) = regs s /\
  ctabs (step s o) = ctabs s /\ log (step s o) = log s /\ sa (step s o) = sa s.
Proof. intros o s H. destruct o; try contradiction; cbn; repeat split. Qed.
