(* C14, part 4: Chain.Equal (as repaired) holds exactly for structurally equal chains, so chains
   that compare equal behave identically. *)
From Coq Require Import List NArith Bool Lia Arith.
Import ListNotations.
From BioVerif Require Import Model.Policy Proofs.PolicyBits.
Local Open Scope N_scope.

Lemma if_negb x (y : bool) : (if negb x then false else y) = true <-> x = true /\ y = true.
Proof. destruct x, y; simpl; intuition discriminate. Qed.

Lemma all2_eq {A : Type} (eq : A -> A -> bool) :
  (forall x y, eq x y = true -> x = y) ->
  forall a b, same_len a b = true -> all2 eq a b = true -> a = b.
Proof.
  intros He. induction a as [| x a IH]; intros [| y b] Hl H; simpl in *; auto; try discriminate.
  destruct (eq x y) eqn:E; [| discriminate]. apply He in E. subst y.
  f_equal. apply IH; auto.
Qed.

Lemma all2_refl {A : Type} (eq : A -> A -> bool) :
  (forall x, eq x x = true) -> forall a, all2 eq a a = true.
Proof. intros He. induction a as [| x a IH]; simpl; auto. rewrite He. exact IH. Qed.

Lemma same_len_refl {A : Type} (a : list A) : same_len a a = true.
Proof. unfold same_len. apply Nat.eqb_refl. Qed.

Lemma matcher_equal_eq m x : matcher_equal m x = true <-> m = x.
Proof.
  destruct m, x; simpl; split; intros H; try discriminate; try reflexivity.
  - rewrite negb_true_iff, orb_false_iff, !negb_false_iff, !N.eqb_eq in H. destruct H. subst. reflexivity.
  - inversion H. rewrite !N.eqb_refl. reflexivity.
Qed.

Lemma pfx_equal_eq p x : pfx_equal p x = true <-> p = x.
Proof.
  unfold pfx_equal. rewrite andb_true_iff, ip_eqb_eq, N.eqb_eq.
  destruct p, x; simpl. split.
  - intros [H1 H2]. subst. reflexivity.
  - intros H. inversion H. auto.
Qed.

Lemma lcomm_eqb_eq a b : lcomm_eqb a b = true <-> a = b.
Proof.
  destruct a as [[a1 a2] a3], b as [[b1 b2] b3]. simpl.
  rewrite !andb_true_iff, !N.eqb_eq. split.
  - intros [[H1 H2] H3]. subst. reflexivity.
  - intros H. inversion H. auto.
Qed.

Lemma rf_equal_eq f x : rf_equal f x = true <-> f = x.
Proof.
  unfold rf_equal. rewrite !if_negb, N.eqb_eq, matcher_equal_eq. destruct f, x; simpl. split.
  - intros [H1 [H2 _]]. subst. reflexivity.
  - intros H. inversion H. auto.
Qed.

Lemma pl_equal_eq l x : pl_equal l x = true <-> l = x.
Proof.
  unfold pl_equal. rewrite !if_negb, matcher_equal_eq. destruct l as [la lm], x as [xa xm]; simpl. split.
  - intros [H1 [H2 H3]]. subst. f_equal. apply (all2_eq pfx_equal); auto. intros p q. apply pfx_equal_eq.
  - intros H. inversion H. subst. split; [apply same_len_refl |]. split; [reflexivity |].
    apply all2_refl. intros p. apply pfx_equal_eq. reflexivity.
Qed.

Lemma cond_equal_eq t x : cond_equal t x = true <-> t = x.
Proof.
  unfold cond_equal. rewrite !if_negb. destruct t as [t1 t2 t3 t4 t5], x as [x1 x2 x3 x4 x5]; simpl. split.
  - intros [L1 [L2 [L3 [L4 [L5 [H1 [H2 [H3 [H4 H5]]]]]]]]]. f_equal.
    + apply (all2_eq pl_equal); auto. intros a b. apply pl_equal_eq.
    + apply (all2_eq rf_equal); auto. intros a b. apply rf_equal_eq.
    + apply (all2_eq N.eqb); auto. intros a b. apply N.eqb_eq.
    + apply (all2_eq lcomm_eqb); auto. intros a b. apply lcomm_eqb_eq.
    + apply (all2_eq N.eqb); auto. intros a b. apply N.eqb_eq.
  - intros H. inversion H. subst. repeat split; try apply same_len_refl; apply all2_refl; intros a.
    + apply pl_equal_eq. reflexivity.
    + apply rf_equal_eq. reflexivity.
    + apply N.eqb_refl.
    + apply lcomm_eqb_eq. reflexivity.
    + apply N.eqb_refl.
Qed.

Lemma action_equal_eq a b : action_equal a b = true <-> a = b.
Proof.
  destruct a, b; simpl; split; intros H; try discriminate; try reflexivity.
  - apply N.eqb_eq in H. subst. reflexivity.
  - inversion H. apply N.eqb_refl.
  - apply N.eqb_eq in H. subst. reflexivity.
  - inversion H. apply N.eqb_refl.
  - apply ip_eqb_eq in H. subst. reflexivity.
  - inversion H. apply ip_eqb_eq. reflexivity.
  - rewrite !if_negb, !N.eqb_eq in H. destruct H as [H1 [H2 _]]. subst. reflexivity.
  - inversion H. rewrite !if_negb, !N.eqb_eq. auto.
Qed.

Lemma term_equal_eq t x : term_equal t x = true <-> t = x.
Proof.
  unfold term_equal. rewrite !if_negb. destruct t as [tf tt], x as [xf xt]; simpl. split.
  - intros [L1 [L2 [H1 H2]]]. f_equal.
    + apply (all2_eq cond_equal); auto. intros a b. apply cond_equal_eq.
    + apply (all2_eq action_equal); auto. intros a b. apply action_equal_eq.
  - intros H. inversion H. subst. repeat split; try apply same_len_refl; apply all2_refl; intros a.
    + apply cond_equal_eq. reflexivity.
    + apply action_equal_eq. reflexivity.
Qed.

Lemma filter_equal_eq (f x : filter) : filter_equal f x = true <-> f = x.
Proof.
  unfold filter_equal. rewrite if_negb. split.
  - intros [L H]. apply (all2_eq term_equal); auto. intros a b. apply term_equal_eq.
  - intros H. subst. split; [apply same_len_refl |]. apply all2_refl. intros a. apply term_equal_eq. reflexivity.
Qed.

Theorem chain_equal_eq (c d : chain) : chain_equal c d = true <-> c = d.
Proof.
  unfold chain_equal. rewrite if_negb. split.
  - intros [L H]. apply (all2_eq filter_equal); auto. intros a b. apply filter_equal_eq.
  - intros H. subst. split; [apply same_len_refl |]. apply all2_refl. intros a. apply filter_equal_eq. reflexivity.
Qed.

Theorem equal_sound c d :
  chain_equal c d = true -> forall env p st r, process env c p st r = process env d p st r.
Proof. intros H env p st r. apply chain_equal_eq in H. subst. reflexivity. Qed.
