(* C01: the regenerated definitions of the four prefix operations the trie calls (Gen/NetGen.v)
   agree with the hand-written transcription (Model/NetArith.v).  Only the trie-relevant functions
   (Equal, Contains, GetSupernet, BitAtPosition and what they call) are compared here, so a change
   of meaning of one of THEM in net/prefix.go or net/ip.go stops this file from compiling, while
   unrelated functions of package net (Compare, masks, base address, text) do not concern C01.
   (C15's Proofs/NetGenEquiv.v covers all translated functions.) *)
From Coq Require Import ZArith Lia Bool List.
From BioVerif Require Import Lib.Word Model.NetArith Gen.NetGen Model.TrieNet.
Open Scope Z_scope.

Lemma tg_Equal_eq p x : g_Prefix_Equal p x = pfx_equal p x.
Proof. reflexivity. Qed.

Lemma tg_BitAtPosition_eq a pos : g_IP_BitAtPosition a pos = BitAtPosition a pos.
Proof. reflexivity. Qed.

Lemma tg_containsIPv6_eq p x : g_Prefix_containsIPv6 p x = containsIPv6 p x.
Proof. unfold g_Prefix_containsIPv6, containsIPv6. destruct (plen p <=? 64); reflexivity. Qed.

Lemma tg_Contains_eq p x : g_Prefix_Contains p x = Contains p x.
Proof. unfold g_Prefix_Contains, Contains. rewrite tg_containsIPv6_eq. reflexivity. Qed.

Lemma tg_supernet4_loop_eq fuel : forall a b m,
  g_Prefix_supernetIPv4_loop1 fuel a b m =
  match supernet4_loop fuel a b m with Some (a', m') => Some (a', a', m') | None => None end.
Proof.
  induction fuel as [|f IH]; intros a b m; [reflexivity|].
  cbn [g_Prefix_supernetIPv4_loop1 supernet4_loop].
  destruct (Z.eqb_spec a b) as [->|NE]; cbn [negb]; [reflexivity | apply IH].
Qed.

Lemma tg_supernetIPv4_eq p x : g_Prefix_supernetIPv4 p x = supernetIPv4 p x.
Proof.
  unfold g_Prefix_supernetIPv4, supernetIPv4. rewrite tg_supernet4_loop_eq.
  change (g_min (plen p) (plen x)) with (wminu (plen p) (plen x)).
  change g_IP_ToUint32 with ToUint32.
  destruct (supernet4_loop 34 _ _ _) as [[a' m']|]; reflexivity.
Qed.

Lemma tg_supernet6_loop_eq fuel : forall M p x a b n mask,
  match g_Prefix_supernetIPv6_loop1 fuel M p x a b n mask with
  | Some (_, _, n', mask') => Some (n', mask')
  | None => None
  end = supernet6_loop fuel (addr p) (addr x) M a b n mask.
Proof.
  induction fuel as [|f IH]; intros M p x a b n mask; [reflexivity|].
  cbn [g_Prefix_supernetIPv6_loop1 supernet6_loop].
  destruct (Bool.eqb a b && (n <? M)); [|reflexivity].
  rewrite IH. reflexivity.
Qed.

Lemma tg_supernetIPv6_eq p x : g_Prefix_supernetIPv6 p x = supernetIPv6 p x.
Proof.
  unfold g_Prefix_supernetIPv6, supernetIPv6.
  rewrite <- (tg_supernet6_loop_eq 257 (wminu (plen p) (plen x)) p x).
  change (g_min (plen p) (plen x)) with (wminu (plen p) (plen x)).
  change g_IP_BitAtPosition with BitAtPosition.
  destruct (g_Prefix_supernetIPv6_loop1 257 _ p x _ _ 0 0) as [[[[a' b'] n'] mask']|]; reflexivity.
Qed.

Lemma tg_GetSupernet_eq p x : g_Prefix_GetSupernet p x = GetSupernet p x.
Proof.
  unfold g_Prefix_GetSupernet, GetSupernet. rewrite tg_supernetIPv4_eq, tg_supernetIPv6_eq. reflexivity.
Qed.

Lemma tg_supernet_eq p x : g_supernet p x = n_supernet p x.
Proof. unfold g_supernet, n_supernet. rewrite tg_GetSupernet_eq. reflexivity. Qed.

Lemma tg_bitAt_eq p pos : g_bitAt p pos = n_bitAt p pos.
Proof. reflexivity. Qed.
