(* C28: lemmas about the table operations of the BMP router model (Model/BMPRouter.v):
   how Loc-RIB additions/removals change the multiplicity of an entry in each VRF table, what they
   leave untouched, and how observers' views follow the tables. *)
From Coq Require Import List NArith ZArith Bool Lia ZifyBool ZifyNat ZifyN.
Import ListNotations.
From BioVerif Require Import Model.BMPCodec Model.BMPRouter.
Open Scope N_scope.

(* ------------------------------------------------------------------ decidable equalities *)

Lemma prefix_eqb_eq : forall a b, prefix_eqb a b = true <-> a = b.
Proof.
  intros [a1 a2] [b1 b2]. unfold prefix_eqb. cbn [fst snd]. rewrite andb_true_iff, !N.eqb_eq.
  split; [intros [-> ->]; reflexivity|intros H; inversion H; auto].
Qed.

Lemma src_eqb_eq : forall a b, src_eqb a b = true <-> a = b.
Proof.
  intros [a1 a2] [b1 b2]. unfold src_eqb. cbn [fst snd]. rewrite andb_true_iff, N.eqb_eq, Bool.eqb_true_iff.
  split; [intros [-> ->]; reflexivity|intros H; inversion H; auto].
Qed.

Lemma rkey_eqb_eq : forall a b, rkey_eqb a b = true <-> a = b.
Proof.
  intros [a1 a2] [b1 b2]. unfold rkey_eqb. cbn [fst snd]. rewrite andb_true_iff, N.eqb_eq, prefix_eqb_eq.
  split; [intros [-> ->]; reflexivity|intros H; inversion H; auto].
Qed.

Lemma entry_eqb_eq : forall a b, entry_eqb a b = true <-> a = b.
Proof.
  intros [[a1 a2] a3] [[b1 b2] b3]. unfold entry_eqb. cbn [fst snd].
  rewrite !andb_true_iff, N.eqb_eq, prefix_eqb_eq, src_eqb_eq.
  split; [intros [[-> ->] ->]; reflexivity|intros H; inversion H; auto].
Qed.

Lemma nkey_eqb_eq : forall a b, nkey_eqb a b = true <-> a = b.
Proof.
  intros [a1 a2] [b1 b2]. unfold nkey_eqb. cbn [fst snd]. rewrite andb_true_iff, !N.eqb_eq.
  split; [intros [-> ->]; reflexivity|intros H; inversion H; auto].
Qed.

Lemma entry_eqb_refl : forall a, entry_eqb a a = true.
Proof. intros. apply entry_eqb_eq. reflexivity. Qed.
Lemma nkey_eqb_refl : forall a, nkey_eqb a a = true.
Proof. intros. apply nkey_eqb_eq. reflexivity. Qed.
Lemma rkey_eqb_refl : forall a, rkey_eqb a a = true.
Proof. intros. apply rkey_eqb_eq. reflexivity. Qed.

Lemma entry_eqb_neq : forall a b, entry_eqb a b = false <-> a <> b.
Proof.
  intros a b. split.
  - intros H E. apply entry_eqb_eq in E. congruence.
  - intros H. destruct (entry_eqb a b) eqn:E; [apply entry_eqb_eq in E; contradiction|reflexivity].
Qed.
Lemma nkey_eqb_neq : forall a b, nkey_eqb a b = false <-> a <> b.
Proof.
  intros a b. split.
  - intros H E. apply nkey_eqb_eq in E. congruence.
  - intros H. destruct (nkey_eqb a b) eqn:E; [apply nkey_eqb_eq in E; contradiction|reflexivity].
Qed.
Lemma rkey_eqb_neq : forall a b, rkey_eqb a b = false <-> a <> b.
Proof.
  intros a b. split.
  - intros H E. apply rkey_eqb_eq in E. congruence.
  - intros H. destruct (rkey_eqb a b) eqn:E; [apply rkey_eqb_eq in E; contradiction|reflexivity].
Qed.
Lemma nkey_eqb_sym : forall a b, nkey_eqb a b = nkey_eqb b a.
Proof.
  intros a b. destruct (nkey_eqb a b) eqn:E.
  - apply nkey_eqb_eq in E. subst. symmetry. apply nkey_eqb_refl.
  - symmetry. apply nkey_eqb_neq. apply nkey_eqb_neq in E. congruence.
Qed.
Lemma entry_eqb_sym : forall a b, entry_eqb a b = entry_eqb b a.
Proof.
  intros a b. destruct (entry_eqb a b) eqn:E.
  - apply entry_eqb_eq in E. subst. symmetry. apply entry_eqb_refl.
  - symmetry. apply entry_eqb_neq. apply entry_eqb_neq in E. congruence.
Qed.

(* ------------------------------------------------------------------ multiplicities *)

Definition b2n (b : bool) : nat := if b then 1%nat else 0%nat.

Fixpoint cnt (e : entry) (l : list entry) : nat :=
  match l with [] => 0%nat | x :: r => (b2n (entry_eqb x e) + cnt e r)%nat end.

Fixpoint cntk (x : rkey) (l : list rkey) : nat :=
  match l with [] => 0%nat | y :: r => (b2n (rkey_eqb y x) + cntk x r)%nat end.

Lemma cnt_app : forall e a b, cnt e (a ++ b) = (cnt e a + cnt e b)%nat.
Proof. induction a as [|x a IH]; intros; cbn [app cnt]; [reflexivity|rewrite IH; lia]. Qed.

Lemma cntk_app : forall e a b, cntk e (a ++ b) = (cntk e a + cntk e b)%nat.
Proof. induction a as [|x a IH]; intros; cbn [app cntk]; [reflexivity|rewrite IH; lia]. Qed.

Lemma cnt_remove1 : forall e x l, cnt e (remove1 x l) = (cnt e l - b2n (entry_eqb x e))%nat.
Proof.
  intros e x. induction l as [|y l IH]; cbn [remove1 cnt]; [lia|].
  destruct (entry_eqb y x) eqn:E1.
  - apply entry_eqb_eq in E1. subst y. destruct (entry_eqb x e); cbn [b2n]; lia.
  - cbn [cnt]. rewrite IH. destruct (entry_eqb x e) eqn:E2; cbn [b2n]; [|lia].
    apply entry_eqb_eq in E2. subst x. rewrite E1. cbn [b2n]. lia.
Qed.

Lemma mem_entry_cnt : forall e l, mem_entry e l = true <-> (cnt e l > 0)%nat.
Proof.
  intros e. induction l as [|x l IH]; cbn [mem_entry cnt]; [split; [discriminate|lia]|].
  rewrite orb_true_iff, IH. destruct (entry_eqb x e); cbn [b2n]; split; intros H;
    first [lia | (left; reflexivity) | (destruct H as [H|H]; [discriminate|lia]) | (right; lia)].
Qed.

Lemma cnt_tag_map : forall s x xs, cnt (tag s x) (map (tag s) xs) = cntk x xs.
Proof.
  intros s x. induction xs as [|y xs IH]; cbn [map cnt cntk]; [reflexivity|]. rewrite IH. f_equal.
  f_equal. unfold tag, entry_eqb, rkey_eqb. cbn [fst snd].
  assert (src_eqb s s = true) by (apply src_eqb_eq; reflexivity). rewrite H. reflexivity.
Qed.

Lemma cnt_tag_other_src : forall s s' p i xs, s <> s' -> cnt (s', p, i) (map (tag s) xs) = 0%nat.
Proof.
  intros s s' p i xs H. induction xs as [|y xs IH]; cbn [map cnt]; [reflexivity|]. rewrite IH.
  unfold tag, entry_eqb. cbn [fst snd].
  destruct (src_eqb s s') eqn:E; [apply src_eqb_eq in E; contradiction|]. reflexivity.
Qed.

(* ------------------------------------------------------------------ VRF lookup / update *)

Lemma find_put_vrf : forall v vs rd,
  find_vrf rd (put_vrf v vs) =
  if (v_rd v =? rd) then (match find_vrf rd vs with Some _ => Some v | None => None end)
  else find_vrf rd vs.
Proof.
  intros v vs rd. induction vs as [|x vs IH]; cbn [put_vrf find_vrf].
  - destruct (v_rd v =? rd); reflexivity.
  - destruct (v_rd x =? v_rd v) eqn:E1; cbn [find_vrf].
    + destruct (v_rd v =? rd) eqn:E2.
      * assert (v_rd x =? rd = true) by lia. rewrite H. reflexivity.
      * assert (v_rd x =? rd = false) by lia. rewrite H. reflexivity.
    + destruct (v_rd x =? rd) eqn:E3.
      * assert (v_rd v =? rd = false) by lia. rewrite H. reflexivity.
      * exact IH.
Qed.

Lemma find_vrf_rd : forall rd vs v, find_vrf rd vs = Some v -> v_rd v = rd.
Proof.
  intros rd. induction vs as [|x vs IH]; cbn [find_vrf]; intros v H; [discriminate|].
  destruct (v_rd x =? rd) eqn:E; [inversion H; subst; lia|auto].
Qed.

Lemma set_tab_rd : forall v6 t v, v_rd (set_tab v6 t v) = v_rd v.
Proof. intros [] t v; reflexivity. Qed.
Lemma tab_set_tab : forall v6 v6' t v, tab v6' (set_tab v6 t v) = if Bool.eqb v6 v6' then t else tab v6' v.
Proof. intros [] [] t v; reflexivity. Qed.
Lemma obs_set_tab : forall v6 v6' t v, obs v6' (set_tab v6 t v) = obs v6' v.
Proof. intros [] [] t v; reflexivity. Qed.

(* ------------------------------------------------------------------ Loc-RIB operations on the state *)

Definition vrf_exists (rd : N) (st : rstate) : bool :=
  match find_vrf rd (r_vrfs st) with Some _ => true | None => false end.

Lemma table_loc_add : forall rd v6 e st rd' v6' x,
  cnt x (table (loc_add rd v6 e st) rd' v6') =
  (cnt x (table st rd' v6') +
   b2n (vrf_exists rd st && (N.eqb rd rd') && Bool.eqb v6 v6' && entry_eqb e x))%nat.
Proof.
  intros rd v6 e st rd' v6' x. unfold loc_add, table, vrf_exists.
  destruct (find_vrf rd (r_vrfs st)) as [v|] eqn:F; cbn [andb b2n]; [|lia].
  cbn [r_vrfs set_log set_vrfs]. rewrite find_put_vrf, set_tab_rd.
  pose proof (find_vrf_rd _ _ _ F) as Hrd. rewrite Hrd.
  destruct (N.eqb rd rd') eqn:E; cbn [andb b2n]; [|lia].
  assert (rd' = rd) by lia. subst rd'. rewrite F. rewrite tab_set_tab.
  destruct (Bool.eqb v6 v6') eqn:E2; cbn [andb b2n]; [|lia].
  apply Bool.eqb_prop in E2. subst v6'. cbn [cnt]. lia.
Qed.

Lemma table_loc_remove : forall rd v6 e st rd' v6' x,
  cnt x (table (loc_remove rd v6 e st) rd' v6') =
  (cnt x (table st rd' v6') - b2n ((N.eqb rd rd') && Bool.eqb v6 v6' && entry_eqb e x))%nat.
Proof.
  intros rd v6 e st rd' v6' x. unfold loc_remove, table.
  destruct (find_vrf rd (r_vrfs st)) as [v|] eqn:F.
  - pose proof (find_vrf_rd _ _ _ F) as Hrd.
    destruct (mem_entry e (tab v6 v)) eqn:M.
    + cbn [r_vrfs set_log set_vrfs]. rewrite find_put_vrf, set_tab_rd. rewrite Hrd.
      destruct (N.eqb rd rd') eqn:E; cbn [andb b2n]; [|lia].
      assert (rd' = rd) by lia. subst rd'. rewrite F. rewrite tab_set_tab.
      destruct (Bool.eqb v6 v6') eqn:E2; cbn [andb b2n]; [|lia].
      apply Bool.eqb_prop in E2. subst v6'. apply cnt_remove1.
    + destruct (N.eqb rd rd') eqn:E; cbn [andb b2n]; [|lia].
      assert (rd' = rd) by lia. subst rd'. rewrite F.
      destruct (Bool.eqb v6 v6') eqn:E2; cbn [andb b2n]; [|lia].
      apply Bool.eqb_prop in E2. subst v6'.
      destruct (entry_eqb e x) eqn:E3; cbn [b2n]; [|lia].
      apply entry_eqb_eq in E3. subst x.
      assert (cnt e (tab v6 v) = 0)%nat.
      { destruct (cnt e (tab v6 v)) eqn:C; [reflexivity|].
        assert (mem_entry e (tab v6 v) = true) by (apply mem_entry_cnt; lia). congruence. }
      lia.
  - destruct (N.eqb rd rd') eqn:E; cbn [andb b2n]; [|lia].
    assert (rd' = rd) by lia. subst rd'. rewrite F. cbn [cnt]. lia.
Qed.

(* what the Loc-RIB operations leave alone *)
Lemma loc_add_frame : forall rd v6 e st,
  r_nbrs (loc_add rd v6 e st) = r_nbrs st /\ r_ignored (loc_add rd v6 e st) = r_ignored st /\
  r_closed (loc_add rd v6 e st) = r_closed st /\
  (forall rd', vrf_exists rd' (loc_add rd v6 e st) = vrf_exists rd' st).
Proof.
  intros. unfold loc_add, vrf_exists. destruct (find_vrf rd (r_vrfs st)) as [v|] eqn:F; [|auto].
  cbn [r_nbrs r_ignored r_closed r_vrfs set_log set_vrfs]. repeat split; auto.
  intros rd'. rewrite find_put_vrf, set_tab_rd. pose proof (find_vrf_rd _ _ _ F) as Hrd. rewrite Hrd.
  destruct (N.eqb rd rd') eqn:E; [|reflexivity]. destruct (find_vrf rd' (r_vrfs st)); reflexivity.
Qed.

Lemma loc_remove_frame : forall rd v6 e st,
  r_nbrs (loc_remove rd v6 e st) = r_nbrs st /\ r_ignored (loc_remove rd v6 e st) = r_ignored st /\
  r_closed (loc_remove rd v6 e st) = r_closed st /\
  (forall rd', vrf_exists rd' (loc_remove rd v6 e st) = vrf_exists rd' st).
Proof.
  intros. unfold loc_remove, vrf_exists. destruct (find_vrf rd (r_vrfs st)) as [v|] eqn:F; [|auto].
  destruct (mem_entry e (tab v6 v)); [|auto].
  cbn [r_nbrs r_ignored r_closed r_vrfs set_log set_vrfs]. repeat split; auto.
  intros rd'. rewrite find_put_vrf, set_tab_rd. pose proof (find_vrf_rd _ _ _ F) as Hrd. rewrite Hrd.
  destruct (N.eqb rd rd') eqn:E; [|reflexivity]. destruct (find_vrf rd' (r_vrfs st)); reflexivity.
Qed.

Lemma loc_remove_all_frame : forall rd v6 s xs st,
  r_nbrs (loc_remove_all rd v6 s xs st) = r_nbrs st /\
  r_ignored (loc_remove_all rd v6 s xs st) = r_ignored st /\
  r_closed (loc_remove_all rd v6 s xs st) = r_closed st /\
  (forall rd', vrf_exists rd' (loc_remove_all rd v6 s xs st) = vrf_exists rd' st).
Proof.
  intros rd v6 s xs. unfold loc_remove_all. induction xs as [|x xs IH]; intros st; cbn [fold_left].
  - auto.
  - destruct (IH (loc_remove rd v6 (tag s x) st)) as (A & B & C & D).
    destruct (loc_remove_frame rd v6 (tag s x) st) as (A' & B' & C' & D').
    repeat split; try congruence; try (intros rd'; rewrite D, D'; reflexivity).
Qed.

Lemma table_loc_remove_all : forall rd v6 s xs st rd' v6' x,
  cnt x (table (loc_remove_all rd v6 s xs st) rd' v6') =
  (cnt x (table st rd' v6') -
   (if (N.eqb rd rd') && Bool.eqb v6 v6' then cnt x (map (tag s) xs) else 0))%nat.
Proof.
  intros rd v6 s xs. unfold loc_remove_all. induction xs as [|y xs IH]; intros st rd' v6' x; cbn [fold_left map cnt].
  - destruct ((N.eqb rd rd') && Bool.eqb v6 v6'); lia.
  - rewrite IH. rewrite table_loc_remove.
    destruct ((N.eqb rd rd') && Bool.eqb v6 v6'); cbn [andb b2n]; lia.
Qed.
