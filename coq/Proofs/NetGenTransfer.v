(* C15: the theorems transferred to the regenerated definitions (Gen/NetGen.v). *)
From Coq Require Import ZArith Lia Bool List.
From BioVerif Require Import Lib.Word Model.NetArith Spec.NetSpec Gen.NetGen
  Proofs.NetProofs Proofs.NetSupernet Proofs.NetGenEquiv.
Open Scope Z_scope.

Theorem generated_model_agrees :
  (forall p x, g_Prefix_Contains p x = Contains p x) /\
  (forall p x, g_Prefix_containsIPv4 p x = containsIPv4 p x) /\
  (forall p x, g_Prefix_containsIPv6 p x = containsIPv6 p x) /\
  (forall p x, g_Prefix_Equal p x = pfx_equal p x) /\
  (forall a b, g_IP_Equal a b = ip_equal a b) /\
  (forall a b, g_IP_Compare a b = ip_compare a b) /\
  (forall p x, g_Prefix_supernetIPv4 p x = supernetIPv4 p x) /\
  (forall p x, g_Prefix_supernetIPv6 p x = supernetIPv6 p x) /\
  (forall p x, g_Prefix_GetSupernet p x = GetSupernet p x) /\
  (forall p, g_Prefix_Valid p = Valid p) /\
  (forall x n, g_checkLastNBitsUint32 x n = checkLastNBitsUint32 x n) /\
  (forall x n, g_checkLastNBitsUint64 x n = checkLastNBitsUint64 x n) /\
  (forall p, g_Prefix_baseAddr4 p = baseAddr4 p) /\
  (forall p, g_Prefix_baseAddr6 p = baseAddr6 p) /\
  (forall p, g_Prefix_BaseAddr p = BaseAddr p) /\
  (forall a pos, g_IP_BitAtPosition a pos = BitAtPosition a pos) /\
  (forall a pos, g_IP_bitAtPositionIPv4 a pos = bitAtPositionIPv4 a pos) /\
  (forall a pos, g_IP_bitAtPositionIPv6 a pos = bitAtPositionIPv6 a pos) /\
  (forall a n, g_IP_MaskLastNBits a n = MaskLastNBits a n) /\
  (forall a n, g_IP_maskLastNBitsIPv4 a n = maskLastNBitsIPv4 a n) /\
  (forall a n, g_IP_maskLastNBitsIPv6 a n = maskLastNBitsIPv6 a n) /\
  (forall a, g_IP_ToUint32 a = ToUint32 a) /\
  (forall a b, g_min a b = wminu a b) /\
  (forall v, g_IPv4 v = IPv4 v) /\ (forall h l, g_IPv6 h l = IPv6 h l) /\ (forall a l, g_NewPfx a l = NewPfx a l).
Proof.
  exact
    (conj gen_Contains_eq (conj gen_containsIPv4_eq (conj gen_containsIPv6_eq (conj gen_Prefix_Equal_eq (conj gen_IP_Equal_eq (conj gen_IP_Compare_eq (conj gen_supernetIPv4_eq (conj gen_supernetIPv6_eq (conj gen_GetSupernet_eq (conj gen_Valid_eq (conj gen_checkLastNBitsUint32_eq (conj gen_checkLastNBitsUint64_eq (conj gen_baseAddr4_eq (conj gen_baseAddr6_eq (conj gen_BaseAddr_eq (conj gen_BitAtPosition_eq (conj gen_bitAtPositionIPv4_eq (conj gen_bitAtPositionIPv6_eq (conj gen_MaskLastNBits_eq (conj gen_maskLastNBitsIPv4_eq (conj gen_maskLastNBitsIPv6_eq (conj gen_ToUint32_eq (conj gen_min_eq (conj gen_IPv4_eq (conj gen_IPv6_eq gen_NewPfx_eq))))))))))))))))))))))))).
Qed.

Theorem Contains_gen_correct p x :
  wf_pfx p -> wf_pfx x -> (g_Prefix_Contains p x = true <-> contains_spec p x).
Proof. rewrite gen_Contains_eq. apply Contains_correct. Qed.

Theorem Valid_gen_correct p : wf_pfx p -> (g_Prefix_Valid p = true <-> valid_spec p).
Proof. rewrite gen_Valid_eq. apply Valid_correct. Qed.

Theorem BitAtPosition_gen_correct a pos :
  wf_ip a -> 0 <= pos < 256 -> g_IP_BitAtPosition a pos = bit_spec a pos.
Proof. rewrite gen_BitAtPosition_eq. apply BitAtPosition_correct. Qed.

Theorem GetSupernet_gen_trie p x :
  wf_pfx p -> wf_pfx x -> same_family (addr p) (addr x) ->
  g_Prefix_Valid p = true -> g_Prefix_Valid x = true ->
  g_Prefix_Equal p x = false -> g_Prefix_Contains p x = false -> g_Prefix_Contains x p = false ->
  exists s, g_Prefix_GetSupernet p x = Some s /\
    let k := lcp (pbits p) (pbits x) in
    plen s = Z.of_nat k /\ pbits s = supernet_bits k p /\
    wf_pfx s /\ same_family (addr s) (addr p) /\
    g_Prefix_Contains s p = true /\ g_Prefix_Contains s x = true /\ g_Prefix_Valid s = true /\
    g_IP_BitAtPosition (addr p) (plen s + 1) <> g_IP_BitAtPosition (addr x) (plen s + 1).
Proof.
  rewrite !gen_Valid_eq, gen_Prefix_Equal_eq, !gen_Contains_eq, gen_GetSupernet_eq.
  intros Wp Wx F Vp Vx NE C1 C2.
  destruct (GetSupernet_trie p x Wp Wx F Vp Vx NE C1 C2) as (s & Hs & H).
  exists s. split; [exact Hs|]. rewrite !gen_Valid_eq, !gen_Contains_eq, !gen_BitAtPosition_eq. exact H.
Qed.
