(* C14, part 1: the word-level matchers of Model.Policy (masks, uint8 arithmetic) agree with the
   bit-level matchers of Spec.PolicyRef on well-formed prefixes. *)
From Coq Require Import List NArith Bool Lia Btauto.
Import ListNotations.
From BioVerif Require Import Model.Policy Spec.PolicyRef.
Local Open Scope N_scope.

Lemma upto_spec n k : In k (upto n) <-> k < n.
Proof.
  unfold upto. rewrite in_map_iff. split.
  - intros [x [Hx Hin]]. apply in_seq in Hin. lia.
  - intros H. exists (N.to_nat k). split. { apply N2Nat.id. } apply in_seq. lia.
Qed.

Lemma agree_spec n a b :
  agree n a b = true <-> ip_v4 a = ip_v4 b /\ forall k, k < n -> bit a k = bit b k.
Proof.
  unfold agree. rewrite andb_true_iff, forallb_forall, eqb_true_iff.
  split; intros [H1 H2]; split; auto; intros k Hk.
  - apply eqb_prop. apply H2. apply upto_spec. exact Hk.
  - apply upto_spec in Hk. rewrite (H2 k Hk). apply eqb_reflx.
Qed.

Lemma canonical_spec p :
  canonical p = true <->
  forall k, k < width (pf_addr p) -> pf_len p <= k -> bit (pf_addr p) k = false.
Proof.
  unfold canonical. rewrite forallb_forall. split.
  - intros H k Hk Hl. apply upto_spec in Hk. specialize (H k Hk).
    apply orb_true_iff in H. destruct H as [H | H].
    + apply N.ltb_lt in H. lia.
    + apply negb_true_iff in H. exact H.
  - intros H k Hk. apply upto_spec in Hk. apply orb_true_iff.
    destruct (pf_len p <=? k) eqn:E.
    + right. apply N.leb_le in E. rewrite (H k Hk E). reflexivity.
    + left. apply N.leb_gt in E. apply N.ltb_lt. exact E.
Qed.

(* ---- masks *)

Lemma max32_ones : max32 = N.ones 32. Proof. reflexivity. Qed.
Lemma max64_ones : max64 = N.ones 64. Proof. reflexivity. Qed.
Lemma two32_pow : two32 = 2 ^ 32. Proof. reflexivity. Qed.
Lemma two64_pow : two64 = 2 ^ 64. Proof. reflexivity. Qed.

Lemma ones_bits n i : N.testbit (N.ones n) i = (i <? n).
Proof.
  destruct (i <? n) eqn:E.
  - apply N.ltb_lt in E. apply N.ones_spec_low. exact E.
  - apply N.ltb_ge in E. apply N.ones_spec_high. exact E.
Qed.

Lemma shl_ones_bits w s i :
  N.testbit (N.shiftl (N.ones w) s mod 2 ^ w) i = (s <=? i) && (i <? w).
Proof.
  destruct (i <? w) eqn:Ew.
  - apply N.ltb_lt in Ew. rewrite N.mod_pow2_bits_low by exact Ew.
    destruct (s <=? i) eqn:Es.
    + apply N.leb_le in Es. rewrite N.shiftl_spec_high' by exact Es.
      rewrite ones_bits. apply N.ltb_lt. lia.
    + apply N.leb_gt in Es. rewrite N.shiftl_spec_low by exact Es. reflexivity.
  - apply N.ltb_ge in Ew. rewrite N.mod_pow2_bits_high by exact Ew.
    rewrite andb_false_r. reflexivity.
Qed.

Lemma shl32_bits s i : N.testbit (shl32 s) i = (s <=? i) && (i <? 32).
Proof. unfold shl32. rewrite max32_ones, two32_pow. apply shl_ones_bits. Qed.

Lemma shl64_bits s i : N.testbit (shl64 s) i = (s <=? i) && (i <? 64).
Proof. unfold shl64. rewrite max64_ones, two64_pow. apply shl_ones_bits. Qed.

Lemma land_mask_eq a b m :
  N.land a m = N.land b m <-> forall i, N.testbit m i = true -> N.testbit a i = N.testbit b i.
Proof.
  split.
  - intros H i Hm. assert (E : N.testbit (N.land a m) i = N.testbit (N.land b m) i) by (rewrite H; reflexivity).
    rewrite !N.land_spec, Hm, !andb_true_r in E. exact E.
  - intros H. apply N.bits_inj. intros i. rewrite !N.land_spec.
    destruct (N.testbit m i) eqn:Hm.
    + rewrite (H i Hm). reflexivity.
    + rewrite !andb_false_r. reflexivity.
Qed.

Lemma testbit_high a n i : a < 2 ^ n -> n <= i -> N.testbit a i = false.
Proof.
  intros Ha Hi. rewrite <- (N.mod_small a (2 ^ n)) by exact Ha.
  apply N.mod_pow2_bits_high. exact Hi.
Qed.

Lemma u8sub_small a b : b <= a -> a < 256 -> u8sub a b = a - b.
Proof.
  intros H1 H2. unfold u8sub. rewrite (N.mod_small b 256) by lia.
  replace (a + 256 - b) with ((a - b) + 1 * 256) by lia.
  rewrite N.mod_add by lia. apply N.mod_small. lia.
Qed.

(* ---- ip well-formedness *)

Lemma ip_wfb_v4 a : ip_wfb a = true -> ip_v4 a = true -> ip_hi a = 0 /\ ip_lo a < 2 ^ 32.
Proof.
  unfold ip_wfb. intros H Hv. rewrite Hv in H. apply andb_true_iff in H. destruct H as [H1 H2].
  apply N.eqb_eq in H1. apply N.ltb_lt in H2. rewrite two32_pow in H2. auto.
Qed.

Lemma ip_wfb_v6 a : ip_wfb a = true -> ip_v4 a = false -> ip_hi a < 2 ^ 64 /\ ip_lo a < 2 ^ 64.
Proof.
  unfold ip_wfb. intros H Hv. rewrite Hv in H. apply andb_true_iff in H. destruct H as [H1 H2].
  apply N.ltb_lt in H1. apply N.ltb_lt in H2. rewrite two64_pow in H1, H2. auto.
Qed.

Lemma bit_v4 a k : ip_v4 a = true -> k < 32 -> bit a k = N.testbit (ip_lo a) (31 - k).
Proof.
  intros Hv Hk. unfold bit. rewrite Hv. apply N.ltb_lt in Hk. rewrite Hk. reflexivity.
Qed.

Lemma bit_v6_hi a k : ip_v4 a = false -> k < 64 -> bit a k = N.testbit (ip_hi a) (63 - k).
Proof.
  intros Hv Hk. unfold bit. rewrite Hv. apply N.ltb_lt in Hk. rewrite Hk. reflexivity.
Qed.

Lemma bit_v6_lo a k : ip_v4 a = false -> 64 <= k -> k < 128 -> bit a k = N.testbit (ip_lo a) (127 - k).
Proof.
  intros Hv Hk Hk2. unfold bit. rewrite Hv. apply N.ltb_ge in Hk. rewrite Hk.
  apply N.ltb_lt in Hk2. rewrite Hk2. reflexivity.
Qed.

(* all address bits equal => equal addresses *)
Lemma bits_inj_ip a b :
  ip_wfb a = true -> ip_wfb b = true -> ip_v4 a = ip_v4 b ->
  (forall k, k < width a -> bit a k = bit b k) -> ip_eqb a b = true.
Proof.
  intros Wa Wb Hf Hb. unfold ip_eqb. rewrite Hf, eqb_reflx. simpl.
  destruct (ip_v4 a) eqn:Va.
  - symmetry in Hf. destruct (ip_wfb_v4 a Wa Va) as [Ha1 Ha2]. destruct (ip_wfb_v4 b Wb Hf) as [Hb1 Hb2].
    rewrite Ha1, Hb1. simpl.
    apply N.eqb_eq. apply N.bits_inj. intros i.
    destruct (i <? 32) eqn:Ei.
    + apply N.ltb_lt in Ei. unfold width in Hb. rewrite Va in Hb.
      specialize (Hb (31 - i)). rewrite !bit_v4 in Hb by (auto; lia).
      replace (31 - (31 - i)) with i in Hb by lia. apply Hb. lia.
    + apply N.ltb_ge in Ei. rewrite (testbit_high _ 32 i Ha2 Ei), (testbit_high _ 32 i Hb2 Ei). reflexivity.
  - symmetry in Hf. destruct (ip_wfb_v6 a Wa Va) as [Ha1 Ha2]. destruct (ip_wfb_v6 b Wb Hf) as [Hb1 Hb2].
    unfold width in Hb. rewrite Va in Hb.
    apply andb_true_iff. split; apply N.eqb_eq; apply N.bits_inj; intros i.
    + destruct (i <? 64) eqn:Ei.
      * apply N.ltb_lt in Ei. specialize (Hb (63 - i)). rewrite !bit_v6_hi in Hb by (auto; lia).
        replace (63 - (63 - i)) with i in Hb by lia. apply Hb. lia.
      * apply N.ltb_ge in Ei. rewrite (testbit_high _ 64 i Ha1 Ei), (testbit_high _ 64 i Hb1 Ei). reflexivity.
    + destruct (i <? 64) eqn:Ei.
      * apply N.ltb_lt in Ei. specialize (Hb (127 - i)). rewrite !bit_v6_lo in Hb by (auto; lia).
        replace (127 - (127 - i)) with i in Hb by lia. apply Hb. lia.
      * apply N.ltb_ge in Ei. rewrite (testbit_high _ 64 i Ha2 Ei), (testbit_high _ 64 i Hb2 Ei). reflexivity.
Qed.

Lemma ip_eqb_eq a b : ip_eqb a b = true <-> a = b.
Proof.
  unfold ip_eqb. destruct a as [av ah al], b as [bv bh bl]. simpl.
  rewrite !andb_true_iff, eqb_true_iff, !N.eqb_eq. split.
  - intros [[H1 H2] H3]. subst. reflexivity.
  - intros H. inversion H. auto.
Qed.

(* ---- Contains on well-formed prefixes *)

Lemma contains4_spec pat x :
  ip_v4 (pf_addr pat) = true -> ip_v4 (pf_addr x) = true ->
  ip_wfb (pf_addr pat) = true -> ip_wfb (pf_addr x) = true -> pf_len pat <= 32 ->
  (contains4 pat x = true <-> forall k, k < pf_len pat -> bit (pf_addr pat) k = bit (pf_addr x) k).
Proof.
  intros Vp Vx Wp Wx Hl.
  destruct (ip_wfb_v4 _ Wp Vp) as [_ Hp]. destruct (ip_wfb_v4 _ Wx Vx) as [_ Hx].
  unfold contains4, to_u32. rewrite two32_pow, !N.mod_small by assumption.
  rewrite u8sub_small by lia. rewrite N.eqb_eq, land_mask_eq. split.
  - intros H k Hk. rewrite !bit_v4 by (auto; lia). apply H. rewrite shl32_bits.
    apply andb_true_iff. split. { apply N.leb_le. lia. } apply N.ltb_lt. lia.
  - intros H i Hi. rewrite shl32_bits in Hi. apply andb_true_iff in Hi. destruct Hi as [H1 H2].
    apply N.leb_le in H1. apply N.ltb_lt in H2.
    specialize (H (31 - i)). rewrite !bit_v4 in H by (auto; lia).
    replace (31 - (31 - i)) with i in H by lia. apply H. lia.
Qed.

Lemma contains6_spec pat x :
  ip_v4 (pf_addr pat) = false -> ip_v4 (pf_addr x) = false ->
  pf_len pat <= 128 ->
  (contains6 pat x = true <-> forall k, k < pf_len pat -> bit (pf_addr pat) k = bit (pf_addr x) k).
Proof.
  intros Vp Vx Hl. unfold contains6.
  rewrite andb_true_iff, !N.eqb_eq, !land_mask_eq.
  destruct (pf_len pat <=? 64) eqn:E.
  - apply N.leb_le in E. rewrite u8sub_small by lia. split.
    + intros [H _] k Hk. rewrite !bit_v6_hi by (auto; lia). apply H. rewrite shl64_bits.
      apply andb_true_iff. split. { apply N.leb_le. lia. } apply N.ltb_lt. lia.
    + intros H. split.
      * intros i Hi. rewrite shl64_bits in Hi. apply andb_true_iff in Hi. destruct Hi as [H1 H2].
        apply N.leb_le in H1. apply N.ltb_lt in H2.
        specialize (H (63 - i)). rewrite !bit_v6_hi in H by (auto; lia).
        replace (63 - (63 - i)) with i in H by lia. apply H. lia.
      * intros i Hi. rewrite N.bits_0 in Hi. discriminate.
  - apply N.leb_gt in E. rewrite u8sub_small by lia. split.
    + intros [H1 H2] k Hk. destruct (k <? 64) eqn:Ek.
      * apply N.ltb_lt in Ek. rewrite !bit_v6_hi by (auto; lia). apply H1.
        rewrite max64_ones, ones_bits. apply N.ltb_lt. lia.
      * apply N.ltb_ge in Ek. rewrite !bit_v6_lo by (auto; lia). apply H2. rewrite shl64_bits.
        apply andb_true_iff. split. { apply N.leb_le. lia. } apply N.ltb_lt. lia.
    + intros H. split.
      * intros i Hi. rewrite max64_ones, ones_bits in Hi. apply N.ltb_lt in Hi.
        specialize (H (63 - i)). rewrite !bit_v6_hi in H by (auto; lia).
        replace (63 - (63 - i)) with i in H by lia. apply H. lia.
      * intros i Hi. rewrite shl64_bits in Hi. apply andb_true_iff in Hi. destruct Hi as [H1 H2].
        apply N.leb_le in H1. apply N.ltb_lt in H2.
        specialize (H (127 - i)). rewrite !bit_v6_lo in H by (auto; lia).
        replace (127 - (127 - i)) with i in H by lia. apply H. lia.
Qed.

Lemma prefix_wfb_parts p :
  prefix_wfb p = true ->
  ip_wfb (pf_addr p) = true /\ pf_len p <= width (pf_addr p) /\ canonical p = true.
Proof.
  unfold prefix_wfb. rewrite !andb_true_iff. intros [[H1 H2] H3]. apply N.leb_le in H2. auto.
Qed.

(* strictly longer prefix: Contains = agreement on the pattern's bits *)
Lemma contains_agree pat x :
  prefix_wfb pat = true -> ip_wfb (pf_addr x) = true -> pf_len pat < pf_len x ->
  pfx_contains pat x = agree (pf_len pat) (pf_addr pat) (pf_addr x).
Proof.
  intros Wp Wx Hl. destruct (prefix_wfb_parts _ Wp) as [Wp1 [Wp2 _]].
  apply eq_iff_eq_true. rewrite agree_spec. unfold pfx_contains.
  destruct (Bool.eqb (ip_v4 (pf_addr pat)) (ip_v4 (pf_addr x))) eqn:Ef; simpl.
  - apply eqb_prop in Ef. apply N.leb_gt in Hl. rewrite Hl.
    unfold width in Wp2. destruct (ip_v4 (pf_addr pat)) eqn:Vp.
    + rewrite contains4_spec by auto. tauto.
    + rewrite contains6_spec by auto. tauto.
  - split. { discriminate. } intros [H _]. rewrite H, eqb_reflx in Ef. discriminate.
Qed.

Lemma contains_short pat x : pf_len x <= pf_len pat -> pfx_contains pat x = false.
Proof.
  intros H. unfold pfx_contains. apply N.leb_le in H. rewrite H.
  destruct (negb _); reflexivity.
Qed.

Lemma equal_difflen pat x : pf_len pat <> pf_len x -> pfx_equal pat x = false.
Proof.
  intros H. unfold pfx_equal. apply N.eqb_neq in H. rewrite H. apply andb_false_r.
Qed.

(* same length, both without host bits: Equal = agreement on the prefix bits *)
Lemma equal_agree pat x :
  prefix_wfb pat = true -> prefix_wfb x = true -> pf_len pat = pf_len x ->
  pfx_equal pat x = agree (pf_len pat) (pf_addr pat) (pf_addr x).
Proof.
  intros Wp Wx Hl.
  destruct (prefix_wfb_parts _ Wp) as [Wp1 [Wp2 Wp3]]. destruct (prefix_wfb_parts _ Wx) as [Wx1 [Wx2 Wx3]].
  apply eq_iff_eq_true. rewrite agree_spec. unfold pfx_equal.
  rewrite andb_true_iff, N.eqb_eq. split.
  - intros [H _]. apply ip_eqb_eq in H. rewrite H. auto.
  - intros [Hf Hb]. split; [| exact Hl]. apply bits_inj_ip; auto.
    intros k Hk. destruct (k <? pf_len pat) eqn:E.
    + apply N.ltb_lt in E. apply Hb. exact E.
    + apply N.ltb_ge in E.
      rewrite (proj1 (canonical_spec pat) Wp3 k Hk E).
      assert (Hw : width (pf_addr x) = width (pf_addr pat)) by (unfold width; rewrite Hf; reflexivity).
      rewrite (proj1 (canonical_spec x) Wx3 k); auto; lia.
Qed.

Theorem matcher_ok m pat p :
  prefix_wfb pat = true -> prefix_wfb p = true -> matcher_match m pat p = m_ref m pat p.
Proof.
  intros Wp Wx. destruct (prefix_wfb_parts _ Wx) as [Wx1 _].
  unfold matcher_match, matcher_match_w, m_ref.
  destruct (N.lt_trichotomy (pf_len pat) (pf_len p)) as [Hlt | [Heq | Hgt]].
  - rewrite (contains_agree _ _ Wp Wx1 Hlt), (equal_difflen pat p) by lia.
    assert (E1 : (pf_len p =? pf_len pat) = false) by (apply N.eqb_neq; lia).
    assert (E2 : (pf_len pat <=? pf_len p) = true) by (apply N.leb_le; lia).
    assert (E3 : (pf_len pat <? pf_len p) = true) by (apply N.ltb_lt; lia).
    rewrite E1, E2, E3. destruct m; simpl; btauto.
  - rewrite (equal_agree _ _ Wp Wx Heq), (contains_short pat p) by lia.
    assert (E1 : (pf_len p =? pf_len pat) = true) by (apply N.eqb_eq; lia).
    assert (E2 : (pf_len pat <=? pf_len p) = true) by (apply N.leb_le; lia).
    assert (E3 : (pf_len pat <? pf_len p) = false) by (apply N.ltb_ge; lia).
    rewrite E1, E2, E3. destruct m; simpl; btauto.
  - rewrite (equal_difflen pat p), (contains_short pat p) by lia.
    assert (E1 : (pf_len p =? pf_len pat) = false) by (apply N.eqb_neq; lia).
    assert (E2 : (pf_len pat <=? pf_len p) = false) by (apply N.leb_gt; lia).
    assert (E3 : (pf_len pat <? pf_len p) = false) by (apply N.ltb_ge; lia).
    rewrite E1, E2, E3. destruct m; simpl; btauto.
Qed.
