(* C34 proofs: the conversion to the API and back preserves what the API schema carries. *)
From Coq Require Import List NArith Bool Lia.
Import ListNotations.
From BioVerif Require Import Model.APIConv Spec.APIConvSpec.
Open Scope N_scope.

Lemma ip_roundtrip a : ip_from_proto (Some (ip_to_proto a)) = Ok a.
Proof. destruct a as [h l []]; reflexivity. Qed.

Lemma seg_roundtrip s : wf_segment s -> seg_from_proto (seg_to_proto s) = s.
Proof.
  destruct s as [t asns]. unfold wf_segment, seg_from_proto, seg_to_proto. cbn.
  intros [->| ->]; reflexivity.
Qed.

Lemma lcomm_roundtrip c : lcomm_from_proto (lcomm_to_proto c) = c.
Proof. destruct c; reflexivity. Qed.

Lemma unknown_roundtrip u : ua_code u < 256 -> unknown_from_proto (unknown_to_proto u) = u.
Proof.
  destruct u as [o t p c v]. unfold unknown_from_proto, unknown_to_proto. cbn.
  intros H. now rewrite N.mod_small.
Qed.

Lemma map_roundtrip {A B} (P : A -> Prop) (f : A -> B) (g : B -> A) l :
  (forall x, P x -> g (f x) = x) -> Forall P l -> map g (map f l) = l.
Proof.
  intros Hfg. induction 1 as [|x l Hx Hl IH]; cbn; [reflexivity|]. now rewrite Hfg, IH.
Qed.

Lemma olist_nonempty {A} (l : list A) : olist (nonempty l) = l.
Proof. destruct l; reflexivity. Qed.

Lemma bgp_roundtrip b : wf_bgp b ->
  exists b', bgp_from_proto (Some (bgp_to_proto b)) = Ok b' /\ bgp_agree b b'.
Proof.
  intros (a & nh & src & Ha & Hnh & Hsrc & Horg & Hseg & Hua).
  destruct b as [oa asp cl co lc ua pid aspl pp]. cbn in Ha, Hseg, Hua. subst oa.
  destruct a as [onh osrc lp med bid oid agg ebgp atom org otc]. cbn in Hnh, Hsrc, Horg. subst onh osrc.
  eexists. split.
  - unfold bgp_from_proto, bgp_to_proto. cbn -[ip_from_proto ip_to_proto N.modulo].
    rewrite !ip_roundtrip. cbn -[N.modulo]. reflexivity.
  - constructor; cbn; try reflexivity.
    + apply (map_roundtrip wf_segment); auto using seg_roundtrip.
    + now rewrite N.mod_small.
    + apply olist_nonempty.
    + rewrite olist_nonempty. apply (map_roundtrip (fun _ => True)); auto using lcomm_roundtrip.
      clear. induction (olist lc); constructor; auto.
    + apply olist_nonempty.
    + apply (map_roundtrip (fun u => ua_code u < 256)); auto using unknown_roundtrip.
Qed.

Lemma hidden_roundtrip h : h <= 6 -> hidden_from_proto (hidden_to_proto h) = h.
Proof.
  intros H. unfold hidden_from_proto, hidden_to_proto.
  apply N.leb_le in H. now rewrite H, H.
Qed.

Lemma hidden_to_proto_named h : h <= 6 -> hidden_to_proto h = h.
Proof. intros H. unfold hidden_to_proto. apply N.leb_le in H. now rewrite H. Qed.

Lemma hidden_to_proto_unnamed h : 6 < h -> hidden_to_proto h = 0.
Proof. intros H. unfold hidden_to_proto. apply N.leb_gt in H. now rewrite H. Qed.

(* whatever non-zero number the API message carries, the path is hidden after the conversion back *)
Lemma hidden_from_proto_zero h : hidden_from_proto h = 0 <-> h = 0.
Proof.
  unfold hidden_from_proto. destruct (h <=? 6) eqn:E1; [tauto|].
  apply N.leb_gt in E1. destruct (h <=? 255); split; intros H; try discriminate; lia.
Qed.

Lemma path_roundtrip p : wf_path p ->
  exists ap p', path_to_proto p = Ok ap /\ path_from_proto ap = Ok p' /\ path_agree p p' /\
    ap_hidden ap = hidden_to_proto (p_hidden p) /\
    p_hidden p' = hidden_from_proto (hidden_to_proto (p_hidden p)).
Proof.
  intros (Hh & Hst & Hty). destruct p as [ty rd hid lt st bg]. cbn in *.
  assert (Hsp : exists ast, match st with
                            | Some s => bind (static_to_proto s) (fun x => Ok (Some x))
                            | None => Ok None end = Ok ast /\
                 (forall s, st = Some s -> exists nh, s_nexthop s = Some nh /\
                                                      ast = Some (mkAS (Some (ip_to_proto nh))))).
  { destruct st as [[[nh|]]|]; cbn in Hst.
    - eexists. split; [reflexivity|]. intros s E. inversion E. subst s. cbn. eauto.
    - tauto.
    - eexists. split; [reflexivity|]. intros s E. discriminate. }
  destruct Hsp as (ast & Hast & Hast2).
  destruct Hty as [(Et & Hs)|(Et & b & Eb & Hb)]; subst ty.
  - (* static *)
    destruct st as [s|]; [|tauto]. destruct (Hast2 s eq_refl) as (nh & Hnh & ->).
    unfold path_to_proto. cbn [p_static]. rewrite Hast. cbn.
    eexists. eexists. split; [reflexivity|]. split.
    + unfold path_from_proto. cbn -[ip_from_proto ip_to_proto]. rewrite ip_roundtrip. cbn. reflexivity.
    + split; [|split; reflexivity].
      split; [reflexivity|]. split.
      * intros _. unfold static_nexthop. cbn. now rewrite Hnh.
      * intros E. discriminate.
  - (* BGP *)
    subst bg. destruct (bgp_roundtrip b Hb) as (b' & Hb' & Hag).
    unfold path_to_proto. cbn [p_static]. rewrite Hast. cbn.
    eexists. eexists. split; [reflexivity|]. split.
    + unfold path_from_proto. cbn -[bgp_from_proto bgp_to_proto]. rewrite Hb'. cbn. reflexivity.
    + split; [|split; reflexivity].
      split; [reflexivity|]. split.
      * intros E. discriminate.
      * intros _. exists b, b'. auto.
Qed.

Lemma paths_roundtrip l : Forall wf_path l ->
  exists aps ps, mapM path_to_proto l = Ok aps /\ mapM path_from_proto aps = Ok ps /\
    Forall2 path_agree l ps /\
    Forall2 (fun p ap => ap_hidden ap = hidden_to_proto (p_hidden p)) l aps /\
    Forall2 (fun p p' => p_hidden p' = hidden_from_proto (hidden_to_proto (p_hidden p))) l ps.
Proof.
  induction 1 as [|p l Hp Hl IH].
  - exists [], []. cbn. repeat split; constructor.
  - destruct IH as (aps & ps & H1 & H2 & H3 & H4 & H5).
    destruct (path_roundtrip p Hp) as (ap & p' & P1 & P2 & P3 & P4 & P5).
    exists (ap :: aps), (p' :: ps). cbn. rewrite P1. cbn. rewrite H1. cbn. rewrite P2. cbn.
    rewrite H2. cbn. repeat split; constructor; auto.
Qed.

Lemma prefix_roundtrip pf : pfx_len pf < 256 -> prefix_from_proto (Some (prefix_to_proto pf)) = Ok pf.
Proof.
  destruct pf as [a l]. cbn -[ip_from_proto ip_to_proto N.modulo]. intros H. rewrite ip_roundtrip.
  cbn -[N.modulo]. now rewrite N.mod_small.
Qed.

Theorem roundtrip_preserves r : wf_route r ->
  exists ar r', to_proto r = Ok ar /\ from_proto ar = Ok r' /\
    r_pfx r' = r_pfx r /\
    Forall2 path_agree (r_paths r) (r_paths r') /\
    Forall2 (fun p ap => ap_hidden ap = hidden_to_proto (p_hidden p)) (r_paths r) (ar_paths ar) /\
    Forall2 (fun p p' => p_hidden p' = hidden_from_proto (hidden_to_proto (p_hidden p)))
            (r_paths r) (r_paths r').
Proof.
  intros (pf & Hpf & Hlen & Hps). destruct r as [opf paths]. cbn in *. subst opf.
  destruct (paths_roundtrip paths Hps) as (aps & ps & H1 & H2 & H3 & H4 & H5).
  exists (mkAR (Some (prefix_to_proto pf)) aps), (mkR (Some pf) ps).
  unfold to_proto, from_proto. cbn [r_pfx r_paths]. rewrite H1. cbn [bind ar_pfx ar_paths].
  rewrite prefix_roundtrip by auto. cbn [bind]. rewrite H2. cbn. repeat split; auto.
Qed.

(* ---- the property's clauses *)
Theorem roundtrip_fields r : wf_route r ->
  exists r', roundtrip r = Ok r' /\ r_pfx r' = r_pfx r /\ Forall2 path_agree (r_paths r) (r_paths r').
Proof.
  intros H. destruct (roundtrip_preserves r H) as (ar & r' & H1 & H2 & H3 & H4 & _).
  exists r'. unfold roundtrip. rewrite H1. cbn. auto.
Qed.

Lemma Forall2_impl2 {A B} (P Q : A -> B -> Prop) l l' :
  (forall a b, In a l -> P a b -> Q a b) -> Forall2 P l l' -> Forall2 Q l l'.
Proof.
  intros H F. induction F as [|a b l l' Hab F IH]; constructor.
  - apply H; [left|]; auto.
  - apply IH. intros. apply H; [right|]; auto.
Qed.

(* hidden for a reason the API names: hidden in the API message and hidden (same reason) afterwards *)
Theorem hidden_stays_hidden_named r : wf_route r ->
  exists ar r', to_proto r = Ok ar /\ from_proto ar = Ok r' /\
    Forall2 (fun p ap => reason_named p -> (hidden p <-> api_hidden ap)) (r_paths r) (ar_paths ar) /\
    Forall2 (fun p p' => reason_named p -> p_hidden p' = p_hidden p) (r_paths r) (r_paths r').
Proof.
  intros H. destruct (roundtrip_preserves r H) as (ar & r' & H1 & H2 & _ & _ & H5 & H6).
  exists ar, r'. repeat split; auto.
  - eapply Forall2_impl2; [|exact H5]. cbn. intros p ap _ E Hn.
    unfold hidden, api_hidden. rewrite E, hidden_to_proto_named by exact Hn. tauto.
  - eapply Forall2_impl2; [|exact H6]. cbn. intros p p' _ E Hn.
    rewrite E. now apply hidden_roundtrip.
Qed.

(* a path that is not hidden is never reported as hidden *)
Theorem visible_stays_visible r : wf_route r ->
  exists r', roundtrip r = Ok r' /\
    Forall2 (fun p p' => ~ hidden p -> ~ hidden p') (r_paths r) (r_paths r').
Proof.
  intros H. destruct (roundtrip_preserves r H) as (ar & r' & H1 & H2 & _ & _ & _ & H6).
  exists r'. unfold roundtrip. rewrite H1. cbn. split; auto.
  eapply Forall2_impl2; [|exact H6]. cbn. intros p p' _ E Hn. unfold hidden in *.
  assert (Hz : p_hidden p = 0) by (destruct (N.eq_dec (p_hidden p) 0); tauto).
  rewrite E, Hz. cbn. tauto.
Qed.

(* the code as it is: a hidden reason the API does not name (7 = HiddenReasonEmptyASPath, ...)
   is reported as HiddenReasonNone and the path comes back visible *)
Theorem hidden_unnamed_reported_visible r : wf_route r ->
  exists ar r', to_proto r = Ok ar /\ from_proto ar = Ok r' /\
    Forall2 (fun p ap => ~ reason_named p -> ~ api_hidden ap) (r_paths r) (ar_paths ar) /\
    Forall2 (fun p p' => ~ reason_named p -> ~ hidden p') (r_paths r) (r_paths r').
Proof.
  intros H. destruct (roundtrip_preserves r H) as (ar & r' & H1 & H2 & _ & _ & H5 & H6).
  exists ar, r'. repeat split; auto.
  - eapply Forall2_impl2; [|exact H5]. cbn. intros p ap _ E Hn.
    unfold api_hidden, reason_named in *. rewrite E, hidden_to_proto_unnamed by lia. tauto.
  - eapply Forall2_impl2; [|exact H6]. cbn. intros p p' _ E Hn.
    unfold hidden, reason_named in *. rewrite E, hidden_to_proto_unnamed by lia. cbn. tauto.
Qed.

(* ================================================================== histories *)
Lemma cache_find_fresh k c n :
  (forall k' v, In (k', v) c -> ck_nh k' < n) -> n <= ck_nh k -> cache_find k c = None.
Proof.
  intros Hc Hk. induction c as [|[k' v] c IH]; cbn [cache_find]; [reflexivity|].
  assert (E : ckey_eqb k' k = false).
  { unfold ckey_eqb. assert (ck_nh k' < n) by (eapply Hc; left; reflexivity).
    assert (E1 : (ck_nh k' =? ck_nh k) = false) by (apply N.eqb_neq; lia).
    rewrite E1. reflexivity. }
  rewrite E. apply IH. intros k'' v' Hin. eapply Hc. right. exact Hin.
Qed.

Lemma heap_ok_empty : heap_ok empty_heap.
Proof. intros k v []. Qed.

(* the attribute cache never hits on the way back from the API: the conversion is the stateless one *)
Lemma bgp_from_proto_h_stateless dd pb h : heap_ok h ->
  fst (bgp_from_proto_h dd pb h) = bgp_from_proto pb /\ heap_ok (snd (bgp_from_proto_h dd pb h)).
Proof.
  intros Hh. destruct pb as [x|]; [|split; [reflexivity|exact Hh]].
  unfold bgp_from_proto_h, bgp_from_proto, hbind, ip_ptr_from_proto.
  destruct (ip_from_proto (ab_nexthop x)) as [nh|]; cbn [bind fst snd h_next h_cache]; [|split; [reflexivity|exact Hh]].
  destruct (ip_from_proto (ab_source x)) as [src|]; cbn [bind fst snd h_next h_cache].
  2:{ split; [reflexivity|]. intros k v Hin. cbn in *. apply Hh in Hin. lia. }
  destruct dd.
  - unfold cache_get. cbn [h_cache h_next].
    rewrite (cache_find_fresh _ (h_cache h) (h_next h)); [|exact Hh|cbn; lia].
    cbn [fst snd]. split; [reflexivity|].
    intros k v [E|Hin]; cbn [h_next].
    + inversion E. subst k. cbn. lia.
    + apply Hh in Hin. lia.
  - cbn [fst snd]. split; [reflexivity|].
    intros k v Hin. cbn in *. apply Hh in Hin. lia.
Qed.

Lemma path_from_proto_h_stateless dd ap h : heap_ok h ->
  fst (path_from_proto_h dd ap h) = path_from_proto ap /\ heap_ok (snd (path_from_proto_h dd ap h)).
Proof.
  intros Hh. unfold path_from_proto_h, path_from_proto.
  destruct (ap_type ap =? Path_BGP).
  - unfold hbind. destruct (bgp_from_proto_h_stateless dd (ap_bgp ap) h Hh) as [E1 E2].
    destruct (bgp_from_proto_h dd (ap_bgp ap) h) as [[b|] h']; cbn [fst snd] in *; rewrite <- E1;
      cbn; auto.
  - destruct (ap_type ap =? Path_Static); cbn; auto.
Qed.

Lemma mapM_h_stateless dd l : forall h, heap_ok h ->
  fst (mapM_h (path_from_proto_h dd) l h) = mapM path_from_proto l /\
  heap_ok (snd (mapM_h (path_from_proto_h dd) l h)).
Proof.
  induction l as [|ap l IH]; intros h Hh; cbn [mapM_h mapM].
  - cbn. auto.
  - unfold hbind. destruct (path_from_proto_h_stateless dd ap h Hh) as [E1 E2].
    destruct (path_from_proto_h dd ap h) as [[p|] h1]; cbn [fst snd] in *; rewrite <- E1; cbn [bind].
    + destruct (IH h1 E2) as [F1 F2].
      destruct (mapM_h (path_from_proto_h dd) l h1) as [[ps|] h2]; cbn [fst snd] in *; rewrite <- F1;
        cbn; auto.
    + auto.
Qed.

Theorem from_proto_h_stateless dd ar h : heap_ok h ->
  fst (from_proto_h dd ar h) = from_proto ar /\ heap_ok (snd (from_proto_h dd ar h)).
Proof.
  intros Hh. unfold from_proto_h, from_proto.
  destruct (prefix_from_proto (ar_pfx ar)) as [pf|]; cbn [bind]; [|auto].
  unfold hbind. destruct (mapM_h_stateless dd (ar_paths ar) h Hh) as [E1 E2].
  destruct (mapM_h (path_from_proto_h dd) (ar_paths ar) h) as [[ps|] h1]; cbn [fst snd] in *;
    rewrite <- E1; cbn; auto.
Qed.

Lemma roundtrip_h_stateless dd r h : heap_ok h ->
  fst (roundtrip_h dd r h) = roundtrip r /\ heap_ok (snd (roundtrip_h dd r h)).
Proof.
  intros Hh. unfold roundtrip_h, roundtrip. destruct (to_proto r) as [ar|]; cbn [bind]; [|auto].
  apply from_proto_h_stateless, Hh.
Qed.

(* every conversion of every history returns what the conversion alone returns *)
Theorem run_history_stateless l : forall h, heap_ok h ->
  run_history h l = map (fun rd => roundtrip (fst rd)) l.
Proof.
  induction l as [|[r dd] l IH]; intros h Hh; cbn [run_history map fst]; [reflexivity|].
  destruct (roundtrip_h_stateless dd r h Hh) as [E1 E2].
  destruct (roundtrip_h dd r h) as [res h']. cbn [fst snd] in *. rewrite E1, (IH h' E2). reflexivity.
Qed.

(* the round trip in any history: whatever was converted before, with or without dedup *)
Theorem roundtrip_history l h : heap_ok h -> Forall (fun rd => wf_route (fst rd)) l ->
  Forall2 (fun rd res => exists r', res = Ok r' /\ r_pfx r' = r_pfx (fst rd) /\
                                    Forall2 path_agree (r_paths (fst rd)) (r_paths r') /\
                                    Forall2 (fun p p' => reason_named p -> p_hidden p' = p_hidden p)
                                            (r_paths (fst rd)) (r_paths r'))
          l (run_history h l).
Proof.
  intros Hh Hwf. rewrite (run_history_stateless l h Hh).
  induction Hwf as [|[r dd] l Hr Hl IH]; cbn [map]; constructor; auto.
  cbn [fst] in *. destruct (roundtrip_preserves r Hr) as (ar & r' & H1 & H2 & H3 & H4 & _ & H6).
  exists r'. unfold roundtrip. rewrite H1. cbn [bind]. repeat split; auto.
  eapply Forall2_impl2; [|exact H6]. cbn. intros p p' _ E Hn. rewrite E. now apply hidden_roundtrip.
Qed.
