(* C25 / C26 instance lemmas: the checks of Spec/LockSpec.v evaluated on the generated tables
   (Gen/LockModel.v) by vm_compute, and their lifting through the meta-theorems of LockProofs.v. *)
From Coq Require Import List NArith Bool String Lia.
Import ListNotations.
From BioVerif Require Import Model.LockSem Gen.LockModel Spec.LockSpec Proofs.LockProofs.

(* ------------------------------------------------------------------ C25 *)

Lemma good_edges_acyclic : acyclic_check good_edges = true.
Proof. vm_compute. reflexivity. Qed.

(* every generated edge is an exception site or an edge of the ranked graph *)
Lemma edges_covered : forall e, In e lock_edges ->
  edge_exc e <> None \/ In (pair_of e) good_edges.
Proof.
  intros e Hin. destruct (edge_exc e) eqn:He.
  - left. discriminate.
  - right. unfold good_edges. apply dedup_pairs_In. apply in_map. apply filter_In. split; auto.
    rewrite He. reflexivity.
Qed.

Lemma lock_order_ranked :
  exists rank : lock -> N, forall e, In e lock_edges -> edge_exc e = None ->
    (rank (fst (fst e)) < rank (snd (fst e)))%N.
Proof.
  destruct (acyclic_check_sound _ good_edges_acyclic) as [rank Hr]. exists rank.
  intros e Hin He. destruct (edges_covered e Hin) as [H|H]; [congruence|].
  apply (Hr _ _ H).
Qed.

(* with the exception sites the graph has a cycle: the Loc-RIB / Adj-RIB-Out inversion *)
Lemma all_edges_cyclic :
  exists w, is_cycle all_edges w = true.
Proof.
  destruct (find_cycle all_edges) as [w|] eqn:Hc.
  - exists w. revert Hc. vm_compute. intros Hc. inversion Hc. reflexivity.
  - exfalso. revert Hc. vm_compute. discriminate.
Qed.

Lemma lock_order_refuted :
  ~ exists rank : lock -> N, forall a b, In (a, b) all_edges -> (rank a < rank b)%N.
Proof. destruct all_edges_cyclic as [w Hw]. apply (cycle_refutes_rank _ _ Hw). Qed.

Lemma no_lock_leak : forall r, In r lock_leaks -> leak_exc r <> None.
Proof.
  assert (H : forallb (fun r => match leak_exc r with Some _ => true | None => false end) lock_leaks = true)
    by (vm_compute; reflexivity).
  intros r Hin. rewrite forallb_forall in H. specialize (H r Hin). destruct (leak_exc r); [discriminate|discriminate].
Qed.

Lemma no_rendezvous_under_lock : forall r, In r rendezvous_under_lock -> rdv_exc r <> None.
Proof.
  assert (H : forallb (fun r => match rdv_exc r with Some _ => true | None => false end) rendezvous_under_lock = true)
    by (vm_compute; reflexivity).
  intros r Hin. rewrite forallb_forall in H. specialize (H r Hin). destruct (rdv_exc r); [discriminate|discriminate].
Qed.

Lemma no_dynamic_call_under_lock : forall d, In d dynamic_calls -> snd d = [].
Proof.
  assert (H : forallb dyn_ok dynamic_calls = true) by (vm_compute; reflexivity).
  intros d Hin. rewrite forallb_forall in H. specialize (H d Hin). unfold dyn_ok in H.
  destruct (snd d); [reflexivity|discriminate].
Qed.

(* lifting: threads that take locks only along non-excepted edges of the generated graph, release
   what they take and do not rendezvous under a lock never end up blocked on a mutex *)
Lemma no_lock_deadlock : forall (ps : list (list ev)) (s : state),
  Forall (conforms good_edges []) ps -> reachable ps s -> ~ can_step s ->
  forall t, In t s -> parked t.
Proof.
  intros ps s HF Hr Hstuck.
  destruct (acyclic_check_sound _ good_edges_acyclic) as [rank Hrank].
  apply (ranked_lock_order_no_deadlock rank ps s); auto.
  rewrite Forall_forall in *. intros p Hp. apply (conforms_wf good_edges rank Hrank). auto.
Qed.

(* ------------------------------------------------------------------ C26 *)

Lemma lockset_consistent : forall a, In a accesses -> acc_ok a = true \/ acc_exc a <> None.
Proof.
  assert (H : forallb (fun a => acc_ok a || match acc_exc a with Some _ => true | None => false end) accesses = true)
    by (vm_compute; reflexivity).
  intros a Hin. rewrite forallb_forall in H. specialize (H a Hin).
  apply orb_true_iff in H. destruct H as [H|H]; auto. right. destruct (acc_exc a); [discriminate|discriminate].
Qed.

Lemma fields_classified : forall f, In f field_names -> field_classified (fst f) = true.
Proof.
  assert (H : forallb (fun f => field_classified (fst f)) field_names = true) by (vm_compute; reflexivity).
  intros f Hin. rewrite forallb_forall in H. auto.
Qed.

Lemma guards_resolve : forall g, In g guarded_fields -> id_of lock_names (snd g) <> None /\ id_of field_names (fst g) <> None.
Proof.
  assert (H : forallb (fun g => match id_of lock_names (snd g), id_of field_names (fst g) with Some _, Some _ => true | _, _ => false end)
                guarded_fields = true) by (vm_compute; reflexivity).
  intros g Hin. rewrite forallb_forall in H. specialize (H g Hin).
  destruct (id_of lock_names (snd g)); destruct (id_of field_names (fst g)); try discriminate. split; discriminate.
Qed.

(* acc_ok unfolded: a guarded field's row holds its guard *)
Lemma acc_ok_guard : forall a m, acc_ok a = true -> guard_map (fst (fst (fst a))) = Some m -> In m (snd a).
Proof.
  intros a m Hok Hg. unfold acc_ok in Hok. unfold guard_map in Hg.
  destruct (is_guarded (fst (fst (fst a)))) eqn:Hig.
  - rewrite Hg in Hok. unfold mem_N in Hok. apply existsb_exists in Hok. destruct Hok as [x [Hx Heq]].
    apply N.eqb_eq in Heq. subst. auto.
  - exfalso. unfold guard_of in Hg. unfold is_guarded in Hig.
    destruct (find (fun g => String.eqb (fst g) (fname (fst (fst (fst a))))) guarded_fields) eqn:Hf; [|discriminate].
    apply find_some in Hf. destruct Hf as [Hin Heq].
    assert (Hex : existsb (fun g => String.eqb (fst g) (fname (fst (fst (fst a))))) guarded_fields = true).
    { apply existsb_exists. eauto. }
    congruence.
Qed.

(* lifting: a set of threads whose accesses all hold the guard of the accessed field (what the
   table says of every non-excepted site) orders any two accesses of different threads to a guarded
   field by a release / acquire of its guard *)
Lemma guarded_accesses_ordered :
  forall ps tr1 s1 s1' tr2 s2 s2' i j x w1 w2 m,
    Forall (disciplined guard_map []) ps -> guard_map x = Some m ->
    exec (init ps) tr1 s1 -> step s1 (i, Acc x w1) s1' ->
    exec s1' tr2 s2 -> step s2 (j, Acc x w2) s2' -> i <> j ->
    exists a b c, tr2 = a ++ (i, Rel m) :: b ++ (j, Acq m) :: c.
Proof. intros. eapply disciplined_accesses_ordered; eauto. Qed.

(* rule P: no path object is inserted twice or written after its insertion (no exception on the current tree) *)
Lemma no_shared_path_insertions : forall r, In r shared_path_sites -> shared_exc r <> None.
Proof.
  assert (H : forallb (fun r => match shared_exc r with Some _ => true | None => false end) shared_path_sites = true)
    by (vm_compute; reflexivity).
  intros r Hin. rewrite forallb_forall in H. specialize (H r Hin). destruct (shared_exc r); [discriminate|discriminate].
Qed.

(* rule J: whoever addresses a goroutine of its type through a channel / WaitGroup field waits for it *)
Lemma goroutines_joined_on_teardown : forall r, In r goroutine_joins -> join_waits r = true \/ join_exc r <> None.
Proof.
  assert (H : forallb (fun r => join_waits r || match join_exc r with Some _ => true | None => false end) goroutine_joins = true)
    by (vm_compute; reflexivity).
  intros r Hin. rewrite forallb_forall in H. specialize (H r Hin).
  apply orb_true_iff in H. destruct H as [H|H]; auto. right. destruct (join_exc r); [discriminate|discriminate].
Qed.
