(* Proofs for C22, part 2: peer AS resolution, roles, admission of an OPEN. *)
From Coq Require Import List NArith Bool Lia.
Import ListNotations.
From BioVerif Require Import Model.FSM Spec.RFC4271FSM Spec.OpenSpec Proofs.FSMProofs Proofs.FSMSysProofs Proofs.OpenProofs.
Local Open Scope N_scope.

(* ---------------------------------------------------------------- peer AS resolution *)

Lemma resolve_as_fixed : forall a vals, (a =? AS_TRANS) = false -> resolve_as a vals = a.
Proof. intros a [|v r] H; cbn; [reflexivity | rewrite H; reflexivity]. Qed.

Lemma caps_asn_fold : forall c l k,
  k_asn (fold_left (process_cap c) l k) = resolve_as (k_asn k) (asn4_values l).
Proof.
  intros c l. induction l as [|x l IH]; intro k; cbn [fold_left asn4_values]; [reflexivity|].
  rewrite IH. destruct x; cbn [asn4_values process_cap].
  - (* ASN4 *) cbn [k_asn resolve_as]. unfold AS_TRANS.
    destruct (k_asn k =? 23456) eqn:E; [reflexivity|]. apply resolve_as_fixed. exact E.
  - destruct (negb (safi =? 1)); [reflexivity|]. destruct ((afi =? 1) && negb (mp4_flag c)); [reflexivity|].
    destruct (fam_cfg c afi); reflexivity.
  - destruct (negb (safi =? 1) || negb (fam_cfg c afi)); reflexivity.
  - destruct (negb (role_enabled c)); reflexivity.
  - reflexivity.
  - reflexivity.
Qed.

Lemma caps_peer_as : forall c o, k_asn (process_caps c o) = peer_as o.
Proof. intros. unfold process_caps, peer_as. rewrite caps_asn_fold. reflexivity. Qed.

(* ---------------------------------------------------------------- roles *)

(* (advertised, last role, several different roles) after scanning role values *)
Fixpoint scan (adv : bool) (rem : N) (mu : bool) (rs : list N) : bool * N * bool :=
  match rs with
  | [] => (adv, rem, mu)
  | r :: rest => scan true r (mu || (adv && negb (rem =? r))) rest
  end.

Definition R (k : capst) : bool * N * bool := (n_roleadv (k_neg k), n_roleremote (k_neg k), k_multi k).

Lemma caps_role_fold_enabled : forall c l k, role_enabled c = true ->
  R (fold_left (process_cap c) l k) = scan (n_roleadv (k_neg k)) (n_roleremote (k_neg k)) (k_multi k) (role_values l).
Proof.
  intros c l. induction l as [|x l IH]; intros k He; cbn [fold_left role_values]; [reflexivity|].
  rewrite (IH _ He). destruct x; cbn [role_values process_cap].
  - reflexivity.
  - destruct (negb (safi =? 1)); [reflexivity|]. destruct ((afi =? 1) && negb (mp4_flag c)); [reflexivity|].
    destruct (fam_cfg c afi); [|reflexivity]. unfold set_mp. destruct (afi =? 1); reflexivity.
  - destruct (negb (safi =? 1) || negb (fam_cfg c afi)); [reflexivity|].
    cbn. unfold set_tx, set_rx.
    destruct (((sr =? 1) || (sr =? 3)) && cfg_send c afi); destruct (((sr =? 2) || (sr =? 3)) && cfg_recv c afi);
      destruct (afi =? 1); reflexivity.
  - rewrite He. cbn. reflexivity.
  - reflexivity.
  - reflexivity.
Qed.

Lemma caps_role_fold_disabled : forall c l k, role_enabled c = false ->
  R (fold_left (process_cap c) l k) = R k.
Proof.
  intros c l. induction l as [|x l IH]; intros k He; cbn [fold_left]; [reflexivity|].
  rewrite (IH _ He). destruct x; cbn [process_cap].
  - reflexivity.
  - destruct (negb (safi =? 1)); [reflexivity|]. destruct ((afi =? 1) && negb (mp4_flag c)); [reflexivity|].
    destruct (fam_cfg c afi); [|reflexivity]. unfold set_mp. destruct (afi =? 1); reflexivity.
  - destruct (negb (safi =? 1) || negb (fam_cfg c afi)); [reflexivity|].
    cbn. unfold set_tx, set_rx.
    destruct (((sr =? 1) || (sr =? 3)) && cfg_send c afi); destruct (((sr =? 2) || (sr =? 3)) && cfg_recv c afi);
      destruct (afi =? 1); reflexivity.
  - rewrite He. reflexivity.
  - reflexivity.
  - reflexivity.
Qed.

Lemma scan_multi_true : forall rs rem, exists rem', scan true rem true rs = (true, rem', true).
Proof. induction rs as [|r rest IH]; intro rem; cbn; [eexists; reflexivity | apply IH]. Qed.

Lemma scan_from : forall rs r mu,
  exists rem', scan true r mu rs = (true, rem', mu || negb (forallb (N.eqb r) rs)) /\
               (forallb (N.eqb r) rs = true -> rem' = r).
Proof.
  induction rs as [|x rest IH]; intros r mu; cbn [scan forallb].
  - exists r. rewrite orb_false_r. split; [reflexivity | reflexivity].
  - cbn [andb]. destruct (r =? x) eqn:E; cbn [negb andb].
    + apply N.eqb_eq in E. subst x. rewrite orb_false_r. apply IH.
    + rewrite orb_true_r. destruct (scan_multi_true rest x) as [rem' H]. exists rem'. rewrite H.
      split; [reflexivity | discriminate].
Qed.

Lemma pair_table : forall l r, roles_compatible l r = rfc9234_pair l r.
Proof.
  intros l r. unfold roles_compatible, rfc9234_pair, rfc9234_pairs. cbn.
  destruct (l =? 0), (l =? 1), (l =? 2), (l =? 3), (l =? 4), (r =? 0), (r =? 1), (r =? 2), (r =? 3), (r =? 4); reflexivity.
Qed.

Lemma caps_role_ok : forall c o, ebgp c = true ->
  role_ok c (process_caps c o) = roles_acceptable c o.
Proof.
  intros c o Heb. unfold role_ok, roles_acceptable. rewrite Heb. cbn [negb orb].
  destruct (role_enabled c) eqn:He; cbn [negb]; [|reflexivity].
  pose proof (caps_role_fold_enabled c (o_caps o) (K0 c o) He) as HR.
  unfold R, K0 in HR. cbn [k_neg k_multi neg_start n_roleadv n_roleremote] in HR.
  fold (K0 c o) in HR. change (fold_left (process_cap c) (o_caps o) (K0 c o)) with (process_caps c o) in HR.
  destruct (role_values (o_caps o)) as [|r rest] eqn:Hrs; cbn [scan] in HR.
  - injection HR as H1 H2 H3. rewrite H1. cbn. destruct (c_strict c); reflexivity.
  - cbn [orb andb] in HR. destruct (scan_from rest r false) as [rem' [Hs Hsame]]. rewrite Hs in HR.
    injection HR as H1 H2 H3. rewrite H1, H3. cbn [negb andb orb].
    destruct (c_strict c); cbn [andb];
      (destruct (forallb (N.eqb r) rest) eqn:F; cbn [negb andb];
       [rewrite H2, (Hsame eq_refl); apply pair_table | reflexivity]).
Qed.

(* ---------------------------------------------------------------- admission *)

Definition valid_openb (c : cfg) (o : open_msg) : bool :=
  (o_ver o =? 4) && negb (o_id o =? 0) && negb ((o_hold o =? 1) || (o_hold o =? 2)) &&
  negb (negb (ebgp c) && (c_rid c =? o_id o)) &&
  (peer_as o =? c_pas c) && roles_acceptable c o.

Lemma valid_open_iff : forall c o, valid_open c o <-> valid_openb c o = true.
Proof.
  intros c o. unfold valid_openb. split.
  - intros [H1 H2 H3 H4 H5 H6].
    rewrite H1, H6. cbn. apply N.eqb_eq in H2. rewrite H2. apply N.eqb_neq in H3. rewrite H3. cbn.
    assert (Hh : (o_hold o =? 1) || (o_hold o =? 2) = false).
    { destruct (o_hold o =? 1) eqn:A; [apply N.eqb_eq in A; lia|]. destruct (o_hold o =? 2) eqn:B; [apply N.eqb_eq in B; lia|]. reflexivity. }
    rewrite Hh. cbn. destruct (ebgp c) eqn:E; cbn; [reflexivity|].
    specialize (H4 eq_refl). destruct (c_rid c =? o_id o) eqn:Q; [apply N.eqb_eq in Q; congruence | reflexivity].
  - intro H. repeat (apply andb_prop in H; destruct H as [H ?]).
    constructor.
    + apply N.eqb_eq. assumption.
    + apply N.eqb_eq. assumption.
    + apply N.eqb_neq. destruct (o_id o =? 0); [discriminate | reflexivity].
    + intro E. rewrite E in *. cbn in *. intro Q. rewrite Q, N.eqb_refl in *. discriminate.
    + destruct (o_hold o =? 1) eqn:A; [discriminate|]. destruct (o_hold o =? 2) eqn:B; [discriminate|].
      apply N.eqb_neq in A. apply N.eqb_neq in B. lia.
    + assumption.
Qed.

Lemma verdict_accept : forall c o,
  open_verdict_of c (process_caps c o) = OpenAccept <-> (peer_as o =? c_pas c) && roles_acceptable c o = true.
Proof.
  intros c o. unfold open_verdict_of. rewrite caps_peer_as.
  destruct (peer_as o =? c_pas c); cbn [negb andb]; [|split; discriminate].
  destruct (ebgp c) eqn:E; cbn [andb].
  - rewrite (caps_role_ok c o E). destruct (roles_acceptable c o); cbn; split; try discriminate; reflexivity.
  - unfold roles_acceptable. rewrite E. cbn. split; reflexivity.
Qed.

Lemma verdict_reject_codes : forall c o code sub,
  open_verdict_of c (process_caps c o) = OpenReject code sub -> code = 2 /\ (sub = 2 \/ sub = 11).
Proof.
  intros c o code sub. unfold open_verdict_of.
  destruct (negb (k_asn (process_caps c o) =? c_pas c)); [intro H; inversion H; auto|].
  destruct (ebgp c && negb (role_ok c (process_caps c o))); intro H; inversion H; auto.
Qed.

Theorem open_admission : forall c s o,
  inv s -> s_st s = OpenSent -> wr_ok s = true ->
  (valid_open c o ->
     s_st (fst (step c s (EMsg (MOpen o)))) = OpenConfirm /\
     snd (step c s (EMsg (MOpen o))) = [SentKeepalive] /\
     negotiated_ok c o (s_neg (fst (step c s (EMsg (MOpen o))))) /\
     s_conn (fst (step c s (EMsg (MOpen o)))) = s_conn s) /\
  (~ valid_open c o ->
     exists sub pre,
       snd (step c s (EMsg (MOpen o))) = pre ++ [SentNotification 2 sub; Closed] /\
       (pre = [] \/ pre = [SentKeepalive]) /\ In sub [1; 2; 3; 6; 11] /\
       s_st (fst (step c s (EMsg (MOpen o)))) = Idle /\
       s_conn (fst (step c s (EMsg (MOpen o)))) = ConnClosed).
Proof.
  intros c [st att cn ng rt up im] o [Hatt Hconn] Hst Hw. cbn in Hatt, Hconn, Hst, Hw. subst st.
  assert (att = false) by (destruct att; [destruct Hatt as [H _]; specialize (H eq_refl); discriminate | reflexivity]).
  subst att. destruct cn as [|[|]|]; try discriminate. clear Hatt Hconn Hw.
  rewrite valid_open_iff. unfold valid_openb.
  unfold step. cbv beta iota zeta delta [s_st s_conn listens frame_of]. cbn [andb].
  cbv beta iota zeta delta [handle s_st decode].
  unfold validate_open.
  destruct (o_ver o =? 4) eqn:V; cbn [negb andb].
  2: { split; [discriminate|]. intros _. exists 1, []. rdx. cbn. repeat split; auto. }
  destruct (o_id o =? 0) eqn:I; cbn [negb andb].
  { split; [discriminate|]. intros _. exists 3, []. rdx. cbn. repeat split; auto. }
  destruct ((o_hold o =? 1) || (o_hold o =? 2)) eqn:Hd; cbn [negb andb].
  { split; [discriminate|]. intros _. exists 6, []. rdx. cbn. repeat split; auto. }
  unfold open_received.
  destruct (negb (ebgp c) && (c_rid c =? o_id o)) eqn:B; cbn [negb andb].
  { split; [discriminate|]. intros _. exists 3, []. rdx. cbn. repeat split; auto. }
  cbv beta iota zeta delta [wr_ok s_conn negb].
  destruct (open_verdict_of c (process_caps c o)) as [|code sub] eqn:Vd.
  - apply verdict_accept in Vd. rewrite Vd. split; [|intro H; exfalso; apply H; reflexivity].
    intros _. rdx. cbn. split; [reflexivity|]. split; [reflexivity|]. split; [apply caps_negotiated | reflexivity].
  - assert (Hn : (peer_as o =? c_pas c) && roles_acceptable c o = false).
    { destruct ((peer_as o =? c_pas c) && roles_acceptable c o) eqn:Q; [|reflexivity].
      apply verdict_accept in Q. rewrite Q in Vd. discriminate. }
    cbn [andb negb]. rewrite Hn.
    split; [discriminate|]. intros _.
    destruct (verdict_reject_codes _ _ _ _ Vd) as [Hc Hs]. subst code.
    exists sub, [SentKeepalive]. rdx. cbn. repeat split; auto. destruct Hs; subst; cbn; tauto.
Qed.

(* ---------------------------------------------------------------- the only way up *)

Lemma valid_open_dec : forall c o, valid_open c o \/ ~ valid_open c o.
Proof.
  intros c o. destruct (valid_openb c o) eqn:E.
  - left. apply valid_open_iff. exact E.
  - right. intro H. apply valid_open_iff in H. congruence.
Qed.

Lemma decode_open_inv : forall m o, decode m = DOpen o -> m = MOpen o.
Proof.
  intros m o H. destruct m as [ | o' | ann wd | pr pb pv | c0 s0 | mk len typ avail | n | ]; cbn in H; try discriminate.
  - destruct (validate_open o'); [discriminate | inversion H; reflexivity].
  - destruct (notification_valid c0 s0); discriminate.
  - destruct (decode_header mk len typ); [discriminate|].
    destruct (typ =? 4); [discriminate|]. destruct (typ =? 1); [discriminate|]. destruct (typ =? 3); discriminate.
Qed.

Ltac no_way att cn Hatt Hconn e Hto :=
  exfalso; revert Hto; prep_state att cn Hatt Hconn;
  destruct e; rdx; repeat (break_match; rdx); try discriminate;
  try (exfalso; eapply frame_of_no_panic; eassumption).

Theorem enters_openconfirm : forall c s e,
  inv s -> s_st s <> OpenConfirm -> s_st (fst (step c s e)) = OpenConfirm ->
  exists o, e = EMsg (MOpen o) /\ s_st s = OpenSent /\ valid_open c o /\
            negotiated_ok c o (s_neg (fst (step c s e))).
Proof.
  intros c [st att cn ng rt up im] e [Hatt Hconn] Hne Hto. cbn in Hatt, Hconn, Hne.
  destruct st.
  - no_way att cn Hatt Hconn e Hto.
  - no_way att cn Hatt Hconn e Hto.
  - no_way att cn Hatt Hconn e Hto.
  - (* OpenSent *)
    assert (att = false) by (destruct att; [destruct Hatt as [HH _]; specialize (HH eq_refl); discriminate | reflexivity]).
    subst att. clear Hatt. destruct (Hconn eq_refl) as [b Hb]. subst cn. clear Hconn.
    destruct e as [code|br|ex| | | |rp| |m].
    1-8: exfalso; revert Hto; rdx; repeat (break_match; rdx); discriminate.
    destruct m as [ | o | ann wd | pr pb pv | c0 s0 | mk len typ avail | n | ].
    1,3-8: exfalso; revert Hto; rdx; repeat (break_match; rdx); try discriminate;
           try (exfalso; eapply frame_of_no_panic; eassumption);
           try (match goal with H : decode _ = DOpen _ |- _ => apply decode_open_inv in H; discriminate end).
    exists o. split; [reflexivity|]. split; [reflexivity|].
    destruct b.
    + (* writes fail: the KEEPALIVE cannot be sent, the session does not come up *)
      exfalso. revert Hto. unfold step. cbv beta iota zeta delta [s_st s_conn listens frame_of]. cbn [andb].
      cbv beta iota zeta delta [handle s_st decode].
      destruct (validate_open o); rdx; repeat (break_match; rdx); discriminate.
    + assert (Hi : inv {| s_st := OpenSent; s_att := false; s_conn := ConnOpen false; s_neg := ng; s_retry := rt; s_upd := up; s_imp := im |}).
      { split; cbn; [split; discriminate | intros _; eexists; reflexivity]. }
      destruct (open_admission c _ o Hi eq_refl eq_refl) as [Hv Hnv].
      destruct (valid_open_dec c o) as [V|V].
      * split; [exact V|]. apply Hv. exact V.
      * exfalso. destruct (Hnv V) as (sub & pre & _ & _ & _ & Hidle & _). rewrite Hidle in Hto. discriminate.
  - exfalso. apply Hne. reflexivity.
  - no_way att cn Hatt Hconn e Hto.
  - no_way att cn Hatt Hconn e Hto.
Qed.

Theorem enters_established : forall c s e,
  inv s -> s_st s <> Established -> s_st (fst (step c s e)) = Established -> s_st s = OpenConfirm.
Proof.
  intros c s e Hinv Hne Hto.
  destruct (step_refines c s e Hinv) as [_ Hsp]. pose proof (sp_edge _ _ _ Hsp) as He. cbn in He.
  rewrite Hto in He. destruct (s_st s); try discriminate; try reflexivity. exfalso. apply Hne. reflexivity.
Qed.
