(* Proofs for C21: framing never panics; the decoder's classified errors are exactly what RFC 4271
   section 6 owes; a classified error is answered with that NOTIFICATION before the connection is
   closed; a step of one session leaves the others alone. *)
From Coq Require Import List NArith Bool Lia PeanoNat.
Import ListNotations.
From BioVerif Require Import Model.FSM Spec.RFC4271FSM Spec.RFC4271Errors Proofs.FSMProofs Proofs.FSMSysProofs.
Local Open Scope N_scope.

(* ---------------------------------------------------------------- framing *)

Theorem recv_msg_total : forall len avail, len < 65536 -> recv_msg len avail <> FrPanic.
Proof. intros len avail _. apply recv_msg_no_panic. Qed.

(* the function as it was before the repair panics exactly outside 19..4096 *)
Lemma recv_msg_unguarded_panics : forall len avail,
  recv_msg_unguarded len avail = FrPanic <-> (len < 19 \/ 4096 < len).
Proof.
  intros len avail. unfold recv_msg_unguarded, slice_in_range, MinLen, MaxLen.
  destruct (19 <=? len) eqn:A; destruct (len <=? 4096) eqn:B; cbn [andb negb];
    try apply N.leb_le in A; try apply N.leb_gt in A; try apply N.leb_le in B; try apply N.leb_gt in B.
  - destruct (avail <? len - 19); split; try discriminate; lia.
  - split; [intros _; lia | reflexivity].
  - split; [intros _; lia | reflexivity].
  - split; [intros _; lia | reflexivity].
Qed.

(* ---------------------------------------------------------------- decoder errors vs. RFC 4271 section 6 *)

Lemma decode_header_sound : forall mk len typ e,
  decode_header mk len typ = Some e -> header_error mk len typ e.
Proof.
  intros mk len typ e. unfold decode_header, MinLen, MaxLen.
  destruct mk; cbn [negb].
  2: { intro H; inversion H; subst. apply he_marker. reflexivity. }
  destruct ((len <? 19) || (4096 <? len)) eqn:R.
  { intro H; inversion H; subst. apply he_len_range.
    apply orb_prop in R. destruct R as [R|R]; apply N.ltb_lt in R; lia. }
  destruct ((typ =? 0) || (4 <? typ)) eqn:T.
  { intro H; inversion H; subst. apply he_type.
    apply orb_prop in T. destruct T as [T|T]; [apply N.eqb_eq in T | apply N.ltb_lt in T]; lia. }
  destruct (typ =? 1) eqn:T1; cbn [andb orb].
  { apply N.eqb_eq in T1. destruct (len <? 29) eqn:L; cbn [orb].
    - intro H; inversion H; subst. apply he_len_open; [reflexivity | apply N.ltb_lt in L; exact L].
    - subst typ. cbn. discriminate. }
  destruct (typ =? 2) eqn:T2; cbn [andb orb].
  { apply N.eqb_eq in T2. destruct (len <? 23) eqn:L; cbn [orb].
    - intro H; inversion H; subst. apply he_len_update; [reflexivity | apply N.ltb_lt in L; exact L].
    - subst typ. cbn. discriminate. }
  destruct (typ =? 3) eqn:T3; cbn [andb orb].
  { apply N.eqb_eq in T3. destruct (len <? 21) eqn:L; cbn [orb].
    - intro H; inversion H; subst. apply he_len_notification; [reflexivity | apply N.ltb_lt in L; exact L].
    - subst typ. cbn. discriminate. }
  destruct (typ =? 4) eqn:T4; cbn [andb orb].
  { apply N.eqb_eq in T4. destruct (len =? 19) eqn:L; cbn [negb].
    - discriminate.
    - intro H; inversion H; subst. apply he_len_keepalive; [reflexivity | apply N.eqb_neq in L; exact L]. }
  discriminate.
Qed.

Lemma decode_header_complete : forall mk len typ e,
  header_error mk len typ e -> exists e', decode_header mk len typ = Some e'.
Proof.
  intros mk len typ e H. unfold decode_header, MinLen, MaxLen.
  destruct mk; cbn [negb]; [|eexists; reflexivity].
  destruct ((len <? 19) || (4096 <? len)) eqn:R; [eexists; reflexivity|].
  destruct ((typ =? 0) || (4 <? typ)) eqn:T; [eexists; reflexivity|].
  apply orb_false_elim in R. destruct R as [R1 R2]. apply N.ltb_ge in R1. apply N.ltb_ge in R2.
  apply orb_false_elim in T. destruct T as [T1 T2]. apply N.eqb_neq in T1. apply N.ltb_ge in T2.
  inversion H; subst; try discriminate; try lia.
  - (* OPEN *) assert (L : (len <? 29) = true) by (apply N.ltb_lt; assumption). rewrite L. cbn. eexists; reflexivity.
  - assert (L : (len <? 23) = true) by (apply N.ltb_lt; assumption). rewrite L. cbn. eexists; reflexivity.
  - assert (L : (len <? 21) = true) by (apply N.ltb_lt; assumption). rewrite L. cbn. eexists; reflexivity.
  - assert (L : (len =? 19) = false) by (apply N.eqb_neq; assumption). rewrite L. cbn. eexists; reflexivity.
Qed.

Lemma validate_open_sound : forall o e, validate_open o = Some e -> open_error o e.
Proof.
  intros o e. unfold validate_open.
  destruct (o_ver o =? 4) eqn:V; cbn [negb].
  2: { intro H; inversion H; subst. apply oe_version. apply N.eqb_neq in V. exact V. }
  destruct (o_id o =? 0) eqn:I.
  { intro H; inversion H; subst. apply oe_id. apply N.eqb_eq in I. exact I. }
  destruct ((o_hold o =? 1) || (o_hold o =? 2)) eqn:Hd; [|discriminate].
  intro H; inversion H; subst. apply oe_hold.
  apply orb_prop in Hd. destruct Hd as [Hd|Hd]; apply N.eqb_eq in Hd; [left | right]; exact Hd.
Qed.

Lemma validate_open_complete : forall o e, open_error o e -> exists e', validate_open o = Some e'.
Proof.
  intros o e H. unfold validate_open.
  destruct (o_ver o =? 4) eqn:V; cbn [negb]; [|eexists; reflexivity].
  destruct (o_id o =? 0) eqn:I; [eexists; reflexivity|].
  destruct ((o_hold o =? 1) || (o_hold o =? 2)) eqn:Hd; [eexists; reflexivity|].
  apply N.eqb_eq in V. apply N.eqb_neq in I. apply orb_false_elim in Hd. destruct Hd as [H1 H2].
  apply N.eqb_neq in H1. apply N.eqb_neq in H2.
  inversion H; subst; try contradiction. destruct H0; contradiction.
Qed.

(* whatever the decoder classifies is an error RFC 4271 owes for that transmission ... *)
Theorem decode_owes : forall m e, decode m = DErr (Some e) -> owes m e.
Proof.
  intros m e H. destruct m as [ | o | ann wd | pr pb pv | c0 s0 | mk len typ avail | n | ]; cbn [decode] in H; try discriminate.
  - destruct (validate_open o) eqn:V; [|discriminate]. inversion H; subst. apply ow_open. apply validate_open_sound. exact V.
  - destruct (notification_valid c0 s0); discriminate.
  - destruct (decode_header mk len typ) eqn:D.
    + inversion H; subst. apply ow_header. apply decode_header_sound. exact D.
    + destruct (typ =? 4); [discriminate|]. destruct (typ =? 1) eqn:T1.
      * apply N.eqb_eq in T1. subst typ. inversion H; subst. apply ow_zero_open.
      * destruct (typ =? 3); discriminate.
Qed.

(* ... and every malformed transmission of a classified kind is classified *)
Theorem malformed_classified : forall m, classified m = true -> malformed m -> exists e, decode m = DErr (Some e).
Proof.
  intros m Hc [e He]. destruct He as [mk len typ avail e He | mk len avail | o e He | sub code Hcode]; cbn [decode].
  - destruct (decode_header_complete _ _ _ _ He) as [e' E]. rewrite E. eexists; reflexivity.
  - destruct (decode_header mk len 1) eqn:D; [eexists; reflexivity|]. cbn. eexists; reflexivity.
  - destruct (validate_open_complete _ _ He) as [e' E]. rewrite E. eexists; reflexivity.
  - discriminate.
Qed.

(* ---------------------------------------------------------------- the NOTIFICATION goes out before the close *)

Theorem classified_error_notified : forall c s m code sub,
  inv s -> listens s = true -> wr_ok s = true ->
  frame_of m = FrFrame ->
  decode m = DErr (Some (code, sub)) ->
  exists post,
    snd (step c s (EMsg m)) = SentNotification code sub :: post /\
    In Closed post /\
    s_st (fst (step c s (EMsg m))) = Idle /\ s_conn (fst (step c s (EMsg m))) = ConnClosed /\
    s_att (fst (step c s (EMsg m))) = false.
Proof.
  intros c [st att cn ng rt up im] m code sub [Hatt Hconn] Hl Hw Hf Hd. cbn in Hatt, Hconn.
  destruct st; try discriminate; prep_state att cn Hatt Hconn.
  all: destruct b; try discriminate.
  all: unfold step; cbv beta iota zeta delta [s_st s_conn listens andb]; rewrite Hf;
       cbv beta iota zeta delta [handle s_st]; rewrite Hd; rdx; eexists; repeat split; cbn; tauto.
Qed.

Theorem malformed_notified : forall c s m,
  inv s -> listens s = true -> wr_ok s = true ->
  frame_of m = FrFrame -> classified m = true -> malformed m ->
  exists code sub post,
    owes m (code, sub) /\
    snd (step c s (EMsg m)) = SentNotification code sub :: post /\
    In Closed post /\
    s_st (fst (step c s (EMsg m))) = Idle /\ s_conn (fst (step c s (EMsg m))) = ConnClosed.
Proof.
  intros c s m Hi Hl Hw Hf Hc Hm.
  destruct (malformed_classified m Hc Hm) as [[code sub] Hd].
  destruct (classified_error_notified c s m code sub Hi Hl Hw Hf Hd) as (post & A & B & C & D & _).
  exists code, sub, post. repeat split; try assumption. apply decode_owes. exact Hd.
Qed.

(* The full statement ("every malformed message is answered") fails for bodies the decoder rejects
   without a BGPError: an established session receiving such an UPDATE closes without NOTIFICATION. *)
Definition wit_cfg : cfg :=
  {| c_las := 65001; c_pas := 65002; c_rid := 10; c_hold := 90; c_v4 := true; c_v6 := false;
     c_apr4 := false; c_aps4 := false; c_apr6 := false; c_aps6 := false; c_mp4 := false; c_nx4 := false;
     c_role := 0; c_strict := false; c_rr := false; c_cluster := 0; c_imp := ImpAccept; c_passive := false |}.
Definition wit_open : open_msg := {| o_ver := 4; o_asn := 65002; o_hold := 90; o_id := 7; o_caps := [CapASN4 65002] |}.
Definition wit_sess : sess := final wit_cfg [EAdmin 1; ETcpUp false; EMsg (MOpen wit_open); EMsg MKeepalive].

Theorem undecodable_body_not_notified :
  exists c s m,
    inv s /\ listens s = true /\ wr_ok s = true /\ frame_of m = FrFrame /\ malformed m /\
    forall code sub, ~ In (SentNotification code sub) (snd (step c s (EMsg m))).
Proof.
  exists wit_cfg, wit_sess, MBadBody.
  split; [apply (final_inv wit_cfg)|].
  split; [reflexivity|]. split; [reflexivity|]. split; [reflexivity|].
  split; [exists (3, 0); apply ow_body; right; reflexivity|].
  intros code sub H. vm_compute in H. destruct H as [H|[H|H]]; try discriminate; contradiction.
Qed.

(* ---------------------------------------------------------------- other sessions *)

Theorem other_sessions_untouched : forall y i e j,
  i <> j ->
  nth_sess (y_sess (fst (sys_step y i e))) j = nth_sess (y_sess y) j /\
  rib_of (fst (sys_step y i e)) (N.of_nat j) = rib_of y (N.of_nat j) /\
  adjin_of (fst (sys_step y i e)) (N.of_nat j) = adjin_of y (N.of_nat j).
Proof.
  intros y i e j Hij. unfold sys_step.
  destruct (nth_sess (y_sess y) i) as [[c s]|] eqn:Hn; [|repeat split; reflexivity].
  destruct (step c s e) as [s' os]. cbn [fst].
  destruct (apply_outs_other c (N.of_nat i) os (s_att s) (s_imp s) y (N.of_nat j) (of_nat_neq _ _ Hij)) as [A B].
  unfold rib_of, adjin_of in *. cbn [y_sess y_rib y_adjin].
  rewrite apply_outs_sess. split; [apply nth_set_other; exact Hij | split; assumption].
Qed.
