(* Proofs for C22: the capability loop of handleOpenMessage computes exactly the negotiated options of
   Spec/OpenSpec.v, and an OPEN is admitted iff it is valid. *)
From Coq Require Import List NArith Bool Lia.
Import ListNotations.
From BioVerif Require Import Model.FSM Spec.RFC4271FSM Spec.OpenSpec Proofs.FSMProofs.
Local Open Scope N_scope.

(* ---------------------------------------------------------------- generic fold facts *)

Lemma fold_flag : forall (c : cfg) (P : capst -> bool) (g : cap -> bool),
  (forall k x, P (process_cap c k x) = P k || g x) ->
  forall l k, P (fold_left (process_cap c) l k) = P k || existsb g l.
Proof.
  intros c P g H l. induction l as [|x l IH]; intro k; cbn [fold_left existsb].
  - rewrite orb_false_r. reflexivity.
  - rewrite IH, H, orb_assoc. reflexivity.
Qed.

Lemma fold_keep : forall (c : cfg) (A : Type) (P : capst -> A),
  (forall k x, P (process_cap c k x) = P k) ->
  forall l k, P (fold_left (process_cap c) l k) = P k.
Proof.
  intros c A P H l. induction l as [|x l IH]; intro k; cbn [fold_left]; [reflexivity | rewrite IH; apply H].
Qed.

Lemma existsb_and_const : forall (A : bool) (h : cap -> bool) (l : list cap),
  existsb (fun x => A && h x) l = A && existsb h l.
Proof.
  intros A h l. induction l as [|x l IH]; cbn; [rewrite andb_false_r; reflexivity|].
  rewrite IH. destruct A; reflexivity.
Qed.

Lemma existsb_ext' : forall (f g : cap -> bool) l, (forall x, f x = g x) -> existsb f l = existsb g l.
Proof. intros f g l H. induction l as [|x l IH]; cbn; [reflexivity | rewrite H, IH; reflexivity]. Qed.

Definition K0 (c : cfg) (o : open_msg) : capst := {| k_neg := neg_start c o; k_asn := o_asn o; k_multi := false |}.

Ltac bools :=
  repeat match goal with
  | |- context [N.eqb ?a ?b] => destruct (N.eqb a b) eqn:?
  | |- context [if ?b then _ else _] => destruct b eqn:?
  end.

(* ---------------------------------------------------------------- hold time and timer are not touched by capabilities *)

Lemma caps_keep_hold : forall c o,
  n_hold (k_neg (process_caps c o)) = N.min (c_hold c) (o_hold o) /\
  n_katimer (k_neg (process_caps c o)) = negb (N.min (c_hold c) (o_hold o) =? 0).
Proof.
  intros c o. unfold process_caps.
  split.
  - rewrite (fold_keep c N (fun k => n_hold (k_neg k))); [reflexivity|].
    intros k x. destruct x; cbn; unfold set_rx, set_tx, set_mp; bools; reflexivity.
  - rewrite (fold_keep c bool (fun k => n_katimer (k_neg k))); [reflexivity|].
    intros k x. destruct x; cbn; unfold set_rx, set_tx, set_mp; bools; reflexivity.
Qed.

(* ---------------------------------------------------------------- the flags *)

Definition g_asn4 (x : cap) : bool := match x with CapASN4 _ => true | _ => false end.

Lemma caps_asn4 : forall c o, n_asn4 (k_neg (process_caps c o)) = adv_asn4 (o_caps o).
Proof.
  intros c o. unfold process_caps, adv_asn4.
  rewrite (fold_flag c (fun k => n_asn4 (k_neg k)) g_asn4).
  - reflexivity.
  - intros k x. destruct x; cbn; unfold set_rx, set_tx, set_mp; bools; cbn;
      rewrite ?orb_false_r, ?orb_true_r; reflexivity.
Qed.

Definition g_rx (c : cfg) (f : N) (x : cap) : bool :=
  match x with
  | CapAddPath afi safi sr => (afi =? f) && (safi =? 1) && fam_cfg c afi && ((sr =? 2) || (sr =? 3)) && cfg_recv c afi
  | _ => false
  end.
Definition g_tx (c : cfg) (f : N) (x : cap) : bool :=
  match x with
  | CapAddPath afi safi sr => (afi =? f) && (safi =? 1) && fam_cfg c afi && ((sr =? 1) || (sr =? 3)) && cfg_send c afi
  | _ => false
  end.
Definition g_mp (c : cfg) (f : N) (x : cap) : bool :=
  match x with
  | CapMP afi safi => (afi =? f) && (safi =? 1) && fam_cfg c afi && negb ((afi =? 1) && negb (mp4_flag c))
  | _ => false
  end.

Ltac eqbs :=
  repeat match goal with
  | |- context [N.eqb ?a ?b] => destruct (N.eqb a b) eqn:?
  end.
Ltac flag_step :=
  let k := fresh "k" in let x := fresh "x" in
  intros k x; destruct x; cbn; unfold set_rx, set_tx, set_mp, fam_cfg, cfg_recv, cfg_send, mp4_flag; eqbs; cbn;
  repeat match goal with H : (_ =? _) = true |- _ => apply N.eqb_eq in H; subst end;
  cbn in *; try discriminate; try reflexivity;
  try (match goal with c : cfg |- _ => destruct (role_enabled c) end; cbn; rewrite ?orb_false_r; reflexivity);
  match goal with c : cfg |- _ =>
    destruct (c_v4 c), (c_v6 c), (c_apr4 c), (c_aps4 c), (c_apr6 c), (c_aps6 c), (c_mp4 c), (c_nx4 c)
  end; cbn; rewrite ?orb_false_r, ?orb_true_r; try reflexivity.

Lemma caps_rx4 : forall c o, n_rx4 (k_neg (process_caps c o)) = existsb (g_rx c 1) (o_caps o).
Proof. intros c o. unfold process_caps. rewrite (fold_flag c (fun k => n_rx4 (k_neg k)) (g_rx c 1)); [reflexivity|]. flag_step. Qed.
Lemma caps_tx4 : forall c o, n_tx4 (k_neg (process_caps c o)) = existsb (g_tx c 1) (o_caps o).
Proof. intros c o. unfold process_caps. rewrite (fold_flag c (fun k => n_tx4 (k_neg k)) (g_tx c 1)); [reflexivity|]. flag_step. Qed.
Lemma caps_mp4 : forall c o, n_mp4 (k_neg (process_caps c o)) = existsb (g_mp c 1) (o_caps o).
Proof. intros c o. unfold process_caps. rewrite (fold_flag c (fun k => n_mp4 (k_neg k)) (g_mp c 1)); [reflexivity|]. flag_step. Qed.
Lemma caps_rx6 : forall c o, n_rx6 (k_neg (process_caps c o)) = existsb (g_rx c 2) (o_caps o).
Proof. intros c o. unfold process_caps. rewrite (fold_flag c (fun k => n_rx6 (k_neg k)) (g_rx c 2)); [reflexivity|]. flag_step. Qed.
Lemma caps_tx6 : forall c o, n_tx6 (k_neg (process_caps c o)) = existsb (g_tx c 2) (o_caps o).
Proof. intros c o. unfold process_caps. rewrite (fold_flag c (fun k => n_tx6 (k_neg k)) (g_tx c 2)); [reflexivity|]. flag_step. Qed.
Lemma caps_mp6 : forall c o, n_mp6 (k_neg (process_caps c o)) = existsb (g_mp c 2) (o_caps o).
Proof. intros c o. unfold process_caps. rewrite (fold_flag c (fun k => n_mp6 (k_neg k)) (g_mp c 2)); [reflexivity|]. flag_step. Qed.

(* ---------------------------------------------------------------- "both sides advertised it" *)

Lemma existsb_app' : forall (f : cap -> bool) l1 l2, existsb f (l1 ++ l2) = existsb f l1 || existsb f l2.
Proof. intros. apply existsb_app. Qed.

Ltac ours :=
  let c := fresh "c" in
  intro c; unfold sent_open, add_path_cap; cbn [o_caps];
  repeat rewrite existsb_app';
  destruct (c_v4 c), (c_v6 c), (c_apr4 c), (c_aps4 c), (c_apr6 c), (c_aps6 c), (c_mp4 c), (c_nx4 c);
  destruct (ebgp c && role_enabled c); cbn; reflexivity.

Lemma ours_asn4 : forall c, adv_asn4 (o_caps (sent_open c)) = true.
Proof. unfold adv_asn4. ours. Qed.
Lemma ours_rx4 : forall c, adv_ap_recv (o_caps (sent_open c)) 1 = c_v4 c && c_apr4 c.
Proof. unfold adv_ap_recv. ours. Qed.
Lemma ours_tx4 : forall c, adv_ap_send (o_caps (sent_open c)) 1 = c_v4 c && c_aps4 c.
Proof. unfold adv_ap_send. ours. Qed.
Lemma ours_rx6 : forall c, adv_ap_recv (o_caps (sent_open c)) 2 = c_v6 c && c_apr6 c.
Proof. unfold adv_ap_recv. ours. Qed.
Lemma ours_tx6 : forall c, adv_ap_send (o_caps (sent_open c)) 2 = c_v6 c && c_aps6 c.
Proof. unfold adv_ap_send. ours. Qed.
Lemma ours_mp4 : forall c, adv_mp (o_caps (sent_open c)) 1 = c_v4 c && (c_nx4 c || c_mp4 c).
Proof. unfold adv_mp. ours. Qed.
Lemma ours_mp6 : forall c, adv_mp (o_caps (sent_open c)) 2 = c_v6 c.
Proof. unfold adv_mp. ours. Qed.

Ltac theirs A h :=
  rewrite <- (existsb_and_const A h); apply existsb_ext';
  let x := fresh "x" in intro x; destruct x; cbn; unfold fam_cfg, cfg_recv, cfg_send, mp4_flag; try reflexivity;
  eqbs; cbn; repeat match goal with H : (_ =? _) = true |- _ => apply N.eqb_eq in H; subst end;
  cbn in *; try discriminate;
  match goal with c : cfg |- _ =>
    destruct (c_v4 c), (c_v6 c), (c_apr4 c), (c_aps4 c), (c_apr6 c), (c_aps6 c), (c_mp4 c), (c_nx4 c)
  end; reflexivity.

Lemma g_rx4_spec : forall c l, existsb (g_rx c 1) l = (c_v4 c && c_apr4 c) && adv_ap_send l 1.
Proof. intros c l. unfold adv_ap_send.
  theirs (c_v4 c && c_apr4 c) (fun x => match x with CapAddPath a s sr => (a =? 1) && (s =? 1) && ((sr =? 2) || (sr =? 3)) | _ => false end). Qed.
Lemma g_tx4_spec : forall c l, existsb (g_tx c 1) l = (c_v4 c && c_aps4 c) && adv_ap_recv l 1.
Proof. intros c l. unfold adv_ap_recv.
  theirs (c_v4 c && c_aps4 c) (fun x => match x with CapAddPath a s sr => (a =? 1) && (s =? 1) && ((sr =? 1) || (sr =? 3)) | _ => false end). Qed.
Lemma g_rx6_spec : forall c l, existsb (g_rx c 2) l = (c_v6 c && c_apr6 c) && adv_ap_send l 2.
Proof. intros c l. unfold adv_ap_send.
  theirs (c_v6 c && c_apr6 c) (fun x => match x with CapAddPath a s sr => (a =? 2) && (s =? 1) && ((sr =? 2) || (sr =? 3)) | _ => false end). Qed.
Lemma g_tx6_spec : forall c l, existsb (g_tx c 2) l = (c_v6 c && c_aps6 c) && adv_ap_recv l 2.
Proof. intros c l. unfold adv_ap_recv.
  theirs (c_v6 c && c_aps6 c) (fun x => match x with CapAddPath a s sr => (a =? 2) && (s =? 1) && ((sr =? 1) || (sr =? 3)) | _ => false end). Qed.
Lemma g_mp4_spec : forall c l, existsb (g_mp c 1) l = (c_v4 c && (c_nx4 c || c_mp4 c)) && adv_mp l 1.
Proof. intros c l. unfold adv_mp.
  theirs (c_v4 c && (c_nx4 c || c_mp4 c)) (fun x => match x with CapMP a s => (a =? 1) && (s =? 1) | _ => false end). Qed.
Lemma g_mp6_spec : forall c l, existsb (g_mp c 2) l = c_v6 c && adv_mp l 2.
Proof. intros c l. unfold adv_mp.
  theirs (c_v6 c) (fun x => match x with CapMP a s => (a =? 2) && (s =? 1) | _ => false end). Qed.

Theorem caps_negotiated : forall c o, negotiated_ok c o (k_neg (process_caps c o)).
Proof.
  intros c o. destruct (caps_keep_hold c o) as [Hh Ht].
  constructor.
  - exact Hh.
  - rewrite caps_asn4, ours_asn4. reflexivity.
  - rewrite caps_rx4, g_rx4_spec, ours_rx4. reflexivity.
  - rewrite caps_tx4, g_tx4_spec, ours_tx4. reflexivity.
  - rewrite caps_rx6, g_rx6_spec, ours_rx6. reflexivity.
  - rewrite caps_tx6, g_tx6_spec, ours_tx6. reflexivity.
  - rewrite caps_mp4, g_mp4_spec, ours_mp4. reflexivity.
  - rewrite caps_mp6, g_mp6_spec, ours_mp6. reflexivity.
  - rewrite Ht, Hh. reflexivity.
Qed.

