(* C15 text proofs, part 1: finite-domain facts (all 65536 hextets, all 256 octets, all 256
   zero-flag patterns, checked by computation and lifted with forallb_forall) and the
   byte decomposition / recomposition of the address words. *)
From Coq Require Import ZArith Lia Bool List.
From BioVerif Require Import Lib.Word Lib.WordLemmas Model.NetArith Model.IPText.
Import ListNotations.
Open Scope Z_scope.

(* ---------- ranges ---------- *)

Fixpoint zrange_from (fuel : nat) (start : Z) : list Z :=
  match fuel with O => [] | S f => start :: zrange_from f (start + 1) end.
Definition zrange (n : Z) : list Z := zrange_from (Z.to_nat n) 0.

Lemma in_zrange_from fuel start z :
  start <= z < start + Z.of_nat fuel -> In z (zrange_from fuel start).
Proof.
  revert start. induction fuel as [|f IH]; intros start H; [lia|].
  cbn [zrange_from]. destruct (Z.eq_dec z start) as [->|Hne]; [left; reflexivity|].
  right. apply IH. lia.
Qed.

Lemma in_zrange n z : 0 <= z < n -> In z (zrange n).
Proof. intros H. apply in_zrange_from. lia. Qed.

Lemma forall_zrange (f : Z -> bool) n :
  forallb f (zrange n) = true -> forall z, 0 <= z < n -> f z = true.
Proof. intros H z Hz. rewrite forallb_forall in H. apply H, in_zrange, Hz. Qed.

(* ---------- hextet text ---------- *)

Definition is_hex (c : Z) : bool := match hexval c with Some _ => true | None => false end.

Definition hexgroup_ok (g : Z) : bool :=
  let s := appendHex g in
  forallb is_hex s &&
  match read_hex s 0 0 with
  | Some (a, o, []) => (a =? g) && (0 <? o)
  | _ => false
  end.

Lemma hexgroup_all : forallb hexgroup_ok (zrange 65536) = true.
Proof. vm_compute. reflexivity. Qed.

Lemma read_hex_app ds rest off acc :
  forallb is_hex ds = true ->
  match rest with [] => True | c :: _ => hexval c = None end ->
  read_hex (ds ++ rest) off acc =
  match read_hex ds off acc with Some (a, o, _) => Some (a, o, rest) | None => None end.
Proof.
  revert off acc. induction ds as [|c ds IH]; intros off acc Hh Hr.
  - cbn [app read_hex]. destruct rest as [|c r]; [reflexivity|]. cbn [read_hex]. rewrite Hr. reflexivity.
  - cbn [forallb] in Hh. apply andb_true_iff in Hh. destruct Hh as [Hc Hh].
    cbn [app read_hex]. unfold is_hex in Hc. destruct (hexval c) as [d|]; [|discriminate].
    destruct (3 <? off); [reflexivity|].
    destruct (65535 <? wadd 32 (wshl 32 acc 4) d); [reflexivity|].
    apply IH; assumption.
Qed.

(* reading back a printed hextet, whatever non-hex text follows *)
Lemma read_hex_group g rest :
  0 <= g < 65536 ->
  match rest with [] => True | c :: _ => hexval c = None end ->
  exists o, read_hex (appendHex g ++ rest) 0 0 = Some (g, o, rest) /\ (o =? 0) = false.
Proof.
  intros Hg Hr. pose proof (forall_zrange _ _ hexgroup_all g Hg) as H.
  unfold hexgroup_ok in H. apply andb_true_iff in H. destruct H as [H1 H2].
  rewrite read_hex_app by assumption.
  destruct (read_hex (appendHex g) 0 0) as [[[a o] r]|]; [|discriminate].
  destruct r; [|discriminate]. apply andb_true_iff in H2. destruct H2 as [Ha Ho].
  apply Z.eqb_eq in Ha. subst a. exists o. split; [reflexivity|].
  apply Z.ltb_lt in Ho. apply Z.eqb_neq. lia.
Qed.

(* a printed hextet starts with a hex digit *)
Lemma appendHex_head g : 0 <= g < 65536 ->
  exists c r, appendHex g = c :: r /\ is_hex c = true.
Proof.
  intros Hg. pose proof (forall_zrange _ _ hexgroup_all g Hg) as H.
  unfold hexgroup_ok in H. apply andb_true_iff in H. destruct H as [H1 H2].
  destruct (appendHex g) as [|c r] eqn:E.
  - cbn [read_hex] in H2. rewrite andb_false_r in H2. discriminate.
  - exists c, r. split; [reflexivity|]. cbn [forallb] in H1. apply andb_true_iff in H1. tauto.
Qed.

Lemma is_hex_not_sep c : is_hex c = true -> (c =? c_colon) = false /\ (c =? c_dot) = false.
Proof.
  unfold is_hex, hexval, c_colon, c_dot. intros H.
  destruct (Z.eqb_spec c 58) as [->|]; [cbn in H; discriminate|].
  destruct (Z.eqb_spec c 46) as [->|]; [cbn in H; discriminate|]. auto.
Qed.

(* ---------- octet text ---------- *)

(* the digit branch of parse4_loop alone *)
Fixpoint digits_run (s : str) (val digLen : Z) : option (Z * Z) :=
  match s with
  | [] => Some (val, digLen)
  | c :: r =>
    if is_digit c then
      if (digLen =? 1) && (val =? 0) then None
      else let val' := val * 10 + (c - 48) in
           if 255 <? val' then None else digits_run r val' (digLen + 1)
    else None
  end.

Definition last_char (s : str) (d : Z) : Z := last s d.

Lemma last_cons_indep (c : Z) (l : list Z) d d' : last (c :: l) d = last (c :: l) d'.
Proof.
  revert c. induction l as [|x l IH]; intros c; [reflexivity|].
  change (last (x :: l) d = last (x :: l) d'). apply IH.
Qed.

Lemma parse4_digits ds : forall r i len prev val pos digLen fields v' d',
  digits_run ds val digLen = Some (v', d') ->
  parse4_loop (ds ++ r) i len prev val pos digLen fields =
  parse4_loop r (i + Z.of_nat (length ds)) len (last_char ds prev) v' pos d' fields.
Proof.
  induction ds as [|c ds IH]; intros r i len prev val pos digLen fields v' d' H.
  - cbn in H. injection H as -> ->. cbn [app length last_char last]. f_equal. lia.
  - cbn [digits_run] in H. cbn [app parse4_loop].
    destruct (is_digit c); [|discriminate].
    destruct ((digLen =? 1) && (val =? 0)); [discriminate|].
    destruct (255 <? val * 10 + (c - 48)); [discriminate|].
    rewrite (IH _ _ _ _ _ _ _ _ _ _ H). f_equal.
    + cbn [length]. lia.
    + unfold last_char. destruct ds as [|x ds]; [reflexivity|].
      change (last (c :: x :: ds) prev) with (last (x :: ds) prev). apply last_cons_indep.
Qed.

Definition octet_ok (o : Z) : bool :=
  let s := fmt_dec o in
  match digits_run s 0 0 with
  | Some (v, d) => (v =? o) && (d =? Z.of_nat (length s)) && (0 <? d) && negb (last_char s (-1) =? c_dot)
                   && forallb is_digit s
  | None => false
  end.

Lemma octet_all : forallb octet_ok (zrange 256) = true.
Proof. vm_compute. reflexivity. Qed.

Lemma octet_facts o : 0 <= o < 256 ->
  digits_run (fmt_dec o) 0 0 = Some (o, Z.of_nat (length (fmt_dec o))) /\
  (0 < length (fmt_dec o))%nat /\ (last_char (fmt_dec o) (-1) =? c_dot) = false /\
  forallb is_digit (fmt_dec o) = true.
Proof.
  intros Ho. pose proof (forall_zrange _ _ octet_all o Ho) as H. unfold octet_ok in H.
  destruct (digits_run (fmt_dec o) 0 0) as [[v d]|]; [|discriminate].
  repeat (apply andb_true_iff in H; destruct H as [H ?]).
  apply Z.eqb_eq in H. apply Z.eqb_eq in H3. apply Z.ltb_lt in H2. subst.
  apply negb_true_iff in H1.
  repeat split; auto; try lia.
Qed.

(* decimal value of a printed uint8 (prefix length) *)
Definition declen_ok (o : Z) : bool :=
  match dec_value (fmt_dec o) 0 with Some v => v =? o | None => false end
  && forallb (fun c => negb (c =? c_slash)) (fmt_dec o)
  && match fmt_dec o with c :: _ => negb (c =? c_plus) && negb (c =? c_minus) | [] => false end.

Lemma declen_all : forallb declen_ok (zrange 256) = true.
Proof. vm_compute. reflexivity. Qed.

(* ---------- bytes ---------- *)

Definition hx (b1 b0 : Z) : Z := wor (wshl 32 b1 8) b0.     (* (uint32(p[i])<<8)|uint32(p[i+1]) *)

Definition bytepair_ok (v : Z) : bool :=
  let b1 := v / 256 in let b0 := v mod 256 in
  (hx b1 b0 =? v) &&
  (wconv 8 (wshr 32 v 8) =? b1) && (wconv 8 v =? b0) &&
  (wadd 16 (wshl 16 b1 8) b0 =? v).

Lemma bytepair_all : forallb bytepair_ok (zrange 65536) = true.
Proof. vm_compute. reflexivity. Qed.

Lemma bytepair_facts b1 b0 : 0 <= b1 < 256 -> 0 <= b0 < 256 ->
  let v := b1 * 256 + b0 in
  0 <= v < 65536 /\ hx b1 b0 = v /\ wconv 8 (wshr 32 v 8) = b1 /\ wconv 8 v = b0 /\
  wadd 16 (wshl 16 b1 8) b0 = v.
Proof.
  intros H1 H0 v. assert (Hv : 0 <= v < 65536) by (unfold v; lia).
  pose proof (forall_zrange _ _ bytepair_all v Hv) as H. unfold bytepair_ok in H.
  assert (E1 : v / 256 = b1) by (unfold v; rewrite Z.div_add_l by lia; rewrite Z.div_small by lia; lia).
  assert (E0 : v mod 256 = b0) by (unfold v; rewrite Z.add_comm, Z.mod_add by lia; apply Z.mod_small; lia).
  rewrite E1, E0 in H.
  repeat (apply andb_true_iff in H; destruct H as [H ?]).
  repeat split; try lia; apply Z.eqb_eq; assumption.
Qed.

(* x & (0xFF << k) *)
Lemma land_byte_mask x k : 0 <= k -> Z.land x (255 * 2 ^ k) = (x / 2 ^ k) mod 256 * 2 ^ k.
Proof.
  intros Hk. change 255 with (Z.ones 8). change 256 with (2 ^ 8).
  rewrite <- Z.shiftl_mul_pow2, <- Z.shiftr_div_pow2 by lia.
  rewrite <- Z.shiftl_mul_pow2 by lia.
  apply Z.bits_inj'; intros i Hi.
  rewrite Z.land_spec, !Z.shiftl_spec by lia.
  destruct (Z_lt_le_dec i k) as [L | L].
  - rewrite !(Z.testbit_neg_r _ (i - k)) by lia. apply andb_false_r.
  - destruct (Z_lt_le_dec (i - k) 8) as [L2 | L2].
    + rewrite Z.ones_spec_low by lia. rewrite Z.mod_pow2_bits_low by lia.
      rewrite Z.shiftr_spec by lia. rewrite andb_true_r. f_equal. lia.
    + rewrite Z.ones_spec_high by lia. rewrite Z.mod_pow2_bits_high by lia. apply andb_false_r.
Qed.

Lemma byte_at_spec x k : 0 <= k -> 0 <= x < 2 ^ 64 -> byte_at x k = (x / 2 ^ k) mod 256.
Proof.
  intros Hk Hx. unfold byte_at, wand, wconv. rewrite land_byte_mask by lia.
  pose proof (pow2_pos k Hk) as P.
  pose proof (Z.mod_pos_bound (x / 2 ^ k) 256 ltac:(lia)) as B.
  assert (R : 0 <= (x / 2 ^ k) mod 256 * 2 ^ k < 2 ^ 64).
  { split; [nia|].
    assert ((x / 2 ^ k) mod 256 <= x / 2 ^ k) by (apply Z.mod_le; [apply Z.div_pos; lia | lia]).
    pose proof (Z.mul_div_le x (2 ^ k) P). nia. }
  rewrite wshr_spec by lia. rewrite Z.div_mul by lia.
  apply wrap_small. change (2 ^ 8) with 256. lia.
Qed.

Lemma low_byte_spec x : 0 <= x -> wconv 8 (wand x 255) = x mod 256.
Proof.
  intros Hx. unfold wconv, wand. change 255 with (2 ^ 8 - 1). rewrite land_ones_mod by lia.
  apply wrap_small. apply Z.mod_pos_bound. lia.
Qed.

(* a 64-bit word from its eight bytes *)
Lemma word_of_bytes x : 0 <= x < 2 ^ 64 ->
  x = (x / 2 ^ 56) mod 256 * 2 ^ 56 + (x / 2 ^ 48) mod 256 * 2 ^ 48 + (x / 2 ^ 40) mod 256 * 2 ^ 40
      + (x / 2 ^ 32) mod 256 * 2 ^ 32 + (x / 2 ^ 24) mod 256 * 2 ^ 24 + (x / 2 ^ 16) mod 256 * 2 ^ 16
      + (x / 2 ^ 8) mod 256 * 2 ^ 8 + x mod 256.
Proof.
  intros Hx.
  assert (S : forall k, 0 <= k -> x mod 2 ^ (k + 8) = x mod 2 ^ k + 2 ^ k * ((x / 2 ^ k) mod 256)).
  { intros k Hk. rewrite Z.pow_add_r by lia. change (2 ^ 8) with 256.
    apply Z.rem_mul_r; [pose proof (pow2_pos k Hk); lia | lia]. }
  pose proof (S 56 ltac:(lia)) as S7. pose proof (S 48 ltac:(lia)) as S6.
  pose proof (S 40 ltac:(lia)) as S5. pose proof (S 32 ltac:(lia)) as S4.
  pose proof (S 24 ltac:(lia)) as S3. pose proof (S 16 ltac:(lia)) as S2.
  pose proof (S 8 ltac:(lia)) as S1.
  change (56 + 8) with 64 in S7. change (48 + 8) with 56 in S6. change (40 + 8) with 48 in S5.
  change (32 + 8) with 40 in S4. change (24 + 8) with 32 in S3. change (16 + 8) with 24 in S2.
  change (8 + 8) with 16 in S1.
  rewrite (Z.mod_small x (2 ^ 64)) in S7 by lia.
  change (2 ^ 8) with 256 in *. lia.
Qed.

Lemma blocks64_spec a b c d :
  0 <= a < 65536 -> 0 <= b < 65536 -> 0 <= c < 65536 -> 0 <= d < 65536 ->
  blocks64 a b c d = a * 2 ^ 48 + b * 2 ^ 32 + c * 2 ^ 16 + d.
Proof.
  intros Ha Hb Hc Hd. unfold blocks64.
  assert (P48 : 2 ^ 48 = 281474976710656) by reflexivity.
  assert (P32 : 2 ^ 32 = 4294967296) by reflexivity.
  assert (P16 : 2 ^ 16 = 65536) by reflexivity.
  assert (P64 : 2 ^ 64 = 18446744073709551616) by reflexivity.
  assert (Ea : wshl 64 a 48 = a * 2 ^ 48) by (apply wshl_small; rewrite ?P48, ?P64; lia).
  assert (Eb : wshl 64 b 32 = b * 2 ^ 32) by (apply wshl_small; rewrite ?P32, ?P64; lia).
  assert (Ec : wshl 64 c 16 = c * 2 ^ 16) by (apply wshl_small; rewrite ?P16, ?P64; lia).
  rewrite Ea, Eb, Ec. rewrite P48, P32, P16.
  rewrite (wadd_small 64 (a * 281474976710656) (b * 4294967296)) by (rewrite ?P64; lia).
  rewrite (wadd_small 64 _ (c * 65536)) by (rewrite ?P64; lia).
  rewrite (wadd_small 64 _ d) by (rewrite ?P64; lia). reflexivity.
Qed.

(* ---------- zero-flag patterns ---------- *)

Fixpoint all_bools (n : nat) : list (list bool) :=
  match n with
  | O => [[]]
  | S m => flat_map (fun l => [true :: l; false :: l]) (all_bools m)
  end.

Lemma in_all_bools (l : list bool) : In l (all_bools (length l)).
Proof.
  induction l as [|b l IH]; cbn [length all_bools]; [left; reflexivity|].
  apply in_flat_map. exists l. split; [exact IH|]. destruct b; cbn; auto.
Qed.

(* the zero run chosen by stringIPv6: none, or an even-aligned range of at least two all-zero
   fields inside the address *)
Definition zero_run_ok (z : list bool) : bool :=
  match zero_run z with
  | None => false
  | Some (e0, e1) =>
    ((e0 =? -1) && (e1 =? -1)) ||
    ((0 <=? e0) && (e0 + 4 <=? e1) && (e1 <=? 16) && (e0 mod 2 =? 0) && (e1 mod 2 =? 0) &&
     forallb (fun t => nth t z false) (seq (Z.to_nat (e0 / 2)) (Z.to_nat ((e1 - e0) / 2))))
  end.

Lemma zero_run_all : forallb zero_run_ok (all_bools 8) = true.
Proof. vm_compute. reflexivity. Qed.

Lemma zero_run_facts (z : list bool) : length z = 8%nat ->
  exists e0 e1, zero_run z = Some (e0, e1) /\
    ((e0 = -1 /\ e1 = -1) \/
     (exists a b : nat, e0 = 2 * Z.of_nat a /\ e1 = 2 * Z.of_nat b /\ (a + 2 <= b <= 8)%nat /\
        forall t, (a <= t < b)%nat -> nth t z false = true)).
Proof.
  intros HL. pose proof zero_run_all as H. rewrite forallb_forall in H.
  specialize (H z). rewrite <- HL in H. specialize (H (in_all_bools z)).
  unfold zero_run_ok in H. destruct (zero_run z) as [[e0 e1]|]; [|discriminate].
  exists e0, e1. split; [reflexivity|].
  apply orb_true_iff in H. destruct H as [H | H].
  - apply andb_true_iff in H. destruct H as [H1 H2]. apply Z.eqb_eq in H1, H2. left. auto.
  - right. repeat (apply andb_true_iff in H; destruct H as [H ?]).
    apply Z.leb_le in H, H3, H4. apply Z.eqb_eq in H1, H2.
    exists (Z.to_nat (e0 / 2)), (Z.to_nat (e1 / 2)).
    pose proof (Z.div_mod e0 2 ltac:(lia)). pose proof (Z.div_mod e1 2 ltac:(lia)).
    repeat split; try lia.
    intros t Ht. rewrite forallb_forall in H0. apply H0. apply in_seq.
    assert ((e1 - e0) / 2 = e1 / 2 - e0 / 2).
    { replace (e1 - e0) with ((e1 / 2 - e0 / 2) * 2) by lia. apply Z.div_mul. lia. }
    lia.
Qed.
