(* C24 proofs: on serialised schedules the two-FSM model of collision handling refines the atomic
   RFC 4271 6.8 / RFC 6286 reference machine; consequences (at most one Established, survivor = RFC choice,
   loser closed with Cease); witnesses for the two schedule classes in which that fails. *)
From Coq Require Import List NArith Bool Lia.
Import ListNotations.
From BioVerif Require Import Model.Collision Spec.CollisionSpec.

(* ---- the tie-break is the RFC comparison -------------------------------------------------------- *)
Lemma should_cease_is_local_less : forall c id, should_cease_on_collision c id = local_less c id.
Proof.
  intros c id. unfold should_cease_on_collision, local_less.
  destruct (N.eqb (rid c) id) eqn:E.
  - apply N.eqb_eq in E. rewrite E, N.ltb_irrefl. reflexivity.
  - rewrite orb_false_r. reflexivity.
Qed.

(* ---- the reference machine never has two connections up ------------------------------------------ *)
Definition spec_safe (s : spec) : Prop := ~ (up (s0 s) = true /\ up (s1 s) = true).

Lemma spec_step_safe : forall c s l, spec_safe s -> spec_safe (spec_step c s l).
Proof.
  intros c [a b] l H. unfold spec_safe in *.
  destruct l as [| |i id|i|i|j|j]; try destruct i; destruct a, b; cbn in *;
    try exact H; try (intuition discriminate);
    repeat match goal with
           | |- context [if ?x then _ else _] => destruct x
           end; cbn in *; intuition discriminate.
Qed.

Lemma spec_run_safe : forall c ls s, spec_safe s -> spec_safe (spec_run c s ls).
Proof.
  intros c ls. induction ls as [|l ls IH]; intros s H; cbn; [exact H|].
  apply IH. apply spec_step_safe. exact H.
Qed.

Lemma rfc_at_most_one : forall c ls, spec_safe (spec_run c spec_init ls).
Proof. intros. apply spec_run_safe. unfold spec_safe. cbn. intuition discriminate. Qed.

(* ---- shapes: the control states an FSM instance can be in on serialised schedules ----------------- *)
Inductive shape :=
| ShAbsent | ShConnect
| ShSent | ShSentWait | ShSentPendOC | ShSentPendIdle | ShSentDead
| ShOC | ShOCPendE | ShOCCeasing | ShOCDead
| ShE | ShEPendE | ShIdle.

Definition ctl (f : inst) : fstate * option fstate * bool * bool * bool * bool :=
  (pub f, pend f, alive f, attached f, waiting f, ceasing f).

Definition shape_ctl (sh : shape) : fstate * option fstate * bool * bool * bool * bool :=
  match sh with
  | ShAbsent => (Absent, None, false, false, false, false)
  | ShConnect => (Connect, None, true, false, false, false)
  | ShSent => (OpenSent, None, true, false, false, false)
  | ShSentWait => (OpenSent, None, true, false, true, false)
  | ShSentPendOC => (OpenSent, Some OpenConfirm, true, false, false, false)
  | ShSentPendIdle => (OpenSent, Some Idle, true, false, false, false)
  | ShSentDead => (OpenSent, None, false, false, false, false)
  | ShOC => (OpenConfirm, None, true, false, false, false)
  | ShOCPendE => (OpenConfirm, Some Established, true, false, false, false)
  | ShOCCeasing => (OpenConfirm, None, true, false, false, true)
  | ShOCDead => (OpenConfirm, None, false, false, false, false)
  | ShE => (Established, None, true, true, false, false)
  | ShEPendE => (Established, Some Established, true, true, false, false)
  | ShIdle => (Idle, None, true, false, false, false)
  end.

Definition is_dead_shape (sh : shape) : bool := match sh with ShSentDead | ShOCDead => true | _ => false end.
Definition is_wait_shape (sh : shape) : bool := match sh with ShSentWait => true | _ => false end.
Definition is_oc_shape (sh : shape) : bool := match sh with ShOC => true | _ => false end.
Definition lost_shape (sh : shape) : bool := match sh with ShOCCeasing | ShOCDead => true | _ => false end.
(* the FSM has finished its own collision check and was not ceased *)
Definition past_check (sh : shape) : bool :=
  match sh with ShSentPendOC | ShOC | ShOCPendE | ShE | ShEPendE => true | _ => false end.

Definition has_shape (f : inst) (sh : shape) : Prop :=
  ctl f = shape_ctl sh /\
  (is_dead_shape sh = true -> closed f = true /\ hd_error (wire f) = Some cease_notification).

(* abs_inst on shapes *)
Definition sabs (sh : shape) (cease_in_flight : bool) : sstate :=
  match sh with
  | ShAbsent => SNone
  | ShSentDead | ShOCDead | ShOCCeasing => SClosedCease
  | _ =>
    if cease_in_flight then SClosedCease else
    match sh with
    | ShConnect => SNone
    | ShSent => SOpenSent
    | ShSentWait | ShSentPendOC | ShOC => SOpenConfirm
    | ShSentPendIdle | ShIdle => SRejected
    | _ => SEstablished
    end
  end.

Definition compat (a b : shape) : bool :=
  (negb (is_wait_shape a) || is_oc_shape b) && (negb (is_wait_shape b) || is_oc_shape a) &&
  (negb (lost_shape a) || past_check b) && (negb (lost_shape b) || past_check a) &&
  negb (up (sabs a (is_wait_shape b)) && up (sabs b (is_wait_shape a))).

Definition Inv (p : peer) : Prop :=
  exists a b, has_shape (f0 p) a /\ has_shape (f1 p) b /\ compat a b = true.

Lemma abs_of_shapes : forall p a b,
  has_shape (f0 p) a -> has_shape (f1 p) b ->
  abs p = mkspec (sabs a (is_wait_shape b)) (sabs b (is_wait_shape a)).
Proof.
  intros [c [pu0 pe0 al0 ni0 at0 wi0 cl0 wa0 ce0] [pu1 pe1 al1 ni1 at1 wi1 cl1 wa1 ce1]] a b [Ha _] [Hb _].
  unfold ctl in Ha, Hb. cbn in Ha, Hb.
  destruct a; injection Ha as -> -> -> -> -> ->; destruct b; injection Hb as -> -> -> -> -> ->; reflexivity.
Qed.

Lemma init_inv : forall c, Inv (init c).
Proof.
  intro c. exists ShConnect, ShAbsent. repeat split; try reflexivity; cbn; discriminate.
Qed.

Lemma step_pc : forall p l p', step p l = Some p' -> pc p' = pc p.
Proof.
  intros [c f g] l p' H.
  destruct l as [| |i id|i|i|j|j]; cbn in H.
  - destruct (ready f && is_connect (pub f)); inversion H; reflexivity.
  - destruct (is_absent (pub g)); inversion H; reflexivity.
  - destruct i; cbn in H.
    + destruct (ready g && is_open_sent (pub g)); [|discriminate].
      destruct (N.eqb (las c) (pas c) && N.eqb (rid c) id); inversion H; reflexivity.
    + destruct (ready f && is_open_sent (pub f)); [|discriminate].
      destruct (N.eqb (las c) (pas c) && N.eqb (rid c) id); inversion H; reflexivity.
  - destruct i; cbn in H.
    + destruct (pend g); [|discriminate]. destruct (alive g); inversion H; reflexivity.
    + destruct (pend f); [|discriminate]. destruct (alive f); inversion H; reflexivity.
  - destruct i; cbn in H.
    + destruct (ready g && (is_open_confirm (pub g) || is_established (pub g))); inversion H; reflexivity.
    + destruct (ready f && (is_open_confirm (pub f) || is_established (pub f))); inversion H; reflexivity.
  - destruct j; cbn in H.
    + destruct (waiting f && ready g && (is_open_sent (pub g) || is_open_confirm (pub g) || is_established (pub g)));
        inversion H; reflexivity.
    + destruct (waiting g && ready f && (is_open_sent (pub f) || is_open_confirm (pub f) || is_established (pub f)));
        inversion H; reflexivity.
  - destruct j; cbn in H.
    + destruct (alive g && ceasing g); inversion H; reflexivity.
    + destruct (alive f && ceasing f); inversion H; reflexivity.
Qed.

Definition shape_of (f : inst) : shape :=
  match pub f with
  | Connect => ShConnect
  | OpenSent =>
    match pend f with
    | Some OpenConfirm => ShSentPendOC
    | Some _ => ShSentPendIdle
    | None => if alive f then (if waiting f then ShSentWait else ShSent) else ShSentDead
    end
  | OpenConfirm =>
    match pend f with
    | Some _ => ShOCPendE
    | None => if alive f then (if ceasing f then ShOCCeasing else ShOC) else ShOCDead
    end
  | Established => match pend f with Some _ => ShEPendE | None => ShE end
  | Idle => ShIdle
  | _ => ShAbsent
  end.

(* every case of the preservation proof ends the same way: name the two new shapes by computation *)
Ltac data_ok := cbn; first [ discriminate | intros _; split; first [ assumption | reflexivity ] ].
Ltac close_inv :=
  match goal with |- Inv ?p => exists (shape_of (f0 p)), (shape_of (f1 p)) end;
  split; [ split; [ reflexivity | data_ok ] | split; [ split; [ reflexivity | data_ok ] | reflexivity ] ].

Lemma step_inv : forall p l p',
  Inv p -> guard_ok p l = true -> step p l = Some p' ->
  Inv p' /\ abs p' = spec_step (pc p) (abs p) l.
Proof.
  intros p l p' [a [b [Ha [Hb Hc]]]] Hg Hs.
  rewrite (abs_of_shapes p a b Ha Hb).
  destruct p as [c [pu0 pe0 al0 ni0 at0 wi0 cl0 wa0 ce0] [pu1 pe1 al1 ni1 at1 wi1 cl1 wa1 ce1]].
  destruct Ha as [Ha Hda], Hb as [Hb Hdb]. unfold ctl in Ha, Hb. cbn in Ha, Hb, Hda, Hdb.
  unfold guard_ok, window_ok, cease_first_ok, held in Hg.
  destruct a; injection Ha as -> -> -> -> -> ->; destruct b; injection Hb as -> -> -> -> -> ->;
    try discriminate Hc;
    try (destruct (Hda eq_refl) as [? ?]); try (destruct (Hdb eq_refl) as [? ?]); clear Hda Hdb;
    destruct l as [| |i id|i|i|j|j]; try destruct i; try destruct j;
    cbn in Hs, Hg; try discriminate Hs; try discriminate Hg;
    try rewrite should_cease_is_local_less in Hs;
    repeat match type of Hs with
           | context [if ?x then _ else _] => destruct x eqn:?
           end;
    try discriminate Hs;
    injection Hs as <-;
    (split;
     [ close_inv
     | cbn; repeat match goal with H : _ = _ |- _ => rewrite H end; reflexivity ]).
Qed.

(* ---- refinement along serialised schedules -------------------------------------------------------- *)
Lemma run_refines : forall ls p p',
  Inv p -> serialised p ls = true -> run p ls = Some p' ->
  Inv p' /\ pc p' = pc p /\ abs p' = spec_run (pc p) (abs p) ls.
Proof.
  induction ls as [|l ls IH]; intros p p' Hi Hg Hr.
  - cbn in Hr. injection Hr as <-. auto.
  - unfold serialised in Hg. cbn [along run] in Hg, Hr.
    destruct (step p l) as [p1|] eqn:Hs; [|discriminate].
    apply andb_prop in Hg. destruct Hg as [Hg1 Hg2]. cbn [spec_run].
    destruct (step_inv p l p1 Hi Hg1 Hs) as [Hi1 Ha1].
    destruct (IH p1 p' Hi1 Hg2 Hr) as [Hi' [Hc' Ha']].
    rewrite (step_pc _ _ _ Hs) in Hc', Ha'. rewrite Ha1 in Ha'. auto.
Qed.

Lemma abs_init : forall c, abs (init c) = spec_init.
Proof. reflexivity. Qed.

Theorem refines_rfc : forall c ls p,
  run (init c) ls = Some p -> serialised (init c) ls = true ->
  abs p = spec_run c spec_init ls.
Proof.
  intros c ls p Hr Hg.
  destruct (run_refines ls (init c) p (init_inv c) Hg Hr) as [_ [_ H]].
  rewrite abs_init in H. exact H.
Qed.

Lemma reach_inv : forall c ls p,
  run (init c) ls = Some p -> serialised (init c) ls = true -> Inv p.
Proof. intros c ls p Hr Hg. exact (proj1 (run_refines ls (init c) p (init_inv c) Hg Hr)). Qed.

(* ---- consequences of the invariant -------------------------------------------------------------- *)
Lemma inv_est_abs : forall p i, Inv p -> est (get p i) = true -> sget (abs p) i = SEstablished.
Proof.
  intros p i [a [b [Ha [Hb Hc]]]] He.
  rewrite (abs_of_shapes p a b Ha Hb).
  destruct p as [c [pu0 pe0 al0 ni0 at0 wi0 cl0 wa0 ce0] [pu1 pe1 al1 ni1 at1 wi1 cl1 wa1 ce1]].
  destruct Ha as [Ha _], Hb as [Hb _]. unfold ctl in Ha, Hb. cbn in Ha, Hb.
  destruct a; injection Ha as -> -> -> -> -> ->; destruct b; injection Hb as -> -> -> -> -> ->;
    try discriminate Hc; destruct i; cbn in He; try discriminate He; reflexivity.
Qed.

Lemma inv_at_most_one : forall p, Inv p -> ~ (est (f0 p) = true /\ est (f1 p) = true).
Proof.
  intros p Hi [H0 H1].
  pose proof (inv_est_abs p false Hi H0) as A0. pose proof (inv_est_abs p true Hi H1) as A1.
  destruct Hi as [a [b [Ha [Hb Hc]]]].
  rewrite (abs_of_shapes p a b Ha Hb) in A0, A1. cbn in A0, A1.
  unfold compat in Hc. rewrite A0, A1 in Hc. cbn in Hc.
  repeat rewrite andb_false_r in Hc. discriminate.
Qed.

(* the connection the reference machine closed: unless the Cease event is still in flight or being handled,
   it has sent a Cease NOTIFICATION as its last message, its connection is closed, its FSM has ended and it
   contributes nothing *)
Lemma inv_loser : forall p i, Inv p ->
  sget (abs p) i = SClosedCease -> held p i = false -> ceasing (get p i) = false ->
  alive (get p i) = false /\ closed (get p i) = true /\
  hd_error (wire (get p i)) = Some cease_notification /\ est (get p i) = false.
Proof.
  intros p i [a [b [Ha [Hb Hc]]]] Hs Hh Hz.
  rewrite (abs_of_shapes p a b Ha Hb) in Hs.
  destruct p as [c [pu0 pe0 al0 ni0 at0 wi0 cl0 wa0 ce0] [pu1 pe1 al1 ni1 at1 wi1 cl1 wa1 ce1]].
  destruct Ha as [Ha Hda], Hb as [Hb Hdb]. unfold ctl in Ha, Hb. cbn in Ha, Hb, Hda, Hdb. unfold held in Hh.
  destruct a; injection Ha as -> -> -> -> -> ->; destruct b; injection Hb as -> -> -> -> -> ->;
    try discriminate Hc; destruct i; cbn in Hs, Hh, Hz |- *; try discriminate;
    try (destruct (Hda eq_refl) as [? ?]); try (destruct (Hdb eq_refl) as [? ?]); auto.
Qed.

(* and while it is still in flight / being handled, the step that finishes it is enabled *)
Lemma inv_loser_progress : forall p i, Inv p ->
  (held p i = true -> step p (LTake i) <> None) /\
  (ceasing (get p i) = true -> step p (LHandle i) <> None).
Proof.
  intros p i [a [b [Ha [Hb Hc]]]].
  destruct p as [c [pu0 pe0 al0 ni0 at0 wi0 cl0 wa0 ce0] [pu1 pe1 al1 ni1 at1 wi1 cl1 wa1 ce1]].
  destruct Ha as [Ha _], Hb as [Hb _]. unfold ctl in Ha, Hb. cbn in Ha, Hb. unfold held.
  destruct a; injection Ha as -> -> -> -> -> ->; destruct b; injection Hb as -> -> -> -> -> ->;
    try discriminate Hc; destruct i; cbn; split; intro H; try discriminate H; discriminate.
Qed.

(* ---- the theorems of Properties/C24.v ------------------------------------------------------------ *)
Theorem at_most_one_partial : forall c ls p,
  run (init c) ls = Some p -> serialised (init c) ls = true ->
  ~ (est (f0 p) = true /\ est (f1 p) = true).
Proof. intros c ls p Hr Hg. apply inv_at_most_one. exact (reach_inv c ls p Hr Hg). Qed.

Theorem survivor_is_rfc_choice_partial : forall c ls p i,
  run (init c) ls = Some p -> serialised (init c) ls = true ->
  est (get p i) = true -> sget (spec_run c spec_init ls) i = SEstablished.
Proof.
  intros c ls p i Hr Hg He. rewrite <- (refines_rfc c ls p Hr Hg).
  apply inv_est_abs; [exact (reach_inv c ls p Hr Hg) | exact He].
Qed.

Theorem loser_sent_cease_partial : forall c ls p i,
  run (init c) ls = Some p -> serialised (init c) ls = true ->
  sget (spec_run c spec_init ls) i = SClosedCease ->
  (held p i = false -> ceasing (get p i) = false ->
   alive (get p i) = false /\ closed (get p i) = true /\
   hd_error (wire (get p i)) = Some cease_notification /\ est (get p i) = false) /\
  (held p i = true -> step p (LTake i) <> None) /\
  (ceasing (get p i) = true -> step p (LHandle i) <> None).
Proof.
  intros c ls p i Hr Hg Hs. pose proof (reach_inv c ls p Hr Hg) as Hi.
  rewrite <- (refines_rfc c ls p Hr Hg) in Hs.
  split; [intros Hh Hz; exact (inv_loser p i Hi Hs Hh Hz) | exact (inv_loser_progress p i Hi)].
Qed.

(* ---- "ever": on serialised schedules only one of the two connections is Established at any time of the history *)
Lemma along_app_l : forall g l1 l2 p, along g p (l1 ++ l2) = true -> along g p l1 = true.
Proof.
  intros g l1 l2. induction l1 as [|l l1 IH]; intros p H; [reflexivity|].
  cbn [app along] in *. apply andb_prop in H. destruct H as [H1 H2]. rewrite H1. cbn.
  destruct (step p l) as [p'|]; [apply IH; exact H2 | reflexivity].
Qed.

Lemma run_app : forall l1 l2 p p1 p2, run p l1 = Some p1 -> run p1 l2 = Some p2 -> run p (l1 ++ l2) = Some p2.
Proof.
  induction l1 as [|l l1 IH]; intros l2 p p1 p2 H1 H2; cbn in *.
  - injection H1 as ->. exact H2.
  - destruct (step p l) as [p'|]; [|discriminate]. exact (IH l2 p' p1 p2 H1 H2).
Qed.

Lemma spec_run_app : forall c l1 l2 s, spec_run c s (l1 ++ l2) = spec_run c (spec_run c s l1) l2.
Proof. intros c l1 l2. induction l1 as [|l l1 IH]; intro s; cbn; [reflexivity | apply IH]. Qed.

Lemma spec_est_stable_step : forall c s l i, sget s i = SEstablished -> sget (spec_step c s l) i = SEstablished.
Proof.
  intros c [a b] l i H.
  destruct l as [| |k id|k|k|k|k]; try destruct k; destruct i; cbn in H; subst; cbn;
    try reflexivity;
    repeat match goal with
           | |- context [if ?x then _ else _] => destruct x
           | |- context [match ?x with SNone => _ | _ => _ end] => destruct x
           end; reflexivity.
Qed.

Lemma spec_est_stable_run : forall c ls s i, sget s i = SEstablished -> sget (spec_run c s ls) i = SEstablished.
Proof.
  intros c ls. induction ls as [|l ls IH]; intros s i H; cbn; [exact H|].
  apply IH. apply spec_est_stable_step. exact H.
Qed.

Theorem only_one_ever_partial : forall c l1 l2 p1 p2 i j,
  run (init c) l1 = Some p1 -> run p1 l2 = Some p2 -> serialised (init c) (l1 ++ l2) = true ->
  est (get p1 i) = true -> est (get p2 j) = true -> i = j.
Proof.
  intros c l1 l2 p1 p2 i j H1 H2 Hg Ei Ej.
  pose proof (along_app_l _ _ _ _ Hg) as Hg1.
  pose proof (survivor_is_rfc_choice_partial c l1 p1 i H1 Hg1 Ei) as Si.
  pose proof (survivor_is_rfc_choice_partial c (l1 ++ l2) p2 j (run_app _ _ _ _ _ H1 H2) Hg Ej) as Sj.
  pose proof (rfc_at_most_one c (l1 ++ l2)) as Safe.
  rewrite spec_run_app in Sj, Safe.
  pose proof (spec_est_stable_run c l2 _ i Si) as Si2.
  destruct i, j; try reflexivity; exfalso; apply Safe; cbn in Si2, Sj; rewrite Si2, Sj; split; reflexivity.
Qed.

(* ---- the two classes of schedules outside the guard --------------------------------------------- *)
Definition w_cfg : cfg := mkcfg 5 100 200.

(* both OPENs are checked before either new state is stored: both pass, both sessions establish *)
Definition w_window : list label :=
  [LUp; LAccept; LOpen false 9; LOpen true 9; LPublish false; LPublish true;
   LKeep false; LKeep true; LPublish false; LPublish true].

(* every check sees stored states, but the FSM that is asked to cease takes the KEEPALIVE first: it becomes
   Established and attached; once it has taken the Cease event the other one goes on to Established while the
   handler (NOTIFICATION, uninit, Close) has not run yet *)
Definition w_cease_race : list label :=
  [LUp; LAccept; LOpen false 9; LPublish false; LOpen true 9; LKeep false; LPublish false;
   LTake false; LPublish true; LKeep true; LPublish true].

Lemma witness_window : exists p,
  run (init w_cfg) w_window = Some p /\ est (f0 p) = true /\ est (f1 p) = true /\ rib_clients p = 2%N.
Proof. eexists. split; [vm_compute; reflexivity|]. vm_compute. auto. Qed.

(* the window schedule violates only the first conjunct of the guard ... *)
Lemma witness_window_class :
  checks_after_publication (init w_cfg) w_window = false /\ along cease_first_ok (init w_cfg) w_window = true.
Proof. split; vm_compute; reflexivity. Qed.

Lemma witness_cease_race : exists p,
  run (init w_cfg) w_cease_race = Some p /\ est (f0 p) = true /\ est (f1 p) = true /\ rib_clients p = 2%N.
Proof. eexists. split; [vm_compute; reflexivity|]. vm_compute. auto. Qed.

(* ... the cease race only the second *)
Lemma witness_cease_race_class :
  checks_after_publication (init w_cfg) w_cease_race = true /\ along cease_first_ok (init w_cfg) w_cease_race = false.
Proof. split; vm_compute; reflexivity. Qed.

Theorem at_most_one_refuted : exists c ls p,
  run (init c) ls = Some p /\ along cease_first_ok (init c) ls = true /\
  est (f0 p) = true /\ est (f1 p) = true.
Proof.
  destruct witness_window as [p [H1 [H2 [H3 _]]]]. exists w_cfg, w_window, p.
  split; [exact H1|]. split; [exact (proj2 witness_window_class)|]. auto.
Qed.

Theorem cease_race_refuted : exists c ls p,
  run (init c) ls = Some p /\ checks_after_publication (init c) ls = true /\
  est (f0 p) = true /\ est (f1 p) = true.
Proof.
  destruct witness_cease_race as [p [H1 [H2 [H3 _]]]]. exists w_cfg, w_cease_race, p.
  split; [exact H1|]. split; [exact (proj1 witness_cease_race_class)|]. auto.
Qed.
